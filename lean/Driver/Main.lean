import RsddModel.Driver.BddStream
import RsddModel.Driver.RingStream
import RsddModel.Driver.TblStream
import RsddModel.Driver.WmcStream
import RsddModel.Driver.SddStream
import RsddModel.Driver.OrdStream
import RsddModel.Driver.OptStream
import RsddModel.Driver.UpStream
import RsddModel.Driver.TdStream
import RsddModel.Driver.CompStream
import RsddModel.Driver.QueryStream
import RsddModel.Driver.CnfStream
import RsddModel.Driver.SerLines
import RsddModel.Driver.FfiStream
import RsddModel.Driver.CliStream
import RsddModel.Driver.HashStream
/-!
# Line-protocol driver

Reads one case per line on stdin, prints one verdict per line on stdout:
`ok …`, `FAIL MODEL …` (model and implementation disagree), `FAIL SPEC …` (the implementation
disagrees with the specification-level oracle: a property violation with the line as replay),
`FAIL PARSE …`.
-/
open Driver

def judge (line : String) : String :=
  match splitLine line with
  | none => "FAIL PARSE line"
  | some (stream, kvs, rhs) =>
    -- the harness's watchdog: the case exceeded the time limit (time is outside every property)
    if rhs == "timeout" then "ok timeout nontrivial=0" else
    match stream with
    | "bdd" => checkBddLine kvs rhs
    | "ring" => checkRingLine kvs rhs
    | "tbl" => checkTblLine kvs rhs
    | "lru" => checkLruLine kvs rhs
    | "wmc" => checkWmcLine kvs rhs
    | "sdd" => checkSddLine kvs rhs
    | "ord" => checkOrdLine kvs rhs
    | "opt" => checkOptLine kvs rhs
    | "up" => checkUpLine kvs rhs
    | "td" => checkTdLine kvs rhs
    | "comp" => checkCompLine kvs rhs
    | "query" => checkQueryLine kvs rhs
    | "cnf" => checkCnfLine kvs rhs
    | "ser" => checkSerLine kvs rhs
    | "ffi" => checkFfiLine kvs rhs
    | "cli" => checkCliLine kvs rhs
    | "hash" => checkHashLine kvs rhs
    | _ => s!"FAIL PARSE unknown stream {stream}"

partial def loop (h : IO.FS.Stream) : IO Unit := do
  let line ← h.getLine
  if line.isEmpty then return ()
  let line := (line.dropEndWhile (· == '\n')).toString
  if !line.isEmpty then
    IO.println (judge line)
  loop h

def main : IO Unit := do
  loop (← IO.getStdin)
