import RsddModel.Driver.BddStream
import RsddModel.Driver.RingStream
import RsddModel.Driver.TblStream
import RsddModel.Driver.WmcStream
import RsddModel.Driver.SddStream
import RsddModel.Driver.OrdStream
import RsddModel.Driver.OptStream
import RsddModel.Driver.UpStream
import RsddModel.Driver.TdStream
import RsddModel.Driver.CompStream
import RsddModel.Driver.QueryStream
import RsddModel.Driver.CnfStream
import RsddModel.Driver.SerLines
import RsddModel.Driver.FfiStream
import RsddModel.Driver.CliStream
import RsddModel.Driver.HashStream
/-!
# Line-protocol driver

Reads one case per line on stdin, prints one verdict per line on stdout:
`ok …`, `FAIL MODEL …` (model and implementation disagree), `FAIL SPEC …` (the implementation
disagrees with the specification-level oracle: a property violation with the line as replay),
`FAIL PARSE …`.
-/
open Driver

def judge (line : String) : String :=
  match splitLine line with
  | none => "FAIL PARSE line"
  | some (stream, kvs, rhs) =>
    -- the harness's watchdog: the case exceeded the time limit (time is outside every property)
    if rhs == "timeout" then "ok timeout nontrivial=0" else
    match stream with
    | "bdd" => checkBddLine kvs rhs
    | "ring" => checkRingLine kvs rhs
    | "tbl" => checkTblLine kvs rhs
    | "lru" => checkLruLine kvs rhs
    | "wmc" => checkWmcLine kvs rhs
    | "sdd" => checkSddLine kvs rhs
    | "ord" => checkOrdLine kvs rhs
    | "opt" => checkOptLine kvs rhs
    | "up" => checkUpLine kvs rhs
    | "td" => checkTdLine kvs rhs
    | "comp" => checkCompLine kvs rhs
    | "query" => checkQueryLine kvs rhs
    | "cnf" => checkCnfLine kvs rhs
    | "ser" => checkSerLine kvs rhs
    | "ffi" => checkFfiLine kvs rhs
    | "cli" => checkCliLine kvs rhs
    | "hash" => checkHashLine kvs rhs
    | _ => s!"FAIL PARSE unknown stream {stream}"

/-- Judge one line with a time limit.  The models are tree-level (sharing is unfolded), so a
few programs with heavily shared large diagrams take exponentially long to re-run; time is
outside every property, so such a line is reported as `ok driver-timeout` and counted in the
evidence histogram.  The abandoned computation keeps its thread until the process exits. -/
partial def judgeTimed (limitMs : Nat) (line : String) : IO String := do
  let t := Task.spawn (prio := .dedicated) fun _ => judge line
  let start ← IO.monoMsNow
  let rec wait (napMs : UInt32) : IO String := do
    if ← IO.hasFinished t then
      return t.get
    else if (← IO.monoMsNow) - start > limitMs then
      return "ok driver-timeout nontrivial=0"
    else
      IO.sleep napMs
      wait (if napMs < 50 then napMs * 2 else napMs)
  wait 1

partial def loop (h : IO.FS.Stream) (limitMs : Nat) : IO Unit := do
  let line ← h.getLine
  if line.isEmpty then return ()
  let line := (line.dropEndWhile (· == '\n')).toString
  if !line.isEmpty then
    IO.println (← judgeTimed limitMs line)
    (← IO.getStdout).flush
  loop h limitMs

def main : IO UInt32 := do
  let limit := ((← IO.getEnv "DRIVER_LINE_TIMEOUT_MS").bind String.toNat?).getD 30000
  loop (← IO.getStdin) limit
  -- leave without waiting for abandoned computations
  IO.Process.exit 0
