-- root of the library: imports are added as modules appear
import RsddModel.Spec.Basic
