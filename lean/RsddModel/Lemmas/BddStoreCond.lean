import RsddModel.Lemmas.BddStoreIte
/-!
# Lemmas: the store-level `cond_with_alloc` refines the tree-level one

`Scratch.condAlloc` (memo `HashMap<BddPtr, BddPtr>` keyed by references) against
`Bdd.condWithAlloc` (memo keyed by trees), in lockstep: the tree-level memo is the reference-level
memo mapped through `unfold` (`memoT`), every pointer test (`l == h`, `l != low_raw`, the memo
lookup) agrees by injectivity of `unfold`.  Then `condS`, `condModelS`, `existsS`, `composeS`.
-/
namespace BddStore
open Bdd Scratch Spec

/-- a table that extends a table satisfying the invariant... and conversely: the older part of
a table satisfying the invariant satisfies it -/
theorem storeOK_of_append : ∀ (l : Store) {s : Store}, StoreOK (l ++ s) → StoreOK s
  | [], _, h => h
  | _ :: l, _, h => storeOK_of_append l h.2.2.2

theorem storeOK_of_extends {s' s : Store} (he : Extends s' s) (h : StoreOK s') : StoreOK s := by
  obtain ⟨l, rfl⟩ := he; exact storeOK_of_append l h

/-! ## memos -/

/-- the tree-level memo a reference-level memo unfolds to -/
def memoT (s : Store) (m : CondCache) : Memo := m.map fun e => (unfold s e.1, unfold s e.2)

def MemoValid (s : Store) (m : CondCache) : Prop := ∀ e ∈ m, e.1.ValidIn s ∧ e.2.ValidIn s

theorem memoValid_nil (s : Store) : MemoValid s [] := by intro e he; cases he

theorem MemoValid.extends {s' s : Store} (he : Extends s' s) {m : CondCache} (h : MemoValid s m) :
    MemoValid s' m := fun e hm => ⟨validIn_extends he (h e hm).1, validIn_extends he (h e hm).2⟩

theorem MemoValid.cons {s : Store} {m : CondCache} (h : MemoValid s m) {k v : Ref} (hk : k.ValidIn s)
    (hv : v.ValidIn s) : MemoValid s ((k, v) :: m) := by
  intro e he
  rcases List.mem_cons.1 he with rfl | he
  · exact ⟨hk, hv⟩
  · exact h e he

theorem memoT_extends {s' s : Store} (he : Extends s' s) {m : CondCache} (h : MemoValid s m) :
    memoT s' m = memoT s m :=
  List.map_congr_left fun e hm => by
    rw [unfold_extends he (h e hm).1, unfold_extends he (h e hm).2]

/-- the memo lookup by reference is the memo lookup by tree -/
theorem memo_get_map {s : Store} (hs : StoreOK s) {r : Ref} (hr : r.ValidIn s) :
    ∀ {m : CondCache}, MemoValid s m →
      Memo.get (memoT s m) (unfold s r) = (CondCache.get m r).map (unfold s) ∧
      ∀ v, CondCache.get m r = some v → v.ValidIn s
  | [], _ => ⟨rfl, fun v h => by simp [CondCache.get] at h⟩
  | (k, v) :: m, hm => by
    have hk := (hm (k, v) (List.mem_cons_self ..))
    have hm' : MemoValid s m := fun e he => hm e (List.mem_cons_of_mem _ he)
    obtain ⟨ih1, ih2⟩ := memo_get_map hs hr hm'
    have e1 : (unfold s k = unfold s r) ↔ k = r := unfold_eq_iff hs hk.1 hr
    simp only [memoT, List.map_cons, Memo.get, CondCache.get, List.find?_cons, e1]
    by_cases hkr : k = r
    · subst hkr
      simp only [beq_self_eq_true, if_true, Option.map_some]
      exact ⟨trivial, fun v' h => by cases h; exact hk.2⟩
    · have : (k == r) = false := by simpa using hkr
      simp only [this, if_neg hkr]
      exact ⟨ih1, ih2⟩

/-! ## `cond_with_alloc` -/

theorem unfold_ite (s : Store) (c : Bool) (a b : Ref) :
    unfold s (if c then a else b) = if c then unfold s a else unfold s b := by cases c <;> rfl

/-- **the store-level `cond_with_alloc` refines the tree-level one, memo included** -/
theorem condAlloc_refines (lvl : Nat → Nat) (x : Nat) (b : Bool) :
    ∀ (view : Store) (r : Ref) (cur : Store) (m : CondCache),
      StoreOK cur → Extends cur view → r.ValidIn view → MemoValid cur m →
      StoreOK (condAlloc (ltOf lvl) x b view r (cur, m)).2.1 ∧
      Extends (condAlloc (ltOf lvl) x b view r (cur, m)).2.1 cur ∧
      (condAlloc (ltOf lvl) x b view r (cur, m)).1.ValidIn (condAlloc (ltOf lvl) x b view r (cur, m)).2.1 ∧
      MemoValid (condAlloc (ltOf lvl) x b view r (cur, m)).2.1 (condAlloc (ltOf lvl) x b view r (cur, m)).2.2 ∧
      condWithAlloc lvl x b (unfold cur r) (memoT cur m) =
        (memoT (condAlloc (ltOf lvl) x b view r (cur, m)).2.1 (condAlloc (ltOf lvl) x b view r (cur, m)).2.2,
         unfold (condAlloc (ltOf lvl) x b view r (cur, m)).2.1 (condAlloc (ltOf lvl) x b view r (cur, m)).1)
  | [], r, cur, m, hs, _, hr, hm => by
    have hi := validIn_nil hr
    simp only [condAlloc]
    have hv : r.ValidIn cur := fun i h => by rw [hi] at h; cases h
    refine ⟨hs, Extends.refl _, hv, hm, ?_⟩
    cases r <;> simp_all [Ref.idx?, condWithAlloc]
  | n :: rest, r, cur, m, hs, he, hr, hm => by
    have heRest : Extends cur rest := he.trans (Extends.cons n rest)
    cases hi : r.idx? with
    | none =>
      simp only [condAlloc, hi]
      have hv : r.ValidIn cur := fun i h => by rw [hi] at h; cases h
      refine ⟨hs, Extends.refl _, hv, hm, ?_⟩
      cases r <;> simp_all [Ref.idx?, condWithAlloc]
    | some i =>
      by_cases hne : i = rest.length
      · subst hne
        -- the node `r` points to
        have hview : StoreOK (n :: rest) := storeOK_of_extends he hs
        obtain ⟨nlo, nhi, _, _⟩ := hview
        have hnode : nodeAt cur rest.length = some n := nodeAt_extends he (by simp [nodeAt])
        have loC : n.lo.ValidIn cur := validIn_extends heRest nlo
        have hiC : n.hi.ValidIn cur := validIn_extends heRest nhi
        have rC : r.ValidIn cur := validIn_extends he hr
        have hu : unfold cur r = .node r.isNeg n.var (unfold cur n.lo) (unfold cur n.hi) :=
          unfold_of_nodeAt hs hi hnode
        simp only [condAlloc, hi, if_true]
        rw [hu]
        simp only [condWithAlloc]
        rw [← hu]
        by_cases hlt : lvl x < lvl n.var
        · -- passed the variable
          simp only [ltOf, hlt, decide_true, if_true]
          exact ⟨hs, Extends.refl _, rC, hm, by first | rfl | trivial⟩
        · simp only [ltOf, hlt, decide_false, Bool.false_eq_true, if_false]
          by_cases hvx : n.var = x
          · -- the conditioned variable
            simp only [hvx, if_true]
            refine ⟨hs, Extends.refl _, ?_, hm, ?_⟩
            · exact validIn_ite (validIn_neg (validIn_ite hiC loC)) (validIn_ite hiC loC)
            · cases b <;> cases r.isNeg <;> simp [unfold_neg]
          · simp only [hvx, if_false]
            obtain ⟨hget, hgetv⟩ := memo_get_map hs rC hm
            rw [hget]
            cases hg : CondCache.get m r with
            | some v =>
              simp only [Option.map_some]
              refine ⟨hs, Extends.refl _, validIn_ite (validIn_neg (hgetv v hg)) (hgetv v hg), hm, ?_⟩
              cases r.isNeg <;> simp [unfold_neg]
            | none =>
              simp only [Option.map_none]
              -- the two recursive calls
              obtain ⟨s1ok, e1, lv, m1v, run1⟩ := condAlloc_refines lvl x b rest n.lo cur m hs heRest nlo hm
              generalize condAlloc (ltOf lvl) x b rest n.lo (cur, m) = o1 at s1ok e1 lv m1v run1 ⊢
              obtain ⟨l, s1, m1⟩ := o1
              simp only at s1ok e1 lv m1v run1 ⊢
              obtain ⟨s2ok, e2, hv, m2v, run2⟩ :=
                condAlloc_refines lvl x b rest n.hi s1 m1 s1ok (e1.trans heRest) nhi m1v
              rw [unfold_extends e1 hiC] at run2
              generalize condAlloc (ltOf lvl) x b rest n.hi (s1, m1) = o2 at s2ok e2 hv m2v run2 ⊢
              obtain ⟨h, s2, m2⟩ := o2
              simp only at s2ok e2 hv m2v run2 ⊢
              rw [run1]
              simp only [run2]
              have e02 := e2.trans e1
              have lv2 : l.ValidIn s2 := validIn_extends e2 lv
              have lo2 : n.lo.ValidIn s2 := validIn_extends e02 loC
              have hi2 : n.hi.ValidIn s2 := validIn_extends e02 hiC
              have r2 : r.ValidIn s2 := validIn_extends e02 rC
              have ul : unfold s1 l = unfold s2 l := (unfold_extends e2 lv).symm
              have ulo : unfold cur n.lo = unfold s2 n.lo := (unfold_extends e02 loC).symm
              have uhi : unfold cur n.hi = unfold s2 n.hi := (unfold_extends e02 hiC).symm
              have ur : unfold cur r = unfold s2 r := (unfold_extends e02 rC).symm
              rw [ul, ulo, uhi, ur]
              simp only [unfold_eq_iff s2ok lv2 hv, ne_eq, unfold_eq_iff s2ok lv2 lo2,
                unfold_eq_iff s2ok hv hi2]
              by_cases hlh : l = h
              · -- both children equal: reduce
                simp only [hlh, if_true]
                refine ⟨s2ok, e02, validIn_ite (validIn_neg hv) hv, m2v, ?_⟩
                cases r.isNeg <;> simp [unfold_neg]
              · simp only [hlh, if_false]
                by_cases hch : ¬l = n.lo ∨ ¬h = n.hi
                · -- a changed node: allocate
                  simp only [hch, if_true]
                  obtain ⟨s3ok, e3, av, au⟩ := getOrInsert_spec s2ok (x := n.var) lv2 hv
                  generalize getOrInsert s2 ⟨n.var, l, h⟩ = a at s3ok e3 av au ⊢
                  obtain ⟨s3, ar⟩ := a
                  simp only at s3ok e3 av au ⊢
                  have resv : (if r.isNeg then ar.neg else ar).ValidIn s3 := validIn_ite (validIn_neg av) av
                  refine ⟨s3ok, e3.trans e02, resv,
                    (m2v.extends e3).cons (validIn_extends e3 r2) (validIn_ite (validIn_neg resv) resv), ?_⟩
                  simp only [memoT, List.map_cons]
                  rw [show List.map (fun e => (unfold s3 e.1, unfold s3 e.2)) m2 = memoT s3 m2 from rfl,
                    memoT_extends e3 m2v, unfold_extends e3 r2]
                  cases r.isNeg <;> simp [unfold_neg, au, memoT]
                · -- nothing changed
                  simp only [hch, if_false]
                  refine ⟨s2ok, e02, r2, m2v.cons r2 (validIn_ite (validIn_neg r2) r2), ?_⟩
                  simp only [memoT, List.map_cons]
                  cases r.isNeg <;> simp [unfold_neg]
      · -- `r` points below the head of the view
        have hr' : r.ValidIn rest := by
          intro j hj; rw [hi] at hj; cases hj
          have := hr i hi; simp at this; omega
        have := condAlloc_refines lvl x b rest r cur m hs heRest hr' hm
        simpa only [condAlloc, hi, hne, if_false] using this

/-! ## `condition`, `cond_model`, `exists`, `compose` -/

/-- **`condition` at store level is `condition` at tree level** -/
theorem condS_spec (lvl : Nat → Nat) {s : Store} (hs : StoreOK s) {r : Ref} (hr : r.ValidIn s)
    (x : Nat) (b : Bool) :
    StoreOK (condS lvl s r x b).1 ∧ Extends (condS lvl s r x b).1 s ∧
    (condS lvl s r x b).2.ValidIn (condS lvl s r x b).1 ∧
    unfold (condS lvl s r x b).1 (condS lvl s r x b).2 = condition lvl (unfold s r) x b := by
  obtain ⟨h1, h2, h3, _, h5⟩ := condAlloc_refines lvl x b s r s [] hs (Extends.refl s) hr (memoValid_nil s)
  refine ⟨h1, h2, h3, ?_⟩
  simp only [condS, Bdd.condition]
  have : memoT s [] = [] := rfl
  rw [this] at h5
  rw [h5]

theorem condModelS_spec (lvl : Nat → Nat) : ∀ (mdl : List (Nat × Bool)) {s : Store}, StoreOK s →
    ∀ {r : Ref}, r.ValidIn s →
    StoreOK (condModelS lvl s r mdl).1 ∧ Extends (condModelS lvl s r mdl).1 s ∧
    (condModelS lvl s r mdl).2.ValidIn (condModelS lvl s r mdl).1 ∧
    unfold (condModelS lvl s r mdl).1 (condModelS lvl s r mdl).2 = condModel lvl (unfold s r) mdl
  | [], s, hs, r, hr => ⟨hs, Extends.refl s, hr, rfl⟩
  | (x, b) :: rest, s, hs, r, hr => by
    obtain ⟨a1, a2, a3, a4⟩ := condS_spec lvl hs hr x b
    obtain ⟨b1, b2, b3, b4⟩ := condModelS_spec lvl rest a1 a3
    simp only [condModelS, condModel]
    exact ⟨b1, b2.trans a2, b3, by rw [b4, a4]⟩

section ops
variable {CS : CacheS} {CT : CacheImpl} (sim : CacheSim CS CT) (lvl : Nat → Nat) (fuel : Nat)

/-- a refinement that starts after the table has grown (by calls that do not touch the cache) -/
theorem Refines.of_grown {s0 s1 : Store} {c : CS.σ} {st' : Store × CS.σ} {r : Ref}
    {call call' : CT.σ → Option (CT.σ × Ptr)} (hs0 : StoreOK s0) (hs1 : StoreOK s1) (he : Extends s1 s0)
    (hc : CacheValid CS s0 c) (h : Refines sim (s1, c) st' r call) (hcall : call = call') :
    Refines sim (s0, c) st' r call' := by
  subst hcall
  obtain ⟨⟨a1, a2, a3, a4⟩, hsim⟩ := h
  refine ⟨⟨a1, a2.trans he, a3, a4⟩, fun cT' hR => ?_⟩
  obtain ⟨cT, hR0, hcall⟩ := hsim cT' hR
  exact ⟨cT, sim.mono_back hs0 hs1 he hc hR0, hcall⟩

theorem existsS_refines {st st' : Store × CS.σ} {f r : Ref} (x : Nat) (hs : StoreOK st.1)
    (hc : CacheValid CS st.1 st.2) (hf : f.ValidIn st.1)
    (hrun : existsS CS lvl fuel st f x = some (st', r)) :
    Refines sim st st' r (fun cT => bExists CT lvl fuel cT (unfold st.1 f) x) := by
  obtain ⟨s, c⟩ := st
  simp only at hs hc hf
  simp only [existsS] at hrun
  obtain ⟨a1, a2, a3, a4⟩ := condS_spec lvl hs hf x true
  obtain ⟨b1, b2, b3, b4⟩ := condS_spec lvl a1 (validIn_extends a2 hf) x false
  have e02 := b2.trans a2
  have href := orS_refines sim lvl fuel (st := ((condS lvl (condS lvl s f x true).1 f x false).1, c))
    b1 (hc.extends e02) (validIn_extends b2 a3) b3 hrun
  refine Refines.of_grown sim hs b1 e02 hc href ?_
  funext cT
  simp only [bExists]
  rw [unfold_extends b2 a3, a4, b4, unfold_extends a2 hf]

theorem composeS_refines {st st' : Store × CS.σ} {f g r : Ref} (x : Nat) (hs : StoreOK st.1)
    (hc : CacheValid CS st.1 st.2) (hf : f.ValidIn st.1) (hg : g.ValidIn st.1)
    (hrun : composeS CS lvl fuel st f x g = some (st', r)) :
    Refines sim st st' r (fun cT => bCompose CT lvl fuel cT (unfold st.1 f) x (unfold st.1 g)) := by
  obtain ⟨s, c⟩ := st
  simp only at hs hc hf hg
  simp only [composeS] at hrun
  obtain ⟨v1, v2, v3, v4⟩ := varS_spec hs x true
  split at hrun
  · cases hrun
  · rename_i st1 i h1
    split at hrun
    · cases hrun
    · rename_i st2 a h2
      obtain ⟨⟨i1, i2, i3, i4⟩, simI⟩ := iffS_refines sim lvl fuel (st := ((varS s x true).1, c)) v1
        (hc.extends v2) v3 (validIn_extends v2 hg) h1
      simp only at i1 i2 i3 i4 simI
      have hf1 : f.ValidIn st1.1 := validIn_extends (i2.trans v2) hf
      obtain ⟨⟨b1, b2, b3, b4⟩, simA⟩ := andS_refines sim lvl fuel i1 i3 i4 hf1 h2
      obtain ⟨⟨c1, c2, c3, c4⟩, simE⟩ := existsS_refines sim lvl fuel x b1 b3 b4 hrun
      refine ⟨⟨c1, (c2.trans b2).trans (i2.trans v2), c3, c4⟩, fun cT' hR => ?_⟩
      obtain ⟨cT2, hR2, runE⟩ := simE cT' hR
      obtain ⟨cT1, hR1, runA⟩ := simA cT2 hR2
      obtain ⟨cT0, hR0, runI⟩ := simI cT1 hR1
      refine ⟨cT0, sim.mono_back hs v1 v2 hc hR0, ?_⟩
      rw [v4, unfold_extends v2 hg] at runI
      rw [unfold_extends (i2.trans v2) hf] at runA
      simp only [bCompose, runI, runA, runE]

end ops

/-! ## the table stays reduced -/

theorem condAlloc_red (lt : Nat → Nat → Bool) (x : Nat) (b : Bool) :
    ∀ (view : Store) (r : Ref) (st : Store × CondCache), StoreRed st.1 →
      StoreRed (condAlloc lt x b view r st).2.1
  | [], _, _, h => h
  | n :: rest, r, st, h => by
    simp only [condAlloc]
    cases r.idx? with
    | none => exact h
    | some i =>
      simp only
      have h1 := condAlloc_red lt x b rest n.lo st h
      have h2 := condAlloc_red lt x b rest n.hi (condAlloc lt x b rest n.lo st).2 h1
      split
      · split
        · exact h
        · split
          · exact h
          · split
            · exact h
            · split
              · exact h2
              · rename_i hne
                simp only
                split
                · exact getOrInsert_red h2 hne
                · exact h2
      · exact condAlloc_red lt x b rest r st h

theorem condS_red (lvl : Nat → Nat) {s : Store} (h : StoreRed s) (r : Ref) (x : Nat) (b : Bool) :
    StoreRed (condS lvl s r x b).1 := condAlloc_red _ x b s r (s, []) h

theorem condModelS_red (lvl : Nat → Nat) : ∀ (mdl : List (Nat × Bool)) {s : Store}, StoreRed s →
    ∀ (r : Ref), StoreRed (condModelS lvl s r mdl).1
  | [], _, h, _ => h
  | (x, b) :: rest, _, h, r => condModelS_red lvl rest (condS_red lvl h r x b) _

section red
variable (CS : CacheS) (lvl : Nat → Nat) (fuel : Nat)

theorem orS_red {st : Store × CS.σ} {f g : Ref} {a} (hr : StoreRed st.1)
    (h : orS CS lvl fuel st f g = some a) : StoreRed a.1.1 := by
  simp only [orS, andS] at h
  split at h
  · rename_i st2 r2 h2
    cases h; exact iteS_red CS lvl fuel _ _ _ _ _ _ hr h2
  · cases h

theorem andLstS_red : ∀ (ps : List Ref) {st : Store × CS.σ} {acc : Ref} {a}, StoreRed st.1 →
    andLstS CS lvl fuel st acc ps = some a → StoreRed a.1.1
  | [], _, _, _, hr, h => by simp only [andLstS, Option.some.injEq] at h; subst h; exact hr
  | p :: ps, _, _, _, hr, h => by
    simp only [andLstS, andS] at h
    split at h
    · cases h
    · rename_i st2 r2 h2
      exact andLstS_red ps (iteS_red CS lvl fuel _ _ _ _ _ _ hr h2) h

theorem orLstS_red : ∀ (ps : List Ref) {st : Store × CS.σ} {acc : Ref} {a}, StoreRed st.1 →
    orLstS CS lvl fuel st acc ps = some a → StoreRed a.1.1
  | [], _, _, _, hr, h => by simp only [orLstS, Option.some.injEq] at h; subst h; exact hr
  | p :: ps, _, _, _, hr, h => by
    simp only [orLstS] at h
    split at h
    · cases h
    · rename_i st2 r2 h2
      exact orLstS_red ps (orS_red CS lvl fuel hr h2) h

theorem existsS_red {st : Store × CS.σ} {f : Ref} {x : Nat} {a} (hr : StoreRed st.1)
    (h : existsS CS lvl fuel st f x = some a) : StoreRed a.1.1 := by
  simp only [existsS] at h
  exact orS_red CS lvl fuel (st := (_, st.2)) (condS_red lvl (condS_red lvl hr f x true) f x false) h

theorem composeS_red {st : Store × CS.σ} {f g : Ref} {x : Nat} {a} (hr : StoreRed st.1)
    (h : composeS CS lvl fuel st f x g = some a) : StoreRed a.1.1 := by
  simp only [composeS, iffS, andS] at h
  split at h
  · cases h
  · rename_i st1 i h1
    split at h
    · cases h
    · rename_i st2 a2 h2
      have r1 := iteS_red CS lvl fuel (_, st.2) _ _ _ _ _ (varS_red hr x true) h1
      exact existsS_red CS lvl fuel (iteS_red CS lvl fuel _ _ _ _ _ _ r1 h2) h

end red

#print axioms condAlloc_refines
#print axioms condS_spec
end BddStore
