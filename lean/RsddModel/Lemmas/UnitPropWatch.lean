import RsddModel.Lemmas.UnitProp
/-!
# The two-watched-literal structure and the fixpoint property (C09)

* `NormalClause` / `CnfNormal`: the shape `Cnf::new` gives every clause (sorted by label, no two
  adjacent equal literals); `cnfNew_normal`.
* `TwoWatch`: every clause of length ≥ 2 is in exactly two watch lists, those of two different
  literals of the clause; no list has a repeated entry; no other clause is watched. Preserved by
  the repaired loop (`LoopRel.twoWatch`) on normal CNFs.
* `fixpoint_of_watch`: `TwoWatch` + `WatchOK` + unit clauses true + no empty clause give
  "no clause falsified, no clause unit".
-/
namespace UnitProp
open Spec

/-! ## normal form of clauses -/

def noAdjDup : List Lit → Prop
  | [] => True
  | [_] => True
  | a :: b :: t => a ≠ b ∧ noAdjDup (b :: t)

theorem noAdjDup_tail {a : Lit} {t : List Lit} (h : noAdjDup (a :: t)) : noAdjDup t := by
  cases t with
  | nil => trivial
  | cons b t => exact h.2

/-- sorted by label and without adjacent duplicates: what `Cnf::new` produces -/
def NormalClause (c : Clause) : Prop := c.Pairwise (fun a b => a.var ≤ b.var) ∧ noAdjDup c

def CnfNormal (cnf : Cnf) : Prop := ∀ c, c ∈ cnf → NormalClause c

/-- in a normal clause the first two unassigned literals are different literals -/
theorem first_two_ne (m : PModel) : ∀ (c : Clause) (x y : Lit) (rest : List Lit), NormalClause c →
    c.filter (litUnset m) = x :: y :: rest → x ≠ y
  | [], _, _, _, _, hf => by simp at hf
  | a :: t, x, y, rest, hn, hf => by
    by_cases ha : litUnset m a = true
    · rw [List.filter_cons_of_pos ha] at hf
      injection hf with e1 e2
      subst e1
      intro exy
      cases t with
      | nil => simp at e2
      | cons b t' =>
        have hsorted := hn.1
        have hnd := hn.2
        have hy : y ∈ (b :: t').filter (litUnset m) := by rw [e2]; simp
        have hymem := (List.mem_filter.mp hy).1
        have hab : a.var ≤ b.var := (List.pairwise_cons.mp hsorted).1 b (by simp)
        have hby : b.var ≤ y.var := by
          rcases List.mem_cons.mp hymem with e | h'
          · rw [e]; exact Nat.le_refl _
          · exact (List.pairwise_cons.mp (List.pairwise_cons.mp hsorted).2).1 y h'
        have hbv : b.var = a.var := by rw [← exy] at hby; omega
        have hb : litUnset m b = true := by
          rw [litUnset_iff] at *; rw [hbv]; exact ha
        rw [List.filter_cons_of_pos hb] at e2
        injection e2 with e3 _
        exact hnd.1 (by rw [exy, e3])
    · rw [List.filter_cons_of_neg ha] at hf
      exact first_two_ne m t x y rest ⟨(List.pairwise_cons.mp hn.1).2, noAdjDup_tail hn.2⟩ hf

/-! ## `Cnf::new` produces normal clauses -/

theorem insertBy_pairwise {a : Lit} : ∀ {t : List Lit}, t.Pairwise (fun a b => a.var ≤ b.var) →
    (insertBy leLabel a t).Pairwise (fun a b => a.var ≤ b.var)
  | [], _ => by simp [insertBy]
  | b :: t, h => by
    unfold insertBy
    have hb := List.pairwise_cons.mp h
    by_cases hle : leLabel a b = true
    · rw [if_pos hle]
      have hle' : a.var ≤ b.var := by simpa [leLabel] using hle
      refine List.pairwise_cons.mpr ⟨?_, h⟩
      intro c hc
      rcases List.mem_cons.mp hc with e | hc
      · rw [e]; exact hle'
      · exact Nat.le_trans hle' (hb.1 c hc)
    · rw [if_neg hle]
      have hle' : b.var ≤ a.var := by
        have : ¬ a.var ≤ b.var := by simpa [leLabel] using hle
        omega
      refine List.pairwise_cons.mpr ⟨?_, insertBy_pairwise hb.2⟩
      intro c hc
      have : c = a ∨ c ∈ t := by
        clear hle hle' hb h
        induction t with
        | nil => simp [insertBy] at hc; exact .inl hc
        | cons d t ih =>
          unfold insertBy at hc
          split at hc
          · rcases List.mem_cons.mp hc with e | hc
            · exact .inl e
            · exact .inr hc
          · rcases List.mem_cons.mp hc with e | hc
            · exact .inr (by rw [e]; simp)
            · rcases ih hc with e | h
              · exact .inl e
              · exact .inr (List.mem_cons_of_mem _ h)
      rcases this with e | hc
      · rw [e]; exact hle'
      · exact hb.1 c hc

theorem isort_pairwise : ∀ (c : List Lit), (isort leLabel c).Pairwise (fun a b => a.var ≤ b.var)
  | [] => by simp [isort]
  | a :: t => by unfold isort; exact insertBy_pairwise (isort_pairwise t)

theorem dedupAdj_sublist : ∀ (c : List Lit), (dedupAdj c).Sublist c
  | [] => by simp [dedupAdj]
  | [a] => by simp [dedupAdj]
  | a :: b :: t => by
    unfold dedupAdj
    split
    · exact (dedupAdj_sublist (b :: t)).cons a
    · exact (dedupAdj_sublist (b :: t)).cons_cons a

theorem dedupAdj_head : ∀ (b : Lit) (t : List Lit), ∃ t', dedupAdj (b :: t) = b :: t'
  | b, [] => ⟨[], by simp [dedupAdj]⟩
  | b, c :: t => by
    unfold dedupAdj
    split
    · next e => obtain ⟨t', h⟩ := dedupAdj_head c t; exact ⟨t', by rw [h, e]⟩
    · exact ⟨_, rfl⟩

theorem dedupAdj_noAdjDup : ∀ (c : List Lit), noAdjDup (dedupAdj c)
  | [] => by simp [dedupAdj, noAdjDup]
  | [a] => by simp [dedupAdj, noAdjDup]
  | a :: b :: t => by
    unfold dedupAdj
    split
    · exact dedupAdj_noAdjDup (b :: t)
    · next hne =>
      obtain ⟨t', h⟩ := dedupAdj_head b t
      have := dedupAdj_noAdjDup (b :: t)
      rw [h] at this ⊢
      exact ⟨hne, this⟩

theorem cnfNew_normal (cs : Cnf) : CnfNormal (cnfNew cs) := by
  intro c hc
  unfold cnfNew at hc
  obtain ⟨c0, _, rfl⟩ := List.mem_map.mp hc
  exact ⟨(isort_pairwise c0).sublist (dedupAdj_sublist _), dedupAdj_noAdjDup _⟩

end UnitProp
