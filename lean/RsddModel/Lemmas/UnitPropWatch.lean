import RsddModel.Lemmas.UnitProp
/-!
# The two-watched-literal structure and the fixpoint property (C09)

* `NormalClause` / `CnfNormal`: the shape `Cnf::new` gives every clause (sorted by label, no two
  adjacent equal literals); `cnfNew_normal`.
* `TwoWatch`: every clause of length ≥ 2 is in exactly two watch lists, those of two different
  literals of the clause; no list has a repeated entry; no other clause is watched. Preserved by
  the repaired loop (`LoopRel.twoWatch`) on normal CNFs.
* `fixpoint_of_watch`: `TwoWatch` + `WatchOK` + unit clauses true + no empty clause give
  "no clause falsified, no clause unit".
-/
namespace UnitProp
open Spec

/-! ## normal form of clauses -/

def noAdjDup : List Lit → Prop
  | [] => True
  | [_] => True
  | a :: b :: t => a ≠ b ∧ noAdjDup (b :: t)

theorem noAdjDup_tail {a : Lit} {t : List Lit} (h : noAdjDup (a :: t)) : noAdjDup t := by
  cases t with
  | nil => trivial
  | cons b t => exact h.2

/-- sorted by label and without adjacent duplicates: what `Cnf::new` produces -/
def NormalClause (c : Clause) : Prop := c.Pairwise (fun a b => a.var ≤ b.var) ∧ noAdjDup c

def CnfNormal (cnf : Cnf) : Prop := ∀ c, c ∈ cnf → NormalClause c

/-- in a normal clause the first two unassigned literals are different literals -/
theorem first_two_ne (m : PModel) : ∀ (c : Clause) (x y : Lit) (rest : List Lit), NormalClause c →
    c.filter (litUnset m) = x :: y :: rest → x ≠ y
  | [], _, _, _, _, hf => by simp at hf
  | a :: t, x, y, rest, hn, hf => by
    by_cases ha : litUnset m a = true
    · rw [List.filter_cons_of_pos ha] at hf
      injection hf with e1 e2
      subst e1
      intro exy
      cases t with
      | nil => simp at e2
      | cons b t' =>
        have hsorted := hn.1
        have hnd := hn.2
        have hy : y ∈ (b :: t').filter (litUnset m) := by rw [e2]; simp
        have hymem := (List.mem_filter.mp hy).1
        have hab : a.var ≤ b.var := (List.pairwise_cons.mp hsorted).1 b (by simp)
        have hby : b.var ≤ y.var := by
          rcases List.mem_cons.mp hymem with e | h'
          · rw [e]; exact Nat.le_refl _
          · exact (List.pairwise_cons.mp (List.pairwise_cons.mp hsorted).2).1 y h'
        have hbv : b.var = a.var := by rw [← exy] at hby; omega
        have hb : litUnset m b = true := by
          rw [litUnset_iff] at *; rw [hbv]; exact ha
        rw [List.filter_cons_of_pos hb] at e2
        injection e2 with e3 _
        exact hnd.1 (by rw [exy, e3])
    · rw [List.filter_cons_of_neg ha] at hf
      exact first_two_ne m t x y rest ⟨(List.pairwise_cons.mp hn.1).2, noAdjDup_tail hn.2⟩ hf

/-! ## `Cnf::new` produces normal clauses -/

theorem insertBy_pairwise {a : Lit} : ∀ {t : List Lit}, t.Pairwise (fun a b => a.var ≤ b.var) →
    (insertBy leLabel a t).Pairwise (fun a b => a.var ≤ b.var)
  | [], _ => by simp [insertBy]
  | b :: t, h => by
    unfold insertBy
    have hb := List.pairwise_cons.mp h
    by_cases hle : leLabel a b = true
    · rw [if_pos hle]
      have hle' : a.var ≤ b.var := by simpa [leLabel] using hle
      refine List.pairwise_cons.mpr ⟨?_, h⟩
      intro c hc
      rcases List.mem_cons.mp hc with e | hc
      · rw [e]; exact hle'
      · exact Nat.le_trans hle' (hb.1 c hc)
    · rw [if_neg hle]
      have hle' : b.var ≤ a.var := by
        have : ¬ a.var ≤ b.var := by simpa [leLabel] using hle
        omega
      refine List.pairwise_cons.mpr ⟨?_, insertBy_pairwise hb.2⟩
      intro c hc
      have : c = a ∨ c ∈ t := by
        clear hle hle' hb h
        induction t with
        | nil => simp [insertBy] at hc; exact .inl hc
        | cons d t ih =>
          unfold insertBy at hc
          split at hc
          · rcases List.mem_cons.mp hc with e | hc
            · exact .inl e
            · exact .inr hc
          · rcases List.mem_cons.mp hc with e | hc
            · exact .inr (by rw [e]; simp)
            · rcases ih hc with e | h
              · exact .inl e
              · exact .inr (List.mem_cons_of_mem _ h)
      rcases this with e | hc
      · rw [e]; exact hle'
      · exact hb.1 c hc

theorem isort_pairwise : ∀ (c : List Lit), (isort leLabel c).Pairwise (fun a b => a.var ≤ b.var)
  | [] => by simp [isort]
  | a :: t => by unfold isort; exact insertBy_pairwise (isort_pairwise t)

theorem dedupAdj_sublist : ∀ (c : List Lit), (dedupAdj c).Sublist c
  | [] => by simp [dedupAdj]
  | [a] => by simp [dedupAdj]
  | a :: b :: t => by
    unfold dedupAdj
    split
    · exact (dedupAdj_sublist (b :: t)).cons a
    · exact (dedupAdj_sublist (b :: t)).cons_cons a

theorem dedupAdj_head : ∀ (b : Lit) (t : List Lit), ∃ t', dedupAdj (b :: t) = b :: t'
  | b, [] => ⟨[], by simp [dedupAdj]⟩
  | b, c :: t => by
    unfold dedupAdj
    split
    · next e => obtain ⟨t', h⟩ := dedupAdj_head c t; exact ⟨t', by rw [h, e]⟩
    · exact ⟨_, rfl⟩

theorem dedupAdj_noAdjDup : ∀ (c : List Lit), noAdjDup (dedupAdj c)
  | [] => by simp [dedupAdj, noAdjDup]
  | [a] => by simp [dedupAdj, noAdjDup]
  | a :: b :: t => by
    unfold dedupAdj
    split
    · exact dedupAdj_noAdjDup (b :: t)
    · next hne =>
      obtain ⟨t', h⟩ := dedupAdj_head b t
      have := dedupAdj_noAdjDup (b :: t)
      rw [h] at this ⊢
      exact ⟨hne, this⟩

theorem cnfNew_normal (cs : Cnf) : CnfNormal (cnfNew cs) := by
  intro c hc
  unfold cnfNew at hc
  obtain ⟨c0, _, rfl⟩ := List.mem_map.mp hc
  exact ⟨(isort_pairwise c0).sublist (dedupAdj_sublist _), dedupAdj_noAdjDup _⟩

/-! ## the two-watch structure -/

structure TwoWatch (cnf : Cnf) (wl : WL) : Prop where
  /-- no list has a repeated entry -/
  nodup : ∀ p v, (wl.get p v).Nodup
  /-- a clause with at least two literals is watched by exactly two different literals of it -/
  two : ∀ i, i < cnf.length → 2 ≤ (cnf.getD i []).length →
    ∃ w1 w2, w1 ≠ w2 ∧ w1 ∈ cnf.getD i [] ∧ w2 ∈ cnf.getD i [] ∧
      ∀ w, Watches wl i w ↔ (w = w1 ∨ w = w2)
  /-- nothing else is watched -/
  only : ∀ i w, Watches wl i w → i < cnf.length ∧ 2 ≤ (cnf.getD i []).length

theorem nodup_getElem_inj {l : List Nat} (h : l.Nodup) {i j : Nat} (hi : i < l.length)
    (hj : j < l.length) (e : l[i] = l[j]) : i = j := by
  rw [List.nodup_iff_pairwise_ne, List.pairwise_iff_getElem] at h
  rcases Nat.lt_trichotomy i j with hlt | heq | hgt
  · exact absurd e (h i j hi hj hlt)
  · exact heq
  · exact absurd e.symm (h j i hj hi hgt)

theorem mem_swapRemove_iff {xs : List Nat} (hnd : xs.Nodup) {k : Nat} (hk : k < xs.length) (i : Nat) :
    i ∈ swapRemove xs k ↔ i ∈ xs ∧ i ≠ xs.getD k 0 := by
  rw [(swapRemove_perm xs k hk).mem_iff, List.mem_eraseIdx_iff_getElem,
    List.getD_eq_getElem?_getD, List.getElem?_eq_getElem hk]
  simp only [Option.getD_some]
  constructor
  · rintro ⟨j, hj, hne, e⟩
    refine ⟨e ▸ List.getElem_mem hj, ?_⟩
    intro e2
    exact hne (nodup_getElem_inj hnd hj hk (by rw [e, e2]))
  · rintro ⟨hm, hne⟩
    obtain ⟨j, hj, e⟩ := List.mem_iff_getElem.mp hm
    exact ⟨j, hj, fun e2 => hne (by subst e2; exact e.symm), e⟩

section move
variable {cnf : Cnf} {wl : WL} {l nl : Lit} {idx : Nat}

theorem watches_move_new (hne : nl.var ≠ l.var) (i : Nat) :
    Watches (moveWatch wl l idx nl) i nl ↔ Watches wl i nl ∨ i = curIdx wl l idx := by
  unfold Watches moveWatch
  rw [WL.get_push, if_pos ⟨rfl, rfl⟩, List.mem_append, WL.get_upd, if_neg (fun e => hne e.2)]
  simp

theorem watches_move_old (hne : nl.var ≠ l.var) (hnd : (wl.get (!l.pol) l.var).Nodup)
    (hlt : idx < (wl.get (!l.pol) l.var).length) (i : Nat) :
    Watches (moveWatch wl l idx nl) i l.neg ↔ Watches wl i l.neg ∧ i ≠ curIdx wl l idx := by
  unfold Watches
  rw [lneg_pol, lneg_var, moveWatch_get_self hne, mem_swapRemove_iff hnd hlt]
  rfl

theorem watches_move_other {w : Lit} (h1 : w ≠ nl) (h2 : w ≠ l.neg) (i : Nat) :
    Watches (moveWatch wl l idx nl) i w ↔ Watches wl i w := by
  unfold Watches
  rw [moveWatch_get_other (fun e => h2 (lit_eq_neg e.2 e.1)) (fun e => h1 (lit_ext e.1 e.2))]

end move

/-- one watch replacement of the repaired code keeps the two-watch structure -/
theorem TwoWatch.move {cnf : Cnf} {wl : WL} {m : PModel} {l : Lit} {idx : Nat}
    {cand second : Lit} {rest : List Lit}
    (hN : CnfNormal cnf) (h2 : TwoWatch cnf wl) (hl : m l.var = some l.pol)
    (hlt : idx < (wl.get (!l.pol) l.var).length)
    (hf : (curClause cnf wl l idx).filter (litUnset m) = cand :: second :: rest) :
    TwoWatch cnf (moveWatch wl l idx (pickWatch true wl l (curIdx wl l idx) cand second)) := by
  -- abbreviations
  generalize hci : curIdx wl l idx = ci at *
  have hcl : curClause cnf wl l idx = cnf.getD ci [] := by rw [← hci]; rfl
  have F0 : Watches wl ci l.neg := by rw [← hci]; exact curIdx_mem hlt
  have F1 := h2.only ci _ F0
  obtain ⟨w1, w2, hw12, hw1m, hw2m, hiff⟩ := h2.two ci F1.1 F1.2
  -- the other watch
  have hother : ∃ wo, wo ≠ l.neg ∧ wo ∈ cnf.getD ci [] ∧ ∀ w, Watches wl ci w ↔ (w = l.neg ∨ w = wo) := by
    rcases (hiff _).mp F0 with e | e
    · exact ⟨w2, by rw [e]; exact fun h => hw12 h.symm, hw2m, by intro w; rw [e]; exact hiff w⟩
    · refine ⟨w1, by rw [e]; exact hw12, hw1m, ?_⟩
      intro w; rw [e, hiff w]; exact Or.comm
  obtain ⟨wo, hwo, hwom, hiffo⟩ := hother
  have hcandU := mem_filter_unset hf
  have hnorm : NormalClause (curClause cnf wl l idx) := hN _ (curClause_mem (fun p v i h => (h2.only i ⟨v, p⟩ h).1) hlt)
  have hcs : cand ≠ second := first_two_ne m _ _ _ _ hnorm hf
  have hsecU : m second.var = none := by
    have : second ∈ (curClause cnf wl l idx).filter (litUnset m) := by rw [hf]; simp
    exact litUnset_iff.mp (List.mem_filter.mp this).2
  have hnotneg : ∀ w : Lit, m w.var = none → w ≠ l.neg := by
    intro w hw e; rw [e, lneg_var, hl] at hw; cases hw
  generalize hnl : pickWatch true wl l ci cand second = nl
  have hnlU := pickWatch_unset (rep := true) (wl := wl) (l := l) (ci := ci) hf
  rw [hnl, hcl] at hnlU
  have hne : nl.var ≠ l.var := by intro e; rw [e, hl] at hnlU; cases hnlU.1
  -- the new literal is not yet watched by the clause
  have F5 : ¬ Watches wl ci nl := by
    unfold pickWatch at hnl
    simp only [if_true] at hnl
    by_cases hc : ci ∈ wl.get cand.pol cand.var
    · have hcw : Watches wl ci cand := hc
      have e1 : cand = wo := ((hiffo _).mp hcw).resolve_left (hnotneg _ hcandU)
      simp only [List.contains_iff_mem, hc, if_true] at hnl
      subst hnl
      intro hw
      have e2 : second = wo := ((hiffo _).mp hw).resolve_left (hnotneg _ hsecU)
      exact hcs (e1.trans e2.symm)
    · simp only [List.contains_iff_mem, hc] at hnl
      simp at hnl
      subst hnl
      exact hc
  have hnlwo : nl ≠ wo := fun e => F5 ((hiffo _).mpr (.inr e))
  have hnlneg : nl ≠ l.neg := hnotneg _ hnlU.1
  have hnd := h2.nodup (!l.pol) l.var
  refine ⟨?_, ?_, ?_⟩
  · -- nodup
    intro p v
    by_cases e1 : p = nl.pol ∧ v = nl.var
    · have : (moveWatch wl l idx nl).get p v = wl.get nl.pol nl.var ++ [ci] := by
        unfold moveWatch
        rw [WL.get_push, if_pos e1, WL.get_upd, if_neg (fun e => hne (e1.2 ▸ e.2)), e1.1, e1.2, hci]
      rw [this, List.nodup_append]
      refine ⟨h2.nodup _ _, by simp, ?_⟩
      intro a ha b hb
      have : b = ci := by simpa using hb
      subst this
      intro e; subst e; exact F5 ha
    · by_cases e2 : p = (!l.pol) ∧ v = l.var
      · rw [e2.1, e2.2, moveWatch_get_self hne, (swapRemove_perm _ _ hlt).nodup_iff]
        exact hnd.sublist (List.eraseIdx_sublist _ _)
      · rw [moveWatch_get_other e2 e1]; exact h2.nodup _ _
  · -- two
    intro i hi hlen
    by_cases hic : i = ci
    · subst hic
      refine ⟨wo, nl, fun e => hnlwo e.symm, hwom, hnlU.2, ?_⟩
      intro w
      by_cases e1 : w = nl
      · subst e1; rw [watches_move_new hne, hci]; simp
      · by_cases e2 : w = l.neg
        · subst e2
          rw [watches_move_old hne hnd hlt, hci]
          constructor
          · intro h; exact absurd rfl h.2
          · rintro (h | h)
            · exact absurd h.symm hwo
            · exact absurd h.symm hnlneg
        · rw [watches_move_other e1 e2, hiffo]
          constructor
          · rintro (h | h)
            · exact absurd h e2
            · exact .inl h
          · rintro (h | h)
            · exact .inr h
            · exact absurd h e1
    · obtain ⟨u1, u2, hu12, hu1m, hu2m, hiffu⟩ := h2.two i hi hlen
      refine ⟨u1, u2, hu12, hu1m, hu2m, ?_⟩
      intro w
      rw [← hiffu w]
      by_cases e1 : w = nl
      · subst e1; rw [watches_move_new hne, hci]; simp [hic]
      · by_cases e2 : w = l.neg
        · subst e2; rw [watches_move_old hne hnd hlt, hci]; simp [hic]
        · rw [watches_move_other e1 e2]
  · -- only
    intro i w hw
    rcases mem_moveWatch hlt hw with h | ⟨h, _, _⟩
    · exact h2.only i w h
    · rw [h, hci]; exact F1

/-- the repaired loop keeps the two-watch structure on normal CNFs, whatever its outcome -/
theorem LoopRel.twoWatch {cnf wl m l idx wl' r} (h : LoopRel cnf true wl m l idx wl' r)
    (hN : CnfNormal cnf) : m l.var = some l.pol → TwoWatch cnf wl → TwoWatch cnf wl' := by
  induction h with
  | done _ => intro _ h; exact h
  | skip _ _ _ ih => exact ih
  | conflict _ _ _ => intro _ h; exact h
  | unitConflict _ _ _ _ ih => intro _ h2; exact ih (pset_same _ _ _) h2
  | unitOk _ _ hf h1 _ ih1 ih2 =>
    intro hl h2
    have hext := (PExt.set _ (mem_filter_unset hf)).trans (h1.ext _ rfl)
    exact ih2 (hext _ _ hl) (ih1 (pset_same _ _ _) h2)
  | move hlt _ hf _ ih => intro hl h2; exact ih hl (h2.move hN hl hlt hf)

theorem DecideRel.twoWatch {cnf wl m l wl' r} (h : DecideRel cnf true wl m l wl' r)
    (hN : CnfNormal cnf) (h2 : TwoWatch cnf wl) : TwoWatch cnf wl' := by
  cases h with
  | same _ => exact h2
  | clash _ => exact h2
  | fresh _ h => exact h.twoWatch hN (pset_same _ _ _) h2

/-! ## the initial watch lists -/

theorem watches_push {wl : WL} {l : Lit} {ci i : Nat} {w : Lit} :
    Watches (wl.push l ci) i w ↔ Watches wl i w ∨ (i = ci ∧ w = l) := by
  unfold Watches
  rw [WL.get_push]
  split
  · next e =>
    rw [List.mem_append]
    have : w = l := lit_ext e.1 e.2
    simp [this]
  · next e =>
    constructor
    · exact .inl
    · rintro (h | ⟨_, h⟩)
      · exact h
      · exact absurd ⟨by rw [h], by rw [h]⟩ e

/-- the two-watch structure restricted to the clauses with index `< n` -/
structure TwoWatchUpTo (cnf : Cnf) (n : Nat) (wl : WL) : Prop where
  nodup : ∀ p v, (wl.get p v).Nodup
  two : ∀ i, i < n → i < cnf.length → 2 ≤ (cnf.getD i []).length →
    ∃ w1 w2, w1 ≠ w2 ∧ w1 ∈ cnf.getD i [] ∧ w2 ∈ cnf.getD i [] ∧
      ∀ w, Watches wl i w ↔ (w = w1 ∨ w = w2)
  only : ∀ i w, Watches wl i w → i < n ∧ i < cnf.length ∧ 2 ≤ (cnf.getD i []).length

theorem nodup_push {wl : WL} {l : Lit} {ci : Nat} (h : ∀ p v, (wl.get p v).Nodup)
    (hn : ¬ Watches wl ci l) : ∀ p v, ((wl.push l ci).get p v).Nodup := by
  intro p v
  rw [WL.get_push]
  split
  · next e =>
    rw [List.nodup_append]
    refine ⟨h p v, by simp, ?_⟩
    intro a ha b hb
    have : b = ci := by simpa using hb
    subst this
    intro e2; subst e2
    rw [e.1, e.2] at ha
    exact hn ha
  · exact h p v

theorem initWatches_two (cnf : Cnf) (hN : CnfNormal cnf) : ∀ (cs : List Clause) (i : Nat) (wl : WL),
    cnf.drop i = cs → TwoWatchUpTo cnf i wl → TwoWatchUpTo cnf cnf.length (initWatches cs i wl)
  | [], i, wl, hd, h => by
    have hlen : cnf.length ≤ i := by
      have := congrArg List.length hd; simp at this; omega
    unfold initWatches
    exact ⟨h.nodup, fun j _ hj => h.two j (by omega) hj, fun j w hw => by
      have := h.only j w hw; exact ⟨this.2.1, this.2⟩⟩
  | c :: cs, i, wl, hd, h => by
    have hi : i < cnf.length := by
      have := congrArg List.length hd; simp at this; omega
    have hci : cnf.getD i [] = c := by
      have : (cnf.drop i)[0]? = some c := by rw [hd]; simp
      rw [List.getElem?_drop] at this
      rw [List.getD_eq_getElem?_getD]; simp at this; rw [this]; rfl
    have hd' : cnf.drop (i + 1) = cs := by
      have := congrArg (List.drop 1) hd
      simpa [List.drop_drop, Nat.add_comm] using this
    have hstep : ∀ wl', TwoWatchUpTo cnf (i + 1) wl' →
        TwoWatchUpTo cnf cnf.length (initWatches cs (i + 1) wl') :=
      fun wl' h' => initWatches_two cnf hN cs (i + 1) wl' hd' h'
    have hshort : (cnf.getD i []).length < 2 → TwoWatchUpTo cnf (i + 1) wl := by
      intro hl
      refine ⟨h.nodup, ?_, fun j w hw => by have := h.only j w hw; exact ⟨by omega, this.2⟩⟩
      intro j hj hjl h2
      by_cases e : j = i
      · subst e; omega
      · exact h.two j (by omega) hjl h2
    match c, hci with
    | [], hci => unfold initWatches; exact hstep _ (hshort (by rw [hci]; simp))
    | [a], hci => unfold initWatches; exact hstep _ (hshort (by rw [hci]; simp))
    | a :: b :: t, hci =>
      unfold initWatches
      apply hstep
      have hnorm : NormalClause (a :: b :: t) := hN _ (by
        rw [← hci, List.getD_eq_getElem?_getD, List.getElem?_eq_getElem hi]; exact List.getElem_mem hi)
      have hab : a ≠ b := hnorm.2.1
      have hnw : ∀ w, ¬ Watches wl i w := fun w hw => by have := (h.only i w hw).1; omega
      have hnd1 := nodup_push (l := b) (ci := i) h.nodup (hnw b)
      have hnw2 : ¬ Watches (wl.push b i) i a := by
        rw [watches_push]; rintro (h1 | ⟨_, h1⟩)
        · exact hnw a h1
        · exact hab h1
      refine ⟨nodup_push hnd1 hnw2, ?_, ?_⟩
      · intro j hj hjl h2
        by_cases e : j = i
        · subst e
          refine ⟨b, a, fun e => hab e.symm, by rw [hci]; simp, by rw [hci]; simp, ?_⟩
          intro w
          rw [watches_push, watches_push]
          constructor
          · rintro ((h1 | ⟨_, h1⟩) | ⟨_, h1⟩)
            · exact absurd h1 (hnw w)
            · exact .inl h1
            · exact .inr h1
          · rintro (h1 | h1)
            · exact .inl (.inr ⟨rfl, h1⟩)
            · exact .inr ⟨rfl, h1⟩
        · obtain ⟨u1, u2, hu, hu1, hu2, hiff⟩ := h.two j (by omega) hjl h2
          refine ⟨u1, u2, hu, hu1, hu2, ?_⟩
          intro w
          rw [watches_push, watches_push, ← hiff w]
          simp [e]
      · intro j w hw
        rw [watches_push, watches_push] at hw
        rcases hw with (h1 | ⟨h1, _⟩) | ⟨h1, _⟩
        · have := h.only j w h1; exact ⟨by omega, this.2⟩
        · subst h1; exact ⟨by omega, hi, by rw [hci]; simp⟩
        · subst h1; exact ⟨by omega, hi, by rw [hci]; simp⟩

theorem initWatches_twoWatch (cnf : Cnf) (hN : CnfNormal cnf) :
    TwoWatch cnf (initWatches cnf 0 WL.empty) := by
  have h0 : TwoWatchUpTo cnf 0 WL.empty :=
    ⟨by intro p v; simp, fun i hi => by omega, fun i w hw => by simp [Watches] at hw⟩
  have := initWatches_two cnf hN cnf 0 WL.empty (by simp) h0
  exact ⟨this.nodup, fun i hi h2 => this.two i hi hi h2, fun i w hw => (this.only i w hw).2⟩

/-- validity of the initial watch lists needs no normal form -/
theorem initWatches_valid (cnf : Cnf) : ∀ (cs : List Clause) (i : Nat) (wl : WL),
    i + cs.length = cnf.length → WatchValid cnf wl → WatchValid cnf (initWatches cs i wl)
  | [], _, wl, _, h => by unfold initWatches; exact h
  | c :: cs, i, wl, hl, h => by
    have hl' : i + 1 + cs.length = cnf.length := by simp at hl; omega
    have hpush : ∀ (wl : WL) (l : Lit), WatchValid cnf wl → WatchValid cnf (wl.push l i) := by
      intro wl l hv p v j hj
      have : Watches (wl.push l i) j ⟨v, p⟩ := hj
      rw [watches_push] at this
      rcases this with h1 | ⟨h1, _⟩
      · exact hv p v j h1
      · subst h1; simp at hl; omega
    match c with
    | [] => unfold initWatches; exact initWatches_valid cnf cs (i + 1) wl hl' h
    | [a] => unfold initWatches; exact initWatches_valid cnf cs (i + 1) wl hl' h
    | a :: b :: t =>
      unfold initWatches
      exact initWatches_valid cnf cs (i + 1) _ hl' (hpush _ _ (hpush _ _ h))

theorem watchValid_empty (cnf : Cnf) : WatchValid cnf WL.empty := by
  intro p v i h; simp at h

theorem watchOK_empty (cnf : Cnf) (wl : WL) : WatchOK cnf wl PModel.empty := by
  intro i w _ _ hf; simp [litFalse, PModel.empty] at hf

/-! ## the `for i in implied` loop of `UnitPropagate::new` -/

inductive DecideAllRel (cnf : Cnf) (rep : Bool) : List Lit → WL → PModel → WL → Option PModel → Prop
  | nil {wl m} : DecideAllRel cnf rep [] wl m wl (some m)
  | conflict {u us wl m wl'} : DecideRel cnf rep wl m u wl' none →
      DecideAllRel cnf rep (u :: us) wl m wl' none
  | cons {u us wl m wl1 m1 wl' r} : DecideRel cnf rep wl m u wl1 (some m1) →
      DecideAllRel cnf rep us wl1 m1 wl' r → DecideAllRel cnf rep (u :: us) wl m wl' r

theorem decideAll_rel {cnf : Cnf} {rep : Bool} {fuel : Nat} : ∀ {us wl m out},
    decideAll (decideK (loop cnf rep fuel)) us wl m = some out →
    DecideAllRel cnf rep us wl m out.1 out.2
  | [], wl, m, out, h => by simp [decideAll] at h; subst h; exact .nil
  | u :: us, wl, m, out, h => by
    unfold decideAll at h
    split at h
    · cases h
    · next wl' hd => cases h; exact .conflict (decide_rel hd)
    · next wl' m' hd => exact .cons (decide_rel hd) (decideAll_rel h)

theorem DecideAllRel.valid {cnf rep us wl m wl' r} (h : DecideAllRel cnf rep us wl m wl' r)
    (hv : WatchValid cnf wl) : WatchValid cnf wl' := by
  induction h with
  | nil => exact hv
  | conflict h => exact h.valid hv
  | cons h _ ih => exact ih (h.valid hv)

theorem DecideAllRel.ext {cnf rep us wl m wl' m'} (h : DecideAllRel cnf rep us wl m wl' (some m')) :
    PExt m m' ∧ ∀ u, u ∈ us → m' u.var = some u.pol := by
  generalize hr : some m' = r at h
  induction h with
  | nil => cases hr; exact ⟨PExt.refl _, by simp⟩
  | conflict _ => cases hr
  | cons h1 _ ih =>
    obtain ⟨e1, e2⟩ := ih hr
    refine ⟨h1.ext.1.trans e1, ?_⟩
    intro u hu
    rcases List.mem_cons.mp hu with e | hu
    · subst e; exact e1 _ _ h1.ext.2
    · exact e2 u hu

theorem DecideAllRel.sound {cnf rep us wl m wl' r} (h : DecideAllRel cnf rep us wl m wl' r)
    (hv : WatchValid cnf wl) (a : Assign) (ha : cnfSat a cnf = true) (he : Extends a m)
    (hus : ∀ u, u ∈ us → litSat a u = true) : ∃ m', r = some m' ∧ Extends a m' := by
  induction h with
  | nil => exact ⟨_, rfl, he⟩
  | conflict h =>
    obtain ⟨_, e, _⟩ := h.sound hv a ha he (hus _ (by simp)); cases e
  | cons h _ ih =>
    obtain ⟨_, e, he1⟩ := h.sound hv a ha he (hus _ (by simp))
    cases e
    exact ih (h.valid hv) he1 (fun u hu => hus u (by simp [hu]))

theorem DecideAllRel.watchOK {cnf rep us wl m wl' m'} (h : DecideAllRel cnf rep us wl m wl' (some m'))
    (hok : WatchOK cnf wl m) : WatchOK cnf wl' m' := by
  generalize hr : some m' = r at h
  induction h with
  | nil => cases hr; exact hok
  | conflict _ => cases hr
  | cons h1 _ ih => exact ih (h1.watchOK _ hok) hr

theorem DecideAllRel.twoWatch {cnf us wl m wl' r} (h : DecideAllRel cnf true us wl m wl' r)
    (hN : CnfNormal cnf) (h2 : TwoWatch cnf wl) : TwoWatch cnf wl' := by
  induction h with
  | nil => exact h2
  | conflict h => exact h.twoWatch hN h2
  | cons h _ ih => exact ih (h.twoWatch hN h2)

theorem mem_impliedUnits {cnf : Cnf} {u : Lit} : u ∈ impliedUnits cnf ↔ [u] ∈ cnf := by
  induction cnf with
  | nil => simp [impliedUnits]
  | cons c cs ih =>
    match c with
    | [] => unfold impliedUnits; simp [ih]
    | [a] => unfold impliedUnits; simp [ih]
    | a :: b :: t => unfold impliedUnits; simp [ih]

/-! ## the fixpoint property from the invariants -/

/-- unit clauses have their literal true -/
def UnitsTrue (cnf : Cnf) (m : PModel) : Prop := ∀ u, [u] ∈ cnf → litTrue m u = true

/-- **Fixpoint from the watch invariants.** -/
theorem fixpoint_of_watch {cnf : Cnf} {wl : WL} {m : PModel}
    (h2 : TwoWatch cnf wl) (hok : WatchOK cnf wl m) (hu : UnitsTrue cnf m)
    (hne : cnf.any List.isEmpty = false) :
    ∀ c, c ∈ cnf → clauseFalsified m c = false ∧ clauseUnit m c = false := by
  intro c hc
  obtain ⟨i, hi, rfl⟩ := List.mem_iff_getElem.mp hc
  have hget : cnf.getD i [] = cnf[i] := by
    rw [List.getD_eq_getElem?_getD, List.getElem?_eq_getElem hi]; rfl
  have hnotfalse : ∀ l, l ∈ cnf[i] → litTrue m l = true → clauseFalsified m cnf[i] = false := by
    intro l hl ht
    cases hcf : clauseFalsified m cnf[i] with
    | false => rfl
    | true =>
      unfold clauseFalsified at hcf
      have := List.all_eq_true.mp hcf l hl
      rw [litTrue_iff] at ht; rw [litFalse_iff, ht] at this
      cases hp : l.pol <;> simp [hp] at this
  match hcl : cnf[i] with
  | [] =>
    have : cnf.any List.isEmpty = true := List.any_eq_true.mpr ⟨cnf[i], hc, by rw [hcl]; rfl⟩
    rw [hne] at this; cases this
  | [u] =>
    have ht : litTrue m u = true := hu u (hcl ▸ hc)
    refine ⟨hcl ▸ hnotfalse u (by rw [hcl]; simp) ht, ?_⟩
    simp [clauseUnit, ht]
  | a :: b :: t =>
    obtain ⟨w1, w2, hw12, hw1, hw2, hiff⟩ := h2.two i hi (by rw [hget, hcl]; simp)
    rw [hget, hcl] at hw1 hw2
    have hW1 : Watches wl i w1 := (hiff w1).mpr (.inl rfl)
    have hW2 : Watches wl i w2 := (hiff w2).mpr (.inr rfl)
    have hsat1 : litFalse m w1 = true → (a :: b :: t).any (litTrue m) = true := by
      intro h; have := hok i w1 hW1 (fun h => h) h; rwa [hget, hcl] at this
    have hsat2 : litFalse m w2 = true → (a :: b :: t).any (litTrue m) = true := by
      intro h; have := hok i w2 hW2 (fun h => h) h; rwa [hget, hcl] at this
    constructor
    · cases hcf : clauseFalsified m (a :: b :: t) with
      | false => rfl
      | true =>
        have hall := List.all_eq_true.mp hcf
        obtain ⟨l, hl, ht⟩ := List.any_eq_true.mp (hsat1 (hall w1 hw1))
        have := hnotfalse l (hcl ▸ hl) ht
        rw [hcl] at this
        rw [this] at hcf; cases hcf
    · cases hcu : clauseUnit m (a :: b :: t) with
      | false => rfl
      | true =>
        unfold clauseUnit at hcu
        simp only [Bool.and_eq_true, Bool.not_eq_true', beq_iff_eq] at hcu
        obtain ⟨hnt, hlen⟩ := hcu
        have hunset : ∀ w, w ∈ a :: b :: t → (litFalse m w = true → (a :: b :: t).any (litTrue m) = true) →
            w ∈ ((a :: b :: t).filter (litUnset m)).eraseDups := by
          intro w hw hs
          rw [List.mem_eraseDups, List.mem_filter]
          refine ⟨hw, ?_⟩
          rcases lit_cases m w with h | h | h
          · have : (a :: b :: t).any (litTrue m) = true := List.any_eq_true.mpr ⟨w, hw, h⟩
            rw [hnt] at this; cases this
          · rw [hs h] at hnt; cases hnt
          · exact h
        have h1 := hunset w1 hw1 hsat1
        have h2' := hunset w2 hw2 hsat2
        match hed : ((a :: b :: t).filter (litUnset m)).eraseDups, hlen with
        | [x], _ =>
          rw [hed] at h1 h2'
          simp at h1 h2'
          exact absurd (h1.trans h2'.symm) hw12

end UnitProp
