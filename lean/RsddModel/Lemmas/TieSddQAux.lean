import RsddModel.Model.SddSemantic
import RsddModel.Model.ScratchSdd
/-!
# Literal mirrors for the translator route of the SDD queries / the semantic SDD builder

`tools/gen_sddq.py` regenerates `Model/GenSddQ.lean` from `src/repr/sdd.rs`,
`src/repr/sdd/{binary_sdd,sdd_or}.rs`, `src/builder/sdd/semantic.rs`.  Where the hand-written model
is shaped differently from the Rust, this file holds a definition that mirrors the Rust literally
(the generated definition is proved EQUAL to it in `Props/TieSddQ.lean`) together with the theorem
relating the mirror to the model definition the property theorems are about.

## 1. the semantic builder's two node tables

The Rust keeps two `BackedRobinhoodTable`s (`bdd_tbl`, `sdd_tbl`) that are only ever addressed by
`FxHash(semantic_hash.value())`; the model (`SddSem.St.tbl`) keeps ONE association list keyed by the
hash value (see the header of `Model/SddSemantic.lean` for why the key is the value).  The mirror
keeps the two tables; `Rel` says that the model's table answers like "the BDD table, else the SDD
table", which every operation preserves.
-/
namespace SddSemAux
open Sdd SddSem

/-- `bdd_tbl`, `sdd_tbl`, `app_cache` -/
structure St2 where
  bdd : List (Nat × Ptr)
  sdd : List (Nat × Ptr)
  app : List (Nat × Ptr)

/-- `BackedRobinhoodTable::get_by_hash` (no element comparison) -/
def getByHash (t : List (Nat × Ptr)) (k : Nat) : Option Ptr := ListCache.get t k

/-- `BackedRobinhoodTable::get_or_insert_by_hash(hash, elem, equality_by_hash = true)` -/
def getOrInsertByHash (t : List (Nat × Ptr)) (k : Nat) (node : Ptr) : List (Nat × Ptr) × Ptr :=
  match ListCache.get t k with
  | some r => (t, r)
  | none => ((k, node) :: t, node)

/-- `get_shared_sdd_ptr` -/
def shared2 (st : St2) (x hash : Nat) : Option Ptr :=
  if x = 0 then some .fls else if x = 1 then some .tru
  else
    match getByHash st.bdd hash with
    | some r => some r
    | none => getByHash st.sdd hash

/-- `check_cached_hash_and_neg` -/
def checkNeg (π : Params) (st : St2) (x : Nat) : Option Ptr :=
  match shared2 st x x with
  | some r => some r
  | none =>
    match shared2 st (π.negH x) (π.negH x) with
    | some r => some r.neg
    | none => none

/-- `get_or_insert_bdd` (the counter is not modelled) -/
def getOrInsertBdd (π : Params) (st : St2) (node : Ptr) : St2 × Ptr :=
  match checkNeg π st (π.h node) with
  | some r => (st, r)
  | none =>
    let a := getOrInsertByHash st.bdd (π.h node) node
    (⟨a.1, st.sdd, st.app⟩, a.2)

/-- `get_or_insert_sdd` -/
def getOrInsertSdd (π : Params) (st : St2) (node : Ptr) : St2 × Ptr :=
  match checkNeg π st (π.h node) with
  | some r => (st, r)
  | none =>
    let a := getOrInsertByHash st.sdd (π.h node) node
    (⟨st.bdd, a.1, st.app⟩, a.2)

/-- `app_cache_get` without the collision detector -/
def appGetRaw (π : Params) (app : List (Nat × Ptr)) (a b : Ptr) : Option Ptr :=
  if appKey π a b = 0 then some Ptr.fls else if appKey π a b = 1 then some Ptr.tru
  else ListCache.get app (appKey π a b)

/-- `app_cache_insert` on the cache alone -/
def appInsertRaw (π : Params) (app : List (Nat × Ptr)) (a b r : Ptr) : List (Nat × Ptr) :=
  if appKey π a b > 1 then (appKey π a b, r) :: app else app

/-- `sdd_eq` without the collision detector -/
def eqRaw (π : Params) (a b : Ptr) : Bool := π.h a == π.h b

/-- the model's table answers like "BDD table, else SDD table"; same apply cache -/
def Rel (s2 : St2) (s : St) : Prop :=
  (∀ x, ListCache.get s.tbl x = (match getByHash s2.bdd x with | some r => some r | none => getByHash s2.sdd x))
  ∧ s.app = s2.app

theorem rel_init : Rel ⟨[], [], []⟩ SddSem.St.init := by
  refine ⟨fun x => ?_, rfl⟩
  simp [SddSem.St.init, getByHash, ListCache.get]

theorem shared_eq {s2 : St2} {s : St} (h : Rel s2 s) (x : Nat) : shared s x = shared2 s2 x x := by
  simp only [shared, shared2, h.1 x]

theorem eqJ_raw (π : Params) (a b : Ptr) :
    eqJ π a b = guardJ π (eqRaw π a b == equivB π.vt a b) (eqRaw π a b) := rfl

theorem appGet_raw (π : Params) (st : St) (a b : Ptr) :
    appGet π st a b =
      (match appGetRaw π st.app a b with
       | none => some none
       | some x => guardJ π (equivAndB π.vt x a b) (some x)) := rfl

theorem appInsert_raw (π : Params) (st : St) (a b r : Ptr) :
    appInsert π st a b r = ⟨st.tbl, appInsertRaw π st.app a b r⟩ := by
  simp only [appInsert, appInsertRaw]; split <;> rfl

private theorem get_cons (t : List (Nat × Ptr)) (k : Nat) (v : Ptr) (x : Nat) :
    ListCache.get ((k, v) :: t) x = if x = k then some v else ListCache.get t x := by
  simp only [ListCache.get]

/-- the two-table `get_or_insert_*` refines the model's `getOrInsert` (and keeps `Rel`) -/
theorem getOrInsert_refines (π : Params) {s2 : St2} {s : St} (h : Rel s2 s) (node : Ptr) (isBdd : Bool) :
    let r2 := if isBdd then getOrInsertBdd π s2 node else getOrInsertSdd π s2 node
    ∃ s', getOrInsert π s node = guardJ π (equivB π.vt r2.2 node) (s', r2.2) ∧ Rel r2.1 s' := by
  have hs := shared_eq h
  have e1 : ∀ y, ListCache.get s.tbl y
      = (match getByHash s2.bdd y with | some r => some r | none => getByHash s2.sdd y) := h.1
  simp only [getOrInsert, getOrInsertBdd, getOrInsertSdd, checkNeg, hs]
  cases hx : shared2 s2 (π.h node) (π.h node) with
  | some r => cases isBdd <;> exact ⟨s, rfl, h⟩
  | none =>
    cases hn : shared2 s2 (π.negH (π.h node)) (π.negH (π.h node)) with
    | some r => cases isBdd <;> exact ⟨s, rfl, h⟩
    | none =>
      -- neither table has the key
      have hb : getByHash s2.bdd (π.h node) = none ∧ getByHash s2.sdd (π.h node) = none := by
        simp only [shared2] at hx
        split at hx
        · cases hx
        · split at hx
          · cases hx
          · cases hbb : getByHash s2.bdd (π.h node) with
            | some r => simp [hbb] at hx
            | none => simp only [hbb] at hx; exact ⟨rfl, hx⟩
      refine ⟨⟨(π.h node, node) :: s.tbl, s.app⟩, ?_, ?_⟩
      · cases isBdd
        · have : getOrInsertByHash s2.sdd (π.h node) node = ((π.h node, node) :: s2.sdd, node) := by
            have := hb.2; simp only [getByHash] at this; simp [getOrInsertByHash, this]
          simp [this]
        · have : getOrInsertByHash s2.bdd (π.h node) node = ((π.h node, node) :: s2.bdd, node) := by
            have := hb.1; simp only [getByHash] at this; simp [getOrInsertByHash, this]
          simp [this]
      · cases isBdd
        · have hg : getOrInsertByHash s2.sdd (π.h node) node = ((π.h node, node) :: s2.sdd, node) := by
            have := hb.2; simp only [getByHash] at this; simp [getOrInsertByHash, this]
          refine ⟨fun y => ?_, h.2⟩
          simp only [Bool.false_eq_true, if_false, hg, getByHash, get_cons]
          by_cases hk : y = π.h node
          · subst hk; have := hb.1; simp only [getByHash] at this; simp [this]
          · simp only [hk, if_false]; exact e1 y
        · have hg : getOrInsertByHash s2.bdd (π.h node) node = ((π.h node, node) :: s2.bdd, node) := by
            have := hb.1; simp only [getByHash] at this; simp [getOrInsertByHash, this]
          refine ⟨fun y => ?_, h.2⟩
          simp only [if_true, hg, getByHash, get_cons]
          by_cases hk : y = π.h node
          · simp [hk]
          · simp only [hk, if_false]; exact e1 y

end SddSemAux

/-! ## 2. `SemanticSddBuilder::stats`

The loop `for n in self.node_iter() { let h = n.cached_semantic_hash(&self.vtree, &self.map); if s.contains(&h.value())
{ num_collisions += 1 }; s.insert(h.value()); }` over the node store with its `semantic_hash` memo
(`Sdd.cachedHash`); the `HashSet<u128>` is a list.  The memo it leaves behind is that of
`Sdd.cachedHashes` with the builder's own prime and weight map. -/
namespace SddSemAux
open Sdd

def statsLoop (P : Nat) (w : Spec.Weights Nat) (s : Store) :
    List Ref → List Nat → Nat → HashCache → List Nat × Nat × HashCache
  | [], seen, k, c => (seen, k, c)
  | r :: rs, seen, k, c =>
    let a := cachedHash P w s r c
    statsLoop P w s rs (a.1 :: seen) (if seen.contains a.1 then k + 1 else k) a.2

theorem statsLoop_cache (P : Nat) (w : Spec.Weights Nat) (s : Store) (rs : List Ref) (seen : List Nat) (k : Nat)
    (c : HashCache) : (statsLoop P w s rs seen k c).2.2 = (cachedHashes P w s rs c).2 := by
  induction rs generalizing seen k c with
  | nil => rfl
  | cons r rs ih => simp only [statsLoop, cachedHashes, ih]

end SddSemAux
