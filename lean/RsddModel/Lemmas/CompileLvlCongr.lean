import RsddModel.Lemmas.BddLvlCongr
import RsddModel.Model.BddCompile
import RsddModel.Model.BddWmc
import RsddModel.Lemmas.Wmc
/-!
# Lemmas: compilation and smoothing read the level map only on the variables in play

* `Compile.compileExpr_agree` — generic: two builders (`Ops`) that agree on operands satisfying an
  invariant (state `I`, diagram `G`) which their operations preserve, compile every expression over
  admissible variables to the same result;
* `Bdd.ops_agree` — the ROBDD builder under two level maps that agree below `N`, with
  `I = CacheVars C N`, `G = varsLt N` (from `ite_lvl_congr`, `ite_vars`);
* `Bdd.smoothH_lvl_congr` — the same for `smooth_helper`.
-/

namespace Compile

/-- `O` and `O'` agree on admissible operands, and `O`'s operations preserve admissibility -/
structure OpsAgree {σ P : Type} (O O' : Ops σ P) (V : Nat → Prop) (I : σ → Prop) (G : P → Prop) : Prop where
  tru : O.tru = O'.tru ∧ G O.tru
  fls : O.fls = O'.fls ∧ G O.fls
  var : ∀ x pol, V x → O.var x pol = O'.var x pol ∧ G (O.var x pol)
  neg : ∀ p, G p → O.neg p = O'.neg p ∧ G (O.neg p)
  and : ∀ s a b, I s → G a → G b → O.and s a b = O'.and s a b ∧ ∀ s' r, O.and s a b = some (s', r) → I s' ∧ G r
  or : ∀ s a b, I s → G a → G b → O.or s a b = O'.or s a b ∧ ∀ s' r, O.or s a b = some (s', r) → I s' ∧ G r
  iff : ∀ s a b, I s → G a → G b → O.iff s a b = O'.iff s a b ∧ ∀ s' r, O.iff s a b = some (s', r) → I s' ∧ G r
  xor : ∀ s a b, I s → G a → G b → O.xor s a b = O'.xor s a b ∧ ∀ s' r, O.xor s a b = some (s', r) → I s' ∧ G r
  ite : ∀ s a b c, I s → G a → G b → G c →
    O.ite s a b c = O'.ite s a b c ∧ ∀ s' r, O.ite s a b c = some (s', r) → I s' ∧ G r

variable {σ P : Type} {O O' : Ops σ P} {V : Nat → Prop} {I : σ → Prop} {G : P → Prop}

theorem compileExpr_agree (A : OpsAgree O O' V I G) :
    ∀ (e : LogicalExpr) (s : σ), I s → e.AllVars V →
      compileExpr O s e = compileExpr O' s e ∧
      ∀ s' r, compileExpr O s e = some (s', r) → I s' ∧ G r := by
  intro e
  induction e with
  | lit x pol =>
    intro s hs hv
    obtain ⟨e1, g1⟩ := A.var x pol hv
    refine ⟨by simp only [compileExpr, e1], fun s' r h => ?_⟩
    simp only [compileExpr, Option.some.injEq, Prod.mk.injEq] at h
    obtain ⟨rfl, rfl⟩ := h; exact ⟨hs, g1⟩
  | not e ih =>
    intro s hs hv
    obtain ⟨e1, p1⟩ := ih s hs hv
    simp only [compileExpr]
    rw [← e1]
    cases hc : compileExpr O s e with
    | none => exact ⟨rfl, fun _ _ h => by cases h⟩
    | some sr =>
      obtain ⟨s1, r1⟩ := sr
      obtain ⟨i1, g1⟩ := p1 _ _ hc
      obtain ⟨e2, g2⟩ := A.neg r1 g1
      refine ⟨by simp only [e2], fun s' r h => ?_⟩
      simp only [Option.some.injEq, Prod.mk.injEq] at h
      obtain ⟨rfl, rfl⟩ := h; exact ⟨i1, g2⟩
  | and l r ihl ihr =>
    intro s hs hv
    obtain ⟨e1, p1⟩ := ihl s hs hv.1
    simp only [compileExpr]
    rw [← e1]
    cases hc : compileExpr O s l with
    | none => exact ⟨rfl, fun _ _ h => by cases h⟩
    | some sr =>
      obtain ⟨s1, r1⟩ := sr
      obtain ⟨i1, g1⟩ := p1 _ _ hc
      obtain ⟨e2, p2⟩ := ihr s1 i1 hv.2
      simp only []
      rw [← e2]
      cases hc2 : compileExpr O s1 r with
      | none => exact ⟨rfl, fun _ _ h => by cases h⟩
      | some sr2 =>
        obtain ⟨s2, r2⟩ := sr2
        obtain ⟨i2, g2⟩ := p2 _ _ hc2
        exact A.and s2 r1 r2 i2 g1 g2
  | or l r ihl ihr =>
    intro s hs hv
    obtain ⟨e1, p1⟩ := ihl s hs hv.1
    simp only [compileExpr]
    rw [← e1]
    cases hc : compileExpr O s l with
    | none => exact ⟨rfl, fun _ _ h => by cases h⟩
    | some sr =>
      obtain ⟨s1, r1⟩ := sr
      obtain ⟨i1, g1⟩ := p1 _ _ hc
      obtain ⟨e2, p2⟩ := ihr s1 i1 hv.2
      simp only []
      rw [← e2]
      cases hc2 : compileExpr O s1 r with
      | none => exact ⟨rfl, fun _ _ h => by cases h⟩
      | some sr2 =>
        obtain ⟨s2, r2⟩ := sr2
        obtain ⟨i2, g2⟩ := p2 _ _ hc2
        exact A.or s2 r1 r2 i2 g1 g2
  | iff l r ihl ihr =>
    intro s hs hv
    obtain ⟨e1, p1⟩ := ihl s hs hv.1
    simp only [compileExpr]
    rw [← e1]
    cases hc : compileExpr O s l with
    | none => exact ⟨rfl, fun _ _ h => by cases h⟩
    | some sr =>
      obtain ⟨s1, r1⟩ := sr
      obtain ⟨i1, g1⟩ := p1 _ _ hc
      obtain ⟨e2, p2⟩ := ihr s1 i1 hv.2
      simp only []
      rw [← e2]
      cases hc2 : compileExpr O s1 r with
      | none => exact ⟨rfl, fun _ _ h => by cases h⟩
      | some sr2 =>
        obtain ⟨s2, r2⟩ := sr2
        obtain ⟨i2, g2⟩ := p2 _ _ hc2
        exact A.iff s2 r1 r2 i2 g1 g2
  | xor l r ihl ihr =>
    intro s hs hv
    obtain ⟨e1, p1⟩ := ihl s hs hv.1
    simp only [compileExpr]
    rw [← e1]
    cases hc : compileExpr O s l with
    | none => exact ⟨rfl, fun _ _ h => by cases h⟩
    | some sr =>
      obtain ⟨s1, r1⟩ := sr
      obtain ⟨i1, g1⟩ := p1 _ _ hc
      obtain ⟨e2, p2⟩ := ihr s1 i1 hv.2
      simp only []
      rw [← e2]
      cases hc2 : compileExpr O s1 r with
      | none => exact ⟨rfl, fun _ _ h => by cases h⟩
      | some sr2 =>
        obtain ⟨s2, r2⟩ := sr2
        obtain ⟨i2, g2⟩ := p2 _ _ hc2
        exact A.xor s2 r1 r2 i2 g1 g2
  | ite g t e ihg iht ihe =>
    intro s hs hv
    obtain ⟨e1, p1⟩ := ihg s hs hv.1
    simp only [compileExpr]
    rw [← e1]
    cases hc : compileExpr O s g with
    | none => exact ⟨rfl, fun _ _ h => by cases h⟩
    | some sr =>
      obtain ⟨s1, r1⟩ := sr
      obtain ⟨i1, g1⟩ := p1 _ _ hc
      obtain ⟨e2, p2⟩ := iht s1 i1 hv.2.1
      simp only []
      rw [← e2]
      cases hc2 : compileExpr O s1 t with
      | none => exact ⟨rfl, fun _ _ h => by cases h⟩
      | some sr2 =>
        obtain ⟨s2, r2⟩ := sr2
        obtain ⟨i2, g2⟩ := p2 _ _ hc2
        obtain ⟨e3, p3⟩ := ihe s2 i2 hv.2.2
        simp only []
        rw [← e3]
        cases hc3 : compileExpr O s2 e with
        | none => exact ⟨rfl, fun _ _ h => by cases h⟩
        | some sr3 =>
          obtain ⟨s3, r3⟩ := sr3
          obtain ⟨i3, g3⟩ := p3 _ _ hc3
          exact A.ite s3 r1 r2 r3 i3 g1 g2 g3

theorem compilePlan_agree (A : OpsAgree O O' V I G) :
    ∀ (e : Plan) (s : σ), I s → e.AllVars V →
      compilePlan O s e = compilePlan O' s e ∧
      ∀ s' r, compilePlan O s e = some (s', r) → I s' ∧ G r := by
  intro e
  induction e with
  | lit x pol =>
    intro s hs hv
    obtain ⟨e1, g1⟩ := A.var x pol hv
    refine ⟨by simp only [compilePlan, e1], fun s' r h => ?_⟩
    simp only [compilePlan, Option.some.injEq, Prod.mk.injEq] at h
    obtain ⟨rfl, rfl⟩ := h; exact ⟨hs, g1⟩
  | constTrue =>
    intro s hs _
    refine ⟨by simp only [compilePlan, A.tru.1], fun s' r h => ?_⟩
    simp only [compilePlan, Option.some.injEq, Prod.mk.injEq] at h
    obtain ⟨rfl, rfl⟩ := h; exact ⟨hs, A.tru.2⟩
  | constFalse =>
    intro s hs _
    refine ⟨by simp only [compilePlan, A.fls.1], fun s' r h => ?_⟩
    simp only [compilePlan, Option.some.injEq, Prod.mk.injEq] at h
    obtain ⟨rfl, rfl⟩ := h; exact ⟨hs, A.fls.2⟩
  | not e ih =>
    intro s hs hv
    obtain ⟨e1, p1⟩ := ih s hs hv
    simp only [compilePlan]
    rw [← e1]
    cases hc : compilePlan O s e with
    | none => exact ⟨rfl, fun _ _ h => by cases h⟩
    | some sr =>
      obtain ⟨s1, r1⟩ := sr
      obtain ⟨i1, g1⟩ := p1 _ _ hc
      obtain ⟨e2, g2⟩ := A.neg r1 g1
      refine ⟨by simp only [e2], fun s' r h => ?_⟩
      simp only [Option.some.injEq, Prod.mk.injEq] at h
      obtain ⟨rfl, rfl⟩ := h; exact ⟨i1, g2⟩
  | and l r ihl ihr =>
    intro s hs hv
    obtain ⟨e1, p1⟩ := ihl s hs hv.1
    simp only [compilePlan]
    rw [← e1]
    cases hc : compilePlan O s l with
    | none => exact ⟨rfl, fun _ _ h => by cases h⟩
    | some sr =>
      obtain ⟨s1, r1⟩ := sr
      obtain ⟨i1, g1⟩ := p1 _ _ hc
      obtain ⟨e2, p2⟩ := ihr s1 i1 hv.2
      simp only []
      rw [← e2]
      cases hc2 : compilePlan O s1 r with
      | none => exact ⟨rfl, fun _ _ h => by cases h⟩
      | some sr2 =>
        obtain ⟨s2, r2⟩ := sr2
        obtain ⟨i2, g2⟩ := p2 _ _ hc2
        exact A.and s2 r1 r2 i2 g1 g2
  | or l r ihl ihr =>
    intro s hs hv
    obtain ⟨e1, p1⟩ := ihl s hs hv.1
    simp only [compilePlan]
    rw [← e1]
    cases hc : compilePlan O s l with
    | none => exact ⟨rfl, fun _ _ h => by cases h⟩
    | some sr =>
      obtain ⟨s1, r1⟩ := sr
      obtain ⟨i1, g1⟩ := p1 _ _ hc
      obtain ⟨e2, p2⟩ := ihr s1 i1 hv.2
      simp only []
      rw [← e2]
      cases hc2 : compilePlan O s1 r with
      | none => exact ⟨rfl, fun _ _ h => by cases h⟩
      | some sr2 =>
        obtain ⟨s2, r2⟩ := sr2
        obtain ⟨i2, g2⟩ := p2 _ _ hc2
        exact A.or s2 r1 r2 i2 g1 g2
  | iff l r ihl ihr =>
    intro s hs hv
    obtain ⟨e1, p1⟩ := ihl s hs hv.1
    simp only [compilePlan]
    rw [← e1]
    cases hc : compilePlan O s l with
    | none => exact ⟨rfl, fun _ _ h => by cases h⟩
    | some sr =>
      obtain ⟨s1, r1⟩ := sr
      obtain ⟨i1, g1⟩ := p1 _ _ hc
      obtain ⟨e2, p2⟩ := ihr s1 i1 hv.2
      simp only []
      rw [← e2]
      cases hc2 : compilePlan O s1 r with
      | none => exact ⟨rfl, fun _ _ h => by cases h⟩
      | some sr2 =>
        obtain ⟨s2, r2⟩ := sr2
        obtain ⟨i2, g2⟩ := p2 _ _ hc2
        exact A.iff s2 r1 r2 i2 g1 g2
  | ite g t e ihg iht ihe =>
    intro s hs hv
    obtain ⟨e1, p1⟩ := ihg s hs hv.1
    simp only [compilePlan]
    rw [← e1]
    cases hc : compilePlan O s g with
    | none => exact ⟨rfl, fun _ _ h => by cases h⟩
    | some sr =>
      obtain ⟨s1, r1⟩ := sr
      obtain ⟨i1, g1⟩ := p1 _ _ hc
      obtain ⟨e2, p2⟩ := iht s1 i1 hv.2.1
      simp only []
      rw [← e2]
      cases hc2 : compilePlan O s1 t with
      | none => exact ⟨rfl, fun _ _ h => by cases h⟩
      | some sr2 =>
        obtain ⟨s2, r2⟩ := sr2
        obtain ⟨i2, g2⟩ := p2 _ _ hc2
        obtain ⟨e3, p3⟩ := ihe s2 i2 hv.2.2
        simp only []
        rw [← e3]
        cases hc3 : compilePlan O s2 e with
        | none => exact ⟨rfl, fun _ _ h => by cases h⟩
        | some sr3 =>
          obtain ⟨s3, r3⟩ := sr3
          obtain ⟨i3, g3⟩ := p3 _ _ hc3
          exact A.ite s3 r1 r2 r3 i3 g1 g2 g3

end Compile

namespace Bdd
open Spec

section
variable {N : Nat} {lvl lvl' : Nat → Nat} (hag : AgreeLt N lvl lvl')
include hag

omit hag in
theorem varsLt_fls : Ptr.varsLt N .fls := trivial

theorem bOr_lvl_congr (C : CacheImpl) (fuel : Nat) (s : C.σ) {a b : Ptr} (hs : CacheVars C N s)
    (va : a.varsLt N) (vb : b.varsLt N) :
    bOr C lvl fuel s a b = bOr C lvl' fuel s a b ∧
      ∀ s' r, bOr C lvl fuel s a b = some (s', r) → CacheVars C N s' ∧ r.varsLt N := by
  unfold bOr bAnd
  rw [← ite_lvl_congr hag C fuel s _ _ _ hs (varsLt_neg va) (varsLt_neg vb) varsLt_fls]
  refine ⟨rfl, fun s' r h => ?_⟩
  cases hc : ite C lvl fuel s a.neg b.neg .fls with
  | none => rw [hc] at h; cases h
  | some sr =>
    obtain ⟨s1, r1⟩ := sr
    rw [hc] at h
    simp only [Option.some.injEq, Prod.mk.injEq] at h
    obtain ⟨rfl, rfl⟩ := h
    obtain ⟨i1, g1⟩ := ite_vars C lvl N fuel _ _ _ _ _ _ hs (varsLt_neg va) (varsLt_neg vb) varsLt_fls hc
    exact ⟨i1, varsLt_neg g1⟩

/-- the ROBDD builder under two level maps that agree below `N` -/
theorem ops_agree (C : CacheImpl) (fuel : Nat) :
    Compile.OpsAgree (ops C lvl fuel) (ops C lvl' fuel) (· < N) (CacheVars C N) (Ptr.varsLt N) where
  tru := ⟨rfl, trivial⟩
  fls := ⟨rfl, trivial⟩
  var := fun x pol hx => ⟨rfl, mkVar_varsLt pol hx⟩
  neg := fun p hp => ⟨rfl, varsLt_neg hp⟩
  and := fun s a b hs va vb =>
    ⟨ite_lvl_congr hag C fuel s a b .fls hs va vb varsLt_fls,
     fun s' r h => ite_vars C lvl N fuel _ _ _ _ _ _ hs va vb varsLt_fls h⟩
  or := fun s a b hs va vb => bOr_lvl_congr hag C fuel s hs va vb
  iff := fun s a b hs va vb =>
    ⟨ite_lvl_congr hag C fuel s a b b.neg hs va vb (varsLt_neg vb),
     fun s' r h => ite_vars C lvl N fuel _ _ _ _ _ _ hs va vb (varsLt_neg vb) h⟩
  xor := fun s a b hs va vb =>
    ⟨ite_lvl_congr hag C fuel s a b.neg b hs va (varsLt_neg vb) vb,
     fun s' r h => ite_vars C lvl N fuel _ _ _ _ _ _ hs va (varsLt_neg vb) vb h⟩
  ite := fun s a b c hs va vb vc =>
    ⟨ite_lvl_congr hag C fuel s a b c hs va vb vc,
     fun s' r h => ite_vars C lvl N fuel _ _ _ _ _ _ hs va vb vc h⟩

/-- `smooth_helper` reads the level map only at the variables of the diagram -/
theorem smoothH_lvl_congr (varAt : Nat → Nat) :
    ∀ (n cur : Nat) (p : Ptr), p.varsLt N → smoothH lvl varAt n cur p = smoothH lvl' varAt n cur p := by
  intro n
  induction n with
  | zero => intro cur p _; cases p <;> rfl
  | succ n ih =>
    intro cur p vp
    cases p with
    | tru => simp only [smoothH]; rw [ih (cur + 1) .tru trivial]
    | fls => simp only [smoothH]; rw [ih (cur + 1) .fls trivial]
    | node c v lo hi =>
      simp only [smoothH]
      rw [hag v vp.1, ih (cur + 1) lo vp.2.1, ih (cur + 1) hi vp.2.2,
        ih (cur + 1) (.node false v lo hi) ⟨vp.1, vp.2.1, vp.2.2⟩]

theorem smooth_lvl_congr (varAt : Nat → Nat) (p : Ptr) (n : Nat) (vp : p.varsLt N) :
    smooth lvl varAt p n = smooth lvl' varAt p n := smoothH_lvl_congr hag varAt n 0 p vp

end

theorem mem_vars_of_varsLt {N : Nat} : ∀ {p : Ptr}, p.varsLt N → ∀ v ∈ p.vars, v < N
  | .tru, _, v, hv => by simp [Ptr.vars] at hv
  | .fls, _, v, hv => by simp [Ptr.vars] at hv
  | .node _ x lo hi, h, v, hv => by
    simp only [Ptr.vars, List.mem_cons, List.mem_append] at hv
    rcases hv with rfl | hv | hv
    · exact h.1
    · exact mem_vars_of_varsLt h.2.1 v hv
    · exact mem_vars_of_varsLt h.2.2 v hv

end Bdd
