import RsddModel.Props.TieTables
import RsddModel.Lemmas.Lru
/-!
# Auxiliary facts for the translator route of the two hash tables (`Props/TieTables.lean`)

* `lru_grow_knot`: `Lru::insert` and `Lru::grow` are mutually recursive in the Rust; the generated
  definitions are open (each takes its partner as a parameter).  The model pair
  (`Lru.insert num den`, `Lru.grow`) is a fixed point of the generated pair: `insert` with partner
  `Lru.grow` is `Lru.insert` unconditionally (`TieTables.lru_insert_model`), and `grow` with
  partner `Lru.insert num den` is `Lru.grow` on every table with `2^cap` slots when
  `GROW_RATIO = num/den ≥ 1/2` (the inner growth test never fires: `Lru.growRust_eq_grow`).
* `probe_flag`, `getOrInsert_flag`: the third component ("was a hit") of the model's
  `RH.probe`/`RH.getOrInsert`, which the Rust does not return and the tie projects away, is
  determined by the tied components: it is `true` exactly when `hits` was incremented.
-/
namespace TieTablesAux

variable {K V : Type}

theorem lru_grow_knot {num den : Nat} (hr : den ≤ 2 * num) {t : Lru.Tbl K V}
    (hl : t.tbl.length = 2 ^ t.cap) :
    Gen.Lru.grow (Gen.Lru.insert num den Lru.grow) t = Lru.grow t := by
  rw [TieTables.lru_insert_model, TieTables.lru_grow_rust]
  exact Lru.growRust_eq_grow hr hl

/-- with the constant of the source, `GROW_RATIO = 7/10` -/
theorem lru_grow_knot_7_10 {t : Lru.Tbl K V} (hl : t.tbl.length = 2 ^ t.cap) :
    Gen.Lru.grow (Gen.Lru.insert 7 10 Lru.grow) t = Lru.grow t :=
  lru_grow_knot (by decide) hl

theorem probe_flag (t : RH.Tbl) (hash key pf fuel pos psl : Nat) :
    (RH.probe t hash key pf fuel pos psl).2.2
      = decide ((RH.probe t hash key pf fuel pos psl).1.hits = t.hits + 1) := by
  fun_induction RH.probe t hash key pf fuel pos psl <;> simp_all [RH.insertAt]

theorem getOrInsert_flag (lf : RH.LoadFactor) (t : RH.Tbl) (hash key extra : Nat) :
    (RH.getOrInsert lf t hash key extra).2.2
      = decide ((RH.getOrInsert lf t hash key extra).1.hits
          = (if RH.needGrow lf t then RH.grow t extra else t).hits + 1) := by
  simp only [RH.getOrInsert, RH.getOrInsertWith]
  exact probe_flag _ _ _ _ _ _ _

end TieTablesAux

#print axioms TieTablesAux.lru_grow_knot
#print axioms TieTablesAux.lru_grow_knot_7_10
#print axioms TieTablesAux.probe_flag
#print axioms TieTablesAux.getOrInsert_flag
