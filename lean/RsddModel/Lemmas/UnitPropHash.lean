import RsddModel.Lemmas.UnitProp
/-!
# `update_hash_and_sat_set`: the hash is a function of the model (C09)

`bigp` is a finite product of naturals; all loops of `updateHashAndSatSet` are characterised as
`(h * product) % 2^128`, and the two passes together are shown to turn `hashOf old` into
`hashOf new` and `satOf old` into `satOf new` whenever `new` extends `old`.
-/
namespace UnitProp
open Spec

/-! ## finite products -/

def bigp {α : Type} (is : List α) (f : α → Nat) : Nat := (is.map f).foldr (· * ·) 1

@[simp] theorem bigp_nil {α : Type} (f : α → Nat) : bigp [] f = 1 := rfl
@[simp] theorem bigp_cons {α : Type} (a : α) (is : List α) (f : α → Nat) :
    bigp (a :: is) f = f a * bigp is f := rfl

theorem bigp_append {α : Type} (xs ys : List α) (f : α → Nat) :
    bigp (xs ++ ys) f = bigp xs f * bigp ys f := by
  induction xs with
  | nil => simp
  | cons a t ih => simp [ih, Nat.mul_assoc]

theorem bigp_mul {α : Type} (is : List α) (f g : α → Nat) :
    bigp is (fun i => f i * g i) = bigp is f * bigp is g := by
  induction is with
  | nil => simp
  | cons a t ih =>
    simp only [bigp_cons, ih]
    rw [Nat.mul_assoc, Nat.mul_assoc, Nat.mul_left_comm (g a)]

theorem bigp_congr {α : Type} {is : List α} {f g : α → Nat} (h : ∀ i, i ∈ is → f i = g i) :
    bigp is f = bigp is g := by
  induction is with
  | nil => rfl
  | cons a t ih =>
    simp only [bigp_cons]
    rw [h a (by simp), ih (fun i hi => h i (by simp [hi]))]

theorem bigp_one {α : Type} (is : List α) : bigp is (fun _ => 1) = 1 := by
  induction is with
  | nil => rfl
  | cons a t ih => simp [ih]

theorem bigp_eq_one {α : Type} {is : List α} {f : α → Nat} (h : ∀ i, i ∈ is → f i = 1) :
    bigp is f = 1 := by
  rw [bigp_congr h, bigp_one]

theorem bigp_filter {α : Type} (is : List α) (p : α → Bool) (f : α → Nat) :
    bigp (is.filter p) f = bigp is (fun i => if p i then f i else 1) := by
  induction is with
  | nil => rfl
  | cons a t ih =>
    by_cases h : p a = true
    · rw [List.filter_cons_of_pos h]; simp [ih, h]
    · rw [List.filter_cons_of_neg h]; simp [ih, h]

theorem bigp_comm {α β : Type} (is : List α) (js : List β) (f : α → β → Nat) :
    bigp is (fun i => bigp js (fun j => f i j)) = bigp js (fun j => bigp is (fun i => f i j)) := by
  induction is with
  | nil => simp [bigp_one]
  | cons a t ih =>
    simp only [bigp_cons, ih]
    rw [← bigp_mul]

/-- a product with at most one non-trivial factor -/
theorem bigp_single_mem {α : Type} [DecidableEq α] {is : List α} (hnd : is.Nodup) (a : α) (u : Nat)
    (ha : a ∈ is) : bigp is (fun i => if i = a then u else 1) = u := by
  induction is with
  | nil => cases ha
  | cons b t ih =>
    have hb := List.nodup_cons.mp hnd
    simp only [bigp_cons]
    by_cases e : b = a
    · subst e
      rw [if_pos rfl, bigp_eq_one, Nat.mul_one]
      intro i hi
      rw [if_neg (fun (h : i = b) => hb.1 (h ▸ hi))]
    · rw [if_neg e, Nat.one_mul]
      exact ih hb.2 ((List.mem_cons.mp ha).resolve_left (fun h => e h.symm))

theorem bigp_single_not_mem {α : Type} [DecidableEq α] {is : List α} (a : α) (u : Nat)
    (ha : ¬ a ∈ is) : bigp is (fun i => if i = a then u else 1) = 1 := by
  apply bigp_eq_one
  intro i hi
  rw [if_neg (fun (h : i = a) => ha (h ▸ hi))]

theorem bigp_pos {α : Type} {is : List α} {f : α → Nat} (h : ∀ i, i ∈ is → 0 < f i) : 0 < bigp is f := by
  induction is with
  | nil => simp
  | cons a t ih =>
    simp only [bigp_cons]
    exact Nat.mul_pos (h a (by simp)) (ih (fun i hi => h i (by simp [hi])))

theorem bigp_le {α : Type} {is : List α} {f g : α → Nat} (h : ∀ i, i ∈ is → f i ≤ g i) :
    bigp is f ≤ bigp is g := by
  induction is with
  | nil => simp
  | cons a t ih =>
    simp only [bigp_cons]
    exact Nat.mul_le_mul (h a (by simp)) (ih (fun i hi => h i (by simp [hi])))

/-! ## the inner loops -/

abbrev WClause := List (Lit × Nat)

theorem M128_pos : 0 < M128 := by unfold M128; exact Nat.pos_of_ne_zero (by simp)

theorem wmul_lt (a b : Nat) : wmul a b < M128 := Nat.mod_lt _ M128_pos

theorem wmul_mod (h x y : Nat) : wmul ((h * x) % M128) y = (h * (x * y)) % M128 := by
  unfold wmul; rw [Nat.mod_mul_mod, Nat.mul_assoc]

/-- weights of the literals of a clause whose variable is unassigned in `top` -/
def unsetProd (top : PModel) (c : WClause) : Nat :=
  bigp c (fun lw => if (top lw.1.var).isNone then lw.2 else 1)

theorem mulUnset_eq (top : PModel) (c : WClause) (h : Nat) (x : Nat) :
    mulUnset top c ((h * x) % M128) = (h * (x * unsetProd top c)) % M128 := by
  unfold mulUnset unsetProd
  induction c generalizing x with
  | nil => simp
  | cons lw t ih =>
    simp only [List.foldl_cons, bigp_cons]
    split
    · rw [wmul_mod, ih, Nat.mul_assoc]
    · rw [ih]; simp

/-- weights of the literals of a clause over variable `v` -/
def varProd (v : Nat) (c : WClause) : Nat := bigp c (fun lw => if lw.1.var = v then lw.2 else 1)

/-- at most one literal occurrence per variable -/
def UniqueVars (c : WClause) : Prop := c.Pairwise (fun a b => a.1.var ≠ b.1.var)

theorem mulFirst_eq (v : Nat) (c : WClause) (hu : UniqueVars c) (h x : Nat) :
    mulFirst v c ((h * x) % M128) = (h * (x * varProd v c)) % M128 := by
  unfold varProd
  induction c with
  | nil => simp [mulFirst]
  | cons lw t ih =>
    have hu' := List.pairwise_cons.mp hu
    unfold mulFirst
    simp only [bigp_cons]
    split
    · next e =>
      have : bigp t (fun lw => if lw.1.var = v then lw.2 else 1) = 1 := by
        apply bigp_eq_one
        intro lw' hlw'
        have := hu'.1 lw' hlw'
        rw [e] at this
        rw [if_neg (fun h => this h.symm)]
      rw [this, wmul_mod]; simp
    · rw [ih hu'.2]; simp

/-! ## pass 1 -/

section passes
variable (clauses : List WClause) (top : PModel)

/-- one step of the first pass -/
def step1 (acc : Nat × (Nat → Bool)) (ci : Nat) : Nat × (Nat → Bool) :=
  if acc.2 ci then acc else (mulUnset top (clauses.getD ci []) acc.1, setInsert acc.2 ci)

theorem pass1Lit_eq (acc : Nat × (Nat → Bool)) (lit : Lit) :
    pass1Lit clauses top acc lit = (containsLit clauses lit.pol lit.var).foldl (step1 clauses top) acc := rfl

theorem pass1_inner (p : Nat → Bool) : ∀ (is : List Nat), is.Nodup → ∀ (h x : Nat) (s : Nat → Bool),
    ((is.filter p).foldl (step1 clauses top) ((h * x) % M128, s)).1 =
      (h * (x * bigp is (fun i => if p i && !s i then unsetProd top (clauses.getD i []) else 1))) % M128
    ∧ ∀ j, ((is.filter p).foldl (step1 clauses top) ((h * x) % M128, s)).2 j = (s j || (is.contains j && p j))
  | [], _, h, x, s => by simp
  | a :: t, hnd, h, x, s => by
    have hnd' := List.nodup_cons.mp hnd
    by_cases hp : p a = true
    · rw [List.filter_cons_of_pos hp, List.foldl_cons]
      by_cases hs : s a = true
      · have e : step1 clauses top ((h * x) % M128, s) a = ((h * x) % M128, s) := by
          simp [step1, hs]
        rw [e]
        obtain ⟨ih1, ih2⟩ := pass1_inner p t hnd'.2 h x s
        refine ⟨?_, ?_⟩
        · rw [ih1]; simp [hs]
        · intro j; rw [ih2 j]
          by_cases ej : j = a
          · subst ej; simp [hs]
          · simp [ej]
      · have hs' : s a = false := by simpa using hs
        have e : step1 clauses top ((h * x) % M128, s) a =
            ((h * (x * unsetProd top (clauses.getD a []))) % M128, setInsert s a) := by
          simp [step1, hs', mulUnset_eq]
        rw [e]
        obtain ⟨ih1, ih2⟩ := pass1_inner p t hnd'.2 h (x * unsetProd top (clauses.getD a [])) (setInsert s a)
        have hcong : bigp t (fun i => if p i && !(setInsert s a) i then unsetProd top (clauses.getD i []) else 1)
            = bigp t (fun i => if p i && !s i then unsetProd top (clauses.getD i []) else 1) := by
          apply bigp_congr
          intro i hi
          have : i ≠ a := fun e => hnd'.1 (e ▸ hi)
          simp [setInsert, this]
        refine ⟨?_, ?_⟩
        · rw [ih1, hcong]; simp [hp, hs', Nat.mul_assoc]
        · intro j; rw [ih2 j]
          by_cases ej : j = a
          · subst ej; simp [setInsert, hp]
          · simp [setInsert, ej]
    · rw [List.filter_cons_of_neg hp]
      have hp' : p a = false := by simpa using hp
      obtain ⟨ih1, ih2⟩ := pass1_inner p t hnd'.2 h x s
      refine ⟨?_, ?_⟩
      · rw [ih1]; simp [hp']
      · intro j; rw [ih2 j]
        by_cases ej : j = a
        · subst ej; simp [hp']
        · simp [ej]

/-- clause `i` contains the literal `lit` -/
def hl (lit : Lit) (i : Nat) : Bool := hasLit (clauses.getD i []) lit.var lit.pol

theorem hl_lt {lit : Lit} {i : Nat} (h : hl clauses lit i = true) : i < clauses.length := by
  unfold hl at h
  by_cases hi : i < clauses.length
  · exact hi
  · rw [List.getD_eq_getElem?_getD, List.getElem?_eq_none (by omega)] at h
    simp [hasLit] at h

theorem pass1_lit (lit : Lit) (h x : Nat) (s : Nat → Bool) :
    (pass1Lit clauses top ((h * x) % M128, s) lit).1 =
      (h * (x * bigp (List.range clauses.length)
        (fun i => if hl clauses lit i && !s i then unsetProd top (clauses.getD i []) else 1))) % M128
    ∧ ∀ j, (pass1Lit clauses top ((h * x) % M128, s) lit).2 j = (s j || hl clauses lit j) := by
  rw [pass1Lit_eq]
  unfold containsLit
  obtain ⟨h1, h2⟩ := pass1_inner clauses top (fun i => hasLit (clauses.getD i []) lit.var lit.pol)
    (List.range clauses.length) List.nodup_range h x s
  refine ⟨h1, ?_⟩
  intro j
  rw [h2 j]
  show (s j || (List.range clauses.length).contains j && hl clauses lit j) = (s j || hl clauses lit j)
  by_cases hj : hl clauses lit j = true
  · have := hl_lt clauses hj
    have hc : (List.range clauses.length).contains j = true := by simp [this]
    rw [hc]; simp
  · have hj' : hl clauses lit j = false := by simpa using hj
    rw [hj']; simp

theorem pass1_all : ∀ (L : List Lit) (h x : Nat) (s : Nat → Bool),
    (L.foldl (pass1Lit clauses top) ((h * x) % M128, s)).1 =
      (h * (x * bigp (List.range clauses.length)
        (fun i => if L.any (fun lit => hl clauses lit i) && !s i then unsetProd top (clauses.getD i []) else 1))) % M128
    ∧ ∀ j, (L.foldl (pass1Lit clauses top) ((h * x) % M128, s)).2 j = (s j || L.any (fun lit => hl clauses lit j))
  | [], h, x, s => by simp [bigp_one]
  | lit :: L, h, x, s => by
    rw [List.foldl_cons]
    obtain ⟨e1, e2⟩ := pass1_lit clauses top lit h x s
    have e : pass1Lit clauses top ((h * x) % M128, s) lit =
        ((h * (x * bigp (List.range clauses.length)
          (fun i => if hl clauses lit i && !s i then unsetProd top (clauses.getD i []) else 1))) % M128,
         (pass1Lit clauses top ((h * x) % M128, s) lit).2) := Prod.ext e1 rfl
    rw [e]
    obtain ⟨i1, i2⟩ := pass1_all L h _ (pass1Lit clauses top ((h * x) % M128, s) lit).2
    refine ⟨?_, ?_⟩
    · rw [i1, Nat.mul_assoc, ← bigp_mul]
      congr 2; congr 1
      apply bigp_congr
      intro i _
      rw [e2 i, List.any_cons]
      generalize s i = a
      generalize hl clauses lit i = b
      generalize L.any (fun lit => hl clauses lit i) = c
      generalize unsetProd top (clauses.getD i []) = u
      cases a <;> cases b <;> cases c <;> simp
    · intro j
      rw [i2 j, e2 j]
      simp [Bool.or_assoc]

/-! ## pass 2 -/

def step2 (set : Nat → Bool) (v : Nat) (h : Nat) (ci : Nat) : Nat :=
  if set ci then h else mulFirst v (clauses.getD ci []) h

theorem pass2Lit_eq (set : Nat → Bool) (h : Nat) (lit : Lit) :
    pass2Lit clauses set h lit =
      (containsLit clauses (!lit.pol) lit.var).foldl (step2 clauses set lit.var) h := rfl

theorem pass2_inner (hu : ∀ c, c ∈ clauses → UniqueVars c) (set : Nat → Bool) (v : Nat) (p : Nat → Bool) :
    ∀ (is : List Nat) (h x : Nat),
    (is.filter p).foldl (step2 clauses set v) ((h * x) % M128) =
      (h * (x * bigp is (fun i => if p i && !set i then varProd v (clauses.getD i []) else 1))) % M128
  | [], h, x => by simp
  | a :: t, h, x => by
    have hua : UniqueVars (clauses.getD a []) := by
      by_cases ha : a < clauses.length
      · rw [List.getD_eq_getElem?_getD, List.getElem?_eq_getElem ha]
        exact hu _ (List.getElem_mem ha)
      · rw [List.getD_eq_getElem?_getD, List.getElem?_eq_none (by omega)]
        exact List.Pairwise.nil
    by_cases hp : p a = true
    · rw [List.filter_cons_of_pos hp, List.foldl_cons]
      by_cases hs : set a = true
      · have e : step2 clauses set v ((h * x) % M128) a = (h * x) % M128 := by simp [step2, hs]
        rw [e, pass2_inner hu set v p t h x]; simp [hs]
      · have hs' : set a = false := by simpa using hs
        have e : step2 clauses set v ((h * x) % M128) a =
            (h * (x * varProd v (clauses.getD a []))) % M128 := by
          unfold step2; rw [if_neg (by simp [hs'])]; exact mulFirst_eq v _ hua h x
        rw [e, pass2_inner hu set v p t h _]; simp [hp, hs', Nat.mul_assoc]
    · rw [List.filter_cons_of_neg hp]
      have hp' : p a = false := by simpa using hp
      rw [pass2_inner hu set v p t h x]; simp [hp']

theorem pass2_all (hu : ∀ c, c ∈ clauses → UniqueVars c) (set : Nat → Bool) :
    ∀ (L : List Lit) (h x : Nat),
    L.foldl (pass2Lit clauses set) ((h * x) % M128) =
      (h * (x * bigp L (fun lit => bigp (List.range clauses.length)
        (fun i => if hl clauses lit.neg i && !set i then varProd lit.var (clauses.getD i []) else 1)))) % M128
  | [], h, x => by simp
  | lit :: L, h, x => by
    rw [List.foldl_cons, pass2Lit_eq]
    unfold containsLit
    rw [pass2_inner clauses hu set lit.var _ (List.range clauses.length) h x, pass2_all hu set L h _]
    simp only [bigp_cons, Nat.mul_assoc]
    rfl

end passes

/-! ## the hash as a function of the model -/

/-- the weighted clause has a literal that is true in `m` -/
def wcSat (m : PModel) (c : WClause) : Bool := c.any (fun lw => litTrue m lw.1)

/-- a literal occurrence has been multiplied into the hash: its clause is satisfied, or the
literal is false -/
def removed (m : PModel) (c : WClause) (lw : Lit × Nat) : Bool := wcSat m c || litFalse m lw.1

def contrib (m : PModel) (c : WClause) : Nat := bigp c (fun lw => if removed m c lw then lw.2 else 1)

/-- the unbounded product of the weights of all removed literal occurrences -/
def hashOf (clauses : List WClause) (m : PModel) : Nat :=
  bigp (List.range clauses.length) (fun i => contrib m (clauses.getD i []))

def satOf (clauses : List WClause) (m : PModel) (i : Nat) : Bool := wcSat m (clauses.getD i [])

theorem mem_pmDifference {n : Nat} {new old : PModel} {lit : Lit} :
    lit ∈ pmDifference n new old ↔
      lit.var < n ∧ new lit.var = some lit.pol ∧ old lit.var ≠ some lit.pol := by
  obtain ⟨v, p⟩ := lit
  unfold pmDifference
  simp only [List.mem_append, List.mem_map, List.mem_filter, List.mem_range, Lit.mk.injEq,
    Bool.and_eq_true, beq_iff_eq, bne_iff_ne]
  constructor
  · rintro (⟨x, ⟨hx, h1, h2⟩, rfl, rfl⟩ | ⟨x, ⟨hx, h1, h2⟩, rfl, rfl⟩) <;> exact ⟨hx, h1, h2⟩
  · rintro ⟨hx, h1, h2⟩
    cases p
    · exact .inl ⟨v, ⟨hx, h1, h2⟩, rfl, rfl⟩
    · exact .inr ⟨v, ⟨hx, h1, h2⟩, rfl, rfl⟩

theorem nodup_pmDifference (n : Nat) (new old : PModel) : (pmDifference n new old).Nodup := by
  unfold pmDifference
  rw [List.nodup_iff_pairwise_ne, List.pairwise_append]
  have hr : ∀ (p : Nat → Bool) (b : Bool),
      List.Pairwise (fun x1 x2 : Lit => x1 ≠ x2) (((List.range n).filter p).map fun x => Lit.mk x b) := by
    intro p b
    rw [List.pairwise_map]
    have := (List.nodup_iff_pairwise_ne.mp (List.nodup_range (n := n))).filter p
    exact this.imp (fun h e => h (by injection e))
  refine ⟨hr _ _, hr _ _, ?_⟩
  intro a ha b hb e
  obtain ⟨x, _, rfl⟩ := List.mem_map.mp ha
  obtain ⟨y, _, rfl⟩ := List.mem_map.mp hb
  injection e with _ e2
  cases e2

theorem uniqueVars_eq {c : WClause} (hu : UniqueVars c) {a b : Lit × Nat} (ha : a ∈ c) (hb : b ∈ c)
    (e : a.1.var = b.1.var) : a = b := by
  induction c with
  | nil => cases ha
  | cons x t ih =>
    have hx := List.pairwise_cons.mp hu
    rcases List.mem_cons.mp ha with rfl | ha' <;> rcases List.mem_cons.mp hb with rfl | hb'
    · rfl
    · exact absurd e (hx.1 b hb')
    · exact absurd e.symm (hx.1 a ha')
    · exact ih hx.2 ha' hb'

theorem wcSat_mono {m m' : PModel} (h : PExt m m') {c : WClause} (hs : wcSat m c = true) :
    wcSat m' c = true := by
  unfold wcSat at *
  rw [List.any_eq_true] at *
  obtain ⟨lw, hl, ht⟩ := hs
  exact ⟨lw, hl, litTrue_mono h ht⟩

theorem hasLit_iff {c : WClause} {v : Nat} {p : Bool} :
    hasLit c v p = true ↔ ∃ lw, lw ∈ c ∧ lw.1 = ⟨v, p⟩ := by
  unfold hasLit
  rw [List.any_eq_true]
  constructor
  · rintro ⟨lw, hl, h⟩
    simp only [Bool.and_eq_true, beq_iff_eq] at h
    exact ⟨lw, hl, lit_ext h.2 h.1⟩
  · rintro ⟨lw, hl, h⟩
    exact ⟨lw, hl, by rw [h]; simp⟩

/-- the set computed by the first pass is the set of clauses satisfied by the new model -/
theorem wcSat_new {n : Nat} {old new : PModel} (hext : PExt old new)
    (hn : ∀ x, new x ≠ none → x < n) (c : WClause) :
    wcSat new c = (wcSat old c || (pmDifference n new old).any (fun lit => hasLit c lit.var lit.pol)) := by
  rw [Bool.eq_iff_iff]
  simp only [Bool.or_eq_true, List.any_eq_true]
  constructor
  · intro h
    unfold wcSat at h
    obtain ⟨lw, hl, ht⟩ := List.any_eq_true.mp h
    by_cases ho : litTrue old lw.1 = true
    · exact .inl (List.any_eq_true.mpr ⟨lw, hl, ho⟩)
    · refine .inr ⟨lw.1, mem_pmDifference.mpr ⟨hn _ ?_, litTrue_iff.mp ht, ?_⟩, hasLit_iff.mpr ⟨lw, hl, rfl⟩⟩
      · rw [litTrue_iff.mp ht]; simp
      · intro e; exact ho (litTrue_iff.mpr e)
  · rintro (h | ⟨lit, hd, hh⟩)
    · exact wcSat_mono hext h
    · obtain ⟨lw, hl, e⟩ := hasLit_iff.mp hh
      have := (mem_pmDifference.mp hd).2.1
      exact List.any_eq_true.mpr ⟨lw, hl, by rw [e, litTrue_iff]; exact this⟩

/-- per-clause bookkeeping of one `update_hash_and_sat_set` -/
theorem contrib_update {n : Nat} {old new : PModel} (hext : PExt old new)
    (hn : ∀ x, new x ≠ none → x < n) {c : WClause} (hu : UniqueVars c) :
    contrib new c = contrib old c
      * (if wcSat new c && !wcSat old c then unsetProd old c else 1)
      * bigp (pmDifference n new old)
          (fun lit => if hasLit c lit.var (!lit.pol) && !wcSat new c then varProd lit.var c else 1) := by
  by_cases hnew : wcSat new c = true
  · -- the third factor is trivial
    have h3 : bigp (pmDifference n new old)
        (fun lit => if hasLit c lit.var (!lit.pol) && !wcSat new c then varProd lit.var c else 1) = 1 := by
      apply bigp_eq_one; intro i _; simp [hnew]
    rw [h3, Nat.mul_one]
    by_cases hold : wcSat old c = true
    · simp [contrib, removed, hnew, hold]
    · have hold' : wcSat old c = false := by simpa using hold
      simp only [hnew, hold', Bool.not_false, Bool.and_self, if_true]
      unfold contrib unsetProd
      rw [← bigp_mul]
      apply bigp_congr
      intro lw hl
      simp only [removed, hnew, hold', Bool.true_or, Bool.false_or, if_true]
      rcases lit_cases old lw.1 with h | h | h
      · have : wcSat old c = true := List.any_eq_true.mpr ⟨lw, hl, h⟩
        rw [hold'] at this; cases this
      · have : (old lw.1.var).isNone = false := by rw [litFalse_iff.mp h]; rfl
        simp [h, this]
      · have h' := litUnset_iff.mp h
        have : litFalse old lw.1 = false := by simp [litFalse, h']
        simp [this, h']
  · have hnew' : wcSat new c = false := by simpa using hnew
    have hold' : wcSat old c = false := by
      cases h : wcSat old c with
      | false => rfl
      | true => rw [wcSat_mono hext h] at hnew'; cases hnew'
    simp only [hnew', hold', Bool.not_false, Bool.and_true, if_false, Nat.mul_one,
      Bool.false_eq_true]
    -- step 1
    have s1 : ∀ lit : Lit, (if hasLit c lit.var (!lit.pol) = true then varProd lit.var c else 1)
        = bigp c (fun lw => if lw.1 = lit.neg then lw.2 else 1) := by
      intro lit
      by_cases hh : hasLit c lit.var (!lit.pol) = true
      · rw [if_pos hh]
        obtain ⟨lw0, hl0, e0⟩ := hasLit_iff.mp hh
        unfold varProd
        apply bigp_congr
        intro lw hl
        by_cases ev : lw.1.var = lit.var
        · have : lw = lw0 := uniqueVars_eq hu hl hl0 (by rw [ev, e0])
          rw [if_pos ev, if_pos (by rw [this, e0]; rfl)]
        · rw [if_neg ev, if_neg (fun e => ev (by rw [e]; rfl))]
      · rw [if_neg hh]
        symm
        apply bigp_eq_one
        intro lw hl
        rw [if_neg]
        intro e
        exact hh (hasLit_iff.mpr ⟨lw, hl, e⟩)
    rw [bigp_congr (fun lit _ => s1 lit), bigp_comm]
    -- step 2
    have s2 : ∀ lw : Lit × Nat, bigp (pmDifference n new old) (fun lit => if lw.1 = lit.neg then lw.2 else 1)
        = if lw.1.neg ∈ pmDifference n new old then lw.2 else 1 := by
      intro lw
      have hiff : ∀ lit : Lit, lw.1 = lit.neg ↔ lit = lw.1.neg := by
        intro lit
        obtain ⟨⟨v, p⟩, w⟩ := lw
        obtain ⟨v', p'⟩ := lit
        simp only [Lit.neg, Lit.mk.injEq]
        constructor
        · rintro ⟨rfl, rfl⟩; simp
        · rintro ⟨rfl, rfl⟩; simp
      have hc : bigp (pmDifference n new old) (fun lit => if lw.1 = lit.neg then lw.2 else 1)
          = bigp (pmDifference n new old) (fun lit => if lit = lw.1.neg then lw.2 else 1) := by
        apply bigp_congr
        intro lit _
        by_cases e : lw.1 = lit.neg
        · rw [if_pos e, if_pos ((hiff lit).mp e)]
        · rw [if_neg e, if_neg (fun h => e ((hiff lit).mpr h))]
      rw [hc]
      by_cases hm : lw.1.neg ∈ pmDifference n new old
      · rw [if_pos hm, bigp_single_mem (nodup_pmDifference n new old) _ _ hm]
      · rw [if_neg hm, bigp_single_not_mem _ _ hm]
    rw [bigp_congr (fun lw _ => s2 lw)]
    unfold contrib
    rw [← bigp_mul]
    apply bigp_congr
    intro lw hl
    simp only [removed, hnew', hold', Bool.false_or]
    -- step 3
    have hmem : lw.1.neg ∈ pmDifference n new old ↔ (litFalse new lw.1 = true ∧ litFalse old lw.1 = false) := by
      rw [mem_pmDifference, lneg_var, lneg_pol, litFalse_iff]
      constructor
      · rintro ⟨_, h1, h2⟩
        refine ⟨h1, ?_⟩
        cases h : litFalse old lw.1 with
        | false => rfl
        | true => exact absurd (litFalse_iff.mp h) h2
      · rintro ⟨h1, h2⟩
        refine ⟨hn _ (by rw [h1]; simp), h1, ?_⟩
        intro e; rw [litFalse_iff.mpr e] at h2; cases h2
    by_cases ho : litFalse old lw.1 = true
    · have hnw := litFalse_mono hext ho
      have : ¬ lw.1.neg ∈ pmDifference n new old := by rw [hmem]; simp [ho]
      simp [ho, hnw, this]
    · have ho' : litFalse old lw.1 = false := by simpa using ho
      by_cases hnw : litFalse new lw.1 = true
      · have : lw.1.neg ∈ pmDifference n new old := hmem.mpr ⟨hnw, ho'⟩
        simp [ho', hnw, this]
      · have hnw' : litFalse new lw.1 = false := by simpa using hnw
        have : ¬ lw.1.neg ∈ pmDifference n new old := by rw [hmem]; simp [hnw']
        simp [ho', hnw', this]

/-- **`update_hash_and_sat_set` computes the hash and the satisfied set of the new model**,
provided the top state carries those of its own model and the new model extends it. -/
theorem update_spec {clauses : List WClause} {numVars : Nat} {top : SatState} {new : PModel}
    (hu : ∀ c, c ∈ clauses → UniqueVars c)
    (hh : top.hash = hashOf clauses top.model % M128)
    (hs : ∀ i, top.sat i = satOf clauses top.model i)
    (hext : PExt top.model new) (hn : ∀ x, new x ≠ none → x < numVars) :
    (updateHashAndSatSet clauses numVars top new).1 = hashOf clauses new % M128
    ∧ ∀ i, (updateHashAndSatSet clauses numVars top new).2 i = satOf clauses new i := by
  unfold updateHashAndSatSet
  simp only []
  have h0 : top.hash = (1 * hashOf clauses top.model) % M128 := by rw [hh]; simp
  obtain ⟨p1, p2⟩ := pass1_all clauses top.model (pmDifference numVars new top.model) 1
    (hashOf clauses top.model) top.sat
  rw [← h0] at p1 p2
  have hset : ∀ i, ((pmDifference numVars new top.model).foldl (pass1Lit clauses top.model)
      (top.hash, top.sat)).2 i = satOf clauses new i := by
    intro i
    rw [p2 i, hs i]
    unfold satOf
    rw [wcSat_new hext hn]
    rfl
  refine ⟨?_, hset⟩
  rw [p1, pass2_all clauses hu]
  congr 1
  rw [Nat.one_mul, bigp_comm]
  unfold hashOf
  rw [← bigp_mul, ← bigp_mul]
  apply bigp_congr
  intro i hi
  have hui : UniqueVars (clauses.getD i []) := by
    have hi' : i < clauses.length := List.mem_range.mp hi
    rw [List.getD_eq_getElem?_getD, List.getElem?_eq_getElem hi']
    exact hu _ (List.getElem_mem hi')
  rw [contrib_update hext hn hui]
  congr 1
  · congr 1
    rw [hs i]
    have := wcSat_new hext hn (clauses.getD i [])
    unfold satOf
    rw [this]
    generalize wcSat top.model (clauses.getD i []) = a
    have : (pmDifference numVars new top.model).any (fun lit => hl clauses lit i)
        = (pmDifference numVars new top.model).any (fun lit => hasLit (clauses.getD i []) lit.var lit.pol) := rfl
    rw [this]
    generalize (pmDifference numVars new top.model).any (fun lit => hasLit (clauses.getD i []) lit.var lit.pol) = b
    cases a <;> cases b <;> simp
  · apply bigp_congr
    intro lit _
    rw [hset i]
    rfl

end UnitProp
