import RsddModel.Model.TopDown
import RsddModel.Model.BddWmc
/-!
# Vocabulary of the translator `tools/gen_dnnf.py` (trusted mapping targets)

The translator maps a handful of Rust library calls onto the definitions below; everything else
it emits is built from the hand-written model's own vocabulary (`TopDown.Solver`,
`TopDown.NodeStore`, `Bdd.Ptr`, …).  Static file: not regenerated.

* `tblGetByHash st k`            = `BackedRobinhoodTable::get_by_hash(k)` on the list model of the
  semantic store (`TopDown.getOrInsertSemantic`: entries `(table key, regular pointer)`, oldest
  first): the first entry stored under `k`;
* `tblGetOrInsertByHash st k n`  = `get_or_insert_by_hash(k, n, true)` (equality by hash): the
  first entry stored under `k`, otherwise `n` is appended under `k`;
* `varSafe`                      = `BddPtr::var_safe`.
-/
namespace TieDnnfAux
open Bdd

def tblGetByHash {H : Type} [DecidableEq H] (st : List (H × Ptr)) (k : H) : Option Ptr :=
  match st.find? (fun e => e.1 == k) with
  | some e => some e.2
  | none => none

def tblGetOrInsertByHash {H : Type} [DecidableEq H] (st : List (H × Ptr)) (k : H) (n : Ptr) :
    Ptr × List (H × Ptr) :=
  match st.find? (fun e => e.1 == k) with
  | some e => (e.2, st)
  | none => (n, st ++ [(k, n)])

def varSafe : Ptr → Option Nat
  | .node _ v _ _ => some v
  | _ => none

end TieDnnfAux
