import RsddModel.Model.VTree
/-!
# Support definitions for the translator route of `vtree.rs` / `btree.rs` / `dtree.rs`
(`tools/gen_vtree.py` ↦ `Model/GenVTree.lean`, tied in `Props/TieVTree.lean`)

These are the Lean counterparts of the Rust library operations in the translator's mapping table
(slice patterns from the back, `enumerate()` loops, `Iterator::max`, …) plus the facts about them
that do not mention the generated definitions.
-/
namespace VT.Tr

/-- the slice pattern `[rest @ .., last]`: `none` on the empty slice -/
def sliceBack {α : Type} : List α → Option (List α × α)
  | [] => none
  | [x] => some ([], x)
  | x :: y :: r => (sliceBack (y :: r)).map fun p => (x :: p.1, p.2)

theorem sliceBack_append {α : Type} (l : List α) (a : α) : sliceBack (l ++ [a]) = some (l, a) := by
  induction l with
  | nil => rfl
  | cons x xs ih =>
    cases xs with
    | nil => rfl
    | cons y ys =>
      have : (x :: y :: ys ++ [a]) = x :: y :: (ys ++ [a]) := rfl
      rw [this, sliceBack]
      have h2 : y :: (ys ++ [a]) = (y :: ys) ++ [a] := rfl
      rw [h2, ih]; rfl

theorem sliceBack_eq_none {α : Type} (l : List α) : sliceBack l = none ↔ l = [] := by
  constructor
  · intro h
    cases l with
    | nil => rfl
    | cons x xs =>
      exfalso
      have hne : x :: xs ≠ [] := by simp
      have := List.dropLast_concat_getLast hne
      rw [← this, sliceBack_append] at h
      cases h
  · intro h; subst h; rfl

theorem sliceBack_eq_some {α : Type} {l r : List α} {a : α} (h : sliceBack l = some (r, a)) :
    l = r ++ [a] := by
  cases l with
  | nil => cases h
  | cons x xs =>
    have hne : x :: xs ≠ [] := by simp
    have e := List.dropLast_concat_getLast hne
    rw [← e, sliceBack_append] at h
    cases h
    exact e.symm

/-- `for (idx, v) in it.enumerate() { … }`: the mutable locals of the body are the state -/
def forEnum {α σ : Type} (l : List α) (s : σ) (f : Nat → α → σ → σ) : σ :=
  (l.zipIdx).foldl (fun s p => f p.2 p.1 s) s

/-- `for x in it { … }` (the state first, so that its type is known when the body is elaborated) -/
abbrev forIn' {α σ : Type} (l : List α) (s : σ) (f : σ → α → σ) : σ := l.foldl f s

/-- `for x in it { … }` with a body that can panic -/
abbrev forInM {α σ : Type} (l : List α) (s : σ) (f : σ → α → Option σ) : Option σ := l.foldlM f s

theorem forEnum_eq_aux {α σ : Type} (f : Nat → α → σ → σ) (l : List α) (k : Nat) (s : σ) :
    (l.zipIdx k).foldl (fun s p => f p.2 p.1 s) s
      = (l.foldl (fun (st : Nat × σ) v => (st.1 + 1, f st.1 v st.2)) (k, s)).2 := by
  induction l generalizing k s with
  | nil => rfl
  | cons x xs ih => simp only [List.zipIdx_cons, List.foldl_cons]; rw [ih]

/-- `Iterator::max` over a collection of `usize` -/
def listMax? : List Nat → Option Nat
  | [] => none
  | x :: xs => some (xs.foldl max x)

/-- `Iterator::min` over a collection of `usize` -/
def listMin? : List Nat → Option Nat
  | [] => none
  | x :: xs => some (xs.foldl min x)

theorem foldl_max_assoc (a b : Nat) (l : List Nat) : l.foldl max (max a b) = max a (l.foldl max b) := by
  induction l generalizing b with
  | nil => rfl
  | cons x xs ih => simp only [List.foldl_cons]; rw [Nat.max_assoc, ih]

theorem listMax?_append {a b : List Nat} {x y : Nat} (ha : listMax? a = some x) (hb : listMax? b = some y) :
    listMax? (a ++ b) = some (max x y) := by
  cases a with
  | nil => cases ha
  | cons a0 as =>
    cases b with
    | nil => cases hb
    | cons b0 bs =>
      simp only [listMax?, Option.some.injEq] at ha hb
      simp only [List.cons_append, listMax?, List.foldl_append, List.foldl_cons, Option.some.injEq]
      rw [foldl_max_assoc, ha, hb]

/-- `extract_leaf().value_usize()` where the caller has checked `is_leaf()` (the Rust panics on an
inner node; `0` here) -/
def leafD : VTree → Nat
  | .leaf v => v
  | .node _ _ => 0

/-- `VTree::all_vars` (a `HashSet`, modelled as the list of leaf labels) -/
def allVars : VTree → List Nat
  | .leaf v => [v]
  | .node l r => allVars l ++ allVars r

theorem listMax?_allVars (t : VTree) : listMax? (allVars t) = some t.maxLabel := by
  induction t with
  | leaf v => rfl
  | node l r ihl ihr => simp only [allVars, VTree.maxLabel]; exact listMax?_append ihl ihr

/-- `LeastCommonAncestor::new(&tree)`: `(seg_tree contents, index_map)` -/
def lcaNew (t : VTree) : List Nat × List Nat := (t.eulerVec, t.indexMap)

end VT.Tr
