import RsddModel.Model.CnfUtil
import RsddModel.Lemmas.Wmc
/-!
# Lemmas for the CNF-side utilities (property C15)

Part 1: normalisation (`Cnf::new`), `num_vars`, `eval`, `is_sat_partial`, `condition`.
Part 2: `AssignmentIter` and the brute-force count.
-/
namespace CnfUtil
open Spec

/-! ## the derived `BEq` on literals is lawful -/

theorem lit_beq_iff (a b : Lit) : (a == b) = true ↔ a = b := by
  cases a with | mk av ap => cases b with | mk bv bp =>
  show (instBEqLit.beq _ _) = true ↔ _
  simp [instBEqLit.beq]

instance : LawfulBEq Lit where
  eq_of_beq := fun h => (lit_beq_iff _ _).mp h
  rfl := (lit_beq_iff _ _).mpr rfl

/-! ## Part 1a: sorting and dedup keep the literal set -/

theorem mem_insertByLabel {x l : Lit} : ∀ {xs : List Lit}, x ∈ insertByLabel l xs ↔ x = l ∨ x ∈ xs
  | [] => by simp [insertByLabel]
  | y :: ys => by
    simp only [insertByLabel]
    split
    · simp
    · simp only [List.mem_cons, mem_insertByLabel (xs := ys)]
      constructor
      · rintro (h | h | h)
        · exact Or.inr (Or.inl h)
        · exact Or.inl h
        · exact Or.inr (Or.inr h)
      · rintro (h | h | h)
        · exact Or.inr (Or.inl h)
        · exact Or.inl h
        · exact Or.inr (Or.inr h)

theorem mem_sortByLabel {x : Lit} : ∀ {c : List Lit}, x ∈ sortByLabel c ↔ x ∈ c
  | [] => by simp [sortByLabel]
  | l :: ls => by simp [sortByLabel, mem_insertByLabel, mem_sortByLabel (c := ls)]

theorem mem_dedupAdj {x : Lit} : ∀ {c : List Lit}, x ∈ dedupAdj c ↔ x ∈ c
  | [] => by simp [dedupAdj]
  | [a] => by simp [dedupAdj]
  | a :: b :: t => by
    have ih := mem_dedupAdj (x := x) (c := b :: t)
    simp only [dedupAdj]
    split
    · rename_i h
      subst h
      rw [ih]; simp
    · simp only [List.mem_cons] at ih ⊢
      rw [ih]

theorem mem_normClause {x : Lit} {c : List Lit} : x ∈ normClause c ↔ x ∈ c := by
  simp [normClause, mem_dedupAdj, mem_sortByLabel]

@[simp] theorem normClause_nil : normClause [] = [] := rfl

theorem normClause_eq_nil {c : List Lit} : normClause c = [] ↔ c = [] := by
  constructor
  · intro h
    cases c with
    | nil => rfl
    | cons a t =>
      have : a ∈ normClause (a :: t) := mem_normClause.mpr List.mem_cons_self
      rw [h] at this; cases this
  · rintro rfl; rfl

/-! the sort is a stable sort: sorted, a permutation, and order-preserving on equal keys -/

theorem insertByLabel_perm (l : Lit) : ∀ (xs : List Lit), (insertByLabel l xs).Perm (l :: xs)
  | [] => List.Perm.refl _
  | y :: ys => by
    simp only [insertByLabel]
    split
    · exact List.Perm.refl _
    · exact ((insertByLabel_perm l ys).cons y).trans (List.Perm.swap l y ys)

theorem sortByLabel_perm : ∀ (c : List Lit), (sortByLabel c).Perm c
  | [] => List.Perm.refl _
  | l :: ls => (insertByLabel_perm l _).trans ((sortByLabel_perm ls).cons l)

theorem insertByLabel_sorted (l : Lit) : ∀ (xs : List Lit), xs.Pairwise (fun a b => a.var ≤ b.var) →
    (insertByLabel l xs).Pairwise (fun a b => a.var ≤ b.var)
  | [], _ => by simp [insertByLabel]
  | y :: ys, h => by
    have hy := List.pairwise_cons.mp h
    simp only [insertByLabel]
    split
    · rename_i hle
      refine List.pairwise_cons.mpr ⟨?_, h⟩
      intro z hz
      rcases List.mem_cons.mp hz with rfl | hz
      · exact hle
      · exact Nat.le_trans hle (hy.1 z hz)
    · rename_i hle
      refine List.pairwise_cons.mpr ⟨?_, insertByLabel_sorted l ys hy.2⟩
      intro z hz
      rcases mem_insertByLabel.mp hz with rfl | hz
      · omega
      · exact hy.1 z hz

theorem sortByLabel_sorted : ∀ (c : List Lit), (sortByLabel c).Pairwise (fun a b => a.var ≤ b.var)
  | [] => List.Pairwise.nil
  | l :: ls => insertByLabel_sorted l _ (sortByLabel_sorted ls)

theorem insertByLabel_filter (l : Lit) (v : Nat) : ∀ (xs : List Lit),
    xs.Pairwise (fun a b => a.var ≤ b.var) →
    (insertByLabel l xs).filter (fun x => x.var == v) = (l :: xs).filter (fun x => x.var == v)
  | [], _ => rfl
  | y :: ys, h => by
    have hy := List.pairwise_cons.mp h
    simp only [insertByLabel]
    split
    · rfl
    · rename_i hle
      have ih := insertByLabel_filter l v ys hy.2
      simp only [List.filter_cons] at ih ⊢
      rw [ih]
      by_cases h1 : l.var = v <;> by_cases h2 : y.var = v
      · omega
      · simp [h1, h2]
      · simp [h1, h2]
      · simp [h1, h2]

/-- stability: literals with the same label keep their relative order -/
theorem sortByLabel_stable (v : Nat) : ∀ (c : List Lit),
    (sortByLabel c).filter (fun x => x.var == v) = c.filter (fun x => x.var == v)
  | [] => rfl
  | l :: ls => by
    simp only [sortByLabel]
    rw [insertByLabel_filter l v _ (sortByLabel_sorted ls)]
    simp only [List.filter_cons, sortByLabel_stable v ls]

/-! ## Part 1b: semantics of the normal form -/

theorem clauseSat_congr_mem (a : Assign) {c c' : List Lit} (h : ∀ x, x ∈ c ↔ x ∈ c') :
    clauseSat a c = clauseSat a c' := by
  simp only [clauseSat]
  rw [Bool.eq_iff_iff]
  simp only [List.any_eq_true]
  constructor
  · rintro ⟨x, hx, hs⟩; exact ⟨x, (h x).mp hx, hs⟩
  · rintro ⟨x, hx, hs⟩; exact ⟨x, (h x).mpr hx, hs⟩

theorem clauseSat_normClause (a : Assign) (c : List Lit) :
    clauseSat a (normClause c) = clauseSat a c :=
  clauseSat_congr_mem a fun _ => mem_normClause

@[simp] theorem cnfNew_clauses (cs : List (List Lit)) : (cnfNew cs).clauses = cs.map normClause := rfl
@[simp] theorem cnfNew_numVars (cs : List (List Lit)) :
    (cnfNew cs).numVars = numVarsOf (cs.map normClause) := rfl
@[simp] theorem cnfNew_hasher (cs : List (List Lit)) :
    (cnfNew cs).hasher = CnfHasher.new (cs.map normClause) (numVarsOf (cs.map normClause)) := rfl

theorem cnfSat_map_normClause (a : Assign) : ∀ (cs : List (List Lit)),
    cnfSat a (cs.map normClause) = cnfSat a cs
  | [] => rfl
  | c :: cs => by
    have ih := cnfSat_map_normClause a cs
    simp only [cnfSat, List.map_cons, List.all_cons] at ih ⊢
    rw [ih, clauseSat_normClause]

/-! ## Part 1c: `num_vars` -/

theorem foldl_max_le_iff : ∀ (l : List Nat) (m n : Nat),
    l.foldl max m ≤ n ↔ m ≤ n ∧ ∀ x ∈ l, x ≤ n
  | [], m, n => by simp
  | x :: l, m, n => by
    simp only [List.foldl_cons, foldl_max_le_iff l, List.mem_cons, forall_eq_or_imp]
    constructor
    · rintro ⟨h1, h2⟩; exact ⟨by omega, by omega, h2⟩
    · rintro ⟨h1, h2, h3⟩; exact ⟨by omega, h3⟩

theorem foldl_max_eq (l : List Nat) (m : Nat) : l.foldl max m = max m (l.foldl max 0) := by
  apply Nat.le_antisymm
  · rw [foldl_max_le_iff]
    refine ⟨Nat.le_max_left _ _, fun x hx => ?_⟩
    have := (foldl_max_le_iff l 0 (l.foldl max 0)).mp (Nat.le_refl _)
    exact Nat.le_trans (this.2 x hx) (Nat.le_max_right _ _)
  · have h := (foldl_max_le_iff l m (l.foldl max m)).mp (Nat.le_refl _)
    apply Nat.max_le.mpr
    refine ⟨h.1, ?_⟩
    rw [foldl_max_le_iff]
    exact ⟨Nat.zero_le _, h.2⟩

theorem clauseMax_le_iff (c : List Lit) (n : Nat) : clauseMax c ≤ n ↔ ∀ l ∈ c, l.var < n := by
  simp only [clauseMax, foldl_max_le_iff, List.mem_map, Nat.zero_le, true_and]
  constructor
  · intro h l hl; exact h _ ⟨l, hl, rfl⟩
  · rintro h x ⟨l, hl, rfl⟩; exact h l hl

theorem numVarsOf_le_iff (cs : List (List Lit)) (n : Nat) :
    numVarsOf cs ≤ n ↔ ∀ c ∈ cs, ∀ l ∈ c, l.var < n := by
  simp only [numVarsOf, foldl_max_le_iff, List.mem_map, Nat.zero_le, true_and]
  constructor
  · intro h c hc; exact (clauseMax_le_iff c n).mp (h _ ⟨c, hc, rfl⟩)
  · rintro h x ⟨c, hc, rfl⟩; exact (clauseMax_le_iff c n).mpr (h c hc)

theorem numVarsOf_map_normClause (cs : List (List Lit)) :
    numVarsOf (cs.map normClause) = numVarsOf cs := by
  apply Nat.le_antisymm
  · rw [numVarsOf_le_iff]
    intro c hc l hl
    obtain ⟨c0, hc0, rfl⟩ := List.mem_map.mp hc
    exact (numVarsOf_le_iff cs _).mp (Nat.le_refl _) c0 hc0 l (mem_normClause.mp hl)
  · rw [numVarsOf_le_iff]
    intro c hc l hl
    exact (numVarsOf_le_iff _ _).mp (Nat.le_refl _) (normClause c) (List.mem_map_of_mem hc) l
      (mem_normClause.mpr hl)

theorem cnfNumVars_aux (c : List Lit) (m : Nat) :
    c.foldl (fun m l => max m (l.var + 1)) m = max m (clauseMax c) := by
  rw [clauseMax, ← foldl_max_eq, List.foldl_map]

/-- the model's `num_vars` is the specification's -/
theorem numVarsOf_eq_spec (cs : List (List Lit)) : numVarsOf cs = cnfNumVars cs := by
  simp only [cnfNumVars, numVarsOf, cnfNumVars_aux, List.foldl_map]

/-- a member label is below `num_vars`; `num_vars` is attained unless it is zero -/
theorem numVarsOf_attained : ∀ (cs : List (List Lit)),
    numVarsOf cs = 0 ∨ ∃ c ∈ cs, ∃ l ∈ c, l.var + 1 = numVarsOf cs := by
  intro cs
  by_cases h0 : numVarsOf cs = 0
  · exact Or.inl h0
  · right
    apply Classical.byContradiction
    intro hne
    have : numVarsOf cs ≤ numVarsOf cs - 1 := by
      rw [numVarsOf_le_iff]
      intro c hc l hl
      have h1 := (numVarsOf_le_iff cs _).mp (Nat.le_refl _) c hc l hl
      have h2 : l.var + 1 ≠ numVarsOf cs := fun e => hne ⟨c, hc, l, hl, e⟩
      omega
    omega

/-! ## Part 1d: `eval` -/

/-- the assignment function of a vector (`false` beyond its end) -/
def asgFn (v : List Bool) : Assign := fun x => v.getD x false

theorem eval_eq (c : CnfM) (v : List Bool) (h : c.numVars ≤ v.length) :
    eval c v = some (cnfSat (asgFn v) c.clauses) := by
  have : ¬ v.length < c.numVars := by omega
  simp only [eval, this, if_false, cnfSat]
  congr 1
  apply List.all_congr rfl; intro cl
  apply List.any_congr rfl; intro l
  exact Bool.beq_comm

theorem eval_none_iff (c : CnfM) (v : List Bool) : eval c v = none ↔ v.length < c.numVars := by
  simp only [eval]; split <;> simp_all

theorem evalStrict_clauseLoop (v : List Bool) : ∀ (cl : List Lit) (sat : Bool),
    (∀ l ∈ cl, l.var < v.length) →
    evalStrict.clauseLoop v cl sat = some (sat || cl.any fun l => l.pol == v.getD l.var false)
  | [], sat, _ => by simp [evalStrict.clauseLoop]
  | l :: r, sat, h => by
    have hl : l.var < v.length := h l List.mem_cons_self
    have hget : v[l.var]? = some (v.getD l.var false) := by
      simp [List.getD, List.getElem?_eq_getElem hl]
    simp only [evalStrict.clauseLoop, hget]
    rw [evalStrict_clauseLoop v r _ (fun x hx => h x (List.mem_cons_of_mem _ hx))]
    simp only [List.any_cons]
    generalize (r.any fun l => l.pol == v.getD l.var false) = R
    generalize (l.pol == v.getD l.var false) = B
    cases sat <;> cases B <;> cases R <;> rfl

theorem evalStrict_cnfLoop (v : List Bool) : ∀ (cs : List (List Lit)),
    (∀ c ∈ cs, ∀ l ∈ c, l.var < v.length) →
    evalStrict.cnfLoop v cs = some (cs.all fun cl => cl.any fun l => l.pol == v.getD l.var false)
  | [], _ => by simp [evalStrict.cnfLoop]
  | c :: cs, h => by
    simp only [evalStrict.cnfLoop]
    rw [evalStrict_clauseLoop v c false (h c List.mem_cons_self)]
    simp only [Bool.false_or, List.all_cons]
    cases hc : (c.any fun l => l.pol == v.getD l.var false)
    · rfl
    · simp only [Bool.true_and]
      exact evalStrict_cnfLoop v cs (fun c' hc' => h c' (List.mem_cons_of_mem _ hc'))

/-- on a `Cnf` built by `Cnf::new` the slice indexing of `eval` never panics: once the
`assert!` passes, every index is in range -/
theorem evalStrict_eq (cs : List (List Lit)) (v : List Bool) :
    evalStrict (cnfNew cs) v = eval (cnfNew cs) v := by
  simp only [evalStrict, eval]
  split
  · rfl
  · rename_i hlen
    apply evalStrict_cnfLoop
    intro c hc l hl
    have := (numVarsOf_le_iff (cnfNew cs).clauses (cnfNew cs).numVars).mp (Nat.le_refl _) c hc l hl
    omega

/-! ## Part 1e: `is_sat_partial` -/

theorem litImplied_eq (m : PartialModel) (l : Lit) : m.litImplied l = litTrue m.toSpec l := by
  simp only [PartialModel.litImplied, litTrue, PartialModel.toSpec]
  cases m.get l.var <;> simp

theorem litNegImplied_eq (m : PartialModel) (l : Lit) : m.litNegImplied l = litFalse m.toSpec l := by
  simp only [PartialModel.litNegImplied, litFalse, PartialModel.toSpec]
  cases h : m.get l.var with
  | none => simp
  | some b => cases b <;> cases l.pol <;> simp

theorem isSatPartial_eq (c : CnfM) (m : PartialModel) :
    isSatPartial c m = c.clauses.all fun cl => cl.any (litTrue m.toSpec) := by
  simp only [isSatPartial]
  apply List.all_congr rfl; intro cl
  apply List.any_congr rfl; intro l
  simp only [litTrue, PartialModel.toSpec]
  cases m.get l.var with
  | none => simp
  | some b => cases b <;> cases l.pol <;> simp

theorem any_congr_mem {p : Lit → Bool} {c c' : List Lit} (h : ∀ x, x ∈ c ↔ x ∈ c') :
    c.any p = c'.any p := by
  rw [Bool.eq_iff_iff]
  simp only [List.any_eq_true]
  constructor
  · rintro ⟨x, hx, hs⟩; exact ⟨x, (h x).mp hx, hs⟩
  · rintro ⟨x, hx, hs⟩; exact ⟨x, (h x).mpr hx, hs⟩

theorem isSatPartial_cnfNew (cs : List (List Lit)) (m : PartialModel) :
    isSatPartial (cnfNew cs) m = cs.all fun cl => cl.any (litTrue m.toSpec) := by
  rw [isSatPartial_eq, cnfNew_clauses, List.all_map]
  apply List.all_congr rfl; intro cl
  exact any_congr_mem fun _ => mem_normClause

/-- a literal true under the partial model is true under every extension -/
theorem litSat_of_litTrue {a : Assign} {m : PModel} (h : Extends a m) {l : Lit}
    (hl : litTrue m l = true) : litSat a l = true := by
  simp only [litTrue, beq_iff_eq] at hl
  simp [litSat, h _ _ hl]

theorem isSatPartial_sound (cs : List (List Lit)) (m : PartialModel)
    (h : isSatPartial (cnfNew cs) m = true) (a : Assign) (ha : Extends a m.toSpec) :
    cnfSat a cs = true := by
  rw [isSatPartial_cnfNew] at h
  simp only [List.all_eq_true, List.any_eq_true] at h
  simp only [cnfSat, clauseSat, List.all_eq_true, List.any_eq_true]
  intro c hc
  obtain ⟨l, hl, ht⟩ := h c hc
  exact ⟨l, hl, litSat_of_litTrue ha ht⟩

/-- a clause that does not contain a literal together with its negation -/
def NoCompl (c : List Lit) : Prop := ∀ l ∈ c, l.neg ∉ c

/-- the converse needs the clauses to be free of complementary pairs -/
theorem isSatPartial_complete (cs : List (List Lit)) (m : PartialModel)
    (hnc : ∀ c ∈ cs, NoCompl c)
    (h : ∀ a, Extends a m.toSpec → cnfSat a cs = true) :
    isSatPartial (cnfNew cs) m = true := by
  rw [isSatPartial_cnfNew]
  simp only [List.all_eq_true]
  intro c hc
  apply Classical.byContradiction
  intro hnot
  have hnt : ∀ l ∈ c, litTrue m.toSpec l = false := by
    intro l hl
    cases ht : litTrue m.toSpec l
    · rfl
    · exact absurd (List.any_eq_true.mpr ⟨l, hl, ht⟩) hnot
  -- the extension that falsifies every unset literal of `c`
  let a : Assign := fun x =>
    match m.toSpec x with
    | some b => b
    | none => if (⟨x, true⟩ : Lit) ∈ c then false else true
  have hext : Extends a m.toSpec := by
    intro x b hx
    show (match m.toSpec x with | some b => b | none => _) = b
    rw [hx]
  have hsat := h a hext
  simp only [cnfSat, clauseSat, List.all_eq_true, List.any_eq_true] at hsat
  obtain ⟨l, hl, hls⟩ := hsat c hc
  have hlt := hnt l hl
  simp only [litSat, beq_iff_eq] at hls
  simp only [litTrue, beq_eq_false_iff_ne, ne_eq] at hlt
  cases hm : m.toSpec l.var with
  | some b =>
    have : a l.var = b := hext _ _ hm
    rw [this] at hls
    exact hlt (by rw [hm, hls])
  | none =>
    have hav : a l.var = if (⟨l.var, true⟩ : Lit) ∈ c then false else true := by
      show (match m.toSpec l.var with | some b => b | none => _) = _
      rw [hm]
    rw [hav] at hls
    cases hp : l.pol with
    | true =>
      have : (⟨l.var, true⟩ : Lit) ∈ c := by
        have : l = ⟨l.var, true⟩ := by cases l; simp_all
        rw [← this]; exact hl
      simp [this, hp] at hls
    | false =>
      have hneg : (⟨l.var, true⟩ : Lit) ∉ c := by
        have := hnc c hc l hl
        simpa [Lit.neg, hp] using this
      simp [hneg, hp] at hls

/-! ## Part 1f: `condition` -/

theorem condClause_eq (lit : Lit) : ∀ (c acc : List Lit),
    condClause lit c acc =
      if c.any (fun l => l.var == lit.var && l.pol == lit.pol) then none
      else some (acc ++ c.filter (fun l => !(l.var == lit.var)))
  | [], acc => by simp [condClause]
  | l :: r, acc => by
    simp only [condClause, List.any_cons, List.filter_cons]
    by_cases h1 : l.var = lit.var <;> by_cases h2 : l.pol = lit.pol
    · simp [h1, h2]
    · have h2' : (l.pol == lit.pol) = false := by simpa using h2
      simp [h1, h2, h2', condClause_eq lit r acc]
    · simp [h1, condClause_eq lit r (acc ++ [l])]
    · simp [h1, condClause_eq lit r (acc ++ [l])]

theorem any_same_iff_mem (lit : Lit) (c : List Lit) :
    c.any (fun l => l.var == lit.var && l.pol == lit.pol) = c.contains lit := by
  rw [Bool.eq_iff_iff]
  simp only [List.any_eq_true, Bool.and_eq_true, beq_iff_eq, List.contains_iff_mem]
  show _ ↔ lit ∈ c
  constructor
  · rintro ⟨l, hl, h1, h2⟩
    have : l = lit := by cases l; cases lit; simp_all
    exact this ▸ hl
  · intro h; exact ⟨lit, h, rfl, rfl⟩

/-- what `condition` hands to `Cnf::new`: the clauses containing the literal are dropped, the
literals over its variable are removed from the others (a clause consisting only of the
negated literal becomes the empty clause) -/
theorem condClauses_eq (cs : List (List Lit)) (lit : Lit) :
    condClauses cs lit =
      (cs.filter fun c => !c.contains lit).map fun c => c.filter fun l => !(l.var == lit.var) := by
  induction cs with
  | nil => rfl
  | cons c cs ih =>
    simp only [condClauses, List.filterMap_cons, List.filter_cons] at ih ⊢
    rw [condClause_eq, any_same_iff_mem]
    cases hc : c.contains lit
    · simp [ih]
    · simp [ih]

theorem clauseSat_upd_of_mem (a : Assign) (lit : Lit) (c : List Lit) (h : lit ∈ c) :
    clauseSat (upd a lit.var lit.pol) c = true := by
  simp only [clauseSat, List.any_eq_true]
  exact ⟨lit, h, by simp [litSat]⟩

theorem clauseSat_upd_of_not_mem (a : Assign) (lit : Lit) : ∀ (c : List Lit), lit ∉ c →
    clauseSat (upd a lit.var lit.pol) c = clauseSat a (c.filter fun l => !(l.var == lit.var))
  | [], _ => rfl
  | l :: r, h => by
    have hl : l ≠ lit := fun e => h (e ▸ List.mem_cons_self)
    have ih := clauseSat_upd_of_not_mem a lit r (fun hr => h (List.mem_cons_of_mem _ hr))
    simp only [clauseSat, List.any_cons, List.filter_cons] at ih ⊢
    by_cases hv : l.var = lit.var
    · have hp : l.pol ≠ lit.pol := fun e => hl (by cases l; cases lit; simp_all)
      have : litSat (upd a lit.var lit.pol) l = false := by
        simp only [litSat, hv, upd_same]
        cases h1 : lit.pol <;> cases h2 : l.pol <;> simp_all
      simp [hv, this, ih]
    · have : litSat (upd a lit.var lit.pol) l = litSat a l := by
        simp only [litSat]; rw [upd_other a lit.pol hv]
      simp [hv, this, ih]

theorem cnfSat_condClauses (a : Assign) (lit : Lit) : ∀ (cs : List (List Lit)),
    cnfSat a (condClauses cs lit) = cnfSat (upd a lit.var lit.pol) cs := by
  intro cs
  rw [condClauses_eq]
  induction cs with
  | nil => rfl
  | cons c cs ih =>
    simp only [cnfSat, List.filter_cons, List.all_cons] at ih ⊢
    cases hc : c.contains lit
    · have hnm : lit ∉ c := by simpa using hc
      simp only [Bool.not_false, if_true, List.map_cons, List.all_cons, ih]
      rw [clauseSat_upd_of_not_mem a lit c hnm]
    · have hm : lit ∈ c := by simpa using hc
      simp only [Bool.not_true, Bool.false_eq_true, if_false, ih, clauseSat_upd_of_mem a lit c hm,
        Bool.true_and]

/-! ## Part 2a: `AssignmentIter` counts in binary, index 0 least significant -/

/-- the `n` low bits of `i`, least significant first -/
def bits : Nat → Nat → List Bool
  | 0, _ => []
  | n + 1, i => (i % 2 == 1) :: bits n (i / 2)

@[simp] theorem bits_length : ∀ (n i : Nat), (bits n i).length = n
  | 0, _ => rfl
  | n + 1, i => by simp [bits, bits_length n]

theorem bits_zero : ∀ (n : Nat), bits n 0 = List.replicate n false
  | 0 => rfl
  | n + 1 => by simp [bits, bits_zero n, List.replicate_succ]

theorem incr_false : ∀ (v : List Bool), incr v false = (v, false)
  | [] => rfl
  | b :: v => by simp [incr, incr_false v]

theorem incr_bits : ∀ (n i : Nat), i < 2 ^ n →
    incr (bits n i) true = (bits n (i + 1), decide (i + 1 = 2 ^ n))
  | 0, i, h => by
    have : i = 0 := by simpa using h
    subst this; rfl
  | n + 1, i, h => by
    have hp : 2 ^ (n + 1) = 2 * 2 ^ n := by rw [Nat.pow_succ, Nat.mul_comm]
    rcases Nat.mod_two_eq_zero_or_one i with h0 | h1
    · have e1 : (i + 1) % 2 = 1 := by omega
      have e2 : (i + 1) / 2 = i / 2 := by omega
      have e3 : ¬ (i + 1 = 2 ^ (n + 1)) := by omega
      simp [bits, incr, h0, e1, e2, e3, incr_false]
    · have e1 : (i + 1) % 2 = 0 := by omega
      have e2 : (i + 1) / 2 = i / 2 + 1 := by omega
      have hlt : i / 2 < 2 ^ n := by omega
      have e3 : (i / 2 + 1 = 2 ^ n) ↔ (i + 1 = 2 ^ (n + 1)) := by omega
      simp [bits, incr, h1, e1, e2, incr_bits n (i / 2) hlt, e3]

theorem iterFrom_bits (n : Nat) : ∀ (k fuel i : Nat), i + 1 + k = 2 ^ n → k < fuel →
    iterFrom fuel (bits n i) = (List.range' (i + 1) k).map (bits n)
  | 0, fuel + 1, i, h, _ => by
    simp [iterFrom, incr_bits n i (by omega), show i + 1 = 2 ^ n by omega]
  | k + 1, fuel + 1, i, h, hf => by
    have hne : ¬ (i + 1 = 2 ^ n) := by omega
    simp only [iterFrom, incr_bits n i (by omega), hne, decide_false, Bool.false_eq_true,
      if_false, List.range'_succ, List.map_cons]
    rw [iterFrom_bits n k fuel (i + 1) (by omega) (by omega)]

/-- `AssignmentIter::new(n)` yields the `n`-bit vectors of `0, 1, …, 2^n - 1` in this order -/
theorem assignmentIter_eq (n : Nat) : assignmentIter n = (List.range (2 ^ n)).map (bits n) := by
  have hpos : 0 < 2 ^ n := Nat.two_pow_pos n
  rw [assignmentIter, ← bits_zero, iterFrom_bits n (2 ^ n - 1) (2 ^ n) 0 (by omega) (by omega),
    List.range_eq_range']
  have : 2 ^ n = (2 ^ n - 1) + 1 := by omega
  conv => rhs; rw [this, List.range'_succ]
  simp

theorem bits_inj : ∀ (n i j : Nat), i < 2 ^ n → j < 2 ^ n → bits n i = bits n j → i = j
  | 0, i, j, hi, hj, _ => by
    have h1 : i = 0 := by simpa using hi
    have h2 : j = 0 := by simpa using hj
    omega
  | n + 1, i, j, hi, hj, h => by
    have hp : 2 ^ (n + 1) = 2 * 2 ^ n := by rw [Nat.pow_succ, Nat.mul_comm]
    simp only [bits, List.cons.injEq] at h
    have := bits_inj n (i / 2) (j / 2) (by omega) (by omega) h.2
    have hb := h.1
    rcases Nat.mod_two_eq_zero_or_one i with h0 | h0 <;>
      rcases Nat.mod_two_eq_zero_or_one j with h1 | h1 <;> simp [h0, h1] at hb <;> omega

theorem bits_surj : ∀ (n : Nat) (v : List Bool), v.length = n → ∃ i, i < 2 ^ n ∧ bits n i = v
  | 0, v, h => ⟨0, by simp, by simp [bits, List.length_eq_zero_iff.mp h]⟩
  | n + 1, [], h => by simp at h
  | n + 1, b :: v, h => by
    have hp : 2 ^ (n + 1) = 2 * 2 ^ n := by rw [Nat.pow_succ, Nat.mul_comm]
    obtain ⟨i, hi, hv⟩ := bits_surj n v (by simpa using h)
    refine ⟨2 * i + (if b then 1 else 0), ?_, ?_⟩
    · split <;> omega
    · cases b
      · have e1 : (2 * i + 0) % 2 = 0 := by omega
        have e2 : (2 * i + 0) / 2 = i := by omega
        simp only [Bool.false_eq_true, if_false, bits, e1, e2, hv]; rfl
      · have e1 : (2 * i + 1) % 2 = 1 := by omega
        have e2 : (2 * i + 1) / 2 = i := by omega
        simp only [if_true, bits, e1, e2, hv]; rfl

/-- the `x`-th entry of the `i`-th vector is bit `x` of `i` (`Spec.assignOfNat`) -/
theorem bits_getD : ∀ (n i x : Nat), x < n → (bits n i).getD x false = assignOfNat i x
  | n + 1, i, 0, _ => by simp [bits, assignOfNat]
  | n + 1, i, x + 1, h => by
    have ih := bits_getD n (i / 2) x (by omega)
    simp only [bits, List.getD_cons_succ, ih, assignOfNat]
    rw [Nat.shiftRight_succ_inside]

theorem mem_assignmentIter {n : Nat} {v : List Bool} : v ∈ assignmentIter n ↔ v.length = n := by
  rw [assignmentIter_eq, List.mem_map]
  constructor
  · rintro ⟨i, _, rfl⟩; exact bits_length n i
  · intro h
    obtain ⟨i, hi, hv⟩ := bits_surj n v h
    exact ⟨i, List.mem_range.mpr hi, hv⟩

theorem assignmentIter_nodup (n : Nat) : (assignmentIter n).Nodup := by
  rw [assignmentIter_eq, List.Nodup, List.pairwise_map]
  refine List.Pairwise.imp_of_mem ?_ (List.pairwise_lt_range (n := 2 ^ n))
  intro i j hi hj hlt heq
  have := bits_inj n i j (List.mem_range.mp hi) (List.mem_range.mp hj) heq
  omega

theorem assignmentIter_length (n : Nat) : (assignmentIter n).length = 2 ^ n := by
  rw [assignmentIter_eq]; simp

/-! ## Part 2b: the brute-force count is the weighted sum -/

section wmc
open Bdd
variable {α : Type} {S : SROps α}

/-- `a` overridden from position `k` on by the entries of `v` -/
def ovr : Assign → Nat → List Bool → Assign
  | a, _, [] => a
  | a, k, b :: v => ovr (upd a k b) (k + 1) v

theorem ovr_apply : ∀ (v : List Bool) (a : Assign) (k x : Nat),
    ovr a k v x = if x < k then a x else if x < k + v.length then v.getD (x - k) false else a x
  | [], a, k, x => by
    by_cases h : x < k
    · simp [ovr, h]
    · have : ¬ x < k + 0 := by omega
      simp only [ovr, h, List.length_nil, this, if_false]
  | b :: v, a, k, x => by
    rw [ovr, ovr_apply v]
    by_cases h1 : x < k
    · have : x < k + 1 := by omega
      simp [h1, this, upd_other a b (show x ≠ k by omega)]
    · by_cases h2 : x = k
      · subst h2; simp
      · have h3 : ¬ x < k + 1 := by omega
        have h4 : x - k = (x - (k + 1)) + 1 := by omega
        simp only [h1, h3, if_false, List.length_cons, h4, List.getD_cons_succ,
          upd_other a b h2]
        have : (x < k + 1 + v.length) ↔ (x < k + (v.length + 1)) := by omega
        simp only [this]

/-- right-nested product of the chosen weights, variables `k, k+1, …` -/
def wprod (S : SROps α) (w : Weights α) : Nat → List Bool → α
  | _, [] => S.one
  | k, b :: v => S.mul (if b then (w k).2 else (w k).1) (wprod S w (k + 1) v)

def wterm (S : SROps α) (w : Weights α) (f : BoolFn) (a : Assign) (k : Nat) (v : List Bool) : α :=
  if f (ovr a k v) then wprod S w k v else S.zero

theorem wterm_cons (hS : S.Laws) (w : Weights α) (f : BoolFn) (a : Assign) (k : Nat) (b : Bool)
    (v : List Bool) :
    wterm S w f a k (b :: v) =
      S.mul (if b then (w k).2 else (w k).1) (wterm S w f (upd a k b) (k + 1) v) := by
  by_cases h : f (ovr (upd a k b) (k + 1) v) = true <;> simp [wterm, ovr, wprod, h, hS.mul_zero]

theorem sumList_map_add (hS : S.Laws) {β : Type} (g h : β → α) : ∀ (l : List β),
    sumList S (l.map fun b => S.add (g b) (h b)) = S.add (sumList S (l.map g)) (sumList S (l.map h))
  | [] => by simp [sumList, hS.add_zero]
  | x :: l => by
    have := sumList_map_add hS g h l
    simp only [sumList, List.map_cons, List.foldr_cons] at this ⊢
    rw [this, sr_add4 hS]

theorem sumList_range_double (hS : S.Laws) (h : Nat → α) : ∀ (m : Nat),
    sumList S ((List.range (2 * m)).map h) =
      sumList S ((List.range m).map fun j => S.add (h (2 * j)) (h (2 * j + 1)))
  | 0 => rfl
  | m + 1 => by
    have e : 2 * (m + 1) = 2 * m + 1 + 1 := by omega
    rw [e, List.range_succ, List.range_succ, List.range_succ (n := m)]
    simp only [List.map_append, List.map_cons, List.map_nil, List.append_assoc]
    rw [sumList_append hS, sumList_append hS (l := (List.range m).map _), sumList_range_double hS h m]
    simp only [sumList, List.cons_append, List.nil_append, List.foldr_cons, List.foldr_nil,
      hS.add_zero]

theorem sum_bits (hS : S.Laws) (w : Weights α) : ∀ (n k : Nat) (f : BoolFn) (a : Assign),
    sumList S ((List.range (2 ^ n)).map fun j => wterm S w f a k (bits n j)) =
      wsum S (List.range' k n) w f a
  | 0, k, f, a => by
    simp [sumList, wterm, bits, ovr, wprod, wsum, hS.add_zero]
  | n + 1, k, f, a => by
    have hp : 2 ^ (n + 1) = 2 * 2 ^ n := by rw [Nat.pow_succ, Nat.mul_comm]
    rw [hp, sumList_range_double hS]
    have e : ∀ j, S.add (wterm S w f a k (bits (n + 1) (2 * j)))
          (wterm S w f a k (bits (n + 1) (2 * j + 1))) =
        S.add (S.mul (w k).1 (wterm S w f (upd a k false) (k + 1) (bits n j)))
          (S.mul (w k).2 (wterm S w f (upd a k true) (k + 1) (bits n j))) := by
      intro j
      have e1 : (2 * j) % 2 = 0 := by omega
      have e2 : (2 * j) / 2 = j := by omega
      have e3 : (2 * j + 1) % 2 = 1 := by omega
      have e4 : (2 * j + 1) / 2 = j := by omega
      simp only [bits, e1, e2, e3, e4, wterm_cons hS]
      rfl
    simp only [e]
    rw [sumList_map_add hS, sumList_map_mul hS, sumList_map_mul hS, sum_bits hS w n (k + 1),
      sum_bits hS w n (k + 1), List.range'_succ]
    rfl

theorem asgWeightFrom_eq (hS : S.Laws) (w : Weights α) : ∀ (v : List Bool) (i : Nat) (acc : α),
    asgWeightFrom S w v i acc = S.mul acc (wprod S w i v)
  | [], i, acc => by simp [asgWeightFrom, wprod, hS.mul_one]
  | b :: v, i, acc => by
    rw [asgWeightFrom, asgWeightFrom_eq hS w v, wprod, hS.mul_assoc]

theorem asgWeight_eq (hS : S.Laws) (w : Weights α) (v : List Bool) :
    asgWeight S w v = wprod S w 0 v := by
  rw [asgWeight, asgWeightFrom_eq hS, sr_one_mul hS]

/-- the body of the `for` loop of `Cnf::wmc` -/
def wmcStep (S : SROps α) (c : CnfM) (w : Weights α) (total : Option α) (asg : List Bool) : Option α :=
  match total, eval c asg with
  | some t, some true => some (S.add t (asgWeight S w asg))
  | some t, some false => some t
  | _, _ => none

theorem wmc_fold (hS : S.Laws) (c : CnfM) (w : Weights α) : ∀ (L : List (List Bool)) (t : α),
    (∀ v ∈ L, c.numVars ≤ v.length) →
    L.foldl (wmcStep S c w) (some t) =
      some (S.add t (sumList S (L.map fun v =>
        if cnfSat (asgFn v) c.clauses then asgWeight S w v else S.zero)))
  | [], t, _ => by simp [sumList, hS.add_zero]
  | v :: L, t, h => by
    have hv := h v List.mem_cons_self
    have hL : ∀ v ∈ L, c.numVars ≤ v.length := fun v hv => h v (List.mem_cons_of_mem _ hv)
    simp only [List.foldl_cons, List.map_cons, sumList, List.foldr_cons]
    cases hsat : cnfSat (asgFn v) c.clauses
    · have : wmcStep S c w (some t) v = some t := by simp [wmcStep, eval_eq c v hv, hsat]
      rw [this, wmc_fold hS c w L t hL]
      simp only [Bool.false_eq_true, if_false, sumList, sr_zero_add hS]
    · have : wmcStep S c w (some t) v = some (S.add t (asgWeight S w v)) := by
        simp [wmcStep, eval_eq c v hv, hsat]
      rw [this, wmc_fold hS c w L _ hL]
      simp only [if_true, sumList, hS.add_assoc]

theorem wmc_eq_fold (S : SROps α) (c : CnfM) (w : Weights α) :
    wmc S c w = (assignmentIter c.numVars).foldl (wmcStep S c w) (some S.zero) := rfl

theorem cnfSat_congr_vars (a b : Assign) : ∀ (cs : List (List Lit)),
    (∀ c ∈ cs, ∀ l ∈ c, a l.var = b l.var) → cnfSat a cs = cnfSat b cs := by
  intro cs h
  have hcl : ∀ c ∈ cs, clauseSat a c = clauseSat b c := by
    intro c hc
    simp only [clauseSat]
    rw [Bool.eq_iff_iff]
    simp only [List.any_eq_true]
    constructor
    · rintro ⟨l, hl, hs⟩; exact ⟨l, hl, by simpa [litSat, h c hc l hl] using hs⟩
    · rintro ⟨l, hl, hs⟩; exact ⟨l, hl, by simpa [litSat, h c hc l hl] using hs⟩
  rw [cnfSat, cnfSat, Bool.eq_iff_iff]
  simp only [List.all_eq_true]
  constructor
  · intro H c hc; rw [← hcl c hc]; exact H c hc
  · intro H c hc; rw [hcl c hc]; exact H c hc

/-- `Cnf::wmc` (as repaired) of `Cnf::new(cs)` is the weighted sum of the function of `cs` over
the variables `0 .. num_vars - 1`; it never panics.  For `num_vars = 0` the variable list is
empty and the sum is `one` or `zero` according to the truth value of the formula. -/
theorem wmc_cnfNew (hS : S.Laws) (cs : List (List Lit)) (w : Weights α) (a : Assign) :
    wmc S (cnfNew cs) w = some (wsum S (List.range (cnfNumVars cs)) w (cnfFn cs) a) := by
  have hn : (cnfNew cs).numVars = cnfNumVars cs := by
    rw [cnfNew_numVars, numVarsOf_map_normClause, numVarsOf_eq_spec]
  rw [wmc_eq_fold, wmc_fold hS _ w _ _ (fun v hv => by rw [mem_assignmentIter.mp hv]; exact Nat.le_refl _),
    sr_zero_add hS, assignmentIter_eq, List.map_map, hn, List.range_eq_range' (n := cnfNumVars cs),
    ← sum_bits hS w (cnfNumVars cs) 0 (cnfFn cs) a]
  congr 1
  apply sumList_map_congr
  intro j _
  simp only [Function.comp, wterm, asgWeight_eq hS, cnfFn, cnfNew_clauses, cnfSat_map_normClause]
  have : cnfSat (asgFn (bits (cnfNumVars cs) j)) cs = cnfSat (ovr a 0 (bits (cnfNumVars cs) j)) cs := by
    apply cnfSat_congr_vars
    intro c hc l hl
    have hlt : l.var < cnfNumVars cs := by
      rw [← numVarsOf_eq_spec]
      exact (numVarsOf_le_iff cs _).mp (Nat.le_refl _) c hc l hl
    simp [asgFn, ovr_apply, hlt]
  rw [this]
  rfl

end wmc

end CnfUtil
