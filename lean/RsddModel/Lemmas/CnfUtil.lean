import RsddModel.Model.CnfUtil
import RsddModel.Lemmas.Wmc
/-!
# Lemmas for the CNF-side utilities (property C15)

Part 1: normalisation (`Cnf::new`), `num_vars`, `eval`, `is_sat_partial`, `condition`.
Part 2: `AssignmentIter` and the brute-force count.
-/
namespace CnfUtil
open Spec

/-! ## Part 1a: sorting and dedup keep the literal set -/

theorem mem_insertByLabel {x l : Lit} : ∀ {xs : List Lit}, x ∈ insertByLabel l xs ↔ x = l ∨ x ∈ xs
  | [] => by simp [insertByLabel]
  | y :: ys => by
    simp only [insertByLabel]
    split
    · simp
    · simp only [List.mem_cons, mem_insertByLabel (xs := ys)]
      constructor
      · rintro (h | h | h)
        · exact Or.inr (Or.inl h)
        · exact Or.inl h
        · exact Or.inr (Or.inr h)
      · rintro (h | h | h)
        · exact Or.inr (Or.inl h)
        · exact Or.inl h
        · exact Or.inr (Or.inr h)

theorem mem_sortByLabel {x : Lit} : ∀ {c : List Lit}, x ∈ sortByLabel c ↔ x ∈ c
  | [] => by simp [sortByLabel]
  | l :: ls => by simp [sortByLabel, mem_insertByLabel, mem_sortByLabel (c := ls)]

theorem mem_dedupAdj {x : Lit} : ∀ {c : List Lit}, x ∈ dedupAdj c ↔ x ∈ c
  | [] => by simp [dedupAdj]
  | [a] => by simp [dedupAdj]
  | a :: b :: t => by
    have ih := mem_dedupAdj (x := x) (c := b :: t)
    simp only [dedupAdj]
    split
    · rename_i h
      subst h
      rw [ih]; simp
    · simp only [List.mem_cons] at ih ⊢
      rw [ih]

theorem mem_normClause {x : Lit} {c : List Lit} : x ∈ normClause c ↔ x ∈ c := by
  simp [normClause, mem_dedupAdj, mem_sortByLabel]

@[simp] theorem normClause_nil : normClause [] = [] := rfl

theorem normClause_eq_nil {c : List Lit} : normClause c = [] ↔ c = [] := by
  constructor
  · intro h
    cases c with
    | nil => rfl
    | cons a t =>
      have : a ∈ normClause (a :: t) := mem_normClause.mpr List.mem_cons_self
      rw [h] at this; cases this
  · rintro rfl; rfl

/-! the sort is a stable sort: sorted, a permutation, and order-preserving on equal keys -/

theorem insertByLabel_perm (l : Lit) : ∀ (xs : List Lit), (insertByLabel l xs).Perm (l :: xs)
  | [] => List.Perm.refl _
  | y :: ys => by
    simp only [insertByLabel]
    split
    · exact List.Perm.refl _
    · exact ((insertByLabel_perm l ys).cons y).trans (List.Perm.swap l y ys)

theorem sortByLabel_perm : ∀ (c : List Lit), (sortByLabel c).Perm c
  | [] => List.Perm.refl _
  | l :: ls => (insertByLabel_perm l _).trans ((sortByLabel_perm ls).cons l)

theorem insertByLabel_sorted (l : Lit) : ∀ (xs : List Lit), xs.Pairwise (fun a b => a.var ≤ b.var) →
    (insertByLabel l xs).Pairwise (fun a b => a.var ≤ b.var)
  | [], _ => by simp [insertByLabel]
  | y :: ys, h => by
    have hy := List.pairwise_cons.mp h
    simp only [insertByLabel]
    split
    · rename_i hle
      refine List.pairwise_cons.mpr ⟨?_, h⟩
      intro z hz
      rcases List.mem_cons.mp hz with rfl | hz
      · exact hle
      · exact Nat.le_trans hle (hy.1 z hz)
    · rename_i hle
      refine List.pairwise_cons.mpr ⟨?_, insertByLabel_sorted l ys hy.2⟩
      intro z hz
      rcases mem_insertByLabel.mp hz with rfl | hz
      · omega
      · exact hy.1 z hz

theorem sortByLabel_sorted : ∀ (c : List Lit), (sortByLabel c).Pairwise (fun a b => a.var ≤ b.var)
  | [] => List.Pairwise.nil
  | l :: ls => insertByLabel_sorted l _ (sortByLabel_sorted ls)

theorem insertByLabel_filter (l : Lit) (v : Nat) : ∀ (xs : List Lit),
    xs.Pairwise (fun a b => a.var ≤ b.var) →
    (insertByLabel l xs).filter (fun x => x.var == v) = (l :: xs).filter (fun x => x.var == v)
  | [], _ => rfl
  | y :: ys, h => by
    have hy := List.pairwise_cons.mp h
    simp only [insertByLabel]
    split
    · rfl
    · rename_i hle
      have ih := insertByLabel_filter l v ys hy.2
      simp only [List.filter_cons] at ih ⊢
      rw [ih]
      by_cases h1 : l.var = v <;> by_cases h2 : y.var = v
      · omega
      · simp [h1, h2]
      · simp [h1, h2]
      · simp [h1, h2]

/-- stability: literals with the same label keep their relative order -/
theorem sortByLabel_stable (v : Nat) : ∀ (c : List Lit),
    (sortByLabel c).filter (fun x => x.var == v) = c.filter (fun x => x.var == v)
  | [] => rfl
  | l :: ls => by
    simp only [sortByLabel]
    rw [insertByLabel_filter l v _ (sortByLabel_sorted ls)]
    simp only [List.filter_cons, sortByLabel_stable v ls]

/-! ## Part 1b: semantics of the normal form -/

theorem clauseSat_congr_mem (a : Assign) {c c' : List Lit} (h : ∀ x, x ∈ c ↔ x ∈ c') :
    clauseSat a c = clauseSat a c' := by
  simp only [clauseSat]
  rw [Bool.eq_iff_iff]
  simp only [List.any_eq_true]
  constructor
  · rintro ⟨x, hx, hs⟩; exact ⟨x, (h x).mp hx, hs⟩
  · rintro ⟨x, hx, hs⟩; exact ⟨x, (h x).mpr hx, hs⟩

theorem clauseSat_normClause (a : Assign) (c : List Lit) :
    clauseSat a (normClause c) = clauseSat a c :=
  clauseSat_congr_mem a fun _ => mem_normClause

@[simp] theorem cnfNew_clauses (cs : List (List Lit)) : (cnfNew cs).clauses = cs.map normClause := rfl
@[simp] theorem cnfNew_numVars (cs : List (List Lit)) :
    (cnfNew cs).numVars = numVarsOf (cs.map normClause) := rfl
@[simp] theorem cnfNew_hasher (cs : List (List Lit)) :
    (cnfNew cs).hasher = CnfHasher.new (cs.map normClause) (numVarsOf (cs.map normClause)) := rfl

theorem cnfSat_map_normClause (a : Assign) : ∀ (cs : List (List Lit)),
    cnfSat a (cs.map normClause) = cnfSat a cs
  | [] => rfl
  | c :: cs => by
    have ih := cnfSat_map_normClause a cs
    simp only [cnfSat, List.map_cons, List.all_cons] at ih ⊢
    rw [ih, clauseSat_normClause]

/-! ## Part 1c: `num_vars` -/

theorem foldl_max_le_iff : ∀ (l : List Nat) (m n : Nat),
    l.foldl max m ≤ n ↔ m ≤ n ∧ ∀ x ∈ l, x ≤ n
  | [], m, n => by simp
  | x :: l, m, n => by
    simp only [List.foldl_cons, foldl_max_le_iff l, List.mem_cons, forall_eq_or_imp]
    constructor
    · rintro ⟨h1, h2⟩; exact ⟨by omega, by omega, h2⟩
    · rintro ⟨h1, h2, h3⟩; exact ⟨by omega, h3⟩

theorem foldl_max_eq (l : List Nat) (m : Nat) : l.foldl max m = max m (l.foldl max 0) := by
  apply Nat.le_antisymm
  · rw [foldl_max_le_iff]
    refine ⟨Nat.le_max_left _ _, fun x hx => ?_⟩
    have := (foldl_max_le_iff l 0 (l.foldl max 0)).mp (Nat.le_refl _)
    exact Nat.le_trans (this.2 x hx) (Nat.le_max_right _ _)
  · have h := (foldl_max_le_iff l m (l.foldl max m)).mp (Nat.le_refl _)
    apply Nat.max_le.mpr
    refine ⟨h.1, ?_⟩
    rw [foldl_max_le_iff]
    exact ⟨Nat.zero_le _, h.2⟩

theorem clauseMax_le_iff (c : List Lit) (n : Nat) : clauseMax c ≤ n ↔ ∀ l ∈ c, l.var < n := by
  simp only [clauseMax, foldl_max_le_iff, List.mem_map, Nat.zero_le, true_and]
  constructor
  · intro h l hl; exact h _ ⟨l, hl, rfl⟩
  · rintro h x ⟨l, hl, rfl⟩; exact h l hl

theorem numVarsOf_le_iff (cs : List (List Lit)) (n : Nat) :
    numVarsOf cs ≤ n ↔ ∀ c ∈ cs, ∀ l ∈ c, l.var < n := by
  simp only [numVarsOf, foldl_max_le_iff, List.mem_map, Nat.zero_le, true_and]
  constructor
  · intro h c hc; exact (clauseMax_le_iff c n).mp (h _ ⟨c, hc, rfl⟩)
  · rintro h x ⟨c, hc, rfl⟩; exact (clauseMax_le_iff c n).mpr (h c hc)

theorem numVarsOf_map_normClause (cs : List (List Lit)) :
    numVarsOf (cs.map normClause) = numVarsOf cs := by
  apply Nat.le_antisymm
  · rw [numVarsOf_le_iff]
    intro c hc l hl
    obtain ⟨c0, hc0, rfl⟩ := List.mem_map.mp hc
    exact (numVarsOf_le_iff cs _).mp (Nat.le_refl _) c0 hc0 l (mem_normClause.mp hl)
  · rw [numVarsOf_le_iff]
    intro c hc l hl
    exact (numVarsOf_le_iff _ _).mp (Nat.le_refl _) (normClause c) (List.mem_map_of_mem hc) l
      (mem_normClause.mpr hl)

theorem cnfNumVars_aux (c : List Lit) (m : Nat) :
    c.foldl (fun m l => max m (l.var + 1)) m = max m (clauseMax c) := by
  rw [clauseMax, ← foldl_max_eq, List.foldl_map]

/-- the model's `num_vars` is the specification's -/
theorem numVarsOf_eq_spec (cs : List (List Lit)) : numVarsOf cs = cnfNumVars cs := by
  simp only [cnfNumVars, numVarsOf, cnfNumVars_aux, List.foldl_map]

/-- a member label is below `num_vars`; `num_vars` is attained unless it is zero -/
theorem numVarsOf_attained : ∀ (cs : List (List Lit)),
    numVarsOf cs = 0 ∨ ∃ c ∈ cs, ∃ l ∈ c, l.var + 1 = numVarsOf cs := by
  intro cs
  by_cases h0 : numVarsOf cs = 0
  · exact Or.inl h0
  · right
    apply Classical.byContradiction
    intro hne
    have : numVarsOf cs ≤ numVarsOf cs - 1 := by
      rw [numVarsOf_le_iff]
      intro c hc l hl
      have h1 := (numVarsOf_le_iff cs _).mp (Nat.le_refl _) c hc l hl
      have h2 : l.var + 1 ≠ numVarsOf cs := fun e => hne ⟨c, hc, l, hl, e⟩
      omega
    omega

/-! ## Part 1d: `eval` -/

/-- the assignment function of a vector (`false` beyond its end) -/
def asgFn (v : List Bool) : Assign := fun x => v.getD x false

theorem eval_eq (c : CnfM) (v : List Bool) (h : c.numVars ≤ v.length) :
    eval c v = some (cnfSat (asgFn v) c.clauses) := by
  have : ¬ v.length < c.numVars := by omega
  simp only [eval, this, if_false, cnfSat, clauseSat, litSat, asgFn]
  congr 1
  apply List.all_congr rfl; intro cl
  apply List.any_congr rfl; intro l
  exact Bool.beq_comm

theorem eval_none_iff (c : CnfM) (v : List Bool) : eval c v = none ↔ v.length < c.numVars := by
  simp only [eval]; split <;> simp_all

theorem evalStrict_clauseLoop (v : List Bool) : ∀ (cl : List Lit) (sat : Bool),
    (∀ l ∈ cl, l.var < v.length) →
    evalStrict.clauseLoop v cl sat = some (sat || cl.any fun l => l.pol == v.getD l.var false)
  | [], sat, _ => by simp [evalStrict.clauseLoop]
  | l :: r, sat, h => by
    have hl : l.var < v.length := h l List.mem_cons_self
    have hget : v[l.var]? = some (v.getD l.var false) := by
      simp [List.getD, List.getElem?_eq_getElem hl]
    simp only [evalStrict.clauseLoop, hget]
    rw [evalStrict_clauseLoop v r _ (fun x hx => h x (List.mem_cons_of_mem _ hx))]
    cases sat <;> cases hb : (l.pol == v.getD l.var false) <;> simp [hb]

theorem evalStrict_cnfLoop (v : List Bool) : ∀ (cs : List (List Lit)),
    (∀ c ∈ cs, ∀ l ∈ c, l.var < v.length) →
    evalStrict.cnfLoop v cs = some (cs.all fun cl => cl.any fun l => l.pol == v.getD l.var false)
  | [], _ => by simp [evalStrict.cnfLoop]
  | c :: cs, h => by
    simp only [evalStrict.cnfLoop]
    rw [evalStrict_clauseLoop v c false (h c List.mem_cons_self)]
    simp only [Bool.false_or, List.all_cons]
    cases hc : (c.any fun l => l.pol == v.getD l.var false)
    · simp
    · simp only [Bool.true_and]
      exact evalStrict_cnfLoop v cs (fun c' hc' => h c' (List.mem_cons_of_mem _ hc'))

/-- on a `Cnf` built by `Cnf::new` the slice indexing of `eval` never panics: once the
`assert!` passes, every index is in range -/
theorem evalStrict_eq (cs : List (List Lit)) (v : List Bool) :
    evalStrict (cnfNew cs) v = eval (cnfNew cs) v := by
  simp only [evalStrict, eval]
  split
  · rfl
  · rename_i hlen
    apply evalStrict_cnfLoop
    intro c hc l hl
    have := (numVarsOf_le_iff (cnfNew cs).clauses (cnfNew cs).numVars).mp (Nat.le_refl _) c hc l hl
    omega

/-! ## Part 1e: `is_sat_partial` -/

theorem litImplied_eq (m : PartialModel) (l : Lit) : m.litImplied l = litTrue m.toSpec l := by
  simp only [PartialModel.litImplied, litTrue, PartialModel.toSpec]
  cases m.get l.var <;> simp

theorem litNegImplied_eq (m : PartialModel) (l : Lit) : m.litNegImplied l = litFalse m.toSpec l := by
  simp only [PartialModel.litNegImplied, litFalse, PartialModel.toSpec]
  cases h : m.get l.var with
  | none => simp
  | some b => cases b <;> cases l.pol <;> simp

theorem isSatPartial_eq (c : CnfM) (m : PartialModel) :
    isSatPartial c m = c.clauses.all fun cl => cl.any (litTrue m.toSpec) := by
  simp only [isSatPartial]
  apply List.all_congr rfl; intro cl
  apply List.any_congr rfl; intro l
  simp only [litTrue, PartialModel.toSpec]
  cases m.get l.var with
  | none => simp
  | some b => cases b <;> cases l.pol <;> simp

theorem any_congr_mem {p : Lit → Bool} {c c' : List Lit} (h : ∀ x, x ∈ c ↔ x ∈ c') :
    c.any p = c'.any p := by
  rw [Bool.eq_iff_iff]
  simp only [List.any_eq_true]
  constructor
  · rintro ⟨x, hx, hs⟩; exact ⟨x, (h x).mp hx, hs⟩
  · rintro ⟨x, hx, hs⟩; exact ⟨x, (h x).mpr hx, hs⟩

theorem isSatPartial_cnfNew (cs : List (List Lit)) (m : PartialModel) :
    isSatPartial (cnfNew cs) m = cs.all fun cl => cl.any (litTrue m.toSpec) := by
  rw [isSatPartial_eq, cnfNew_clauses, List.all_map]
  apply List.all_congr rfl; intro cl
  exact any_congr_mem fun _ => mem_normClause

/-- a literal true under the partial model is true under every extension -/
theorem litSat_of_litTrue {a : Assign} {m : PModel} (h : Extends a m) {l : Lit}
    (hl : litTrue m l = true) : litSat a l = true := by
  simp only [litTrue, beq_iff_eq] at hl
  simp [litSat, h _ _ hl]

theorem isSatPartial_sound (cs : List (List Lit)) (m : PartialModel)
    (h : isSatPartial (cnfNew cs) m = true) (a : Assign) (ha : Extends a m.toSpec) :
    cnfSat a cs = true := by
  rw [isSatPartial_cnfNew] at h
  simp only [List.all_eq_true, List.any_eq_true] at h
  simp only [cnfSat, clauseSat, List.all_eq_true, List.any_eq_true]
  intro c hc
  obtain ⟨l, hl, ht⟩ := h c hc
  exact ⟨l, hl, litSat_of_litTrue ha ht⟩

/-- a clause that does not contain a literal together with its negation -/
def NoCompl (c : List Lit) : Prop := ∀ l ∈ c, l.neg ∉ c

/-- the converse needs the clauses to be free of complementary pairs -/
theorem isSatPartial_complete (cs : List (List Lit)) (m : PartialModel)
    (hnc : ∀ c ∈ cs, NoCompl c)
    (h : ∀ a, Extends a m.toSpec → cnfSat a cs = true) :
    isSatPartial (cnfNew cs) m = true := by
  rw [isSatPartial_cnfNew]
  simp only [List.all_eq_true]
  intro c hc
  apply Classical.byContradiction
  intro hnot
  have hnt : ∀ l ∈ c, litTrue m.toSpec l = false := by
    intro l hl
    cases ht : litTrue m.toSpec l
    · rfl
    · exact absurd (List.any_eq_true.mpr ⟨l, hl, ht⟩) hnot
  -- the extension that falsifies every unset literal of `c`
  let a : Assign := fun x =>
    match m.toSpec x with
    | some b => b
    | none => if (⟨x, true⟩ : Lit) ∈ c then false else true
  have hext : Extends a m.toSpec := by
    intro x b hx
    show (match m.toSpec x with | some b => b | none => _) = b
    rw [hx]
  have hsat := h a hext
  simp only [cnfSat, clauseSat, List.all_eq_true, List.any_eq_true] at hsat
  obtain ⟨l, hl, hls⟩ := hsat c hc
  have hlt := hnt l hl
  simp only [litSat, beq_iff_eq] at hls
  simp only [litTrue, beq_eq_false_iff_ne, ne_eq] at hlt
  cases hm : m.toSpec l.var with
  | some b =>
    have : a l.var = b := hext _ _ hm
    rw [this] at hls
    exact hlt (by rw [hm, hls])
  | none =>
    have hav : a l.var = if (⟨l.var, true⟩ : Lit) ∈ c then false else true := by
      show (match m.toSpec l.var with | some b => b | none => _) = _
      rw [hm]
    rw [hav] at hls
    cases hp : l.pol with
    | true =>
      have : (⟨l.var, true⟩ : Lit) ∈ c := by
        have : l = ⟨l.var, true⟩ := by cases l; simp_all
        rw [← this]; exact hl
      simp [this, hp] at hls
    | false =>
      have hneg : (⟨l.var, true⟩ : Lit) ∉ c := by
        have := hnc c hc l hl
        simpa [Lit.neg, hp] using this
      simp [hneg, hp] at hls

/-! ## Part 1f: `condition` -/

theorem condClause_eq (lit : Lit) : ∀ (c acc : List Lit),
    condClause lit c acc =
      if c.any (fun l => l.var == lit.var && l.pol == lit.pol) then none
      else some (acc ++ c.filter (fun l => !(l.var == lit.var)))
  | [], acc => by simp [condClause]
  | l :: r, acc => by
    simp only [condClause, List.any_cons, List.filter_cons]
    by_cases h1 : l.var = lit.var <;> by_cases h2 : l.pol = lit.pol
    · simp [h1, h2]
    · have h2' : (l.pol == lit.pol) = false := by simpa using h2
      simp [h1, h2', condClause_eq lit r acc]
    · simp [h1, condClause_eq lit r (acc ++ [l])]
    · simp [h1, condClause_eq lit r (acc ++ [l])]

theorem any_same_iff_mem (lit : Lit) (c : List Lit) :
    c.any (fun l => l.var == lit.var && l.pol == lit.pol) = c.contains lit := by
  rw [Bool.eq_iff_iff]
  simp only [List.any_eq_true, Bool.and_eq_true, beq_iff_eq, List.contains_iff_mem]
  constructor
  · rintro ⟨l, hl, h1, h2⟩
    have : l = lit := by cases l; cases lit; simp_all
    exact this ▸ hl
  · intro h; exact ⟨lit, h, rfl, rfl⟩

/-- what `condition` hands to `Cnf::new`: the clauses containing the literal are dropped, the
literals over its variable are removed from the others (a clause consisting only of the
negated literal becomes the empty clause) -/
theorem condClauses_eq (cs : List (List Lit)) (lit : Lit) :
    condClauses cs lit =
      (cs.filter fun c => !c.contains lit).map fun c => c.filter fun l => !(l.var == lit.var) := by
  induction cs with
  | nil => rfl
  | cons c cs ih =>
    simp only [condClauses, List.filterMap_cons, List.filter_cons] at ih ⊢
    rw [condClause_eq, any_same_iff_mem]
    cases hc : c.contains lit
    · simp [ih]
    · simp [ih]

theorem clauseSat_upd_of_mem (a : Assign) (lit : Lit) (c : List Lit) (h : lit ∈ c) :
    clauseSat (upd a lit.var lit.pol) c = true := by
  simp only [clauseSat, List.any_eq_true]
  exact ⟨lit, h, by simp [litSat]⟩

theorem clauseSat_upd_of_not_mem (a : Assign) (lit : Lit) : ∀ (c : List Lit), lit ∉ c →
    clauseSat (upd a lit.var lit.pol) c = clauseSat a (c.filter fun l => !(l.var == lit.var))
  | [], _ => rfl
  | l :: r, h => by
    have hl : l ≠ lit := fun e => h (e ▸ List.mem_cons_self)
    have ih := clauseSat_upd_of_not_mem a lit r (fun hr => h (List.mem_cons_of_mem _ hr))
    simp only [clauseSat, List.any_cons, List.filter_cons] at ih ⊢
    by_cases hv : l.var = lit.var
    · have hp : l.pol ≠ lit.pol := fun e => hl (by cases l; cases lit; simp_all)
      have : litSat (upd a lit.var lit.pol) l = false := by
        simp only [litSat, hv, upd_same]
        cases h1 : lit.pol <;> cases h2 : l.pol <;> simp_all
      simp [hv, this, ih]
    · have : litSat (upd a lit.var lit.pol) l = litSat a l := by
        simp only [litSat]; rw [upd_other a lit.pol hv]
      simp [hv, this, ih]

theorem cnfSat_condClauses (a : Assign) (lit : Lit) : ∀ (cs : List (List Lit)),
    cnfSat a (condClauses cs lit) = cnfSat (upd a lit.var lit.pol) cs := by
  intro cs
  rw [condClauses_eq]
  induction cs with
  | nil => rfl
  | cons c cs ih =>
    simp only [cnfSat, List.filter_cons, List.all_cons] at ih ⊢
    cases hc : c.contains lit
    · have hnm : lit ∉ c := by simpa using hc
      simp only [Bool.not_false, if_true, List.map_cons, List.all_cons, ih]
      rw [clauseSat_upd_of_not_mem a lit c hnm]
    · have hm : lit ∈ c := by simpa using hc
      simp only [Bool.not_true, Bool.false_eq_true, if_false, ih, clauseSat_upd_of_mem a lit c hm,
        Bool.true_and]

end CnfUtil
