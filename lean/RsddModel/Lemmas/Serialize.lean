import RsddModel.Model.Serialize
/-!
# Lemmas for C17: serialisers and table evaluators, DIMACS round trip, s-expressions
-/
namespace Ser
open Spec

/-! ## association lists -/

theorem assocGet_mem {κ : Type} [DecidableEq κ] :
    ∀ (t : List (κ × Nat)) (k : κ) (v : Nat), assocGet t k = some v → (k, v) ∈ t
  | [], _, _, h => by simp [assocGet] at h
  | (k', v') :: rest, k, v, h => by
    simp only [assocGet] at h
    split at h
    · cases h; subst_vars; exact List.mem_cons_self
    · exact List.mem_cons_of_mem _ (assocGet_mem rest k v h)

/-! ## BDD tables -/

/-- a pointer refers below `n` -/
def BPtrLt : SerBddPtr → Nat → Prop
  | .ptr j _, n => j < n
  | _, _ => True

theorem BPtrLt.mono {p : SerBddPtr} {n m : Nat} (h : BPtrLt p n) (hnm : n ≤ m) : BPtrLt p m := by
  cases p <;> simp_all [BPtrLt]; omega

/-- children refer to strictly smaller indices (post order) -/
def BWf (nodes : Array SerBdd) : Prop :=
  ∀ i n, nodes[i]? = some n → BPtrLt n.low i ∧ BPtrLt n.high i

/-- `nodes` is an initial segment of `nodes'` -/
def BPrefix (nodes nodes' : Array SerBdd) : Prop :=
  nodes.size ≤ nodes'.size ∧ ∀ i, i < nodes.size → nodes'[i]? = nodes[i]?

theorem BPrefix.refl (nodes : Array SerBdd) : BPrefix nodes nodes := ⟨Nat.le_refl _, fun _ _ => rfl⟩

theorem BPrefix.trans {a b c : Array SerBdd} (h1 : BPrefix a b) (h2 : BPrefix b c) : BPrefix a c :=
  ⟨Nat.le_trans h1.1 h2.1, fun i hi => by rw [h2.2 i (Nat.lt_of_lt_of_le hi h1.1), h1.2 i hi]⟩

theorem BPrefix.push (nodes : Array SerBdd) (n : SerBdd) : BPrefix nodes (nodes.push n) :=
  ⟨by simp, fun i hi => by
    rw [Array.getElem?_push]; split
    · omega
    · rfl⟩

/-- evaluation below the old size does not see appended nodes -/
theorem evalBddPtr_prefix {nodes nodes' : Array SerBdd} (a : Assign) (hw : BWf nodes)
    (hp : BPrefix nodes nodes') :
    ∀ (fuel : Nat) (p : SerBddPtr), BPtrLt p nodes.size →
      evalBddPtr nodes' a fuel p = evalBddPtr nodes a fuel p
  | _, .tru, _ => by simp [evalBddPtr]
  | _, .fls, _ => by simp [evalBddPtr]
  | 0, .ptr _ _, _ => by simp [evalBddPtr]
  | fuel + 1, .ptr i c, h => by
    have hi : i < nodes.size := h
    simp only [evalBddPtr, hp.2 i hi]
    cases hn : nodes[i]? with
    | none => rfl
    | some n =>
      obtain ⟨hl, hh⟩ := hw i n hn
      simp only
      rw [evalBddPtr_prefix a hw hp fuel n.high (hh.mono (Nat.le_of_lt hi)),
          evalBddPtr_prefix a hw hp fuel n.low (hl.mono (Nat.le_of_lt hi))]

/-- `p` denotes `d` in the table: it is in range and every sufficient fuel reads `d` -/
def BDenotes (nodes : Array SerBdd) (a : Assign) (p : SerBddPtr) (d : Bdd.Ptr) : Prop :=
  BPtrLt p nodes.size ∧ ∀ fuel, BPtrLt p fuel → evalBddPtr nodes a fuel p = d.eval a

theorem BDenotes.ext {nodes nodes' : Array SerBdd} {a : Assign} {p : SerBddPtr} {d : Bdd.Ptr}
    (h : BDenotes nodes a p d) (hw : BWf nodes) (hp : BPrefix nodes nodes') :
    BDenotes nodes' a p d :=
  ⟨h.1.mono hp.1, fun fuel hf => by rw [evalBddPtr_prefix a hw hp fuel p h.1]; exact h.2 fuel hf⟩

/-- the complement flag of a pointer negates -/
theorem BDenotes.flip {nodes : Array SerBdd} {a : Assign} {i : Nat} {v : Nat} {lo hi : Bdd.Ptr}
    (h : BDenotes nodes a (.ptr i false) (.node false v lo hi)) (c : Bool) :
    BDenotes nodes a (.ptr i c) (.node c v lo hi) := by
  refine ⟨h.1, fun fuel hf => ?_⟩
  have h2 := h.2 fuel hf
  cases fuel with
  | zero => exact absurd hf (by simp [BPtrLt])
  | succ f =>
    simp only [evalBddPtr, Bdd.Ptr.eval] at h2 ⊢
    cases hn : nodes[i]? with
    | none =>
      have : i < nodes.size := h.1
      simp at hn; omega
    | some n =>
      rw [hn] at h2; simp only [Bool.false_bne] at h2
      simp only [h2]

/-- invariant of the serialiser state -/
structure BInv (a : Assign) (s : BddSt) : Prop where
  wf : BWf s.nodes
  tbl : ∀ k idx, (k, idx) ∈ s.table →
    ∃ v lo hi, k = .node false v lo hi ∧ BDenotes s.nodes a (.ptr idx false) k

theorem serBddAux_correct (a : Assign) :
    ∀ (d : Bdd.Ptr) (s : BddSt), BInv a s →
      BInv a (serBddAux d s).2 ∧ BPrefix s.nodes (serBddAux d s).2.nodes ∧
      BDenotes (serBddAux d s).2.nodes a (serBddAux d s).1 d
  | .tru, s, hs => by
    simp only [serBddAux]
    exact ⟨hs, BPrefix.refl _, trivial, fun _ _ => by simp [evalBddPtr, Bdd.Ptr.eval]⟩
  | .fls, s, hs => by
    simp only [serBddAux]
    exact ⟨hs, BPrefix.refl _, trivial, fun _ _ => by simp [evalBddPtr, Bdd.Ptr.eval]⟩
  | .node c v lo hi, s, hs => by
    simp only [serBddAux]
    cases hg : assocGet s.table (.node false v lo hi) with
    | some i =>
      simp only
      obtain ⟨v', lo', hi', hk, hd⟩ := hs.tbl _ _ (assocGet_mem _ _ _ hg)
      cases hk
      exact ⟨hs, BPrefix.refl _, hd.flip c⟩
    | none =>
      simp only
      obtain ⟨i1, p1, d1⟩ := serBddAux_correct a lo s hs
      obtain ⟨i2, p2, d2⟩ := serBddAux_correct a hi (serBddAux lo s).2 i1
      generalize (serBddAux lo s).1 = l at *
      generalize (serBddAux lo s).2 = s1 at *
      generalize (serBddAux hi s1).1 = h at *
      generalize (serBddAux hi s1).2 = s2 at *
      have d1' : BDenotes s2.nodes a l lo := d1.ext i1.wf p2
      have hpush := BPrefix.push s2.nodes ⟨v, l, h⟩
      have hwf : BWf (s2.nodes.push ⟨v, l, h⟩) := by
        intro i n hn
        rw [Array.getElem?_push] at hn
        split at hn
        · cases hn; subst_vars; exact ⟨d1'.1, d2.1⟩
        · exact i2.wf i n hn
      have hnew : BDenotes (s2.nodes.push ⟨v, l, h⟩) a (.ptr s2.nodes.size false)
          (.node false v lo hi) := by
        refine ⟨by simp [BPtrLt], fun fuel hf => ?_⟩
        cases fuel with
        | zero => exact absurd hf (by simp [BPtrLt])
        | succ f =>
          have hf' : s2.nodes.size ≤ f := Nat.le_of_lt_succ hf
          simp only [evalBddPtr, Array.getElem?_push, if_true, Bdd.Ptr.eval, Bool.false_bne]
          rw [evalBddPtr_prefix a i2.wf hpush f h d2.1, evalBddPtr_prefix a i2.wf hpush f l d1'.1,
              d2.2 f (d2.1.mono hf'), d1'.2 f (d1'.1.mono hf')]
      refine ⟨⟨hwf, ?_⟩, p1.trans (p2.trans hpush), hnew.flip c⟩
      intro k idx hm
      rcases List.mem_cons.mp hm with he | hm'
      · cases he; exact ⟨v, lo, hi, rfl, hnew⟩
      · obtain ⟨v', lo', hi', hk, hd⟩ := i2.tbl k idx hm'
        exact ⟨v', lo', hi', hk, hd.ext i2.wf hpush⟩

theorem BInv.init (a : Assign) : BInv a ⟨#[], []⟩ :=
  ⟨fun i n h => by simp at h, fun k idx h => by simp at h⟩

/-- **the table `from_bdd` produces, read naively from its root, is the diagram's function** -/
theorem serBdd_eval (d : Bdd.Ptr) (a : Assign) :
    ∃ r, (serBdd d).roots = [r] ∧ evalBddTable (serBdd d) r a = d.eval a := by
  obtain ⟨_, _, hd⟩ := serBddAux_correct a d ⟨#[], []⟩ (BInv.init a)
  exact ⟨(serBddAux d ⟨#[], []⟩).1, rfl, hd.2 _ hd.1⟩

/-- the table is in post order: children have smaller indices -/
theorem serBdd_wf (d : Bdd.Ptr) : BWf (serBdd d).nodes :=
  (serBddAux_correct (fun _ => false) d ⟨#[], []⟩ (BInv.init _)).1.wf

/-! ## DIMACS: printing then reading -/

open Spec.Text

theorem splitAt_ne_nil (p : Char → Bool) : ∀ l, splitAt p l ≠ []
  | [] => by simp [splitAt]
  | c :: cs => by
    simp only [splitAt]
    split
    · simp
    · split <;> simp

theorem splitAt_none (p : Char → Bool) : ∀ l, (∀ c ∈ l, p c = false) → splitAt p l = [l]
  | [], _ => rfl
  | c :: cs, h => by
    have hc : p c = false := h c List.mem_cons_self
    have ih := splitAt_none p cs (fun x hx => h x (List.mem_cons_of_mem _ hx))
    simp [splitAt, hc, ih]

/-- cutting `x ++ [sep] ++ r` gives the pieces of `x` followed by the pieces of `r` -/
theorem splitAt_append_sep (p : Char → Bool) (c : Char) (hc : p c = true) (r : List Char) :
    ∀ x, splitAt p (x ++ c :: r) = splitAt p x ++ splitAt p r
  | [] => by simp [splitAt, hc]
  | y :: x => by
    have ih := splitAt_append_sep p c hc r x
    simp only [List.cons_append, splitAt]
    split
    · simp [ih]
    · rw [ih]
      cases hx : splitAt p x with
      | nil => exact absurd hx (splitAt_ne_nil p x)
      | cons l ls => simp

theorem tokens_append_ws (x r : List Char) (c : Char) (hc : isWs c = true) :
    tokens (x ++ c :: r) = tokens x ++ tokens r := by
  simp [tokens, splitAt_append_sep isWs c hc r x]

theorem tokens_single (t : List Char) (hne : t ≠ []) (hw : ∀ c ∈ t, isWs c = false) :
    tokens t = [t] := by
  simp [tokens, splitAt_none isWs t hw, hne]

theorem tokens_joinSp : ∀ (ts : List (List Char)),
    (∀ t ∈ ts, t ≠ [] ∧ ∀ c ∈ t, isWs c = false) → tokens (joinSp ts) = ts
  | [], _ => by simp [joinSp, tokens, splitAt]
  | [x], h => by
    obtain ⟨h1, h2⟩ := h x List.mem_cons_self
    simpa [joinSp] using tokens_single x h1 h2
  | x :: y :: r, h => by
    obtain ⟨h1, h2⟩ := h x List.mem_cons_self
    have ih := tokens_joinSp (y :: r) (fun t ht => h t (List.mem_cons_of_mem _ ht))
    simp only [joinSp]
    rw [tokens_append_ws x _ ' ' (by decide), ih, tokens_single x h1 h2]; rfl

/-! ### characters of a printed literal -/

/-- characters `to_dimacs` prints inside a clause line -/
def okCh (c : Char) : Bool := c.isDigit || c == '-' || c == ' '

theorem digit_not_ws {c : Char} (h : c.isDigit = true) : isWs c = false := by
  simp only [isWs, Bool.or_eq_false_iff, beq_eq_false_iff_ne]
  refine ⟨⟨⟨?_, ?_⟩, ?_⟩, ?_⟩ <;> intro e <;> rw [e] at h <;> exact absurd h (by decide)

theorem okCh_not_nl {c : Char} (h : okCh c = true) : isNl c = false := by
  simp only [okCh, Bool.or_eq_true, beq_iff_eq] at h
  simp only [isNl, beq_eq_false_iff_ne]
  intro e; rw [e] at h; revert h; decide

theorem okCh_not_cp {c : Char} (h : okCh c = true) : (c == 'c' || c == 'p') = false := by
  simp only [okCh, Bool.or_eq_true, beq_iff_eq] at h
  simp only [Bool.or_eq_false_iff, beq_eq_false_iff_ne]
  constructor <;> intro e <;> rw [e] at h <;> revert h <;> decide

theorem showLit_digits_or_minus (l : Lit) : ∀ c ∈ showLit l, c.isDigit = true ∨ c = '-' := by
  intro c hc
  simp only [showLit, List.mem_append] at hc
  rcases hc with hc | hc
  · split at hc <;> simp at hc; exact Or.inr hc
  · exact Or.inl (Nat.isDigit_of_mem_toDigits (by decide) (by decide) hc)

theorem showLit_ne_nil (l : Lit) : showLit l ≠ [] := by
  simp [showLit, Nat.toDigits_ne_nil]

theorem showLit_not_ws (l : Lit) : ∀ c ∈ showLit l, isWs c = false := by
  intro c hc
  rcases showLit_digits_or_minus l c hc with h | h
  · exact digit_not_ws h
  · subst h; decide

theorem showLit_ok (l : Lit) : ∀ c ∈ showLit l, okCh c = true := by
  intro c hc
  rcases showLit_digits_or_minus l c hc with h | h
  · simp [okCh, h]
  · subst h; decide

theorem joinSp_ok : ∀ (ts : List (List Char)), (∀ t ∈ ts, ∀ c ∈ t, okCh c = true) →
    ∀ c ∈ joinSp ts, okCh c = true
  | [], _ => by simp [joinSp]
  | [x], h => by simpa [joinSp] using h x List.mem_cons_self
  | x :: y :: r, h => by
    intro c hc
    simp only [joinSp, List.mem_append, List.mem_cons] at hc
    rcases hc with hc | hc | hc
    · exact h x List.mem_cons_self c hc
    · subst hc; decide
    · exact joinSp_ok (y :: r) (fun t ht => h t (List.mem_cons_of_mem _ ht)) c hc

/-- a clause line without its leading newline -/
def clauseBody (c : Clause) : List Char := joinSp (c.map showLit) ++ [' ', '0']

theorem clauseLine_eq (c : Clause) : clauseLine c = '\n' :: clauseBody c := rfl

theorem clauseBody_ok (c : Clause) : ∀ ch ∈ clauseBody c, okCh ch = true := by
  intro ch hc
  simp only [clauseBody, List.mem_append, List.mem_cons, List.not_mem_nil, or_false] at hc
  rcases hc with hc | hc | hc
  · refine joinSp_ok (c.map showLit) ?_ ch hc
    intro t ht
    obtain ⟨l, _, rfl⟩ := List.mem_map.mp ht
    exact showLit_ok l
  · subst hc; decide
  · subst hc; decide

theorem tokens_clauseBody (c : Clause) : tokens (clauseBody c) = c.map showLit ++ [['0']] := by
  simp only [clauseBody]
  rw [tokens_append_ws _ _ ' ' (by decide), tokens_joinSp]
  · rfl
  · intro t ht
    obtain ⟨l, _, rfl⟩ := List.mem_map.mp ht
    exact ⟨showLit_ne_nil l, showLit_not_ws l⟩

theorem skipLine_clauseBody (c : Clause) : skipLine (clauseBody c) = false := by
  simp only [skipLine, firstChar?]
  cases h : (List.dropWhile isWs (clauseBody c)).head? with
  | none => rfl
  | some ch =>
    have hm : ch ∈ clauseBody c :=
      (List.dropWhile_sublist _).subset (List.mem_of_mem_head? h)
    simpa using okCh_not_cp (clauseBody_ok c ch hm)

/-- lines of `pre ++ to_dimacs cs`: the lines of `pre`, then one line per clause -/
theorem lines_toDimacs : ∀ (cs : Cnf) (pre : List Char),
    splitAt isNl (pre ++ toDimacsChars cs) = splitAt isNl pre ++ cs.map clauseBody
  | [], pre => by simp [toDimacsChars]
  | c :: rest, pre => by
    have ih := lines_toDimacs rest (clauseBody c)
    simp only [toDimacsChars, List.flatMap_cons, clauseLine_eq, List.cons_append] at ih ⊢
    rw [splitAt_append_sep isNl '\n' (by decide) _ pre, ih,
        splitAt_none isNl (clauseBody c) (fun ch h => okCh_not_nl (clauseBody_ok c ch h))]
    simp

/-! ### numbers -/

theorem digitsVal_eq (cs : List Char) : digitsVal cs = Nat.ofDigitChars 10 cs 0 := rfl

theorem parseNat_toDigits (n : Nat) : parseNat? (Nat.toDigits 10 n) = some n := by
  have h1 : (Nat.toDigits 10 n).isEmpty = false := by
    cases h : Nat.toDigits 10 n with
    | nil => exact absurd h Nat.toDigits_ne_nil
    | cons _ _ => rfl
  have h2 : (Nat.toDigits 10 n).all Char.isDigit = true :=
    List.all_eq_true.mpr fun c hc => Nat.isDigit_of_mem_toDigits (by decide) (by decide) hc
  simp [parseNat?, h1, h2, digitsVal_eq]

/-- the signed integer `to_dimacs` prints for a literal -/
def intOfLit (l : Lit) : Int := if l.pol then ((l.var + 1 : Nat) : Int) else -((l.var + 1 : Nat) : Int)

theorem parseInt_showLit (l : Lit) : parseInt? (showLit l) = some (intOfLit l) := by
  cases hp : l.pol with
  | false =>
    simp [showLit, hp, parseInt?, parseNat_toDigits, intOfLit]
  | true =>
    simp only [showLit, hp, if_true, List.nil_append, intOfLit]
    cases hd : Nat.toDigits 10 (l.var + 1) with
    | nil => exact absurd hd Nat.toDigits_ne_nil
    | cons ch r =>
      have hdig : ch.isDigit = true :=
        Nat.isDigit_of_mem_toDigits (by decide) (by decide) (hd ▸ List.mem_cons_self)
      have hne : ch ≠ '-' := by intro e; rw [e] at hdig; exact absurd hdig (by decide)
      have hn := parseNat_toDigits (l.var + 1)
      rw [hd] at hn
      unfold parseInt?
      split
      · rename_i heq; cases heq; exact absurd rfl hne
      · simp [hn]

theorem litOfInt_intOfLit (l : Lit) : litOfInt (intOfLit l) = l := by
  obtain ⟨v, p⟩ := l
  cases p <;> simp [intOfLit, litOfInt] <;> omega

theorem litOfSigned_eq_litOfInt (z : Int) : litOfSigned z = litOfInt z := by
  simp only [litOfSigned, litOfInt]
  split
  · rename_i h; simp [h]; omega
  · rename_i h; simp [h]; omega

theorem intOfLit_ne_zero (l : Lit) : intOfLit l ≠ 0 := by
  simp only [intOfLit]; split <;> omega

/-! ### tokens → integers → clauses -/

def tokLine (c : Clause) : List (List Char) := c.map showLit ++ [['0']]
def intLine (c : Clause) : List Int := c.map intOfLit ++ [0]

theorem mapM_parseInt_lits : ∀ (c : Clause),
    (c.map showLit).mapM parseInt? = some (c.map intOfLit)
  | [] => rfl
  | l :: r => by simp [List.mapM_cons, parseInt_showLit, mapM_parseInt_lits r]

theorem parseInt_zero : parseInt? ['0'] = some 0 := by decide

theorem mapM_parseInt_line (c : Clause) : (tokLine c).mapM parseInt? = some (intLine c) := by
  unfold tokLine intLine
  rw [List.mapM_append, mapM_parseInt_lits]
  simp [List.mapM_cons, parseInt_zero]

theorem mapM_parseInt_lines : ∀ (cs : Cnf),
    (cs.flatMap tokLine).mapM parseInt? = some (cs.flatMap intLine)
  | [] => rfl
  | c :: r => by
    simp [List.flatMap_cons, List.mapM_append, mapM_parseInt_line, mapM_parseInt_lines r]

theorem clausesOf_line (rest : List Int) : ∀ (c : List Int), (∀ z ∈ c, z ≠ 0) →
    clausesOf (c ++ 0 :: rest) = c :: clausesOf rest
  | [], _ => by simp [clausesOf]
  | z :: c, h => by
    have hz : z ≠ 0 := h z List.mem_cons_self
    have ih := clausesOf_line rest c (fun x hx => h x (List.mem_cons_of_mem _ hx))
    simp [clausesOf, hz, ih]

theorem clausesOf_lines : ∀ (cs : Cnf), clausesOf (cs.flatMap intLine) = cs.map (·.map intOfLit)
  | [] => rfl
  | c :: r => by
    simp only [List.flatMap_cons, intLine, List.append_assoc, List.singleton_append, List.map_cons]
    rw [clausesOf_line _ _ (by
      intro z hz; obtain ⟨l, _, rfl⟩ := List.mem_map.mp hz; exact intOfLit_ne_zero l)]
    rw [clausesOf_lines r]

/-- text that carries no clause: every line is a comment, the problem line, or blank -/
def HeaderOnly (pre : List Char) : Prop :=
  ∀ ln ∈ splitAt isNl pre, skipLine ln = true ∨ tokens ln = []

theorem headerOnly_tokens (pre : List Char) (h : HeaderOnly pre) :
    ((splitAt isNl pre).filter (fun ln => !skipLine ln)).flatMap tokens = [] := by
  rw [List.flatMap_eq_nil_iff]
  intro ln hln
  obtain ⟨hm, hs⟩ := List.mem_filter.mp hln
  rcases h ln hm with h1 | h1
  · simp [h1] at hs
  · exact h1

/-- **the integers read back from `pre ++ to_dimacs cs`** -/
theorem dimacsInts_toDimacs (cs : Cnf) (pre : List Char) (hpre : HeaderOnly pre) :
    dimacsIntsChars (pre ++ toDimacsChars cs) = some (cs.map (·.map intOfLit)) := by
  have hbody : (cs.map clauseBody).filter (fun ln => !skipLine ln) = cs.map clauseBody := by
    rw [List.filter_eq_self]
    intro ln hln
    obtain ⟨c, _, rfl⟩ := List.mem_map.mp hln
    simp [skipLine_clauseBody]
  have htok : (cs.map clauseBody).flatMap tokens = cs.flatMap tokLine := by
    rw [List.flatMap_map]
    congr 1; funext c; exact tokens_clauseBody c
  simp only [dimacsIntsChars, lines_toDimacs, List.filter_append, List.flatMap_append,
    headerOnly_tokens pre hpre, hbody, htok, List.nil_append, mapM_parseInt_lines,
    Option.map_some, clausesOf_lines]

/-- **reading back what `to_dimacs` printed gives the very same clause lists** (spec reader) -/
theorem parseDimacsChars_toDimacs (cs : Cnf) (pre : List Char) (hpre : HeaderOnly pre) :
    parseDimacsChars (pre ++ toDimacsChars cs) = some cs := by
  simp only [parseDimacsChars, dimacsInts_toDimacs cs pre hpre, Option.map_some, cnfOfInts,
    List.map_map]
  congr 1
  conv => rhs; rw [← List.map_id cs]
  apply List.map_congr_left
  intro c _
  simp only [Function.comp, id]
  conv => rhs; rw [← List.map_id c]
  rw [List.map_map]
  apply List.map_congr_left
  intro l _
  simp [litOfInt_intOfLit]

/-- a single line starting with `p` (e.g. `p cnf 3 2`) carries no clause -/
theorem headerOnly_p (l : List Char) (hnl : ∀ c ∈ l, c ≠ '\n') : HeaderOnly ('p' :: l) := by
  intro ln hln
  rw [splitAt_none isNl ('p' :: l) (by
    intro c hc
    rcases List.mem_cons.mp hc with rfl | hc
    · decide
    · simpa [isNl] using hnl c hc)] at hln
  simp only [List.mem_singleton] at hln
  subst hln
  left; simp [skipLine, firstChar?, List.dropWhile, isWs]

/-! ## `Cnf::new`: membership, semantics, idempotence -/

theorem mem_insertByLabel (x y : Lit) : ∀ l, y ∈ insertByLabel x l ↔ y = x ∨ y ∈ l
  | [] => by simp [insertByLabel]
  | z :: r => by
    simp only [insertByLabel]
    split
    · simp
    · simp only [List.mem_cons, mem_insertByLabel x y r]
      constructor
      · rintro (h | h | h) <;> simp [h]
      · rintro (h | h | h) <;> simp [h]

theorem mem_sortByLabel (y : Lit) : ∀ l, y ∈ sortByLabel l ↔ y ∈ l
  | [] => by simp [sortByLabel]
  | x :: r => by simp [sortByLabel, mem_insertByLabel, mem_sortByLabel y r]

theorem dedup_cons_head (y : Lit) : ∀ r, ∃ t, dedup (y :: r) = y :: t
  | [] => ⟨[], rfl⟩
  | z :: r => by
    simp only [dedup]
    split
    · rename_i h; subst h; exact dedup_cons_head y r
    · exact ⟨_, rfl⟩

theorem mem_dedup (y : Lit) : ∀ l, y ∈ dedup l ↔ y ∈ l
  | [] => by simp [dedup]
  | [x] => by simp [dedup]
  | x :: z :: r => by
    have ih := mem_dedup y (z :: r)
    simp only [dedup]
    split
    · rename_i h; subst h; rw [ih]; simp
    · simp only [List.mem_cons] at ih ⊢; rw [ih]

theorem dedup_sublist : ∀ l, (dedup l).Sublist l
  | [] => by simp [dedup]
  | [x] => by simp [dedup]
  | x :: z :: r => by
    simp only [dedup]
    split
    · exact (dedup_sublist (z :: r)).cons _
    · exact (dedup_sublist (z :: r)).cons_cons _

/-- the literals of a clause of `Cnf::new` are those of the given clause -/
theorem mem_cnfNew_clause (c : Clause) (y : Lit) : y ∈ dedup (sortByLabel c) ↔ y ∈ c := by
  rw [mem_dedup, mem_sortByLabel]

theorem clauseSat_congr (a : Assign) {c c' : Clause} (h : ∀ y, y ∈ c ↔ y ∈ c') :
    clauseSat a c = clauseSat a c' := by
  simp only [clauseSat]
  rw [Bool.eq_iff_iff, List.any_eq_true, List.any_eq_true]
  constructor
  · rintro ⟨y, hy, hs⟩; exact ⟨y, (h y).mp hy, hs⟩
  · rintro ⟨y, hy, hs⟩; exact ⟨y, (h y).mpr hy, hs⟩

theorem cnfSat_cnfNew (a : Assign) : ∀ (cs : Cnf), cnfSat a (cnfNew cs) = cnfSat a cs
  | [] => rfl
  | c :: r => by
    have ih := cnfSat_cnfNew a r
    simp only [cnfSat, cnfNew, List.map_cons, List.all_cons] at ih ⊢
    rw [ih, clauseSat_congr a (mem_cnfNew_clause c)]

/-- increasing labels -/
def Sorted (l : List Lit) : Prop := l.Pairwise (fun x y => x.var ≤ y.var)

theorem insertByLabel_sorted (x : Lit) : ∀ l, Sorted l → Sorted (insertByLabel x l)
  | [], _ => by simp [insertByLabel, Sorted]
  | z :: r, h => by
    simp only [insertByLabel]
    have hz := List.pairwise_cons.mp h
    split
    · rename_i hle
      exact List.pairwise_cons.mpr ⟨fun y hy => by
        rcases List.mem_cons.mp hy with rfl | hy
        · exact hle
        · exact Nat.le_trans hle (hz.1 y hy), h⟩
    · rename_i hle
      refine List.pairwise_cons.mpr ⟨fun y hy => ?_, insertByLabel_sorted x r hz.2⟩
      rcases (mem_insertByLabel x y r).mp hy with rfl | hy
      · omega
      · exact hz.1 y hy

theorem sortByLabel_sorted : ∀ l, Sorted (sortByLabel l)
  | [] => List.Pairwise.nil
  | x :: r => insertByLabel_sorted x _ (sortByLabel_sorted r)

theorem sortByLabel_of_sorted : ∀ l, Sorted l → sortByLabel l = l
  | [], _ => rfl
  | x :: r, h => by
    have hz := List.pairwise_cons.mp h
    rw [sortByLabel, sortByLabel_of_sorted r hz.2]
    cases r with
    | nil => rfl
    | cons y r' => simp [insertByLabel, hz.1 y List.mem_cons_self]

/-- no two neighbours are equal -/
def NoAdj : List Lit → Prop
  | [] => True
  | [_] => True
  | x :: y :: r => x ≠ y ∧ NoAdj (y :: r)

theorem dedup_noAdj : ∀ l, NoAdj (dedup l)
  | [] => trivial
  | [x] => trivial
  | x :: z :: r => by
    have ih := dedup_noAdj (z :: r)
    simp only [dedup]
    split
    · exact ih
    · rename_i hne
      obtain ⟨t, ht⟩ := dedup_cons_head z r
      rw [ht] at ih ⊢
      exact ⟨hne, ih⟩

theorem dedup_of_noAdj : ∀ l, NoAdj l → dedup l = l
  | [], _ => rfl
  | [x], _ => rfl
  | x :: z :: r, h => by
    simp only [dedup, if_neg h.1, dedup_of_noAdj (z :: r) h.2]

/-- **`Cnf::new` is idempotent**: the stored clause vectors are a normal form -/
theorem cnfNew_idem (cs : Cnf) : cnfNew (cnfNew cs) = cnfNew cs := by
  simp only [cnfNew, List.map_map]
  apply List.map_congr_left
  intro c _
  simp only [Function.comp]
  have hs : Sorted (dedup (sortByLabel c)) :=
    List.Pairwise.sublist (dedup_sublist _) (sortByLabel_sorted c)
  rw [sortByLabel_of_sorted _ hs, dedup_of_noAdj _ (dedup_noAdj _)]

/-! ## the glue of `Cnf::from_dimacs` -/

theorem fromDimacsClauses_eq (zs : List (List Int)) :
    fromDimacsClauses zs = cnfNew (cnfOfInts zs) := by
  simp only [fromDimacsClauses, cnfOfInts]
  congr 1
  apply List.map_congr_left; intro c _
  apply List.map_congr_left; intro z _
  exact litOfSigned_eq_litOfInt z

/-- **`Cnf::from_dimacs` keeps the models** (label = number − 1) -/
theorem fromDimacsClauses_sem (zs : List (List Int)) (a : Assign) :
    cnfSat a (fromDimacsClauses zs) = cnfSat a (cnfOfInts zs) := by
  rw [fromDimacsClauses_eq, cnfSat_cnfNew]

theorem cnfFromDimacs_eq (s : String) : cnfFromDimacs s = (parseDimacs s).map cnfNew := by
  simp only [cnfFromDimacs, parseDimacs, parseDimacsChars, dimacsInts, Option.map_map]
  congr 1; funext zs; exact fromDimacsClauses_eq zs

theorem cnfOfInts_intOfLit (cs : Cnf) : cnfOfInts (cs.map (·.map intOfLit)) = cs := by
  simp only [cnfOfInts, List.map_map]
  conv => rhs; rw [← List.map_id cs]
  apply List.map_congr_left
  intro c _
  simp only [Function.comp, id, List.map_map]
  conv => rhs; rw [← List.map_id c]
  apply List.map_congr_left
  intro l _
  simp [litOfInt_intOfLit]

/-! ## `LogicalExpr::from_dimacs` -/

theorem foldl_or_eval (a : Assign) : ∀ (xs : List LogicalExpr) (init : LogicalExpr),
    (xs.foldl .or init).eval a = (init.eval a || xs.any (·.eval a))
  | [], init => by simp
  | x :: r, init => by
    simp [foldl_or_eval a r, LogicalExpr.eval, Bool.or_assoc]

theorem foldl_and_eval (a : Assign) : ∀ (xs : List LogicalExpr) (init : LogicalExpr),
    (xs.foldl .and init).eval a = (init.eval a && xs.all (·.eval a))
  | [], init => by simp
  | x :: r, init => by
    simp [foldl_and_eval a r, LogicalExpr.eval, Bool.and_assoc]

theorem popFold_some {α : Type} (op : α → α → α) (xs : List α) (r : α)
    (h : popFold op xs = some r) : ∃ l, xs = xs.dropLast ++ [l] ∧ r = xs.dropLast.foldl op l := by
  simp only [popFold] at h
  cases hl : xs.getLast? with
  | none => rw [hl] at h; cases h
  | some l =>
    rw [hl] at h; cases h
    refine ⟨l, ?_, rfl⟩
    have hne : xs ≠ [] := by intro e; subst e; simp at hl
    rw [List.getLast?_eq_some_getLast hne] at hl
    cases hl
    exact (List.dropLast_concat_getLast hne).symm

theorem popFold_none {α : Type} (op : α → α → α) (xs : List α) :
    popFold op xs = none ↔ xs = [] := by
  simp only [popFold]
  cases hl : xs.getLast? with
  | none => simpa using hl
  | some l =>
    simp only [reduceCtorEq, false_iff]
    intro e; subst e; simp at hl

theorem popFold_or_eval (a : Assign) (xs : List LogicalExpr) (r : LogicalExpr)
    (h : popFold .or xs = some r) : r.eval a = xs.any (·.eval a) := by
  obtain ⟨l, hx, rfl⟩ := popFold_some _ _ _ h
  rw [foldl_or_eval]
  conv => rhs; rw [hx]
  simp [Bool.or_comm]

theorem popFold_and_eval (a : Assign) (xs : List LogicalExpr) (r : LogicalExpr)
    (h : popFold .and xs = some r) : r.eval a = xs.all (·.eval a) := by
  obtain ⟨l, hx, rfl⟩ := popFold_some _ _ _ h
  rw [foldl_and_eval]
  conv => rhs; rw [hx]
  simp [Bool.and_comm]

/-- the assignment of **1-based** labels seen through 0-based ones -/
def shift (a : Assign) : Assign := fun x => a (x + 1)

theorem exprLit_eval (a : Assign) (z : Int) (hz : z ≠ 0) :
    (exprLitOfSigned z).eval a = litSat (shift a) (litOfInt z) := by
  simp only [exprLitOfSigned, LogicalExpr.eval, litSat, litOfInt, shift]
  by_cases h : 0 < z
  · have : z.toNat - 1 + 1 = z.natAbs := by omega
    simp [h, this]
  · have : (-z).toNat - 1 + 1 = z.natAbs := by omega
    simp [h, this]

theorem mapM_clauses_eval (a : Assign) : ∀ (zs : List (List Int)) (cls : List LogicalExpr),
    (∀ c ∈ zs, ∀ z ∈ c, z ≠ 0) →
    zs.mapM (fun c => popFold LogicalExpr.or (c.map exprLitOfSigned)) = some cls →
    cls.all (·.eval a) = cnfSat (shift a) (cnfOfInts zs)
  | [], cls, _, h => by
    simp at h; subst h; rfl
  | c :: r, cls, hnz, h => by
    rw [List.mapM_cons] at h
    cases hc : popFold LogicalExpr.or (c.map exprLitOfSigned) with
    | none => simp [hc] at h
    | some e =>
      cases hr : r.mapM (fun c => popFold LogicalExpr.or (c.map exprLitOfSigned)) with
      | none => simp [hc, hr] at h
      | some es =>
        simp [hc, hr] at h; subst h
        have ih := mapM_clauses_eval a r es (fun c' hc' => hnz c' (List.mem_cons_of_mem _ hc')) hr
        have he := popFold_or_eval a _ e hc
        simp only [List.all_cons, ih, he, cnfSat, cnfOfInts, List.map_cons, clauseSat,
          List.any_map]
        congr 1
        apply List.any_congr
        intro z hz
        exact exprLit_eval a z (hnz c List.mem_cons_self z hz)
  where
    List.any_congr {α : Type} {l : List α} {f g : α → Bool} (h : ∀ x ∈ l, f x = g x) :
        l.any f = l.any g := by
      induction l with
      | nil => rfl
      | cons x r ih =>
        simp only [List.any_cons, h x List.mem_cons_self,
          ih (fun y hy => h y (List.mem_cons_of_mem _ hy))]

/-- **`LogicalExpr::from_dimacs` keeps the models under label = number** -/
theorem exprFromDimacsClauses_sem (zs : List (List Int)) (e : LogicalExpr) (a : Assign)
    (hnz : ∀ c ∈ zs, ∀ z ∈ c, z ≠ 0) (h : exprFromDimacsClauses zs = some e) :
    e.eval a = cnfSat (shift a) (cnfOfInts zs) := by
  simp only [exprFromDimacsClauses] at h
  cases hm : zs.mapM (fun c => popFold LogicalExpr.or (c.map exprLitOfSigned)) with
  | none => simp [hm] at h
  | some cls =>
    simp [hm] at h
    rw [popFold_and_eval a cls e h, mapM_clauses_eval a zs cls hnz hm]

theorem clausesOf_nonzero : ∀ (zs : List Int), ∀ c ∈ clausesOf zs, ∀ z ∈ c, z ≠ 0
  | [], c, hc => by simp [clausesOf] at hc
  | x :: r, c, hc => by
    have ih := clausesOf_nonzero r
    simp only [clausesOf] at hc
    split at hc
    · rcases List.mem_cons.mp hc with rfl | hc
      · simp
      · exact ih c hc
    · rename_i hx
      split at hc
      · simp only [List.mem_singleton] at hc; subst hc
        intro z hz; simp only [List.mem_singleton] at hz; subst hz; exact hx
      · rename_i c0 cs0 heq
        rw [heq] at ih
        rcases List.mem_cons.mp hc with rfl | hc
        · intro z hz
          rcases List.mem_cons.mp hz with rfl | hz
          · exact hx
          · exact ih c0 List.mem_cons_self z hz
        · exact ih c (List.mem_cons_of_mem _ hc)


/-! ## s-expressions -/

/-- the typed tree evaluated under an assignment of names (proof device: links the text-level
evaluator with the indexed expression) -/
def LogicalSExpr.evalNames (ρ : NameAssign) : LogicalSExpr → Bool
  | .tru => true
  | .fls => false
  | .var s => ρ s
  | .not e => !(e.evalNames ρ)
  | .or l r => l.evalNames ρ || r.evalNames ρ
  | .and l r => l.evalNames ρ && r.evalNames ρ
  | .iff l r => l.evalNames ρ == r.evalNames ρ
  | .xor l r => Bool.xor (l.evalNames ρ) (r.evalNames ρ)
  | .ite g t e => if g.evalNames ρ then t.evalNames ρ else e.evalNames ρ

def LogicalSExpr.hasConst : LogicalSExpr → Bool
  | .tru | .fls => true
  | .var _ => false
  | .not e => e.hasConst
  | .or l r | .and l r | .iff l r | .xor l r => l.hasConst || r.hasConst
  | .ite g t e => g.hasConst || t.hasConst || e.hasConst

/-- the stand-in for the deserialiser is faithful to the text: same value under every assignment
of names, same names, same constants -/
theorem ofSExp_spec (ρ : NameAssign) (t : SExp) :
    ∀ e, LogicalSExpr.ofSExp t = some e →
      evalSExp ρ t = some (e.evalNames ρ) ∧ namesOf t = e.uniqueVariables ∧
      Spec.Text.hasConst t = e.hasConst := by
  fun_induction LogicalSExpr.ofSExp t
  case case1 => intro e h; cases h; simp [evalSExp, namesOf, Spec.Text.hasConst, LogicalSExpr.evalNames, LogicalSExpr.uniqueVariables, LogicalSExpr.hasConst]
  case case2 => intro e h; cases h; simp [evalSExp, namesOf, Spec.Text.hasConst, LogicalSExpr.evalNames, LogicalSExpr.uniqueVariables, LogicalSExpr.hasConst]
  case case3 => intro e h; cases h; simp [evalSExp, namesOf, Spec.Text.hasConst, LogicalSExpr.evalNames, LogicalSExpr.uniqueVariables, LogicalSExpr.hasConst]
  case case4 e1 ih =>
    intro e h
    cases h1 : LogicalSExpr.ofSExp e1 with
    | none => simp [h1] at h
    | some x =>
      simp [h1] at h; subst h
      obtain ⟨i1, i2, i3⟩ := ih x h1
      simp [evalSExp, namesOf, Spec.Text.hasConst, LogicalSExpr.evalNames, LogicalSExpr.uniqueVariables, LogicalSExpr.hasConst, i1, i2, i3]
  case case10 => intro e h; cases h
  case case9 g1 e1 f1 ih3 ih2 ih1 =>
    intro e h
    cases h0 : LogicalSExpr.ofSExp g1 with
    | none => simp [h0] at h
    | some c =>
      cases h1 : LogicalSExpr.ofSExp e1 with
      | none => simp [h0, h1] at h
      | some x =>
        cases h2 : LogicalSExpr.ofSExp f1 with
        | none => simp [h0, h1, h2] at h
        | some y =>
          simp [h0, h1, h2] at h; subst h
          obtain ⟨k1, k2, k3⟩ := ih3 c h0
          obtain ⟨i1, i2, i3⟩ := ih2 x h1
          obtain ⟨j1, j2, j3⟩ := ih1 y h2
          simp [evalSExp, namesOf, Spec.Text.hasConst, LogicalSExpr.evalNames, LogicalSExpr.uniqueVariables, LogicalSExpr.hasConst, i1, i2, i3, j1, j2, j3, k1, k2, k3]
  all_goals
    rename_i e1 f1 ih2 ih1
    intro e h
    cases h1 : LogicalSExpr.ofSExp e1 with
    | none => simp [h1] at h
    | some x =>
      cases h2 : LogicalSExpr.ofSExp f1 with
      | none => simp [h1, h2] at h
      | some y =>
        simp [h1, h2] at h; subst h
        obtain ⟨i1, i2, i3⟩ := ih2 x h1
        obtain ⟨j1, j2, j3⟩ := ih1 y h2
        simp [evalSExp, namesOf, Spec.Text.hasConst, LogicalSExpr.evalNames, LogicalSExpr.uniqueVariables, LogicalSExpr.hasConst, i1, i2, i3, j1, j2, j3]

/-! ### the lexicographic numbering -/

theorem str_lt_of_not (x y : String) (h1 : ¬ x < y) (h2 : x ≠ y) : y < x := by
  apply Classical.byContradiction
  intro h3
  exact h2 (String.le_antisymm (String.not_lt.mp h3) (String.not_lt.mp h1))

def StrictSorted (l : List String) : Prop := l.Pairwise (· < ·)

theorem mem_insertName (x y : String) : ∀ l, y ∈ insertName x l ↔ y = x ∨ y ∈ l
  | [] => by simp [insertName]
  | z :: r => by
    simp only [insertName]
    split
    · simp
    · split
      · rename_i h; subst h; simp
      · simp only [List.mem_cons, mem_insertName x y r]
        constructor
        · rintro (h | h | h) <;> simp [h]
        · rintro (h | h | h) <;> simp [h]

theorem insertName_sorted (x : String) : ∀ l, StrictSorted l → StrictSorted (insertName x l)
  | [], _ => by simp [insertName, StrictSorted]
  | z :: r, h => by
    have hz := List.pairwise_cons.mp h
    simp only [insertName]
    split
    · rename_i hlt
      exact List.pairwise_cons.mpr ⟨fun y hy => by
        rcases List.mem_cons.mp hy with rfl | hy
        · exact hlt
        · exact String.lt_trans hlt (hz.1 y hy), h⟩
    · split
      · exact h
      · rename_i h1 h2
        refine List.pairwise_cons.mpr ⟨fun y hy => ?_, insertName_sorted x r hz.2⟩
        rcases (mem_insertName x y r).mp hy with rfl | hy
        · exact str_lt_of_not _ _ h1 h2
        · exact hz.1 y hy

theorem mem_sortedNames (y : String) : ∀ l, y ∈ sortedNames l ↔ y ∈ l
  | [] => by simp [sortedNames]
  | x :: r => by
    have ih := mem_sortedNames y r
    simp only [sortedNames, List.foldr_cons] at ih ⊢
    rw [mem_insertName, ih]; simp

theorem sortedNames_sorted : ∀ l, StrictSorted (sortedNames l)
  | [] => List.Pairwise.nil
  | x :: r => by
    have ih := sortedNames_sorted r
    simp only [sortedNames, List.foldr_cons] at ih ⊢
    exact insertName_sorted x _ ih

theorem mem_distinct (y : String) : ∀ l, y ∈ distinct l ↔ y ∈ l
  | [] => by simp [distinct]
  | x :: r => by
    have ih := mem_distinct y r
    simp only [distinct]
    split
    · rename_i hx
      rw [ih]; constructor
      · exact List.mem_cons_of_mem _
      · intro h; rcases List.mem_cons.mp h with rfl | h
        · exact hx
        · exact h
    · simp [ih]

theorem distinct_nodup : ∀ l, (distinct l).Nodup
  | [] => by simp [distinct]
  | x :: r => by
    simp only [distinct]
    split
    · exact distinct_nodup r
    · rename_i hx
      exact List.nodup_cons.mpr ⟨fun h => hx ((mem_distinct x r).mp h), distinct_nodup r⟩

theorem strictSorted_nodup {l : List String} (h : StrictSorted l) : l.Nodup :=
  List.Pairwise.imp (fun {a b} hab e => by subst e; exact String.lt_irrefl _ hab) h

/-- position in a strictly increasing list = number of smaller members -/
theorem mapGet_zipIdx_sorted (x : String) : ∀ (l : List String) (k : Nat), StrictSorted l → x ∈ l →
    mapGet (l.zipIdx k) x = some (k + (l.filter (fun y => decide (y < x))).length)
  | [], _, _, hx => by simp at hx
  | y :: r, k, hs, hx => by
    have hz := List.pairwise_cons.mp hs
    simp only [List.zipIdx_cons, mapGet]
    split
    · rename_i he; subst he
      have : (List.filter (fun y => decide (y < x)) (x :: r)) = [] := by
        rw [List.filter_eq_nil_iff]
        intro z hz'
        rcases List.mem_cons.mp hz' with rfl | hz'
        · simp [String.lt_irrefl]
        · simpa using String.lt_asymm (hz.1 z hz')
      simp [this]
    · rename_i hne
      have hxr : x ∈ r := by
        rcases List.mem_cons.mp hx with rfl | h
        · exact absurd rfl hne
        · exact h
      rw [mapGet_zipIdx_sorted x r (k + 1) hz.2 hxr]
      simp [hz.1 x hxr]; omega

theorem indexIn_eq_sorted (names : List String) (x : String) :
    indexIn names x = ((sortedNames names).filter (fun y => decide (y < x))).length := by
  have hp : (distinct names).Perm (sortedNames names) :=
    (List.perm_ext_iff_of_nodup (distinct_nodup names)
      (strictSorted_nodup (sortedNames_sorted names))).mpr
      (fun a => by rw [mem_distinct, mem_sortedNames])
  exact (hp.filter _).length_eq

/-- **`variable_mapping` is the documented numbering** -/
theorem variableMapping_spec (e : LogicalSExpr) (x : String) (hx : x ∈ e.uniqueVariables) :
    mapGet e.variableMapping x = some (indexIn e.uniqueVariables x) := by
  rw [LogicalSExpr.variableMapping,
    mapGet_zipIdx_sorted x _ 0 (sortedNames_sorted _) ((mem_sortedNames x _).mpr hx),
    indexIn_eq_sorted]
  simp

/-! ### `from_sexpr` -/

theorem xor_formula (x y : Bool) : ((!x && y) || (x && !y)) = Bool.xor x y := by
  cases x <;> cases y <;> rfl

/-- the helper, for any mapping that answers the documented index on the names of the tree -/
theorem fromSexprHelper_sem (m : List (String × Nat)) (idx : String → Nat) (a : Assign)
    (e : LogicalSExpr) :
    (∀ x ∈ e.uniqueVariables, mapGet m x = some (idx x)) →
    ∀ le, fromSexprHelper m e = some le → le.eval a = e.evalNames (fun x => a (idx x)) := by
  fun_induction fromSexprHelper m e
  case case1 => intro _ le h; cases h
  case case2 => intro _ le h; cases h
  case case3 s =>
    intro hm le h
    rw [hm s (by simp [LogicalSExpr.uniqueVariables])] at h
    cases h; simp [LogicalExpr.eval, LogicalSExpr.evalNames]
  case case4 s =>
    intro hm le h
    rw [hm s (by simp [LogicalSExpr.uniqueVariables])] at h
    cases h; simp [LogicalExpr.eval, LogicalSExpr.evalNames]
  case case5 e1 _ ih =>
    intro hm le h
    cases h1 : fromSexprHelper m e1 with
    | none => simp [h1] at h
    | some x =>
      simp [h1] at h; subst h
      simp [LogicalExpr.eval, LogicalSExpr.evalNames, ih (by simpa [LogicalSExpr.uniqueVariables] using hm) x h1]
  case case10 g t e1 ih3 ih2 ih1 =>
    intro hm le h
    simp only [LogicalSExpr.uniqueVariables, List.mem_append] at hm
    cases h0 : fromSexprHelper m g with
    | none => simp [h0] at h
    | some c =>
      cases h1 : fromSexprHelper m t with
      | none => simp [h0, h1] at h
      | some x =>
        cases h2 : fromSexprHelper m e1 with
        | none => simp [h0, h1, h2] at h
        | some y =>
          simp [h0, h1, h2] at h; subst h
          simp [LogicalExpr.eval, LogicalSExpr.evalNames,
            ih3 (fun x hx => hm x (Or.inl (Or.inl hx))) c h0,
            ih2 (fun x hx => hm x (Or.inl (Or.inr hx))) x h1,
            ih1 (fun x hx => hm x (Or.inr hx)) y h2]
  all_goals
    rename_i l r ih2 ih1
    intro hm le h
    simp only [LogicalSExpr.uniqueVariables, List.mem_append] at hm
    cases h1 : fromSexprHelper m l with
    | none => simp [h1] at h
    | some x =>
      cases h2 : fromSexprHelper m r with
      | none => simp [h1, h2] at h
      | some y =>
        simp [h1, h2] at h; subst h
        simp [LogicalExpr.eval, LogicalSExpr.evalNames, xor_formula,
          ih2 (fun x hx => hm x (Or.inl hx)) x h1, ih1 (fun x hx => hm x (Or.inr hx)) y h2]

/-- the helper answers (no `todo!()`, no failed `unwrap`) on constant-free trees whose names the
mapping knows -/
theorem fromSexprHelper_total (m : List (String × Nat)) (e : LogicalSExpr) :
    (∀ x ∈ e.uniqueVariables, (mapGet m x).isSome) → e.hasConst = false →
    (fromSexprHelper m e).isSome := by
  fun_induction fromSexprHelper m e
  case case1 => intro _ h; simp [LogicalSExpr.hasConst] at h
  case case2 => intro _ h; simp [LogicalSExpr.hasConst] at h
  case case3 s =>
    intro hm _
    have := hm s (by simp [LogicalSExpr.uniqueVariables])
    cases hg : mapGet m s <;> simp_all
  case case4 s =>
    intro hm _
    have := hm s (by simp [LogicalSExpr.uniqueVariables])
    cases hg : mapGet m s <;> simp_all
  case case5 e1 _ ih =>
    intro hm hc
    have := ih (by simpa [LogicalSExpr.uniqueVariables] using hm) (by simpa [LogicalSExpr.hasConst] using hc)
    cases hg : fromSexprHelper m e1 <;> simp_all
  case case10 g t e1 ih3 ih2 ih1 =>
    intro hm hc
    simp only [LogicalSExpr.uniqueVariables, List.mem_append] at hm
    simp only [LogicalSExpr.hasConst, Bool.or_eq_false_iff] at hc
    have k3 := ih3 (fun x hx => hm x (Or.inl (Or.inl hx))) hc.1.1
    have k2 := ih2 (fun x hx => hm x (Or.inl (Or.inr hx))) hc.1.2
    have k1 := ih1 (fun x hx => hm x (Or.inr hx)) hc.2
    cases h0 : fromSexprHelper m g <;> cases h1 : fromSexprHelper m t <;>
      cases h2 : fromSexprHelper m e1 <;> simp_all
  all_goals
    rename_i l r ih2 ih1
    intro hm hc
    simp only [LogicalSExpr.uniqueVariables, List.mem_append] at hm
    simp only [LogicalSExpr.hasConst, Bool.or_eq_false_iff] at hc
    have k2 := ih2 (fun x hx => hm x (Or.inl hx)) hc.1
    have k1 := ih1 (fun x hx => hm x (Or.inr hx)) hc.2
    cases h1 : fromSexprHelper m l <;> cases h2 : fromSexprHelper m r <;> simp_all

/-- **`from_sexpr` on the typed tree** -/
theorem fromSexpr_evalNames (e : LogicalSExpr) (le : LogicalExpr) (a : Assign)
    (h : fromSexpr e = some le) :
    le.eval a = e.evalNames (fun x => a (indexIn e.uniqueVariables x)) :=
  fromSexprHelper_sem e.variableMapping (indexIn e.uniqueVariables) a e
    (fun x hx => variableMapping_spec e x hx) le h

theorem fromSexpr_total (e : LogicalSExpr) (hc : e.hasConst = false) : (fromSexpr e).isSome :=
  fromSexprHelper_total e.variableMapping e
    (fun x hx => by rw [variableMapping_spec e x hx]; rfl) hc

/-! ### the numbering is injective on the names of the text: every assignment of names is
induced by an indexed assignment -/

theorem filter_length_lt {p q : String → Bool} (x : String) :
    ∀ (l : List String), (∀ z, p z = true → q z = true) → x ∈ l → q x = true → p x = false →
      (l.filter p).length < (l.filter q).length
  | [], _, hx, _, _ => by simp at hx
  | y :: r, hpq, hx, hq, hp => by
    have hle : (r.filter p).length ≤ (r.filter q).length := by
      clear hx
      induction r with
      | nil => simp
      | cons z r ih =>
        simp only [List.filter_cons]
        cases hpz : p z
        · cases hqz : q z <;> simp <;> omega
        · simp [hpq z hpz]; omega
    rcases List.mem_cons.mp hx with rfl | hxr
    · simp [hq, hp]; omega
    · have ih := filter_length_lt x r hpq hxr hq hp
      simp only [List.filter_cons]
      cases hpy : p y
      · cases hqy : q y <;> simp <;> omega
      · simp [hpq y hpy]; omega

theorem indexIn_lt_of_lt (names : List String) (x y : String) (hx : x ∈ names) (hxy : x < y) :
    indexIn names x < indexIn names y := by
  refine filter_length_lt x (distinct names) ?_ ((mem_distinct x names).mpr hx) ?_ ?_
  · intro z hz; simp only [decide_eq_true_eq] at hz ⊢; exact String.lt_trans hz hxy
  · simpa using hxy
  · simp [String.lt_irrefl]

theorem indexIn_inj (names : List String) (x y : String) (hx : x ∈ names) (hy : y ∈ names)
    (h : indexIn names x = indexIn names y) : x = y := by
  apply Classical.byContradiction
  intro hne
  by_cases hlt : x < y
  · have := indexIn_lt_of_lt names x y hx hlt; omega
  · have := indexIn_lt_of_lt names y x hy (str_lt_of_not x y hlt hne); omega

/-- an indexed assignment inducing a given assignment of names -/
def assignOfNames (names : List String) (ρ : NameAssign) : Assign := fun i =>
  match names.find? (fun x => indexIn names x == i) with
  | some x => ρ x
  | none => false

theorem assignOfNames_spec (names : List String) (ρ : NameAssign) (x : String) (hx : x ∈ names) :
    assignOfNames names ρ (indexIn names x) = ρ x := by
  simp only [assignOfNames]
  cases hf : names.find? (fun y => indexIn names y == indexIn names x) with
  | none =>
    have := List.find?_eq_none.mp hf x hx
    simp at this
  | some y =>
    have hy := List.mem_of_find?_eq_some hf
    have he := List.find?_some hf
    simp only [beq_iff_eq] at he
    rw [indexIn_inj names y x hy hx he]

theorem evalNames_congr (ρ ρ' : NameAssign) : ∀ (e : LogicalSExpr),
    (∀ x ∈ e.uniqueVariables, ρ x = ρ' x) → e.evalNames ρ = e.evalNames ρ'
  | .tru, _ => rfl
  | .fls, _ => rfl
  | .var s, h => by simpa [LogicalSExpr.evalNames] using h s (by simp [LogicalSExpr.uniqueVariables])
  | .not e, h => by
    simp only [LogicalSExpr.evalNames]; rw [evalNames_congr ρ ρ' e h]
  | .or l r, h => by
    simp only [LogicalSExpr.uniqueVariables, List.mem_append] at h
    simp only [LogicalSExpr.evalNames]
    rw [evalNames_congr ρ ρ' l (fun x hx => h x (Or.inl hx)), evalNames_congr ρ ρ' r (fun x hx => h x (Or.inr hx))]
  | .and l r, h => by
    simp only [LogicalSExpr.uniqueVariables, List.mem_append] at h
    simp only [LogicalSExpr.evalNames]
    rw [evalNames_congr ρ ρ' l (fun x hx => h x (Or.inl hx)), evalNames_congr ρ ρ' r (fun x hx => h x (Or.inr hx))]
  | .iff l r, h => by
    simp only [LogicalSExpr.uniqueVariables, List.mem_append] at h
    simp only [LogicalSExpr.evalNames]
    rw [evalNames_congr ρ ρ' l (fun x hx => h x (Or.inl hx)), evalNames_congr ρ ρ' r (fun x hx => h x (Or.inr hx))]
  | .xor l r, h => by
    simp only [LogicalSExpr.uniqueVariables, List.mem_append] at h
    simp only [LogicalSExpr.evalNames]
    rw [evalNames_congr ρ ρ' l (fun x hx => h x (Or.inl hx)), evalNames_congr ρ ρ' r (fun x hx => h x (Or.inr hx))]
  | .ite g t e, h => by
    simp only [LogicalSExpr.uniqueVariables, List.mem_append] at h
    simp only [LogicalSExpr.evalNames]
    rw [evalNames_congr ρ ρ' g (fun x hx => h x (Or.inl (Or.inl hx))),
      evalNames_congr ρ ρ' t (fun x hx => h x (Or.inl (Or.inr hx))),
      evalNames_congr ρ ρ' e (fun x hx => h x (Or.inr hx))]


/-! ## SDD tables -/

theorem any_congr' {α : Type} {l : List α} {f g : α → Bool} (h : ∀ x ∈ l, f x = g x) :
    l.any f = l.any g := by
  induction l with
  | nil => rfl
  | cons x r ih =>
    simp only [List.any_cons, h x List.mem_cons_self,
      ih (fun y hy => h y (List.mem_cons_of_mem _ hy))]

def SPtrLt : SerSddPtr → Nat → Prop
  | .ptr j _, n => j < n
  | _, _ => True

theorem SPtrLt.mono {p : SerSddPtr} {n m : Nat} (h : SPtrLt p n) (hnm : n ≤ m) : SPtrLt p m := by
  cases p <;> simp_all [SPtrLt]; omega

def SWf (nodes : Array SddOr) : Prop :=
  ∀ i o, nodes[i]? = some o → ∀ e ∈ o, SPtrLt e.prime i ∧ SPtrLt e.sub i

def SPrefix (nodes nodes' : Array SddOr) : Prop :=
  nodes.size ≤ nodes'.size ∧ ∀ i, i < nodes.size → nodes'[i]? = nodes[i]?

theorem SPrefix.refl (nodes : Array SddOr) : SPrefix nodes nodes := ⟨Nat.le_refl _, fun _ _ => rfl⟩

theorem SPrefix.trans {a b c : Array SddOr} (h1 : SPrefix a b) (h2 : SPrefix b c) : SPrefix a c :=
  ⟨Nat.le_trans h1.1 h2.1, fun i hi => by rw [h2.2 i (Nat.lt_of_lt_of_le hi h1.1), h1.2 i hi]⟩

theorem SPrefix.push (nodes : Array SddOr) (n : SddOr) : SPrefix nodes (nodes.push n) :=
  ⟨by simp, fun i hi => by
    rw [Array.getElem?_push]; split
    · omega
    · rfl⟩

theorem evalSddPtr_prefix {nodes nodes' : Array SddOr} (a : Assign) (hw : SWf nodes)
    (hp : SPrefix nodes nodes') :
    ∀ (fuel : Nat) (p : SerSddPtr), SPtrLt p nodes.size →
      evalSddPtr nodes' a fuel p = evalSddPtr nodes a fuel p
  | _, .tru, _ => by simp [evalSddPtr]
  | _, .fls, _ => by simp [evalSddPtr]
  | _, .lit _ _, _ => by simp [evalSddPtr]
  | 0, .ptr _ _, _ => by simp [evalSddPtr]
  | fuel + 1, .ptr i c, h => by
    have hi : i < nodes.size := h
    simp only [evalSddPtr, hp.2 i hi]
    cases hn : nodes[i]? with
    | none => rfl
    | some o =>
      simp only
      congr 1
      apply any_congr'
      intro e he
      obtain ⟨h1, h2⟩ := hw i o hn e he
      rw [evalSddPtr_prefix a hw hp fuel e.prime (h1.mono (Nat.le_of_lt hi)),
          evalSddPtr_prefix a hw hp fuel e.sub (h2.mono (Nat.le_of_lt hi))]

def SDenotes (nodes : Array SddOr) (a : Assign) (p : SerSddPtr) (d : Sdd.Ptr) : Prop :=
  SPtrLt p nodes.size ∧ ∀ fuel, SPtrLt p fuel → evalSddPtr nodes a fuel p = d.eval a

theorem SDenotes.ext {nodes nodes' : Array SddOr} {a : Assign} {p : SerSddPtr} {d : Sdd.Ptr}
    (h : SDenotes nodes a p d) (hw : SWf nodes) (hp : SPrefix nodes nodes') :
    SDenotes nodes' a p d :=
  ⟨h.1.mono hp.1, fun fuel hf => by rw [evalSddPtr_prefix a hw hp fuel p h.1]; exact h.2 fuel hf⟩

theorem SDenotes.flip {nodes : Array SddOr} {a : Assign} {i : Nat} {k d : Sdd.Ptr} {c : Bool}
    (h : SDenotes nodes a (.ptr i false) k) (he : d.eval a = xor c (k.eval a)) :
    SDenotes nodes a (.ptr i c) d := by
  refine ⟨h.1, fun fuel hf => ?_⟩
  have h2 := h.2 fuel hf
  cases fuel with
  | zero => exact absurd hf (by simp [SPtrLt])
  | succ f =>
    simp only [evalSddPtr] at h2 ⊢
    cases hn : nodes[i]? with
    | none =>
      have : i < nodes.size := h.1
      simp at hn; omega
    | some o =>
      rw [hn] at h2; simp only [Bool.false_bne] at h2
      simp only [h2, he]

/-- the elements of a serialised node denote, one by one, the elements of the decision node -/
inductive ElemsDenote (nodes : Array SddOr) (a : Assign) :
    SddOr → List (Sdd.Ptr × Sdd.Ptr) → Prop where
  | nil : ElemsDenote nodes a [] []
  | cons {e : SddAnd} {p s : Sdd.Ptr} {o : SddOr} {es : List (Sdd.Ptr × Sdd.Ptr)} :
      SDenotes nodes a e.prime p → SDenotes nodes a e.sub s → ElemsDenote nodes a o es →
      ElemsDenote nodes a (e :: o) ((p, s) :: es)

theorem ElemsDenote.ext {nodes nodes' : Array SddOr} {a : Assign} {o : SddOr}
    {es : List (Sdd.Ptr × Sdd.Ptr)} (h : ElemsDenote nodes a o es) (hw : SWf nodes)
    (hp : SPrefix nodes nodes') : ElemsDenote nodes' a o es := by
  induction h with
  | nil => exact .nil
  | cons h1 h2 _ ih => exact .cons (h1.ext hw hp) (h2.ext hw hp) ih

theorem ElemsDenote.lt {nodes : Array SddOr} {a : Assign} {o : SddOr}
    {es : List (Sdd.Ptr × Sdd.Ptr)} (h : ElemsDenote nodes a o es) :
    ∀ e ∈ o, SPtrLt e.prime nodes.size ∧ SPtrLt e.sub nodes.size := by
  induction h with
  | nil => intro e he; simp at he
  | cons h1 h2 _ ih =>
    intro e he
    rcases List.mem_cons.mp he with rfl | he
    · exact ⟨h1.1, h2.1⟩
    · exact ih e he

theorem ElemsDenote.eval {nodes nodes' : Array SddOr} {a : Assign} {o : SddOr}
    {es : List (Sdd.Ptr × Sdd.Ptr)} (h : ElemsDenote nodes a o es) (hw : SWf nodes)
    (hp : SPrefix nodes nodes') (f : Nat) (hf : nodes.size ≤ f) :
    (o.any fun e => evalSddPtr nodes' a f e.prime && evalSddPtr nodes' a f e.sub) =
      Sdd.evalElems a es := by
  induction h with
  | nil => simp [Sdd.evalElems]
  | @cons e p s o' es' h1 h2 _ ih =>
    simp only [List.any_cons, Sdd.evalElems, ih]
    rw [evalSddPtr_prefix a hw hp f e.prime h1.1, evalSddPtr_prefix a hw hp f e.sub h2.1,
        h1.2 f (h1.1.mono hf), h2.2 f (h2.1.mono hf)]

structure SInv (a : Assign) (s : SddSt) : Prop where
  wf : SWf s.nodes
  tbl : ∀ k idx, (k, idx) ∈ s.table → SDenotes s.nodes a (.ptr idx false) k

theorem ite_as_or (b h l : Bool) : (if b then h else l) = ((b && h) || ((!b && l) || false)) := by
  cases b <;> simp

mutual
theorem serSddAux_correct (a : Assign) :
    ∀ (d : Sdd.Ptr) (s : SddSt), SInv a s →
      SInv a (serSddAux d s).2 ∧ SPrefix s.nodes (serSddAux d s).2.nodes ∧
      SDenotes (serSddAux d s).2.nodes a (serSddAux d s).1 d
  | .tru, s, hs => by
    simp only [serSddAux]
    exact ⟨hs, SPrefix.refl _, trivial, fun _ _ => by simp [evalSddPtr, Sdd.Ptr.eval]⟩
  | .fls, s, hs => by
    simp only [serSddAux]
    exact ⟨hs, SPrefix.refl _, trivial, fun _ _ => by simp [evalSddPtr, Sdd.Ptr.eval]⟩
  | .lit v p, s, hs => by
    simp only [serSddAux]
    exact ⟨hs, SPrefix.refl _, trivial, fun _ _ => by simp [evalSddPtr, Sdd.Ptr.eval]⟩
  | .bdd c l i lo hi, s, hs => by
    simp only [serSddAux]
    cases hg : assocGet s.table (.bdd false l i lo hi) with
    | some idx =>
      simp only
      exact ⟨hs, SPrefix.refl _,
        (hs.tbl _ _ (assocGet_mem _ _ _ hg)).flip (by simp [Sdd.Ptr.eval])⟩
    | none =>
      simp only
      obtain ⟨i1, p1, d1⟩ := serSddAux_correct a lo s hs
      obtain ⟨i2, p2, d2⟩ := serSddAux_correct a hi (serSddAux lo s).2 i1
      generalize (serSddAux lo s).1 = lp at *
      generalize (serSddAux lo s).2 = s1 at *
      generalize (serSddAux hi s1).1 = hp at *
      generalize (serSddAux hi s1).2 = s2 at *
      have d1' : SDenotes s2.nodes a lp lo := d1.ext i1.wf p2
      let o : SddOr := [⟨.lit l true, hp⟩, ⟨.lit l false, lp⟩]
      have hpush := SPrefix.push s2.nodes o
      have hwf : SWf (s2.nodes.push o) := by
        intro j n hn
        rw [Array.getElem?_push] at hn
        split at hn
        · cases hn; subst_vars
          intro e he
          simp only [o, List.mem_cons, List.not_mem_nil, or_false] at he
          rcases he with rfl | rfl
          · exact ⟨trivial, d2.1⟩
          · exact ⟨trivial, d1'.1⟩
        · exact i2.wf j n hn
      have hnew : SDenotes (s2.nodes.push o) a (.ptr s2.nodes.size false)
          (.bdd false l i lo hi) := by
        refine ⟨by simp [SPtrLt], fun fuel hf => ?_⟩
        cases fuel with
        | zero => exact absurd hf (by simp [SPtrLt])
        | succ f =>
          have hf' : s2.nodes.size ≤ f := Nat.le_of_lt_succ hf
          simp only [evalSddPtr, Array.getElem?_push, if_true, Sdd.Ptr.eval, Bool.false_bne, o,
            List.any_cons, List.any_nil]
          rw [evalSddPtr_prefix a i2.wf hpush f hp d2.1, evalSddPtr_prefix a i2.wf hpush f lp d1'.1,
              d2.2 f (d2.1.mono hf'), d1'.2 f (d1'.1.mono hf')]
          exact (ite_as_or _ _ _).symm
      refine ⟨⟨hwf, ?_⟩, p1.trans (p2.trans hpush), hnew.flip (by simp [Sdd.Ptr.eval])⟩
      intro k idx hm
      rcases List.mem_cons.mp hm with he | hm'
      · cases he; exact hnew
      · exact (i2.tbl k idx hm').ext i2.wf hpush
  | .dec c i es, s, hs => by
    simp only [serSddAux]
    cases hg : assocGet s.table (.dec false i es) with
    | some idx =>
      simp only
      exact ⟨hs, SPrefix.refl _,
        (hs.tbl _ _ (assocGet_mem _ _ _ hg)).flip (by simp [Sdd.Ptr.eval])⟩
    | none =>
      simp only
      obtain ⟨i1, p1, d1⟩ := serSddElems_correct a es s hs
      generalize (serSddElems es s).1 = o at *
      generalize (serSddElems es s).2 = s1 at *
      have hpush := SPrefix.push s1.nodes o
      have hwf : SWf (s1.nodes.push o) := by
        intro j n hn
        rw [Array.getElem?_push] at hn
        split at hn
        · cases hn; subst_vars; exact d1.lt
        · exact i1.wf j n hn
      have hnew : SDenotes (s1.nodes.push o) a (.ptr s1.nodes.size false) (.dec false i es) := by
        refine ⟨by simp [SPtrLt], fun fuel hf => ?_⟩
        cases fuel with
        | zero => exact absurd hf (by simp [SPtrLt])
        | succ f =>
          have hf' : s1.nodes.size ≤ f := Nat.le_of_lt_succ hf
          simp only [evalSddPtr, Array.getElem?_push, if_true, Sdd.Ptr.eval, Bool.false_bne]
          exact d1.eval i1.wf hpush f hf'
      refine ⟨⟨hwf, ?_⟩, p1.trans hpush, hnew.flip (by simp [Sdd.Ptr.eval])⟩
      intro k idx hm
      rcases List.mem_cons.mp hm with he | hm'
      · cases he; exact hnew
      · exact (i1.tbl k idx hm').ext i1.wf hpush
theorem serSddElems_correct (a : Assign) :
    ∀ (es : List (Sdd.Ptr × Sdd.Ptr)) (s : SddSt), SInv a s →
      SInv a (serSddElems es s).2 ∧ SPrefix s.nodes (serSddElems es s).2.nodes ∧
      ElemsDenote (serSddElems es s).2.nodes a (serSddElems es s).1 es
  | [], s, hs => by
    simp only [serSddElems]
    exact ⟨hs, SPrefix.refl _, .nil⟩
  | (p, sub) :: rest, s, hs => by
    simp only [serSddElems]
    obtain ⟨i1, p1, d1⟩ := serSddAux_correct a p s hs
    obtain ⟨i2, p2, d2⟩ := serSddAux_correct a sub (serSddAux p s).2 i1
    obtain ⟨i3, p3, d3⟩ := serSddElems_correct a rest (serSddAux sub (serSddAux p s).2).2 i2
    generalize (serSddAux p s).1 = pp at *
    generalize (serSddAux p s).2 = s1 at *
    generalize (serSddAux sub s1).1 = sp at *
    generalize (serSddAux sub s1).2 = s2 at *
    generalize (serSddElems rest s2).1 = r at *
    generalize (serSddElems rest s2).2 = s3 at *
    exact ⟨i3, p1.trans (p2.trans p3),
      .cons ((d1.ext i1.wf p2).ext i2.wf p3) (d2.ext i2.wf p3) d3⟩
end

theorem SInv.init (a : Assign) : SInv a ⟨#[], []⟩ :=
  ⟨fun i n h => by simp at h, fun k idx h => by simp at h⟩

/-- **the table `from_sdd` produces, read naively from its root, is the diagram's function** -/
theorem serSdd_eval (d : Sdd.Ptr) (a : Assign) :
    ∃ r, (serSdd d).roots = [r] ∧ evalSddTable (serSdd d) r a = d.eval a := by
  obtain ⟨_, _, hd⟩ := serSddAux_correct a d ⟨#[], []⟩ (SInv.init a)
  exact ⟨(serSddAux d ⟨#[], []⟩).1, rfl, hd.2 _ hd.1⟩

theorem serSdd_wf (d : Sdd.Ptr) : SWf (serSdd d).nodes :=
  (serSddAux_correct (fun _ => false) d ⟨#[], []⟩ (SInv.init _)).1.wf

/-! ## vtrees -/

theorem treeOfVtreeTable_serVtree : ∀ (t : Sdd.VTree), treeOfVtreeTable (serVtree t) = t
  | .leaf v => rfl
  | .node l r => by
    simp [serVtree, treeOfVtreeTable, treeOfVtreeTable_serVtree l, treeOfVtreeTable_serVtree r]

theorem serVtree_treeOfVtreeTable : ∀ (t : SerVTree), serVtree (treeOfVtreeTable t) = t
  | .leaf v => rfl
  | .node l r => by
    simp [serVtree, treeOfVtreeTable, serVtree_treeOfVtreeTable l, serVtree_treeOfVtreeTable r]

end Ser
