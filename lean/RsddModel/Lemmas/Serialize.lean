import RsddModel.Model.Serialize
/-!
# Lemmas for C17: serialisers and table evaluators, DIMACS round trip, s-expressions
-/
namespace Ser
open Spec

/-! ## association lists -/

theorem assocGet_mem {κ : Type} [DecidableEq κ] :
    ∀ (t : List (κ × Nat)) (k : κ) (v : Nat), assocGet t k = some v → (k, v) ∈ t
  | [], _, _, h => by simp [assocGet] at h
  | (k', v') :: rest, k, v, h => by
    simp only [assocGet] at h
    split at h
    · cases h; subst_vars; exact List.mem_cons_self
    · exact List.mem_cons_of_mem _ (assocGet_mem rest k v h)

/-! ## BDD tables -/

/-- a pointer refers below `n` -/
def BPtrLt : SerBddPtr → Nat → Prop
  | .ptr j _, n => j < n
  | _, _ => True

theorem BPtrLt.mono {p : SerBddPtr} {n m : Nat} (h : BPtrLt p n) (hnm : n ≤ m) : BPtrLt p m := by
  cases p <;> simp_all [BPtrLt]; omega

/-- children refer to strictly smaller indices (post order) -/
def BWf (nodes : Array SerBdd) : Prop :=
  ∀ i n, nodes[i]? = some n → BPtrLt n.low i ∧ BPtrLt n.high i

/-- `nodes` is an initial segment of `nodes'` -/
def BPrefix (nodes nodes' : Array SerBdd) : Prop :=
  nodes.size ≤ nodes'.size ∧ ∀ i, i < nodes.size → nodes'[i]? = nodes[i]?

theorem BPrefix.refl (nodes : Array SerBdd) : BPrefix nodes nodes := ⟨Nat.le_refl _, fun _ _ => rfl⟩

theorem BPrefix.trans {a b c : Array SerBdd} (h1 : BPrefix a b) (h2 : BPrefix b c) : BPrefix a c :=
  ⟨Nat.le_trans h1.1 h2.1, fun i hi => by rw [h2.2 i (Nat.lt_of_lt_of_le hi h1.1), h1.2 i hi]⟩

theorem BPrefix.push (nodes : Array SerBdd) (n : SerBdd) : BPrefix nodes (nodes.push n) :=
  ⟨by simp, fun i hi => by
    rw [Array.getElem?_push]; split
    · omega
    · rfl⟩

/-- evaluation below the old size does not see appended nodes -/
theorem evalBddPtr_prefix {nodes nodes' : Array SerBdd} (a : Assign) (hw : BWf nodes)
    (hp : BPrefix nodes nodes') :
    ∀ (fuel : Nat) (p : SerBddPtr), BPtrLt p nodes.size →
      evalBddPtr nodes' a fuel p = evalBddPtr nodes a fuel p
  | _, .tru, _ => by simp [evalBddPtr]
  | _, .fls, _ => by simp [evalBddPtr]
  | 0, .ptr _ _, _ => by simp [evalBddPtr]
  | fuel + 1, .ptr i c, h => by
    have hi : i < nodes.size := h
    simp only [evalBddPtr, hp.2 i hi]
    cases hn : nodes[i]? with
    | none => rfl
    | some n =>
      obtain ⟨hl, hh⟩ := hw i n hn
      simp only
      rw [evalBddPtr_prefix a hw hp fuel n.high (hh.mono (Nat.le_of_lt hi)),
          evalBddPtr_prefix a hw hp fuel n.low (hl.mono (Nat.le_of_lt hi))]

/-- `p` denotes `d` in the table: it is in range and every sufficient fuel reads `d` -/
def BDenotes (nodes : Array SerBdd) (a : Assign) (p : SerBddPtr) (d : Bdd.Ptr) : Prop :=
  BPtrLt p nodes.size ∧ ∀ fuel, BPtrLt p fuel → evalBddPtr nodes a fuel p = d.eval a

theorem BDenotes.ext {nodes nodes' : Array SerBdd} {a : Assign} {p : SerBddPtr} {d : Bdd.Ptr}
    (h : BDenotes nodes a p d) (hw : BWf nodes) (hp : BPrefix nodes nodes') :
    BDenotes nodes' a p d :=
  ⟨h.1.mono hp.1, fun fuel hf => by rw [evalBddPtr_prefix a hw hp fuel p h.1]; exact h.2 fuel hf⟩

/-- the complement flag of a pointer negates -/
theorem BDenotes.flip {nodes : Array SerBdd} {a : Assign} {i : Nat} {v : Nat} {lo hi : Bdd.Ptr}
    (h : BDenotes nodes a (.ptr i false) (.node false v lo hi)) (c : Bool) :
    BDenotes nodes a (.ptr i c) (.node c v lo hi) := by
  refine ⟨h.1, fun fuel hf => ?_⟩
  have h2 := h.2 fuel hf
  cases fuel with
  | zero => exact absurd hf (by simp [BPtrLt])
  | succ f =>
    simp only [evalBddPtr, Bdd.Ptr.eval] at h2 ⊢
    cases hn : nodes[i]? with
    | none =>
      have : i < nodes.size := h.1
      simp [Array.getElem?_eq_none_iff] at hn; omega
    | some n =>
      rw [hn] at h2; simp only [Bool.false_bne] at h2
      simp only [h2]

/-- invariant of the serialiser state -/
structure BInv (a : Assign) (s : BddSt) : Prop where
  wf : BWf s.nodes
  tbl : ∀ k idx, (k, idx) ∈ s.table →
    ∃ v lo hi, k = .node false v lo hi ∧ BDenotes s.nodes a (.ptr idx false) k

theorem serBddAux_correct (a : Assign) :
    ∀ (d : Bdd.Ptr) (s : BddSt), BInv a s →
      BInv a (serBddAux d s).2 ∧ BPrefix s.nodes (serBddAux d s).2.nodes ∧
      BDenotes (serBddAux d s).2.nodes a (serBddAux d s).1 d
  | .tru, s, hs => by
    simp only [serBddAux]
    exact ⟨hs, BPrefix.refl _, trivial, fun _ _ => by simp [evalBddPtr, Bdd.Ptr.eval]⟩
  | .fls, s, hs => by
    simp only [serBddAux]
    exact ⟨hs, BPrefix.refl _, trivial, fun _ _ => by simp [evalBddPtr, Bdd.Ptr.eval]⟩
  | .node c v lo hi, s, hs => by
    simp only [serBddAux]
    cases hg : assocGet s.table (.node false v lo hi) with
    | some i =>
      simp only
      obtain ⟨v', lo', hi', hk, hd⟩ := hs.tbl _ _ (assocGet_mem _ _ _ hg)
      cases hk
      exact ⟨hs, BPrefix.refl _, hd.flip c⟩
    | none =>
      simp only
      obtain ⟨i1, p1, d1⟩ := serBddAux_correct a lo s hs
      obtain ⟨i2, p2, d2⟩ := serBddAux_correct a hi (serBddAux lo s).2 i1
      generalize (serBddAux lo s).1 = l at *
      generalize (serBddAux lo s).2 = s1 at *
      generalize (serBddAux hi s1).1 = h at *
      generalize (serBddAux hi s1).2 = s2 at *
      have d1' : BDenotes s2.nodes a l lo := d1.ext i1.wf p2
      have hpush := BPrefix.push s2.nodes ⟨v, l, h⟩
      have hwf : BWf (s2.nodes.push ⟨v, l, h⟩) := by
        intro i n hn
        rw [Array.getElem?_push] at hn
        split at hn
        · cases hn; subst_vars; exact ⟨d1'.1, d2.1⟩
        · exact i2.wf i n hn
      have hnew : BDenotes (s2.nodes.push ⟨v, l, h⟩) a (.ptr s2.nodes.size false)
          (.node false v lo hi) := by
        refine ⟨by simp [BPtrLt], fun fuel hf => ?_⟩
        cases fuel with
        | zero => exact absurd hf (by simp [BPtrLt])
        | succ f =>
          have hf' : s2.nodes.size ≤ f := Nat.le_of_lt_succ hf
          simp only [evalBddPtr, Array.getElem?_push, if_true, Bdd.Ptr.eval, Bool.false_bne]
          rw [evalBddPtr_prefix a i2.wf hpush f h d2.1, evalBddPtr_prefix a i2.wf hpush f l d1'.1,
              d2.2 f (d2.1.mono hf'), d1'.2 f (d1'.1.mono hf')]
      refine ⟨⟨hwf, ?_⟩, p1.trans (p2.trans hpush), hnew.flip c⟩
      intro k idx hm
      rcases List.mem_cons.mp hm with he | hm'
      · cases he; exact ⟨v, lo, hi, rfl, hnew⟩
      · obtain ⟨v', lo', hi', hk, hd⟩ := i2.tbl k idx hm'
        exact ⟨v', lo', hi', hk, hd.ext i2.wf hpush⟩

theorem BInv.init (a : Assign) : BInv a ⟨#[], []⟩ :=
  ⟨fun i n h => by simp at h, fun k idx h => by simp at h⟩

/-- **the table `from_bdd` produces, read naively from its root, is the diagram's function** -/
theorem serBdd_eval (d : Bdd.Ptr) (a : Assign) :
    ∃ r, (serBdd d).roots = [r] ∧ evalBddTable (serBdd d) r a = d.eval a := by
  obtain ⟨_, _, hd⟩ := serBddAux_correct a d ⟨#[], []⟩ (BInv.init a)
  exact ⟨(serBddAux d ⟨#[], []⟩).1, rfl, hd.2 _ hd.1⟩

/-- the table is in post order: children have smaller indices -/
theorem serBdd_wf (d : Bdd.Ptr) : BWf (serBdd d).nodes :=
  (serBddAux_correct (fun _ => false) d ⟨#[], []⟩ (BInv.init _)).1.wf

end Ser
