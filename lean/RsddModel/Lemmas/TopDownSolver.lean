import RsddModel.Lemmas.TopDown
/-!
# Lemmas: the solver specification and the correctness of `topdownH` / `compileTopdown`

`SolverSpec cnf S` lists what the compiler needs from a `SATSolver`, phrased over an abstract
view of the state stack (`frames`: one `(model, hash, sat-flag)` per pushed state, top first)
and a validity predicate `Inv`.  Two further hypotheses are kept separate because they are
about the *hash* and hold for the real solver only conditionally / by a finer argument:

* `HashSound`  — equal cache keys ⇒ equal residual formulas (fails on `u128` wrap-around; for the
  real solver it holds of the NON-tautological clauses only, which is why `NewSpec` and
  `compileTopdown_post` distinguish the clause list `cnf0` the solver is built on from the clause
  list `cnf` the specification talks about);
* `FreeDecide` — deciding an unassigned variable that does not occur in the residual formula
  propagates nothing and leaves hash and sat-flag unchanged.  This is what guarantees that a
  diagram put into the cache only tests variables of the residual, hence only variables that
  are unassigned under *every* model with the same cache key (see `GoodM.transfer`).
-/
namespace TopDown
open Spec Bdd

/-- abstract view of one `SatState` -/
structure Frame (κ : Type) where
  model : PModel
  hash : κ
  sat : Bool

/-- what `topdown_h` needs from the solver.

Three points are deliberately weak, because the real `SATSolver` does not satisfy more
(witnesses in `Lemmas/UpSolverSpec.lean`): `decide` is only specified for the variables in `Var`
(labels in range: the Rust code indexes vectors with the label); `pop` is only specified for a
state above the two-frame stack of `SATSolver::new` (below it sits the dummy bottom state, on
which the propagator is not a sound solver: unit clauses are not watched); and the clause list
`cnf` of the specification need not be the one the solver was built on (see `NewSpec`). -/
structure SolverSpec (cnf : Cnf) (S : Solver) where
  /-- validity of a concrete state (watch-list invariants etc.) -/
  Inv : S.σ → Prop
  /-- the state stack, top first -/
  frames : S.σ → List (Frame S.κ)
  /-- the variables that may be decided (labels in range) -/
  Var : Nat → Prop
  /-- the observers read the top frame -/
  obs_sat : ∀ s f rest, Inv s → frames s = f :: rest → S.isSat s = f.sat
  obs_hash : ∀ s f rest, Inv s → frames s = f :: rest → S.curHash s = f.hash
  obs_set : ∀ s f rest, Inv s → frames s = f :: rest → ∀ v, S.isSet s v = (f.model v).isSome
  /-- (d) `is_sat` ⇒ the formula is true on every extension of the model -/
  sat_sound : ∀ s f rest, Inv s → frames s = f :: rest → f.sat = true →
    ∀ a, Extends a f.model → cnfSat a cnf = true
  /-- (c) a valid state that assigns every variable of the formula satisfies it -/
  total_sound : ∀ s f rest, Inv s → frames s = f :: rest → (∀ v, InCnf cnf v → f.model v ≠ none) →
    ∀ a, Extends a f.model → cnfSat a cnf = true
  /-- `difference_iter` lists exactly the literals of the top model that the model below it
  does not assign, each once -/
  diff_nodup : ∀ s f1 f0 rest, Inv s → frames s = f1 :: f0 :: rest →
    ((S.difference s).map (·.var)).Nodup
  diff_sound : ∀ s f1 f0 rest, Inv s → frames s = f1 :: f0 :: rest →
    ∀ l ∈ S.difference s, f0.model l.var = none ∧ f1.model l.var = some l.pol
  diff_complete : ∀ s f1 f0 rest, Inv s → frames s = f1 :: f0 :: rest →
    ∀ v b, f1.model v = some b → f0.model v = none → (⟨v, b⟩ : Lit) ∈ S.difference s
  /-- (b) `decide` = UNSAT: nothing is pushed, and no extension of model + literal is a model -/
  decide_unsat : ∀ s f0 rest l, Inv s → frames s = f0 :: rest → Var l.var → f0.model l.var = none →
    (S.decide s l).1 = .unsat →
    Inv (S.decide s l).2 ∧ frames (S.decide s l).2 = f0 :: rest ∧
    UnsatUnder cnf (f0.model.set l.var l.pol)
  /-- (a) `decide` ≠ UNSAT: one frame is pushed; its model extends model + literal; every newly
  assigned literal is entailed and (other than the decision) occurs in the residual formula;
  the result is SAT exactly when the new sat-flag is set -/
  decide_ok : ∀ s f0 rest l, Inv s → frames s = f0 :: rest → Var l.var → f0.model l.var = none →
    (S.decide s l).1 ≠ .unsat →
    ∃ f1, Inv (S.decide s l).2 ∧ frames (S.decide s l).2 = f1 :: f0 :: rest ∧
      PExt (f0.model.set l.var l.pol) f1.model ∧
      (∀ v b, f1.model v = some b → f0.model v = none →
        Entails cnf (f0.model.set l.var l.pol) ⟨v, b⟩) ∧
      (∀ v, f1.model v ≠ none → f0.model v = none → v = l.var ∨ InCnf (residual cnf f0.model) v) ∧
      ((S.decide s l).1 = .sat ↔ f1.sat = true)
  /-- (e) `pop` of a state pushed by `decide` removes the top frame and leaves a valid state -/
  pop_ok : ∀ s f1 f0 rest, Inv s → frames s = f1 :: f0 :: rest → rest ≠ [] →
    Inv (S.pop s) ∧ frames (S.pop s) = f0 :: rest

variable {cnf : Cnf} {S : Solver}

/-- the partial model of the top state -/
def SolverSpec.modelOf (spec : SolverSpec cnf S) (s : S.σ) : PModel :=
  match spec.frames s with
  | f :: _ => f.model
  | [] => PModel.empty

theorem SolverSpec.modelOf_eq (spec : SolverSpec cnf S) {s : S.σ} {f : Frame S.κ} {rest}
    (h : spec.frames s = f :: rest) : spec.modelOf s = f.model := by
  simp [SolverSpec.modelOf, h]

/-- (f) cache-key soundness, the hash clause: equal keys ⇒ equal residual formulas -/
def HashSound (spec : SolverSpec cnf S) : Prop :=
  ∀ s1 s2, spec.Inv s1 → spec.Inv s2 → S.curHash s1 = S.curHash s2 →
    residual cnf (spec.modelOf s1) = residual cnf (spec.modelOf s2)

/-- ADDED hypothesis: deciding an unassigned variable (in range) that does not occur in the residual
formula is never UNSAT, assigns only that variable, and keeps the hash and the sat-flag.
Only required of states with at least two frames (the bottom frame of `SATSolver::new` is the
empty model, which is not closed under unit propagation). -/
def FreeDecide (spec : SolverSpec cnf S) : Prop :=
  ∀ s f0 rest v b, spec.Inv s → spec.frames s = f0 :: rest → rest ≠ [] → spec.Var v → f0.model v = none →
    ¬ InCnf (residual cnf f0.model) v →
    (S.decide s ⟨v, b⟩).1 ≠ .unsat ∧
    ∀ f1 rest', spec.frames (S.decide s ⟨v, b⟩).2 = f1 :: rest' →
      f1.model = f0.model.set v b ∧ f1.hash = f0.hash ∧ f1.sat = f0.sat

/-! ## one branch of a decision -/

/-- what one `decide` block of `topdown_h` returns for the decision `v := b` under model `m` -/
structure BranchGood (cnf : Cnf) (m : PModel) (v : Nat) (b : Bool) (r : Ptr) : Prop where
  sem : ∀ a, Extends a (m.set v b) → r.eval a = cnfSat a cnf
  free : r.free
  vars : ∀ x ∈ r.vars, InCnf (residual cnf m) x ∧ x ≠ v
  nonfalse : r ≠ .fls → ∃ a, Extends a (m.set v b) ∧ r.eval a = true

theorem Extends_set {a : Assign} {m : PModel} {v : Nat} {b : Bool} (ha : Extends a m) (hv : a v = b) :
    Extends a (m.set v b) := by
  intro x c hx
  by_cases e : x = v
  · subst e; simp [PModel.set] at hx; rw [← hx]; exact hv
  · simp [PModel.set, e] at hx; exact ha x c hx

/-- assignments that satisfy the formula and the decision satisfy everything propagated -/
theorem ext_of_sat {m m1 : PModel} {v : Nat} {b : Bool}
    (hext : PExt (m.set v b) m1)
    (hent : ∀ x c, m1 x = some c → m x = none → Entails cnf (m.set v b) ⟨x, c⟩)
    {a : Assign} (ha : Extends a (m.set v b)) (hsat : cnfSat a cnf = true) : Extends a m1 := by
  intro x c hx
  cases hs : (m.set v b) x with
  | some c' =>
    have := hext x c' hs
    rw [hx] at this; cases this
    exact ha x c hs
  | none =>
    have hm : m x = none := by
      by_cases e : x = v
      · subst e; simp [PModel.set] at hs
      · simpa [PModel.set, e] using hs
    have := hent x c hx hm a ha hsat
    simpa [litSat] using this

section
variable (spec : SolverSpec cnf S) {NS : NodeStore} {inv : NS.τ → Prop} (hNS : NS.Sound inv)
include hNS

/-- `conjoin_implied(difference \ {v}, sub)` after a successful `decide(v := b)` -/
theorem chain_correct {v : Nat} {b : Bool} {f1 f0 : Frame S.κ} {rest : List (Frame S.κ)} {s2 : S.σ}
    {sub : Ptr} {t1 : NS.τ}
    (hI : spec.Inv s2) (hfr : spec.frames s2 = f1 :: f0 :: rest) (hv0 : f0.model v = none)
    (hext : PExt (f0.model.set v b) f1.model)
    (hent : ∀ x c, f1.model x = some c → f0.model x = none → Entails cnf (f0.model.set v b) ⟨x, c⟩)
    (hrel : ∀ x, f1.model x ≠ none → f0.model x = none → x = v ∨ InCnf (residual cnf f0.model) x)
    (hsub : GoodM cnf f1.model sub) (ht : inv t1) :
    BranchGood cnf f0.model v b
      (conjoinImplied NS t1 ((S.difference s2).filter (fun x => x.var != v)) sub).1 ∧
    inv (conjoinImplied NS t1 ((S.difference s2).filter (fun x => x.var != v)) sub).2 := by
  have hv1 : f1.model v = some b := hext v b (by simp [PModel.set])
  have h01 : PExt f0.model f1.model := (PExt_set b hv0).trans hext
  unfold conjoinImplied
  split
  · -- the false constant
    rename_i hfalse
    have hsubf : sub = .fls := isFalse_iff.1 hfalse
    refine ⟨⟨?_, trivial, fun x hx => by simp [Ptr.vars] at hx, fun h => absurd rfl h⟩, ht⟩
    intro a ha
    cases hsat : cnfSat a cnf
    · rfl
    · have := hsub.sem a (ext_of_sat hext hent ha hsat)
      rw [hsubf, hsat] at this; exact this
  · rename_i hnf
    generalize hd : S.difference s2 = d
    have hnd := spec.diff_nodup s2 f1 f0 rest hI hfr
    have hds := spec.diff_sound s2 f1 f0 rest hI hfr
    have hdc := spec.diff_complete s2 f1 f0 rest hI hfr
    rw [hd] at hnd hds hdc
    have hlits : ∀ l ∈ d.filter (fun x => x.var != v), l ∈ d ∧ l.var ≠ v := by
      intro l hl
      simp only [List.mem_filter, bne_iff_ne, ne_eq] at hl
      exact hl
    have hnd' : ((d.filter (fun x => x.var != v)).map (·.var)).Nodup :=
      List.Nodup.sublist (List.Sublist.map _ List.filter_sublist) hnd
    have hns : ∀ l ∈ d.filter (fun x => x.var != v), l.var ∉ sub.vars := by
      intro l hl hx
      have h1 := residual_unset (hsub.vars _ hx)
      rw [(hds l (hlits l hl).1).2] at h1; cases h1
    obtain ⟨h1, h2, h3, h4⟩ := implyChain_spec hNS _ t1 sub ht hsub.free hnd' hns
    have hall : ∀ a, Extends a f1.model → (d.filter (fun x => x.var != v)).all (litSat a) = true := by
      intro a he
      rw [List.all_eq_true]
      intro l hl
      simp [litSat, he _ _ (hds l (hlits l hl).1).2]
    refine ⟨⟨?_, h4, ?_, ?_⟩, h1⟩
    rotate_left 2
    · intro _
      have hsubne : sub ≠ .fls := fun e => hnf (isFalse_iff.2 e)
      obtain ⟨a, ha, he⟩ := hsub.nonfalse hsubne
      exact ⟨a, Extends.of_PExt hext ha, by rw [h2, hall a ha, he]; rfl⟩
    · intro a ha
      rw [h2]
      by_cases he : Extends a f1.model
      · rw [hall a he, hsub.sem a he]; rfl
      · have hsat : cnfSat a cnf = false := by
          cases hsat : cnfSat a cnf
          · rfl
          · exact absurd (ext_of_sat hext hent ha hsat) he
        have : (d.filter (fun x => x.var != v)).all (litSat a) = false := by
          cases hall : (d.filter (fun x => x.var != v)).all (litSat a)
          · rfl
          · exfalso; apply he
            rw [List.all_eq_true] at hall
            intro x c hx
            cases hs : (f0.model.set v b) x with
            | some c' =>
              have := hext x c' hs
              rw [hx] at this; cases this
              exact ha x c hs
            | none =>
              have hxv : x ≠ v := by intro e; subst e; simp [PModel.set] at hs
              have hm : f0.model x = none := by simpa [PModel.set, hxv] using hs
              have hmem : (⟨x, c⟩ : Lit) ∈ d.filter (fun l => l.var != v) := by
                simp only [List.mem_filter, bne_iff_ne, ne_eq]
                exact ⟨hdc x c hx hm, hxv⟩
              simpa [litSat] using hall _ hmem
        rw [this, hsat]; rfl
    · intro x hx
      rcases h3 x hx with h | ⟨l, hl, e⟩
      · have hr := hsub.vars x h
        refine ⟨residual_mono h01 hr, ?_⟩
        intro e; subst e
        have := residual_unset hr
        rw [hv1] at this; cases this
      · subst e
        have hl' := hlits l hl
        have hs := hds l hl'.1
        rcases hrel l.var (by rw [hs.2]; simp) hs.1 with h | h
        · exact absurd h hl'.2
        · exact ⟨h, hl'.2⟩

/-- the two branches of a decision make a correct diagram -/
theorem node_good {m : PModel} {v : Nat} {hi lo : Ptr} (hv : m v = none)
    (hhi : BranchGood cnf m v true hi) (hlo : BranchGood cnf m v false lo) :
    (hi = lo → GoodM cnf m hi) ∧
    (hi ≠ lo → InCnf (residual cnf m) v → ∀ t, inv t → GoodM cnf m (NS.getOrInsert t v lo hi).1) := by
  constructor
  · intro e
    refine ⟨?_, hhi.free, fun x hx => (hhi.vars x hx).1, ?_⟩
    · intro a ha
      cases hav : a v
      · rw [e]; exact hlo.sem a (Extends_set ha hav)
      · exact hhi.sem a (Extends_set ha hav)
    · intro hne
      obtain ⟨a, ha, he⟩ := hhi.nonfalse hne
      exact ⟨a, Extends.of_PExt (PExt_set true hv) ha, he⟩
  · intro hne hrel t ht
    refine ⟨?_, ?_, ?_, ?_⟩
    · intro a ha
      rw [hNS.eval_eq t ht]
      simp only [Ptr.eval, Bool.false_xor]
      cases hav : a v
      · simp only [Bool.false_eq_true, if_false]; exact hlo.sem a (Extends_set ha hav)
      · simp only [if_true]; exact hhi.sem a (Extends_set ha hav)
    · apply hNS.free t ht
      exact ⟨fun h => (hlo.vars v h).2 rfl, fun h => (hhi.vars v h).2 rfl, hlo.free, hhi.free⟩
    · intro x hx
      have := hNS.vars_sub t ht _ _ _ x hx
      simp only [Ptr.vars, List.mem_cons, List.mem_append] at this
      rcases this with e | h | h
      · rw [e]; exact hrel
      · exact (hlo.vars x h).1
      · exact (hhi.vars x h).1
    · intro _
      by_cases hf : hi = .fls
      · have hlne : lo ≠ .fls := fun e => hne (hf.trans e.symm)
        obtain ⟨a, ha, he⟩ := hlo.nonfalse hlne
        have hav : a v = false := ha v false (by simp [PModel.set])
        refine ⟨a, Extends.of_PExt (PExt_set false hv) ha, ?_⟩
        rw [hNS.eval_eq t ht]; simp [Ptr.eval, hav, he]
      · obtain ⟨a, ha, he⟩ := hhi.nonfalse hf
        have hav : a v = true := ha v true (by simp [PModel.set])
        refine ⟨a, Extends.of_PExt (PExt_set true hv) ha, ?_⟩
        rw [hNS.eval_eq t ht]; simp [Ptr.eval, hav, he]

end

/-! ## the recursion -/

section
variable (spec : SolverSpec cnf S) {NS : NodeStore} (inv : NS.τ → Prop)

/-- the component-cache invariant: every entry is a correct diagram for some partial model
whose residual formula is the residual of every valid state with that key -/
def CacheOK (cache : Cache S.κ) : Prop :=
  ∀ k r, (k, r) ∈ cache → ∃ m0, GoodM cnf m0 r ∧
    ∀ s, spec.Inv s → S.curHash s = k → residual cnf (spec.modelOf s) = residual cnf m0

/-- post-condition of `topdown_h` called on a state whose frames are `f0 :: rest` -/
def Post (f0 : Frame S.κ) (rest : List (Frame S.κ)) (res : HRes S NS) : Prop :=
  GoodM cnf f0.model res.1 ∧ spec.Inv res.2.1 ∧ spec.frames res.2.1 = f0 :: rest ∧
  CacheOK spec res.2.2.1 ∧ inv res.2.2.2

theorem CacheOK_nil : CacheOK spec ([] : Cache S.κ) := fun _ _ h => by cases h

end

theorem conjoinImplied_nil (NS : NodeStore) (t : NS.τ) (sub : Ptr) : conjoinImplied NS t [] sub = (sub, t) := by
  unfold conjoinImplied
  split
  · rename_i h; rw [isFalse_iff.1 h]
  · rfl

section
variable (spec : SolverSpec cnf S) {NS : NodeStore} {inv : NS.τ → Prop} (hNS : NS.Sound inv)
include hNS

theorem branch_spec (recur : S.σ → Cache S.κ → NS.τ → HRes S NS) (v : Nat) (b : Bool)
    (s : S.σ) (cache : Cache S.κ) (t : NS.τ) (f0 : Frame S.κ) (rest : List (Frame S.κ))
    (hI : spec.Inv s) (hfr : spec.frames s = f0 :: rest) (hrest : rest ≠ []) (hvar : spec.Var v)
    (hv0 : f0.model v = none) (ht : inv t)
    (hc : CacheOK spec cache)
    (hrec : ∀ s' c' t' f' rest', spec.Inv s' → spec.frames s' = f' :: rest' → rest' ≠ [] → inv t' →
      CacheOK spec c' → PExt (f0.model.set v b) f'.model → Post spec inv f' rest' (recur s' c' t')) :
    BranchGood cnf f0.model v b (branch S NS recur s cache t ⟨v, b⟩).1 ∧
    spec.Inv (branch S NS recur s cache t ⟨v, b⟩).2.1 ∧
    spec.frames (branch S NS recur s cache t ⟨v, b⟩).2.1 = f0 :: rest ∧
    CacheOK spec (branch S NS recur s cache t ⟨v, b⟩).2.2.1 ∧
    inv (branch S NS recur s cache t ⟨v, b⟩).2.2.2 := by
  have hun := spec.decide_unsat s f0 rest ⟨v, b⟩ hI hfr hvar hv0
  have hok := spec.decide_ok s f0 rest ⟨v, b⟩ hI hfr hvar hv0
  unfold branch
  generalize S.decide s ⟨v, b⟩ = d at hun hok ⊢
  obtain ⟨tag, s1⟩ := d
  cases tag
  · -- SAT
    obtain ⟨f1, hI1, hfr1, hext, hent, hrel, hsat⟩ := hok (by simp)
    simp only at hI1 hfr1 hext hent hrel ⊢
    have hf1 : f1.sat = true := hsat.1 rfl
    have hsub : GoodM cnf f1.model .tru := GoodM.tru_of (spec.sat_sound s1 f1 _ hI1 hfr1 hf1)
    obtain ⟨hb, hi'⟩ := chain_correct spec hNS hI1 hfr1 hv0 hext hent hrel hsub ht
    obtain ⟨hp1, hp2⟩ := spec.pop_ok s1 f1 f0 rest hI1 hfr1 hrest
    exact ⟨hb, hp1, hp2, hc, hi'⟩
  · -- UNSAT
    obtain ⟨hI1, hfr1, huns⟩ := hun rfl
    simp only at hI1 hfr1 huns ⊢
    refine ⟨⟨fun a ha => (huns a ha).symm, trivial, fun x hx => by simp [Ptr.vars] at hx, fun h => absurd rfl h⟩,
      hI1, hfr1, hc, ht⟩
  · -- Unknown
    obtain ⟨f1, hI1, hfr1, hext, hent, hrel, _⟩ := hok (by simp)
    simp only at hI1 hfr1 hext hent hrel ⊢
    have hp := hrec s1 cache t f1 (f0 :: rest) hI1 hfr1 (List.cons_ne_nil _ _) ht hc hext
    generalize recur s1 cache t = res at hp ⊢
    obtain ⟨sub, s2, c1, t1⟩ := res
    obtain ⟨hsub, hI2, hfr2, hc1, ht1⟩ := hp
    simp only at hsub hI2 hfr2 hc1 ht1 ⊢
    obtain ⟨hb, hi'⟩ := chain_correct spec hNS hI2 hfr2 hv0 hext hent hrel hsub ht1
    obtain ⟨hp1, hp2⟩ := spec.pop_ok s2 f1 f0 rest hI2 hfr2 hrest
    exact ⟨hb, hp1, hp2, hc1, hi'⟩

omit hNS in
/-- a decision on a variable outside the residual formula: `branch` is just the recursive call -/
theorem branch_irrelevant (hfree : FreeDecide spec) (recur : S.σ → Cache S.κ → NS.τ → HRes S NS)
    (v : Nat) (b : Bool) (s : S.σ) (cache : Cache S.κ) (t : NS.τ) (f0 : Frame S.κ) (rest : List (Frame S.κ))
    (hI : spec.Inv s) (hfr : spec.frames s = f0 :: rest) (hrest : rest ≠ []) (hvar : spec.Var v)
    (hv0 : f0.model v = none) (hirr : ¬ InCnf (residual cnf f0.model) v) (hs0 : f0.sat = false)
    (hrec : ∀ f', spec.Inv (S.decide s ⟨v, b⟩).2 → spec.frames (S.decide s ⟨v, b⟩).2 = f' :: f0 :: rest →
      f'.model = f0.model.set v b →
      spec.Inv (recur (S.decide s ⟨v, b⟩).2 cache t).2.1 ∧
      spec.frames (recur (S.decide s ⟨v, b⟩).2 cache t).2.1 = f' :: f0 :: rest) :
    ∃ f1, spec.Inv (S.decide s ⟨v, b⟩).2 ∧ spec.frames (S.decide s ⟨v, b⟩).2 = f1 :: f0 :: rest ∧
      f1.model = f0.model.set v b ∧ f1.hash = f0.hash ∧ f1.sat = f0.sat ∧
      branch S NS recur s cache t ⟨v, b⟩ =
        ((recur (S.decide s ⟨v, b⟩).2 cache t).1, S.pop (recur (S.decide s ⟨v, b⟩).2 cache t).2.1,
         (recur (S.decide s ⟨v, b⟩).2 cache t).2.2.1, (recur (S.decide s ⟨v, b⟩).2 cache t).2.2.2) := by
  obtain ⟨hne, hfd⟩ := hfree s f0 rest v b hI hfr hrest hvar hv0 hirr
  obtain ⟨f1, hI1, hfr1, _, _, _, hsat⟩ := spec.decide_ok s f0 rest ⟨v, b⟩ hI hfr hvar hv0 hne
  obtain ⟨hm, hh, hs⟩ := hfd f1 _ hfr1
  refine ⟨f1, hI1, hfr1, hm, hh, hs, ?_⟩
  have hnsat : (S.decide s ⟨v, b⟩).1 ≠ .sat := by
    intro e; have := hsat.1 e; rw [hs, hs0] at this; cases this
  obtain ⟨hI2, hfr2⟩ := hrec _ hI1 hfr1 hm
  unfold branch
  generalize S.decide s ⟨v, b⟩ = d at hne hnsat hI2 hfr2 ⊢
  obtain ⟨tag, s1⟩ := d
  cases tag
  · exact absurd rfl hnsat
  · exact absurd rfl hne
  · simp only at hI2 hfr2 ⊢
    generalize recur s1 cache t = res at hI2 hfr2 ⊢
    obtain ⟨sub, s2, c1, t1⟩ := res
    simp only at hI2 hfr2 ⊢
    have : (S.difference s2).filter (fun x => x.var != v) = [] := by
      rw [List.filter_eq_nil_iff]
      intro l hl
      have := spec.diff_sound s2 f1 f0 rest hI2 hfr2 l hl
      simp only [bne_iff_ne, ne_eq, Decidable.not_not]
      apply Classical.byContradiction
      intro hne'
      rw [hm] at this
      simp [PModel.set, hne', this.1] at this
    rw [this, conjoinImplied_nil]

end

section
variable (spec : SolverSpec cnf S) {NS : NodeStore} {inv : NS.τ → Prop} (hNS : NS.Sound inv)
  (varAt : Nat → Nat)

/-- result of the high `decide` block -/
def brHi (recur : S.σ → Cache S.κ → NS.τ → HRes S NS) (v : Nat) (s : S.σ) (c : Cache S.κ) (t : NS.τ) :
    HRes S NS := branch S NS recur s c t ⟨v, true⟩
/-- result of the low `decide` block -/
def brLo (recur : S.σ → Cache S.κ → NS.τ → HRes S NS) (v : Nat) (s : S.σ) (c : Cache S.κ) (t : NS.τ) :
    HRes S NS :=
  branch S NS recur (brHi recur v s c t).2.1 (brHi recur v s c t).2.2.1 (brHi recur v s c t).2.2.2 ⟨v, false⟩
/-- the reduction test and the node -/
def nodeOf (recur : S.σ → Cache S.κ → NS.τ → HRes S NS) (v : Nat) (s : S.σ) (c : Cache S.κ) (t : NS.τ) :
    Ptr × NS.τ :=
  if (brHi recur v s c t).1 = (brLo recur v s c t).1 then ((brHi recur v s c t).1, (brLo recur v s c t).2.2.2)
  else NS.getOrInsert (brLo recur v s c t).2.2.2 v (brLo recur v s c t).1 (brHi recur v s c t).1

theorem decideNode_eq (recur : S.σ → Cache S.κ → NS.τ → HRes S NS) (v : Nat) (k : S.κ)
    (s : S.σ) (c : Cache S.κ) (t : NS.τ) :
    decideNode S NS recur v k s c t =
      ((nodeOf recur v s c t).1, (brLo recur v s c t).2.1,
       (k, (nodeOf recur v s c t).1) :: (brLo recur v s c t).2.2.1, (nodeOf recur v s c t).2) := by
  unfold decideNode nodeOf brLo brHi
  rfl

include hNS

/-- the cache-miss part of `topdown_h`, given the induction hypothesis for the recursive call -/
theorem decideNode_spec (hhash : HashSound spec) (hfree : FreeDecide spec) (rem level : Nat)
    (IH : ∀ s cache t f0 rest, spec.Inv s → spec.frames s = f0 :: rest → rest ≠ [] → inv t →
      CacheOK spec cache →
      (∀ i, i < level + 1 → f0.model (varAt i) ≠ none) →
      Post spec inv f0 rest (topdownH S NS varAt rem (level + 1) s cache t))
    (s : S.σ) (cache : Cache S.κ) (t : NS.τ) (f0 : Frame S.κ) (rest : List (Frame S.κ))
    (hI : spec.Inv s) (hfr : spec.frames s = f0 :: rest) (hrest : rest ≠ []) (ht : inv t)
    (hc : CacheOK spec cache)
    (hlev : ∀ i, i < level → f0.model (varAt i) ≠ none) (hvar : spec.Var (varAt level))
    (hv0 : f0.model (varAt level) = none)
    (hs0 : f0.sat = false) :
    Post spec inv f0 rest
      (decideNode S NS (fun s c t => topdownH S NS varAt rem (level + 1) s c t) (varAt level)
        (S.curHash s) s cache t) := by
  generalize hrecur : (fun s c t => topdownH S NS varAt rem (level + 1) s c t) = recur
  have hrec_eq : ∀ s c t, recur s c t = topdownH S NS varAt rem (level + 1) s c t := by
    intro s c t; rw [← hrecur]
  generalize hv : varAt level = v at hv0 hvar ⊢
  -- the induction hypothesis in the form `branch_spec` wants
  have hrecB : ∀ b s' c' t' f' rest', spec.Inv s' → spec.frames s' = f' :: rest' → rest' ≠ [] → inv t' →
      CacheOK spec c' → PExt (f0.model.set v b) f'.model → Post spec inv f' rest' (recur s' c' t') := by
    intro b s' c' t' f' rest' h1 h2 h2' h3 h4 h5
    rw [hrec_eq]
    apply IH s' c' t' f' rest' h1 h2 h2' h3 h4
    intro i hi
    by_cases e : varAt i = v
    · rw [e, h5 v b (by simp [PModel.set])]; simp
    · cases hm : f0.model (varAt i) with
      | none =>
        have : i < level := by
          rcases Nat.lt_succ_iff_lt_or_eq.1 hi with h | h
          · exact h
          · subst h; exact absurd hv e
        exact absurd hm (hlev i this)
      | some c => rw [h5 (varAt i) c (by simp [PModel.set, e, hm])]; simp
  obtain ⟨hb1, hI1, hfr1, hc1, ht1⟩ :=
    branch_spec spec hNS recur v true s cache t f0 rest hI hfr hrest hvar hv0 ht hc (hrecB true)
  obtain ⟨hb2, hI2, hfr2, hc2, ht2⟩ :=
    branch_spec spec hNS recur v false _ _ _ f0 rest hI1 hfr1 hrest hvar hv0 ht1 hc1 (hrecB false)
  change BranchGood cnf f0.model v true (brHi recur v s cache t).1 at hb1
  change BranchGood cnf f0.model v false (brLo recur v s cache t).1 at hb2
  change spec.Inv (brLo recur v s cache t).2.1 at hI2
  change spec.frames (brLo recur v s cache t).2.1 = _ at hfr2
  change CacheOK spec (brLo recur v s cache t).2.2.1 at hc2
  change inv (brLo recur v s cache t).2.2.2 at ht2
  obtain ⟨hng1, hng2⟩ := node_good hNS hv0 hb1 hb2
  -- the returned pointer is good, the store invariant holds
  have hnode : GoodM cnf f0.model (nodeOf recur v s cache t).1 ∧ inv (nodeOf recur v s cache t).2 := by
    unfold nodeOf
    by_cases e : (brHi recur v s cache t).1 = (brLo recur v s cache t).1
    · rw [if_pos e]; exact ⟨hng1 e, ht2⟩
    · rw [if_neg e]
      have hrel : InCnf (residual cnf f0.model) v := by
        apply Classical.byContradiction
        intro hirr
        apply e
        -- both branches are the recursive call; the second one hits the cache entry of the first
        obtain ⟨f1, hIa, hfra, hma, hha, hsa, hbra⟩ :=
          branch_irrelevant spec hfree recur v true s cache t f0 rest hI hfr hrest hvar hv0 hirr hs0
            (by
              intro f' h1 h2 h3
              have := hrecB true _ cache t f' (f0 :: rest) h1 h2 (List.cons_ne_nil _ _) ht hc
                (by rw [h3]; exact PExt.refl _)
              exact ⟨this.2.1, this.2.2.1⟩)
        have hbr1 : brHi recur v s cache t = _ := hbra
        obtain ⟨f1', hIb, hfrb, hmb, hhb, hsb, hbrb⟩ :=
          branch_irrelevant spec hfree recur v false (brHi recur v s cache t).2.1
            (brHi recur v s cache t).2.2.1 (brHi recur v s cache t).2.2.2 f0 rest hI1 hfr1 hrest hvar hv0 hirr hs0
            (by
              intro f' h1 h2 h3
              have := hrecB false _ _ _ f' (f0 :: rest) h1 h2 (List.cons_ne_nil _ _) ht1 hc1
                (by rw [h3]; exact PExt.refl _)
              exact ⟨this.2.1, this.2.2.1⟩)
        have hbr2 : brLo recur v s cache t = _ := hbrb
        have hobs : ObsEq S (S.decide s ⟨v, true⟩).2 (S.decide (brHi recur v s cache t).2.1 ⟨v, false⟩).2 := by
          refine ⟨?_, ?_, ?_⟩
          · rw [spec.obs_sat _ _ _ hIa hfra, spec.obs_sat _ _ _ hIb hfrb, hsa, hsb]
          · intro x
            rw [spec.obs_set _ _ _ hIa hfra, spec.obs_set _ _ _ hIb hfrb, hma, hmb]
            by_cases ex : x = v <;> simp [PModel.set, ex]
          · rw [spec.obs_hash _ _ _ hIa hfra, spec.obs_hash _ _ _ hIb hfrb, hha, hhb]
        have hhit := topdownH_hit_after S NS varAt rem (level + 1) (S.decide s ⟨v, true⟩).2 cache t
          (S.decide (brHi recur v s cache t).2.1 ⟨v, false⟩).2 (brHi recur v s cache t).2.2.2 hobs
        simp only [← hrec_eq] at hhit
        rw [hbr2]
        simp only
        have e3 : (brHi recur v s cache t).2.2.1 = (recur (S.decide s ⟨v, true⟩).2 cache t).2.2.1 := by
          rw [hbr1]
        rw [e3, hhit, hbr1]
      exact ⟨hng2 e hrel _ ht2, hNS.inv_step _ ht2 _ _ _⟩
  rw [decideNode_eq]
  refine ⟨hnode.1, hI2, hfr2, ?_, hnode.2⟩
  intro k r hkr
  rcases List.mem_cons.1 hkr with e | h
  · cases e
    refine ⟨f0.model, hnode.1, ?_⟩
    intro s' hs' hk
    rw [hhash s' s hs' hI hk, spec.modelOf_eq hfr]
  · exact hc2 k r h

/-- **correctness of `topdown_h`** (any node store satisfying the contract, any solver satisfying
the specification, the two hash hypotheses): called at `level` on a valid state whose model
assigns all variables of earlier levels (the order maps the levels into the decidable variables), with a sound cache, it returns a diagram that agrees
with the CNF on every extension of the current model, is free, tests only variables of the
residual formula; the solver stack is as before; the cache is still sound. -/
theorem topdownH_post (hhash : HashSound spec) (hfree : FreeDecide spec) (numVars : Nat)
    (hvarAt : ∀ v, InCnf cnf v → ∃ i, i < numVars ∧ varAt i = v)
    (hrange : ∀ i, i < numVars → spec.Var (varAt i)) :
    ∀ (rem level : Nat) (s : S.σ) (cache : Cache S.κ) (t : NS.τ) (f0 : Frame S.κ) (rest : List (Frame S.κ)),
      level + rem = numVars → spec.Inv s → spec.frames s = f0 :: rest → rest ≠ [] → inv t →
      CacheOK spec cache →
      (∀ i, i < level → f0.model (varAt i) ≠ none) →
      Post spec inv f0 rest (topdownH S NS varAt rem level s cache t)
  | 0, level, s, cache, t, f0, rest, hl, hI, hfr, _, ht, hc, hlev => by
    rw [topdownH_zero]
    refine ⟨GoodM.tru_of (spec.total_sound s f0 rest hI hfr ?_), hI, hfr, hc, ht⟩
    intro v hv
    obtain ⟨i, hi, e⟩ := hvarAt v hv
    rw [← e]; exact hlev i (by omega)
  | rem + 1, level, s, cache, t, f0, rest, hl, hI, hfr, hrest, ht, hc, hlev => by
    have IH := fun s cache t f0 rest h1 h2 h2' h3 h4 h5 =>
      topdownH_post hhash hfree numVars hvarAt hrange rem (level + 1) s cache t f0 rest (by omega) h1 h2 h2' h3 h4 h5
    rw [topdownH_succ]
    by_cases hsat : S.isSat s = true
    · rw [if_pos hsat]
      rw [spec.obs_sat s f0 rest hI hfr] at hsat
      exact ⟨GoodM.tru_of (spec.sat_sound s f0 rest hI hfr hsat), hI, hfr, hc, ht⟩
    · rw [if_neg hsat]
      by_cases hset : S.isSet s (varAt level) = true
      · rw [if_pos hset]
        apply IH s cache t f0 rest hI hfr hrest ht hc
        intro i hi
        rcases Nat.lt_succ_iff_lt_or_eq.1 hi with h | h
        · exact hlev i h
        · subst h
          rw [spec.obs_set s f0 rest hI hfr] at hset
          intro e; rw [e] at hset; cases hset
      · rw [if_neg hset]
        cases hg : Cache.get cache (S.curHash s) with
        | some r =>
          simp only
          obtain ⟨m0, hgood, hres⟩ := hc _ _ (Cache.get_mem hg)
          have := hres s hI rfl
          rw [spec.modelOf_eq hfr] at this
          exact ⟨hgood.transfer this, hI, hfr, hc, ht⟩
        | none =>
          simp only
          apply decideNode_spec spec hNS varAt hhash hfree rem level IH s cache t f0 rest hI hfr hrest ht hc hlev
            (hrange level (by omega))
          · rw [spec.obs_set s f0 rest hI hfr] at hset
            cases hm : f0.model (varAt level) with
            | none => rfl
            | some c => rw [hm] at hset; exact absurd rfl hset
          · rw [spec.obs_sat s f0 rest hI hfr] at hsat
            cases h : f0.sat with
            | false => rfl
            | true => exact absurd h hsat

end

/-! ## `compile_cnf_topdown` -/

/-- what `SATSolver::new` has to satisfy: `None` only for unsatisfiable formulas; otherwise a
valid two-frame stack, the lower model empty, the upper one consisting of entailed literals.
The solver is built on `cnf0`; the specification is about `cnf` (for the reference solver the
two are the same; for the real solver `cnf` is the non-tautological part of `cnf0`). -/
structure NewSpec (spec : SolverSpec cnf S) (cnf0 : Cnf) (numVars : Nat) : Prop where
  none_unsat : S.new cnf0 numVars = none → ∀ a, cnfSat a cnf = false
  some_ok : ∀ s, S.new cnf0 numVars = some s → ∃ f1 f0, spec.Inv s ∧ spec.frames s = [f1, f0] ∧
    (∀ v, f0.model v = none) ∧ ∀ v b, f1.model v = some b → ∀ a, cnfSat a cnf = true → a v = b

section
variable (spec : SolverSpec cnf S) {NS : NodeStore} {inv : NS.τ → Prop} (hNS : NS.Sound inv)
  (varAt : Nat → Nat)
include hNS

/-- **correctness of `compile_cnf_topdown`** (as repaired; solver built on `cnf0`, specification
about `cnf`): the result denotes the CNF on ALL
assignments, is free, and is the false constant exactly when the CNF is unsatisfiable -/
theorem compileTopdown_post (hhash : HashSound spec) (hfree : FreeDecide spec) (cnf0 : Cnf) (numVars : Nat)
    (hnew : NewSpec spec cnf0 numVars)
    (hvarAt : ∀ v, InCnf cnf v → ∃ i, i < numVars ∧ varAt i = v)
    (hrange : ∀ i, i < numVars → spec.Var (varAt i)) (t : NS.τ) (ht : inv t) :
    (∀ a, (compileTopdown S NS varAt cnf0 numVars t).1.eval a = cnfSat a cnf) ∧
    (compileTopdown S NS varAt cnf0 numVars t).1.free ∧
    ((compileTopdown S NS varAt cnf0 numVars t).1 = .fls ↔ ∀ a, cnfSat a cnf = false) ∧
    inv (compileTopdown S NS varAt cnf0 numVars t).2 := by
  unfold compileTopdown
  cases hn : S.new cnf0 numVars with
  | none =>
    have := hnew.none_unsat hn
    exact ⟨fun a => (this a).symm, trivial, ⟨fun _ => this, fun _ => rfl⟩, ht⟩
  | some s =>
    obtain ⟨f1, f0, hI, hfr, hf0, hent⟩ := hnew.some_ok s hn
    have hp := topdownH_post spec hNS varAt hhash hfree numVars hvarAt hrange numVars 0 s [] t f1 [f0]
      (by omega) hI hfr (List.cons_ne_nil _ _) ht (CacheOK_nil spec) (fun i hi => absurd hi (Nat.not_lt_zero i))
    simp only
    generalize topdownH S NS varAt numVars 0 s [] t = res at hp ⊢
    obtain ⟨r0, s1, c1, t1⟩ := res
    obtain ⟨hgood, hI1, hfr1, _, ht1⟩ := hp
    simp only at hgood hI1 hfr1 ht1 ⊢
    have hext : ∀ a, cnfSat a cnf = true → Extends a f1.model := fun a hsat v b hv => hent v b hv a hsat
    split
    · -- the body is the false constant
      rename_i hfalse
      have hr0 : r0 = .fls := isFalse_iff.1 hfalse
      have hun : ∀ a, cnfSat a cnf = false := by
        intro a
        cases hsat : cnfSat a cnf
        · rfl
        · have := hgood.sem a (hext a hsat)
          rw [hr0, hsat] at this; simp [Ptr.eval] at this
      exact ⟨fun a => (hun a).symm, trivial, ⟨fun _ => hun, fun _ => rfl⟩, ht1⟩
    · rename_i hnf
      have hr0 : r0 ≠ .fls := fun e => hnf (isFalse_iff.2 e)
      have hnd := spec.diff_nodup s1 f1 f0 [] hI1 hfr1
      have hds := spec.diff_sound s1 f1 f0 [] hI1 hfr1
      have hdc := spec.diff_complete s1 f1 f0 [] hI1 hfr1
      have hns : ∀ l ∈ S.difference s1, l.var ∉ r0.vars := by
        intro l hl hx
        have h1 := residual_unset (hgood.vars _ hx)
        rw [(hds l hl).2] at h1; cases h1
      obtain ⟨h1, h2, _, h4⟩ := implyChain_spec hNS _ t1 r0 ht1 hgood.free hnd hns
      have hall : ∀ a, Extends a f1.model → (S.difference s1).all (litSat a) = true := by
        intro a he
        rw [List.all_eq_true]
        intro l hl
        simp [litSat, he _ _ (hds l hl).2]
      have hsem : ∀ a, (implyChain NS t1 (S.difference s1) r0).1.eval a = cnfSat a cnf := by
        intro a
        rw [h2]
        by_cases he : Extends a f1.model
        · rw [hall a he, hgood.sem a he]; rfl
        · have hsat : cnfSat a cnf = false := by
            cases hsat : cnfSat a cnf
            · rfl
            · exact absurd (hext a hsat) he
          have : (S.difference s1).all (litSat a) = false := by
            cases hall' : (S.difference s1).all (litSat a)
            · rfl
            · exfalso; apply he
              rw [List.all_eq_true] at hall'
              intro x c hx
              simpa [litSat] using hall' _ (hdc x c hx (hf0 x))
          rw [this, hsat]; rfl
      refine ⟨hsem, h4, ⟨?_, ?_⟩, h1⟩
      · intro e
        exfalso
        obtain ⟨a, ha, he⟩ := hgood.nonfalse hr0
        have := h2 a
        rw [e, hall a ha, he] at this
        cases this
      · intro hun
        exfalso
        obtain ⟨a, ha, he⟩ := hgood.nonfalse hr0
        have := hsem a
        rw [h2, hall a ha, he, hun a] at this
        cases this

end

end TopDown
