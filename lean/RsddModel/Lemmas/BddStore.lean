import RsddModel.Model.BddStore
import RsddModel.Lemmas.Scratch
import RsddModel.Lemmas.BddCanon
/-!
# Lemmas: the unique table justifies reading a pointer as the tree it unfolds to

* `StoreOK`: the invariant of the unique table — children of a node are stored before the node
  (so `unfold` follows real edges), and no node is stored twice; flat readings
  `StoreOK.child_lt`, `StoreOK.nodup`.  `StoreRed`: every stored node has `lo ≠ hi` and a regular,
  non-false high edge.
* `unfold_inj`: under `StoreOK`, `unfold s` is injective on the references valid in `s` — pointer
  identity is structural equality of the unfoldings.  `refOf` is the (computable) inverse.
* `insertRaw_find_or_append`: the table operation used here is exactly the find-or-append
  behaviour that `Props/C02Table.lean` proves of the robin-hood table.
* `getOrInsert_spec`, `getOrInsert_red`: `get_or_insert` keeps the invariants, only appends, and
  unfolds to `Bdd.mkNode`.
* `unfold_red`: in a reduced table every valid reference unfolds to a reduced diagram.
(`Lemmas/BddStoreIte.lean`: `Ite::new`, `ite`; `Lemmas/BddStoreCond.lean`: conditioning.)
-/
namespace BddStore
open Bdd Scratch Spec

/-! ## references -/

theorem validIn_tru (s : Store) : Ref.tru.ValidIn s := by intro i h; cases h
theorem validIn_fls (s : Store) : Ref.fls.ValidIn s := by intro i h; cases h
theorem validIn_neg {s : Store} {r : Ref} (h : r.ValidIn s) : r.neg.ValidIn s := by
  intro i hi; exact h i (by simpa using hi)
theorem validIn_reg {s : Store} {i : Nat} (h : i < s.length) : (Ref.reg i).ValidIn s := by
  intro j hj; cases hj; exact h
theorem validIn_compl {s : Store} {i : Nat} (h : i < s.length) : (Ref.compl i).ValidIn s := by
  intro j hj; cases hj; exact h
theorem validIn_ite {s : Store} {c : Bool} {a b : Ref} (ha : a.ValidIn s) (hb : b.ValidIn s) :
    (if c then a else b).ValidIn s := by cases c <;> simpa
theorem validIn_extends {s' s : Store} (h : Extends s' s) {r : Ref} (hr : r.ValidIn s) :
    r.ValidIn s' := by
  intro i hi; have := hr i hi; have := h.length_le; omega
theorem validIn_nil {r : Ref} (h : r.ValidIn []) : r.idx? = none := by
  cases hr : r.idx? with
  | none => rfl
  | some i => have := h i hr; simp at this

theorem Ref.neg_inj {a b : Ref} (h : a.neg = b.neg) : a = b := by
  have := congrArg Ref.neg h; simpa using this
theorem Ref.eq_neg_iff {a b : Ref} : a = b.neg ↔ a.neg = b := by
  constructor <;> (intro h; subst h; simp)
theorem Ref.neg_ne (a : Ref) : a.neg ≠ a := by cases a <;> simp [Ref.neg]
@[simp] theorem Ref.isNeg_tru : Ref.tru.isNeg = false := rfl
@[simp] theorem Ref.isNeg_fls : Ref.fls.isNeg = false := rfl
theorem Ref.isNeg_neg_of_isNeg {a : Ref} (h : a.isNeg = true) : a.neg.isNeg = false := by
  cases a <;> simp_all [Ref.isNeg, Ref.neg]

/-! ## reading the store -/

theorem nodeAt_lt : ∀ {s : Store} {i : Nat} {n : Node}, nodeAt s i = some n → i < s.length
  | [], _, _, h => by simp [nodeAt] at h
  | m :: rest, i, n, h => by
    simp only [nodeAt] at h
    split at h
    · subst_vars; simp
    · have := nodeAt_lt h; simp; omega

theorem nodeAt_of_lt : ∀ {s : Store} {i : Nat}, i < s.length → ∃ n, nodeAt s i = some n
  | [], _, h => by simp at h
  | m :: rest, i, h => by
    simp only [nodeAt]
    split
    · exact ⟨m, rfl⟩
    · exact nodeAt_of_lt (by simp at h; omega)

theorem nodeAt_none {s : Store} {i : Nat} (h : s.length ≤ i) : nodeAt s i = none := by
  cases hn : nodeAt s i with
  | none => rfl
  | some n => have := nodeAt_lt hn; omega

theorem nodeAt_mem : ∀ {s : Store} {i : Nat} {n : Node}, nodeAt s i = some n → n ∈ s
  | [], _, _, h => by simp [nodeAt] at h
  | m :: rest, i, n, h => by
    simp only [nodeAt] at h
    split at h
    · cases h; exact List.mem_cons_self ..
    · exact List.mem_cons_of_mem _ (nodeAt_mem h)

/-- `nodeAt` is the indexing function of `Model/Scratch.lean` -/
theorem nodeAt_eq_get? : ∀ (s : Store) (i : Nat), nodeAt s i = s.get? i
  | [], i => by simp [nodeAt, Store.get?]
  | m :: rest, i => by
    simp only [nodeAt, Store.get?, List.length_cons]
    by_cases h1 : i = rest.length
    · subst h1; simp
    · rw [if_neg h1, nodeAt_eq_get? rest i]
      simp only [Store.get?]
      by_cases h2 : i < rest.length
      · have h3 : i < rest.length + 1 := by omega
        have h4 : rest.length + 1 - 1 - i = (rest.length - 1 - i) + 1 := by omega
        rw [if_pos h2, if_pos h3, h4, List.getElem?_cons_succ]
      · have h3 : ¬ i < rest.length + 1 := by omega
        rw [if_neg h2, if_neg h3]

theorem nodeAt_append {s : Store} {i : Nat} {n : Node} (h : nodeAt s i = some n) :
    ∀ l : Store, nodeAt (l ++ s) i = some n
  | [] => h
  | m :: l => by
    have := nodeAt_lt h
    simp only [List.cons_append, nodeAt, List.length_append]
    rw [if_neg (by omega)]
    exact nodeAt_append h l

theorem nodeAt_extends {s' s : Store} (he : Extends s' s) {i : Nat} {n : Node}
    (h : nodeAt s i = some n) : nodeAt s' i = some n := by
  obtain ⟨l, rfl⟩ := he; exact nodeAt_append h l

theorem findNode_none_iff : ∀ {s : Store} {n : Node}, findNode s n = none ↔ n ∉ s
  | [], n => by simp [findNode]
  | m :: rest, n => by
    simp only [findNode]
    split
    · subst_vars; simp
    · rename_i hne
      rw [findNode_none_iff, List.mem_cons, not_or]
      exact ⟨fun h => ⟨fun e => hne e.symm, h⟩, fun h => h.2⟩

theorem findNode_some : ∀ {s : Store} {n : Node} {i : Nat}, findNode s n = some i → nodeAt s i = some n
  | [], _, _, h => by simp [findNode] at h
  | m :: rest, n, i, h => by
    simp only [findNode] at h
    split at h
    · cases h; subst_vars; simp [nodeAt]
    · have h' := findNode_some h
      have := nodeAt_lt h'
      simp only [nodeAt]; rw [if_neg (by omega)]; exact h'

/-! ## the invariant of the unique table -/

/-- children are stored before their parent, and no node is stored twice -/
def StoreOK : Store → Prop
  | [] => True
  | n :: rest => n.lo.ValidIn rest ∧ n.hi.ValidIn rest ∧ findNode rest n = none ∧ StoreOK rest

/-- every stored node is reduced and has a regular, non-false high edge -/
def StoreRed (s : Store) : Prop := ∀ n ∈ s, n.lo ≠ n.hi ∧ n.hi.isNeg = false ∧ n.hi ≠ .fls

theorem storeOK_nil : StoreOK [] := trivial
theorem storeRed_nil : StoreRed [] := by intro n hn; cases hn

/-- flat reading 1: the children of the node at index `i` have indices below `i` -/
theorem StoreOK.child_lt : ∀ {s : Store}, StoreOK s → ∀ {i : Nat} {n : Node}, nodeAt s i = some n →
    (∀ j, n.lo.idx? = some j → j < i) ∧ (∀ j, n.hi.idx? = some j → j < i)
  | [], _, _, _, h => by simp [nodeAt] at h
  | m :: rest, ⟨hlo, hhi, _, hok⟩, i, n, h => by
    simp only [nodeAt] at h
    split at h
    · cases h; subst_vars; exact ⟨hlo, hhi⟩
    · exact hok.child_lt h

/-- flat reading 2: no two indices hold equal nodes -/
theorem StoreOK.nodup : ∀ {s : Store}, StoreOK s → ∀ {i j : Nat} {n : Node}, nodeAt s i = some n →
    nodeAt s j = some n → i = j
  | [], _, _, _, _, h, _ => by simp [nodeAt] at h
  | m :: rest, ⟨_, _, hfind, hok⟩, i, j, n, h1, h2 => by
    have hm : m ∉ rest := findNode_none_iff.1 hfind
    simp only [nodeAt] at h1 h2
    split at h1
    · cases h1
      split at h2
      · subst_vars; rfl
      · exact absurd (nodeAt_mem h2) hm
    · split at h2
      · cases h2; exact absurd (nodeAt_mem h1) hm
      · exact hok.nodup h1 h2

theorem StoreOK.child_valid {s : Store} (hs : StoreOK s) {i : Nat} {n : Node} (h : nodeAt s i = some n) :
    n.lo.ValidIn s ∧ n.hi.ValidIn s := by
  obtain ⟨h1, h2⟩ := hs.child_lt h
  have := nodeAt_lt h
  exact ⟨fun j hj => by have := h1 j hj; omega, fun j hj => by have := h2 j hj; omega⟩

theorem StoreOK.findNode_eq {s : Store} (hs : StoreOK s) {i : Nat} {n : Node} (h : nodeAt s i = some n) :
    findNode s n = some i := by
  cases hf : findNode s n with
  | none => exact absurd (nodeAt_mem h) (findNode_none_iff.1 hf)
  | some j => rw [hs.nodup (findNode_some hf) h]

/-- the converse: the two flat clauses imply the invariant -/
theorem storeOK_of_flat : ∀ {s : Store},
    (∀ i n, nodeAt s i = some n → (∀ j, n.lo.idx? = some j → j < i) ∧ (∀ j, n.hi.idx? = some j → j < i)) →
    (∀ i j n, nodeAt s i = some n → nodeAt s j = some n → i = j) → StoreOK s
  | [], _, _ => trivial
  | m :: rest, h1, h2 => by
    have hm : nodeAt (m :: rest) rest.length = some m := by simp [nodeAt]
    have up : ∀ {i n}, nodeAt rest i = some n → nodeAt (m :: rest) i = some n := by
      intro i n h
      have := nodeAt_lt h
      simp only [nodeAt]; rw [if_neg (by omega)]; exact h
    refine ⟨(h1 _ _ hm).1, (h1 _ _ hm).2, ?_, storeOK_of_flat (fun i n h => h1 i n (up h))
      (fun i j n hi hj => h2 i j n (up hi) (up hj))⟩
    cases hf : findNode rest m with
    | none => rfl
    | some j =>
      have hj := findNode_some hf
      have := nodeAt_lt hj
      have := h2 _ _ _ hm (up hj)
      omega

/-! ## unfolding a valid reference -/

@[simp] theorem unfold_tru (s : Store) : unfold s .tru = .tru := by cases s <;> rfl
@[simp] theorem unfold_fls (s : Store) : unfold s .fls = .fls := by cases s <;> rfl

theorem unfold_none (s : Store) {r : Ref} (h : r.idx? = none) : unfold s r = r.leafPtr := by
  cases s <;> simp [unfold, h]

/-- a valid non-constant reference unfolds to a node whose fields are read from the store -/
theorem unfold_of_nodeAt : ∀ {s : Store}, StoreOK s → ∀ {r : Ref} {i : Nat} {n : Node},
    r.idx? = some i → nodeAt s i = some n →
    unfold s r = .node r.isNeg n.var (unfold s n.lo) (unfold s n.hi)
  | [], _, _, _, _, _, h => by simp [nodeAt] at h
  | m :: rest, ⟨hlo, hhi, _, hok⟩, r, i, n, hr, h => by
    simp only [nodeAt] at h
    split at h
    · cases h; subst_vars
      rw [unfold_cons_eq _ rest hr, unfold_extends (Extends.cons _ rest) hlo,
        unfold_extends (Extends.cons _ rest) hhi]
    · rename_i hne
      obtain ⟨cl, ch⟩ := hok.child_valid h
      rw [unfold_cons_ne m rest hr hne, unfold_of_nodeAt hok hr h,
        unfold_extends (Extends.cons _ rest) cl, unfold_extends (Extends.cons _ rest) ch]

/-- the three shapes of a valid reference -/
theorem valid_cases {s : Store} (hs : StoreOK s) {r : Ref} (hr : r.ValidIn s) :
    r = .tru ∨ r = .fls ∨ ∃ i n, r.idx? = some i ∧ nodeAt s i = some n ∧ n.lo.ValidIn s ∧ n.hi.ValidIn s ∧
      unfold s r = .node r.isNeg n.var (unfold s n.lo) (unfold s n.hi) := by
  cases hi : r.idx? with
  | none => cases r <;> simp_all [Ref.idx?]
  | some i =>
    obtain ⟨n, hn⟩ := nodeAt_of_lt (hr i hi)
    obtain ⟨cl, ch⟩ := hs.child_valid hn
    exact Or.inr (Or.inr ⟨i, n, rfl, hn, cl, ch, unfold_of_nodeAt hs hi hn⟩)

theorem top?_unfold : ∀ (s : Store) (r : Ref), (unfold s r).top? = varOf s r
  | [], r => by cases r <;> rfl
  | m :: rest, r => by
    cases hr : r.idx? with
    | none => rw [unfold_none _ hr]; simp only [varOf, hr]; cases r <;> rfl
    | some i =>
      by_cases hi : i = rest.length
      · subst hi; rw [unfold_cons_eq _ _ hr]; simp [varOf, hr, nodeAt, Ptr.top?]
      · rw [unfold_cons_ne _ _ hr hi, top?_unfold rest r]; simp [varOf, hr, nodeAt, hi]

theorem isNeg_unfold {s : Store} (hs : StoreOK s) {r : Ref} (hr : r.ValidIn s) :
    (unfold s r).isNeg = r.isNeg := by
  rcases valid_cases hs hr with rfl | rfl | ⟨i, n, _, _, _, _, h⟩
  · simp [Ptr.isNeg]
  · simp [Ptr.isNeg]
  · rw [h]; cases r.isNeg <;> rfl

theorem isTrue_unfold {s : Store} (hs : StoreOK s) {r : Ref} (hr : r.ValidIn s) :
    (unfold s r).isTrue = r.isTrue := by
  rcases valid_cases hs hr with rfl | rfl | ⟨i, n, hi, _, _, _, h⟩
  · simp [Ptr.isTrue, Ref.isTrue]
  · simp [Ptr.isTrue, Ref.isTrue]
  · rw [h]; cases r <;> simp_all [Ptr.isTrue, Ref.isTrue, Ref.idx?]

theorem isFalse_unfold {s : Store} (hs : StoreOK s) {r : Ref} (hr : r.ValidIn s) :
    (unfold s r).isFalse = r.isFalse := by
  rcases valid_cases hs hr with rfl | rfl | ⟨i, n, hi, _, _, _, h⟩
  · simp [Ptr.isFalse, Ref.isFalse]
  · simp [Ptr.isFalse, Ref.isFalse]
  · rw [h]; cases r <;> simp_all [Ptr.isFalse, Ref.isFalse, Ref.idx?]

/-! ## KEY LEMMA: `unfold` is injective on valid references -/

theorem unfold_inj_aux {s : Store} (hs : StoreOK s) : ∀ (P : Ptr) {a b : Ref}, a.ValidIn s → b.ValidIn s →
    unfold s a = P → unfold s b = P → a = b := by
  intro P
  induction P with
  | tru =>
    intro a b ha hb ea eb
    rcases valid_cases hs ha with rfl | rfl | ⟨_, _, _, _, _, _, h⟩
    · rcases valid_cases hs hb with rfl | rfl | ⟨_, _, _, _, _, _, h'⟩
      · rfl
      · simp at eb
      · rw [h'] at eb; cases eb
    · simp at ea
    · rw [h] at ea; cases ea
  | fls =>
    intro a b ha hb ea eb
    rcases valid_cases hs ha with rfl | rfl | ⟨_, _, _, _, _, _, h⟩
    · simp at ea
    · rcases valid_cases hs hb with rfl | rfl | ⟨_, _, _, _, _, _, h'⟩
      · simp at eb
      · rfl
      · rw [h'] at eb; cases eb
    · rw [h] at ea; cases ea
  | node c v L H ihL ihH =>
    intro a b ha hb ea eb
    rcases valid_cases hs ha with rfl | rfl | ⟨i, n, hi, hn, nl, nh, h⟩
    · simp at ea
    · simp at ea
    · rcases valid_cases hs hb with rfl | rfl | ⟨j, m, hj, hm, ml, mh, h'⟩
      · simp at eb
      · simp at eb
      · rw [h] at ea; rw [h'] at eb
        simp only [Ptr.node.injEq] at ea eb
        obtain ⟨ac, av, al, ah⟩ := ea
        obtain ⟨bc, bv, bl, bh⟩ := eb
        have e1 : n.lo = m.lo := ihL nl ml al bl
        have e2 : n.hi = m.hi := ihH nh mh ah bh
        have enm : n = m := by
          cases n; cases m; simp only [Node.mk.injEq]; simp only at e1 e2 av bv
          exact ⟨av.trans bv.symm, e1, e2⟩
        subst enm
        have eij : i = j := hs.nodup hn hm
        subst eij
        rw [Ref.eq_of_idx? hi, Ref.eq_of_idx? hj, ac, bc]

/-- **pointer identity = structural equality**: in a store satisfying the invariant, two valid
references that unfold to the same tree are the same reference -/
theorem unfold_inj {s : Store} (hs : StoreOK s) {a b : Ref} (ha : a.ValidIn s) (hb : b.ValidIn s)
    (h : unfold s a = unfold s b) : a = b :=
  unfold_inj_aux hs _ ha hb h rfl

theorem unfold_eq_iff {s : Store} (hs : StoreOK s) {a b : Ref} (ha : a.ValidIn s) (hb : b.ValidIn s) :
    unfold s a = unfold s b ↔ a = b :=
  ⟨unfold_inj hs ha hb, fun h => by rw [h]⟩

/-- the invariant is needed: with a duplicate node two different references unfold alike -/
example : unfold [⟨0, .fls, .tru⟩, ⟨0, .fls, .tru⟩] (.reg 0) = unfold [⟨0, .fls, .tru⟩, ⟨0, .fls, .tru⟩] (.reg 1)
    ∧ Ref.reg 0 ≠ Ref.reg 1 := by decide

/-! ## the inverse of `unfold`: looking a tree up in the table -/

/-- the reference of a tree, if all its nodes are stored -/
def refOf (s : Store) : Ptr → Option Ref
  | .tru => some .tru
  | .fls => some .fls
  | .node c v lo hi =>
    match refOf s lo, refOf s hi with
    | some l, some h =>
      match findNode s ⟨v, l, h⟩ with
      | some i => some (if c then .compl i else .reg i)
      | none => none
    | _, _ => none

theorem refOf_unfold_aux {s : Store} (hs : StoreOK s) : ∀ (P : Ptr) {r : Ref}, r.ValidIn s →
    unfold s r = P → refOf s P = some r := by
  intro P
  induction P with
  | tru =>
    intro r hr e
    rcases valid_cases hs hr with rfl | rfl | ⟨_, _, _, _, _, _, h⟩
    · rfl
    · simp at e
    · rw [h] at e; cases e
  | fls =>
    intro r hr e
    rcases valid_cases hs hr with rfl | rfl | ⟨_, _, _, _, _, _, h⟩
    · simp at e
    · rfl
    · rw [h] at e; cases e
  | node c v L H ihL ihH =>
    intro r hr e
    rcases valid_cases hs hr with rfl | rfl | ⟨i, n, hi, hn, nl, nh, h⟩
    · simp at e
    · simp at e
    · rw [h] at e
      simp only [Ptr.node.injEq] at e
      obtain ⟨ec, ev, el, eh⟩ := e
      have hf : findNode s ⟨v, n.lo, n.hi⟩ = some i := by
        have := hs.findNode_eq hn
        cases n; simp only at ev; subst ev; exact this
      simp only [refOf, ihL nl el, ihH nh eh, hf]
      rw [Ref.eq_of_idx? hi, ec]

theorem refOf_unfold {s : Store} (hs : StoreOK s) {r : Ref} (hr : r.ValidIn s) :
    refOf s (unfold s r) = some r := refOf_unfold_aux hs _ hr rfl

theorem refOf_some {s : Store} (hs : StoreOK s) : ∀ {P : Ptr} {r : Ref}, refOf s P = some r →
    r.ValidIn s ∧ unfold s r = P := by
  intro P
  induction P with
  | tru => intro r h; cases h; exact ⟨validIn_tru s, unfold_tru s⟩
  | fls => intro r h; cases h; exact ⟨validIn_fls s, unfold_fls s⟩
  | node c v L H ihL ihH =>
    intro r h
    simp only [refOf] at h
    split at h
    · rename_i l hh hl hhh
      split at h
      · rename_i i hf
        cases h
        have hn := findNode_some hf
        have hlt := nodeAt_lt hn
        obtain ⟨_, el⟩ := ihL hl
        obtain ⟨_, eh⟩ := ihH hhh
        refine ⟨?_, ?_⟩
        · cases c
          · exact validIn_reg hlt
          · exact validIn_compl hlt
        · have hidx : (if c = true then Ref.compl i else Ref.reg i).idx? = some i := by cases c <;> rfl
          rw [unfold_of_nodeAt hs hidx hn]
          simp only [el, eh]
          cases c <;> rfl
      · cases h
    · cases h

/-! ## the store only grows -/

theorem storeOK_cons {s : Store} (hs : StoreOK s) {n : Node} (hl : n.lo.ValidIn s) (hh : n.hi.ValidIn s)
    (hf : findNode s n = none) : StoreOK (n :: s) := ⟨hl, hh, hf, hs⟩

theorem insertRaw_spec {s : Store} (hs : StoreOK s) {n : Node} (hl : n.lo.ValidIn s) (hh : n.hi.ValidIn s) :
    StoreOK (insertRaw s n).1 ∧ nodeAt (insertRaw s n).1 (insertRaw s n).2 = some n := by
  simp only [insertRaw]
  split
  · rename_i i hf; exact ⟨hs, findNode_some hf⟩
  · rename_i hf; exact ⟨storeOK_cons hs hl hh hf, by simp [nodeAt]⟩

theorem insertRaw_red {s : Store} (hr : StoreRed s) {n : Node}
    (hn : n.lo ≠ n.hi ∧ n.hi.isNeg = false ∧ n.hi ≠ .fls) : StoreRed (insertRaw s n).1 := by
  simp only [insertRaw]
  split
  · exact hr
  · intro m hm
    rcases List.mem_cons.1 hm with rfl | hm
    · exact hn
    · exact hr m hm

/-- `get_or_insert`: keeps the invariant, appends at most one node, returns a valid reference
that unfolds to `Bdd.mkNode` of the unfolded children -/
theorem getOrInsert_spec {s : Store} (hs : StoreOK s) {x : Nat} {lo hi : Ref}
    (hl : lo.ValidIn s) (hh : hi.ValidIn s) :
    StoreOK (getOrInsert s ⟨x, lo, hi⟩).1 ∧ Extends (getOrInsert s ⟨x, lo, hi⟩).1 s ∧
    (getOrInsert s ⟨x, lo, hi⟩).2.ValidIn (getOrInsert s ⟨x, lo, hi⟩).1 ∧
    unfold (getOrInsert s ⟨x, lo, hi⟩).1 (getOrInsert s ⟨x, lo, hi⟩).2 =
      mkNode x (unfold s lo) (unfold s hi) := by
  have hcond : (hi.isNeg || hi == Ref.fls) = ((unfold s hi).isNeg || (unfold s hi).isFalse) := by
    rw [isNeg_unfold hs hh, isFalse_unfold hs hh]; cases hi <;> rfl
  simp only [getOrInsert, mkNode]
  rw [← hcond]
  split
  · have hext := insertRaw_extends s ⟨x, lo.neg, hi.neg⟩
    obtain ⟨h1, h2⟩ := insertRaw_spec hs (n := ⟨x, lo.neg, hi.neg⟩) (validIn_neg hl) (validIn_neg hh)
    refine ⟨h1, hext, validIn_compl (nodeAt_lt h2), ?_⟩
    rw [unfold_of_nodeAt h1 (r := .compl _) rfl h2]
    simp only [Ref.isNeg]
    rw [unfold_extends hext (validIn_neg hl), unfold_extends hext (validIn_neg hh), unfold_neg, unfold_neg]
  · have hext := insertRaw_extends s ⟨x, lo, hi⟩
    obtain ⟨h1, h2⟩ := insertRaw_spec hs (n := ⟨x, lo, hi⟩) hl hh
    refine ⟨h1, hext, validIn_reg (nodeAt_lt h2), ?_⟩
    rw [unfold_of_nodeAt h1 (r := .reg _) rfl h2]
    simp only [Ref.isNeg]
    rw [unfold_extends hext hl, unfold_extends hext hh]

theorem getOrInsert_red {s : Store} (hr : StoreRed s) {x : Nat} {lo hi : Ref} (hne : lo ≠ hi) :
    StoreRed (getOrInsert s ⟨x, lo, hi⟩).1 := by
  simp only [getOrInsert]
  split
  · rename_i hc
    refine insertRaw_red hr ⟨fun e => hne (Ref.neg_inj e), ?_, ?_⟩
    · cases hi <;> simp_all [Ref.isNeg, Ref.neg]
    · cases hi <;> simp_all [Ref.isNeg, Ref.neg]
  · rename_i hc
    refine insertRaw_red hr ⟨hne, ?_, ?_⟩
    · cases hi <;> simp_all [Ref.isNeg]
    · cases hi <;> simp_all [Ref.isNeg]

/-- the table operation is find-or-append (the behaviour `C02Table.table_refines_set` proves of
the robin-hood table: a hit returns the index holding the key and changes nothing, a miss
appends the key at index `len`) -/
theorem insertRaw_find_or_append (s : Store) (n : Node) :
    (n ∈ s → (insertRaw s n).1 = s) ∧
    (n ∉ s → (insertRaw s n).1 = n :: s ∧ (insertRaw s n).2 = s.length) ∧
    nodeAt (insertRaw s n).1 (insertRaw s n).2 = some n := by
  simp only [insertRaw]
  cases hf : findNode s n with
  | none =>
    have := findNode_none_iff.1 hf
    exact ⟨fun h => absurd h this, fun _ => ⟨rfl, rfl⟩, by simp [nodeAt]⟩
  | some i =>
    have hn := findNode_some hf
    exact ⟨fun _ => rfl, fun h => absurd (nodeAt_mem hn) h, hn⟩

/-- in a reduced table every valid reference unfolds to a reduced diagram (no node with equal
children, every high edge regular and not false) -/
theorem unfold_red {s : Store} (hs : StoreOK s) (hr : StoreRed s) : ∀ (P : Ptr) {r : Ref}, r.ValidIn s →
    unfold s r = P → P.red := by
  intro P
  induction P with
  | tru => intros; trivial
  | fls => intros; trivial
  | node c v L H ihL ihH =>
    intro r hv e
    rcases valid_cases hs hv with rfl | rfl | ⟨i, n, hi, hn, nl, nh, h⟩
    · simp at e
    · simp at e
    · rw [h] at e
      simp only [Ptr.node.injEq] at e
      obtain ⟨_, _, el, eh⟩ := e
      obtain ⟨r1, r2, r3⟩ := hr n (nodeAt_mem hn)
      refine ⟨?_, ?_, ?_, ihL nl el, ihH nh eh⟩
      · rw [← el, ← eh]; exact fun e' => r1 (unfold_inj hs nl nh e')
      · rw [← eh, isNeg_unfold hs nh]; exact r2
      · rw [← eh]
        intro e'
        have : unfold s n.hi = unfold s .fls := by rw [e', unfold_fls]
        exact r3 (unfold_inj hs nh (validIn_fls s) this)

end BddStore
