import RsddModel.Model.Sdd
/-!
# SDD lemmas, part 1: evaluation, partitions (pointwise counting), standard triples, vtree facts
-/
namespace Sdd
open Spec

/-! ## evaluation -/

@[simp] theorem eval_tru (a : Assign) : Ptr.tru.eval a = true := by simp [Ptr.eval]
@[simp] theorem eval_fls (a : Assign) : Ptr.fls.eval a = false := by simp [Ptr.eval]
theorem eval_lit (a : Assign) (v p) : (Ptr.lit v p).eval a = (if p then a v else !(a v)) := by
  simp [Ptr.eval]
theorem eval_bdd (a : Assign) (c l i lo hi) :
    (Ptr.bdd c l i lo hi).eval a = xor c (if a l then hi.eval a else lo.eval a) := by
  simp [Ptr.eval]
theorem eval_dec (a : Assign) (c i es) : (Ptr.dec c i es).eval a = xor c (evalElems a es) := by
  simp [Ptr.eval]
@[simp] theorem evalElems_nil (a : Assign) : evalElems a [] = false := by simp [evalElems]
@[simp] theorem evalElems_cons (a : Assign) (e : Elem) (es) :
    evalElems a (e :: es) = ((e.1.eval a && e.2.eval a) || evalElems a es) := by
  obtain ⟨p, s⟩ := e; simp [evalElems]

@[simp] theorem eval_neg (a : Assign) (p : Ptr) : p.neg.eval a = !(p.eval a) := by
  cases p with
  | lit v pol => cases pol <;> simp [Ptr.neg, Ptr.eval]
  | _ => simp [Ptr.neg, Ptr.eval]

@[simp] theorem neg_neg (p : Ptr) : p.neg.neg = p := by
  cases p <;> simp [Ptr.neg]

theorem isTrue_eq {p : Ptr} (h : p.isTrue = true) : p = .tru := by
  cases p <;> simp_all [Ptr.isTrue]
theorem isFalse_eq {p : Ptr} (h : p.isFalse = true) : p = .fls := by
  cases p <;> simp_all [Ptr.isFalse]
theorem isTrue_eval {p : Ptr} (h : p.isTrue = true) (a) : p.eval a = true := by
  rw [isTrue_eq h]; simp
theorem isFalse_eval {p : Ptr} (h : p.isFalse = true) (a) : p.eval a = false := by
  rw [isFalse_eq h]; simp

theorem evalElems_append (a : Assign) (l1 l2 : List Elem) :
    evalElems a (l1 ++ l2) = (evalElems a l1 || evalElems a l2) := by
  induction l1 with
  | nil => simp
  | cons e l ih => simp [ih, Bool.or_assoc]

/-! ## partitions, pointwise: `cnt a es` = number of elements whose prime is true under `a`.
The primes of `es` are pairwise exclusive and exhaustive iff `cnt a es = 1` for every `a`. -/

def cnt (a : Assign) (es : List Elem) : Nat := es.countP (fun e => e.1.eval a)

@[simp] theorem cnt_nil (a : Assign) : cnt a [] = 0 := rfl
theorem cnt_cons (a : Assign) (e : Elem) (es) :
    cnt a (e :: es) = (if e.1.eval a then 1 else 0) + cnt a es := by
  simp only [cnt, List.countP_cons]; omega
theorem cnt_append (a : Assign) (l1 l2 : List Elem) : cnt a (l1 ++ l2) = cnt a l1 + cnt a l2 := by
  simp [cnt, List.countP_append]

/-- primes pairwise exclusive and exhaustive -/
def Partition (es : List Elem) : Prop := ∀ a, cnt a es = 1

theorem evalElems_of_cnt_zero {a : Assign} {es : List Elem} (h : cnt a es = 0) :
    evalElems a es = false := by
  induction es with
  | nil => simp
  | cons e l ih =>
    rw [cnt_cons] at h
    cases hp : e.1.eval a
    · simp [hp] at h; simp [hp, ih h]
    · simp [hp] at h

theorem cnt_negSubs (a : Assign) (es : List Elem) : cnt a (negSubs es) = cnt a es := by
  induction es with
  | nil => rfl
  | cons e l ih =>
    have : negSubs (e :: l) = (e.1, e.2.neg) :: negSubs l := rfl
    rw [this, cnt_cons, cnt_cons, ih]

/-- under a partition the complement of `⋁ pᵢ ∧ sᵢ` is `⋁ pᵢ ∧ ¬sᵢ` -/
theorem evalElems_negSubs {a : Assign} {es : List Elem} (h : cnt a es = 1) :
    evalElems a (negSubs es) = !(evalElems a es) := by
  induction es with
  | nil => simp at h
  | cons e l ih =>
    have e1 : negSubs (e :: l) = (e.1, e.2.neg) :: negSubs l := rfl
    rw [cnt_cons] at h
    rw [e1, evalElems_cons, evalElems_cons]
    cases hp : e.1.eval a
    · simp [hp] at h; simp [hp, ih h]
    · simp [hp] at h
      have h0 : cnt a (negSubs l) = 0 := by rw [cnt_negSubs]; exact h
      simp [hp, evalElems_of_cnt_zero h, evalElems_of_cnt_zero h0]

theorem cnt_pos_of_mem {a : Assign} {es : List Elem} {e : Elem}
    (he : e ∈ es) (hp : e.1.eval a = true) : 1 ≤ cnt a es := by
  induction es with
  | nil => cases he
  | cons y l ih =>
    rw [cnt_cons]
    rcases List.mem_cons.1 he with rfl | hm
    · simp [hp]
    · have := ih hm; omega

/-- the selected element decides the value -/
theorem evalElems_of_mem {a : Assign} {es : List Elem} {e : Elem} (h : cnt a es = 1)
    (he : e ∈ es) (hp : e.1.eval a = true) : evalElems a es = e.2.eval a := by
  induction es with
  | nil => cases he
  | cons x l ih =>
    rw [cnt_cons] at h
    rcases List.mem_cons.1 he with rfl | hm
    · simp [hp] at h
      simp [hp, evalElems_of_cnt_zero h]
    · cases hx : x.1.eval a
      · simp [hx] at h; simp [hx, ih h hm]
      · simp [hx] at h
        have := cnt_pos_of_mem hm hp
        omega

theorem evalElems_true_of_mem {a : Assign} {es : List Elem} {e : Elem}
    (he : e ∈ es) (hp : (e.1.eval a && e.2.eval a) = true) : evalElems a es = true := by
  induction es with
  | nil => cases he
  | cons y l ih =>
    rcases List.mem_cons.1 he with rfl | hm
    · simp [hp]
    · simp [ih hm]

/-! ## sorting keeps counts and values -/

theorem cnt_insertByPrime (a : Assign) (x : Elem) (l : List Elem) :
    cnt a (insertByPrime x l) = cnt a (x :: l) := by
  induction l with
  | nil => rfl
  | cons y ys ih =>
    simp only [insertByPrime]
    split
    · rw [cnt_cons, ih, cnt_cons, cnt_cons, cnt_cons]; omega
    · rfl

theorem evalElems_insertByPrime (a : Assign) (x : Elem) (l : List Elem) :
    evalElems a (insertByPrime x l) = evalElems a (x :: l) := by
  induction l with
  | nil => rfl
  | cons y ys ih =>
    simp only [insertByPrime]
    split
    · rw [evalElems_cons, ih, evalElems_cons, evalElems_cons, evalElems_cons]
      cases (x.1.eval a && x.2.eval a) <;> cases (y.1.eval a && y.2.eval a) <;> simp
    · rfl

theorem mem_insertByPrime {x e : Elem} {l : List Elem} :
    e ∈ insertByPrime x l ↔ e = x ∨ e ∈ l := by
  induction l with
  | nil => simp [insertByPrime]
  | cons y ys ih =>
    simp only [insertByPrime]
    split
    · simp only [List.mem_cons, ih]
      constructor
      · rintro (h | h | h)
        · exact Or.inr (Or.inl h)
        · exact Or.inl h
        · exact Or.inr (Or.inr h)
      · rintro (h | h | h)
        · exact Or.inr (Or.inl h)
        · exact Or.inl h
        · exact Or.inr (Or.inr h)
    · simp

theorem cnt_sortByPrime (a : Assign) (l : List Elem) : cnt a (sortByPrime l) = cnt a l := by
  induction l with
  | nil => rfl
  | cons x xs ih => simp only [sortByPrime]; rw [cnt_insertByPrime, cnt_cons, cnt_cons, ih]

theorem evalElems_sortByPrime (a : Assign) (l : List Elem) :
    evalElems a (sortByPrime l) = evalElems a l := by
  induction l with
  | nil => rfl
  | cons x xs ih =>
    simp only [sortByPrime]; rw [evalElems_insertByPrime, evalElems_cons, evalElems_cons, ih]

theorem mem_sortByPrime {e : Elem} {l : List Elem} : e ∈ sortByPrime l ↔ e ∈ l := by
  induction l with
  | nil => simp [sortByPrime]
  | cons x xs ih => simp only [sortByPrime, mem_insertByPrime, ih, List.mem_cons]

/-! ## `Ite::new` is sound for every order predicate (copy of the BDD proof) -/

def Ite.eval (a : Assign) : Ite → Bool
  | .choice f g h => iteB (f.eval a) (g.eval a) (h.eval a)
  | .complChoice f g h => !(iteB (f.eval a) (g.eval a) (h.eval a))
  | .const p => p.eval a

theorem introConst_sound (f g h : Ptr) (a : Assign) :
    let r := introConst f g h
    iteB (r.1.eval a) (r.2.1.eval a) (r.2.2.eval a) = iteB (f.eval a) (g.eval a) (h.eval a) := by
  simp only [introConst]
  split
  · subst_vars; simp [iteB]; cases h.eval a <;> simp
  · split
    · subst_vars; simp [iteB]; cases h.eval a <;> simp
    · split
      · subst_vars; simp [iteB]; cases g.eval a <;> simp
      · rfl

theorem terminal_sound (f g h r : Ptr) (a : Assign) (hr : terminal? f g h = some r) :
    r.eval a = iteB (f.eval a) (g.eval a) (h.eval a) := by
  simp only [terminal?] at hr
  split at hr
  · cases hr; rename_i h1; simp [iteB, isTrue_eval h1]
  · split at hr
    · cases hr; rename_i h1; simp [iteB, isFalse_eval h1]
    · split at hr
      · cases hr; rename_i h1; simp at h1; simp [iteB, isTrue_eval h1.1, isFalse_eval h1.2]
      · split at hr
        · cases hr; rename_i h1; simp at h1; simp [iteB, isFalse_eval h1.1, isTrue_eval h1.2]
        · split at hr
          · cases hr; subst_vars; simp [iteB]
          · cases hr

theorem reorder_sound (ord) (f g h : Ptr) (a : Assign) :
    let r := reorder ord f g h
    iteB (r.1.eval a) (r.2.1.eval a) (r.2.2.eval a) = iteB (f.eval a) (g.eval a) (h.eval a) := by
  simp only [reorder]
  split
  · rename_i h1; simp at h1; simp [iteB, isTrue_eval h1.1]; cases f.eval a <;> cases h.eval a <;> simp
  · split
    · rename_i h1; simp at h1; simp [iteB, isFalse_eval h1.1]; cases f.eval a <;> cases g.eval a <;> simp
    · split
      · rename_i h1; simp at h1; simp [iteB, isTrue_eval h1.1]; cases f.eval a <;> cases g.eval a <;> simp
      · split
        · rename_i h1; simp at h1; simp [iteB, isFalse_eval h1.1]; cases f.eval a <;> cases h.eval a <;> simp
        · split
          · rename_i h1; simp at h1; obtain ⟨h2, _⟩ := h1; subst h2
            simp [iteB]; cases f.eval a <;> cases h.eval a <;> simp
          · rfl

theorem standardise_sound (f g h : Ptr) (a : Assign) :
    (standardise f g h).eval a = iteB (f.eval a) (g.eval a) (h.eval a) := by
  simp only [standardise]
  split
  · simp [Ite.eval, iteB]; cases f.eval a <;> simp
  · split
    · simp [Ite.eval, iteB]; cases f.eval a <;> simp
    · split
      · simp [Ite.eval, iteB]; cases f.eval a <;> simp
      · simp [Ite.eval]

/-- `Ite::new` is sound for EVERY order predicate -/
theorem iteNew_sound (ord) (f g h : Ptr) (a : Assign) :
    (Ite.new ord f g h).eval a = iteB (f.eval a) (g.eval a) (h.eval a) := by
  have h1 := introConst_sound f g h a
  simp only [Ite.new]
  generalize introConst f g h = t at h1 ⊢
  obtain ⟨f1, g1, h1'⟩ := t
  simp only at h1 ⊢
  split
  · rename_i r hr; simp [Ite.eval, terminal_sound _ _ _ _ a hr, h1]
  · have h2 := reorder_sound ord f1 g1 h1' a
    generalize reorder ord f1 g1 h1' = t2 at h2 ⊢
    obtain ⟨f2, g2, h2'⟩ := t2
    simp only at h2 ⊢
    rw [standardise_sound, h2, h1]


/-! ## vtree facts (in-order indices, structural `lca`) -/

theorem VTree.size_pos (t : VTree) : 0 < t.size := by cases t <;> simp [VTree.size]; omega

theorem VTree.sub?_range {t : VTree} {off i : Nat} {s : VTree} (h : t.sub? off i = some s) :
    off ≤ i ∧ i < off + t.size := by
  induction t generalizing off with
  | leaf v =>
    simp only [VTree.sub?] at h
    split at h
    · subst_vars; simp [VTree.size]
    · cases h
  | node l r ihl ihr =>
    simp only [VTree.sub?] at h
    split at h
    · have := ihl h; simp only [VTree.size]; omega
    · split at h
      · simp only [VTree.size]; omega
      · have := ihr h; simp only [VTree.size]; omega

theorem VTree.sub?_node_lt {l r : VTree} {off i : Nat} (h : i < off + l.size) :
    (VTree.node l r).sub? off i = l.sub? off i := by
  simp [VTree.sub?, h]
theorem VTree.sub?_node_eq (l r : VTree) (off : Nat) :
    (VTree.node l r).sub? off (off + l.size) = some (.node l r) := by
  simp [VTree.sub?]
theorem VTree.sub?_node_gt {l r : VTree} {off i : Nat} (h : off + l.size < i) :
    (VTree.node l r).sub? off i = r.sub? (off + l.size + 1) i := by
  have h1 : ¬ i < off + l.size := by omega
  have h2 : ¬ i = off + l.size := by omega
  simp [VTree.sub?, h1, h2]

theorem VTree.varIndex?_sub {t : VTree} {off v i : Nat} (h : t.varIndex? off v = some i) :
    t.sub? off i = some (.leaf v) := by
  induction t generalizing off with
  | leaf w =>
    simp only [VTree.varIndex?] at h
    split at h
    · cases h; subst_vars; simp [VTree.sub?]
    · cases h
  | node l r ihl ihr =>
    simp only [VTree.varIndex?] at h
    split at h
    · rename_i j hj; cases h
      have h1 := ihl hj
      rw [VTree.sub?_node_lt (VTree.sub?_range h1).2]; exact h1
    · have h1 := ihr h
      rw [VTree.sub?_node_gt (by have := (VTree.sub?_range h1).1; omega)]; exact h1

/-- the left child of node `i+1`, when a leaf, is the node with index `i` -/
theorem VTree.sub?_leftLeaf {t : VTree} {off i w : Nat} {r : VTree}
    (h : t.sub? off (i + 1) = some (.node (.leaf w) r)) : t.sub? off i = some (.leaf w) := by
  induction t generalizing off with
  | leaf v =>
    simp only [VTree.sub?] at h
    split at h <;> cases h
  | node l r0 ihl ihr =>
    by_cases h1 : i + 1 < off + l.size
    · rw [VTree.sub?_node_lt h1] at h
      rw [VTree.sub?_node_lt (by omega)]; exact ihl h
    · by_cases h2 : i + 1 = off + l.size
      · rw [h2, VTree.sub?_node_eq] at h
        cases h
        simp only [VTree.size] at h2
        have : i = off := by omega
        subst this
        simp [VTree.sub?, VTree.size]
      · rw [VTree.sub?_node_gt (by omega)] at h
        have h3 := ihr h
        have := (VTree.sub?_range h3).1
        rw [VTree.sub?_node_gt (by omega)]; exact h3

theorem VTree.lca_range (t : VTree) (off i j : Nat) :
    off ≤ t.lca off i j ∧ t.lca off i j < off + t.size := by
  induction t generalizing off with
  | leaf v => simp [VTree.lca, VTree.size]
  | node l r ihl ihr =>
    simp only [VTree.lca, VTree.size]
    split
    · have := ihl off; omega
    · split
      · have := ihr (off + l.size + 1); omega
      · omega

/-- if the lca of `i < j` is a right-linear node different from `i`, then `i` is its left leaf -/
theorem VTree.lca_rl {t : VTree} {off i j w : Nat} {r : VTree} (hoff : off ≤ i) (hij : i < j)
    (hk : t.lca off i j ≠ i) (hs : t.sub? off (t.lca off i j) = some (.node (.leaf w) r)) :
    i + 1 = t.lca off i j := by
  induction t generalizing off with
  | leaf v =>
    simp only [VTree.lca, VTree.sub?] at hs
    simp at hs
  | node l r0 ihl ihr =>
    simp only [VTree.lca] at hk hs ⊢
    split at hs
    · rename_i hc
      simp only [hc, and_self, if_true] at hk ⊢
      have hr := (VTree.lca_range l off i j).2
      rw [VTree.sub?_node_lt hr] at hs
      exact ihl hoff hk hs
    · rename_i hc
      simp only [hc, if_false] at hk ⊢
      split at hs
      · rename_i hc2
        simp only [hc2, and_self, if_true] at hk ⊢
        have hr := (VTree.lca_range r0 (off + l.size + 1) i j).1
        rw [VTree.sub?_node_gt (by omega)] at hs
        exact ihr (by omega) hk hs
      · rename_i hc2
        simp only [hc2, if_false] at hk ⊢
        rw [VTree.sub?_node_eq] at hs
        cases hs
        simp only [VTree.size] at hc hc2 hk ⊢
        omega

/-- the lca of two distinct nodes of the tree is an internal node -/
theorem VTree.lca_internal {t : VTree} {off i j : Nat} {si sj : VTree}
    (hi : t.sub? off i = some si) (hj : t.sub? off j = some sj) (hne : i ≠ j) :
    ∃ l r, t.sub? off (t.lca off i j) = some (.node l r) := by
  induction t generalizing off with
  | leaf v =>
    have := VTree.sub?_range hi; have := VTree.sub?_range hj
    simp only [VTree.size] at *; omega
  | node l r ihl ihr =>
    simp only [VTree.lca]
    split
    · rename_i hc
      rw [VTree.sub?_node_lt hc.1] at hi; rw [VTree.sub?_node_lt hc.2] at hj
      obtain ⟨l', r', h⟩ := ihl hi hj
      exact ⟨l', r', by rw [VTree.sub?_node_lt (VTree.lca_range l off i j).2]; exact h⟩
    · split
      · rename_i hc
        rw [VTree.sub?_node_gt hc.1] at hi; rw [VTree.sub?_node_gt hc.2] at hj
        obtain ⟨l', r', h⟩ := ihr hi hj
        refine ⟨l', r', ?_⟩
        rw [VTree.sub?_node_gt (by have := (VTree.lca_range r (off + l.size + 1) i j).1; omega)]
        exact h
      · exact ⟨l, r, VTree.sub?_node_eq l r off⟩

theorem VTree.lca_self {t : VTree} {off i : Nat} {s : VTree} (hi : t.sub? off i = some s) :
    t.lca off i i = i := by
  induction t generalizing off with
  | leaf v =>
    have := VTree.sub?_range hi
    simp only [VTree.size] at this
    simp only [VTree.lca]; omega
  | node l r ihl ihr =>
    simp only [VTree.lca]
    split
    · rename_i hc; rw [VTree.sub?_node_lt hc.1] at hi; exact ihl hi
    · split
      · rename_i hc; rw [VTree.sub?_node_gt hc.1] at hi; exact ihr hi
      · omega

end Sdd
