import RsddModel.Model.LruLemmas
/-!
# Lemmas: the lossy cache `Lru` (`src/util/lru.rs`), property C16

The slot invariant `Lru.Inv`, its preservation (`inv_new`, `inv_insertNoGrow`, `inv_grow`,
`inv_insert`), `grow_keeps` and the one-step law (`insert_law`, `insert_get_self`) are in
`Model/LruLemmas.lean` (core only, because the `CacheImpl` instance of the executable model needs
them).  Here:

* `growRust_eq_grow` / `needGrow_fresh_false`: the growth test of the inner insertions of `grow`
  never fires when `GROW_RATIO = num/den ≥ 1/2`, so the model's `grow` (which re-inserts with
  `insertNoGrow`) is the Rust's `grow` (which re-inserts with the full `insert`);
* `countOk_*`: `num_filled` is the number of filled slots, in particular `≤ 2^cap`;
* `lru_lawful`: the history theorem;
* `stale_with_inconsistent_hashes`: why `hashOf` is a hypothesis.
-/
namespace Lru

variable {K V : Type}

/-! ## the inner growth test of `grow` never fires -/

/-- one iteration of the loop of the Rust's `grow`, literally: the full `insert` -/
def growStepRust (num den : Nat) (acc : Tbl K V) (e : Option (Elem K V)) : Tbl K V :=
  match e with
  | some e => insert num den acc e.key e.val e.hash
  | none => acc

/-- the Rust's `grow`, literally (inner insertions run their own growth test) -/
def growRust (num den : Nat) (t : Tbl K V) : Tbl K V :=
  let nt := t.tbl.foldl (growStepRust num den) (new (t.cap + 1))
  ⟨nt.tbl, nt.cap, t.numFilled⟩

theorem growStep_numFilled_le (acc : Tbl K V) (e : Option (Elem K V)) :
    (growStep acc e).numFilled ≤ acc.numFilled + 1 := by
  cases e with
  | none => exact Nat.le_succ _
  | some e =>
    simp only [growStep, insertNoGrow]
    split <;> omega

/-- a table of `2^(c+1)` slots that has room for `2^c` more than its fill count does not ask for
growth when `num/den ≥ 1/2` -/
theorem needGrow_false_of_le {num den c : Nat} (hr : den ≤ 2 * num) {acc : Tbl K V}
    (hcap : acc.cap = c + 1) (hn : acc.numFilled ≤ 2 ^ c) : needGrow num den acc = false := by
  simp only [needGrow, hcap, decide_eq_false_iff_not, Nat.not_lt, Nat.pow_succ]
  calc acc.numFilled * den ≤ 2 ^ c * (2 * num) := Nat.mul_le_mul hn hr
    _ = 2 ^ c * 2 * num := by rw [Nat.mul_assoc]

/-- **`needGrow_fresh_false`**, for the fold: starting from any accumulator of capacity exponent
`c+1` with `numFilled + (number of elements still to insert) ≤ 2^c`, every accumulator the loop of
`grow` passes through answers `false` to the growth test, provided `num/den ≥ 1/2`; hence the loop
with the full `insert` equals the loop with `insertNoGrow`. -/
theorem foldl_growStepRust_eq {num den c : Nat} (hr : den ≤ 2 * num)
    (l : List (Option (Elem K V))) (acc : Tbl K V)
    (hcap : acc.cap = c + 1) (hn : acc.numFilled + l.length ≤ 2 ^ c) :
    l.foldl (growStepRust num den) acc = l.foldl growStep acc := by
  induction l generalizing acc with
  | nil => rfl
  | cons x l ih =>
    simp only [List.length_cons] at hn
    have hng : needGrow num den acc = false := needGrow_false_of_le hr hcap (by omega)
    have hx : growStepRust num den acc x = growStep acc x := by
      cases x with
      | none => rfl
      | some e => simp only [growStepRust, growStep, insert_eq, hng]; rfl
    rw [List.foldl_cons, List.foldl_cons, hx]
    apply ih
    · rw [growStep_cap, hcap]
    · have := growStep_numFilled_le acc x; omega

/-- the growth test is false at every prefix of the loop of `grow` -/
theorem needGrow_fresh_false {num den : Nat} (hr : den ≤ 2 * num) {t : Tbl K V}
    (hl : t.tbl.length = 2 ^ t.cap) (n : Nat) :
    needGrow num den ((t.tbl.take n).foldl growStep (new (t.cap + 1))) = false := by
  have hb : ∀ (l : List (Option (Elem K V))) (acc : Tbl K V),
      (l.foldl growStep acc).numFilled ≤ acc.numFilled + l.length := by
    intro l
    induction l with
    | nil => intro acc; exact Nat.le_refl _
    | cons x l ih =>
      intro acc
      have h1 := ih (growStep acc x)
      have h2 := growStep_numFilled_le acc x
      simp only [List.foldl_cons, List.length_cons]; omega
  apply needGrow_false_of_le hr (c := t.cap)
  · rw [foldl_growStep_cap]; rfl
  · have h1 := hb (t.tbl.take n) (new (t.cap + 1))
    have h2 : (t.tbl.take n).length ≤ 2 ^ t.cap := by
      rw [List.length_take, hl]; exact Nat.min_le_right ..
    have h3 : (new (t.cap + 1) : Tbl K V).numFilled = 0 := rfl
    omega

/-- the model's `grow` is the Rust's `grow` for every ratio `num/den ≥ 1/2` (e.g. `7/10`) -/
theorem growRust_eq_grow {num den : Nat} (hr : den ≤ 2 * num) {t : Tbl K V}
    (hl : t.tbl.length = 2 ^ t.cap) : growRust num den t = grow t := by
  unfold growRust
  rw [foldl_growStepRust_eq hr t.tbl (new (t.cap + 1)) rfl
    (by show 0 + _ ≤ _; rw [hl]; omega)]
  rfl

example {t : Tbl K V} (hl : t.tbl.length = 2 ^ t.cap) : growRust 7 10 t = grow t :=
  growRust_eq_grow (by decide) hl

/-! ## `num_filled` is the number of filled slots

Not needed for the cache contract (the invariant `Inv` and every theorem below hold for an
arbitrary `numFilled`, i.e. whenever growth happens); it shows that the Rust's `grow`, which
leaves `num_filled` untouched, keeps the counter exact, so `num_filled ≤ 2^cap` always. -/

theorem countOk_new (cap : Nat) : CountOk (new cap : Tbl K V) := by
  simp [CountOk, new, List.countP_replicate]

theorem countOk_insertNoGrow {t : Tbl K V} (hl : t.tbl.length = 2 ^ t.cap) (hc : CountOk t)
    (k : K) (v : V) (h : Nat) : CountOk (insertNoGrow t k v h) := by
  have hq : powCap h t.cap < t.tbl.length := by rw [hl]; exact powCap_lt _ _
  unfold CountOk at *
  simp only [insertNoGrow, List.countP_set hq, List.getD_eq_getElem?_getD,
    List.getElem?_eq_getElem hq, Option.getD_some, Option.isSome_some, if_true]
  split
  · rename_i hs
    have : 0 < t.tbl.countP Option.isSome :=
      List.countP_pos_iff.2 ⟨_, List.getElem_mem hq, hs⟩
    omega
  · omega

/-- hypotheses of the re-insertion loop (those of `foldl_growStep_char`) -/
structure GrowPre (c : Nat) (acc : Tbl K V) (l : List (Option (Elem K V))) : Prop where
  hcap : acc.cap = c + 1
  hlen : acc.tbl.length = 2 ^ (c + 1)
  hpw : l.Pairwise (fun a b => ∀ ea eb, a = some ea → b = some eb →
      powCap ea.hash c ≠ powCap eb.hash c)
  hacc : ∀ (p : Nat) (e : Elem K V), acc.tbl[p]? = some (some e) → powCap e.hash (c + 1) = p
  hdis : ∀ (p : Nat) (e : Elem K V), acc.tbl[p]? = some (some e) → ∀ e' : Elem K V, some e' ∈ l →
      powCap e.hash c ≠ powCap e'.hash c

theorem GrowPre.step_none {c : Nat} {acc : Tbl K V} {l : List (Option (Elem K V))}
    (h : GrowPre c acc (none :: l)) : GrowPre c acc l :=
  ⟨h.hcap, h.hlen, (List.pairwise_cons.1 h.hpw).2, h.hacc,
    fun p e hp e' he' => h.hdis p e hp e' (List.mem_cons_of_mem _ he')⟩

/-- the slot a re-inserted element goes to is empty (nothing is overwritten during growth) -/
theorem GrowPre.slot_empty {c : Nat} {acc : Tbl K V} {l : List (Option (Elem K V))}
    {e0 : Elem K V} (h : GrowPre c acc (some e0 :: l)) :
    acc.tbl[powCap e0.hash (c + 1)]? = some none := by
  have hq : powCap e0.hash (c + 1) < acc.tbl.length := by rw [h.hlen]; exact powCap_lt _ _
  cases hs : acc.tbl[powCap e0.hash (c + 1)] with
  | none => rw [List.getElem?_eq_getElem hq, hs]
  | some e =>
    have hs' : acc.tbl[powCap e0.hash (c + 1)]? = some (some e) := by
      rw [List.getElem?_eq_getElem hq, hs]
    exact absurd (powCap_of_powCap_succ (h.hacc _ e hs'))
      (h.hdis _ e hs' e0 (List.mem_cons_self ..))

theorem GrowPre.step_some {c : Nat} {acc : Tbl K V} {l : List (Option (Elem K V))}
    {e0 : Elem K V} (h : GrowPre c acc (some e0 :: l)) : GrowPre c (growStep acc (some e0)) l := by
  have hpw := List.pairwise_cons.1 h.hpw
  have hstep : ∀ (p : Nat) (e : Elem K V), (growStep acc (some e0)).tbl[p]? = some (some e) →
      acc.tbl[p]? = some (some e) ∨ (e = e0 ∧ powCap e0.hash (c + 1) = p) := by
    intro p e he
    simp only [growStep, insertNoGrow_tbl, List.getElem?_set, h.hcap] at he
    split at he
    · rename_i hp
      split at he
      · simp only [Option.some.injEq] at he
        exact Or.inr ⟨he.symm, hp⟩
      · cases he
    · exact Or.inl he
  refine ⟨by rw [growStep_cap, h.hcap], by rw [growStep_length, h.hlen], hpw.2, ?_, ?_⟩
  · intro p e he
    rcases hstep p e he with h1 | ⟨h1, hp⟩
    · exact h.hacc p e h1
    · rw [h1]; exact hp
  · intro p e he e' he'
    rcases hstep p e he with h1 | ⟨h1, _⟩
    · exact h.hdis p e h1 e' (List.mem_cons_of_mem _ he')
    · rw [h1]; exact hpw.1 (some e') he' e0 e' rfl rfl

theorem foldl_growStep_count {c : Nat} (l : List (Option (Elem K V))) (acc : Tbl K V)
    (h : GrowPre c acc l) :
    (l.foldl growStep acc).tbl.countP Option.isSome =
      acc.tbl.countP Option.isSome + l.countP Option.isSome := by
  induction l generalizing acc with
  | nil => simp
  | cons x l ih =>
    cases x with
    | none =>
      rw [List.foldl_cons, List.countP_cons]
      simpa [growStep] using ih acc h.step_none
    | some e0 =>
      rw [List.foldl_cons, ih _ h.step_some, List.countP_cons]
      have hq : powCap e0.hash (c + 1) < acc.tbl.length := by rw [h.hlen]; exact powCap_lt _ _
      have hs := h.slot_empty
      rw [List.getElem?_eq_getElem hq] at hs
      simp only [Option.some.injEq] at hs
      simp only [growStep, insertNoGrow_tbl, h.hcap, List.countP_set hq, hs]
      simp
      omega

theorem grow_count {hashOf : K → Nat} {t : Tbl K V} (hi : Inv hashOf t) :
    (grow t).tbl.countP Option.isSome = t.tbl.countP Option.isSome := by
  have hnew : ∀ (p : Nat) (e : Elem K V), (new (t.cap + 1) : Tbl K V).tbl[p]? ≠ some (some e) := by
    intro p e h
    simp only [new, List.getElem?_replicate] at h
    split at h <;> cases h
  have := foldl_growStep_count (c := t.cap) t.tbl (new (t.cap + 1))
    ⟨rfl, by simp [new], inv_pairwise hi, fun p e h => absurd h (hnew p e),
      fun p e h => absurd h (hnew p e)⟩
  rw [grow_eq]
  simp only [this]
  simp [new, List.countP_replicate]

theorem countOk_grow {hashOf : K → Nat} {t : Tbl K V} (hi : Inv hashOf t) (hc : CountOk t) :
    CountOk (grow t) := by
  unfold CountOk at *
  rw [grow_count hi, ← hc]; rfl

theorem countOk_insert {hashOf : K → Nat} (num den : Nat) {t : Tbl K V} (hi : Inv hashOf t)
    (hc : CountOk t) (k : K) (v : V) (h : Nat) : CountOk (insert num den t k v h) := by
  rw [insert_eq]
  split
  · exact countOk_insertNoGrow (inv_grow hi).1 (countOk_grow hi hc) k v h
  · exact countOk_insertNoGrow hi.1 hc k v h

/-- the fill counter never exceeds the number of slots -/
theorem numFilled_le {hashOf : K → Nat} {t : Tbl K V} (hi : Inv hashOf t) (hc : CountOk t) :
    t.numFilled ≤ 2 ^ t.cap := by
  rw [hc, ← hi.1]; exact List.countP_le_length

/-! ## history theorem -/

section
variable [DecidableEq K]

/-- the value of the last pair of `ops` whose key is `k` -/
def lastInserted : List (K × V) → K → Option V
  | [], _ => none
  | (k', v) :: rest, k =>
    match lastInserted rest k with
    | some v' => some v'
    | none => if k' = k then some v else none

/-- apply a list of insertions, each with the hash of its key -/
def runFrom (hashOf : K → Nat) (num den : Nat) (t : Tbl K V) (ops : List (K × V)) : Tbl K V :=
  ops.foldl (fun t kv => insert num den t kv.1 kv.2 (hashOf kv.1)) t

def run (hashOf : K → Nat) (num den cap : Nat) (ops : List (K × V)) : Tbl K V :=
  runFrom hashOf num den (new cap) ops

omit [DecidableEq K] in
theorem inv_runFrom {hashOf : K → Nat} (num den : Nat) {t : Tbl K V} (hi : Inv hashOf t)
    (ops : List (K × V)) : Inv hashOf (runFrom hashOf num den t ops) := by
  induction ops generalizing t with
  | nil => exact hi
  | cons kv ops ih => exact ih (inv_insert num den hi kv.1 kv.2)

omit [DecidableEq K] in
theorem inv_run (hashOf : K → Nat) (num den cap : Nat) (ops : List (K × V)) :
    Inv hashOf (run hashOf num den cap ops) := inv_runFrom num den (inv_new hashOf cap) ops

theorem runFrom_lawful {hashOf : K → Nat} (num den : Nat) {t : Tbl K V} (hi : Inv hashOf t)
    (ops : List (K × V)) (k : K) (v : V)
    (hg : get (runFrom hashOf num den t ops) k (hashOf k) = some v) :
    lastInserted ops k = some v ∨ (lastInserted ops k = none ∧ get t k (hashOf k) = some v) := by
  induction ops generalizing t with
  | nil => exact Or.inr ⟨rfl, hg⟩
  | cons kv ops ih =>
    obtain ⟨k0, v0⟩ := kv
    rcases ih (inv_insert num den hi k0 v0) hg with h | ⟨hn, h⟩
    · left; simp only [lastInserted, h]
    · simp only [lastInserted, hn]
      by_cases hk : k0 = k
      · subst hk
        rw [insert_get_self num den hi] at h
        left; simpa using h
      · right
        rcases insert_law num den hi _ _ _ _ h with ⟨h1, _⟩ | h1
        · exact absurd h1.symm hk
        · exact ⟨by simp [hk], h1⟩

/-- **history theorem**: after any list of insertions into a fresh table of any capacity, with
any growth ratio and any hash function (collisions arbitrary), a `get` returns nothing or the value
of the last insertion under exactly the asked key -/
theorem lru_lawful (hashOf : K → Nat) (num den cap : Nat) (ops : List (K × V)) (k : K) :
    get (run hashOf num den cap ops) k (hashOf k) = none ∨
    get (run hashOf num den cap ops) k (hashOf k) = lastInserted ops k := by
  cases hg : get (run hashOf num den cap ops) k (hashOf k) with
  | none => exact Or.inl rfl
  | some v =>
    right
    rcases runFrom_lawful num den (inv_new hashOf cap) ops k v hg with h | ⟨_, h⟩
    · exact h.symm
    · rw [get_new] at h; cases h

/-- `lastInserted` really is an inserted pair with the asked key -/
theorem lastInserted_mem (ops : List (K × V)) (k : K) (v : V) (h : lastInserted ops k = some v) :
    (k, v) ∈ ops := by
  induction ops with
  | nil => cases h
  | cons kv ops ih =>
    obtain ⟨k0, v0⟩ := kv
    simp only [lastInserted] at h
    split at h
    · rename_i v' hv'
      cases h
      exact List.mem_cons_of_mem _ (ih hv')
    · split at h
      · rename_i hk
        cases h; cases hk
        exact List.mem_cons_self ..
      · cases h

/-- `lastInserted` is the *last* such pair: `ops` splits around it with no later pair for `k` -/
theorem lastInserted_last (ops : List (K × V)) (k : K) (v : V) (h : lastInserted ops k = some v) :
    ∃ pre post, ops = pre ++ (k, v) :: post ∧ ∀ kv ∈ post, kv.1 ≠ k := by
  induction ops with
  | nil => cases h
  | cons kv ops ih =>
    obtain ⟨k0, v0⟩ := kv
    simp only [lastInserted] at h
    split at h
    · rename_i v' hv'
      cases h
      obtain ⟨pre, post, he, hp⟩ := ih hv'
      exact ⟨(k0, v0) :: pre, post, by rw [he]; rfl, hp⟩
    · rename_i hn
      split at h
      · rename_i hk
        cases h; cases hk
        refine ⟨[], ops, rfl, ?_⟩
        intro kv hkv hk
        have : ∀ (l : List (K × V)), kv ∈ l → lastInserted l kv.1 ≠ none := by
          intro l
          induction l with
          | nil => intro h; cases h
          | cons x l ih' =>
            intro hm
            obtain ⟨a, b⟩ := x
            simp only [lastInserted]
            rcases List.mem_cons.1 hm with h | h
            · cases h; split <;> simp
            · have := ih' h
              split
              · simp
              · rename_i hc; exact absurd hc this
        exact this ops hkv (hk ▸ hn)
      · cases h

end

/-! ## why `hashOf` is a hypothesis: the raw API with inconsistent hashes returns a stale value -/

/-- key `5` is inserted with value `10` at hash `0`, then overwritten with value `20` but at
hash `1`; a lookup at hash `0` still returns the stale `10` -/
example :
    get (insert 7 10 (insert 7 10 (new 1 : Tbl Nat Nat) 5 10 0) 5 20 1) 5 0 = some 10 := by
  decide

theorem stale_with_inconsistent_hashes :
    ∃ (t : Tbl Nat Nat) (k v1 v2 : Nat), v1 ≠ v2 ∧
      get (insert 7 10 (insert 7 10 t k v1 0) k v2 1) k 0 = some v1 :=
  ⟨new 1, 5, 10, 20, by decide, by decide⟩

end Lru
