import RsddModel.Lemmas.BddTotal
/-!
# Lemmas: the builder only looks at the level map on the variables of its operands

The theorems of C01/C02/C05/C08/C19 quantify over an INJECTIVE level map `lvl : Nat → Nat`.  The
level map of a real `VarOrder` over `n` variables (`VarOrder::get`) is only defined on `0..n-1`
(the Rust indexes a vector and panics beyond it; the model's `VarOrder.get` is totalised with
`getD _ 0`), so it is injective on `0..n-1` only.  This file closes that gap: `ite` — hence every
operation built from it — reads `lvl` only at variables of its operands and of cached results, so
two level maps that agree below `N` give the same run on operands over the first `N` variables
(`ite_lvl_congr`).  `Props/C01Order.lean` uses it to restate the properties for a real order.
-/
namespace Bdd
open Spec

/-- the two level maps agree on the first `N` variables -/
def AgreeLt (N : Nat) (lvl lvl' : Nat → Nat) : Prop := ∀ v, v < N → lvl v = lvl' v

section
variable {N : Nat} {lvl lvl' : Nat → Nat} (hag : AgreeLt N lvl lvl')
include hag

theorem ordP_congr {a b : Ptr} (va : a.varsLt N) (vb : b.varsLt N) :
    ordP lvl a b = ordP lvl' a b := by
  cases a <;> cases b <;> simp only [ordP]
  rename_i ca xa la ha cb xb lb hb
  rw [hag xa va.1, hag xb vb.1]

theorem first_congr {a b : Ptr} (va : a.varsLt N) (vb : b.varsLt N) :
    first lvl a b = first lvl' a b := by
  cases a <;> cases b <;> simp only [first, Ptr.top?]
  rename_i ca xa la ha cb xb lb hb
  rw [hag xa va.1, hag xb vb.1]

theorem first_varsLt (l : Nat → Nat) {a b : Ptr} (va : a.varsLt N) (vb : b.varsLt N) :
    (first l a b).varsLt N := by
  rcases first_cases l a b with e | e <;> rw [e] <;> assumption

theorem firstEssential_congr {a b c : Ptr} (va : a.varsLt N) (vb : b.varsLt N) (vc : c.varsLt N) :
    firstEssential lvl a b c = firstEssential lvl' a b c := by
  unfold firstEssential
  rw [first_congr hag va vb, first_congr hag (first_varsLt hag lvl' va vb) vc]

theorem reorder_congr {ord ord' : Ptr → Ptr → Bool} {f g h : Ptr}
    (h1 : ord h f = ord' h f) (h2 : ord g f = ord' g f) :
    reorder ord f g h = reorder ord' f g h := by
  unfold reorder
  rw [h1, h2]

theorem iteNew_congr {f g h : Ptr} (vf : f.varsLt N) (vg : g.varsLt N) (vh : h.varsLt N) :
    Ite.new (ordP lvl) f g h = Ite.new (ordP lvl') f g h := by
  have h1 := introConst_fwd (varsLt_neg_iff N) trivial trivial vf vg vh
  simp only [Ite.new]
  generalize introConst f g h = t at h1 ⊢
  obtain ⟨f1, g1, h1'⟩ := t
  simp only at h1 ⊢
  rw [reorder_congr hag (ordP_congr hag h1.2.2 h1.1) (ordP_congr hag h1.2.1 h1.1)]

/-- **`ite` reads the level map only below `N`** when the cache and the operands only mention
variables `< N`: for every lawful cache, every cache state and every fuel. -/
theorem ite_lvl_congr (C : CacheImpl) :
    ∀ fuel s f g h, CacheVars C N s → f.varsLt N → g.varsLt N → h.varsLt N →
      ite C lvl fuel s f g h = ite C lvl' fuel s f g h := by
  intro fuel
  induction fuel with
  | zero => intro s f g h _ _ _ _; rfl
  | succ n ih =>
    intro s f g h hs vf vg vh
    simp only [ite]
    rw [iteNew_congr hag vf vg vh, firstEssential_congr hag vf vg vh]
    split
    · rfl
    · split
      · rfl
      · split
        · rfl
        · rename_i x hx
          have e1 := ih s _ _ _ hs (condEssential_varsLt x true vf) (condEssential_varsLt x true vg)
            (condEssential_varsLt x true vh)
          rw [← e1]
          cases ht : ite C lvl n s (condEssential f x true) (condEssential g x true) (condEssential h x true) with
          | none => rfl
          | some st =>
            obtain ⟨s1, t⟩ := st
            obtain ⟨hs1, _⟩ := ite_vars C lvl N n _ _ _ _ _ _ hs (condEssential_varsLt x true vf)
              (condEssential_varsLt x true vg) (condEssential_varsLt x true vh) ht
            have e2 := ih s1 _ _ _ hs1 (condEssential_varsLt x false vf) (condEssential_varsLt x false vg)
              (condEssential_varsLt x false vh)
            simp only []
            rw [← e2]

end
end Bdd
