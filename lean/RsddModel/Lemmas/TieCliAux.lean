import RsddModel.Model.Cli
import RsddModel.Model.Ffi
import RsddModel.Model.Orders
import RsddModel.Model.VTree
import RsddModel.Lemmas.Wmc
/-!
# Support definitions and literal mirrors for the translator route of the command-line tools and
the rest of the C interface (`tools/gen_cli.py` ↦ `Model/GenCli.lean`, tied in `Props/TieCli.lean`)

`Model/Cli.lean` models `single_wmc` and the formula tool from the compiled expression on; the glue
before that (weights, variable order, dispatch on `partials`) and the thin C wrappers have no
counterpart in the hand-written model.  This file gives them one: definitions that mirror the Rust
statement by statement (`CliAux.*`, `FfiAux.*`) and theorems that relate the mirrors to the model
(`Cli.singleWmc`, `Cli.formulaToBdd`, `Ffi.modelCount`, `Ffi.fromCParts`, the hypotheses of C19).
-/
set_option linter.unusedVariables false

instance {α : Type} : Inhabited (Sem.Poly α) := ⟨⟨[], 0⟩⟩

namespace CliAux
open Spec Bdd

/-! ## library operations of the mapping table -/

/-- `HashMap<VarLabel, (T, T)>` while it is being filled -/
abbrev Table (α : Type) := Nat → Option (α × α)
def Table.empty {α : Type} : Table α := fun _ => none
def Table.insert {α : Type} (t : Table α) (k : Nat) (v : α × α) : Table α := fun x => if x = k then some v else t x
/-- `HashMap::from_iter((0..n).map(|v| (VarLabel::new(v), f v)))` -/
def Table.ofRange {α : Type} (n : Nat) (f : Nat → α × α) : Table α := fun v => if v < n then some (f v) else none
/-- `WmcParams::new(table)`: the weight of an absent label (the Rust panics) is `(zero, zero)` -/
def Table.params {α : Type} (S : SROps α) (t : Table α) : Weights α := fun v => (t v).getD (S.zero, S.zero)

/-- what the tools may do with `f64` weights beyond the semiring operations (`-`, `/`, `abs`, comparisons, literals other than
0 and 1, `f64::EPSILON`): uninterpreted.  The pristine tools use none of these; a generated definition that needs them takes an
`R : RealOps α` and can therefore not be the model's definition. -/
structure RealOps (α : Type) where
  sub : α → α → α
  div : α → α → α
  abs : α → α
  le : α → α → Bool
  lt : α → α → Bool
  eps : α
  ofLit : String → α

/-- `HashMap::get` on an association list (first entry wins) -/
def lookup {κ β : Type} [DecidableEq κ] : List (κ × β) → κ → Option β
  | [], _ => none
  | (y, b) :: r, x => if x = y then some b else lookup r x

/-- `HashMap::insert` on an association list: replace the entry of a present key, else append -/
def assocInsert {κ β : Type} [DecidableEq κ] : List (κ × β) → κ → β → List (κ × β)
  | [], x, b => [(x, b)]
  | (y, c) :: r, x, b => if x = y then (y, b) :: r else (y, c) :: assocInsert r x b

theorem lookup_eq_mapGet (m : List (String × Nat)) (x : String) : lookup m x = Ser.mapGet m x := by
  induction m with
  | nil => rfl
  | cons p r ih => obtain ⟨y, i⟩ := p; simp only [lookup, Ser.mapGet, ih]

/-- `PartialModel::true_assignments` / `false_assignments` of a model given as a vector -/
def trueAssignments (m : List (Option Bool)) : List Nat :=
  m.zipIdx.filterMap fun (o, i) => if o == some true then some i else none
def falseAssignments (m : List (Option Bool)) : List Nat :=
  m.zipIdx.filterMap fun (o, i) => if o == some false then some i else none

/-- what `BottomUpPlan::from_dtree` reads of a dtree -/
def dtreeShape : VT.DTree → Compile.DTree
  | .leaf c _ _ => .leaf c
  | .node l r _ _ => .node (dtreeShape l) (dtreeShape r)

end CliAux

namespace FfiAux
open Spec Bdd

/-- `WmcParams::set_weight` -/
def setWeight {α : Type} (w : Weights α) (var : Nat) (low high : α) : Weights α :=
  fun v => if v = var then (low, high) else w v
/-- `WmcParams::var_weight` -/
def varWeight {α : Type} (w : Weights α) (var : Nat) : α × α := w var
/-- `new_wmc_params_*`: the empty table -/
def newParams {α : Type} (S : SROps α) : Weights α := fun _ => (S.zero, S.zero)

theorem varWeight_setWeight {α : Type} (w : Weights α) (x : Nat) (lo hi : α) :
    varWeight (setWeight w x lo hi) x = (lo, hi) := by simp [varWeight, setWeight]
theorem varWeight_setWeight_ne {α : Type} (w : Weights α) {x y : Nat} (h : y ≠ x) (lo hi : α) :
    varWeight (setWeight w x lo hi) y = varWeight w y := by simp [varWeight, setWeight, h]

/-- `cnf_new(clauses, len)` -/
def cnfNew (clauses : List (List Lit)) (len : Nat) : Cnf := Ser.cnfNew (clauses.take len)
/-- `var_order_new(order, len)` -/
def varOrderNew (order : List Nat) (len : Nat) : Orders.VarOrder := Orders.VarOrder.new (order.take len)
/-- `robdd_builder_compile_cnf`: the returned pointer -/
def compileCnf (C : CacheImpl) (lvl : Nat → Nat) (fuel : Nat) (st : C.σ) (cnf : Cnf) : Option Ptr :=
  (Compile.compileCnf (Bdd.ops C lvl fuel) st (Compile.sortClauses lvl cnf)).map (·.2)

/-- `from_c_parts(coeffs, len)` statement by statement; a null pointer is `none` -/
def fromCPartsLit {α : Type} (S : SROps α) (M : Nat) (coeffs : Option (List α)) (len : Nat) : Sem.Poly α :=
  if coeffs.isNone || len == 0 then Sem.polyZero S M
  else
    let actualLen := min len M
    let slice := (coeffs.getD []).take actualLen
    let poly := Sem.polyZero S M
    let poly := (List.zipIdx slice).foldl (fun poly (val, i) => { poly with coeffs := poly.coeffs.set i val }) poly
    { poly with len := actualLen }

/-- `polynomial_len` -/
def polynomialLen {α : Type} (p : Option (Sem.Poly α)) : Nat := if p.isNone then 0 else (p.getD default).len

/-- `polynomial_get_coeffs(p, buffer, max_len)`: the returned count and the written prefix of the buffer -/
def polynomialGetCoeffs {α : Type} (S : SROps α) (p : Option (Sem.Poly α)) (buffer : Option (List α)) (maxLen : Nat) :
    Nat × List α :=
  if p.isNone || buffer.isNone then (0, buffer.getD [])
  else
    let poly := p.getD default
    let count := min poly.len maxLen
    let dest := (buffer.getD []).take count
    (count, (List.range count).foldl (fun dest i => dest.set i (poly.coeffs.getD i S.zero)) dest)

/-- `wmc_param_poly_set_weight`: nothing happens on a null table -/
def polySetWeight {α : Type} (S : SROps α) (M : Nat) (weights : Option (Weights (Sem.Poly α))) (var : Nat)
    (lowCoeffs : Option (List α)) (lowLen : Nat) (highCoeffs : Option (List α)) (highLen : Nat) :
    Option (Weights (Sem.Poly α)) :=
  if weights.isNone then weights
  else some (setWeight (weights.getD default) var (fromCPartsLit S M lowCoeffs lowLen) (fromCPartsLit S M highCoeffs highLen))

/-- `robdd_model_count` statement by statement: the table holds `(one, one)` for the labels below `num_vars` -/
def modelCountLit (P : Nat) (lvl varAt : Nat → Nat) (numVars : Nat) (p : Ptr) : Nat :=
  wmc (Sem.ffOps P) (CliAux.Table.params (Sem.ffOps P) (CliAux.Table.ofRange numVars fun _ => ((Sem.ffOps P).one, (Sem.ffOps P).one)))
    (smooth lvl varAt p numVars)

theorem wmcAux_congr {α : Type} (S : SROps α) (w w' : Weights α) :
    ∀ (p : Ptr) (n : Bool), (∀ v ∈ p.vars, w v = w' v) → wmcAux S w p n = wmcAux S w' p n
  | .tru, _, _ => rfl
  | .fls, _, _ => rfl
  | .node c v lo hi, n, h => by
    have hv : w v = w' v := h v (by simp [Ptr.vars])
    have hlo := wmcAux_congr S w w' lo (xor n c) (fun u hu => h u (by simp [Ptr.vars, hu]))
    have hhi := wmcAux_congr S w w' hi (xor n c) (fun u hu => h u (by simp [Ptr.vars, hu]))
    simp only [wmcAux, hv, hlo, hhi]

/-- the literal count is `Ffi.modelCount` as soon as the smoothed diagram mentions labels below `num_vars` only
(outside that range the Rust table has no entry and the count panics) -/
theorem modelCountLit_eq (P : Nat) (lvl varAt : Nat → Nat) (n : Nat) (p : Ptr)
    (h : ∀ v ∈ (smooth lvl varAt p n).vars, v < n) :
    modelCountLit P lvl varAt n p = Ffi.modelCount P lvl varAt n p := by
  unfold modelCountLit Ffi.modelCount wmc
  apply wmcAux_congr
  intro v hv
  simp [CliAux.Table.params, CliAux.Table.ofRange, h v hv, Sem.ffOps]

/-! ### `from_c_parts` statement by statement is `Ffi.fromCParts` -/

theorem foldl_set_getElem? {α : Type} : ∀ (l : List α) (k : Nat) (acc : List α) (j : Nat),
    ((l.zipIdx k).foldl (fun acc (x : α × Nat) => match x with | (val, i) => acc.set i val) acc)[j]? =
      if k ≤ j ∧ j < k + l.length ∧ j < acc.length then l[j - k]? else acc[j]?
  | [], k, acc, j => by simp; omega
  | a :: l, k, acc, j => by
    simp only [List.zipIdx_cons, List.foldl_cons]
    rw [foldl_set_getElem? l (k + 1) (acc.set k a) j]
    simp only [List.length_set, List.length_cons, List.getElem?_set]
    by_cases h1 : k = j
    · subst h1
      have h0 : ¬ (k + 1 ≤ k ∧ k < k + 1 + l.length ∧ k < acc.length) := by omega
      simp only [h0, if_false, Nat.le_refl, true_and, Nat.sub_self, List.getElem?_cons_zero]
      by_cases h4 : k < acc.length
      · have : k < k + (l.length + 1) := by omega
        simp [h4, this]
      · have : acc.length ≤ k := by omega
        simp [h4]
    · by_cases h2 : k + 1 ≤ j ∧ j < k + 1 + l.length ∧ j < acc.length
      · have : j - k = (j - (k + 1)) + 1 := by omega
        have h3 : k ≤ j ∧ j < k + (l.length + 1) ∧ j < acc.length := by omega
        simp [h2, h3, this]
      · have h3 : ¬ (k ≤ j ∧ j < k + (l.length + 1) ∧ j < acc.length) := by omega
        simp [h2, h3, h1]

theorem foldl_poly {α : Type} : ∀ (l : List (α × Nat)) (poly : Sem.Poly α),
    l.foldl (fun poly (x : α × Nat) => match x with | (val, i) => { poly with coeffs := poly.coeffs.set i val }) poly =
      { coeffs := l.foldl (fun acc (x : α × Nat) => match x with | (val, i) => acc.set i val) poly.coeffs, len := poly.len }
  | [], poly => rfl
  | (v, i) :: l, poly => by simp only [List.foldl_cons]; rw [foldl_poly l]

theorem fromCPartsLit_some {α : Type} (S : SROps α) (M : Nat) (cs : List α) :
    fromCPartsLit S M (some cs) cs.length = Ffi.fromCParts S M cs := by
  unfold fromCPartsLit Ffi.fromCParts
  cases cs with
  | nil => simp
  | cons a r =>
    simp only [Option.isNone_some, Bool.false_or, List.length_cons, Nat.add_one_ne_zero, beq_iff_eq, if_false,
      List.isEmpty_cons, Bool.false_eq_true, Option.getD_some]
    rw [foldl_poly]
    simp only [Sem.polyOfList, Sem.polyZero, Sem.polyZeros, List.length_cons]
    congr 1
    apply List.ext_getElem?
    intro j
    rw [foldl_set_getElem?]
    simp only [List.length_replicate, List.length_take, List.length_cons, List.getElem?_map, List.getElem?_replicate,
      Nat.zero_le, true_and, Nat.sub_zero, Nat.zero_add, List.getElem?_take]
    by_cases hj : j < M
    · simp [hj, List.getD_eq_getElem?_getD]
      by_cases h2 : j < r.length + 1
      · simp [h2]; grind
      · simp [h2]; grind
    · have : (List.range M).length ≤ j := by simpa using Nat.le_of_not_lt hj
      simp [hj]

theorem fromCPartsLit_null {α : Type} (S : SROps α) (M n : Nat) : fromCPartsLit S M none n = Sem.polyZero S M := by
  simp [fromCPartsLit]

end FfiAux

namespace CliAux
open Spec Bdd

/-! ## literal mirrors of the tools -/

def singleWmcOut {α : Type} (C : Bdd.CacheImpl) (fuel : Nat) (S : SROps α) (P : Nat) (expr : Ser.LogicalExpr) (num_vars : Nat) (order : Orders.VarOrder) (params : Spec.Weights α) :=
  let unweighted_params := (CliAux.Table.params (Sem.ffOps P) (CliAux.Table.ofRange num_vars fun v => ((Sem.ffOps P).one, (Sem.ffOps P).one)))
  ((Compile.compileExpr (Bdd.ops C order.get fuel) C.empty (Cli.toCompileExpr expr)).bind fun r1 =>
  let bdd := r1.2
  let bdd := (Bdd.smooth order.get order.varAtLevel bdd num_vars)
  let res := (Bdd.wmc S params bdd)
  let out_ := ((Bdd.wmc (Sem.ffOps P) unweighted_params (Bdd.smooth order.get order.varAtLevel bdd num_vars)), res)
  some out_)

def singleWmcLabels : List String := ["unweighted model count: ", "\nweighted model count: "]

def partialWmcs {α : Type} (C : Bdd.CacheImpl) (fuel : Nat) (S : SROps α) (P : Nat) (expr : Ser.LogicalExpr) (num_vars : Nat) (order : Orders.VarOrder) (params : Spec.Weights α) (partials : List (List (Option Bool))) (inverse_mapping : List (Nat × String)) :=
  let unweighted_params := (CliAux.Table.params (Sem.ffOps P) (CliAux.Table.ofRange num_vars fun v => ((Sem.ffOps P).one, (Sem.ffOps P).one)))
  let results := []
  ((Compile.compileExpr (Bdd.ops C order.get fuel) C.empty (Cli.toCompileExpr expr)).bind fun r1 =>
  let bdd := r1.2
  let results := (partials.foldl (fun results model =>
  let num_conditioned := ((CliAux.trueAssignments model).length + (CliAux.falseAssignments model).length)
  let conditioned := (Bdd.condModel order.get bdd (Bdd.assignmentIter model))
  let smoothed := (Bdd.smooth order.get order.varAtLevel conditioned (num_vars - num_conditioned))
  let mc := (Bdd.wmc (Sem.ffOps P) unweighted_params smoothed)
  let wmc := (Bdd.wmc S params smoothed)
  let res := (mc, wmc)
  let results := (results ++ [res])
  results) results)
  some ((Bdd.countNodes bdd), results))

def toVarOrder (config_order : Option (List String)) (mapping : List (String × Nat)) :=
  (config_order.map fun o => (Orders.VarOrder.new (o.map fun var => ((CliAux.lookup mapping var).getD default))))

def generatePartialAssignments (partials : List (List (String × Bool))) (inverse_mapping : List (Nat × String)) (num_vars : Nat) :=
  (partials.map fun assignments => ((List.range num_vars).map fun index => (match (CliAux.lookup inverse_mapping index) with
  | some str =>
  (match (CliAux.lookup assignments str) with
  | some polarity =>
  (some polarity)
  | _ =>
  none)
  | _ =>
  none)))

def wmcMain {α : Type} (C : Bdd.CacheImpl) (fuel : Nat) (S : SROps α) (P : Nat) (sexpr : Ser.LogicalSExpr) (weights : List (String × (α × α))) (config_order : Option (List String)) (config_partials : Option (List (List (String × Bool)))) :=
  ((Ser.fromSexpr sexpr).bind fun r1 =>
  let expr := r1
  let num_vars := (Ser.sortedNames sexpr.uniqueVariables).length
  let mapping := sexpr.variableMapping
  (match (weights.foldl (fun (mapping, num_vars, tbl_) (k, v) =>
  let label := (CliAux.lookup mapping k)
  (match label with
  | none =>
  let n := (num_vars, (v.1, v.2))
  let mapping := (CliAux.assocInsert mapping k num_vars)
  let num_vars := (num_vars + 1)
  (mapping, num_vars, CliAux.Table.insert tbl_ n.1 n.2)
  | some index =>
  (mapping, num_vars, CliAux.Table.insert tbl_ (index, (v.1, v.2)).1 (index, (v.1, v.2)).2))) (mapping, num_vars, CliAux.Table.empty)) with
  | (mapping, num_vars, var_to_val) =>
  let inverse_mapping := (mapping.map fun (k, v) => (v, k))
  let var_to_val := ((List.range num_vars).foldl (fun var_to_val index =>
  let label := index
  let var_to_val := (if (var_to_val label).isNone then
  let var_to_val := (CliAux.Table.insert var_to_val label (S.zero, S.zero))
  var_to_val
  else var_to_val)
  var_to_val) var_to_val)
  let params := (CliAux.Table.params S var_to_val)
  let order := ((toVarOrder config_order mapping).getD (Orders.VarOrder.linear num_vars))
  (match config_partials with
  | some partials =>
  let partials := (generatePartialAssignments  partials inverse_mapping num_vars)
  ((partialWmcs C fuel S P expr num_vars order params partials inverse_mapping).bind fun r102 =>
  let output := r102
  some (Sum.inl output))
  | _ =>
  ((singleWmcOut C fuel S P expr num_vars order params).bind fun r102 =>
  some (Sum.inr r102)))))

def formulaMain (C : Bdd.CacheImpl) (fuel : Nat) (args_ordering : String) (config : Option (Option (List String))) (sexpr : Ser.LogicalSExpr) :=
  ((Ser.fromSexpr sexpr).bind fun r1 =>
  let expr := r1
  (((match args_ordering with
  | "linear" => some ((Orders.VarOrder.linear (Ser.sortedNames sexpr.uniqueVariables).length))
  | "manual" => some (let mapping := sexpr.variableMapping
  let config := (config.getD default)
  let order := (config.getD default)
  (Orders.VarOrder.new (order.map fun var => ((CliAux.lookup mapping var).getD default))))
  | _ => none)).bind fun r2 =>
  let order := r2
  ((Compile.compileExpr (Bdd.ops C order.get fuel) C.empty (Cli.toCompileExpr expr)).bind fun r3 =>
  let bdd := r3.2
  let serialized := (Ser.serBdd bdd)
  some serialized)))

def cnfMain (C : Bdd.CacheImpl) (fuel : Nat) (args_order args_strategy : String) (file : String) (cnf_num_vars : Nat) :=
  ((Ser.cnfFromDimacs file).bind fun r1 =>
  let cnf := r1
  (((match args_order with
  | "auto_minfill" => some ((Orders.minFillOrder cnf cnf_num_vars))
  | "auto_force" => ((Orders.forceOrderFloat cnf cnf_num_vars).bind fun r2 =>
  some (r2))
  | _ => none)).bind fun r2 =>
  let order := r2
  (((match args_strategy with
  | "dtree" => ((VT.DTree.fromCnf cnf order.posToVar).bind fun r3 =>
  let dtree := r3
  some ((Compile.Plan.fromDtree (CliAux.dtreeShape dtree))))
  | _ => none)).bind fun r3 =>
  let plan := r3
  ((Compile.compilePlan (Bdd.ops C order.get fuel) C.empty plan).bind fun r4 =>
  let bdd := r4.2
  let serialized := (Ser.serBdd bdd)
  some serialized))))

/-! ## the mirrors and the model -/

/-- the weighted count printed by `single_wmc` is `Cli.singleWmc` under the level map of the order -/
theorem singleWmcOut_weighted {α : Type} (C : CacheImpl) (fuel : Nat) (S : SROps α) (P : Nat) (e : Ser.LogicalExpr)
    (n : Nat) (order : Orders.VarOrder) (w : Weights α) :
    (singleWmcOut C fuel S P e n order w).map (·.2) = Cli.singleWmc C order.get order.varAtLevel fuel S w n e := by
  unfold singleWmcOut Cli.singleWmc
  cases Compile.compileExpr (Bdd.ops C order.get fuel) C.empty (Cli.toCompileExpr e) <;> rfl

/-- the unweighted count printed by `single_wmc`: the C interface's literal count of the (already smoothed) diagram -/
theorem singleWmcOut_unweighted {α : Type} (C : CacheImpl) (fuel : Nat) (S : SROps α) (P : Nat) (e : Ser.LogicalExpr)
    (n : Nat) (order : Orders.VarOrder) (w : Weights α) :
    (singleWmcOut C fuel S P e n order w).map (·.1) =
      (Compile.compileExpr (Bdd.ops C order.get fuel) C.empty (Cli.toCompileExpr e)).map fun r =>
        FfiAux.modelCountLit P order.get order.varAtLevel n (smooth order.get order.varAtLevel r.2 n) := by
  unfold singleWmcOut
  cases Compile.compileExpr (Bdd.ops C order.get fuel) C.empty (Cli.toCompileExpr e) <;> rfl

/-- the order the formula tool compiles under -/
def formulaOrder (ordering : String) (config : Option (Option (List String))) (sexpr : Ser.LogicalSExpr) : Option Orders.VarOrder :=
  match ordering with
  | "linear" => some (Orders.VarOrder.linear (Ser.sortedNames sexpr.uniqueVariables).length)
  | "manual" => some (Orders.VarOrder.new (((config.getD default).getD default).map fun var => (lookup sexpr.variableMapping var).getD default))
  | _ => none

/-- the formula tool is `Cli.formulaToBdd` on the indexed expression, under the chosen order -/
theorem formulaMain_spec (C : CacheImpl) (fuel : Nat) (ordering : String) (config : Option (Option (List String)))
    (sexpr : Ser.LogicalSExpr) :
    formulaMain C fuel ordering config sexpr =
      (Ser.fromSexpr sexpr).bind fun e => (formulaOrder ordering config sexpr).bind fun o => Cli.formulaToBdd C o.get fuel e := by
  unfold formulaMain formulaOrder Cli.formulaToBdd
  cases Ser.fromSexpr sexpr with
  | none => rfl
  | some e =>
    simp only [Option.bind_some]
    split <;> simp only [Option.bind_some, Option.bind_none] <;>
      (first | rfl | (cases Compile.compileExpr _ _ _ <;> rfl))

/-- without `partials` in the configuration the count tool is `single_wmc` on the indexed expression -/
theorem wmcMain_single {α : Type} (C : CacheImpl) (fuel : Nat) (S : SROps α) (P : Nat) (sexpr : Ser.LogicalSExpr)
    (weights : List (String × (α × α))) (co : Option (List String)) :
    ∃ (n : Nat) (order : Orders.VarOrder) (w : Weights α),
      wmcMain C fuel S P sexpr weights co none =
        (Ser.fromSexpr sexpr).bind fun e => (singleWmcOut C fuel S P e n order w).map Sum.inr := by
  cases hs : Ser.fromSexpr sexpr with
  | none => exact ⟨0, default, fun _ => (S.zero, S.zero), by simp [wmcMain, hs]⟩
  | some e =>
    simp only [wmcMain, hs, Option.bind_some]
    generalize List.foldl _ _ weights = st
    obtain ⟨m, n, t⟩ := st
    exact ⟨_, _, _, Option.map_eq_bind.symm⟩

end CliAux
