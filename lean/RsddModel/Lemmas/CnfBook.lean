import RsddModel.Lemmas.CnfUtil
/-!
# Lemmas: bookkeeping types of property C15 — `Literal` word, `VarSet`, `PartialModel`
-/
namespace CnfUtil
open Spec

/-! ## the `Literal` word -/

theorem two63 : (2 : Nat) ^ 63 = 9223372036854775808 := by decide
theorem two64 : (2 : Nat) ^ 64 = 18446744073709551616 := by decide

/-- `Literal::new` for a label below `2^63`: label in bits 0..62, polarity in bit 63 -/
theorem packNew_eq (label : Nat) (pol : Bool) (h : label < 2 ^ 63) :
    packNew label pol = label + (if pol then 2 ^ 63 else 0) := by
  have m1 : shl64 (shl64 1 (63 - 0) - 1) 0 = 2 ^ 63 - 1 := by decide
  have m2 : shl64 (shl64 1 (64 - 63) - 1) 63 = 2 ^ 63 := by decide
  have n2 : not64 (2 ^ 63) = 2 ^ 63 - 1 := by decide
  have hl : shl64 label 0 = label := by
    simp only [shl64, W64, Nat.shiftLeft_zero]
    exact Nat.mod_eq_of_lt (by rw [two63] at h; rw [two64]; omega)
  have e1 : bfSet 0 label 0 63 = label := by
    simp only [bfSet, m1, hl, Nat.zero_and, Nat.zero_or, Nat.and_two_pow_sub_one_eq_mod]
    exact Nat.mod_eq_of_lt h
  rw [packNew, e1]
  simp only [bfSet, m2, n2, Nat.and_two_pow_sub_one_eq_mod, Nat.mod_eq_of_lt h]
  cases pol
  · have : shl64 0 63 &&& 2 ^ 63 = 0 := by decide
    simp [this]
  · have : shl64 1 63 &&& 2 ^ 63 = 2 ^ 63 := by decide
    simp only [if_true, this]
    have := Nat.two_pow_add_eq_or_of_lt h 1
    rw [Nat.mul_one] at this
    rw [Nat.or_comm, ← this, Nat.add_comm]

theorem rawLabel_eq (d : Nat) : rawLabel d = d % 2 ^ 63 := by
  simp only [rawLabel, bfGet, shl64, W64, Nat.shiftLeft_eq, Nat.shiftRight_eq_div_pow]
  simp only [two63, two64]
  omega

theorem rawPolarity_eq (d : Nat) (h : d < 2 ^ 64) : rawPolarity d = d / 2 ^ 63 := by
  simp only [rawPolarity, bfGet, shl64, W64, Nat.shiftLeft_eq, Nat.shiftRight_eq_div_pow]
  rw [two64] at h
  simp only [two63, two64]
  omega

theorem packLit_lt (l : Lit) (h : l.var < 2 ^ 63) : packLit l < 2 ^ 64 := by
  rw [packLit, packNew_eq _ _ h]; rw [two63] at h; rw [two63, two64]; split <;> omega

theorem packedLabel_packLit (l : Lit) (h : l.var < 2 ^ 63) : packedLabel (packLit l) = l.var := by
  rw [packedLabel, rawLabel_eq, packLit, packNew_eq _ _ h]
  rw [two63] at h
  simp only [two63]
  split <;> omega

theorem packedPolarity_packLit (l : Lit) (h : l.var < 2 ^ 63) :
    packedPolarity (packLit l) = l.pol := by
  rw [packedPolarity, rawPolarity_eq _ (packLit_lt l h), packLit, packNew_eq _ _ h]
  rw [two63] at h
  simp only [two63]
  cases l.pol
  · have : (l.var + 0) / 9223372036854775808 = 0 := by omega
    simp only [Bool.false_eq_true, if_false, this]; rfl
  · have : (l.var + 9223372036854775808) / 9223372036854775808 = 1 := by omega
    simp only [if_true, this]; rfl

/-- `label()`/`polarity()` invert `Literal::new` for labels below `2^63` -/
theorem literal_pack_roundtrip (l : Lit) (h : l.var < 2 ^ 63) : unpackLit (packLit l) = l := by
  cases l with | mk v p =>
  simp only [unpackLit, packedLabel_packLit _ h, packedPolarity_packLit _ h]

theorem packLit_injective (l l' : Lit) (h : l.var < 2 ^ 63) (h' : l'.var < 2 ^ 63)
    (e : packLit l = packLit l') : l = l' := by
  rw [← literal_pack_roundtrip l h, ← literal_pack_roundtrip l' h', e]

/-- `negated()` on the word is `negated` on (label, polarity) -/
theorem packedNegated_eq (l : Lit) (h : l.var < 2 ^ 63) :
    packedNegated (packLit l) = packLit (litNegated l) := by
  rw [packedNegated, packedLabel_packLit _ h, packedPolarity_packLit _ h]; rfl

theorem packedImpliesTrue_eq (l o : Lit) (h : l.var < 2 ^ 63) (h' : o.var < 2 ^ 63) :
    packedImpliesTrue (packLit l) (packLit o) = litImpliesTrue l o := by
  simp only [packedImpliesTrue, litImpliesTrue, packedLabel_packLit _ h, packedPolarity_packLit _ h,
    packedLabel_packLit _ h', packedPolarity_packLit _ h']

theorem packedImpliesFalse_eq (l o : Lit) (h : l.var < 2 ^ 63) (h' : o.var < 2 ^ 63) :
    packedImpliesFalse (packLit l) (packLit o) = litImpliesFalse l o := by
  simp only [packedImpliesFalse, litImpliesFalse, packedLabel_packLit _ h, packedPolarity_packLit _ h,
    packedLabel_packLit _ h', packedPolarity_packLit _ h']

theorem litImpliesTrue_iff (l o : Lit) : litImpliesTrue l o = true ↔ l = o := by
  cases l; cases o; simp [litImpliesTrue]

theorem litImpliesFalse_iff (l o : Lit) : litImpliesFalse l o = true ↔ l = o.neg := by
  cases l with | mk v p => cases o with | mk v' p' =>
  cases p <;> cases p' <;> simp [litImpliesFalse, Lit.neg]

/-- at `2^63` the label field overflows into nothing: the label is truncated to its low 63 bits
and two different labels give the same word -/
theorem literal_pack_breaks_at_2_63 :
    packLit ⟨2 ^ 63, false⟩ = packLit ⟨0, false⟩ ∧ unpackLit (packLit ⟨2 ^ 63 + 5, true⟩) = ⟨5, true⟩ := by
  decide

/-! ## `VarSet` -/

namespace VarSet

theorem mem_insertL {x v : Nat} : ∀ {l : List Nat}, x ∈ insertL v l ↔ x = v ∨ x ∈ l
  | [] => by simp [insertL]
  | y :: ys => by
    simp only [insertL]
    split
    · simp
    · split
      · rename_i h; subst h; simp
      · simp only [List.mem_cons, mem_insertL (l := ys)]
        constructor
        · rintro (h | h | h)
          · exact Or.inr (Or.inl h)
          · exact Or.inl h
          · exact Or.inr (Or.inr h)
        · rintro (h | h | h)
          · exact Or.inr (Or.inl h)
          · exact Or.inl h
          · exact Or.inr (Or.inr h)

theorem insertL_sorted (v : Nat) : ∀ (l : List Nat), l.Pairwise (· < ·) → (insertL v l).Pairwise (· < ·)
  | [], _ => by simp [insertL]
  | y :: ys, h => by
    have hy := List.pairwise_cons.mp h
    simp only [insertL]
    split
    · rename_i hlt
      refine List.pairwise_cons.mpr ⟨?_, h⟩
      intro z hz
      rcases List.mem_cons.mp hz with rfl | hz
      · exact hlt
      · exact Nat.lt_trans hlt (hy.1 z hz)
    · split
      · exact h
      · refine List.pairwise_cons.mpr ⟨?_, insertL_sorted v ys hy.2⟩
        intro z hz
        rcases mem_insertL.mp hz with rfl | hz
        · omega
        · exact hy.1 z hz

/-- membership in the set -/
def Mem (s : VarSet) (x : Nat) : Prop := x ∈ s.elems

instance (s : VarSet) (x : Nat) : Decidable (s.Mem x) := inferInstanceAs (Decidable (x ∈ s.elems))

theorem contains_iff (s : VarSet) (x : Nat) : s.contains x = true ↔ s.Mem x := by
  simp [contains, Mem]

theorem wf_new : new.WF := List.Pairwise.nil
theorem not_mem_new (x : Nat) : ¬ new.Mem x := by simp [Mem, new]
theorem not_mem_newWithNumVars (n x : Nat) : ¬ (newWithNumVars n).Mem x := by
  simp [Mem, newWithNumVars]

theorem mem_insert (s : VarSet) (v x : Nat) : (s.insert v).Mem x ↔ x = v ∨ s.Mem x := mem_insertL
theorem wf_insert {s : VarSet} (h : s.WF) (v : Nat) : (s.insert v).WF := insertL_sorted v _ h

theorem mem_remove (s : VarSet) (v x : Nat) : (s.remove v).Mem x ↔ s.Mem x ∧ x ≠ v := by
  simp [remove, Mem]
theorem wf_remove {s : VarSet} (h : s.WF) (v : Nat) : (s.remove v).WF := List.Pairwise.filter _ h

theorem foldl_insertL_mem {x : Nat} : ∀ (t acc : List Nat),
    x ∈ t.foldl (fun acc v => insertL v acc) acc ↔ x ∈ acc ∨ x ∈ t
  | [], acc => by simp
  | v :: t, acc => by
    simp only [List.foldl_cons, foldl_insertL_mem t, mem_insertL, List.mem_cons]
    constructor
    · rintro ((h | h) | h)
      · exact Or.inr (Or.inl h)
      · exact Or.inl h
      · exact Or.inr (Or.inr h)
    · rintro (h | h | h)
      · exact Or.inl (Or.inr h)
      · exact Or.inl (Or.inl h)
      · exact Or.inr h

theorem foldl_insertL_sorted : ∀ (t acc : List Nat), acc.Pairwise (· < ·) →
    (t.foldl (fun acc v => insertL v acc) acc).Pairwise (· < ·)
  | [], _, h => h
  | v :: t, acc, h => foldl_insertL_sorted t _ (insertL_sorted v acc h)

theorem mem_union (s t : VarSet) (x : Nat) : (s.union t).Mem x ↔ s.Mem x ∨ t.Mem x :=
  foldl_insertL_mem _ _
theorem wf_union {s : VarSet} (h : s.WF) (t : VarSet) : (s.union t).WF :=
  foldl_insertL_sorted _ _ h

theorem mem_minus (s t : VarSet) (x : Nat) : (s.minus t).Mem x ↔ s.Mem x ∧ ¬ t.Mem x := by
  simp [minus, Mem]
theorem wf_minus {s : VarSet} (h : s.WF) (t : VarSet) : (s.minus t).WF := List.Pairwise.filter _ h

theorem mem_intersectVarset (s t : VarSet) (x : Nat) :
    (s.intersectVarset t).Mem x ↔ s.Mem x ∧ t.Mem x := by
  simp [intersectVarset, Mem]
theorem wf_intersectVarset {s : VarSet} (h : s.WF) (t : VarSet) : (s.intersectVarset t).WF :=
  List.Pairwise.filter _ h

/-- the iterators `difference` / `intersect` yield the members of the set difference /
intersection in ascending order -/
theorem mem_difference (s t : VarSet) (x : Nat) : x ∈ s.difference t ↔ s.Mem x ∧ ¬ t.Mem x :=
  mem_minus s t x
theorem difference_sorted {s : VarSet} (h : s.WF) (t : VarSet) : (s.difference t).Pairwise (· < ·) :=
  wf_minus h t
theorem mem_intersect (s t : VarSet) (x : Nat) : x ∈ s.intersect t ↔ s.Mem x ∧ t.Mem x :=
  mem_intersectVarset s t x
theorem intersect_sorted {s : VarSet} (h : s.WF) (t : VarSet) : (s.intersect t).Pairwise (· < ·) :=
  wf_intersectVarset h t

theorem mem_iter (s : VarSet) (x : Nat) : x ∈ s.iter ↔ s.Mem x := Iff.rfl
theorem iter_sorted {s : VarSet} (h : s.WF) : s.iter.Pairwise (· < ·) := h

theorem nodup_of_sorted {l : List Nat} (h : l.Pairwise (· < ·)) : l.Nodup :=
  List.Pairwise.imp (fun hlt => Nat.ne_of_lt hlt) h

/-- `len` is the number of members: the length of the duplicate-free list of all members -/
theorem len_eq (s : VarSet) : s.len = s.iter.length := rfl
theorem iter_nodup {s : VarSet} (h : s.WF) : s.iter.Nodup := nodup_of_sorted h

theorem isEmpty_iff (s : VarSet) : s.isEmpty = true ↔ ∀ x, ¬ s.Mem x := by
  cases s with | mk l =>
  cases l with
  | nil => simp [isEmpty, Mem]
  | cons a t =>
    simp only [isEmpty, Mem, List.isEmpty_cons, Bool.false_eq_true, false_iff]
    intro h; exact h a List.mem_cons_self

theorem isEmpty_iff_len (s : VarSet) : s.isEmpty = true ↔ s.len = 0 := by
  cases s with | mk l => cases l <;> simp [isEmpty, len]

/-- two strictly ascending lists with the same members are equal -/
theorem sorted_ext : ∀ {l l' : List Nat}, l.Pairwise (· < ·) → l'.Pairwise (· < ·) →
    (∀ x, x ∈ l ↔ x ∈ l') → l = l'
  | [], [], _, _, _ => rfl
  | [], b :: _, _, _, h => by have := (h b).mpr List.mem_cons_self; cases this
  | a :: _, [], _, _, h => by have := (h a).mp List.mem_cons_self; cases this
  | a :: l, b :: l', h1, h2, h => by
    have ha := List.pairwise_cons.mp h1
    have hb := List.pairwise_cons.mp h2
    have hab : a = b := by
      have m1 := (h a).mp List.mem_cons_self
      have m2 := (h b).mpr List.mem_cons_self
      rcases List.mem_cons.mp m1 with e | m1
      · exact e
      · rcases List.mem_cons.mp m2 with e | m2
        · exact e.symm
        · have := hb.1 a m1; have := ha.1 b m2; omega
    subst hab
    congr 1
    apply sorted_ext ha.2 hb.2
    intro x
    constructor
    · intro hx
      rcases List.mem_cons.mp ((h x).mp (List.mem_cons_of_mem _ hx)) with e | hx'
      · have := ha.1 x hx; omega
      · exact hx'
    · intro hx
      rcases List.mem_cons.mp ((h x).mpr (List.mem_cons_of_mem _ hx)) with e | hx'
      · have := hb.1 x hx; omega
      · exact hx'

/-- equality of (well-formed) sets is extensional, as `BitSet`'s `PartialEq` is -/
theorem ext {s t : VarSet} (hs : s.WF) (ht : t.WF) (h : ∀ x, s.Mem x ↔ t.Mem x) : s = t := by
  cases s; cases t
  simp only [VarSet.mk.injEq]
  exact sorted_ext hs ht h

theorem foldl_insert_mem {x : Nat} : ∀ (l : List Nat) (s : VarSet),
    (l.foldl insert s).Mem x ↔ s.Mem x ∨ x ∈ l
  | [], s => by simp
  | v :: l, s => by
    simp only [List.foldl_cons, foldl_insert_mem l, mem_insert, List.mem_cons]
    constructor
    · rintro ((h | h) | h)
      · exact Or.inr (Or.inl h)
      · exact Or.inl h
      · exact Or.inr (Or.inr h)
    · rintro (h | h | h)
      · exact Or.inl (Or.inr h)
      · exact Or.inl (Or.inl h)
      · exact Or.inr h

theorem foldl_insert_wf : ∀ (l : List Nat) (s : VarSet), s.WF → (l.foldl insert s).WF
  | [], _, h => h
  | v :: l, _, h => foldl_insert_wf l _ (wf_insert h v)

theorem mem_ofList (l : List Nat) (x : Nat) : (ofList l).Mem x ↔ x ∈ l := by
  simp [ofList, foldl_insert_mem, not_mem_new]
theorem wf_ofList (l : List Nat) : (ofList l).WF := foldl_insert_wf l _ wf_new

end VarSet

/-! ## `PartialModel` -/

namespace PartialModel
open VarSet

theorem get_eq (m : PartialModel) (x : Nat) :
    m.get x = if m.trueA.Mem x then some true else if m.falseA.Mem x then some false else none := by
  simp only [get, ← contains_iff]

theorem get_new (n x : Nat) : (new n).get x = none := by
  simp [get, new, VarSet.contains, newWithNumVars]

theorem get_set (m : PartialModel) (x : Nat) (b : Bool) (y : Nat) :
    (m.set x b).get y = if y = x then some b else m.get y := by
  simp only [get_eq]
  cases b
  · simp only [set, Bool.false_eq_true, if_false, mem_insert, mem_remove]
    by_cases h : y = x <;> simp [h]
  · simp only [set, if_true, mem_insert, mem_remove]
    by_cases h : y = x <;> simp [h]

theorem get_unset (m : PartialModel) (x y : Nat) :
    (m.unset x).get y = if y = x then none else m.get y := by
  simp only [get_eq, unset, mem_remove]
  by_cases h : y = x <;> simp [h]

theorem isSet_eq (m : PartialModel) (x : Nat) : m.isSet x = (m.get x).isSome := by
  simp only [isSet, get]
  cases m.trueA.contains x <;> cases m.falseA.contains x <;> rfl

/-- in `Spec` terms: `set`/`unset` are the updates of the partial assignment function -/
theorem toSpec_set (m : PartialModel) (x : Nat) (b : Bool) : (m.set x b).toSpec = m.toSpec.set x b := by
  funext y; simp [toSpec, get_set, PModel.set]

theorem toSpec_new (n : Nat) : (new n).toSpec = PModel.empty := by
  funext y; simp [toSpec, get_new, PModel.empty]

theorem wf_new (n : Nat) : (new n).WF := ⟨List.Pairwise.nil, List.Pairwise.nil⟩
theorem wf_set {m : PartialModel} (h : m.WF) (x : Nat) (b : Bool) : (m.set x b).WF := by
  cases b
  · exact ⟨wf_remove h.1 x, wf_insert h.2 x⟩
  · exact ⟨wf_insert h.1 x, wf_remove h.2 x⟩
theorem wf_unset {m : PartialModel} (h : m.WF) (x : Nat) : (m.unset x).WF :=
  ⟨wf_remove h.1 x, wf_remove h.2 x⟩

/-- no variable is in both sets -/
def Disjoint (m : PartialModel) : Prop := ∀ x, ¬ (m.trueA.Mem x ∧ m.falseA.Mem x)

theorem disjoint_new (n : Nat) : (new n).Disjoint := fun x h => not_mem_newWithNumVars n x h.1
theorem disjoint_set {m : PartialModel} (h : m.Disjoint) (x : Nat) (b : Bool) : (m.set x b).Disjoint := by
  intro y
  cases b
  · simp only [set, Bool.false_eq_true, if_false, mem_insert, mem_remove]
    rintro ⟨⟨h1, h2⟩, h3 | h3⟩
    · exact h2 h3
    · exact h y ⟨h1, h3⟩
  · simp only [set, if_true, mem_insert, mem_remove]
    rintro ⟨h3 | h3, ⟨h1, h2⟩⟩
    · exact h2 h3
    · exact h y ⟨h3, h1⟩
theorem disjoint_unset {m : PartialModel} (h : m.Disjoint) (x : Nat) : (m.unset x).Disjoint := by
  intro y
  simp only [unset, mem_remove]
  rintro ⟨⟨h1, _⟩, ⟨h2, _⟩⟩
  exact h y ⟨h1, h2⟩

theorem get_true_iff (m : PartialModel) (x : Nat) : m.get x = some true ↔ m.trueA.Mem x := by
  rw [get_eq]; by_cases h : m.trueA.Mem x <;> simp [h]

theorem get_false_iff {m : PartialModel} (hd : m.Disjoint) (x : Nat) :
    m.get x = some false ↔ m.falseA.Mem x := by
  rw [get_eq]
  by_cases h : m.trueA.Mem x
  · simp only [h, if_true]
    constructor
    · intro e; cases e
    · intro h'; exact absurd ⟨h, h'⟩ (hd x)
  · by_cases h' : m.falseA.Mem x <;> simp [h, h']

/-- `assignment_iter`: first the false literals by ascending label, then the true ones -/
theorem assignmentIter_eq (m : PartialModel) :
    m.assignmentIter = m.falseA.iter.map (fun x => ⟨x, false⟩) ++ m.trueA.iter.map (fun x => ⟨x, true⟩) :=
  rfl

/-- `assignment_iter` lists exactly the assigned literals -/
theorem mem_assignmentIter {m : PartialModel} (hd : m.Disjoint) (l : Lit) :
    l ∈ m.assignmentIter ↔ m.get l.var = some l.pol := by
  cases l with | mk x p =>
  simp only [assignmentIter, List.mem_append, List.mem_map, Lit.mk.injEq, iter]
  cases p
  · rw [get_false_iff hd]
    constructor
    · rintro (⟨y, hy, rfl, _⟩ | ⟨y, _, _, h⟩)
      · exact hy
      · cases h
    · intro h; exact Or.inl ⟨x, h, rfl, rfl⟩
  · rw [get_true_iff]
    constructor
    · rintro (⟨y, _, _, h⟩ | ⟨y, hy, rfl, _⟩)
      · cases h
      · exact hy
    · intro h; exact Or.inr ⟨x, h, rfl, rfl⟩

theorem assignmentIter_nodup {m : PartialModel} (h : m.WF) : m.assignmentIter.Nodup := by
  have inj : ∀ (b : Bool) (l : List Nat), l.Nodup → (l.map (fun x => (⟨x, b⟩ : Lit))).Nodup := by
    intro b l hl
    rw [List.Nodup, List.pairwise_map]
    exact List.Pairwise.imp (fun hne e => hne (by injection e)) hl
  rw [assignmentIter, List.Nodup, List.pairwise_append]
  refine ⟨inj false _ (iter_nodup h.2), inj true _ (iter_nodup h.1), ?_⟩
  intro a ha b hb e
  obtain ⟨x, _, rfl⟩ := List.mem_map.mp ha
  obtain ⟨y, _, rfl⟩ := List.mem_map.mp hb
  injection e with _ e2
  cases e2

/-- `difference`: the literals assigned by `m` and not assigned the same way by `o`, false
literals first, each group ascending -/
theorem mem_difference {m o : PartialModel} (hm : m.Disjoint) (ho : o.Disjoint) (l : Lit) :
    l ∈ m.difference o ↔ m.get l.var = some l.pol ∧ o.get l.var ≠ some l.pol := by
  cases l with | mk x p =>
  simp only [difference, List.mem_append, List.mem_map, Lit.mk.injEq, VarSet.mem_difference]
  cases p
  · rw [get_false_iff hm, ne_eq, get_false_iff ho]
    constructor
    · rintro (⟨y, hy, rfl, _⟩ | ⟨y, _, _, h⟩)
      · exact hy
      · cases h
    · intro h; exact Or.inl ⟨x, h, rfl, rfl⟩
  · rw [get_true_iff, ne_eq, get_true_iff]
    constructor
    · rintro (⟨y, _, _, h⟩ | ⟨y, hy, rfl, _⟩)
      · cases h
      · exact hy
    · intro h; exact Or.inr ⟨x, h, rfl, rfl⟩

/-! `from_assignments` -/

theorem fromAssignmentsAux_get : ∀ (as : List (Option Bool)) (i : Nat) (m : PartialModel),
    (∀ y, i ≤ y → m.get y = none) →
    ∀ y, (fromAssignmentsAux as i m).get y = if y < i then m.get y else (as.getD (y - i) none)
  | [], i, m, h, y => by
    by_cases hy : y < i
    · simp [fromAssignmentsAux, hy]
    · simp [fromAssignmentsAux, hy, h y (by omega)]
  | a :: r, i, m, h, y => by
    -- the model after processing entry `i`
    have key : ∀ (m' : PartialModel), (∀ z, m'.get z = if z = i then a else m.get z) →
        (fromAssignmentsAux r (i + 1) m').get y =
          if y < i then m.get y else ((a :: r).getD (y - i) none) := by
      intro m' hm'
      have hnone : ∀ z, i + 1 ≤ z → m'.get z = none := by
        intro z hz; rw [hm' z, if_neg (by omega)]; exact h z (by omega)
      rw [fromAssignmentsAux_get r (i + 1) m' hnone y]
      by_cases h1 : y < i
      · have : y < i + 1 := by omega
        simp [h1, this, hm' y, show y ≠ i by omega]
      · by_cases h2 : y = i
        · subst h2; simp [hm' y]
        · have h3 : ¬ y < i + 1 := by omega
          have h4 : y - i = (y - (i + 1)) + 1 := by omega
          simp only [h1, h3, if_false, h4, List.getD_cons_succ]
    cases a with
    | none =>
      rw [fromAssignmentsAux]
      exact key m (fun z => by by_cases hz : z = i <;> simp [hz, h i (Nat.le_refl _)])
    | some b =>
      cases b
      · rw [fromAssignmentsAux]
        apply key
        intro z
        have := get_set m i false z
        simp only [set, Bool.false_eq_true, if_false] at this
        have hi : m.get i = none := h i (Nat.le_refl _)
        -- inserting into the false set only
        simp only [get_eq, mem_insert] at this ⊢
        by_cases hz : z = i
        · subst hz
          have ht : ¬ m.trueA.Mem z := by
            intro ht; rw [get_eq] at hi; simp [ht] at hi
          simp [ht]
        · simp [hz]
      · rw [fromAssignmentsAux]
        apply key
        intro z
        simp only [get_eq, mem_insert]
        by_cases hz : z = i
        · subst hz; simp
        · simp [hz]

/-- `from_assignments(as).get(y) = as[y]` (unset beyond the end) -/
theorem get_fromAssignments (as : List (Option Bool)) (y : Nat) :
    (fromAssignments as).get y = as.getD y none := by
  rw [fromAssignments, fromAssignmentsAux_get as 0 _ (fun z _ => get_new _ z) y]
  simp

theorem get_fromTotalModel (as : List Bool) (y : Nat) :
    (fromTotalModel as).get y = as[y]? := by
  rw [fromTotalModel, get_fromAssignments]
  simp [List.getD, List.getElem?_map]
  cases as[y]? <;> rfl

/-- the first loop of `from_litvec`: a sequence of in-range writes, or a panic -/
theorem litvecFill_eq : ∀ (lits : List Lit) (acc : List (Option Bool)),
    litvecFill lits acc =
      if lits.all (fun l => decide (l.var < acc.length))
      then some (lits.foldl (fun a l => a.set l.var (some l.pol)) acc) else none
  | [], acc => by simp [litvecFill]
  | l :: r, acc => by
    simp only [litvecFill, List.all_cons, List.foldl_cons]
    by_cases h : l.var < acc.length
    · simp only [h, if_true, decide_true, Bool.true_and]
      rw [litvecFill_eq r]
      simp only [List.length_set]
    · simp [h]

/-- `from_litvec` panics exactly when a label is out of range -/
theorem fromLitvec_none_iff (lits : List Lit) (n : Nat) :
    fromLitvec lits n = none ↔ ∃ l ∈ lits, n ≤ l.var := by
  simp only [fromLitvec, litvecFill_eq, List.length_replicate, Option.map_eq_none_iff]
  constructor
  · intro h
    split at h
    · cases h
    · rename_i hall
      apply Classical.byContradiction
      intro hne
      apply hall
      simp only [List.all_eq_true, decide_eq_true_eq]
      intro l hl
      apply Classical.byContradiction
      intro hlt
      exact hne ⟨l, hl, by omega⟩
  · rintro ⟨l, hl, hle⟩
    have : ¬ (lits.all fun l => decide (l.var < n)) = true := by
      simp only [List.all_eq_true, decide_eq_true_eq]
      intro hall
      have := hall l hl
      omega
    simp [this]

theorem foldl_set_getD : ∀ (lits : List Lit) (acc : List (Option Bool)) (y : Nat),
    (lits.foldl (fun a l => a.set l.var (some l.pol)) acc).getD y none =
      match lits.reverse.find? (fun l => l.var == y) with
      | some l => if y < acc.length then some l.pol else none
      | none => acc.getD y none
  | [], acc, y => by simp
  | l :: r, acc, y => by
    rw [List.foldl_cons, foldl_set_getD r]
    simp only [List.reverse_cons, List.find?_append, List.length_set]
    cases hf : r.reverse.find? (fun l => l.var == y) with
    | some l' => simp
    | none =>
      simp only [Option.none_or, List.find?_cons, List.find?_nil]
      by_cases hy : l.var = y
      · subst hy
        simp only [beq_self_eq_true]
        by_cases hlt : l.var < acc.length
        · simp [List.getD, hlt]
        · simp [List.getD, hlt]
      · have : (l.var == y) = false := by simpa using hy
        simp only [this]
        simp [List.getD, hy]

/-- `from_litvec`: the last literal over a variable wins -/
theorem get_fromLitvec {lits : List Lit} {n : Nat} {m : PartialModel}
    (h : fromLitvec lits n = some m) (y : Nat) :
    m.get y = (lits.reverse.find? (fun l => l.var == y)).map (·.pol) := by
  have hall : ∀ l ∈ lits, l.var < n := by
    intro l hl
    apply Classical.byContradiction
    intro hnot
    have := (fromLitvec_none_iff lits n).mpr ⟨l, hl, by omega⟩
    rw [h] at this; cases this
  simp only [fromLitvec, litvecFill_eq, List.length_replicate] at h
  split at h
  · simp only [Option.map_some, Option.some.injEq] at h
    subst h
    rw [get_fromAssignments, foldl_set_getD]
    cases hf : lits.reverse.find? (fun l => l.var == y) with
    | none =>
      simp only [Option.map_none, List.getD, List.getElem?_replicate]
      split <;> rfl
    | some l =>
      have hl := List.mem_of_find?_eq_some hf
      have hy : l.var = y := by simpa using List.find?_some hf
      have : y < n := by rw [← hy]; exact hall l (List.mem_reverse.mp hl)
      simp [this]
  · cases h

end PartialModel

end CnfUtil
