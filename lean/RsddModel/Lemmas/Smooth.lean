import RsddModel.Lemmas.Wmc
/-!
# Lemmas: smoothing of BDDs (C08)

* `smoothH_eval` : the repaired `smooth_helper` preserves the denoted function (no hypothesis);
* `smooth_paths` : on a diagram ordered from level `cur` with all levels `< cur + n`, every
  root-to-terminal path of the result tests exactly `varAt cur, …, varAt (cur+n-1)`, in order;
* `wmc_allpaths` : a diagram all of whose paths test exactly the duplicate-free list `vars`
  has `wmc = wsum vars` for ARBITRARY weights and ANY operations record (no law is needed);
* `wsum_count` : with all weights `(1,1)` over `Nat` the sum is the number of models;
* `smoothOrig_wrong` : the pinned helper (which ignores the level of the node it looks at)
  violates all of this on `x2` under the identity order on three variables.
-/
namespace Bdd
open Spec
variable {α : Type}

/-! ## the denoted function -/

theorem sm_mkNode_eval (x : Nat) (lo hi : Ptr) (a : Assign) :
    (mkNode x lo hi).eval a = if a x then hi.eval a else lo.eval a := by
  simp only [mkNode]
  split <;> simp only [Ptr.eval, eval_neg] <;> cases a x <;> simp

theorem sm_eval_cneg (c : Bool) (p : Ptr) (a : Assign) :
    (if c then p.neg else p).eval a = xor c (p.eval a) := by
  cases c <;> simp

/-- smoothing (as repaired) never changes the denoted function -/
theorem smoothH_eval (lvl varAt : Nat → Nat) : ∀ (n cur : Nat) (p : Ptr) (a : Assign),
    (smoothH lvl varAt n cur p).eval a = p.eval a
  | 0, _, p, _ => by cases p <;> rfl
  | n + 1, cur, .tru, a => by
    simp only [smoothH, sm_mkNode_eval, smoothH_eval lvl varAt n]; simp
  | n + 1, cur, .fls, a => by
    simp only [smoothH, sm_mkNode_eval, smoothH_eval lvl varAt n]; simp
  | n + 1, cur, .node c v lo hi, a => by
    simp only [smoothH]
    split
    · simp only [sm_eval_cneg, sm_mkNode_eval, smoothH_eval lvl varAt n, Ptr.eval]
    · simp only [sm_eval_cneg, sm_mkNode_eval, smoothH_eval lvl varAt n, Ptr.eval]; simp

theorem smooth_eval (lvl varAt : Nat → Nat) (p : Ptr) (n : Nat) (a : Assign) :
    (smooth lvl varAt p n).eval a = p.eval a := smoothH_eval lvl varAt n 0 p a

/-! ## the paths of the result -/

@[simp] theorem paths_neg (p : Ptr) : p.neg.paths = p.paths := by cases p <;> rfl

theorem paths_cneg (c : Bool) (p : Ptr) : (if c then p.neg else p).paths = p.paths := by
  cases c <;> simp

theorem paths_mkNode (x : Nat) (lo hi : Ptr) :
    (mkNode x lo hi).paths = lo.paths.map (x :: ·) ++ hi.paths.map (x :: ·) := by
  simp only [mkNode]; split <;> simp [Ptr.paths]

theorem paths_ne_nil : ∀ (p : Ptr), p.paths ≠ []
  | .tru => by simp [Ptr.paths]
  | .fls => by simp [Ptr.paths]
  | .node _ v lo hi => by
    have := paths_ne_nil lo
    simp [Ptr.paths, this]

theorem exists_path (p : Ptr) : ∃ path, path ∈ p.paths :=
  List.exists_mem_of_ne_nil _ (paths_ne_nil p)

theorem levelVars_eq_range (varAt : Nat → Nat) (k n : Nat) :
    levelVars varAt k n = (List.range n).map (fun i => varAt (k + i)) := by
  simp [levelVars, List.range'_eq_map_range]

theorem mem_paths_mkNode_same {x : Nat} {sub : Ptr} {path : List Nat}
    (h : path ∈ (mkNode x sub sub).paths) : ∃ t ∈ sub.paths, path = x :: t := by
  simp only [paths_mkNode, List.mem_append, List.mem_map, or_self] at h
  obtain ⟨t, ht, rfl⟩ := h
  exact ⟨t, ht, rfl⟩

/-- **C08, paths.**  If `p` is ordered from level `cur`, all its levels are `< cur + n`, and
`varAt` inverts `lvl` on the variables of `p`, every path of the smoothed diagram tests exactly
the variables at levels `cur, …, cur + n - 1`, each once, in order. -/
theorem smooth_paths (lvl varAt : Nat → Nat) : ∀ (n cur : Nat) (p : Ptr),
    p.ordBetween lvl cur (cur + n) → (∀ v ∈ p.vars, varAt (lvl v) = v) →
    ∀ path ∈ (smoothH lvl varAt n cur p).paths, path = levelVars varAt cur n
  | 0, cur, .tru, _, _, path, h => by simpa [smoothH, Ptr.paths, levelVars] using h
  | 0, cur, .fls, _, _, path, h => by simpa [smoothH, Ptr.paths, levelVars] using h
  | 0, cur, .node c v lo hi, ⟨h1, h2, _, _⟩, _, _, _ => by omega
  | n + 1, cur, .tru, _, _, path, h => by
    simp only [smoothH] at h
    obtain ⟨t, ht, rfl⟩ := mem_paths_mkNode_same h
    rw [levelVars_succ, smooth_paths lvl varAt n (cur + 1) .tru trivial (by simp [Ptr.vars]) t ht]
  | n + 1, cur, .fls, _, _, path, h => by
    simp only [smoothH] at h
    obtain ⟨t, ht, rfl⟩ := mem_paths_mkNode_same h
    rw [levelVars_succ, smooth_paths lvl varAt n (cur + 1) .fls trivial (by simp [Ptr.vars]) t ht]
  | n + 1, cur, .node c v lo hi, ⟨h1, h2, h3, h4⟩, hv, path, h => by
    simp only [smoothH] at h
    rw [levelVars_succ]
    split at h
    · rename_i hle
      have hlv : lvl v = cur := by omega
      have hvk : varAt cur = v := by rw [← hlv]; exact hv v List.mem_cons_self
      rw [hlv] at h3 h4
      rw [paths_cneg, paths_mkNode] at h
      simp only [List.mem_append, List.mem_map] at h
      rcases h with ⟨t, ht, rfl⟩ | ⟨t, ht, rfl⟩
      · rw [hvk, smooth_paths lvl varAt n (cur + 1) lo (by rw [show cur + 1 + n = cur + (n + 1) by omega]; exact h3)
          (fun u hu => hv u (List.mem_cons_of_mem _ (List.mem_append_left _ hu))) t ht]
      · rw [hvk, smooth_paths lvl varAt n (cur + 1) hi (by rw [show cur + 1 + n = cur + (n + 1) by omega]; exact h4)
          (fun u hu => hv u (List.mem_cons_of_mem _ (List.mem_append_right _ hu))) t ht]
    · rename_i hgt
      rw [paths_cneg] at h
      obtain ⟨t, ht, rfl⟩ := mem_paths_mkNode_same h
      have hp' : (Ptr.node false v lo hi).ordBetween lvl (cur + 1) (cur + 1 + n) := by
        rw [show cur + 1 + n = cur + (n + 1) by omega]
        exact ⟨by omega, h2, h3, h4⟩
      rw [smooth_paths lvl varAt n (cur + 1) (.node false v lo hi) hp' hv t ht]

/-! ## counting on a smooth diagram: arbitrary weights, no semiring law -/

theorem wmcAux_allpaths (S : SROps α) (w : Weights α) : ∀ (vars : List Nat) (q : Ptr) (n : Bool) (a : Assign),
    (∀ path ∈ q.paths, path = vars) → vars.Nodup →
    wmcAux S w q n = wsum S vars w (fun b => xor n (q.eval b)) a
  | [], .tru, n, a, _, _ => by cases n <;> rfl
  | [], .fls, n, a, _, _ => by cases n <;> rfl
  | [], .node c v lo hi, n, a, h, _ => by
    obtain ⟨t, ht⟩ := exists_path lo
    have := h (v :: t) (by simp [Ptr.paths, ht])
    simp at this
  | v :: vs, .tru, n, a, h, _ => by have := h [] (by simp [Ptr.paths]); simp at this
  | v :: vs, .fls, n, a, h, _ => by have := h [] (by simp [Ptr.paths]); simp at this
  | v :: vs, .node c u lo hi, n, a, h, hnd => by
    have hv : v ∉ vs := (List.nodup_cons.mp hnd).1
    have hvs : vs.Nodup := (List.nodup_cons.mp hnd).2
    have hlo : ∀ t ∈ lo.paths, u = v ∧ t = vs := by
      intro t ht
      have := h (u :: t) (by simp [Ptr.paths, ht])
      simpa using this
    have hhi : ∀ t ∈ hi.paths, t = vs := by
      intro t ht
      have := h (u :: t) (by simp [Ptr.paths, ht])
      simp only [List.cons.injEq] at this
      exact this.2
    obtain ⟨t0, ht0⟩ := exists_path lo
    have huv : u = v := (hlo t0 ht0).1
    subst huv
    simp only [wmcAux, wsum]
    rw [wmcAux_allpaths S w vs lo (xor n c) (upd a u false) (fun t ht => (hlo t ht).2) hvs,
        wmcAux_allpaths S w vs hi (xor n c) (upd a u true) hhi hvs]
    have e0 : wsum S vs w (fun b => xor (xor n c) (lo.eval b)) (upd a u false) =
        wsum S vs w (fun b => xor n ((Ptr.node c u lo hi).eval b)) (upd a u false) := by
      apply wsum_congr'
      intro b hb
      have hbv : b u = false := by rw [hb u hv, upd_same]
      simp [Ptr.eval, hbv]
    have e1 : wsum S vs w (fun b => xor (xor n c) (hi.eval b)) (upd a u true) =
        wsum S vs w (fun b => xor n ((Ptr.node c u lo hi).eval b)) (upd a u true) := by
      apply wsum_congr'
      intro b hb
      have hbv : b u = true := by rw [hb u hv, upd_same]
      simp [Ptr.eval, hbv]
    rw [e0, e1]

/-- **C08, counting.**  On a diagram whose every path tests exactly the duplicate-free list
`vars`, the count is the weighted sum over all assignments of `vars`, for arbitrary
(non-normalised) weights; no semiring law is used. -/
theorem wmc_allpaths (S : SROps α) (w : Weights α) {vars : List Nat} {q : Ptr}
    (h : ∀ path ∈ q.paths, path = vars) (hnd : vars.Nodup) (a : Assign) :
    wmc S w q = wsum S vars w q.eval a := by
  rw [wmc, wmcAux_allpaths S w vars q false a h hnd]
  simp

/-- `wmc` of the smoothed diagram = brute-force weighted sum of the original function over the
first `n` variables of the order, arbitrary weights -/
theorem wmc_smooth (S : SROps α) (w : Weights α) {lvl varAt : Nat → Nat} {n : Nat} {p : Ptr}
    (hinv : ∀ i, i < n → lvl (varAt i) = i) (hv : ∀ v ∈ p.vars, varAt (lvl v) = v)
    (hord : p.ordBetween lvl 0 n) (a : Assign) :
    wmc S w (smooth lvl varAt p n) = wsum S (levelVars varAt 0 n) w p.eval a := by
  have hp := smooth_paths lvl varAt n 0 p (by simpa using hord) hv
  have hnd := levelVars_nodup hinv n 0 (by omega)
  rw [show smooth lvl varAt p n = smoothH lvl varAt n 0 p from rfl, wmc_allpaths S w hp hnd a]
  exact wsum_congr S w _ a (smoothH_eval lvl varAt n 0 p)

/-! ## unweighted counting -/

/-- the natural numbers as a counting semiring -/
def countOps : SROps Nat := ⟨0, 1, (· + ·), (· * ·)⟩

theorem countOps_laws : countOps.Laws where
  add_assoc := Nat.add_assoc
  add_comm := Nat.add_comm
  add_zero := Nat.add_zero
  mul_assoc := Nat.mul_assoc
  mul_comm := Nat.mul_comm
  mul_one := Nat.mul_one
  mul_zero := Nat.mul_zero
  left_distrib := Nat.left_distrib

/-- with every weight `1`, the weighted sum counts the satisfying assignments in the list -/
theorem wsum_count (f : BoolFn) : ∀ (vars : List Nat) (a : Assign),
    wsum countOps vars (fun _ => (1, 1)) f a = (allAssignments vars a).countP f
  | [], a => by
    simp only [wsum, allAssignments, List.countP_cons, List.countP_nil, countOps]
    cases f a <;> simp
  | v :: vs, a => by
    simp only [wsum, allAssignments, List.countP_append, wsum_count f vs]
    simp [countOps]

/-- **C08, unweighted.**  The unweighted count of the smoothed diagram is the number of models
of the original function among the `2^n` assignments of the first `n` variables -/
theorem count_smooth {lvl varAt : Nat → Nat} {n : Nat} {p : Ptr}
    (hinv : ∀ i, i < n → lvl (varAt i) = i) (hv : ∀ v ∈ p.vars, varAt (lvl v) = v)
    (hord : p.ordBetween lvl 0 n) (a : Assign) :
    wmc countOps (fun _ => (1, 1)) (smooth lvl varAt p n) =
      (allAssignments (levelVars varAt 0 n) a).countP p.eval := by
  rw [wmc_smooth countOps _ hinv hv hord a, wsum_count]

/-! ## the pinned helper is wrong -/

/-- weights `(2,3), (3,5), (4,7)` on variables `0,1,2` -/
def wrongW : Weights Nat := fun v => if v = 0 then (2, 3) else if v = 1 then (3, 5) else (4, 7)

/-- `x2` under the identity order on three variables: the pinned helper keeps the node at the
top, produces the path `[2,1,2]` and the count 616; the brute-force sum and the repaired helper
give 280 -/
theorem smoothOrig_wrong :
    let p := Ptr.node false 2 .fls .tru
    [2, 1, 2] ∈ (smoothHOrig id id 3 0 p).paths ∧
    wmc countOps wrongW (smoothHOrig id id 3 0 p) = 616 ∧
    wsum countOps [0, 1, 2] wrongW p.eval (fun _ => false) = 280 ∧
    wmc countOps wrongW (smooth id id p 3) = 280 := by
  decide

end Bdd
