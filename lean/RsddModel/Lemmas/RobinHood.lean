import RsddModel.Model.RobinHood
/-!
# Lemmas: the robin-hood table refines find-or-insert on an append-only set
(see the summary at the end of the file)
-/
namespace RH

/-! ## cyclic index arithmetic -/

theorem succ_mod_shift (pos j cap : Nat) : ((pos + 1) % cap + j) % cap = (pos + (j + 1)) % cap := by
  rw [Nat.mod_add_mod]; congr 1; omega

theorem mod_self_of_lt {p cap : Nat} (h : p < cap) : (p + 0) % cap = p := by
  simp [Nat.mod_eq_of_lt h]

/-- stepping `j` times (`0 < j < cap`) from `p` never comes back to `p` -/
theorem add_mod_ne {p j cap : Nat} (hp : p < cap) (h0 : 0 < j) (hj : j < cap) :
    (p + j) % cap ≠ p := by
  by_cases h : p + j < cap
  · rw [Nat.mod_eq_of_lt h]; omega
  · rw [Nat.mod_eq_sub_mod (by omega), Nat.mod_eq_of_lt (by omega)]; omega

/-- the successor map is injective on `[0, cap)` -/
theorem succ_mod_inj {p q cap : Nat} (hp : p < cap) (hq : q < cap)
    (h : (p + 1) % cap = (q + 1) % cap) : p = q := by
  by_cases h1 : p + 1 < cap <;> by_cases h2 : q + 1 < cap
  · rw [Nat.mod_eq_of_lt h1, Nat.mod_eq_of_lt h2] at h; omega
  · have : q + 1 = cap := by omega
    rw [Nat.mod_eq_of_lt h1, this, Nat.mod_self] at h; omega
  · have : p + 1 = cap := by omega
    rw [Nat.mod_eq_of_lt h2, this, Nat.mod_self] at h; omega
  · omega

/-- every slot is reached from `h` in fewer than `cap` steps -/
theorem reach (h q cap : Nat) (hq : q < cap) : ∃ d < cap, (h + d) % cap = q := by
  have hc : 0 < cap := by omega
  refine ⟨(q + cap - h % cap) % cap, Nat.mod_lt _ hc, ?_⟩
  rw [Nat.add_mod_mod]
  have h1 := Nat.div_add_mod h cap
  have h2 := Nat.mod_lt h hc
  have : h + (q + cap - h % cap) = q + cap * (h / cap + 1) := by
    rw [Nat.mul_succ]; omega
  rw [this, Nat.add_mul_mod_self_left, Nat.mod_eq_of_lt hq]

/-! ## reading and writing slots -/

theorem sget_eq_getElem {v : List Slot} {p : Nat} (h : p < v.length) : sget v p = v[p] := by
  simp [sget, List.getD_eq_getElem?_getD, h]

theorem sget_mem {v : List Slot} {p : Nat} (h : p < v.length) : sget v p ∈ v := by
  rw [sget_eq_getElem h]; exact List.getElem_mem h

theorem sget_set_self {v : List Slot} {p : Nat} {x : Slot} (h : p < v.length) :
    sget (v.set p x) p = x := by
  simp [sget, List.getD_eq_getElem?_getD, h]

theorem sget_set_ne {v : List Slot} {p q : Nat} {x : Slot} (h : p ≠ q) :
    sget (v.set p x) q = sget v q := by
  simp [sget, List.getD_eq_getElem?_getD, h]

theorem exists_sget_of_mem {v : List Slot} {x : Slot} (h : x ∈ v) :
    ∃ p, p < v.length ∧ sget v p = x := by
  obtain ⟨p, hp, e⟩ := List.getElem_of_mem h
  exact ⟨p, hp, by rw [sget_eq_getElem hp, e]⟩

theorem countP_set_add {g : Slot → Bool} {v : List Slot} {p : Nat} {x : Slot} (h : p < v.length) :
    (v.set p x).countP g + (if g (sget v p) then 1 else 0)
      = v.countP g + (if g x then 1 else 0) := by
  induction v generalizing p with
  | nil => simp at h
  | cons a l ih =>
    cases p with
    | zero =>
      simp only [List.set_cons_zero, List.countP_cons, sget, List.getD_cons_zero]
      omega
    | succ p =>
      have h' : p < l.length := by simpa using h
      have := ih h'
      have e : sget (a :: l) (p + 1) = sget l p := rfl
      rw [e]
      simp only [List.set_cons_succ, List.countP_cons]
      omega

/-! ## the slot-array invariant -/

/-- slot `p` is occupied -/
def Occ (v : List Slot) (p : Nat) : Prop := (sget v p).occ = true

/-- every element sits `psl` steps (cyclically) after its home slot -/
def PosOK (v : List Slot) (cap : Nat) : Prop :=
  ∀ p < cap, Occ v p → ((sget v p).hash + (sget v p).psl) % cap = p

/-- the robin-hood order, local form: an element with `psl > 0` has an occupied predecessor whose
psl is at most one smaller -/
def Loc (v : List Slot) (cap : Nat) : Prop :=
  ∀ p < cap, Occ v ((p + 1) % cap) → 0 < (sget v ((p + 1) % cap)).psl →
    Occ v p ∧ (sget v ((p + 1) % cap)).psl ≤ (sget v p).psl + 1

/-- an element with probe length `d` may be put at `pos` as far as its predecessor is concerned -/
def SL (v : List Slot) (cap d pos : Nat) : Prop :=
  ∀ p < cap, (p + 1) % cap = pos → 0 < d → Occ v p ∧ d ≤ (sget v p).psl + 1

/-- the first unoccupied slot at or after `pos` is `m` steps away -/
def FE (v : List Slot) (cap pos m : Nat) : Prop :=
  (∀ j < m, Occ v ((pos + j) % cap)) ∧ ¬ Occ v ((pos + m) % cap)

structure Good (v : List Slot) (cap : Nat) : Prop where
  len : v.length = cap
  pos : PosOK v cap
  loc : Loc v cap

theorem occ_set {v : List Slot} {p : Nat} {x : Slot} (hp : p < v.length) (hx : x.occ = true)
    (ho : Occ v p) (q : Nat) : Occ (v.set p x) q ↔ Occ v q := by
  unfold Occ at *
  by_cases h : p = q
  · subst h; rw [sget_set_self hp]; simp [hx, ho]
  · rw [sget_set_ne h]

theorem FE.shift {v v' : List Slot} {cap pos m : Nat} (h : FE v cap pos (m + 1))
    (ho : ∀ q, Occ v' q ↔ Occ v q) : FE v' cap ((pos + 1) % cap) m := by
  refine ⟨fun j hj => ?_, ?_⟩
  · rw [succ_mod_shift, ho]; exact h.1 (j + 1) (by omega)
  · rw [succ_mod_shift, ho]; exact h.2

/-- writing `s` at `pos` keeps the invariant, provided `s` fits after its predecessor (`SL`) and
the successor still fits after `s` -/
theorem good_set {v : List Slot} {cap pos : Nat} {s : Slot} (hg : Good v cap)
    (hs : s.occ = true) (hpos : pos < cap) (hh : (s.hash + s.psl) % cap = pos)
    (hsl : SL v cap s.psl pos)
    (hn : Occ v ((pos + 1) % cap) → 0 < (sget v ((pos + 1) % cap)).psl →
      (sget v ((pos + 1) % cap)).psl ≤ s.psl + 1) :
    Good (v.set pos s) cap := by
  have hl : pos < v.length := by rw [hg.len]; exact hpos
  refine ⟨by simp [hg.len], ?_, ?_⟩
  · intro p hp ho
    by_cases h : pos = p
    · subst h; rw [sget_set_self hl]; exact hh
    · rw [sget_set_ne h]; rw [Occ, sget_set_ne h] at ho; exact hg.pos p hp ho
  · intro p hp ho hps
    by_cases hq : pos = (p + 1) % cap <;> by_cases hpp : pos = p
    · subst hpp; rw [← hq, sget_set_self hl]
      exact ⟨by rw [Occ, sget_set_self hl]; exact hs, by omega⟩
    · rw [← hq, sget_set_self hl] at hps ⊢
      rw [Occ, sget_set_ne hpp]
      exact hsl p hp hq.symm hps
    · subst hpp
      rw [Occ, sget_set_ne hq] at ho
      rw [sget_set_ne hq] at hps ⊢
      rw [sget_set_self hl]
      exact ⟨by rw [Occ, sget_set_self hl]; exact hs, hn ho hps⟩
    · rw [Occ, sget_set_ne hq] at ho
      rw [sget_set_ne hq] at hps ⊢
      rw [Occ, sget_set_ne hpp]
      exact hg.loc p hp ho hps

/-! ## `propagate` -/

theorem propagate_occ {fuel : Nat} {v : List Slot} {cap : Nat} {s : Slot} {pos : Nat}
    (h : Occ v pos) :
    propagate (fuel + 1) v cap s pos =
      propagate fuel (if (sget v pos).psl < s.psl then v.set pos s else v) cap
        { (if (sget v pos).psl < s.psl then sget v pos else s) with
          psl := (if (sget v pos).psl < s.psl then sget v pos else s).psl + 1 }
        ((pos + 1) % cap) := by
  unfold Occ at h
  simp [propagate, h]

theorem propagate_emp {fuel : Nat} {v : List Slot} {cap : Nat} {s : Slot} {pos : Nat}
    (h : ¬ Occ v pos) : propagate (fuel + 1) v cap s pos = v.set pos s := by
  unfold Occ at h
  simp [propagate, h]

theorem propagate_length (fuel : Nat) (v : List Slot) (cap : Nat) (s : Slot) (pos : Nat) :
    (propagate fuel v cap s pos).length = v.length := by
  induction fuel generalizing v s pos with
  | zero => rfl
  | succ f ih =>
    by_cases h : Occ v pos
    · rw [propagate_occ h, ih]; split <;> simp
    · rw [propagate_emp h]; simp

/-- state of the `propagate` loop: `s` is in hand and wants to go to `pos` -/
structure PSt (v : List Slot) (cap : Nat) (s : Slot) (pos : Nat) : Prop where
  good : Good v cap
  socc : s.occ = true
  hpos : pos < cap
  home : (s.hash + s.psl) % cap = pos
  sl : SL v cap s.psl pos

/-- one iteration of `propagate` on an occupied slot re-establishes the loop state -/
theorem PSt.step {v : List Slot} {cap : Nat} {s : Slot} {pos : Nat} (h : PSt v cap s pos)
    (ho : Occ v pos) :
    PSt (if (sget v pos).psl < s.psl then v.set pos s else v) cap
      { (if (sget v pos).psl < s.psl then sget v pos else s) with
        psl := (if (sget v pos).psl < s.psl then sget v pos else s).psl + 1 }
      ((pos + 1) % cap) := by
  have hc : 0 < cap := by have := h.hpos; omega
  have hl : pos < v.length := by rw [h.good.len]; exact h.hpos
  have hnext : (pos + 1) % cap < cap := Nat.mod_lt _ hc
  by_cases hlt : (sget v pos).psl < s.psl
  · simp only [hlt, if_true]
    refine ⟨good_set h.good h.socc h.hpos h.home h.sl ?_, ho, hnext, ?_, ?_⟩
    · intro ho' hps
      have := (h.good.loc pos h.hpos ho' hps).2
      omega
    · have := h.good.pos pos h.hpos ho
      show ((sget v pos).hash + ((sget v pos).psl + 1)) % cap = (pos + 1) % cap
      have e : (pos + 1) % cap = ((sget v pos).hash + (sget v pos).psl + 1) % cap := by
        rw [← Nat.mod_add_mod ((sget v pos).hash + (sget v pos).psl) cap 1, this]
      rw [e, Nat.add_assoc]
    · intro p hp hpe _
      have : p = pos := succ_mod_inj hp h.hpos hpe
      subst this
      show Occ _ p ∧ (sget v p).psl + 1 ≤ _
      rw [Occ, sget_set_self hl]
      exact ⟨h.socc, by omega⟩
  · simp only [hlt, if_false]
    refine ⟨h.good, h.socc, hnext, ?_, ?_⟩
    · show (s.hash + (s.psl + 1)) % cap = (pos + 1) % cap
      rw [← h.home, Nat.mod_add_mod]; congr 1
    · intro p hp hpe _
      have : p = pos := succ_mod_inj hp h.hpos hpe
      subst this
      show Occ v p ∧ s.psl + 1 ≤ _
      exact ⟨ho, by omega⟩

theorem PSt.finish {v : List Slot} {cap : Nat} {s : Slot} {pos : Nat} (h : PSt v cap s pos)
    (ho : ¬ Occ v pos) : Good (v.set pos s) cap :=
  good_set h.good h.socc h.hpos h.home h.sl
    (fun ho' hps => absurd (h.good.loc pos h.hpos ho' hps).1 ho)

theorem step_occ_iff {v : List Slot} {s : Slot} {pos : Nat} (hl : pos < v.length)
    (hs : s.occ = true) (ho : Occ v pos) (q : Nat) :
    Occ (if (sget v pos).psl < s.psl then v.set pos s else v) q ↔ Occ v q := by
  split
  · exact occ_set hl hs ho q
  · exact Iff.rfl

theorem propagate_good {cap : Nat} (m : Nat) : ∀ (f : Nat) (v : List Slot) (s : Slot) (pos : Nat),
    PSt v cap s pos → FE v cap pos m → m < f → Good (propagate f v cap s pos) cap := by
  induction m with
  | zero =>
    intro f v s pos h hfe hf
    obtain ⟨f, rfl⟩ : ∃ f', f = f' + 1 := ⟨f - 1, by omega⟩
    have ho : ¬ Occ v pos := by have := hfe.2; rwa [mod_self_of_lt h.hpos] at this
    rw [propagate_emp ho]; exact h.finish ho
  | succ m ih =>
    intro f v s pos h hfe hf
    obtain ⟨f, rfl⟩ : ∃ f', f = f' + 1 := ⟨f - 1, by omega⟩
    have ho : Occ v pos := by have := hfe.1 0 (by omega); rwa [mod_self_of_lt h.hpos] at this
    have hl : pos < v.length := by rw [h.good.len]; exact h.hpos
    rw [propagate_occ ho]
    exact ih f _ _ _ (h.step ho) (hfe.shift (step_occ_iff hl h.socc ho)) (by omega)

/-- `propagate` adds exactly the element in hand: every psl-independent count grows by it -/
theorem propagate_count {cap : Nat} {g : Slot → Bool}
    (hg1 : ∀ x n, g { x with psl := n } = g x) (hg0 : ∀ x, g x = true → x.occ = true) (m : Nat) :
    ∀ (f : Nat) (v : List Slot) (s : Slot) (pos : Nat), v.length = cap → pos < cap →
      s.occ = true → FE v cap pos m → m < f →
      (propagate f v cap s pos).countP g = v.countP g + (if g s then 1 else 0) := by
  induction m with
  | zero =>
    intro f v s pos hlen hpos _ hfe hf
    obtain ⟨f, rfl⟩ : ∃ f', f = f' + 1 := ⟨f - 1, by omega⟩
    have ho : ¬ Occ v pos := by have := hfe.2; rwa [mod_self_of_lt hpos] at this
    rw [propagate_emp ho]
    have := countP_set_add (g := g) (x := s) (show pos < v.length by omega)
    have hz : g (sget v pos) = false := by
      cases hgv : g (sget v pos) with
      | false => rfl
      | true => exact absurd (hg0 _ hgv) ho
    simpa [hz] using this
  | succ m ih =>
    intro f v s pos hlen hpos hs hfe hf
    obtain ⟨f, rfl⟩ : ∃ f', f = f' + 1 := ⟨f - 1, by omega⟩
    have ho : Occ v pos := by have := hfe.1 0 (by omega); rwa [mod_self_of_lt hpos] at this
    have hl : pos < v.length := by omega
    have hc : 0 < cap := by omega
    rw [propagate_occ ho]
    rw [ih f _ _ _ (by split <;> simp [hlen]) (Nat.mod_lt _ hc) (by split <;> assumption)
      (hfe.shift (step_occ_iff hl hs ho)) (by omega), hg1]
    by_cases hlt : (sget v pos).psl < s.psl
    · simp only [hlt, if_true]
      have := countP_set_add (g := g) (x := s) hl
      omega
    · simp only [hlt, if_false]

/-- every slot of the result comes from the old array or is the element in hand (up to psl) -/
theorem propagate_all {cap : Nat} {Q : Slot → Prop} (hQ : ∀ x n, Q x → Q { x with psl := n }) :
    ∀ (f : Nat) (v : List Slot) (s : Slot) (pos : Nat), (∀ x ∈ v, Q x) → Q s →
      ∀ x ∈ propagate f v cap s pos, Q x := by
  intro f
  induction f with
  | zero => intro v s pos hv _; exact hv
  | succ f ih =>
    intro v s pos hv hs
    by_cases ho : Occ v pos
    · rw [propagate_occ ho]
      have hc : Q (sget v pos) := by
        unfold Occ at ho
        by_cases hl : pos < v.length
        · exact hv _ (sget_mem hl)
        · exfalso
          have : sget v pos = Slot.empty := by
            simp [sget, List.getD_eq_getElem?_getD, Nat.le_of_not_lt hl]
          rw [this] at ho; exact absurd ho (by decide)
      apply ih
      · split
        · intro x hx
          rcases List.mem_or_eq_of_mem_set hx with h | h
          · exact hv x h
          · exact h ▸ hs
        · exact hv
      · apply hQ; split <;> assumption
    · rw [propagate_emp ho]
      intro x hx
      rcases List.mem_or_eq_of_mem_set hx with h | h
      · exact hv x h
      · exact h ▸ hs

/-- **fuel**: once the fuel exceeds the distance to the first unoccupied slot the loop leaves
through `return`, and more fuel changes nothing -/
theorem propagate_fuel {cap : Nat} (m : Nat) : ∀ (f1 f2 : Nat) (v : List Slot) (s : Slot) (pos : Nat),
    v.length = cap → pos < cap → s.occ = true → FE v cap pos m → m < f1 → m < f2 →
    propagate f1 v cap s pos = propagate f2 v cap s pos := by
  induction m with
  | zero =>
    intro f1 f2 v s pos _ hpos _ hfe h1 h2
    obtain ⟨f1, rfl⟩ : ∃ f', f1 = f' + 1 := ⟨f1 - 1, by omega⟩
    obtain ⟨f2, rfl⟩ : ∃ f', f2 = f' + 1 := ⟨f2 - 1, by omega⟩
    have ho : ¬ Occ v pos := by have := hfe.2; rwa [mod_self_of_lt hpos] at this
    rw [propagate_emp ho, propagate_emp ho]
  | succ m ih =>
    intro f1 f2 v s pos hlen hpos hs hfe h1 h2
    obtain ⟨f1, rfl⟩ : ∃ f', f1 = f' + 1 := ⟨f1 - 1, by omega⟩
    obtain ⟨f2, rfl⟩ : ∃ f', f2 = f' + 1 := ⟨f2 - 1, by omega⟩
    have ho : Occ v pos := by have := hfe.1 0 (by omega); rwa [mod_self_of_lt hpos] at this
    have hc : 0 < cap := by omega
    have hl : pos < v.length := by omega
    rw [propagate_occ ho, propagate_occ ho]
    have hn : (pos + 1) % cap < cap := Nat.mod_lt _ hc
    exact ih f1 f2 _ _ _ (by split <;> simp [hlen]) hn
      (by split <;> assumption) (hfe.shift (step_occ_iff hl hs ho)) (by omega) (by omega)

/-- a write at a slot that the run never visits commutes with `propagate` -/
theorem propagate_set_comm {cap : Nat} (p0 : Nat) (x : Slot) (m : Nat) :
    ∀ (f : Nat) (v : List Slot) (s : Slot) (pos : Nat), v.length = cap → pos < cap →
      s.occ = true → FE v cap pos m → m < f → (∀ j ≤ m, (pos + j) % cap ≠ p0) →
      (propagate f v cap s pos).set p0 x = propagate f (v.set p0 x) cap s pos := by
  induction m with
  | zero =>
    intro f v s pos _ hpos _ hfe hf hne
    obtain ⟨f, rfl⟩ : ∃ f', f = f' + 1 := ⟨f - 1, by omega⟩
    have ho : ¬ Occ v pos := by have := hfe.2; rwa [mod_self_of_lt hpos] at this
    have hp : p0 ≠ pos := by have := hne 0 (by omega); rw [mod_self_of_lt hpos] at this; exact Ne.symm this
    have ho' : ¬ Occ (v.set p0 x) pos := by rw [Occ, sget_set_ne hp]; exact ho
    rw [propagate_emp ho, propagate_emp ho', List.set_comm _ _ (Ne.symm hp)]
  | succ m ih =>
    intro f v s pos hlen hpos hs hfe hf hne
    obtain ⟨f, rfl⟩ : ∃ f', f = f' + 1 := ⟨f - 1, by omega⟩
    have hl : pos < v.length := by omega
    have ho : Occ v pos := by have := hfe.1 0 (by omega); rwa [mod_self_of_lt hpos] at this
    have hp : p0 ≠ pos := by have := hne 0 (by omega); rw [mod_self_of_lt hpos] at this; exact Ne.symm this
    have hc : 0 < cap := by omega
    have hg : sget (v.set p0 x) pos = sget v pos := sget_set_ne hp
    have ho' : Occ (v.set p0 x) pos := by rw [Occ, hg]; exact ho
    rw [propagate_occ ho, propagate_occ ho', hg]
    rw [ih f _ _ _ (by split <;> simp [hlen]) (Nat.mod_lt _ hc) (by split <;> assumption)
      (hfe.shift (step_occ_iff hl hs ho)) (by omega)
      (fun j hj => by rw [succ_mod_shift]; exact hne (j + 1) (by omega))]
    congr 1
    split
    · exact List.set_comm _ _ (Ne.symm hp)
    · rfl

/-- `get_or_insert`'s "propagate the resident, then overwrite its slot" is `propagate` of the new
element from that slot (the two differ only in the order of the writes) -/
theorem displace_eq {cap : Nat} {v : List Slot} {p m f : Nat} {new : Slot}
    (hlen : v.length = cap) (hp : p < cap) (ho : Occ v p) (hlt : (sget v p).psl < new.psl)
    (hfe : FE v cap p m) (hm : m < cap) (hf : m < f) :
    (propagate f v cap (sget v p) p).set p new = propagate f v cap new p := by
  obtain ⟨f, rfl⟩ : ∃ f', f = f' + 1 := ⟨f - 1, by omega⟩
  obtain ⟨m, rfl⟩ : ∃ m', m = m' + 1 := by
    refine ⟨m - 1, ?_⟩
    have : m ≠ 0 := by
      intro h; subst h; have := hfe.2; rw [mod_self_of_lt hp] at this; exact this ho
    omega
  rw [propagate_occ ho, propagate_occ ho]
  simp only [Nat.lt_irrefl, if_false, hlt, if_true]
  exact propagate_set_comm p new m f v _ _ hlen (Nat.mod_lt _ (by omega)) ho
    (hfe.shift (fun _ => Iff.rfl)) (by omega)
    (fun j hj => by rw [succ_mod_shift]; exact add_mod_ne hp (by omega) (by omega))

/-! ## empty slots, covering, chains -/

theorem exists_first {P : Nat → Prop} (n : Nat) (h : ¬ P n) :
    ∃ m ≤ n, (∀ j < m, P j) ∧ ¬ P m := by
  induction n using Nat.strongRecOn with
  | _ n ih =>
    by_cases hall : ∀ j < n, P j
    · exact ⟨n, Nat.le_refl _, hall, h⟩
    · have ⟨j, hj⟩ : ∃ j, j < n ∧ ¬ P j := by
        apply Classical.byContradiction
        intro hne; apply hall; intro j hj
        apply Classical.byContradiction
        intro hp; exact hne ⟨j, hj, hp⟩
      obtain ⟨m, hm, h1, h2⟩ := ih j hj.1 hj.2
      exact ⟨m, by omega, h1, h2⟩

/-- if some slot is unoccupied, the first unoccupied slot from `pos` is fewer than `cap` away -/
theorem first_empty {v : List Slot} {cap : Nat} (he : ∃ q < cap, ¬ Occ v q) (pos : Nat) :
    ∃ m < cap, FE v cap pos m := by
  obtain ⟨q, hq, hne⟩ := he
  obtain ⟨d, hd, e⟩ := reach pos q cap hq
  obtain ⟨m, hm, h1, h2⟩ := exists_first (P := fun j => Occ v ((pos + j) % cap)) d (by rw [e]; exact hne)
  exact ⟨m, by omega, h1, h2⟩

theorem exists_empty_of_count {v : List Slot} (h : v.countP Slot.occ < v.length) :
    ∃ q < v.length, ¬ Occ v q := by
  have : ¬ ∀ a ∈ v, a.occ = true := fun hall => by
    have := List.countP_eq_length.2 hall; omega
  have ⟨a, ha, hna⟩ : ∃ a, a ∈ v ∧ ¬ a.occ = true := by
    apply Classical.byContradiction
    intro hne; apply this; intro a ha
    apply Classical.byContradiction
    intro hp; exact hne ⟨a, ha, hp⟩
  obtain ⟨q, hq, e⟩ := exists_sget_of_mem ha
  exact ⟨q, hq, by rw [Occ, e]; exact hna⟩

/-- the probe path of a stored element: from a slot holding psl `≥ s` at offset `s` from `h`,
all the slots at offsets `d ≤ s` are occupied by elements with psl `≥ d` -/
theorem chain {v : List Slot} {cap : Nat} (hloc : Loc v cap) (hc : 0 < cap) (h s : Nat)
    (ho : Occ v ((h + s) % cap)) (hs : s ≤ (sget v ((h + s) % cap)).psl) :
    ∀ k ≤ s, Occ v ((h + (s - k)) % cap) ∧ s - k ≤ (sget v ((h + (s - k)) % cap)).psl := by
  intro k
  induction k with
  | zero => intro _; exact ⟨ho, hs⟩
  | succ k ih =>
    intro hk
    obtain ⟨h1, h2⟩ := ih (by omega)
    have e : ((h + (s - (k + 1))) % cap + 1) % cap = (h + (s - k)) % cap := by
      rw [Nat.mod_add_mod]; congr 1; omega
    have := hloc ((h + (s - (k + 1))) % cap) (Nat.mod_lt _ hc) (by rw [e]; exact h1)
      (by rw [e]; omega)
    rw [e] at this
    exact ⟨this.1, by omega⟩

/-- stored probe lengths are smaller than `cap` as soon as one slot is free -/
theorem psl_lt_cap {v : List Slot} {cap : Nat} (hg : Good v cap) (he : ∃ q < cap, ¬ Occ v q)
    {p : Nat} (hp : p < cap) (ho : Occ v p) : (sget v p).psl < cap := by
  apply Classical.byContradiction
  intro hge
  obtain ⟨q, hq, hne⟩ := he
  have hc : 0 < cap := by omega
  have hpos := hg.pos p hp ho
  obtain ⟨d, hd, e⟩ := reach (sget v p).hash q cap hq
  have := chain hg.loc hc (sget v p).hash (sget v p).psl (by rw [hpos]; exact ho)
    (by rw [hpos]; exact Nat.le_refl _) ((sget v p).psl - d) (by omega)
  rw [show (sget v p).psl - ((sget v p).psl - d) = d by omega, e] at this
  exact hne this.1

/-- what `propagate` (and therefore an insertion) does to the slot array -/
structure Ext (v : List Slot) (cap : Nat) (s : Slot) (v' : List Slot) : Prop where
  good : Good v' cap
  cnt : ∀ g : Slot → Bool, (∀ x n, g { x with psl := n } = g x) → (∀ x, g x = true → x.occ = true) →
    v'.countP g = v.countP g + (if g s then 1 else 0)
  all : ∀ Q : Slot → Prop, (∀ x n, Q x → Q { x with psl := n }) → (∀ x ∈ v, Q x) → Q s →
    ∀ x ∈ v', Q x

theorem propagate_ext {cap m f : Nat} {v : List Slot} {s : Slot} {pos : Nat}
    (h : PSt v cap s pos) (hfe : FE v cap pos m) (hf : m < f) :
    Ext v cap s (propagate f v cap s pos) :=
  ⟨propagate_good m f v s pos h hfe hf,
   fun _ hg1 hg0 => propagate_count hg1 hg0 m f v s pos h.good.len h.hpos h.socc hfe hf,
   fun _ hQ hv hs => propagate_all hQ f v s pos hv hs⟩

/-! ## the probe loop of `get_or_insert_by_hash` -/

/-- the table after a hit -/
def hit (t : Tbl) : Tbl := { t with hits := t.hits + 1 }

/-- the result of a miss that leaves the slot array `v'` -/
def ins (t : Tbl) (v' : List Slot) (key : Nat) : Tbl × Nat × Bool :=
  ({ t with slots := v', len := t.len + 1, keys := t.keys ++ [key] }, t.keys.length, false)

theorem insertAt_eq (t : Tbl) (v : List Slot) (pos hash psl key : Nat) :
    insertAt t v pos hash psl key = ins t (v.set pos ⟨some t.keys.length, hash, psl⟩) key := rfl

theorem probe_none {t : Tbl} {hash key pf f pos d : Nat} (h : (sget t.slots pos).ptr = none) :
    probe t hash key pf (f + 1) pos d = insertAt t t.slots pos hash d key := by
  rw [probe]; simp only [h]

theorem probe_some {t : Tbl} {hash key pf f pos d i : Nat} (h : (sget t.slots pos).ptr = some i) :
    probe t hash key pf (f + 1) pos d =
      if hash = (sget t.slots pos).hash ∧ t.keys.getD i 0 = key then (hit t, i, true)
      else if (sget t.slots pos).psl < d then
        insertAt t (propagate pf t.slots t.cap (sget t.slots pos) pos) pos hash d key
      else probe t hash key pf f ((pos + 1) % t.cap) (d + 1) := by
  rw [probe]; simp only [h]; rfl

theorem occ_iff_ptr {v : List Slot} {p : Nat} : Occ v p ↔ ∃ i, (sget v p).ptr = some i := by
  unfold Occ Slot.occ
  cases (sget v p).ptr <;> simp

theorem mem_of_sget_ptr {v : List Slot} {p i : Nat} (h : (sget v p).ptr = some i) : sget v p ∈ v := by
  by_cases hl : p < v.length
  · exact sget_mem hl
  · have : sget v p = Slot.empty := by
      simp [sget, List.getD_eq_getElem?_getD, Nat.le_of_not_lt hl]
    rw [this] at h; cases h

theorem home_succ {a b cap pos : Nat} (h : (a + b) % cap = pos) :
    (a + (b + 1)) % cap = (pos + 1) % cap := by
  rw [← h, Nat.mod_add_mod, Nat.add_assoc]

/-- a probe for a key that matches no slot ends in an insertion, and the new slot array is the old
one extended by the new element in the sense of `Ext` -/
theorem probe_insert {t : Tbl} {hash key pf : Nat} (hg : Good t.slots t.cap)
    (hnm : ∀ p i, (sget t.slots p).ptr = some i →
      ¬ (hash = (sget t.slots p).hash ∧ t.keys.getD i 0 = key))
    (hpf : t.cap < pf) (m : Nat) :
    ∀ (fuel pos d : Nat), pos < t.cap → (hash + d) % t.cap = pos → SL t.slots t.cap d pos →
      FE t.slots t.cap pos m → m < t.cap → m < fuel →
      ∃ d' v', probe t hash key pf fuel pos d = ins t v' key ∧
        Ext t.slots t.cap ⟨some t.keys.length, hash, d'⟩ v' := by
  induction m with
  | zero =>
    intro fuel pos d hpos hhome hsl hfe _ hf
    obtain ⟨fuel, rfl⟩ : ∃ f', fuel = f' + 1 := ⟨fuel - 1, by omega⟩
    obtain ⟨pf', hpf'⟩ : ∃ f', pf = f' + 1 := ⟨pf - 1, by omega⟩
    have ho : ¬ Occ t.slots pos := by have := hfe.2; rwa [mod_self_of_lt hpos] at this
    have hn : (sget t.slots pos).ptr = none := by
      cases hc : (sget t.slots pos).ptr with
      | none => rfl
      | some i => exact absurd (occ_iff_ptr.2 ⟨i, hc⟩) ho
    refine ⟨d, _, by rw [probe_none hn, insertAt_eq], ?_⟩
    have := propagate_ext (f := pf) (s := ⟨some t.keys.length, hash, d⟩)
      ⟨hg, rfl, hpos, hhome, hsl⟩ hfe (by omega)
    rw [hpf', propagate_emp ho] at this
    exact this
  | succ m ih =>
    intro fuel pos d hpos hhome hsl hfe hm hf
    obtain ⟨fuel, rfl⟩ : ∃ f', fuel = f' + 1 := ⟨fuel - 1, by omega⟩
    have ho : Occ t.slots pos := by have := hfe.1 0 (by omega); rwa [mod_self_of_lt hpos] at this
    obtain ⟨i, hi⟩ := occ_iff_ptr.1 ho
    rw [probe_some hi, if_neg (hnm pos i hi)]
    by_cases hlt : (sget t.slots pos).psl < d
    · rw [if_pos hlt, insertAt_eq]
      refine ⟨d, _, rfl, ?_⟩
      rw [displace_eq (new := ⟨some t.keys.length, hash, d⟩) hg.len hpos ho hlt hfe hm (by omega)]
      exact propagate_ext ⟨hg, rfl, hpos, hhome, hsl⟩ hfe (by omega)
    · rw [if_neg hlt]
      refine ih fuel _ (d + 1) (Nat.mod_lt _ (by omega)) (home_succ hhome) ?_
        (hfe.shift (fun _ => Iff.rfl)) (by omega) (by omega)
      intro p hp hpe _
      have : p = pos := succ_mod_inj hp hpos hpe
      subst this
      exact ⟨ho, by omega⟩

/-- a probe for a key stored `s` steps after its home slot finds it (or an equal key earlier) -/
theorem probe_finds {t : Tbl} {hash key pf s i0 : Nat}
    (hpath : ∀ d' ≤ s, Occ t.slots ((hash + d') % t.cap) ∧
      d' ≤ (sget t.slots ((hash + d') % t.cap)).psl)
    (hp : (sget t.slots ((hash + s) % t.cap)).ptr = some i0)
    (hh : (sget t.slots ((hash + s) % t.cap)).hash = hash) (hk : t.keys.getD i0 0 = key) (n : Nat) :
    ∀ (fuel d : Nat), n = s - d → d ≤ s → s - d < fuel →
      ∃ i p, probe t hash key pf fuel ((hash + d) % t.cap) d = (hit t, i, true) ∧
        t.keys.getD i 0 = key ∧ (sget t.slots p).ptr = some i := by
  induction n with
  | zero =>
    intro fuel d hn hd hf
    obtain ⟨fuel, rfl⟩ : ∃ f', fuel = f' + 1 := ⟨fuel - 1, by omega⟩
    have : d = s := by omega
    subst this
    refine ⟨i0, _, ?_, hk, hp⟩
    rw [probe_some hp, if_pos ⟨hh.symm, hk⟩]
  | succ n ih =>
    intro fuel d hn hd hf
    obtain ⟨fuel, rfl⟩ : ∃ f', fuel = f' + 1 := ⟨fuel - 1, by omega⟩
    obtain ⟨ho, hps⟩ := hpath d hd
    obtain ⟨i, hi⟩ := occ_iff_ptr.1 ho
    rw [probe_some hi]
    by_cases hmatch : hash = (sget t.slots ((hash + d) % t.cap)).hash ∧ t.keys.getD i 0 = key
    · rw [if_pos hmatch]; exact ⟨i, _, rfl, hmatch.2, hi⟩
    · rw [if_neg hmatch, if_neg (by omega)]
      have e : ((hash + d) % t.cap + 1) % t.cap = (hash + (d + 1)) % t.cap := by
        rw [Nat.mod_add_mod, Nat.add_assoc]
      rw [e]
      exact ih fuel (d + 1) (by omega) (by omega) (by omega)

/-! ## the table invariant -/

/-- The invariant of the unique table, relative to the hash function `hashOf` of the keys. -/
structure RHInv (hashOf : Nat → Nat) (t : Tbl) : Prop where
  cap_pos : 0 < t.cap
  /-- `slots.length = cap`, every element is `psl` steps after its home, robin-hood order -/
  good : Good t.slots t.cap
  len_eq : t.len = t.keys.length
  /-- `len` is the number of occupied slots -/
  occ_cnt : t.slots.countP Slot.occ = t.len
  /-- occupied slots point into the arena and carry the hash of the key they point to -/
  ptr_ok : ∀ x ∈ t.slots, ∀ i, x.ptr = some i → ∃ k, t.keys[i]? = some k ∧ x.hash = hashOf k
  /-- every arena index is held by exactly one slot -/
  uniq : ∀ i < t.keys.length, t.slots.countP (fun x => x.ptr == some i) = 1
  /-- the arena holds pairwise distinct keys -/
  nodup : t.keys.Nodup

theorem getD_of_getElem? {l : List Nat} {i k : Nat} (h : l[i]? = some k) : l.getD i 0 = k := by
  simp [List.getD_eq_getElem?_getD, h]

theorem RHInv.hit {hashOf : Nat → Nat} {t : Tbl} (h : RHInv hashOf t) : RHInv hashOf (hit t) :=
  ⟨h.cap_pos, h.good, h.len_eq, h.occ_cnt, h.ptr_ok, h.uniq, h.nodup⟩

theorem RHInv.exists_empty {hashOf : Nat → Nat} {t : Tbl} (h : RHInv hashOf t)
    (hlt : t.len < t.cap) : ∃ q < t.cap, ¬ Occ t.slots q := by
  have := exists_empty_of_count (v := t.slots) (by rw [h.occ_cnt, h.good.len]; exact hlt)
  rwa [h.good.len] at this

/-- a miss keeps the invariant -/
theorem RHInv.ins {hashOf : Nat → Nat} {t : Tbl} (h : RHInv hashOf t) {k d : Nat} {v' : List Slot}
    (hk : k ∉ t.keys) (he : Ext t.slots t.cap ⟨some t.keys.length, hashOf k, d⟩ v') :
    RHInv hashOf (ins t v' k).1 := by
  have hbound : ∀ x ∈ t.slots, ∀ i, x.ptr = some i → i < t.keys.length := by
    intro x hx i hi
    obtain ⟨k', hk', _⟩ := h.ptr_ok x hx i hi
    exact (List.getElem?_eq_some_iff.1 hk').1
  refine ⟨h.cap_pos, he.good, ?_, ?_, ?_, ?_, ?_⟩
  · show t.len + 1 = (t.keys ++ [k]).length
    simp [h.len_eq]
  · show v'.countP Slot.occ = t.len + 1
    rw [he.cnt Slot.occ (fun _ _ => rfl) (fun _ hx => hx), h.occ_cnt]; rfl
  · show ∀ x ∈ v', ∀ i, x.ptr = some i → ∃ k', (t.keys ++ [k])[i]? = some k' ∧ x.hash = hashOf k'
    apply he.all (fun x => ∀ i, x.ptr = some i → ∃ k', (t.keys ++ [k])[i]? = some k' ∧ x.hash = hashOf k')
    · intro x n hx; exact hx
    · intro x hx i hi
      obtain ⟨k', hk', hh⟩ := h.ptr_ok x hx i hi
      exact ⟨k', by rw [List.getElem?_append_left (hbound x hx i hi)]; exact hk', hh⟩
    · intro i hi
      cases hi
      exact ⟨k, by simp, rfl⟩
  · show ∀ i < (t.keys ++ [k]).length, v'.countP (fun x => x.ptr == some i) = 1
    intro i hi
    have hi' : i < t.keys.length + 1 := by simpa using hi
    rw [he.cnt (fun x => x.ptr == some i) (fun _ _ => rfl)
      (fun x hx => by
        have : x.ptr = some i := by simpa using hx
        simp [Slot.occ, this])]
    by_cases hlt : i < t.keys.length
    · rw [h.uniq i hlt]
      have : ¬ (t.keys.length = i) := by omega
      simp [this]
    · have hieq : i = t.keys.length := by omega
      subst hieq
      have : t.slots.countP (fun x => x.ptr == some t.keys.length) = 0 := by
        rw [List.countP_eq_zero]
        intro x hx hp
        have : x.ptr = some t.keys.length := by simpa using hp
        exact Nat.lt_irrefl _ (hbound x hx _ this)
      rw [this]; simp
  · show (t.keys ++ [k]).Nodup
    rw [List.nodup_append]
    refine ⟨h.nodup, by simp, ?_⟩
    intro a ha b hb
    have : b = k := by simpa using hb
    subst this
    intro hab; subst hab; exact hk ha

/-- the specification of one `find-or-insert` step from `t` to `t'` returning `(i, found)` -/
structure StepSpec (t : Tbl) (k : Nat) (t' : Tbl) (i : Nat) (found : Bool) : Prop where
  found_iff : found = true ↔ k ∈ t.keys
  index : t'.keys[i]? = some k
  hit_keys : found = true → t'.keys = t.keys ∧ t'.len = t.len
  miss_keys : found = false → t'.keys = t.keys ++ [k] ∧ i = t.keys.length
  prefix_keys : t.keys <+: t'.keys

/-- the probe loop, started at the home slot of `k` with enough fuel, meets the specification -/
theorem probe_spec {hashOf : Nat → Nat} {t : Tbl} (h : RHInv hashOf t) (hlt : t.len < t.cap)
    {k pf fuel : Nat} (hpf : t.cap < pf) (hf : t.cap < fuel) {t' : Tbl} {i : Nat} {found : Bool}
    (e : probe t (hashOf k) k pf fuel (hashOf k % t.cap) 0 = (t', i, found)) :
    RHInv hashOf t' ∧ t'.cap = t.cap ∧ StepSpec t k t' i found := by
  have hemp := h.exists_empty hlt
  by_cases hk : k ∈ t.keys
  · -- the key is in the arena: some slot holds its index, and the probe reaches it
    obtain ⟨i0, hi0⟩ := List.mem_iff_getElem?.1 hk
    have hi0l : i0 < t.keys.length := (List.getElem?_eq_some_iff.1 hi0).1
    have hcnt := h.uniq i0 hi0l
    obtain ⟨x, hx, hxp⟩ := List.countP_pos_iff.1 (by rw [hcnt]; exact Nat.one_pos)
    have hxp : x.ptr = some i0 := by simpa using hxp
    obtain ⟨p, hp, rfl⟩ := exists_sget_of_mem hx
    rw [h.good.len] at hp
    have hocc : Occ t.slots p := occ_iff_ptr.2 ⟨i0, hxp⟩
    obtain ⟨k', hk', hhash⟩ := h.ptr_ok _ hx i0 hxp
    have : k' = k := by rw [hi0] at hk'; exact (Option.some.inj hk').symm
    subst this
    have hpos := h.good.pos p hp hocc
    rw [hhash] at hpos
    have hs := psl_lt_cap h.good hemp hp hocc
    have hpath : ∀ d' ≤ (sget t.slots p).psl, Occ t.slots ((hashOf k' + d') % t.cap) ∧
        d' ≤ (sget t.slots ((hashOf k' + d') % t.cap)).psl := by
      intro d' hd'
      have := chain h.good.loc h.cap_pos (hashOf k') (sget t.slots p).psl
        (by rw [hpos]; exact hocc) (by rw [hpos]; exact Nat.le_refl _)
        ((sget t.slots p).psl - d') (by omega)
      rwa [show (sget t.slots p).psl - ((sget t.slots p).psl - d') = d' by omega] at this
    obtain ⟨j, q, hres, hjk, hjq⟩ := probe_finds (pf := pf) hpath (by rw [hpos]; exact hxp)
      (by rw [hpos]; exact hhash) (getD_of_getElem? hi0) _ fuel 0 rfl (Nat.zero_le _) (by omega)
    obtain ⟨k'', hk'', _⟩ := h.ptr_ok _ (mem_of_sget_ptr hjq) j hjq
    have : k'' = k' := by rw [← hjk]; exact (getD_of_getElem? hk'').symm
    subst this
    rw [Nat.add_zero, e] at hres
    simp only [Prod.mk.injEq] at hres
    obtain ⟨rfl, rfl, rfl⟩ := hres
    exact ⟨h.hit, rfl, ⟨by simp [hk], hk'', fun _ => ⟨rfl, rfl⟩, fun hc => (by cases hc),
      List.prefix_refl _⟩⟩
  · -- the key is new: no slot matches, the probe ends in an insertion
    have hnm : ∀ p i, (sget t.slots p).ptr = some i →
        ¬ (hashOf k = (sget t.slots p).hash ∧ t.keys.getD i 0 = k) := by
      intro p i hp ⟨_, hkk⟩
      obtain ⟨k', hk', _⟩ := h.ptr_ok _ (mem_of_sget_ptr hp) i hp
      have : k' = k := by rw [← hkk]; exact (getD_of_getElem? hk').symm
      subst this
      exact hk (List.mem_iff_getElem?.2 ⟨i, hk'⟩)
    obtain ⟨m, hm, hfe⟩ := first_empty hemp (hashOf k % t.cap)
    obtain ⟨d', v', hres, hext⟩ := probe_insert h.good hnm hpf m fuel (hashOf k % t.cap) 0
      (Nat.mod_lt _ h.cap_pos) rfl (fun _ _ _ hd => absurd hd (Nat.lt_irrefl _)) hfe hm (by omega)
    rw [e] at hres
    have hinv := h.ins hk hext
    rw [← hres] at hinv
    simp only [ins, Prod.mk.injEq] at hres
    obtain ⟨rfl, rfl, rfl⟩ := hres
    exact ⟨hinv, rfl, ⟨by simp [hk], by simp, fun hc => (by cases hc),
      fun _ => ⟨rfl, rfl⟩, List.prefix_append _ _⟩⟩

/-! ## `grow` -/

theorem nextPow2Aux_ge (n : Nat) : ∀ (f p : Nat), 1 ≤ p → n ≤ p + f → n ≤ nextPow2Aux n f p := by
  intro f
  induction f with
  | zero => intro p _ h; simpa [nextPow2Aux] using h
  | succ f ih =>
    intro p hp h
    rw [nextPow2Aux]
    split
    · exact ih (2 * p) (by omega) (by omega)
    · omega

theorem le_nextPow2 (n : Nat) : n ≤ nextPow2 n := nextPow2Aux_ge n n 1 (Nat.le_refl _) (by omega)

theorem good_replicate (n : Nat) : Good (List.replicate n Slot.empty) n := by
  have he : ∀ p, sget (List.replicate n Slot.empty) p = Slot.empty := by
    intro p
    simp only [sget, List.getD_eq_getElem?_getD, List.getElem?_replicate]
    split <;> rfl
  refine ⟨by simp, ?_, ?_⟩
  · intro p _ ho; rw [Occ, he] at ho; cases ho
  · intro p _ ho; rw [Occ, he] at ho; cases ho

/-- the re-insertion loop of `grow` -/
def growStep (N f : Nat) (v : List Slot) (i : Slot) : List Slot :=
  if i.occ then propagate f v N { i with psl := 0 } (i.hash % N) else v

/-- one re-insertion of `grow`: extends the new array by the element, for any sufficient fuel -/
theorem growStep_ext {N f : Nat} (hN : 0 < N) (hf : N < f) {v : List Slot} {a : Slot}
    (hg : Good v N) (hcnt : v.countP Slot.occ < N) (ha : a.occ = true) :
    Ext v N { a with psl := 0 } (growStep N f v a) ∧
      ∀ f2, N < f2 → growStep N f v a = growStep N f2 v a := by
  have hstep : ∀ f, growStep N f v a = propagate f v N { a with psl := 0 } (a.hash % N) := by
    intro f; simp [growStep, ha]
  have hemp : ∃ q < N, ¬ Occ v q := by
    have := exists_empty_of_count (v := v) (by rw [hg.len]; omega)
    rwa [hg.len] at this
  obtain ⟨m, hm, hfe⟩ := first_empty hemp (a.hash % N)
  refine ⟨?_, fun f2 hf2 => ?_⟩
  · rw [hstep]
    exact propagate_ext ⟨hg, ha, Nat.mod_lt _ hN, rfl,
      fun _ _ _ hd => absurd hd (Nat.lt_irrefl _)⟩ hfe (by omega)
  · rw [hstep, hstep]
    exact propagate_fuel m f f2 v _ _ hg.len (Nat.mod_lt _ hN) ha hfe (by omega) (by omega)

theorem grow_fold {N f : Nat} (hN : 0 < N) (hf : N < f) :
    ∀ (xs v : List Slot), Good v N → v.countP Slot.occ + xs.countP Slot.occ < N →
      Good (xs.foldl (growStep N f) v) N ∧
      (∀ g : Slot → Bool, (∀ x n, g { x with psl := n } = g x) → (∀ x, g x = true → x.occ = true) →
        (xs.foldl (growStep N f) v).countP g = v.countP g + xs.countP g) ∧
      (∀ Q : Slot → Prop, (∀ x n, Q x → Q { x with psl := n }) → (∀ x ∈ v, Q x) → (∀ x ∈ xs, Q x) →
        ∀ x ∈ xs.foldl (growStep N f) v, Q x) ∧
      (∀ f2, N < f2 → xs.foldl (growStep N f) v = xs.foldl (growStep N f2) v) := by
  intro xs
  induction xs with
  | nil => intro v hg _; exact ⟨hg, fun _ _ _ => by simp, fun _ _ hv _ => hv, fun _ _ => rfl⟩
  | cons a xs ih =>
    intro v hg hcnt
    rw [List.foldl_cons]
    rw [List.countP_cons] at hcnt
    by_cases ha : a.occ = true
    · simp only [ha, if_true] at hcnt
      obtain ⟨hext, hfuel⟩ := growStep_ext (f := f) hN hf hg (by omega) ha
      have hc1 := hext.cnt Slot.occ (fun _ _ => rfl) (fun _ hx => hx)
      have hocc0 : Slot.occ { a with psl := 0 } = true := ha
      rw [hocc0] at hc1
      simp only [if_true] at hc1
      obtain ⟨h1, h2, h3, h4⟩ := ih _ hext.good (by omega)
      refine ⟨h1, ?_, ?_, ?_⟩
      · intro g hg1 hg0
        rw [h2 g hg1 hg0, hext.cnt g hg1 hg0, hg1, List.countP_cons]; omega
      · intro Q hQ hv hxs
        exact h3 Q hQ (hext.all Q hQ hv (hQ _ _ (hxs a (List.mem_cons_self ..))))
          (fun x hx => hxs x (List.mem_cons_of_mem _ hx))
      · intro f2 hf2
        rw [List.foldl_cons, ← hfuel f2 hf2]; exact h4 f2 hf2
    · have hstep : ∀ f, growStep N f v a = v := by intro f; simp [growStep, ha]
      rw [hstep]
      simp only [ha] at hcnt
      obtain ⟨h1, h2, h3, h4⟩ := ih v hg (by simpa using hcnt)
      refine ⟨h1, ?_, ?_, ?_⟩
      · intro g hg1 hg0
        have : g a = false := by
          cases hga : g a with
          | false => rfl
          | true => exact absurd (hg0 a hga) ha
        rw [h2 g hg1 hg0, List.countP_cons, this]; simp
      · intro Q hQ hv hxs
        exact h3 Q hQ hv (fun x hx => hxs x (List.mem_cons_of_mem _ hx))
      · intro f2 hf2
        rw [List.foldl_cons, hstep]; exact h4 f2 hf2

theorem grow_eq (t : Tbl) (extra : Nat) :
    grow t extra = { t with
      slots := t.slots.foldl (growStep (nextPow2 (t.cap + 1)) (nextPow2 (t.cap + 1) + 1 + extra))
        (List.replicate (nextPow2 (t.cap + 1)) Slot.empty),
      cap := nextPow2 (t.cap + 1) } := rfl

/-- `grow` keeps the invariant, the arena and `len`, and strictly enlarges the table -/
theorem grow_preserves {hashOf : Nat → Nat} {t : Tbl} (h : RHInv hashOf t) (extra : Nat := 0) :
    RHInv hashOf (grow t extra) ∧ (grow t extra).keys = t.keys ∧ (grow t extra).len = t.len ∧
      t.cap < (grow t extra).cap := by
  have hN := le_nextPow2 (t.cap + 1)
  have hlen : t.len ≤ t.cap := by
    rw [← h.occ_cnt, ← h.good.len]; exact List.countP_le_length
  have hrep : ∀ g : Slot → Bool, (∀ x, g x = true → x.occ = true) →
      (List.replicate (nextPow2 (t.cap + 1)) Slot.empty).countP g = 0 := by
    intro g hg0
    rw [List.countP_replicate]
    split
    · rename_i hc; exact absurd (hg0 _ hc) (by decide)
    · rfl
  obtain ⟨h1, h2, h3, _⟩ := grow_fold (N := nextPow2 (t.cap + 1))
    (f := nextPow2 (t.cap + 1) + 1 + extra) (by omega) (by omega) t.slots _
    (good_replicate _) (by rw [hrep _ (fun _ hx => hx), h.occ_cnt]; omega)
  rw [grow_eq]
  refine ⟨⟨by show 0 < nextPow2 (t.cap + 1); omega, h1, h.len_eq, ?_, ?_, ?_, h.nodup⟩,
    rfl, rfl, by show t.cap < nextPow2 (t.cap + 1); omega⟩
  · show List.countP Slot.occ _ = t.len
    rw [h2 _ (fun _ _ => rfl) (fun _ hx => hx), hrep _ (fun _ hx => hx), h.occ_cnt]; simp
  · exact h3 (fun x : Slot => ∀ i, x.ptr = some i → ∃ k, t.keys[i]? = some k ∧ x.hash = hashOf k)
      (fun _ _ hx => hx)
      (fun x hx i hi => by
        have : x = Slot.empty := List.eq_of_mem_replicate hx
        subst this; cases hi)
      h.ptr_ok
  · intro i hi
    have hg0 : ∀ x : Slot, (x.ptr == some i) = true → x.occ = true := by
      intro x hx
      have : x.ptr = some i := by simpa using hx
      simp [Slot.occ, this]
    show List.countP (fun x : Slot => x.ptr == some i) _ = 1
    rw [h2 _ (fun _ _ => rfl) hg0, hrep _ hg0, h.uniq i hi]

/-! ## `get_or_insert_by_hash` -/

/-- `LOAD_FACTOR` is a positive rational `≤ 1` -/
structure LoadFactor.Valid (lf : LoadFactor) : Prop where
  den_pos : 0 < lf.den
  le_one : lf.num ≤ lf.den

theorem LoadFactor.valid_default : LoadFactor.Valid {} := ⟨by decide, by decide⟩

theorem lt_cap_of_not_needGrow {lf : LoadFactor} (hlf : lf.Valid) {t : Tbl}
    (h : needGrow lf t = false) : t.len < t.cap := by
  have h' : ¬ (t.len + 1) * lf.den > t.cap * lf.num := by simpa [needGrow] using h
  apply Classical.byContradiction
  intro hge
  apply h'
  have h1 : t.cap * lf.num ≤ t.cap * lf.den := Nat.mul_le_mul_left _ hlf.le_one
  have h2 : (t.cap + 1) * lf.den ≤ (t.len + 1) * lf.den :=
    Nat.mul_le_mul_right _ (by omega)
  have h3 : (t.cap + 1) * lf.den = t.cap * lf.den + lf.den := Nat.succ_mul _ _
  have := hlf.den_pos
  omega

/-- **`get_or_insert` refines find-or-insert on an append-only set.** -/
theorem getOrInsert_spec {hashOf : Nat → Nat} {lf : LoadFactor} (hlf : lf.Valid) {t : Tbl}
    (h : RHInv hashOf t) {k extra : Nat} {t' : Tbl} {i : Nat} {found : Bool}
    (e : getOrInsert lf t (hashOf k) k extra = (t', i, found)) :
    RHInv hashOf t' ∧ StepSpec t k t' i found := by
  unfold getOrInsert getOrInsertWith at e
  by_cases hg : needGrow lf t = true
  · simp only [hg, if_true] at e
    obtain ⟨g1, g2, g3, g4⟩ := grow_preserves h extra
    have hlen : t.len ≤ t.cap := by
      rw [← h.occ_cnt, ← h.good.len]; exact List.countP_le_length
    obtain ⟨p1, _, p3⟩ := probe_spec g1 (by omega) (by omega) (by omega) e
    refine ⟨p1, ⟨by rw [← g2]; exact p3.found_iff, p3.index, ?_, ?_, by rw [← g2]; exact p3.prefix_keys⟩⟩
    · intro hf; have := p3.hit_keys hf; rw [g2, g3] at this; exact this
    · intro hf; have := p3.miss_keys hf; rw [g2] at this; exact this
  · have hg' : needGrow lf t = false := by simpa using hg
    simp only [hg', Bool.false_eq_true, if_false] at e
    obtain ⟨p1, _, p3⟩ := probe_spec h (lt_cap_of_not_needGrow hlf hg') (by omega) (by omega) e
    exact ⟨p1, p3⟩

/-! ## fuel: the fuel-exhausted branches are unreachable -/

/-- the probe loop returns before the fuel runs out: any two sufficient fuels give the same result -/
theorem probe_fuel {t : Tbl} {hash key : Nat} (hlen : t.slots.length = t.cap) (m : Nat) :
    ∀ (pf1 pf2 f1 f2 pos d : Nat), pos < t.cap → FE t.slots t.cap pos m → m < t.cap →
      t.cap < pf1 → t.cap < pf2 → m < f1 → m < f2 →
      probe t hash key pf1 f1 pos d = probe t hash key pf2 f2 pos d := by
  induction m with
  | zero =>
    intro pf1 pf2 f1 f2 pos d hpos hfe _ _ _ h1 h2
    obtain ⟨f1, rfl⟩ : ∃ f', f1 = f' + 1 := ⟨f1 - 1, by omega⟩
    obtain ⟨f2, rfl⟩ : ∃ f', f2 = f' + 1 := ⟨f2 - 1, by omega⟩
    have ho : ¬ Occ t.slots pos := by have := hfe.2; rwa [mod_self_of_lt hpos] at this
    have hn : (sget t.slots pos).ptr = none := by
      cases hc : (sget t.slots pos).ptr with
      | none => rfl
      | some i => exact absurd (occ_iff_ptr.2 ⟨i, hc⟩) ho
    rw [probe_none hn, probe_none hn]
  | succ m ih =>
    intro pf1 pf2 f1 f2 pos d hpos hfe hm hp1 hp2 h1 h2
    obtain ⟨f1, rfl⟩ : ∃ f', f1 = f' + 1 := ⟨f1 - 1, by omega⟩
    obtain ⟨f2, rfl⟩ : ∃ f', f2 = f' + 1 := ⟨f2 - 1, by omega⟩
    have ho : Occ t.slots pos := by have := hfe.1 0 (by omega); rwa [mod_self_of_lt hpos] at this
    obtain ⟨i, hi⟩ := occ_iff_ptr.1 ho
    rw [probe_some hi, probe_some hi,
      propagate_fuel (m + 1) pf1 pf2 t.slots _ pos hlen hpos ho hfe (by omega) (by omega),
      ih pf1 pf2 f1 f2 _ (d + 1) (Nat.mod_lt _ (by omega)) (hfe.shift (fun _ => Iff.rfl))
        (by omega) hp1 hp2 (by omega) (by omega)]

theorem grow_fuel {hashOf : Nat → Nat} {t : Tbl} (h : RHInv hashOf t) (extra : Nat) :
    grow t extra = grow t 0 := by
  have hN := le_nextPow2 (t.cap + 1)
  have hlen : t.len ≤ t.cap := by
    rw [← h.occ_cnt, ← h.good.len]; exact List.countP_le_length
  have hrep : (List.replicate (nextPow2 (t.cap + 1)) Slot.empty).countP Slot.occ = 0 := by
    rw [List.countP_replicate]; rfl
  obtain ⟨_, _, _, h4⟩ := grow_fold (N := nextPow2 (t.cap + 1))
    (f := nextPow2 (t.cap + 1) + 1 + extra) (by omega) (by omega) t.slots _
    (good_replicate _) (by rw [hrep, h.occ_cnt]; omega)
  rw [grow_eq, grow_eq, h4 (nextPow2 (t.cap + 1) + 1 + 0) (by omega)]

/-- **Fuel is sufficient.**  Under the invariant the result of `get_or_insert_by_hash` (for any
hash and key) does not depend on the extra fuel given to its three loops (`grow`'s `propagate`s,
the probe loop, the displacement `propagate`): none of them ever takes the out-of-fuel branch, so
the model computes what the unbounded Rust loops compute. -/
theorem getOrInsert_fuel {hashOf : Nat → Nat} {lf : LoadFactor} (hlf : lf.Valid) {t : Tbl}
    (h : RHInv hashOf t) (hash key extra : Nat) :
    getOrInsert lf t hash key extra = getOrInsert lf t hash key 0 := by
  unfold getOrInsert getOrInsertWith
  have main : ∀ t0 : Tbl, RHInv hashOf t0 → t0.len < t0.cap →
      probe t0 hash key (t0.cap + 1 + extra) (t0.cap + 1 + extra) (hash % t0.cap) 0 =
      probe t0 hash key (t0.cap + 1 + 0) (t0.cap + 1 + 0) (hash % t0.cap) 0 := by
    intro t0 h0 hlt
    obtain ⟨m, hm, hfe⟩ := first_empty (h0.exists_empty hlt) (hash % t0.cap)
    exact probe_fuel h0.good.len m _ _ _ _ _ 0 (Nat.mod_lt _ h0.cap_pos) hfe hm
      (by omega) (by omega) (by omega) (by omega)
  by_cases hg : needGrow lf t = true
  · simp only [hg, if_true]
    obtain ⟨g1, _, g3, g4⟩ := grow_preserves h 0
    have hlen : t.len ≤ t.cap := by
      rw [← h.occ_cnt, ← h.good.len]; exact List.countP_le_length
    rw [grow_fuel h extra]
    exact main _ g1 (by omega)
  · have hg' : needGrow lf t = false := by simpa using hg
    simp only [hg', Bool.false_eq_true, if_false]
    exact main t h (lt_cap_of_not_needGrow hlf hg')

/-! ## histories -/

/-- the table after one call (`hashOf` is the hash function of the keys) -/
def step (lf : LoadFactor) (hashOf : Nat → Nat) (t : Tbl) (k : Nat) : Tbl :=
  (getOrInsert lf t (hashOf k) k).1

/-- the table after a history of calls -/
def run (lf : LoadFactor) (hashOf : Nat → Nat) (t : Tbl) (ks : List Nat) : Tbl :=
  ks.foldl (step lf hashOf) t

theorem RHInv.new (hashOf : Nat → Nat) {cap : Nat} (hc : 0 < cap) : RHInv hashOf (RH.mk cap) := by
  refine ⟨hc, good_replicate cap, rfl, ?_, ?_, ?_, List.nodup_nil⟩
  · show (List.replicate cap Slot.empty).countP Slot.occ = 0
    rw [List.countP_replicate]; rfl
  · intro x hx i hi
    have : x = Slot.empty := List.eq_of_mem_replicate hx
    subst this; cases hi
  · intro i hi; exact absurd hi (Nat.not_lt_zero _)

theorem step_spec {hashOf : Nat → Nat} {lf : LoadFactor} (hlf : lf.Valid) {t : Tbl}
    (h : RHInv hashOf t) (k : Nat) :
    RHInv hashOf (step lf hashOf t k) ∧
      StepSpec t k (step lf hashOf t k) (getOrInsert lf t (hashOf k) k).2.1
        (getOrInsert lf t (hashOf k) k).2.2 :=
  getOrInsert_spec hlf h (extra := 0) rfl

theorem mem_step {hashOf : Nat → Nat} {lf : LoadFactor} (hlf : lf.Valid) {t : Tbl}
    (h : RHInv hashOf t) (k k' : Nat) :
    k' ∈ (step lf hashOf t k).keys ↔ k' ∈ t.keys ∨ k' = k := by
  obtain ⟨_, sp⟩ := step_spec hlf h k
  cases hf : (getOrInsert lf t (hashOf k) k).2.2 with
  | true =>
    rw [hf] at sp
    rw [(sp.hit_keys rfl).1]
    have := sp.found_iff.1 rfl
    constructor
    · exact Or.inl
    · rintro (h1 | rfl)
      · exact h1
      · exact this
  | false =>
    rw [hf] at sp
    rw [(sp.miss_keys rfl).1]; simp

/-- the invariant, stability of the arena and the key set along any history (hence across any
number of growths) -/
theorem run_spec {hashOf : Nat → Nat} {lf : LoadFactor} (hlf : lf.Valid) (ks : List Nat) :
    ∀ {t : Tbl}, RHInv hashOf t →
      RHInv hashOf (run lf hashOf t ks) ∧ t.keys <+: (run lf hashOf t ks).keys ∧
      ∀ k, k ∈ (run lf hashOf t ks).keys ↔ k ∈ t.keys ∨ k ∈ ks := by
  induction ks with
  | nil => intro t h; exact ⟨h, List.prefix_refl _, by simp [run]⟩
  | cons a ks ih =>
    intro t h
    obtain ⟨h1, sp⟩ := step_spec hlf h a
    obtain ⟨r1, r2, r3⟩ := ih h1
    refine ⟨r1, sp.prefix_keys.trans r2, fun k => ?_⟩
    show k ∈ (run lf hashOf (step lf hashOf t a) ks).keys ↔ _
    rw [r3 k, mem_step hlf h]
    simp only [List.mem_cons]
    constructor
    · rintro ((h1 | h1) | h1)
      · exact Or.inl h1
      · exact Or.inr (Or.inl h1)
      · exact Or.inr (Or.inr h1)
    · rintro (h1 | h1 | h1)
      · exact Or.inl (Or.inl h1)
      · exact Or.inl (Or.inr h1)
      · exact Or.inr h1

theorem prefix_getElem? {l l' : List Nat} (h : l <+: l') {i k : Nat} (hi : l[i]? = some k) :
    l'[i]? = some k := by
  obtain ⟨r, rfl⟩ := h
  rw [List.getElem?_append_left (List.getElem?_eq_some_iff.1 hi).1]; exact hi

theorem nodup_index_inj {l : List Nat} (h : l.Nodup) {i j k : Nat} (hi : l[i]? = some k)
    (hj : l[j]? = some k) : i = j := by
  induction l generalizing i j with
  | nil => simp at hi
  | cons a l ih =>
    rw [List.nodup_cons] at h
    cases i with
    | zero =>
      cases j with
      | zero => rfl
      | succ j =>
        simp only [List.getElem?_cons_zero, List.getElem?_cons_succ] at hi hj
        cases hi
        exact absurd (List.mem_iff_getElem?.2 ⟨j, hj⟩) h.1
    | succ i =>
      cases j with
      | zero =>
        simp only [List.getElem?_cons_zero, List.getElem?_cons_succ] at hi hj
        cases hj
        exact absurd (List.mem_iff_getElem?.2 ⟨i, hi⟩) h.1
      | succ j =>
        simp only [List.getElem?_cons_succ] at hi hj
        rw [ih h.2 hi hj]

/-- the index handed out for a key is returned again, as a hit, after any further history -/
theorem index_stable {hashOf : Nat → Nat} {lf : LoadFactor} (hlf : lf.Valid) {t : Tbl}
    (h : RHInv hashOf t) {k : Nat} {t1 : Tbl} {i : Nat} {b : Bool}
    (e : getOrInsert lf t (hashOf k) k = (t1, i, b)) (ks : List Nat) :
    (getOrInsert lf (run lf hashOf t1 ks) (hashOf k) k).2 = (i, true) := by
  obtain ⟨h1, sp1⟩ := getOrInsert_spec hlf h (extra := 0) e
  obtain ⟨r1, r2, _⟩ := run_spec hlf ks h1
  have hik := prefix_getElem? r2 sp1.index
  obtain ⟨h3, sp3⟩ := step_spec hlf r1 k
  have hfound := sp3.found_iff.2 (List.mem_iff_getElem?.2 ⟨i, hik⟩)
  have hj := sp3.index
  rw [(sp3.hit_keys hfound).1] at hj
  have := nodup_index_inj r1.nodup hj hik
  exact Prod.ext this hfound

/-! ## derived facts (documentation of the invariant) -/

/-- the probe path of every stored element: it sits `psl` steps after its home slot, and every
slot on the way is occupied by an element at least as far from its own home -/
theorem RHInv.path {hashOf : Nat → Nat} {t : Tbl} (h : RHInv hashOf t) {p : Nat} (hp : p < t.cap)
    (ho : Occ t.slots p) :
    ((sget t.slots p).hash + (sget t.slots p).psl) % t.cap = p ∧
    ∀ d ≤ (sget t.slots p).psl, Occ t.slots (((sget t.slots p).hash + d) % t.cap) ∧
      d ≤ (sget t.slots (((sget t.slots p).hash + d) % t.cap)).psl := by
  have hpos := h.good.pos p hp ho
  refine ⟨hpos, fun d hd => ?_⟩
  have := chain h.good.loc h.cap_pos (sget t.slots p).hash (sget t.slots p).psl
    (by rw [hpos]; exact ho) (by rw [hpos]; exact Nat.le_refl _)
    ((sget t.slots p).psl - d) (by omega)
  rwa [show (sget t.slots p).psl - ((sget t.slots p).psl - d) = d by omega] at this

/-- stored psl = true displacement `< cap` whenever the table is not full; in particular the `u8`
side condition `PslBound` holds automatically for tables of at most 256 slots -/
theorem RHInv.psl_lt_cap {hashOf : Nat → Nat} {t : Tbl} (h : RHInv hashOf t) (hlt : t.len < t.cap) :
    ∀ s ∈ t.slots, s.occ = true → s.psl < t.cap := by
  intro s hs ho
  obtain ⟨p, hp, rfl⟩ := exists_sget_of_mem hs
  rw [h.good.len] at hp
  exact RH.psl_lt_cap h.good (h.exists_empty hlt) hp ho

theorem RHInv.pslBound {hashOf : Nat → Nat} {t : Tbl} (h : RHInv hashOf t) (hlt : t.len < t.cap)
    (hc : t.cap ≤ 256) : PslBound t := by
  intro s hs ho
  have := h.psl_lt_cap hlt s hs ho
  omega

/-! ## `get_by_hash` -/

theorem probeHash_occ {t : Tbl} {hash f pos d : Nat} (h : Occ t.slots pos) :
    probeHash t hash (f + 1) pos d =
      if hash = (sget t.slots pos).hash then (hit t, (sget t.slots pos).ptr)
      else if (sget t.slots pos).psl < d then (t, none)
      else probeHash t hash f ((pos + 1) % t.cap) (d + 1) := by
  unfold Occ at h
  rw [probeHash]; simp only [h, if_true]; rfl

theorem probeHash_emp {t : Tbl} {hash f pos d : Nat} (h : ¬ Occ t.slots pos) :
    probeHash t hash (f + 1) pos d = (t, none) := by
  unfold Occ at h
  rw [probeHash]; simp only [h]; rfl

/-- whatever `get_by_hash` returns is held by a slot with that hash -/
theorem probeHash_sound {t : Tbl} {hash : Nat} : ∀ (f pos d : Nat) {t' : Tbl} {i : Nat},
    probeHash t hash f pos d = (t', some i) →
      ∃ p, (sget t.slots p).ptr = some i ∧ (sget t.slots p).hash = hash := by
  intro f
  induction f with
  | zero => intro pos d t' i e; simp [probeHash] at e
  | succ f ih =>
    intro pos d t' i e
    by_cases ho : Occ t.slots pos
    · rw [probeHash_occ ho] at e
      split at e
      · rename_i hh
        simp only [Prod.mk.injEq] at e
        exact ⟨pos, e.2, hh.symm⟩
      · split at e
        · simp at e
        · exact ih _ _ e
    · rw [probeHash_emp ho] at e; simp at e

theorem probeHash_tbl {t : Tbl} {hash : Nat} : ∀ (f pos d : Nat),
    (probeHash t hash f pos d).1 = t ∨ (probeHash t hash f pos d).1 = hit t := by
  intro f
  induction f with
  | zero => intro pos d; exact Or.inl rfl
  | succ f ih =>
    intro pos d
    by_cases ho : Occ t.slots pos
    · rw [probeHash_occ ho]
      split
      · exact Or.inr rfl
      · split
        · exact Or.inl rfl
        · exact ih _ _
    · rw [probeHash_emp ho]; exact Or.inl rfl

/-- if an element with this hash is stored `s` steps after the home slot, `get_by_hash` returns an
element (the first one with this hash on the path) -/
theorem probeHash_finds {t : Tbl} {hash s : Nat}
    (hpath : ∀ d' ≤ s, Occ t.slots ((hash + d') % t.cap) ∧
      d' ≤ (sget t.slots ((hash + d') % t.cap)).psl)
    (hh : (sget t.slots ((hash + s) % t.cap)).hash = hash) (n : Nat) :
    ∀ (fuel d : Nat), n = s - d → d ≤ s → s - d < fuel →
      ∃ i, (probeHash t hash fuel ((hash + d) % t.cap) d).2 = some i := by
  induction n with
  | zero =>
    intro fuel d hn hd hf
    obtain ⟨fuel, rfl⟩ : ∃ f', fuel = f' + 1 := ⟨fuel - 1, by omega⟩
    have : d = s := by omega
    subst this
    obtain ⟨ho, _⟩ := hpath d hd
    obtain ⟨i, hi⟩ := occ_iff_ptr.1 ho
    exact ⟨i, by rw [probeHash_occ ho, if_pos hh.symm]; exact hi⟩
  | succ n ih =>
    intro fuel d hn hd hf
    obtain ⟨fuel, rfl⟩ : ∃ f', fuel = f' + 1 := ⟨fuel - 1, by omega⟩
    obtain ⟨ho, hps⟩ := hpath d hd
    obtain ⟨i, hi⟩ := occ_iff_ptr.1 ho
    rw [probeHash_occ ho]
    by_cases hmatch : hash = (sget t.slots ((hash + d) % t.cap)).hash
    · rw [if_pos hmatch]; exact ⟨i, hi⟩
    · rw [if_neg hmatch, if_neg (by omega)]
      have e : ((hash + d) % t.cap + 1) % t.cap = (hash + (d + 1)) % t.cap := by
        rw [Nat.mod_add_mod, Nat.add_assoc]
      rw [e]
      exact ih fuel (d + 1) (by omega) (by omega) (by omega)

theorem probeHash_fuel {t : Tbl} {hash : Nat} (m : Nat) :
    ∀ (f1 f2 pos d : Nat), pos < t.cap → FE t.slots t.cap pos m → m < f1 → m < f2 →
      probeHash t hash f1 pos d = probeHash t hash f2 pos d := by
  induction m with
  | zero =>
    intro f1 f2 pos d hpos hfe h1 h2
    obtain ⟨f1, rfl⟩ : ∃ f', f1 = f' + 1 := ⟨f1 - 1, by omega⟩
    obtain ⟨f2, rfl⟩ : ∃ f', f2 = f' + 1 := ⟨f2 - 1, by omega⟩
    have ho : ¬ Occ t.slots pos := by have := hfe.2; rwa [mod_self_of_lt hpos] at this
    rw [probeHash_emp ho, probeHash_emp ho]
  | succ m ih =>
    intro f1 f2 pos d hpos hfe h1 h2
    obtain ⟨f1, rfl⟩ : ∃ f', f1 = f' + 1 := ⟨f1 - 1, by omega⟩
    obtain ⟨f2, rfl⟩ : ∃ f', f2 = f' + 1 := ⟨f2 - 1, by omega⟩
    have ho : Occ t.slots pos := by have := hfe.1 0 (by omega); rwa [mod_self_of_lt hpos] at this
    rw [probeHash_occ ho, probeHash_occ ho,
      ih f1 f2 _ (d + 1) (Nat.mod_lt _ (by omega)) (hfe.shift (fun _ => Iff.rfl))
        (by omega) (by omega)]

/-- `get_by_hash` on a table with a free slot: it returns an arena index whose key has this hash,
and returns `None` exactly when no stored key has this hash; the fuel is sufficient. -/
theorem getByHash_spec {hashOf : Nat → Nat} {t : Tbl} (h : RHInv hashOf t) (hlt : t.len < t.cap)
    (hash extra : Nat) :
    ((getByHash t hash extra).1 = t ∨ (getByHash t hash extra).1 = hit t) ∧
    (∀ i, (getByHash t hash extra).2 = some i → ∃ k, t.keys[i]? = some k ∧ hashOf k = hash) ∧
    ((getByHash t hash extra).2 = none ↔ ∀ k ∈ t.keys, hashOf k ≠ hash) ∧
    getByHash t hash extra = getByHash t hash 0 := by
  have hemp := h.exists_empty hlt
  have hsound : ∀ i, (getByHash t hash extra).2 = some i →
      ∃ k, t.keys[i]? = some k ∧ hashOf k = hash := by
    intro i hi
    obtain ⟨p, hp, hh⟩ := probeHash_sound (t := t) (hash := hash) (t.cap + 1 + extra)
      (hash % t.cap) 0 (t' := (getByHash t hash extra).1) (i := i) (by rw [← hi]; rfl)
    obtain ⟨k, hk, hk'⟩ := h.ptr_ok _ (mem_of_sget_ptr hp) i hp
    exact ⟨k, hk, by rw [← hk', hh]⟩
  refine ⟨probeHash_tbl _ _ _, hsound, ⟨fun hn k hk hkh => ?_, fun hall => ?_⟩, ?_⟩
  · obtain ⟨i0, hi0⟩ := List.mem_iff_getElem?.1 hk
    have hi0l : i0 < t.keys.length := (List.getElem?_eq_some_iff.1 hi0).1
    obtain ⟨x, hx, hxp⟩ := List.countP_pos_iff.1 (by rw [h.uniq i0 hi0l]; exact Nat.one_pos)
    have hxp : x.ptr = some i0 := by simpa using hxp
    obtain ⟨p, hp, rfl⟩ := exists_sget_of_mem hx
    rw [h.good.len] at hp
    have hocc : Occ t.slots p := occ_iff_ptr.2 ⟨i0, hxp⟩
    obtain ⟨k', hk', hhash⟩ := h.ptr_ok _ hx i0 hxp
    have : k' = k := by rw [hi0] at hk'; exact (Option.some.inj hk').symm
    subst this
    rw [hkh] at hhash
    obtain ⟨hpos, hpath⟩ := h.path hp hocc
    rw [hhash] at hpos hpath
    have hs := RH.psl_lt_cap h.good hemp hp hocc
    obtain ⟨i, hi⟩ := probeHash_finds hpath (by rw [hpos]; exact hhash) _
      (t.cap + 1 + extra) 0 rfl (Nat.zero_le _) (by omega)
    rw [Nat.add_zero] at hi
    have : (getByHash t hash extra).2 = some i := hi
    rw [hn] at this; cases this
  · cases hr : (getByHash t hash extra).2 with
    | none => rfl
    | some i =>
      obtain ⟨k, hk, hkh⟩ := hsound i hr
      exact absurd hkh (hall k (List.mem_iff_getElem?.2 ⟨i, hk⟩))
  · obtain ⟨m, hm, hfe⟩ := first_empty hemp (hash % t.cap)
    exact probeHash_fuel m _ _ _ 0 (Nat.mod_lt _ h.cap_pos) hfe (by omega) (by omega)

/-!
## Summary

* `RHInv hashOf t` — the invariant: `0 < cap`; `slots.length = cap`; every occupied slot `p`
  satisfies `(hash + psl) % cap = p` (`PosOK`: stored psl = true displacement, `< cap` by
  `RHInv.psl_lt_cap`); the local robin-hood order `Loc` (an element with `psl > 0` has an occupied
  predecessor with psl at least `psl - 1`), from which the segment form follows (`RHInv.path`:
  all slots between the home slot and `p` are occupied with psl ≥ their offset, so a probe never
  stops early); `len = keys.length` = number of occupied slots; occupied slots hold valid arena
  indices together with `hashOf` of the key they point to; every arena index is in exactly one
  slot; arena keys are pairwise distinct.
* `getOrInsert_spec`, `grow_preserves`, `run_spec`, `index_stable`, `getByHash_spec`.
* Fuel: `propagate_fuel`, `probe_fuel`, `grow_fuel`, `getOrInsert_fuel`, last clause of
  `getByHash_spec`: with the invariant (which gives a free slot whenever a loop starts) the loops
  leave through a `return` within `cap` iterations; results are independent of the extra fuel.
* psl: all statements are about the `Nat`-psl model, unconditionally.  `PslBound` (stored psl of
  occupied slots ≤ 255) is the condition under which the `u8` code takes the same steps; it holds
  automatically for `cap ≤ 256` (`RHInv.pslBound`).
-/

end RH
