import RsddModel.Model.VTree
/-!
# Lemmas: in-order indexing, BFS numbering, Euler tour and least common ancestors of vtrees
-/
namespace VT

/-! ## generic list facts -/

section ListFacts
variable {α β : Type} [BEq α] [LawfulBEq α] [BEq β] [LawfulBEq β]

theorem idxOf_map_of_injOn (f : α → β) (l : List α) (x : α)
    (h : ∀ a ∈ l, f a = f x → a = x) : (l.map f).idxOf (f x) = l.idxOf x := by
  induction l with
  | nil => rfl
  | cons a l ih =>
    have ih' := ih (fun b hb => h b (List.mem_cons_of_mem _ hb))
    simp only [List.map_cons, List.idxOf_cons, ih', cond_eq_ite, beq_iff_eq]
    by_cases hax : a = x
    · subst hax; simp
    · have : f a ≠ f x := fun e => hax (h a List.mem_cons_self e)
      simp [hax, this]

theorem idxOf_inj {l : List α} {x y : α} (hx : x ∈ l) (h : l.idxOf x = l.idxOf y) : x = y := by
  have h1 : l.idxOf x < l.length := List.idxOf_lt_length_of_mem hx
  have h2 : l.idxOf y < l.length := h ▸ h1
  have e1 := List.getElem_idxOf h1
  have e2 := List.getElem_idxOf h2
  rw [← e1, ← e2]; simp [h]

theorem idxOf_getElem_of_nodup {l : List α} (hn : l.Nodup) (i : Nat) (hi : i < l.length) :
    l.idxOf l[i] = i := by
  induction l generalizing i with
  | nil => simp at hi
  | cons a l ih =>
    rw [List.nodup_cons] at hn
    cases i with
    | zero => simp
    | succ i =>
      simp only [List.getElem_cons_succ, List.idxOf_cons, cond_eq_ite, beq_iff_eq]
      have hi' : i < l.length := by simpa using hi
      have : a ≠ l[i] := fun e => hn.1 (e ▸ List.getElem_mem hi')
      simp [this, ih hn.2 i hi']

/-- the segment of `l` from the first occurrence of `x` up to (excluding) the first occurrence
of `y` -/
def between (l : List α) (x y : α) : List α := (l.drop (l.idxOf x)).take (l.idxOf y - l.idxOf x)

theorem between_append_left {a b : List α} {x y : α} (hx : x ∈ a) (hy : y ∈ a) :
    between (a ++ b) x y = between a x y := by
  unfold between
  rw [List.idxOf_append, List.idxOf_append, if_pos hx, if_pos hy]
  have h1 := List.idxOf_lt_length_of_mem hx
  have h2 := List.idxOf_lt_length_of_mem hy
  rw [List.drop_append_of_le_length (by omega), List.take_append_of_le_length]
  simp; omega

theorem between_append_right {a b : List α} {x y : α} (hx : x ∉ a) (hy : y ∉ a) :
    between (a ++ b) x y = between b x y := by
  unfold between
  rw [List.idxOf_append, List.idxOf_append, if_neg hx, if_neg hy]
  have : b.idxOf y + a.length - (b.idxOf x + a.length) = b.idxOf y - b.idxOf x := by omega
  rw [this, Nat.add_comm, List.drop_append]
  rw [List.drop_of_length_le (by omega)]
  simp

theorem between_append_split {a b : List α} {x y : α} (hx : x ∈ a) (hy : y ∉ a) :
    between (a ++ b) x y = a.drop (a.idxOf x) ++ b.take (b.idxOf y) := by
  unfold between
  rw [List.idxOf_append, List.idxOf_append, if_pos hx, if_neg hy]
  have h1 := List.idxOf_lt_length_of_mem hx
  rw [List.drop_append_of_le_length (by omega), List.take_append]
  have : (List.drop (List.idxOf x a) a).length = a.length - a.idxOf x := by simp
  rw [this]
  have e : b.idxOf y + a.length - a.idxOf x - (a.length - a.idxOf x) = b.idxOf y := by omega
  rw [e, List.take_of_length_le]
  simp; omega

theorem between_map (f : α → β) (hf : ∀ a b, f a = f b → a = b) (l : List α) (x y : α) :
    between (l.map f) (f x) (f y) = (between l x y).map f := by
  unfold between
  rw [idxOf_map_of_injOn f l x (fun a _ e => hf _ _ e),
      idxOf_map_of_injOn f l y (fun a _ e => hf _ _ e), ← List.map_drop, ← List.map_take]

theorem idxOf_lt_of_mem_not_mem {a b : List α} {x y : α} (hx : x ∈ a) (hy : y ∉ a) :
    (a ++ b).idxOf x < (a ++ b).idxOf y := by
  rw [List.idxOf_append, List.idxOf_append, if_pos hx, if_neg hy]
  have := List.idxOf_lt_length_of_mem hx
  omega

theorem foldl_min_eq (m x : Nat) (xs : List Nat) (hm : m ∈ x :: xs) (hle : ∀ z ∈ x :: xs, m ≤ z) :
    xs.foldl min x = m := by
  induction xs generalizing x with
  | nil => simpa [eq_comm] using hm
  | cons y ys ih =>
    simp only [List.foldl_cons]
    apply ih
    · simp only [List.mem_cons] at hm ⊢
      have hx := hle x (by simp)
      have hy := hle y (by simp)
      rcases hm with rfl | rfl | h
      · left; omega
      · left; omega
      · right; exact h
    · intro z hz
      simp only [List.mem_cons] at hz
      rcases hz with rfl | h
      · have hx := hle x (by simp); have hy := hle y (by simp); omega
      · exact hle z (by simp [h])

end ListFacts

/-! ## root paths, validity, common prefixes -/

/-- the longest common prefix of two root paths: the root path of the deepest common ancestor -/
def commonPrefix : Path → Path → Path
  | a :: p, b :: q => if a = b then a :: commonPrefix p q else []
  | _, _ => []

theorem commonPrefix_comm (p q : Path) : commonPrefix p q = commonPrefix q p := by
  induction p generalizing q with
  | nil => cases q <;> rfl
  | cons a p ih =>
    cases q with
    | nil => rfl
    | cons b q =>
      simp only [commonPrefix]
      by_cases h : a = b
      · subst h; simp [ih q]
      · have : ¬ b = a := fun e => h e.symm
        simp [h, this]

@[simp] theorem commonPrefix_self (p : Path) : commonPrefix p p = p := by
  induction p with
  | nil => rfl
  | cons a p ih => simp [commonPrefix, ih]

theorem commonPrefix_prefix_left (p q : Path) : commonPrefix p q <+: p := by
  induction p generalizing q with
  | nil => cases q <;> simp [commonPrefix]
  | cons a p ih =>
    cases q with
    | nil => simp [commonPrefix]
    | cons b q =>
      simp only [commonPrefix]
      by_cases h : a = b
      · simp [h, List.cons_prefix_cons, ih q]
      · simp [h]

theorem commonPrefix_prefix_right (p q : Path) : commonPrefix p q <+: q := by
  rw [commonPrefix_comm]; exact commonPrefix_prefix_left q p

/-- `commonPrefix p q` is the DEEPEST common ancestor: every common prefix is a prefix of it -/
theorem prefix_commonPrefix {r p q : Path} (hp : r <+: p) (hq : r <+: q) : r <+: commonPrefix p q := by
  induction r generalizing p q with
  | nil => simp
  | cons c r ih =>
    cases p with
    | nil => simp at hp
    | cons a p =>
      cases q with
      | nil => simp at hq
      | cons b q =>
        rw [List.cons_prefix_cons] at hp hq
        obtain ⟨rfl, hp⟩ := hp
        obtain ⟨rfl, hq⟩ := hq
        simp [commonPrefix, List.cons_prefix_cons, ih hp hq]

namespace VTree

/-- `p` is the root path of a node of `t` -/
def Valid (t : VTree) (p : Path) : Prop := (t.subtreeAt p).isSome = true

@[simp] theorem valid_nil (t : VTree) : Valid t [] := by cases t <;> rfl
@[simp] theorem not_valid_leaf_cons (v : Nat) (b : Bool) (p : Path) : ¬ Valid (leaf v) (b :: p) := by
  simp [Valid, subtreeAt]
@[simp] theorem valid_node_false (l r : VTree) (p : Path) : Valid (node l r) (false :: p) ↔ Valid l p := by
  simp [Valid, subtreeAt]
@[simp] theorem valid_node_true (l r : VTree) (p : Path) : Valid (node l r) (true :: p) ↔ Valid r p := by
  simp [Valid, subtreeAt]

theorem valid_of_prefix {t : VTree} {p q : Path} (h : p <+: q) (hq : Valid t q) : Valid t p := by
  induction t generalizing p q with
  | leaf v =>
    cases q with
    | nil => simp at h; subst h; simp
    | cons b q => simp at hq
  | node l r ihl ihr =>
    cases p with
    | nil => simp
    | cons a p =>
      cases q with
      | nil => simp at h
      | cons b q =>
        rw [List.cons_prefix_cons] at h
        obtain ⟨rfl, h⟩ := h
        cases a
        · simp at hq ⊢; exact ihl h hq
        · simp at hq ⊢; exact ihr h hq

theorem mem_inorderPaths {t : VTree} {p : Path} : p ∈ inorderPaths t ↔ Valid t p := by
  induction t generalizing p with
  | leaf v => cases p <;> simp [inorderPaths]
  | node l r ihl ihr =>
    cases p with
    | nil => simp [inorderPaths]
    | cons b p =>
      cases b <;> simp [inorderPaths, ihl, ihr]

theorem length_inorderPaths (t : VTree) : (inorderPaths t).length = t.size := by
  induction t with
  | leaf v => rfl
  | node l r ihl ihr => simp [inorderPaths, size, ihl, ihr]; omega

theorem length_inorder (t : VTree) : (inorder t).length = t.size := by
  induction t with
  | leaf v => rfl
  | node l r ihl ihr => simp [inorder, size, ihl, ihr]; omega

theorem size_pos (t : VTree) : 0 < t.size := by cases t <;> simp [size] <;> omega

theorem nodup_inorderPaths (t : VTree) : (inorderPaths t).Nodup := by
  induction t with
  | leaf v => simp [inorderPaths]
  | node l r ihl ihr =>
    simp only [inorderPaths]
    rw [List.nodup_append]
    refine ⟨?_, ?_, ?_⟩
    · exact List.Pairwise.map _ (fun a b h e => h (by simpa using e)) ihl
    · rw [List.nodup_cons]
      refine ⟨by simp, ?_⟩
      exact List.Pairwise.map _ (fun a b h e => h (by simpa using e)) ihr
    · intro a ha b hb
      simp only [List.mem_map] at ha
      obtain ⟨a', _, rfl⟩ := ha
      simp only [List.mem_cons, List.mem_map] at hb
      rcases hb with rfl | ⟨b', _, rfl⟩ <;> simp

/-- the `i`-th subtree of the in-order traversal is the subtree at the `i`-th in-order path -/
theorem inorder_eq_subtreeAt (t : VTree) :
    (inorder t).map some = (inorderPaths t).map (subtreeAt t) := by
  induction t with
  | leaf v => rfl
  | node l r ihl ihr =>
    simp only [inorder, inorderPaths, List.map_append, List.map_cons, List.map_map]
    rw [ihl, ihr]
    rfl

/-! ### the in-order relation on root paths -/

/-- `p` comes before `q` in the left-subtree / node / right-subtree order -/
def inorderLt : Path → Path → Bool
  | [], [] => false
  | [], b :: _ => b
  | a :: _, [] => !a
  | a :: p, b :: q => if a = b then inorderLt p q else (!a && b)

theorem inorderLt_asymm (p q : Path) : inorderLt p q = true → inorderLt q p = false := by
  induction p generalizing q with
  | nil => cases q with
    | nil => simp [inorderLt]
    | cons b q => cases b <;> simp [inorderLt]
  | cons a p ih =>
    cases q with
    | nil => cases a <;> simp [inorderLt]
    | cons b q =>
      cases a <;> cases b <;> simp [inorderLt] <;> exact ih q

theorem inorderLt_irrefl (p : Path) : inorderLt p p = false := by
  induction p with
  | nil => rfl
  | cons a p ih => simp [inorderLt, ih]

theorem pairwise_inorderPaths (t : VTree) :
    (inorderPaths t).Pairwise (fun p q => inorderLt p q = true) := by
  induction t with
  | leaf v => simp [inorderPaths]
  | node l r ihl ihr =>
    simp only [inorderPaths]
    rw [List.pairwise_append]
    refine ⟨?_, ?_, ?_⟩
    · exact List.Pairwise.map _ (fun a b h => by simpa [inorderLt] using h) ihl
    · rw [List.pairwise_cons]
      refine ⟨?_, ?_⟩
      · intro a ha
        simp only [List.mem_map] at ha
        obtain ⟨a', _, rfl⟩ := ha
        simp [inorderLt]
      · exact List.Pairwise.map _ (fun a b h => by simpa [inorderLt] using h) ihr
    · intro a ha b hb
      simp only [List.mem_map] at ha
      obtain ⟨a', _, rfl⟩ := ha
      simp only [List.mem_cons, List.mem_map] at hb
      rcases hb with rfl | ⟨b', _, rfl⟩ <;> simp [inorderLt]

/-! ### breadth-first numbering -/

/-- the absolute root paths of all nodes below the queued subtrees -/
def queuePaths (q : List (Path × VTree)) : List Path :=
  q.flatMap fun e => (inorderPaths e.2).map (e.1 ++ ·)

def queueSize (q : List (Path × VTree)) : Nat := (q.map fun e => e.2.size).sum

theorem queueSize_cons (e : Path × VTree) (q : List (Path × VTree)) :
    queueSize (e :: q) = e.2.size + queueSize q := by simp [queueSize]

theorem queueSize_append (q q' : List (Path × VTree)) :
    queueSize (q ++ q') = queueSize q + queueSize q' := by simp [queueSize]

theorem bfsLoop_perm : ∀ (fuel : Nat) (q : List (Path × VTree)), queueSize q ≤ fuel →
    (bfsLoop fuel q).Perm (queuePaths q) := by
  intro fuel
  induction fuel with
  | zero =>
    intro q hq
    cases q with
    | nil => simp [bfsLoop, queuePaths]
    | cons e q =>
      rw [queueSize_cons] at hq
      have := size_pos e.2
      omega
  | succ fuel ih =>
    intro q hq
    match q with
    | [] => simp [bfsLoop, queuePaths]
    | (p, leaf v) :: q' =>
      rw [queueSize_cons] at hq
      simp only [size] at hq
      have := ih q' (by omega)
      simp only [bfsLoop, queuePaths, List.flatMap_cons, inorderPaths, List.map_cons, List.map_nil,
        List.append_nil, List.cons_append, List.nil_append]
      exact List.Perm.cons _ this
    | (p, node l r) :: q' =>
      rw [queueSize_cons] at hq
      simp only [size] at hq
      have hsz : queueSize (q' ++ [(p ++ [false], l), (p ++ [true], r)]) ≤ fuel := by
        have h0 : queueSize ([] : List (Path × VTree)) = 0 := rfl
        rw [queueSize_append, queueSize_cons, queueSize_cons, h0]; dsimp only; omega
      have := ih _ hsz
      simp only [bfsLoop]
      refine (List.Perm.cons p this).trans ?_
      simp only [queuePaths, List.flatMap_append, List.flatMap_cons, List.flatMap_nil,
        List.append_nil, inorderPaths, List.map_append, List.map_cons, List.map_map]
      have e1 : (List.map (fun x => (p ++ [false]) ++ x) l.inorderPaths)
          = List.map ((fun x => p ++ x) ∘ fun x => false :: x) l.inorderPaths := by
        apply List.map_congr_left; intro x _; simp
      have e2 : (List.map (fun x => (p ++ [true]) ++ x) r.inorderPaths)
          = List.map ((fun x => p ++ x) ∘ fun x => true :: x) r.inorderPaths := by
        apply List.map_congr_left; intro x _; simp
      rw [e1, e2]
      generalize List.map ((fun x => p ++ x) ∘ fun x => false :: x) l.inorderPaths = A
      generalize List.map ((fun x => p ++ x) ∘ fun x => true :: x) r.inorderPaths = B
      generalize (List.flatMap (fun e => List.map (fun x => e.1 ++ x) e.2.inorderPaths) q') = Q
      have h1 : (p :: (Q ++ (A ++ B))).Perm (p :: (A ++ (B ++ Q))) := by
        apply List.Perm.cons
        rw [← List.append_assoc A B Q]
        exact List.perm_append_comm
      refine h1.trans ?_
      rw [List.append_assoc]
      simpa using (List.perm_middle (a := p) (l₁ := A) (l₂ := B ++ Q)).symm

theorem bfsPaths_perm (t : VTree) : (bfsPaths t).Perm (inorderPaths t) := by
  have := bfsLoop_perm t.size [([], t)] (by simp [queueSize])
  simpa [bfsPaths, queuePaths] using this

theorem mem_bfsPaths {t : VTree} {p : Path} : p ∈ bfsPaths t ↔ Valid t p :=
  (bfsPaths_perm t).mem_iff.trans mem_inorderPaths

theorem nodup_bfsPaths (t : VTree) : (bfsPaths t).Nodup :=
  (bfsPaths_perm t).symm.nodup (nodup_inorderPaths t)

theorem length_bfsPaths (t : VTree) : (bfsPaths t).length = t.size :=
  (bfsPaths_perm t).length_eq.trans (length_inorderPaths t)

/-- every path output by the queue traversal is at least as long as the shortest queued one -/
theorem bfsLoop_length_ge (m : Nat) : ∀ (fuel : Nat) (q : List (Path × VTree)),
    (∀ e ∈ q, m ≤ e.1.length) → ∀ x ∈ bfsLoop fuel q, m ≤ x.length := by
  intro fuel
  induction fuel with
  | zero => intro q _ x hx; simp [bfsLoop] at hx
  | succ fuel ih =>
    intro q hq x hx
    match q with
    | [] => simp [bfsLoop] at hx
    | (p, leaf v) :: q' =>
      simp only [bfsLoop, List.mem_cons] at hx
      rcases hx with rfl | hx
      · exact hq (x, leaf v) (by simp)
      · exact ih q' (fun e he => hq e (by simp [he])) x hx
    | (p, node l r) :: q' =>
      simp only [bfsLoop, List.mem_cons] at hx
      have hp : m ≤ p.length := hq (p, node l r) (by simp)
      rcases hx with rfl | hx
      · exact hp
      · refine ih _ ?_ x hx
        intro e he
        simp only [List.mem_append, List.mem_cons, List.not_mem_nil, or_false] at he
        rcases he with he | rfl | rfl
        · exact hq e (by simp [he])
        · simp; omega
        · simp; omega

/-- queue invariant: sorted by depth, spanning at most two consecutive depths -/
def QInv (q : List (Path × VTree)) : Prop :=
  q.Pairwise (fun x y => x.1.length ≤ y.1.length) ∧ ∀ x ∈ q, ∀ y ∈ q, y.1.length ≤ x.1.length + 1

theorem qinv_step {p : Path} {t : VTree} {q : List (Path × VTree)} (h : QInv ((p, t) :: q))
    (cs : List (Path × VTree)) (hcs : ∀ c ∈ cs, c.1.length = p.length + 1) : QInv (q ++ cs) := by
  obtain ⟨h1, h2⟩ := h
  rw [List.pairwise_cons] at h1
  have hge : ∀ x ∈ q, p.length ≤ x.1.length := fun x hx => h1.1 x hx
  have hle : ∀ x ∈ q, x.1.length ≤ p.length + 1 := fun x hx => h2 (p, t) (by simp) x (by simp [hx])
  refine ⟨?_, ?_⟩
  · rw [List.pairwise_append]
    refine ⟨h1.2, ?_, ?_⟩
    · rw [List.pairwise_iff_forall_sublist]
      intro a b hab
      have ha := hcs a (hab.subset (by simp))
      have hb := hcs b (hab.subset (by simp))
      omega
    · intro a ha b hb
      have := hle a ha; have := hcs b hb; omega
  · intro x hx y hy
    rw [List.mem_append] at hx hy
    have hx' : p.length ≤ x.1.length := by
      rcases hx with hx | hx
      · exact hge x hx
      · have := hcs x hx; omega
    have hy' : y.1.length ≤ p.length + 1 := by
      rcases hy with hy | hy
      · exact hle y hy
      · have := hcs y hy; omega
    omega

theorem bfsLoop_sorted : ∀ (fuel : Nat) (q : List (Path × VTree)), QInv q →
    (bfsLoop fuel q).Pairwise (fun x y => x.length ≤ y.length) := by
  intro fuel
  induction fuel with
  | zero => intro q _; simp [bfsLoop]
  | succ fuel ih =>
    intro q hq
    match q with
    | [] => simp [bfsLoop]
    | (p, leaf v) :: q' =>
      simp only [bfsLoop]
      have hq' : QInv (q' ++ []) := qinv_step hq [] (by simp)
      rw [List.append_nil] at hq'
      rw [List.pairwise_cons]
      refine ⟨?_, ih q' hq'⟩
      apply bfsLoop_length_ge
      intro e he
      have := hq.1
      rw [List.pairwise_cons] at this
      exact this.1 e he
    | (p, node l r) :: q' =>
      simp only [bfsLoop]
      have hq' : QInv (q' ++ [(p ++ [false], l), (p ++ [true], r)]) :=
        qinv_step hq _ (by simp)
      rw [List.pairwise_cons]
      refine ⟨?_, ih _ hq'⟩
      apply bfsLoop_length_ge
      intro e he
      have := hq.1
      rw [List.pairwise_cons] at this
      simp only [List.mem_append, List.mem_cons, List.not_mem_nil, or_false] at he
      rcases he with he | rfl | rfl
      · exact this.1 e he
      · simp
      · simp

theorem bfsPaths_sorted (t : VTree) : (bfsPaths t).Pairwise (fun x y => x.length ≤ y.length) := by
  apply bfsLoop_sorted
  refine ⟨by simp, ?_⟩
  intro x hx y hy
  simp only [List.mem_singleton] at hx hy
  subst hx; subst hy; omega

/-- a shallower node has the smaller BFS index -/
theorem bfsLabel_lt_of_length_lt {t : VTree} {c x : Path} (hc : Valid t c) (hx : Valid t x)
    (h : c.length < x.length) : bfsLabel t c < bfsLabel t x := by
  unfold bfsLabel
  have hcm := mem_bfsPaths.mpr hc
  have hxm := mem_bfsPaths.mpr hx
  have hci := List.idxOf_lt_length_of_mem hcm
  have hxi := List.idxOf_lt_length_of_mem hxm
  rcases Nat.lt_trichotomy ((bfsPaths t).idxOf c) ((bfsPaths t).idxOf x) with hlt | heq | hgt
  · exact hlt
  · have := idxOf_inj hcm heq; subst this; omega
  · have hs := bfsPaths_sorted t
    rw [List.pairwise_iff_getElem] at hs
    have := hs _ _ hxi hci hgt
    rw [List.getElem_idxOf hxi, List.getElem_idxOf hci] at this
    omega

/-- an ancestor's BFS index is at most the descendant's -/
theorem bfsLabel_le_of_prefix {t : VTree} {c x : Path} (hx : Valid t x) (h : c <+: x) :
    bfsLabel t c ≤ bfsLabel t x := by
  have hc := valid_of_prefix h hx
  rcases Nat.lt_or_ge c.length x.length with hl | hl
  · exact Nat.le_of_lt (bfsLabel_lt_of_length_lt hc hx hl)
  · have : c = x := h.eq_of_length_le hl
    subst this; exact Nat.le_refl _

/-! ### the Euler tour -/

theorem mem_eulerPaths {t : VTree} {p : Path} : p ∈ eulerPaths t ↔ Valid t p := by
  induction t generalizing p with
  | leaf v => cases p <;> simp [eulerPaths]
  | node l r ihl ihr =>
    cases p with
    | nil => simp [eulerPaths]
    | cons b p =>
      cases b <;> simp [eulerPaths, ihl, ihr]

theorem cons_inj_path (b : Bool) : ∀ p q : Path, b :: p = b :: q → p = q := by
  intro p q h; simpa using h

theorem eulerPaths_node (l r : VTree) :
    eulerPaths (node l r) =
      [[]] ++ ((eulerPaths l).map (false :: ·) ++ ([[]] ++ ((eulerPaths r).map (true :: ·) ++ [[]]))) := rfl

theorem idxOf_euler_nil (t : VTree) : (eulerPaths t).idxOf [] = 0 := by
  cases t <;> simp [eulerPaths]

theorem idxOf_euler_false (l r : VTree) (x : Path) (hx : x ∈ eulerPaths l) :
    (eulerPaths (node l r)).idxOf (false :: x) = (eulerPaths l).idxOf x + 1 := by
  rw [eulerPaths_node, List.idxOf_append, if_neg (by simp), List.idxOf_append,
    if_pos (by simpa using hx), idxOf_map_of_injOn _ _ _ (fun a _ e => cons_inj_path _ _ _ e)]
  simp

theorem idxOf_euler_true (l r : VTree) (x : Path) (hx : x ∈ eulerPaths r) :
    (eulerPaths (node l r)).idxOf (true :: x) = (eulerPaths l).length + 2 + (eulerPaths r).idxOf x := by
  rw [eulerPaths_node, List.idxOf_append, if_neg (by simp), List.idxOf_append,
    if_neg (by simp), List.idxOf_append, if_neg (by simp), List.idxOf_append,
    if_pos (by simpa using hx), idxOf_map_of_injOn _ _ _ (fun a _ e => cons_inj_path _ _ _ e)]
  simp; omega

/-- on the Euler segment from the first occurrence of `x` up to (excluding) the first occurrence
of `y`, the deepest common ancestor occurs and every entry is one of its descendants.  The
half-open segment suffices: if `x` is first seen before `y` then `y` is not an ancestor of `x`,
so the common ancestor is `x` itself (position `first x`) or lies strictly between. -/
theorem euler_between (t : VTree) : ∀ (x y : Path), Valid t x → Valid t y →
    (eulerPaths t).idxOf x < (eulerPaths t).idxOf y →
    commonPrefix x y ∈ between (eulerPaths t) x y ∧
      ∀ z ∈ between (eulerPaths t) x y, commonPrefix x y <+: z := by
  induction t with
  | leaf v =>
    intro x y hx hy hlt
    cases x with
    | cons a x => simp at hx
    | nil =>
      cases y with
      | cons b y => simp at hy
      | nil => omega
  | node l r ihl ihr =>
    intro x y hx hy hlt
    cases x with
    | nil =>
      refine ⟨?_, fun z _ => by cases y <;> simp [commonPrefix]⟩
      have hc : commonPrefix [] y = [] := by cases y <;> rfl
      rw [hc]
      rw [idxOf_euler_nil] at hlt
      unfold between
      rw [idxOf_euler_nil]
      obtain ⟨k, hk⟩ : ∃ k, (eulerPaths (node l r)).idxOf y = k + 1 := ⟨_, (Nat.succ_pred_eq_of_pos hlt).symm⟩
      rw [hk]
      simp [eulerPaths]
    | cons a x =>
      cases y with
      | nil => rw [idxOf_euler_nil] at hlt; omega
      | cons b y =>
        cases a <;> cases b
        · -- both in the left subtree
          simp only [valid_node_false] at hx hy
          have hxm := mem_eulerPaths.mpr hx
          have hym := mem_eulerPaths.mpr hy
          rw [idxOf_euler_false _ _ _ hxm, idxOf_euler_false _ _ _ hym] at hlt
          have ih := ihl x y hx hy (by omega)
          have hb : between (eulerPaths (node l r)) (false :: x) (false :: y)
              = (between (eulerPaths l) x y).map (false :: ·) := by
            rw [eulerPaths_node, between_append_right (by simp) (by simp),
              between_append_left (by simpa using hxm) (by simpa using hym),
              between_map _ (cons_inj_path false)]
          rw [hb]
          simp only [commonPrefix, if_true]
          refine ⟨List.mem_map.mpr ⟨_, ih.1, rfl⟩, ?_⟩
          intro z hz
          obtain ⟨z', hz', rfl⟩ := List.mem_map.mp hz
          rw [List.cons_prefix_cons]
          exact ⟨rfl, ih.2 z' hz'⟩
        · -- `x` left, `y` right: the node itself separates them
          simp only [valid_node_false] at hx
          simp only [valid_node_true] at hy
          have hxm := mem_eulerPaths.mpr hx
          have hym := mem_eulerPaths.mpr hy
          refine ⟨?_, fun z _ => by simp [commonPrefix]⟩
          have hc : commonPrefix (false :: x) (true :: y) = [] := by simp [commonPrefix]
          rw [hc, eulerPaths_node, between_append_right (by simp) (by simp),
            between_append_split (by simpa using hxm) (by simp)]
          apply List.mem_append_right
          rw [List.idxOf_append, if_neg (by simp)]
          simp
        · -- `x` right, `y` left: impossible
          simp only [valid_node_true] at hx
          simp only [valid_node_false] at hy
          have hxm := mem_eulerPaths.mpr hx
          have hym := mem_eulerPaths.mpr hy
          rw [idxOf_euler_true _ _ _ hxm, idxOf_euler_false _ _ _ hym] at hlt
          have := List.idxOf_lt_length_of_mem hym
          omega
        · -- both in the right subtree
          simp only [valid_node_true] at hx hy
          have hxm := mem_eulerPaths.mpr hx
          have hym := mem_eulerPaths.mpr hy
          rw [idxOf_euler_true _ _ _ hxm, idxOf_euler_true _ _ _ hym] at hlt
          have ih := ihr x y hx hy (by omega)
          have hb : between (eulerPaths (node l r)) (true :: x) (true :: y)
              = (between (eulerPaths r) x y).map (true :: ·) := by
            rw [eulerPaths_node, between_append_right (by simp) (by simp),
              between_append_right (by simp) (by simp),
              between_append_right (by simp) (by simp),
              between_append_left (by simpa using hxm) (by simpa using hym),
              between_map _ (cons_inj_path true)]
          rw [hb]
          simp only [commonPrefix, if_true]
          refine ⟨List.mem_map.mpr ⟨_, ih.1, rfl⟩, ?_⟩
          intro z hz
          obtain ⟨z', hz', rfl⟩ := List.mem_map.mp hz
          rw [List.cons_prefix_cons]
          exact ⟨rfl, ih.2 z' hz'⟩

end VTree

/-! ## least common ancestors -/

theorem getD_map_of_lt {α β : Type} (f : α → β) (l : List α) (i : Nat) (d : β) (h : i < l.length) :
    (l.map f).getD i d = f l[i] := by
  simp [List.getD_eq_getElem?_getD, h]

theorem getD_of_lt {α : Type} (l : List α) (i : Nat) (d : α) (h : i < l.length) :
    l.getD i d = l[i] := by
  simp [List.getD_eq_getElem?_getD, h]

theorem rangeMin_map_between (f : Path → Nat) (E : List Path) (x y c : Path)
    (hc : c ∈ between E x y) (hle : ∀ z ∈ between E x y, f c ≤ f z) :
    rangeMin (E.map f) (E.idxOf x) (E.idxOf y) = f c := by
  unfold rangeMin
  have hseg : ((E.map f).drop (E.idxOf x)).take (E.idxOf y - E.idxOf x) = (between E x y).map f := by
    unfold between; rw [List.map_take, List.map_drop]
  rw [hseg]
  generalize between E x y = seg at hc hle
  match seg, hc, hle with
  | [], hc, _ => simp at hc
  | a :: as, hc, hle =>
    simp only [List.map_cons]
    apply foldl_min_eq
    · rw [← List.map_cons]; exact List.mem_map.mpr ⟨c, hc, rfl⟩
    · intro z hz
      rw [← List.map_cons] at hz
      obtain ⟨z', hz', rfl⟩ := List.mem_map.mp hz
      exact hle z' hz'

/-- specification: the in-order index of the deepest common ancestor (longest common prefix of
the two root paths) -/
def lcaSpec (t : VTree) (i j : Nat) : Nat :=
  (VTree.inorderPaths t).idxOf
    (commonPrefix ((VTree.inorderPaths t).getD i []) ((VTree.inorderPaths t).getD j []))

namespace VTree

theorem bfsLabel_lt {t : VTree} {p : Path} (hp : Valid t p) : bfsLabel t p < t.size := by
  rw [← length_bfsPaths]; exact List.idxOf_lt_length_of_mem (mem_bfsPaths.mpr hp)

theorem bfsLabel_inj {t : VTree} {p q : Path} (hp : Valid t p) (h : bfsLabel t p = bfsLabel t q) :
    p = q := idxOf_inj (mem_bfsPaths.mpr hp) h

theorem eulerVec_idxOf {t : VTree} {p : Path} (_hp : Valid t p) :
    (eulerVec t).idxOf (bfsLabel t p) = (eulerPaths t).idxOf p := by
  unfold eulerVec
  apply idxOf_map_of_injOn
  intro a ha e
  exact bfsLabel_inj (mem_eulerPaths.mp ha) e

theorem indexMap_getD {t : VTree} {p : Path} (hp : Valid t p) :
    (indexMap t).getD (bfsLabel t p) 0 = (eulerPaths t).idxOf p := by
  unfold indexMap
  rw [getD_map_of_lt _ _ _ _ (by simpa using bfsLabel_lt hp)]
  simp [eulerVec_idxOf hp]

theorem lcaBfs_lt_case {t : VTree} {x y : Path} (hx : Valid t x) (hy : Valid t y)
    (hlt : (eulerPaths t).idxOf x < (eulerPaths t).idxOf y) :
    rangeMin (eulerVec t) ((eulerPaths t).idxOf x) ((eulerPaths t).idxOf y)
      = bfsLabel t (commonPrefix x y) := by
  obtain ⟨h1, h2⟩ := euler_between t x y hx hy hlt
  unfold eulerVec
  apply rangeMin_map_between _ _ _ _ _ h1
  intro z hz
  have hzE : z ∈ eulerPaths t := by
    unfold between at hz
    exact List.mem_of_mem_drop (List.mem_of_mem_take hz)
  exact bfsLabel_le_of_prefix (mem_eulerPaths.mp hzE) (h2 z hz)

theorem lcaBfs_eq {t : VTree} {x y : Path} (hx : Valid t x) (hy : Valid t y) :
    (VTreeManager.new t).lcaBfs (bfsLabel t x) (bfsLabel t y) = bfsLabel t (commonPrefix x y) := by
  unfold VTreeManager.lcaBfs
  by_cases he : bfsLabel t x = bfsLabel t y
  · have := bfsLabel_inj hx he
    subst this
    simp
  · rw [if_neg he]
    show (if (indexMap t).getD (bfsLabel t x) 0 < (indexMap t).getD (bfsLabel t y) 0 then
        rangeMin (eulerVec t) ((indexMap t).getD (bfsLabel t x) 0) ((indexMap t).getD (bfsLabel t y) 0)
      else rangeMin (eulerVec t) ((indexMap t).getD (bfsLabel t y) 0) ((indexMap t).getD (bfsLabel t x) 0)) = _
    rw [indexMap_getD hx, indexMap_getD hy]
    have hne : (eulerPaths t).idxOf x ≠ (eulerPaths t).idxOf y := by
      intro e
      exact he (congrArg _ (idxOf_inj (mem_eulerPaths.mpr hx) e))
    by_cases hlt : (eulerPaths t).idxOf x < (eulerPaths t).idxOf y
    · rw [if_pos hlt]; exact lcaBfs_lt_case hx hy hlt
    · rw [if_neg hlt, commonPrefix_comm]
      exact lcaBfs_lt_case hy hx (by omega)

theorem bfsToDfs_getD {t : VTree} {p : Path} (hp : Valid t p) :
    (bfsToDfs t).getD (bfsLabel t p) 0 = dfsLabel t p := by
  unfold bfsToDfs
  have hlt : bfsLabel t p < (bfsPaths t).length := by rw [length_bfsPaths]; exact bfsLabel_lt hp
  rw [getD_map_of_lt _ _ _ _ hlt]
  congr 1
  exact List.getElem_idxOf hlt

theorem dfsToBfs_getD {t : VTree} {i : Nat} (hi : i < (inorderPaths t).length) :
    (dfsToBfs t).getD i 0 = bfsLabel t (inorderPaths t)[i] := by
  unfold dfsToBfs
  exact getD_map_of_lt _ _ _ _ hi

theorem valid_inorderPaths_getElem (t : VTree) (i : Nat) (hi : i < (inorderPaths t).length) :
    Valid t (inorderPaths t)[i] := mem_inorderPaths.mp (List.getElem_mem hi)

end VTree

/-- **`VTreeManager::lca` is correct**: on in-order indices it returns the in-order index of the
deepest common ancestor -/
theorem lca_correct (t : VTree) (i j : Nat) (hi : i < t.size) (hj : j < t.size) :
    (VTreeManager.new t).lca i j = lcaSpec t i j := by
  have hi' : i < (VTree.inorderPaths t).length := by rw [VTree.length_inorderPaths]; exact hi
  have hj' : j < (VTree.inorderPaths t).length := by rw [VTree.length_inorderPaths]; exact hj
  have vi := VTree.valid_inorderPaths_getElem t i hi'
  have vj := VTree.valid_inorderPaths_getElem t j hj'
  unfold VTreeManager.lca lcaSpec
  show (VTree.bfsToDfs t).getD ((VTreeManager.new t).lcaBfs ((VTree.dfsToBfs t).getD i 0)
      ((VTree.dfsToBfs t).getD j 0)) 0 = _
  rw [VTree.dfsToBfs_getD hi', VTree.dfsToBfs_getD hj', VTree.lcaBfs_eq vi vj,
    VTree.bfsToDfs_getD (VTree.valid_of_prefix (commonPrefix_prefix_left _ _) vi),
    getD_of_lt _ _ _ hi', getD_of_lt _ _ _ hj']
  rfl

/-! ## in-order index table, prime/sub relation, variable count -/

namespace VTree

def leafLabel? : VTree → Option Nat
  | leaf v => some v
  | node _ _ => none

theorem leaves_eq_filterMap (t : VTree) : t.leaves = t.inorder.filterMap leafLabel? := by
  induction t with
  | leaf v => rfl
  | node l r ihl ihr =>
    simp only [leaves, inorder, List.filterMap_append, ihl, ihr, List.filterMap_cons]
    rfl

theorem lookupLoop_length (L : List VTree) (i : Nat) (tbl : List Nat) :
    (lookupLoop L i tbl).length = tbl.length := by
  induction L generalizing i tbl with
  | nil => rfl
  | cons s L ih => cases s <;> simp [lookupLoop, ih]

theorem lookupLoop_getD_of_not_mem (L : List VTree) (i : Nat) (tbl : List Nat) (v : Nat)
    (h : v ∉ L.filterMap leafLabel?) : (lookupLoop L i tbl).getD v 0 = tbl.getD v 0 := by
  induction L generalizing i tbl with
  | nil => rfl
  | cons s L ih =>
    cases s with
    | leaf w =>
      simp only [List.filterMap_cons, leafLabel?, List.mem_cons, not_or] at h
      simp only [lookupLoop]
      rw [ih _ _ h.2]
      simp only [List.getD_eq_getElem?_getD, List.getElem?_set]
      have : ¬ w = v := fun e => h.1 e.symm
      simp [this]
    | node a b =>
      simp only [List.filterMap_cons, leafLabel?] at h
      simp only [lookupLoop]
      exact ih _ _ h

theorem lookupLoop_getD (L : List VTree) (i : Nat) (tbl : List Nat) (v k : Nat)
    (hn : (L.filterMap leafLabel?).Nodup) (hk : L[k]? = some (leaf v)) (hv : v < tbl.length) :
    (lookupLoop L i tbl).getD v 0 = i + k := by
  induction L generalizing i tbl k with
  | nil => simp at hk
  | cons s L ih =>
    cases k with
    | zero =>
      simp only [List.getElem?_cons_zero, Option.some.injEq] at hk
      subst hk
      simp only [List.filterMap_cons, leafLabel?, List.nodup_cons] at hn
      simp only [lookupLoop]
      rw [lookupLoop_getD_of_not_mem _ _ _ _ hn.1]
      simp [List.getD_eq_getElem?_getD, hv]
    | succ k =>
      simp only [List.getElem?_cons_succ] at hk
      cases s with
      | leaf w =>
        simp only [List.filterMap_cons, leafLabel?, List.nodup_cons] at hn
        simp only [lookupLoop]
        rw [ih (i + 1) _ k hn.2 hk (by simpa using hv)]
        omega
      | node a b =>
        simp only [List.filterMap_cons, leafLabel?] at hn
        simp only [lookupLoop]
        rw [ih (i + 1) _ k hn hk hv]
        omega

theorem lt_numVarsTree_of_mem_leaves {t : VTree} {v : Nat} (h : v ∈ t.leaves) : v < t.numVarsTree := by
  induction t with
  | leaf w => simp [leaves] at h; subst h; simp [numVarsTree]
  | node l r ihl ihr =>
    simp only [leaves, List.mem_append] at h
    simp only [numVarsTree]
    rcases h with h | h
    · have := ihl h; omega
    · have := ihr h; omega

theorem maxLabel_mem (t : VTree) : t.maxLabel ∈ t.leaves := by
  induction t with
  | leaf v => simp [maxLabel, leaves]
  | node l r ihl ihr =>
    simp only [maxLabel, leaves, List.mem_append]
    rcases Nat.le_total l.maxLabel r.maxLabel with h | h
    · rw [Nat.max_eq_right h]; exact Or.inr ihr
    · rw [Nat.max_eq_left h]; exact Or.inl ihl

theorem le_maxLabel {t : VTree} {v : Nat} (h : v ∈ t.leaves) : v ≤ t.maxLabel := by
  induction t with
  | leaf w => simp [leaves] at h; subst h; simp [maxLabel]
  | node l r ihl ihr =>
    simp only [leaves, List.mem_append] at h
    simp only [maxLabel]
    rcases h with h | h
    · have := ihl h; omega
    · have := ihr h; omega

theorem leaves_nonempty (t : VTree) : t.leaves ≠ [] := by
  intro h; have := maxLabel_mem t; rw [h] at this; simp at this

/-! ### the prime/sub relation in terms of the tree shape -/

theorem inorderLt_append (c p q : Path) : inorderLt (c ++ p) (c ++ q) = inorderLt p q := by
  induction c with
  | nil => rfl
  | cons a c ih => simp [inorderLt, ih]

/-- `p` before `q` in in-order iff, with `c` their deepest common ancestor, `p` lies in the left
subtree of `c` and `q` is `c` or lies in its right subtree, or `p` is `c` and `q` lies in its right
subtree -/
theorem inorderLt_iff (p q : Path) : inorderLt p q = true ↔
    ((∃ a, p = commonPrefix p q ++ false :: a) ∧
        (q = commonPrefix p q ∨ ∃ b, q = commonPrefix p q ++ true :: b)) ∨
      (p = commonPrefix p q ∧ ∃ b, q = commonPrefix p q ++ true :: b) := by
  induction p generalizing q with
  | nil =>
    cases q with
    | nil => simp [inorderLt, commonPrefix]
    | cons b q => cases b <;> simp [inorderLt, commonPrefix]
  | cons a p ih =>
    cases q with
    | nil => cases a <;> simp [inorderLt, commonPrefix]
    | cons b q =>
      cases a <;> cases b <;> simp [inorderLt, commonPrefix] <;> exact ih q

end VTree

/-- the index table is the in-order numbering: entry `i` is the subtree at the `i`-th in-order path -/
theorem indexLookup_spec (t : VTree) (i : Nat) (hi : i < t.size) :
    (VTreeManager.new t).vtree i = t.subtreeAt ((VTree.inorderPaths t).getD i []) := by
  have h := VTree.inorder_eq_subtreeAt t
  have hi1 : i < t.inorder.length := by rw [VTree.length_inorder]; exact hi
  have hi2 : i < (VTree.inorderPaths t).length := by rw [VTree.length_inorderPaths]; exact hi
  have := congrArg (fun l => l[i]?) h
  simp only [List.getElem?_map] at this
  rw [getD_of_lt _ _ _ hi2]
  show t.inorder[i]? = _
  rw [List.getElem?_eq_getElem hi1] at this ⊢
  rw [List.getElem?_eq_getElem hi2] at this
  simpa using this

/-- a leaf's variable is mapped to the leaf's in-order index (leaf labels distinct, as
`VTreeManager::new` asserts) -/
theorem varIndex_spec (t : VTree) (hn : t.leaves.Nodup) (i v : Nat)
    (h : (VTreeManager.new t).vtree i = some (.leaf v)) :
    (VTreeManager.new t).getVarlabelIdx v = i := by
  have hmem : v ∈ t.leaves := by
    rw [VTree.leaves_eq_filterMap, List.mem_filterMap]
    exact ⟨.leaf v, List.mem_of_getElem? h, rfl⟩
  have := VTree.lookupLoop_getD t.inorder 0 (List.replicate t.numVarsTree 0) v i
    (by rw [← VTree.leaves_eq_filterMap]; exact hn) h
    (by simpa using VTree.lt_numVarsTree_of_mem_leaves hmem)
  simpa [VTreeManager.getVarlabelIdx, VTreeManager.new] using this

/-- `is_prime_index(i, j)` holds exactly when node `i` precedes node `j` in the in-order shape
relation (`VTree.inorderLt_iff` unfolds it in terms of the common ancestor) -/
theorem isPrimeIndex_spec (t : VTree) (i j : Nat) (hi : i < t.size) (hj : j < t.size) :
    (VTreeManager.new t).isPrimeIndex i j =
      VTree.inorderLt ((VTree.inorderPaths t).getD i []) ((VTree.inorderPaths t).getD j []) := by
  have hi' : i < (VTree.inorderPaths t).length := by rw [VTree.length_inorderPaths]; exact hi
  have hj' : j < (VTree.inorderPaths t).length := by rw [VTree.length_inorderPaths]; exact hj
  rw [getD_of_lt _ _ _ hi', getD_of_lt _ _ _ hj']
  have hs := VTree.pairwise_inorderPaths t
  rw [List.pairwise_iff_getElem] at hs
  unfold VTreeManager.isPrimeIndex
  rcases Nat.lt_trichotomy i j with h | h | h
  · simp [h, hs i j hi' hj' h]
  · subst h; simp [VTree.inorderLt_irrefl]
  · have := VTree.inorderLt_asymm _ _ (hs j i hj' hi' h)
    simp [this]; omega

/-- `num_vars()` is one more than the largest leaf label -/
theorem numVars_eq (t : VTree) :
    (VTreeManager.new t).numVars = t.maxLabel + 1 ∧ t.maxLabel ∈ t.leaves ∧
      ∀ v ∈ t.leaves, v ≤ t.maxLabel :=
  ⟨rfl, VTree.maxLabel_mem t, fun _ h => VTree.le_maxLabel h⟩

/-- when the labels are exactly `0..n-1`, each once, `num_vars()` is `n`, the number of leaves -/
theorem numVars_of_perm (t : VTree) (n : Nat) (h : t.leaves.Perm (List.range n)) :
    (VTreeManager.new t).numVars = n ∧ t.leaves.length = n := by
  have hlen : t.leaves.length = n := by simpa using h.length_eq
  refine ⟨?_, hlen⟩
  have hpos : 0 < n := by
    rcases Nat.eq_zero_or_pos n with h0 | h0
    · subst h0
      have := VTree.leaves_nonempty t
      simp at hlen; exact absurd hlen this
    · exact h0
  have h1 : t.maxLabel < n := by
    have := h.mem_iff.mp (VTree.maxLabel_mem t); simpa using this
  have h2 : n - 1 ≤ t.maxLabel :=
    VTree.le_maxLabel (h.mem_iff.mpr (by simp; omega))
  show t.maxLabel + 1 = n
  omega

/-! ## the vtree shapes the library builds have the given variable list as leaves -/

namespace VTree

theorem rightLinear_leaves : ∀ (o : List Nat) (t : VTree), rightLinear o = some t → t.leaves = o
  | [], t, h => by simp [rightLinear] at h
  | [x], t, h => by simp [rightLinear] at h; subst h; rfl
  | x :: y :: rest, t, h => by
    simp only [rightLinear, Option.map_eq_some_iff] at h
    obtain ⟨r, hr, rfl⟩ := h
    simp [leaves, rightLinear_leaves (y :: rest) r hr]

theorem rightLinear_isSome : ∀ (o : List Nat), o ≠ [] → (rightLinear o).isSome
  | [], h => by simp at h
  | [x], _ => rfl
  | x :: y :: rest, _ => by
    have := rightLinear_isSome (y :: rest) (by simp)
    simp only [rightLinear, Option.isSome_map]
    exact this

theorem leaves_foldl_leftLinear (xs : List Nat) (t : VTree) :
    (xs.foldl (fun t y => node t (leaf y)) t).leaves = t.leaves ++ xs := by
  induction xs generalizing t with
  | nil => simp
  | cons x xs ih => simp [ih, leaves]

theorem leftLinear_leaves (o : List Nat) (t : VTree) (h : leftLinear o = some t) : t.leaves = o := by
  cases o with
  | nil => simp [leftLinear] at h
  | cons x xs =>
    simp only [leftLinear, Option.some.injEq] at h
    subst h
    simp [leaves_foldl_leftLinear, leaves]

theorem evenSplit_leaves (k : Nat) : ∀ (o : List Nat) (t : VTree), evenSplit o k = some t → t.leaves = o := by
  induction k with
  | zero => intro o t h; exact rightLinear_leaves o t h
  | succ k ih =>
    intro o t h
    simp only [evenSplit] at h
    split at h
    · rename_i l r hl hr
      simp only [Option.some.injEq] at h
      subst h
      simp [leaves, ih _ _ hl, ih _ _ hr]
    · simp at h

end VTree

end VT
