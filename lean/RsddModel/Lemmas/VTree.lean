import RsddModel.Model.VTree
/-!
# Lemmas: in-order indexing, BFS numbering, Euler tour and least common ancestors of vtrees
-/
namespace VT

/-! ## generic list facts -/

section ListFacts
variable {α β : Type} [DecidableEq α] [DecidableEq β]

theorem idxOf_map_of_injOn (f : α → β) (l : List α) (x : α)
    (h : ∀ a ∈ l, f a = f x → a = x) : (l.map f).idxOf (f x) = l.idxOf x := by
  induction l with
  | nil => rfl
  | cons a l ih =>
    have ih' := ih (fun b hb => h b (List.mem_cons_of_mem _ hb))
    simp only [List.map_cons, List.idxOf_cons, ih', cond_eq_ite, beq_iff_eq]
    by_cases hax : a = x
    · subst hax; simp
    · have : f a ≠ f x := fun e => hax (h a List.mem_cons_self e)
      simp [hax, this]

theorem idxOf_inj {l : List α} {x y : α} (hx : x ∈ l) (h : l.idxOf x = l.idxOf y) : x = y := by
  have h1 : l.idxOf x < l.length := List.idxOf_lt_length_of_mem hx
  have h2 : l.idxOf y < l.length := h ▸ h1
  have e1 := List.getElem_idxOf h1
  have e2 := List.getElem_idxOf h2
  rw [← e1, ← e2]; simp [h]

theorem idxOf_getElem_of_nodup {l : List α} (hn : l.Nodup) (i : Nat) (hi : i < l.length) :
    l.idxOf l[i] = i := by
  induction l generalizing i with
  | nil => simp at hi
  | cons a l ih =>
    rw [List.nodup_cons] at hn
    cases i with
    | zero => simp
    | succ i =>
      simp only [List.getElem_cons_succ, List.idxOf_cons, cond_eq_ite, beq_iff_eq]
      have hi' : i < l.length := by simpa using hi
      have : a ≠ l[i] := fun e => hn.1 (e ▸ List.getElem_mem hi')
      simp [this, ih hn.2 i hi']

/-- the segment of `l` from the first occurrence of `x` up to (excluding) the first occurrence
of `y` -/
def between (l : List α) (x y : α) : List α := (l.drop (l.idxOf x)).take (l.idxOf y - l.idxOf x)

theorem between_append_left {a b : List α} {x y : α} (hx : x ∈ a) (hy : y ∈ a) :
    between (a ++ b) x y = between a x y := by
  unfold between
  rw [List.idxOf_append, List.idxOf_append, if_pos hx, if_pos hy]
  have h1 := List.idxOf_lt_length_of_mem hx
  have h2 := List.idxOf_lt_length_of_mem hy
  rw [List.drop_append_of_le_length (by omega), List.take_append_of_le_length]
  simp; omega

theorem between_append_right {a b : List α} {x y : α} (hx : x ∉ a) (hy : y ∉ a) :
    between (a ++ b) x y = between b x y := by
  unfold between
  rw [List.idxOf_append, List.idxOf_append, if_neg hx, if_neg hy]
  have : b.idxOf y + a.length - (b.idxOf x + a.length) = b.idxOf y - b.idxOf x := by omega
  rw [this, Nat.add_comm, List.drop_append]
  rw [List.drop_of_length_le (by omega)]
  simp

theorem between_append_split {a b : List α} {x y : α} (hx : x ∈ a) (hy : y ∉ a) :
    between (a ++ b) x y = a.drop (a.idxOf x) ++ b.take (b.idxOf y) := by
  unfold between
  rw [List.idxOf_append, List.idxOf_append, if_pos hx, if_neg hy]
  have h1 := List.idxOf_lt_length_of_mem hx
  rw [List.drop_append_of_le_length (by omega), List.take_append]
  have : (List.drop (List.idxOf x a) a).length = a.length - a.idxOf x := by simp
  rw [this]
  have e : b.idxOf y + a.length - a.idxOf x - (a.length - a.idxOf x) = b.idxOf y := by omega
  rw [e, List.take_of_length_le]
  simp; omega

theorem between_map (f : α → β) (hf : ∀ a b, f a = f b → a = b) (l : List α) (x y : α) :
    between (l.map f) (f x) (f y) = (between l x y).map f := by
  unfold between
  rw [idxOf_map_of_injOn f l x (fun a _ e => hf _ _ e),
      idxOf_map_of_injOn f l y (fun a _ e => hf _ _ e), ← List.map_drop, ← List.map_take]

theorem idxOf_lt_of_mem_not_mem {a b : List α} {x y : α} (hx : x ∈ a) (hy : y ∉ a) :
    (a ++ b).idxOf x < (a ++ b).idxOf y := by
  rw [List.idxOf_append, List.idxOf_append, if_pos hx, if_neg hy]
  have := List.idxOf_lt_length_of_mem hx
  omega

theorem foldl_min_eq (m x : Nat) (xs : List Nat) (hm : m ∈ x :: xs) (hle : ∀ z ∈ x :: xs, m ≤ z) :
    xs.foldl min x = m := by
  induction xs generalizing x with
  | nil => simpa [eq_comm] using hm
  | cons y ys ih =>
    simp only [List.foldl_cons]
    apply ih
    · simp only [List.mem_cons] at hm ⊢
      have hx := hle x (by simp)
      have hy := hle y (by simp)
      rcases hm with rfl | rfl | h
      · left; omega
      · left; omega
      · right; exact h
    · intro z hz
      simp only [List.mem_cons] at hz
      rcases hz with rfl | h
      · have hx := hle x (by simp); have hy := hle y (by simp); omega
      · exact hle z (by simp [h])

end ListFacts

/-! ## root paths, validity, common prefixes -/

/-- the longest common prefix of two root paths: the root path of the deepest common ancestor -/
def commonPrefix : Path → Path → Path
  | a :: p, b :: q => if a = b then a :: commonPrefix p q else []
  | _, _ => []

theorem commonPrefix_comm (p q : Path) : commonPrefix p q = commonPrefix q p := by
  induction p generalizing q with
  | nil => cases q <;> rfl
  | cons a p ih =>
    cases q with
    | nil => rfl
    | cons b q =>
      simp only [commonPrefix]
      by_cases h : a = b
      · subst h; simp [ih q]
      · have : ¬ b = a := fun e => h e.symm
        simp [h, this]

@[simp] theorem commonPrefix_self (p : Path) : commonPrefix p p = p := by
  induction p with
  | nil => rfl
  | cons a p ih => simp [commonPrefix, ih]

theorem commonPrefix_prefix_left (p q : Path) : commonPrefix p q <+: p := by
  induction p generalizing q with
  | nil => cases q <;> simp [commonPrefix]
  | cons a p ih =>
    cases q with
    | nil => simp [commonPrefix]
    | cons b q =>
      simp only [commonPrefix]
      by_cases h : a = b
      · simp [h, List.cons_prefix_cons, ih q]
      · simp [h]

theorem commonPrefix_prefix_right (p q : Path) : commonPrefix p q <+: q := by
  rw [commonPrefix_comm]; exact commonPrefix_prefix_left q p

/-- `commonPrefix p q` is the DEEPEST common ancestor: every common prefix is a prefix of it -/
theorem prefix_commonPrefix {r p q : Path} (hp : r <+: p) (hq : r <+: q) : r <+: commonPrefix p q := by
  induction r generalizing p q with
  | nil => simp
  | cons c r ih =>
    cases p with
    | nil => simp at hp
    | cons a p =>
      cases q with
      | nil => simp at hq
      | cons b q =>
        rw [List.cons_prefix_cons] at hp hq
        obtain ⟨rfl, hp⟩ := hp
        obtain ⟨rfl, hq⟩ := hq
        simp [commonPrefix, List.cons_prefix_cons, ih hp hq]

namespace VTree

/-- `p` is the root path of a node of `t` -/
def Valid (t : VTree) (p : Path) : Prop := (t.subtreeAt p).isSome = true

@[simp] theorem valid_nil (t : VTree) : Valid t [] := by cases t <;> rfl
@[simp] theorem not_valid_leaf_cons (v : Nat) (b : Bool) (p : Path) : ¬ Valid (leaf v) (b :: p) := by
  simp [Valid, subtreeAt]
@[simp] theorem valid_node_false (l r : VTree) (p : Path) : Valid (node l r) (false :: p) ↔ Valid l p := by
  simp [Valid, subtreeAt]
@[simp] theorem valid_node_true (l r : VTree) (p : Path) : Valid (node l r) (true :: p) ↔ Valid r p := by
  simp [Valid, subtreeAt]

theorem valid_of_prefix {t : VTree} {p q : Path} (h : p <+: q) (hq : Valid t q) : Valid t p := by
  induction t generalizing p q with
  | leaf v =>
    cases q with
    | nil => simp at h; subst h; simp
    | cons b q => simp at hq
  | node l r ihl ihr =>
    cases p with
    | nil => simp
    | cons a p =>
      cases q with
      | nil => simp at h
      | cons b q =>
        rw [List.cons_prefix_cons] at h
        obtain ⟨rfl, h⟩ := h
        cases a
        · simp at hq ⊢; exact ihl h hq
        · simp at hq ⊢; exact ihr h hq

theorem mem_inorderPaths {t : VTree} {p : Path} : p ∈ inorderPaths t ↔ Valid t p := by
  induction t generalizing p with
  | leaf v => cases p <;> simp [inorderPaths]
  | node l r ihl ihr =>
    cases p with
    | nil => simp [inorderPaths]
    | cons b p =>
      cases b <;> simp [inorderPaths, ihl, ihr]

theorem length_inorderPaths (t : VTree) : (inorderPaths t).length = t.size := by
  induction t with
  | leaf v => rfl
  | node l r ihl ihr => simp [inorderPaths, size, ihl, ihr]; omega

theorem length_inorder (t : VTree) : (inorder t).length = t.size := by
  induction t with
  | leaf v => rfl
  | node l r ihl ihr => simp [inorder, size, ihl, ihr]; omega

theorem size_pos (t : VTree) : 0 < t.size := by cases t <;> simp [size] <;> omega

theorem nodup_inorderPaths (t : VTree) : (inorderPaths t).Nodup := by
  induction t with
  | leaf v => simp [inorderPaths]
  | node l r ihl ihr =>
    simp only [inorderPaths]
    rw [List.nodup_append]
    refine ⟨?_, ?_, ?_⟩
    · exact List.Pairwise.map _ (fun a b h e => h (by simpa using e)) ihl
    · rw [List.nodup_cons]
      refine ⟨by simp, ?_⟩
      exact List.Pairwise.map _ (fun a b h e => h (by simpa using e)) ihr
    · intro a ha b hb
      simp only [List.mem_map] at ha
      obtain ⟨a', _, rfl⟩ := ha
      simp only [List.mem_cons, List.mem_map] at hb
      rcases hb with rfl | ⟨b', _, rfl⟩ <;> simp

/-- the `i`-th subtree of the in-order traversal is the subtree at the `i`-th in-order path -/
theorem inorder_eq_subtreeAt (t : VTree) :
    (inorder t).map some = (inorderPaths t).map (subtreeAt t) := by
  induction t with
  | leaf v => rfl
  | node l r ihl ihr =>
    simp only [inorder, inorderPaths, List.map_append, List.map_cons, List.map_map]
    rw [ihl, ihr]
    congr 1
    · apply List.map_congr_left; intro p _; simp [subtreeAt]
    · apply List.map_congr_left; intro p _; simp [subtreeAt]

/-! ### the in-order relation on root paths -/

/-- `p` comes before `q` in the left-subtree / node / right-subtree order -/
def inorderLt : Path → Path → Bool
  | [], [] => false
  | [], b :: _ => b
  | a :: _, [] => !a
  | a :: p, b :: q => if a = b then inorderLt p q else (!a && b)

theorem inorderLt_asymm (p q : Path) : inorderLt p q = true → inorderLt q p = false := by
  induction p generalizing q with
  | nil => cases q with
    | nil => simp [inorderLt]
    | cons b q => cases b <;> simp [inorderLt]
  | cons a p ih =>
    cases q with
    | nil => cases a <;> simp [inorderLt]
    | cons b q =>
      cases a <;> cases b <;> simp [inorderLt] <;> exact ih q

theorem inorderLt_irrefl (p : Path) : inorderLt p p = false := by
  induction p with
  | nil => rfl
  | cons a p ih => simp [inorderLt, ih]

theorem pairwise_inorderPaths (t : VTree) :
    (inorderPaths t).Pairwise (fun p q => inorderLt p q = true) := by
  induction t with
  | leaf v => simp [inorderPaths]
  | node l r ihl ihr =>
    simp only [inorderPaths]
    rw [List.pairwise_append]
    refine ⟨?_, ?_, ?_⟩
    · exact List.Pairwise.map _ (fun a b h => by simpa [inorderLt] using h) ihl
    · rw [List.pairwise_cons]
      refine ⟨?_, ?_⟩
      · intro a ha
        simp only [List.mem_map] at ha
        obtain ⟨a', _, rfl⟩ := ha
        simp [inorderLt]
      · exact List.Pairwise.map _ (fun a b h => by simpa [inorderLt] using h) ihr
    · intro a ha b hb
      simp only [List.mem_map] at ha
      obtain ⟨a', _, rfl⟩ := ha
      simp only [List.mem_cons, List.mem_map] at hb
      rcases hb with rfl | ⟨b', _, rfl⟩ <;> simp [inorderLt]

end VTree

end VT
