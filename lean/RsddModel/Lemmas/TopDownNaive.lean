import RsddModel.Lemmas.TopDownSolver
/-!
# The naive reference solver satisfies the solver specification

`NaiveSolver` (Model/TopDown.lean) satisfies `SolverSpec`, `NewSpec`, `HashSound` and
`FreeDecide` for every CNF, so the hypotheses of the C06 theorems are jointly satisfiable and
`naiveCompile` is an unconditionally correct compiler.
-/
namespace TopDown
open Spec Bdd

/-! ## association-list models -/

theorem NModel.get_nil (v : Nat) : NModel.get [] v = none := rfl

theorem NModel.get_cons (u : Lit) (m : NModel) (v : Nat) :
    NModel.get (u :: m) v = if u.var = v then some u.pol else NModel.get m v := by
  simp only [NModel.get, List.find?_cons]
  by_cases h : u.var = v
  · simp [h]
  · have : (u.var == v) = false := by simp [h]
    simp [this, h]

theorem toP_nil : NModel.toP [] = PModel.empty := rfl

theorem toP_cons (u : Lit) (m : NModel) : NModel.toP (u :: m) = (NModel.toP m).set u.var u.pol := by
  funext v
  simp only [NModel.toP, NModel.get_cons, PModel.set]
  by_cases h : u.var = v
  · simp [h]
  · have : ¬ v = u.var := fun e => h e.symm
    simp [h, this]

theorem litUnset_iff {m : PModel} {l : Lit} : litUnset m l = true ↔ m l.var = none := by
  simp [litUnset]

/-! ## units -/

theorem unitOf_some {m : NModel} {c : Clause} {u : Lit} (h : unitOf m c = some u) :
    c.any (litTrue m.toP) = false ∧ u ∈ c ∧ m.toP u.var = none ∧
    ∀ l ∈ c, m.toP l.var = none → l = u := by
  unfold unitOf at h
  split at h
  · cases h
  · rename_i hnt
    split at h
    · cases h
    · rename_i u' rest hf
      split at h
      · rename_i hall
        cases h
        have hu : u ∈ c.filter (litUnset m.toP) := by rw [hf]; exact List.mem_cons_self
        rw [List.mem_filter, litUnset_iff] at hu
        refine ⟨by simpa using hnt, hu.1, hu.2, ?_⟩
        intro l hl hlu
        have : l ∈ c.filter (litUnset m.toP) := by
          rw [List.mem_filter, litUnset_iff]; exact ⟨hl, hlu⟩
        rw [hf] at this
        rcases List.mem_cons.1 this with e | e
        · exact e
        · rw [List.all_eq_true] at hall
          simpa using hall l e
      · cases h

theorem findUnit_some {m : NModel} : ∀ {cnf : Cnf} {u : Lit}, findUnit m cnf = some u →
    ∃ c ∈ cnf, unitOf m c = some u
  | [], _, h => by cases h
  | c :: cs, u, h => by
    unfold findUnit at h
    cases hc : unitOf m c with
    | some u' =>
      rw [hc] at h; cases h
      exact ⟨c, List.mem_cons_self, hc⟩
    | none =>
      rw [hc] at h
      obtain ⟨c', hc', hu⟩ := findUnit_some h
      exact ⟨c', List.mem_cons_of_mem _ hc', hu⟩

theorem findUnit_none {m : NModel} : ∀ {cnf : Cnf}, findUnit m cnf = none → ∀ c ∈ cnf, unitOf m c = none
  | [], _, c, hc => by cases hc
  | c :: cs, h, c', hc' => by
    unfold findUnit at h
    cases hc : unitOf m c with
    | some u' => rw [hc] at h; cases h
    | none =>
      rw [hc] at h
      rcases List.mem_cons.1 hc' with e | e
      · rw [e]; exact hc
      · exact findUnit_none h c' e

theorem findUnit_none_of {m : NModel} : ∀ {cnf : Cnf}, (∀ c ∈ cnf, unitOf m c = none) → findUnit m cnf = none
  | [], _ => rfl
  | c :: cs, h => by
    unfold findUnit
    rw [h c List.mem_cons_self]
    exact findUnit_none_of fun c' hc' => h c' (List.mem_cons_of_mem _ hc')

/-! ## propagation -/

/-- induction principle: anything true of the start and preserved by adding a unit literal is
true of the result -/
theorem propagate_induct {cnf : Cnf} (P : NModel → Prop)
    (hstep : ∀ m' u, P m' → (∃ c ∈ cnf, unitOf m' c = some u) → P (u :: m')) :
    ∀ (fuel : Nat) (m : NModel), P m → P (propagate cnf fuel m)
  | 0, _, h => h
  | fuel + 1, m, h => by
    unfold propagate
    cases hu : findUnit m cnf with
    | none => exact h
    | some u => exact propagate_induct P hstep fuel (u :: m) (hstep m u h (findUnit_some hu))

/-- a unit literal is entailed -/
theorem unit_entailed {cnf : Cnf} {m : NModel} {c : Clause} {u : Lit} (hc : c ∈ cnf)
    (hu : unitOf m c = some u) {a : Assign} (ha : Extends a m.toP) (hsat : cnfSat a cnf = true) :
    litSat a u = true := by
  obtain ⟨hnt, _, _, huniq⟩ := unitOf_some hu
  have hcs : clauseSat a c = true := by
    simp only [cnfSat, List.all_eq_true] at hsat
    exact hsat c hc
  simp only [clauseSat, List.any_eq_true] at hcs
  obtain ⟨l, hl, hls⟩ := hcs
  cases hm : m.toP l.var with
  | none => rw [← huniq l hl hm]; exact hls
  | some b =>
    exfalso
    have hab := ha _ _ hm
    simp only [litSat, beq_iff_eq] at hls
    have : litTrue m.toP l = true := by simp [litTrue, hm, ← hab, hls]
    have h2 : c.any (litTrue m.toP) = true := List.any_eq_true.2 ⟨l, hl, this⟩
    rw [hnt] at h2; cases h2

theorem propagate_ext (cnf : Cnf) (fuel : Nat) (m : NModel) : PExt m.toP (propagate cnf fuel m).toP := by
  apply propagate_induct (fun m' => PExt m.toP m'.toP) _ fuel m (PExt.refl _)
  intro m' u h ⟨c, _, hu⟩
  rw [toP_cons]
  exact h.trans (PExt_set _ (unitOf_some hu).2.2.1)

theorem propagate_sound (cnf : Cnf) (fuel : Nat) (m : NModel) {a : Assign} (ha : Extends a m.toP)
    (hsat : cnfSat a cnf = true) : Extends a (propagate cnf fuel m).toP := by
  apply propagate_induct (fun m' => Extends a m'.toP) _ fuel m ha
  intro m' u h ⟨c, hc, hu⟩
  rw [toP_cons]
  apply Extends_set h
  have := unit_entailed hc hu h hsat
  simpa [litSat] using this

/-! ### the fuel is enough -/

theorem countP_lt_of {α : Type} {p q : α → Bool} : ∀ {l : List α}, (∀ x ∈ l, q x = true → p x = true) →
    (∃ x ∈ l, p x = true ∧ q x = false) → l.countP q < l.countP p
  | [], _, ⟨_, hx, _⟩ => by cases hx
  | y :: l, himp, ⟨x, hx, hpx, hqx⟩ => by
    have himp' : ∀ z ∈ l, q z = true → p z = true := fun z hz => himp z (List.mem_cons_of_mem _ hz)
    have hle : l.countP q ≤ l.countP p := List.countP_mono_left himp'
    simp only [List.countP_cons]
    rcases List.mem_cons.1 hx with e | e
    · subst e
      simp only [hpx, hqx, if_true, Bool.false_eq_true, if_false]
      omega
    · have := countP_lt_of himp' ⟨x, e, hpx, hqx⟩
      have hy := himp y List.mem_cons_self
      cases hq : q y
      · simp only [Bool.false_eq_true, if_false]; split <;> omega
      · simp only [hy hq, if_true]; omega

/-- number of variable occurrences still unassigned -/
def unsetCount (cnf : Cnf) (m : NModel) : Nat := (cnfVarList cnf).countP (fun v => (m.get v).isNone)

theorem mem_cnfVarList {cnf : Cnf} {c : Clause} {l : Lit} (hc : c ∈ cnf) (hl : l ∈ c) :
    l.var ∈ cnfVarList cnf := by
  simp only [cnfVarList, List.mem_flatMap, List.mem_map]
  exact ⟨c, hc, l, hl, rfl⟩

theorem unsetCount_unit {cnf : Cnf} {m : NModel} {c : Clause} {u : Lit} (hc : c ∈ cnf)
    (hu : unitOf m c = some u) : unsetCount cnf (u :: m) < unsetCount cnf m := by
  obtain ⟨_, huc, hun, _⟩ := unitOf_some hu
  apply countP_lt_of
  · intro v _ hv
    rw [NModel.get_cons] at hv
    by_cases e : u.var = v
    · simp [e] at hv
    · simpa [e] using hv
  · refine ⟨u.var, mem_cnfVarList hc huc, ?_, ?_⟩
    · have : m.get u.var = none := hun
      simp [this]
    · simp [NModel.get_cons]

theorem propagate_fix (cnf : Cnf) : ∀ (fuel : Nat) (m : NModel), unsetCount cnf m < fuel →
    findUnit (propagate cnf fuel m) cnf = none
  | 0, _, h => by omega
  | fuel + 1, m, h => by
    unfold propagate
    cases hu : findUnit m cnf with
    | none => exact hu
    | some u =>
      obtain ⟨c, hc, huc⟩ := findUnit_some hu
      have := unsetCount_unit hc huc
      exact propagate_fix cnf fuel (u :: m) (by omega)

theorem propagate_fix' (cnf : Cnf) (m : NModel) : findUnit (propagate cnf (propFuel cnf) m) cnf = none := by
  apply propagate_fix
  unfold propFuel unsetCount
  exact Nat.lt_succ_of_le List.countP_le_length

/-! ## `difference` -/

theorem foldl_bound_ge (m : NModel) : ∀ (n0 : Nat), n0 ≤ m.foldl (fun n l => max n (l.var + 1)) n0 := by
  induction m with
  | nil => intro n0; exact Nat.le_refl _
  | cons l m ih => intro n0; exact Nat.le_trans (Nat.le_max_left _ _) (ih _)

theorem foldl_bound_mem (m : NModel) : ∀ (n0 : Nat), ∀ l ∈ m, l.var < m.foldl (fun n l => max n (l.var + 1)) n0 := by
  induction m with
  | nil => intro _ l hl; cases hl
  | cons l' m ih =>
    intro n0 l hl
    rcases List.mem_cons.1 hl with e | e
    · subst e
      exact Nat.lt_of_lt_of_le (Nat.lt_of_lt_of_le (Nat.lt_succ_self _) (Nat.le_max_right n0 _))
        (foldl_bound_ge m _)
    · exact ih _ l e

theorem NModel.get_some_mem {m : NModel} {v : Nat} {b : Bool} (h : m.get v = some b) :
    ∃ l ∈ m, l.var = v ∧ l.pol = b := by
  unfold NModel.get at h
  split at h
  · rename_i l hl
    cases h
    have h1 := List.find?_some hl
    simp only [beq_iff_eq] at h1
    exact ⟨l, List.mem_of_find?_eq_some hl, h1, rfl⟩
  · cases h

theorem mem_naiveDifference {s : NaiveState} {l : Lit} :
    l ∈ naiveDifference s ↔
      l.var < s.top.foldl (fun n l => max n (l.var + 1)) s.numVars ∧
      s.top.get l.var = some l.pol ∧ s.prev.get l.var ≠ some l.pol := by
  obtain ⟨v, b⟩ := l
  simp only [naiveDifference, List.mem_append, List.mem_map, List.mem_filter, List.mem_range,
    Bool.and_eq_true, beq_iff_eq, bne_iff_ne, ne_eq, Lit.mk.injEq]
  constructor
  · rintro (⟨x, ⟨h1, h2, h3⟩, rfl, rfl⟩ | ⟨x, ⟨h1, h2, h3⟩, rfl, rfl⟩) <;> exact ⟨h1, h2, h3⟩
  · rintro ⟨h1, h2, h3⟩
    cases b
    · exact Or.inl ⟨v, ⟨h1, h2, h3⟩, rfl, rfl⟩
    · exact Or.inr ⟨v, ⟨h1, h2, h3⟩, rfl, rfl⟩

theorem naiveDifference_nodup (s : NaiveState) : ((naiveDifference s).map (·.var)).Nodup := by
  simp only [naiveDifference, List.map_append, List.map_map]
  have hid1 : ((fun l : Lit => l.var) ∘ fun v => (⟨v, false⟩ : Lit)) = id := rfl
  have hid2 : ((fun l : Lit => l.var) ∘ fun v => (⟨v, true⟩ : Lit)) = id := rfl
  rw [hid1, hid2, List.map_id, List.map_id, List.nodup_append]
  refine ⟨List.Nodup.sublist List.filter_sublist List.nodup_range,
    List.Nodup.sublist List.filter_sublist List.nodup_range, ?_⟩
  intro a ha b hb e
  subst e
  simp only [List.mem_filter, Bool.and_eq_true, beq_iff_eq] at ha hb
  rw [ha.2.1] at hb
  cases hb.2.1

/-! ## the specification instance -/

/-- the abstract view of one model of the stack -/
def naiveFrame (cnf : Cnf) (m : NModel) : Frame Cnf :=
  ⟨m.toP, residual cnf m.toP, cnf.all (fun c => c.any (litTrue m.toP))⟩

/-- each model of the stack extends the one below it -/
def ChainOK : List NModel → Prop
  | m1 :: m0 :: rest => PExt m0.toP m1.toP ∧ ChainOK (m0 :: rest)
  | _ => True

/-- validity of a naive state: it is a state for `cnf`; the stack is a chain; every model on it
is conflict-free; every model but the bottom one is closed under unit propagation -/
structure NaiveInv (cnf : Cnf) (s : NaiveState) : Prop where
  cnf_eq : s.cnf = cnf
  chain : ChainOK s.stack
  noconf : ∀ m ∈ s.stack, hasConflict cnf m = false
  fix : ∀ m ∈ s.stack.dropLast, findUnit m cnf = none

theorem frames_cons {cnf : Cnf} {s : NaiveState} {f : Frame Cnf} {rest : List (Frame Cnf)}
    (h : s.stack.map (naiveFrame cnf) = f :: rest) :
    ∃ m ms, s.stack = m :: ms ∧ f = naiveFrame cnf m ∧ rest = ms.map (naiveFrame cnf) := by
  cases hs : s.stack with
  | nil => rw [hs] at h; cases h
  | cons m ms =>
    rw [hs] at h
    simp only [List.map_cons, List.cons.injEq] at h
    exact ⟨m, ms, rfl, h.1.symm, h.2.symm⟩

theorem top_of_stack {s : NaiveState} {m : NModel} {ms : List NModel} (h : s.stack = m :: ms) : s.top = m := by
  simp [NaiveState.top, h]

theorem prev_of_stack {s : NaiveState} {m1 m0 : NModel} {ms : List NModel} (h : s.stack = m1 :: m0 :: ms) :
    s.prev = m0 := by
  simp [NaiveState.prev, h]

theorem allTrue_sat {cnf : Cnf} {m : PModel} (h : cnf.all (fun c => c.any (litTrue m)) = true)
    {a : Assign} (ha : Extends a m) : cnfSat a cnf = true := by
  rw [List.all_eq_true] at h
  simp only [cnfSat, List.all_eq_true]
  intro c hc
  exact clauseSat_of_litTrue ha (h c hc)

theorem noConflict_total_sat {cnf : Cnf} {m : NModel} (hnc : hasConflict cnf m = false)
    (htot : ∀ v, InCnf cnf v → m.toP v ≠ none) {a : Assign} (ha : Extends a m.toP) :
    cnfSat a cnf = true := by
  simp only [cnfSat, List.all_eq_true]
  intro c hc
  have hcf : clauseFalsified m.toP c = false := by
    cases h : clauseFalsified m.toP c
    · rfl
    · have : hasConflict cnf m = true := List.any_eq_true.2 ⟨c, hc, h⟩
      rw [hnc] at this; cases this
  -- some literal is not false; being assigned, it is true
  have : ∃ l ∈ c, litFalse m.toP l = false := by
    apply Classical.byContradiction
    intro hno
    have : clauseFalsified m.toP c = true := by
      simp only [clauseFalsified, List.all_eq_true]
      intro l hl
      cases h : litFalse m.toP l
      · exact absurd ⟨l, hl, h⟩ hno
      · rfl
    rw [hcf] at this; cases this
  obtain ⟨l, hl, hlf⟩ := this
  simp only [clauseSat, List.any_eq_true]
  refine ⟨l, hl, ?_⟩
  cases hm : m.toP l.var with
  | none => exact absurd hm (htot l.var ⟨c, hc, l, hl, rfl⟩)
  | some b =>
    have hab := ha _ _ hm
    simp only [litFalse, hm, beq_eq_false_iff_ne, ne_eq, Option.some.injEq] at hlf
    simp only [litSat, hab, beq_iff_eq]
    cases b <;> cases hp : l.pol <;> simp_all

/-! ## `decide` -/

theorem naiveDecide_unset {s : NaiveState} {l : Lit} (h : s.top.get l.var = none) :
    naiveDecide s l =
      if hasConflict s.cnf (propagate s.cnf (propFuel s.cnf) (l :: s.top)) then (.unsat, s)
      else
        (if naiveIsSat { s with stack := propagate s.cnf (propFuel s.cnf) (l :: s.top) :: s.stack }
          then .sat else .unknown,
         { s with stack := propagate s.cnf (propFuel s.cnf) (l :: s.top) :: s.stack }) := by
  simp only [naiveDecide, h]

/-- a conflict after sound propagation: no extension is a model -/
theorem conflict_unsat {cnf : Cnf} {m m' : NModel}
    (hsound : ∀ a, Extends a m.toP → cnfSat a cnf = true → Extends a m'.toP)
    (hc : hasConflict cnf m' = true) : UnsatUnder cnf m.toP := by
  intro a ha
  cases hsat : cnfSat a cnf
  · rfl
  · exfalso
    have he := hsound a ha hsat
    obtain ⟨c, hcm, hcf⟩ := List.any_eq_true.1 hc
    have hcs : clauseSat a c = true := by
      simp only [cnfSat, List.all_eq_true] at hsat
      exact hsat c hcm
    obtain ⟨l, hl, hls⟩ := List.any_eq_true.1 hcs
    simp only [clauseFalsified, List.all_eq_true] at hcf
    have := litFalse_unsat he (hcf l hl)
    rw [hls] at this; cases this

/-- every literal propagated after the decision `l` on top of `top` occurs in the residual of `top` -/
theorem propagate_relevant (cnf : Cnf) (fuel : Nat) (top : NModel) (l : Lit) (hl : top.get l.var = none) :
    ∀ v, (propagate cnf fuel (l :: top)).get v ≠ none → top.get v = none →
      v = l.var ∨ InCnf (residual cnf top.toP) v := by
  have h0 : PExt top.toP (NModel.toP (l :: top)) := by rw [toP_cons]; exact PExt_set _ hl
  have := propagate_induct (cnf := cnf)
    (fun m' => PExt top.toP m'.toP ∧ ∀ v, m'.get v ≠ none → top.get v = none →
      v = l.var ∨ InCnf (residual cnf top.toP) v) ?_ fuel (l :: top) ⟨h0, ?_⟩
  · exact this.2
  · intro m' u ⟨hext, hrel⟩ ⟨c, hc, hu⟩
    obtain ⟨hnt, huc, hun, _⟩ := unitOf_some hu
    refine ⟨?_, ?_⟩
    · rw [toP_cons]; exact hext.trans (PExt_set _ hun)
    · intro v hv hv0
      rw [NModel.get_cons] at hv
      by_cases e : u.var = v
      · subst e
        right
        refine InCnf_residual.2 ⟨c, hc, ?_, u, huc, ?_, rfl⟩
        · cases h' : c.any (litTrue top.toP)
          · rfl
          · obtain ⟨l', hl', hlt⟩ := List.any_eq_true.1 h'
            have : c.any (litTrue m'.toP) = true := by
              refine List.any_eq_true.2 ⟨l', hl', ?_⟩
              simp only [litTrue, beq_iff_eq] at hlt ⊢
              exact hext _ _ hlt
            rw [hnt] at this; cases this
        · have : top.toP u.var = none := hv0
          simp [litFalse, this]
      · simp only [e, if_false] at hv
        exact hrel v hv hv0
  · intro v hv hv0
    rw [NModel.get_cons] at hv
    by_cases e : l.var = v
    · exact Or.inl e.symm
    · simp only [e, if_false] at hv
      exact absurd hv0 hv

/-! ## irrelevant variables -/

theorem unitOf_of {m : NModel} {c : Clause} {u : Lit} (hnt : c.any (litTrue m.toP) = false) (huc : u ∈ c)
    (hun : m.toP u.var = none) (huniq : ∀ l ∈ c, m.toP l.var = none → l = u) : unitOf m c = some u := by
  unfold unitOf
  rw [if_neg (by simp [hnt])]
  have hu : u ∈ c.filter (litUnset m.toP) := by rw [List.mem_filter, litUnset_iff]; exact ⟨huc, hun⟩
  have hall : ∀ l ∈ c.filter (litUnset m.toP), l = u := by
    intro l hl
    rw [List.mem_filter, litUnset_iff] at hl
    exact huniq l hl.1 hl.2
  cases hf : c.filter (litUnset m.toP) with
  | nil => rw [hf] at hu; cases hu
  | cons x rest =>
    rw [hf] at hall
    have hx : x = u := hall x List.mem_cons_self
    subst hx
    have : rest.all (fun l => decide (l = x)) = true := by
      rw [List.all_eq_true]
      intro l hl
      simp [hall l (List.mem_cons_of_mem _ hl)]
    simp [this]

section
variable {cnf : Cnf} {m : PModel} {v : Nat} (b : Bool) (hv : m v = none)
  (hirr : ¬ InCnf (residual cnf m) v)
include hv hirr

/-- a clause that mentions an irrelevant unassigned variable is already satisfied -/
theorem irrelevant_clause {c : Clause} (hc : c ∈ cnf) {l : Lit} (hl : l ∈ c) (hlv : l.var = v) :
    c.any (litTrue m) = true := by
  cases h : c.any (litTrue m)
  · exfalso
    apply hirr
    refine InCnf_residual.2 ⟨c, hc, h, l, hl, ?_, hlv⟩
    simp [litFalse, hlv, hv]
  · rfl

theorem anyTrue_irrelevant {c : Clause} (hc : c ∈ cnf) :
    c.any (litTrue (m.set v b)) = c.any (litTrue m) := by
  cases h : c.any (litTrue m)
  · cases h' : c.any (litTrue (m.set v b))
    · rfl
    · exfalso
      obtain ⟨l, hl, hlt⟩ := List.any_eq_true.1 h'
      by_cases e : l.var = v
      · have := irrelevant_clause hv hirr hc hl e
        rw [h] at this; cases this
      · have : litTrue m l = true := by
          simp only [litTrue, PModel.set, e, if_false] at hlt ⊢; exact hlt
        have h2 : c.any (litTrue m) = true := List.any_eq_true.2 ⟨l, hl, this⟩
        rw [h] at h2; cases h2
  · obtain ⟨l, hl, hlt⟩ := List.any_eq_true.1 h
    refine List.any_eq_true.2 ⟨l, hl, ?_⟩
    simp only [litTrue, beq_iff_eq] at hlt ⊢
    exact PExt_set b hv _ _ hlt

omit hv hirr in
theorem irrelevant_sub {c : Clause} {cs : Cnf} (h : ¬ InCnf (residual (c :: cs) m) v) :
    ¬ InCnf (residual cs m) v := by
  intro hh
  apply h
  obtain ⟨c', hc', h1, h2⟩ := InCnf_residual.1 hh
  exact InCnf_residual.2 ⟨c', List.mem_cons_of_mem _ hc', h1, h2⟩

end

/-- deciding an unassigned variable outside the residual does not change the residual -/
theorem residual_irrelevant {m : PModel} {v : Nat} (b : Bool) (hv : m v = none) :
    ∀ {cnf : Cnf}, ¬ InCnf (residual cnf m) v → residual cnf (m.set v b) = residual cnf m
  | [], _ => rfl
  | c :: cs, hirr => by
    have ih := residual_irrelevant b hv (irrelevant_sub hirr)
    rw [residual_cons, residual_cons, anyTrue_irrelevant b hv hirr List.mem_cons_self, ih]
    cases hc : c.any (litTrue m)
    · simp only [Bool.false_eq_true, if_false, List.cons.injEq, and_true]
      apply List.filter_congr
      intro l hl
      have e : l.var ≠ v := by
        intro e
        have := irrelevant_clause hv hirr List.mem_cons_self hl e
        rw [hc] at this; cases this
      simp [litFalse, PModel.set, e]
    · rfl

/-! ## the instance -/

theorem naive_decide_unsat {cnf : Cnf} {s : NaiveState} (hI : NaiveInv cnf s) {m : NModel} {ms : List NModel}
    (hs : s.stack = m :: ms) {l : Lit} (hl : m.get l.var = none) (hu : (naiveDecide s l).1 = .unsat) :
    (naiveDecide s l).2 = s ∧ UnsatUnder cnf (m.toP.set l.var l.pol) := by
  have htop := top_of_stack hs
  rw [naiveDecide_unset (by rw [htop]; exact hl)] at hu ⊢
  rw [htop, hI.cnf_eq] at hu ⊢
  split at hu
  · rename_i hc
    rw [if_pos hc]
    refine ⟨rfl, ?_⟩
    rw [← toP_cons]
    exact conflict_unsat (fun a ha hsat => propagate_sound cnf _ _ ha hsat) hc
  · simp only at hu
    split at hu <;> cases hu

theorem naive_decide_ok {cnf : Cnf} {s : NaiveState} (hI : NaiveInv cnf s) {m : NModel} {ms : List NModel}
    (hs : s.stack = m :: ms) {l : Lit} (hl : m.get l.var = none) (hu : (naiveDecide s l).1 ≠ .unsat) :
    hasConflict cnf (propagate cnf (propFuel cnf) (l :: m)) = false ∧
    (naiveDecide s l).2 = { s with stack := propagate cnf (propFuel cnf) (l :: m) :: s.stack } ∧
    ((naiveDecide s l).1 = .sat ↔
      cnf.all (fun c => c.any (litTrue (propagate cnf (propFuel cnf) (l :: m)).toP)) = true) := by
  have htop := top_of_stack hs
  rw [naiveDecide_unset (by rw [htop]; exact hl)] at hu ⊢
  rw [htop, hI.cnf_eq] at hu ⊢
  split at hu
  · exact absurd rfl hu
  · rename_i hc
    rw [if_neg hc]
    refine ⟨by simpa using hc, rfl, ?_⟩
    split
    · rename_i h
      have h' : cnf.all (fun c => c.any (litTrue (propagate cnf (propFuel cnf) (l :: m)).toP)) = true := h
      simp [h']
    · rename_i h
      have h' : ¬ cnf.all (fun c => c.any (litTrue (propagate cnf (propFuel cnf) (l :: m)).toP)) = true := h
      simp [h']

theorem naiveInv_push {cnf : Cnf} {s : NaiveState} (hI : NaiveInv cnf s) {m : NModel} {ms : List NModel}
    (hs : s.stack = m :: ms) {l : Lit} (hl : m.get l.var = none)
    (hnc : hasConflict cnf (propagate cnf (propFuel cnf) (l :: m)) = false) :
    NaiveInv cnf { s with stack := propagate cnf (propFuel cnf) (l :: m) :: s.stack } where
  cnf_eq := hI.cnf_eq
  chain := by
    have hc := hI.chain
    simp only [hs] at hc ⊢
    refine ⟨?_, hc⟩
    have h0 : PExt m.toP (NModel.toP (l :: m)) := by rw [toP_cons]; exact PExt_set _ hl
    exact h0.trans (propagate_ext cnf _ _)
  noconf := by
    intro m' hm'
    rcases List.mem_cons.1 hm' with e | e
    · rw [e]; exact hnc
    · exact hI.noconf m' e
  fix := by
    intro m' hm'
    simp only [hs] at hm'
    rw [List.dropLast_cons_of_ne_nil (List.cons_ne_nil _ _)] at hm'
    rcases List.mem_cons.1 hm' with e | e
    · rw [e]; exact propagate_fix' cnf _
    · exact hI.fix m' (by rw [hs]; exact e)

theorem naiveInv_pop {cnf : Cnf} {s : NaiveState} (hI : NaiveInv cnf s) {m1 m0 : NModel} {ms : List NModel}
    (hs : s.stack = m1 :: m0 :: ms) : NaiveInv cnf { s with stack := s.stack.drop 1 } where
  cnf_eq := hI.cnf_eq
  chain := by have := hI.chain; simp only [hs] at this ⊢; exact this.2
  noconf := by
    intro m' hm'
    simp only [hs, List.drop_succ_cons, List.drop_zero] at hm'
    exact hI.noconf m' (by rw [hs]; exact List.mem_cons_of_mem _ hm')
  fix := by
    intro m' hm'
    simp only [hs, List.drop_succ_cons, List.drop_zero] at hm'
    apply hI.fix m'
    rw [hs, List.dropLast_cons_of_ne_nil (List.cons_ne_nil _ _)]
    exact List.mem_cons_of_mem _ hm'

/-- `NaiveSolver` satisfies the solver specification, for every CNF -/
def naiveSpec (cnf : Cnf) : SolverSpec cnf NaiveSolver where
  Inv := NaiveInv cnf
  frames := fun s => s.stack.map (naiveFrame cnf)
  Var := fun _ => True
  obs_sat := by
    intro s f rest hI hfr
    obtain ⟨m, ms, hs, rfl, rfl⟩ := frames_cons hfr
    show naiveIsSat s = _
    simp [naiveIsSat, top_of_stack hs, hI.cnf_eq, naiveFrame]
  obs_hash := by
    intro s f rest hI hfr
    obtain ⟨m, ms, hs, rfl, rfl⟩ := frames_cons hfr
    show residual s.cnf s.top.toP = _
    simp [top_of_stack hs, hI.cnf_eq, naiveFrame]
  obs_set := by
    intro s f rest hI hfr v
    obtain ⟨m, ms, hs, rfl, rfl⟩ := frames_cons hfr
    show (s.top.get v).isSome = _
    simp [top_of_stack hs, naiveFrame, NModel.toP]
  sat_sound := by
    intro s f rest hI hfr hsat a ha
    obtain ⟨m, ms, hs, rfl, rfl⟩ := frames_cons hfr
    exact allTrue_sat hsat ha
  total_sound := by
    intro s f rest hI hfr htot a ha
    obtain ⟨m, ms, hs, rfl, rfl⟩ := frames_cons hfr
    exact noConflict_total_sat (hI.noconf m (by rw [hs]; exact List.mem_cons_self)) htot ha
  diff_nodup := by
    intro s f1 f0 rest hI hfr
    exact naiveDifference_nodup s
  diff_sound := by
    intro s f1 f0 rest hI hfr l hl
    obtain ⟨m1, ms, hs, rfl, hrest⟩ := frames_cons hfr
    cases ms with
    | nil => cases hrest
    | cons m0 ms' =>
      simp only [List.map_cons] at hrest
      obtain ⟨rfl, _⟩ := List.cons.inj hrest
      have hl' := mem_naiveDifference.1 hl
      rw [top_of_stack hs, prev_of_stack hs] at hl'
      refine ⟨?_, hl'.2.1⟩
      have hch := hI.chain
      simp only [hs] at hch
      show m0.get l.var = none
      cases h0 : m0.get l.var with
      | none => rfl
      | some b' =>
        have := hch.1 _ _ h0
        have e : m1.get l.var = some b' := this
        rw [hl'.2.1] at e
        cases e
        exact absurd h0 hl'.2.2
  diff_complete := by
    intro s f1 f0 rest hI hfr v b h1 h0
    obtain ⟨m1, ms, hs, rfl, hrest⟩ := frames_cons hfr
    cases ms with
    | nil => cases hrest
    | cons m0 ms' =>
      simp only [List.map_cons] at hrest
      obtain ⟨rfl, _⟩ := List.cons.inj hrest
      apply mem_naiveDifference.2
      rw [top_of_stack hs, prev_of_stack hs]
      have h1' : m1.get v = some b := h1
      have h0' : m0.get v = none := h0
      refine ⟨?_, h1', by rw [h0']; simp⟩
      obtain ⟨l, hl, hlv, _⟩ := NModel.get_some_mem h1'
      rw [← hlv]
      exact foldl_bound_mem m1 _ l hl
  decide_unsat := by
    intro s f0 rest l hI hfr _ hl hu
    obtain ⟨m, ms, hs, rfl, rfl⟩ := frames_cons hfr
    obtain ⟨h1, h2⟩ := naive_decide_unsat hI hs hl hu
    have h1' : (NaiveSolver.decide s l).2 = s := h1
    rw [h1']
    exact ⟨hI, by rw [hs]; rfl, h2⟩
  decide_ok := by
    intro s f0 rest l hI hfr _ hl hu
    obtain ⟨m, ms, hs, rfl, rfl⟩ := frames_cons hfr
    obtain ⟨hnc, h2, h3⟩ := naive_decide_ok hI hs hl hu
    have h2' : (NaiveSolver.decide s l).2 = _ := h2
    refine ⟨naiveFrame cnf (propagate cnf (propFuel cnf) (l :: m)), ?_, ?_, ?_, ?_, ?_, h3⟩
    · rw [h2']; exact naiveInv_push hI hs hl hnc
    · rw [h2']; simp only [hs]; rfl
    · show PExt (m.toP.set l.var l.pol) _
      rw [← toP_cons]; exact propagate_ext cnf _ _
    · intro v b hv _ a ha hsat
      have ha' : Extends a (NModel.toP (l :: m)) := by rw [toP_cons]; exact ha
      have := propagate_sound cnf (propFuel cnf) (l :: m) ha' hsat v b hv
      simp [litSat, this]
    · intro v hv h0
      exact propagate_relevant cnf _ m l hl v hv h0
  pop_ok := by
    intro s f1 f0 rest hI hfr _
    obtain ⟨m1, ms, hs, rfl, hrest⟩ := frames_cons hfr
    cases ms with
    | nil => cases hrest
    | cons m0 ms' =>
      refine ⟨naiveInv_pop hI hs, ?_⟩
      show (s.stack.drop 1).map (naiveFrame cnf) = _
      rw [hrest, hs]; rfl

/-! ## the hash hypotheses and `new` -/

theorem naive_modelOf (cnf : Cnf) (s : NaiveState) : (naiveSpec cnf).modelOf s = s.top.toP := by
  have e : (naiveSpec cnf).frames s = s.stack.map (naiveFrame cnf) := rfl
  unfold SolverSpec.modelOf
  rw [e]
  cases hs : s.stack with
  | nil => simp [NaiveState.top, hs, toP_nil]
  | cons m ms => simp [NaiveState.top, hs, naiveFrame]

/-- the cache key of the naive solver IS the residual formula -/
theorem naive_hashSound (cnf : Cnf) : HashSound (naiveSpec cnf) := by
  intro (s1 : NaiveState) (s2 : NaiveState) h1 h2 hk
  have hk' : residual s1.cnf s1.top.toP = residual s2.cnf s2.top.toP := hk
  rw [naive_modelOf, naive_modelOf]
  rw [(h1 : NaiveInv cnf s1).cnf_eq, (h2 : NaiveInv cnf s2).cnf_eq] at hk'
  exact hk'

theorem propagate_of_fix {cnf : Cnf} {m : NModel} (h : findUnit m cnf = none) :
    ∀ fuel, propagate cnf fuel m = m
  | 0 => rfl
  | fuel + 1 => by unfold propagate; rw [h]

theorem all_congr_mem {α : Type} {p q : α → Bool} : ∀ {l : List α}, (∀ x ∈ l, p x = q x) → l.all p = l.all q
  | [], _ => rfl
  | x :: l, h => by
    simp only [List.all_cons, h x List.mem_cons_self,
      all_congr_mem fun y hy => h y (List.mem_cons_of_mem _ hy)]

/-- deciding an irrelevant variable on a propagation-closed, conflict-free model: nothing happens -/
theorem irrelevant_push {cnf : Cnf} {m : NModel} {v : Nat} (b : Bool) (hv : m.get v = none)
    (hirr : ¬ InCnf (residual cnf m.toP) v) (hfix : findUnit m cnf = none)
    (hnc : hasConflict cnf m = false) :
    findUnit (⟨v, b⟩ :: m) cnf = none ∧ hasConflict cnf (⟨v, b⟩ :: m) = false := by
  have hv' : m.toP v = none := hv
  have hext : PExt m.toP (NModel.toP (⟨v, b⟩ :: m)) := by rw [toP_cons]; exact PExt_set _ hv'
  constructor
  · apply findUnit_none_of
    intro c hc
    cases hu : unitOf (⟨v, b⟩ :: m) c with
    | none => rfl
    | some u =>
      exfalso
      obtain ⟨hnt, huc, hun, huniq⟩ := unitOf_some hu
      rw [toP_cons] at hnt hun huniq
      have hnt' : c.any (litTrue m.toP) = false := by
        rw [← anyTrue_irrelevant b hv' hirr hc]; exact hnt
      -- no literal of `c` is on `v`
      have hnov : ∀ l ∈ c, l.var ≠ v := by
        intro l hl e
        have := irrelevant_clause hv' hirr hc hl e
        rw [hnt'] at this; cases this
      have hset : ∀ l ∈ c, (m.toP.set v b) l.var = m.toP l.var := by
        intro l hl; simp [PModel.set, hnov l hl]
      have : unitOf m c = some u := by
        apply unitOf_of hnt' huc
        · rw [← hset u huc]; exact hun
        · intro l hl hlu
          exact huniq l hl (by rw [hset l hl]; exact hlu)
      rw [findUnit_none hfix c hc] at this
      cases this
  · cases hcf : hasConflict cnf (⟨v, b⟩ :: m)
    · rfl
    · exfalso
      obtain ⟨c, hc, hfal⟩ := List.any_eq_true.1 hcf
      rw [toP_cons] at hfal
      simp only [clauseFalsified, List.all_eq_true] at hfal
      -- under `m` the clause is not falsified
      have hnf : clauseFalsified m.toP c = false := by
        cases h : clauseFalsified m.toP c
        · rfl
        · have : hasConflict cnf m = true := List.any_eq_true.2 ⟨c, hc, h⟩
          rw [hnc] at this; cases this
      have : ∃ l ∈ c, litFalse m.toP l = false := by
        apply Classical.byContradiction
        intro hno
        have : clauseFalsified m.toP c = true := by
          simp only [clauseFalsified, List.all_eq_true]
          intro l hl
          cases h : litFalse m.toP l
          · exact absurd ⟨l, hl, h⟩ hno
          · rfl
        rw [hnf] at this; cases this
      obtain ⟨l, hl, hlf⟩ := this
      have hlf' := hfal l hl
      have hlv : l.var = v := by
        apply Classical.byContradiction
        intro e
        simp only [litFalse, PModel.set, e, if_false] at hlf' hlf
        rw [hlf] at hlf'; cases hlf'
      -- so `c` is satisfied under `m`, hence under `m + v`; but all its literals are false there
      obtain ⟨l', hl', hlt⟩ := List.any_eq_true.1 (irrelevant_clause hv' hirr hc hl hlv)
      have h1 : litTrue (m.toP.set v b) l' = true := by
        simp only [litTrue, beq_iff_eq] at hlt ⊢
        exact PExt_set b hv' _ _ hlt
      have h2 := hfal l' hl'
      simp only [litTrue, litFalse, beq_iff_eq] at h1 h2
      rw [h1] at h2
      cases hp : l'.pol <;> simp [hp] at h2

theorem naive_freeDecide (cnf : Cnf) : FreeDecide (naiveSpec cnf) := by
  intro (s : NaiveState) f0 rest v b hI hfr hrest _ hv hirr
  have hI' : NaiveInv cnf s := hI
  obtain ⟨m, ms, hs, rfl, rfl⟩ := frames_cons hfr
  have hms : ms ≠ [] := fun e => hrest (by rw [e]; rfl)
  have hfix : findUnit m cnf = none := by
    apply hI'.fix
    rw [hs, List.dropLast_cons_of_ne_nil hms]
    exact List.mem_cons_self
  have hnc := hI'.noconf m (by rw [hs]; exact List.mem_cons_self)
  have hv' : m.get v = none := hv
  obtain ⟨hfix', hnc'⟩ := irrelevant_push b hv' hirr hfix hnc
  have htop := top_of_stack hs
  have hdec : NaiveSolver.decide s ⟨v, b⟩ =
      (if naiveIsSat { s with stack := (⟨v, b⟩ :: m) :: s.stack } then .sat else .unknown,
       { s with stack := (⟨v, b⟩ :: m) :: s.stack }) := by
    show naiveDecide s ⟨v, b⟩ = _
    rw [naiveDecide_unset (by rw [htop]; exact hv'), htop, hI'.cnf_eq, propagate_of_fix hfix', if_neg (by simp [hnc'])]
    rfl
  rw [hdec]
  refine ⟨by simp only; split <;> simp, ?_⟩
  intro f1 rest' hfr1
  have hfr1' : (((⟨v, b⟩ : Lit) :: m) :: s.stack).map (naiveFrame cnf) = f1 :: rest' := hfr1
  simp only [List.map_cons] at hfr1'
  obtain ⟨rfl, _⟩ := List.cons.inj hfr1'
  have hv'' : m.toP v = none := hv
  refine ⟨?_, ?_, ?_⟩
  · show NModel.toP (⟨v, b⟩ :: m) = _
    rw [toP_cons]; rfl
  · show residual cnf (NModel.toP (⟨v, b⟩ :: m)) = residual cnf m.toP
    rw [toP_cons]; exact residual_irrelevant b hv'' hirr
  · show cnf.all (fun c => c.any (litTrue (NModel.toP (⟨v, b⟩ :: m)))) = cnf.all (fun c => c.any (litTrue m.toP))
    rw [toP_cons]
    exact all_congr_mem fun c hc => anyTrue_irrelevant b hv'' hirr hc

theorem extends_empty (a : Assign) : Extends a (NModel.toP []) := by
  intro x b h; cases h

theorem naive_newSpec (cnf : Cnf) (numVars : Nat) : NewSpec (naiveSpec cnf) cnf numVars where
  none_unsat := by
    intro h a
    have h' : naiveNew cnf numVars = none := h
    unfold naiveNew at h'
    simp only at h'
    split at h'
    · rename_i hc
      exact conflict_unsat (m := []) (fun a ha hsat => propagate_sound cnf _ _ ha hsat) hc a (extends_empty a)
    · cases h'
  some_ok := by
    intro s h
    have h' : naiveNew cnf numVars = some s := h
    unfold naiveNew at h'
    simp only at h'
    split at h'
    · cases h'
    · rename_i hc
      cases h'
      have hnc : hasConflict cnf (propagate cnf (propFuel cnf) []) = false := by simpa using hc
      refine ⟨naiveFrame cnf (propagate cnf (propFuel cnf) []), naiveFrame cnf [], ?_, rfl, fun _ => rfl, ?_⟩
      · refine ⟨rfl, ⟨propagate_ext cnf _ _, trivial⟩, ?_, ?_⟩
        · intro m hm
          simp only [List.mem_cons, List.not_mem_nil, or_false] at hm
          rcases hm with e | e
          · rw [e]; exact hnc
          · -- a conflict under the empty model is a conflict under every model
            rw [e]
            cases hcf : hasConflict cnf []
            · rfl
            · exfalso
              obtain ⟨c, hcm, hfal⟩ := List.any_eq_true.1 hcf
              have : hasConflict cnf (propagate cnf (propFuel cnf) []) = true := by
                refine List.any_eq_true.2 ⟨c, hcm, ?_⟩
                simp only [clauseFalsified, List.all_eq_true] at hfal ⊢
                intro l hl
                have := hfal l hl
                simp only [litFalse, beq_iff_eq] at this ⊢
                exact propagate_ext cnf _ [] _ _ this
              rw [hnc] at this; cases this
        · intro m hm
          have hm' : m ∈ [propagate cnf (propFuel cnf) []] := hm
          rw [List.mem_singleton.1 hm']; exact propagate_fix' cnf _
      · intro v b hv a hsat
        exact propagate_sound cnf _ [] (extends_empty a) hsat v b hv

/-! ## the unconditional theorem for the reference compiler -/

theorem cnfNumVars_ge (cs : Cnf) : ∀ (n0 : Nat),
    n0 ≤ cs.foldl (fun m c => c.foldl (fun m l => max m (l.var + 1)) m) n0 := by
  induction cs with
  | nil => intro n0; exact Nat.le_refl _
  | cons c cs ih => intro n0; exact Nat.le_trans (foldl_bound_ge c n0) (ih _)

theorem cnfNumVars_mem (cs : Cnf) : ∀ (n0 : Nat), ∀ c ∈ cs, ∀ l ∈ c,
    l.var < cs.foldl (fun m c => c.foldl (fun m l => max m (l.var + 1)) m) n0 := by
  induction cs with
  | nil => intro _ c hc; cases hc
  | cons c' cs ih =>
    intro n0 c hc l hl
    rcases List.mem_cons.1 hc with e | e
    · subst e
      exact Nat.lt_of_lt_of_le (foldl_bound_mem c n0 l hl) (cnfNumVars_ge cs _)
    · exact ih _ c e l hl

theorem lt_cnfNumVars {cnf : Cnf} {v : Nat} (h : InCnf cnf v) : v < cnfNumVars cnf := by
  obtain ⟨c, hc, l, hl, e⟩ := h
  rw [← e]
  exact cnfNumVars_mem cnf 0 c hc l hl

/-- **non-vacuity / reference compiler**: for EVERY CNF, `naiveCompile` (naive solver, standard
store, identity order) returns a diagram that denotes the CNF, decides no variable twice on
a path, and is the false constant iff the CNF is unsatisfiable — no hypotheses. -/
theorem naiveCompile_correct (cnf : Cnf) :
    (∀ a, (naiveCompile cnf).eval a = cnfSat a cnf) ∧ (naiveCompile cnf).free ∧
    (naiveCompile cnf = .fls ↔ ∀ a, cnfSat a cnf = false) := by
  have h := compileTopdown_post (naiveSpec cnf) standardStore_sound id (naive_hashSound cnf)
    (naive_freeDecide cnf) cnf (cnfNumVars cnf) (naive_newSpec cnf _)
    (fun v hv => ⟨v, lt_cnfNumVars hv, rfl⟩) (fun _ _ => trivial) () trivial
  exact ⟨h.1, h.2.1, h.2.2.1⟩

end TopDown
