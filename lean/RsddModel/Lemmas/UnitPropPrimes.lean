import RsddModel.Lemmas.UnitPropHash
/-!
# Primes, the weights of `SATSolver::new`, and unique factorisation (C09, hash clause)
-/
namespace UnitProp
open Spec

/-! ## primes -/

def Prime (p : Nat) : Prop := 2 ≤ p ∧ ∀ d, d ∣ p → d = 1 ∨ d = p

theorem isPrime_iff (n : Nat) : isPrime n = true ↔ Prime n := by
  unfold isPrime Prime
  simp only [Bool.and_eq_true, decide_eq_true_eq, List.all_eq_true, List.mem_range'_1, bne_iff_ne, ne_eq]
  constructor
  · rintro ⟨h2, hall⟩
    refine ⟨h2, ?_⟩
    intro d hd
    by_cases h1 : d = 1
    · exact .inl h1
    · by_cases hn : d = n
      · exact .inr hn
      · exfalso
        have hpos : 0 < d := Nat.pos_of_dvd_of_pos hd (by omega)
        have hle : d ≤ n := Nat.le_of_dvd (by omega) hd
        exact hall d ⟨by omega, by omega⟩ (Nat.mod_eq_zero_of_dvd hd)
  · rintro ⟨h2, hall⟩
    refine ⟨h2, ?_⟩
    intro d ⟨hd2, hdn⟩ hmod
    rcases hall d (Nat.dvd_of_mod_eq_zero hmod) with h | h <;> omega

theorem exists_prime_dvd : ∀ m, 2 ≤ m → ∃ p, Prime p ∧ p ∣ m := by
  intro m
  induction m using Nat.strongRecOn with
  | _ m ih =>
    intro hm
    by_cases hp : Prime m
    · exact ⟨m, hp, Nat.dvd_refl m⟩
    · have : ∃ d, d ∣ m ∧ d ≠ 1 ∧ d ≠ m := by
        apply Classical.byContradiction
        intro hne
        apply hp
        refine ⟨hm, ?_⟩
        intro d hd
        apply Classical.byContradiction
        intro h
        exact hne ⟨d, hd, fun e => h (.inl e), fun e => h (.inr e)⟩
      obtain ⟨d, hd, h1, hne⟩ := this
      have hpos : 0 < d := Nat.pos_of_dvd_of_pos hd (by omega)
      have hle : d ≤ m := Nat.le_of_dvd (by omega) hd
      obtain ⟨p, hpp, hpd⟩ := ih d (by omega) (by omega)
      exact ⟨p, hpp, Nat.dvd_trans hpd hd⟩

theorem fact_pos : ∀ n, 0 < fact n
  | 0 => by simp [fact]
  | n + 1 => by unfold fact; exact Nat.mul_pos (by omega) (fact_pos n)

theorem dvd_fact : ∀ n d, 1 ≤ d → d ≤ n → d ∣ fact n
  | 0, d, h1, h2 => by omega
  | n + 1, d, h1, h2 => by
    unfold fact
    by_cases e : d = n + 1
    · rw [e]; exact Nat.dvd_mul_right _ _
    · exact Nat.dvd_trans (dvd_fact n d h1 (by omega)) (Nat.dvd_mul_left _ _)

/-- Euclid -/
theorem exists_prime_gt (n : Nat) : ∃ p, Prime p ∧ n < p ∧ p ≤ fact n + 1 := by
  obtain ⟨p, hp, hd⟩ := exists_prime_dvd (fact n + 1) (by have := fact_pos n; omega)
  refine ⟨p, hp, ?_, Nat.le_of_dvd (by omega) hd⟩
  apply Classical.byContradiction
  intro hle
  have h1 : p ∣ fact n := dvd_fact n p (by have := hp.1; omega) (by omega)
  have h2 : p ∣ 1 := (Nat.dvd_add_right h1).mp hd
  have := Nat.dvd_one.mp h2
  have := hp.1
  omega

theorem searchPrime_spec : ∀ fuel c, (∃ p, Prime p ∧ c ≤ p ∧ p < c + fuel) →
    Prime (searchPrime fuel c) ∧ c ≤ searchPrime fuel c
  | 0, c, ⟨p, _, h1, h2⟩ => by omega
  | fuel + 1, c, ⟨p, hp, h1, h2⟩ => by
    unfold searchPrime
    by_cases hc : isPrime c = true
    · rw [if_pos hc]; exact ⟨(isPrime_iff c).mp hc, Nat.le_refl _⟩
    · rw [if_neg hc]
      have hne : p ≠ c := fun e => hc ((isPrime_iff c).mpr (e ▸ hp))
      have := searchPrime_spec fuel (c + 1) ⟨p, hp, by omega, by omega⟩
      exact ⟨this.1, by omega⟩

theorem nextPrime_spec (n : Nat) : Prime (nextPrime n) ∧ n < nextPrime n := by
  obtain ⟨p, hp, h1, h2⟩ := exists_prime_gt n
  have := searchPrime_spec (fact n + 1) (n + 1) ⟨p, hp, by omega, by omega⟩
  exact ⟨this.1, this.2⟩

theorem Prime.dvd_mul {p a b : Nat} (hp : Prime p) (h : p ∣ a * b) : p ∣ a ∨ p ∣ b := by
  rcases hp.2 _ (Nat.gcd_dvd_left p a) with h1 | h1
  · exact .inr (Nat.Coprime.dvd_of_dvd_mul_left (Nat.coprime_iff_gcd_eq_one.mpr h1) h)
  · exact .inl (h1 ▸ Nat.gcd_dvd_right p a)

theorem Prime.dvd_bigp {α : Type} {p : Nat} (hp : Prime p) {is : List α} {f : α → Nat}
    (h : p ∣ bigp is f) : ∃ i, i ∈ is ∧ p ∣ f i := by
  induction is with
  | nil =>
    have := Nat.dvd_one.mp h
    have := hp.1
    omega
  | cons a t ih =>
    rw [bigp_cons] at h
    rcases hp.dvd_mul h with h | h
    · exact ⟨a, by simp, h⟩
    · obtain ⟨i, hi, hd⟩ := ih h
      exact ⟨i, by simp [hi], hd⟩

theorem dvd_bigp {α : Type} {is : List α} {f : α → Nat} {i : α} (hi : i ∈ is) : f i ∣ bigp is f := by
  induction is with
  | nil => cases hi
  | cons a t ih =>
    rw [bigp_cons]
    rcases List.mem_cons.mp hi with rfl | hi
    · exact Nat.dvd_mul_right _ _
    · exact Nat.dvd_trans (ih hi) (Nat.dvd_mul_left _ _)

/-! ## the weights -/

/-- all weights of a list of weighted clauses, in order -/
def allWeights (cs : List WClause) : List Nat := cs.flatten.map (·.2)

theorem weighClause_spec : ∀ (c : List Lit) (n : Nat),
    (weighClause c n).1.map (·.1) = c
    ∧ n ≤ (weighClause c n).2
    ∧ ((weighClause c n).1.map (·.2)).Pairwise (· < ·)
    ∧ ∀ w, w ∈ (weighClause c n).1.map (·.2) → n < w ∧ w ≤ (weighClause c n).2 ∧ Prime w
  | [], n => by simp [weighClause]
  | l :: ls, n => by
    obtain ⟨hp, hlt⟩ := nextPrime_spec n
    obtain ⟨i1, i2, i3, i4⟩ := weighClause_spec ls (nextPrime n)
    unfold weighClause
    simp only [List.map_cons]
    refine ⟨by rw [i1], by omega, ?_, ?_⟩
    · refine List.pairwise_cons.mpr ⟨fun w hw => (i4 w hw).1, i3⟩
    · intro w hw
      rcases List.mem_cons.mp hw with rfl | hw
      · exact ⟨hlt, i2, hp⟩
      · have := i4 w hw; exact ⟨by omega, this.2.1, this.2.2⟩

theorem weighClauses_spec : ∀ (cs : List (List Lit)) (n : Nat),
    (weighClauses cs n).map (fun c => c.map (·.1)) = cs
    ∧ (allWeights (weighClauses cs n)).Pairwise (· < ·)
    ∧ ∀ w, w ∈ allWeights (weighClauses cs n) → n < w ∧ Prime w
  | [], n => by simp [weighClauses, allWeights]
  | c :: cs, n => by
    obtain ⟨c1, c2, c3, c4⟩ := weighClause_spec c n
    obtain ⟨i1, i2, i3⟩ := weighClauses_spec cs (weighClause c n).2
    unfold weighClauses
    simp only [List.map_cons, allWeights, List.flatten_cons, List.map_append]
    refine ⟨by rw [c1, i1], ?_, ?_⟩
    · rw [List.pairwise_append]
      refine ⟨c3, i2, ?_⟩
      intro a ha b hb
      have := (c4 a ha).2.1
      have := (i3 b hb).1
      omega
    · intro w hw
      rcases List.mem_append.mp hw with hw | hw
      · exact ⟨(c4 w hw).1, (c4 w hw).2.2⟩
      · have := i3 w hw; exact ⟨by omega, this.2⟩

/-- the weights are pairwise different primes -/
structure WeightsOK (clauses : List WClause) : Prop where
  nodup : (allWeights clauses).Nodup
  prime : ∀ w, w ∈ allWeights clauses → Prime w

theorem weighClauses_ok (cs : List (List Lit)) (n : Nat) : WeightsOK (weighClauses cs n) := by
  obtain ⟨_, h2, h3⟩ := weighClauses_spec cs n
  refine ⟨?_, fun w hw => (h3 w hw).2⟩
  rw [List.nodup_iff_pairwise_ne]
  exact h2.imp (fun h => Nat.ne_of_lt h)

theorem mem_allWeights {clauses : List WClause} {c : WClause} {lw : Lit × Nat}
    (hc : c ∈ clauses) (hl : lw ∈ c) : lw.2 ∈ allWeights clauses := by
  unfold allWeights
  exact List.mem_map.mpr ⟨lw, List.mem_flatten.mpr ⟨c, hc, hl⟩, rfl⟩

theorem nodup_map_inj {α β : Type} {f : α → β} : ∀ {l : List α}, (l.map f).Nodup →
    ∀ {a b}, a ∈ l → b ∈ l → f a = f b → a = b
  | [], _, _, _, ha, _, _ => by cases ha
  | x :: t, h, a, b, ha, hb, e => by
    rw [List.map_cons, List.nodup_cons] at h
    rcases List.mem_cons.mp ha with rfl | ha' <;> rcases List.mem_cons.mp hb with rfl | hb'
    · rfl
    · exact absurd (List.mem_map.mpr ⟨b, hb', e.symm⟩) h.1
    · exact absurd (List.mem_map.mpr ⟨a, ha', e⟩) h.1
    · exact nodup_map_inj h.2 ha' hb' e

/-- a weight identifies its clause and its literal occurrence -/
theorem weight_inj : ∀ {clauses : List WClause}, (allWeights clauses).Nodup →
    ∀ {c c' : WClause} {lw lw' : Lit × Nat}, c ∈ clauses → c' ∈ clauses → lw ∈ c → lw' ∈ c' →
      lw.2 = lw'.2 → c = c' ∧ lw = lw'
  | [], _, _, _, _, _, hc, _, _, _, _ => by cases hc
  | d :: L, hnd, c, c', lw, lw', hc, hc', hl, hl', e => by
    unfold allWeights at hnd
    rw [List.flatten_cons, List.map_append, List.nodup_append] at hnd
    obtain ⟨h1, h2, h3⟩ := hnd
    rcases List.mem_cons.mp hc with rfl | hcL <;> rcases List.mem_cons.mp hc' with rfl | hcL'
    · exact ⟨rfl, nodup_map_inj h1 hl hl' e⟩
    · exact absurd e (h3 _ (List.mem_map.mpr ⟨lw, hl, rfl⟩) _ (mem_allWeights hcL' hl'))
    · exact absurd e.symm (h3 _ (List.mem_map.mpr ⟨lw', hl', rfl⟩) _ (mem_allWeights hcL hl))
    · exact weight_inj (clauses := L) h2 hcL hcL' hl hl' e

/-! ## unique factorisation of the hash -/

theorem getD_mem_of_lt {clauses : List WClause} {i : Nat} (hi : i < clauses.length) :
    clauses.getD i [] ∈ clauses := by
  rw [List.getD_eq_getElem?_getD, List.getElem?_eq_getElem hi]
  exact List.getElem_mem hi

/-- a weight divides the (unbounded) hash product exactly when its occurrence has been removed -/
theorem weight_dvd_hashOf {clauses : List WClause} (hw : WeightsOK clauses) (m : PModel)
    {c : WClause} {lw : Lit × Nat} (hc : c ∈ clauses) (hl : lw ∈ c) :
    lw.2 ∣ hashOf clauses m ↔ removed m c lw = true := by
  have hp : Prime lw.2 := hw.prime _ (mem_allWeights hc hl)
  constructor
  · intro h
    unfold hashOf at h
    obtain ⟨i, hi, hd⟩ := hp.dvd_bigp h
    have hi' : i < clauses.length := List.mem_range.mp hi
    unfold contrib at hd
    obtain ⟨lw', hl', hd'⟩ := hp.dvd_bigp hd
    by_cases hr : removed m (clauses.getD i []) lw' = true
    · rw [if_pos hr] at hd'
      have hp' : Prime lw'.2 := hw.prime _ (mem_allWeights (getD_mem_of_lt hi') hl')
      have e : lw.2 = lw'.2 := by
        rcases hp'.2 _ hd' with h1 | h1
        · have := hp.1; omega
        · exact h1
      obtain ⟨e1, e2⟩ := weight_inj hw.nodup hc (getD_mem_of_lt hi') hl hl' e
      rw [e1, e2]; exact hr
    · rw [if_neg hr] at hd'
      have := Nat.dvd_one.mp hd'
      have := hp.1
      omega
  · intro hr
    obtain ⟨i, hi, e⟩ := List.mem_iff_getElem.mp hc
    have hci : clauses.getD i [] = c := by
      rw [List.getD_eq_getElem?_getD, List.getElem?_eq_getElem hi, ← e]; rfl
    have h1 : lw.2 ∣ contrib m c := by
      unfold contrib
      have := dvd_bigp (f := fun lw => if removed m c lw = true then lw.2 else 1) hl
      simpa [hr] using this
    have h2 : contrib m c ∣ hashOf clauses m := by
      unfold hashOf
      have h : contrib m (clauses.getD i []) ∣
          bigp (List.range clauses.length) (fun i => contrib m (clauses.getD i [])) :=
        dvd_bigp (f := fun i => contrib m (clauses.getD i [])) (List.mem_range.mpr hi)
      rwa [hci] at h
    exact Nat.dvd_trans h1 h2

/-- the product of all weights -/
def totalWeight (clauses : List WClause) : Nat :=
  bigp (List.range clauses.length) (fun i => bigp (clauses.getD i []) (fun lw => lw.2))

theorem hashOf_le_total {clauses : List WClause} (hw : WeightsOK clauses) (m : PModel) :
    hashOf clauses m ≤ totalWeight clauses := by
  unfold hashOf totalWeight contrib
  apply bigp_le
  intro i hi
  apply bigp_le
  intro lw hl
  have hp := hw.prime _ (mem_allWeights (getD_mem_of_lt (List.mem_range.mp hi)) hl)
  have := hp.1
  split <;> omega

/-- no weighted clause has all its literals false -/
def NoFalsified (clauses : List WClause) (m : PModel) : Prop :=
  ∀ c, c ∈ clauses → ¬ ∀ lw, lw ∈ c → litFalse m lw.1 = true

/-- the residual formula of the weighted clauses -/
def wresidual (clauses : List WClause) (m : PModel) : Cnf :=
  residual (clauses.map fun c => c.map (·.1)) m

/-- **Injectivity of the hash without wrap-around.** -/
theorem hash_inj_of_nowrap {clauses : List WClause} (hw : WeightsOK clauses)
    (hT : totalWeight clauses < M128) {m m' : PModel}
    (hf : NoFalsified clauses m) (hf' : NoFalsified clauses m')
    (he : hashOf clauses m % M128 = hashOf clauses m' % M128) :
    wresidual clauses m = wresidual clauses m' := by
  have e : hashOf clauses m = hashOf clauses m' := by
    rw [Nat.mod_eq_of_lt (Nat.lt_of_le_of_lt (hashOf_le_total hw m) hT),
      Nat.mod_eq_of_lt (Nat.lt_of_le_of_lt (hashOf_le_total hw m') hT)] at he
    exact he
  have hrem : ∀ c, c ∈ clauses → ∀ lw, lw ∈ c → removed m c lw = removed m' c lw := by
    intro c hc lw hl
    rw [Bool.eq_iff_iff, ← weight_dvd_hashOf hw m hc hl, ← weight_dvd_hashOf hw m' hc hl, e]
  have hsat : ∀ c, c ∈ clauses → wcSat m c = wcSat m' c := by
    intro c hc
    cases h1 : wcSat m c <;> cases h2 : wcSat m' c
    · rfl
    · exfalso
      apply hf c hc
      intro lw hl
      have := hrem c hc lw hl
      simpa [removed, h1, h2] using this
    · exfalso
      apply hf' c hc
      intro lw hl
      have := hrem c hc lw hl
      simpa [removed, h1, h2] using this.symm
    · rfl
  unfold wresidual residual
  have hany : ∀ (mm : PModel) (c : WClause), (c.map (·.1)).any (litTrue mm) = wcSat mm c := by
    intro mm c; rw [List.any_map]; rfl
  have h1 : (clauses.map fun c => c.map (·.1)).filter (fun c => !c.any (litTrue m)) =
      (clauses.map fun c => c.map (·.1)).filter (fun c => !c.any (litTrue m')) := by
    apply List.filter_congr
    intro x hx
    obtain ⟨c, hc, rfl⟩ := List.mem_map.mp hx
    rw [hany, hany, hsat c hc]
  rw [h1]
  apply List.map_congr_left
  intro x hx
  obtain ⟨hx1, hx2⟩ := List.mem_filter.mp hx
  obtain ⟨c, hc, rfl⟩ := List.mem_map.mp hx1
  rw [hany] at hx2
  have hs' : wcSat m' c = false := by simpa using hx2
  have hs : wcSat m c = false := by rw [hsat c hc]; exact hs'
  apply List.filter_congr
  intro l hl
  obtain ⟨lw, hlw, rfl⟩ := List.mem_map.mp hl
  have := hrem c hc lw hlw
  simp only [removed, hs, hs', Bool.false_or] at this
  rw [this]

/-! ## the normalised clauses -/

theorem mem_insertBy {le : Lit → Lit → Bool} {a x : Lit} : ∀ {t : List Lit},
    x ∈ insertBy le a t ↔ x = a ∨ x ∈ t
  | [] => by simp [insertBy]
  | b :: t => by
    unfold insertBy
    split
    · simp
    · rw [List.mem_cons, mem_insertBy (t := t), List.mem_cons]
      constructor
      · rintro (h | h | h)
        · exact .inr (.inl h)
        · exact .inl h
        · exact .inr (.inr h)
      · rintro (h | h | h)
        · exact .inr (.inl h)
        · exact .inl h
        · exact .inr (.inr h)

theorem mem_isort {le : Lit → Lit → Bool} {x : Lit} : ∀ {c : List Lit}, x ∈ isort le c ↔ x ∈ c
  | [] => by simp [isort]
  | a :: t => by unfold isort; rw [mem_insertBy, mem_isort (c := t), List.mem_cons]

theorem mem_dedupAdj {x : Lit} : ∀ {c : List Lit}, x ∈ dedupAdj c ↔ x ∈ c
  | [] => by simp [dedupAdj]
  | [a] => by simp [dedupAdj]
  | a :: b :: t => by
    unfold dedupAdj
    split
    · next e => rw [mem_dedupAdj (c := b :: t), e]; simp
    · rw [List.mem_cons, mem_dedupAdj (c := b :: t)]; simp

theorem mem_normClause {x : Lit} {c : Clause} : x ∈ normClause c ↔ x ∈ c := by
  unfold normClause; rw [mem_dedupAdj, mem_isort]

/-- normalisation does not change which partial models satisfy a clause -/
theorem normClause_any (m : PModel) (c : Clause) :
    (normClause c).any (litTrue m) = c.any (litTrue m) := by
  rw [Bool.eq_iff_iff, List.any_eq_true, List.any_eq_true]
  constructor
  · rintro ⟨x, hx, h⟩; exact ⟨x, mem_normClause.mp hx, h⟩
  · rintro ⟨x, hx, h⟩; exact ⟨x, mem_normClause.mpr hx, h⟩

theorem isTaut_normClause (c : Clause) : isTaut (normClause c) = isTaut c := by
  unfold isTaut
  rw [Bool.eq_iff_iff, List.any_eq_true, List.any_eq_true]
  constructor
  · rintro ⟨x, hx, h⟩
    obtain ⟨y, hy, h'⟩ := List.any_eq_true.mp h
    exact ⟨x, mem_normClause.mp hx, List.any_eq_true.mpr ⟨y, mem_normClause.mp hy, h'⟩⟩
  · rintro ⟨x, hx, h⟩
    obtain ⟨y, hy, h'⟩ := List.any_eq_true.mp h
    exact ⟨x, mem_normClause.mpr hx, List.any_eq_true.mpr ⟨y, mem_normClause.mpr hy, h'⟩⟩

theorem leLit_total (a b : Lit) : leLit a b = false → leLit b a = true := by
  unfold leLit
  obtain ⟨va, pa⟩ := a
  obtain ⟨vb, pb⟩ := b
  cases pa <;> cases pb <;> simp <;> omega

theorem leLit_trans (a b c : Lit) : leLit a b = true → leLit b c = true → leLit a c = true := by
  unfold leLit
  obtain ⟨va, pa⟩ := a
  obtain ⟨vb, pb⟩ := b
  obtain ⟨vc, pc⟩ := c
  cases pa <;> cases pb <;> cases pc <;> simp <;> omega

theorem leLit_antisymm (a b : Lit) : leLit a b = true → leLit b a = true → a = b := by
  unfold leLit
  obtain ⟨va, pa⟩ := a
  obtain ⟨vb, pb⟩ := b
  cases pa <;> cases pb <;> simp <;> omega

theorem insertBy_sorted {a : Lit} : ∀ {t : List Lit}, t.Pairwise (fun x y => leLit x y = true) →
    (insertBy leLit a t).Pairwise (fun x y => leLit x y = true)
  | [], _ => by simp [insertBy]
  | b :: t, h => by
    unfold insertBy
    have hb := List.pairwise_cons.mp h
    by_cases hle : leLit a b = true
    · rw [if_pos hle]
      refine List.pairwise_cons.mpr ⟨?_, h⟩
      intro c hc
      rcases List.mem_cons.mp hc with e | hc
      · rw [e]; exact hle
      · exact leLit_trans _ _ _ hle (hb.1 c hc)
    · rw [if_neg hle]
      have hle' : leLit b a = true := leLit_total a b (by simpa using hle)
      refine List.pairwise_cons.mpr ⟨?_, insertBy_sorted hb.2⟩
      intro c hc
      rcases mem_insertBy.mp hc with e | hc
      · rw [e]; exact hle'
      · exact hb.1 c hc

theorem isort_sorted : ∀ (c : List Lit), (isort leLit c).Pairwise (fun x y => leLit x y = true)
  | [] => by simp [isort]
  | a :: t => by unfold isort; exact insertBy_sorted (isort_sorted t)

theorem dedupAdj_nodup : ∀ (c : List Lit), c.Pairwise (fun x y => leLit x y = true) → (dedupAdj c).Nodup
  | [], _ => by simp [dedupAdj]
  | [a], _ => by simp [dedupAdj]
  | a :: b :: t, h => by
    have h1 := List.pairwise_cons.mp h
    unfold dedupAdj
    split
    · exact dedupAdj_nodup (b :: t) h1.2
    · next hne =>
      rw [List.nodup_cons]
      refine ⟨?_, dedupAdj_nodup (b :: t) h1.2⟩
      intro hmem
      have hm : a ∈ b :: t := mem_dedupAdj.mp hmem
      have hab : leLit a b = true := h1.1 b (by simp)
      have hba : leLit b a = true := by
        rcases List.mem_cons.mp hm with e | hm
        · exact absurd e hne
        · exact (List.pairwise_cons.mp h1.2).1 a hm
      exact hne (leLit_antisymm a b hab hba)

theorem normClause_nodup (c : Clause) : (normClause c).Nodup :=
  dedupAdj_nodup _ (isort_sorted c)

/-- the weighted clauses of the solver carry at most one literal per variable -/
theorem uniqueVars_of_norm {wc : WClause} (hnd : (wc.map (·.1)).Nodup)
    (ht : isTaut (wc.map (·.1)) = false) : UniqueVars wc := by
  unfold UniqueVars
  rw [List.nodup_iff_pairwise_ne, List.pairwise_map] at hnd
  refine hnd.imp_of_mem ?_
  intro a b ha hb hne hv
  apply hne
  have hp : a.1.pol = b.1.pol := by
    by_cases hpp' : a.1.pol = b.1.pol
    · exact hpp'
    · have : isTaut (wc.map (·.1)) = true := by
        unfold isTaut
        refine List.any_eq_true.mpr ⟨a.1, List.mem_map.mpr ⟨a, ha, rfl⟩, ?_⟩
        refine List.any_eq_true.mpr ⟨b.1, List.mem_map.mpr ⟨b, hb, rfl⟩, ?_⟩
        simp [hv, hpp']
      rw [ht] at this; cases this
  exact lit_ext hp hv

theorem solver_clauses_unique (cnf : Cnf) (n : Nat) :
    ∀ wc, wc ∈ weighClauses (normClauses cnf) n → UniqueVars wc := by
  intro wc hwc
  have hmap := (weighClauses_spec (normClauses cnf) n).1
  have hmem : wc.map (·.1) ∈ normClauses cnf := by
    rw [← hmap]; exact List.mem_map.mpr ⟨wc, hwc, rfl⟩
  unfold normClauses at hmem
  obtain ⟨h1, h2⟩ := List.mem_filter.mp hmem
  obtain ⟨c, _, e⟩ := List.mem_map.mp h1
  refine uniqueVars_of_norm ?_ (by simpa using h2)
  rw [← e]; exact normClause_nodup c

end UnitProp
