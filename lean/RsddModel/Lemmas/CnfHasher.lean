import RsddModel.Lemmas.CnfBook
/-!
# Lemmas: the incremental residual-formula hasher `CnfHasher` (property C15)

* the prime stream hands out strictly increasing primes;
* `hash` is the product modulo `2^128` of the primes of a precisely described set of literal
  occurrences (`activeWeights`), for every state reachable by `decide`/`push`/`pop`;
* that set depends only on the positional residual `residualOcc`, and — while the product of
  all primes stays below `2^128` and no non-unit clause is falsified — determines it.
-/
namespace CnfUtil
open Spec

/-! ## primes -/

def Prime (p : Nat) : Prop := 2 ≤ p ∧ ∀ d, d ∣ p → d = 1 ∨ d = p

theorem isPrimeB_prime {p : Nat} (h : isPrimeB p = true) : Prime p := by
  obtain ⟨h2, hd⟩ := isPrimeB_iff.mp h
  refine ⟨h2, fun d hdiv => ?_⟩
  have hle : d ≤ p := Nat.le_of_dvd (by omega) hdiv
  have hpos : d ≠ 0 := by
    rintro rfl
    have := Nat.eq_zero_of_zero_dvd hdiv
    omega
  by_cases h1 : d = 1
  · exact Or.inl h1
  · by_cases hp : d = p
    · exact Or.inr hp
    · exact absurd hdiv (hd d (by omega) (by omega))

theorem findPrime_spec (c : Nat) (h : ∃ p, c ≤ p ∧ isPrimeB p = true) :
    c ≤ findPrime c h ∧ isPrimeB (findPrime c h) = true := by
  induction c, h using findPrime.induct with
  | case1 c h hp => rw [findPrime, dif_pos hp]; exact ⟨Nat.le_refl _, hp⟩
  | case2 c h hp ih =>
    rw [findPrime, dif_neg hp]
    exact ⟨by omega, ih.2⟩

theorem nextPrime_gt (p : Nat) : p < nextPrime p := (findPrime_spec _ _).1
theorem nextPrime_prime (p : Nat) : isPrimeB (nextPrime p) = true := (findPrime_spec _ _).2

/-- Euclid's lemma -/
theorem prime_dvd_mul {p a b : Nat} (hp : Prime p) (h : p ∣ a * b) : p ∣ a ∨ p ∣ b := by
  by_cases ha : p ∣ a
  · exact Or.inl ha
  · right
    have hg : Nat.gcd p a = 1 := by
      rcases hp.2 _ (Nat.gcd_dvd_left p a) with h1 | h1
      · exact h1
      · exfalso; apply ha; rw [← h1]; exact Nat.gcd_dvd_right p a
    exact Nat.Coprime.dvd_of_dvd_mul_left hg h

theorem prime_dvd_prime {p q : Nat} (hp : Prime p) (hq : Prime q) (h : p ∣ q) : p = q := by
  rcases hq.2 p h with h1 | h1
  · have := hp.1; omega
  · exact h1

/-! ## products of lists -/

def lprod (l : List Nat) : Nat := l.foldr (· * ·) 1

@[simp] theorem lprod_nil : lprod [] = 1 := rfl
@[simp] theorem lprod_cons (a : Nat) (l : List Nat) : lprod (a :: l) = a * lprod l := rfl

theorem lprod_append : ∀ (l l' : List Nat), lprod (l ++ l') = lprod l * lprod l'
  | [], l' => by simp
  | a :: l, l' => by simp [lprod_append l l', Nat.mul_assoc]

theorem lprod_perm {l l' : List Nat} (h : l.Perm l') : lprod l = lprod l' := by
  induction h with
  | nil => rfl
  | cons x _ ih => simp [ih]
  | swap x y l => simp [Nat.mul_left_comm]
  | trans _ _ ih1 ih2 => rw [ih1, ih2]

theorem dvd_lprod_of_mem {x : Nat} : ∀ {l : List Nat}, x ∈ l → x ∣ lprod l
  | a :: l, h => by
    rcases List.mem_cons.mp h with rfl | h
    · exact Nat.dvd_mul_right _ _
    · exact Nat.dvd_trans (dvd_lprod_of_mem h) (Nat.dvd_mul_left _ _)

theorem prime_dvd_lprod {p : Nat} (hp : Prime p) : ∀ (l : List Nat), p ∣ lprod l → ∃ q ∈ l, p ∣ q
  | [], h => by
    simp only [lprod_nil] at h
    have := Nat.le_of_dvd (by decide) h
    have := hp.1
    omega
  | a :: l, h => by
    rcases prime_dvd_mul hp h with h1 | h1
    · exact ⟨a, List.mem_cons_self, h1⟩
    · obtain ⟨q, hq, hd⟩ := prime_dvd_lprod hp l h1
      exact ⟨q, List.mem_cons_of_mem _ hq, hd⟩

theorem lprod_pos : ∀ {l : List Nat}, (∀ x ∈ l, 1 ≤ x) → 1 ≤ lprod l
  | [], _ => Nat.le_refl _
  | a :: l, h => by
    have h1 := h a List.mem_cons_self
    have h2 := lprod_pos (l := l) (fun x hx => h x (List.mem_cons_of_mem _ hx))
    exact Nat.mul_le_mul h1 h2

theorem lprod_le_of_sublist {l l' : List Nat} (h : l.Sublist l') (hpos : ∀ x ∈ l', 1 ≤ x) :
    lprod l ≤ lprod l' := by
  induction h with
  | slnil => exact Nat.le_refl _
  | cons a _ ih =>
    have := ih (fun x hx => hpos x (List.mem_cons_of_mem _ hx))
    have ha := hpos a List.mem_cons_self
    calc lprod _ ≤ lprod _ := this
      _ = 1 * lprod _ := (Nat.one_mul _).symm
      _ ≤ a * lprod _ := Nat.mul_le_mul_right _ ha
  | cons_cons a _ ih =>
    have := ih (fun x hx => hpos x (List.mem_cons_of_mem _ hx))
    exact Nat.mul_le_mul_left a this

/-- unique factorisation, in the form needed: two strictly ascending lists of primes with the
same product are equal -/
theorem lprod_inj_sorted {l l' : List Nat} (hs : l.Pairwise (· < ·)) (hs' : l'.Pairwise (· < ·))
    (hp : ∀ x ∈ l, Prime x) (hp' : ∀ x ∈ l', Prime x) (h : lprod l = lprod l') : l = l' := by
  apply VarSet.sorted_ext hs hs'
  intro x
  constructor
  · intro hx
    have hd : x ∣ lprod l' := h ▸ dvd_lprod_of_mem hx
    obtain ⟨q, hq, hxq⟩ := prime_dvd_lprod (hp x hx) l' hd
    rw [prime_dvd_prime (hp x hx) (hp' q hq) hxq]; exact hq
  · intro hx
    have hd : x ∣ lprod l := h ▸ dvd_lprod_of_mem hx
    obtain ⟨q, hq, hxq⟩ := prime_dvd_lprod (hp' x hx) l hd
    rw [prime_dvd_prime (hp' x hx) (hp q hq) hxq]; exact hq

theorem lprod_map_filter (g : Nat → Nat) (P : Nat → Bool) : ∀ (L : List Nat),
    lprod ((L.filter P).map g) = lprod (L.map fun i => if P i then g i else 1)
  | [] => rfl
  | a :: L => by
    simp only [List.filter_cons, List.map_cons, lprod_cons]
    cases h : P a
    · simp [lprod_map_filter g P L]
    · simp [lprod_map_filter g P L]

theorem lprod_flatMap {β : Type} (A : β → List Nat) : ∀ (l : List β),
    lprod (l.flatMap A) = lprod (l.map fun b => lprod (A b))
  | [] => rfl
  | b :: l => by simp [List.flatMap_cons, lprod_append, lprod_flatMap A l]

theorem range_map_getD {β γ : Type} (F : β → γ) (d : β) : ∀ (l : List β),
    (List.range l.length).map (fun i => F (l.getD i d)) = l.map F
  | [] => rfl
  | a :: l => by
    rw [List.length_cons, List.range_succ_eq_map, List.map_cons, List.map_map]
    simp only [List.getD_cons_zero, List.map_cons, List.cons.injEq, true_and]
    rw [← range_map_getD F d l]
    apply List.map_congr_left
    intro i _
    simp [Function.comp]

/-! ## the weighted CNF -/

theorem weightClause_snd : ∀ (c : List Lit) (p : Nat), (weightClause c p).1.map Prod.snd = c
  | [], _ => rfl
  | l :: ls, p => by simp [weightClause, weightClause_snd ls]

theorem weightClause_spec : ∀ (c : List Lit) (p : Nat),
    p ≤ (weightClause c p).2 ∧ ((weightClause c p).1.map Prod.fst).Pairwise (· < ·) ∧
    ∀ x ∈ (weightClause c p).1.map Prod.fst, p < x ∧ x ≤ (weightClause c p).2 ∧ isPrimeB x = true
  | [], p => by simp [weightClause]
  | l :: ls, p => by
    obtain ⟨h1, h2, h3⟩ := weightClause_spec ls (nextPrime p)
    have hq := nextPrime_gt p
    simp only [weightClause, List.map_cons, List.pairwise_cons, List.mem_cons, forall_eq_or_imp]
    refine ⟨by omega, ⟨fun x hx => (h3 x hx).1, h2⟩, ⟨hq, h1, nextPrime_prime p⟩, ?_⟩
    intro x hx
    obtain ⟨a, b, c⟩ := h3 x hx
    exact ⟨by omega, b, c⟩

theorem weightCnf_shape : ∀ (cs : List (List Lit)) (p : Nat),
    (weightCnf cs p).map (fun wcl => wcl.map Prod.snd) = cs
  | [], _ => rfl
  | c :: cs, p => by simp [weightCnf, weightClause_snd, weightCnf_shape cs]

/-- all the primes handed out, in clause order -/
def allW (wc : List (List (Nat × Lit))) : List Nat := wc.flatMap fun wcl => wcl.map Prod.fst

theorem weightCnf_spec : ∀ (cs : List (List Lit)) (p : Nat),
    (allW (weightCnf cs p)).Pairwise (· < ·) ∧
    ∀ x ∈ allW (weightCnf cs p), p < x ∧ isPrimeB x = true
  | [], p => by simp [weightCnf, allW]
  | c :: cs, p => by
    obtain ⟨h1, h2, h3⟩ := weightClause_spec c p
    obtain ⟨g1, g2⟩ := weightCnf_spec cs (weightClause c p).2
    simp only [weightCnf, allW, List.flatMap_cons] at g1 g2 ⊢
    refine ⟨List.pairwise_append.mpr ⟨h2, g1, ?_⟩, ?_⟩
    · intro a ha b hb
      have := (h3 a ha).2.1
      have := (g2 b hb).1
      omega
    · intro x hx
      rcases List.mem_append.mp hx with hx | hx
      · exact ⟨(h3 x hx).1, (h3 x hx).2.2⟩
      · exact ⟨by have := (g2 x hx).1; omega, (g2 x hx).2⟩

theorem weightCnf_length (cs : List (List Lit)) (p : Nat) : (weightCnf cs p).length = cs.length := by
  have := congrArg List.length (weightCnf_shape cs p)
  simpa using this

theorem getD_map_nil {β γ : Type} (f : List β → List γ) (hf : f [] = []) : ∀ (l : List (List β)) (i : Nat),
    (l.map f).getD i [] = f (l.getD i [])
  | [], i => by simp [hf]
  | a :: l, 0 => by simp
  | a :: l, i + 1 => by
    simp only [List.map_cons, List.getD_cons_succ]
    exact getD_map_nil f hf l i

theorem weightCnf_getD (cs : List (List Lit)) (p i : Nat) :
    cs.getD i [] = ((weightCnf cs p).getD i []).map Prod.snd := by
  conv => lhs; rw [← weightCnf_shape cs p]
  exact getD_map_nil (fun wcl => wcl.map Prod.snd) rfl _ i

/-! ## evaluating `hash` -/

theorem M128_pos : 0 < M128 := Nat.two_pow_pos 128

/-- the (unreduced) contribution of one weighted clause: 1 if it is satisfied, otherwise the
product of the primes of its literals that are not falsified -/
def cval (m : PartialModel) (wcl : List (Nat × Lit)) : Nat :=
  if wcl.any (fun p => m.litImplied p.2) then 1
  else lprod ((wcl.filter fun p => !m.litNegImplied p.2).map Prod.fst)

theorem hashClause_eq (m : PartialModel) : ∀ (wcl : List (Nat × Lit)) (acc : Nat), acc < M128 →
    CnfHasher.hashClause m wcl acc =
      if wcl.any (fun p => m.litImplied p.2) then none
      else some ((acc * lprod ((wcl.filter fun p => !m.litNegImplied p.2).map Prod.fst)) % M128)
  | [], acc, h => by simp [CnfHasher.hashClause, Nat.mod_eq_of_lt h]
  | (w, l) :: r, acc, h => by
    simp only [CnfHasher.hashClause, List.any_cons, List.filter_cons]
    by_cases h1 : m.litImplied l = true
    · simp [h1]
    · have h1' : m.litImplied l = false := by simpa using h1
      by_cases h2 : m.litNegImplied l = true
      · rw [hashClause_eq m r acc h]
        simp only [h1', h2, Bool.false_or, Bool.not_true, Bool.false_eq_true, if_false, if_true]
      · have h2' : m.litNegImplied l = false := by simpa using h2
        have hlt : wmul acc w < M128 := Nat.mod_lt _ M128_pos
        simp only [h1', h2', Bool.false_eq_true, if_false, Bool.false_or, Bool.not_false, if_true,
          List.map_cons, lprod_cons, hashClause_eq m r _ hlt]
        split
        · rfl
        · rw [wmul, Nat.mod_mul_mod, Nat.mul_assoc]

theorem hashStep_eq (m : PartialModel) (wcl : List (Nat × Lit)) (v : Nat) (hv : v < M128) :
    (match CnfHasher.hashClause m wcl 1 with
      | none => v
      | some cv => wmul v cv) = (v * cval m wcl) % M128 := by
  have h1 : 1 < M128 := by decide
  rw [hashClause_eq m wcl 1 h1, cval]
  by_cases hany : (wcl.any fun p => m.litImplied p.2) = true
  · simp only [hany, if_true, Nat.mul_one, Nat.mod_eq_of_lt hv]
  · have hany' : (wcl.any fun p => m.litImplied p.2) = false := by simpa using hany
    simp only [hany', Bool.false_eq_true, if_false, Nat.one_mul, wmul, Nat.mul_mod_mod]

/-- the body of the outer loop of `hash` -/
def hstep (wc : List (List (Nat × Lit))) (m : PartialModel) (v ci : Nat) : Nat :=
  match CnfHasher.hashClause m (wc.getD ci []) 1 with
  | none => v
  | some cv => wmul v cv

theorem hashOver_fold (wc : List (List (Nat × Lit))) (m : PartialModel) : ∀ (idxs : List Nat) (v : Nat),
    v < M128 →
    idxs.foldl (hstep wc m) v = (v * lprod (idxs.map fun i => cval m (wc.getD i []))) % M128
  | [], v, h => by simp [Nat.mod_eq_of_lt h]
  | i :: idxs, v, h => by
    simp only [List.foldl_cons, List.map_cons, lprod_cons]
    have hs : hstep wc m v i = (v * cval m (wc.getD i [])) % M128 := hashStep_eq m _ v h
    rw [hs, hashOver_fold wc m idxs _ (Nat.mod_lt _ M128_pos), Nat.mod_mul_mod, Nat.mul_assoc]

theorem hashOver_eq (wc : List (List (Nat × Lit))) (m : PartialModel) (idxs : List Nat) :
    CnfHasher.hashOver wc m idxs = lprod (idxs.map fun i => cval m (wc.getD i [])) % M128 := by
  have h : CnfHasher.hashOver wc m idxs = idxs.foldl (hstep wc m) 1 := rfl
  rw [h, hashOver_fold wc m idxs 1 (by decide), Nat.one_mul]

/-- the `HashSet` iteration order is irrelevant -/
theorem hashOver_perm (wc : List (List (Nat × Lit))) (m : PartialModel) {idxs idxs' : List Nat}
    (h : idxs.Perm idxs') : CnfHasher.hashOver wc m idxs = CnfHasher.hashOver wc m idxs' := by
  rw [hashOver_eq, hashOver_eq, lprod_perm (h.map _)]

/-! ## the set of literal occurrences whose primes are multiplied -/

/-- the primes that `hash` multiplies for the partial model `m`: those of the literal
occurrences `(i, j)` such that clause `i` has more than one literal (as handed to
`CnfHasher::new`), no literal of clause `i` is true under `m`, and literal `j` of clause `i` is
not false under `m` (hence unassigned) -/
def activeOf (m : PartialModel) (wcl : List (Nat × Lit)) : List Nat :=
  if decide (wcl.length > 1) && !wcl.any (fun p => m.litImplied p.2)
  then (wcl.filter fun p => !m.litNegImplied p.2).map Prod.fst else []

def activeWeights (cs : List (List Lit)) (m : PartialModel) : List Nat :=
  (weightCnf cs 1).flatMap (activeOf m)

/-- indices of the clauses with more than one literal (`clause.len() > 1`, "ignore units") -/
def nonUnitIdx (cs : List (List Lit)) : List Nat :=
  (List.range cs.length).filter fun i => decide ((cs.getD i []).length > 1)

theorem lprod_activeOf (m : PartialModel) (wcl : List (Nat × Lit)) :
    lprod (activeOf m wcl) = if decide (wcl.length > 1) then cval m wcl else 1 := by
  simp only [activeOf, cval]
  by_cases h1 : wcl.length > 1 <;> by_cases h2 : wcl.any (fun p => m.litImplied p.2) = true <;>
    simp [h1, h2]

/-- over all non-unit clauses, `hashOver` is the product of the active primes -/
theorem lprod_nonUnit (cs : List (List Lit)) (m : PartialModel) :
    lprod ((nonUnitIdx cs).map fun i => cval m ((weightCnf cs 1).getD i [])) =
      lprod (activeWeights cs m) := by
  rw [nonUnitIdx, lprod_map_filter, activeWeights, lprod_flatMap]
  simp only [lprod_activeOf]
  rw [← weightCnf_length cs 1,
    ← range_map_getD (fun wcl => if decide (wcl.length > 1) then cval m wcl else 1) []]
  congr 1
  apply List.map_congr_left
  intro i _
  simp only [weightCnf_getD cs 1 i, List.length_map]

/-! ## reachable states -/

/-- one level of the stack is sound for the model kept with it: it is a sub-selection of the
non-unit clauses and every non-unit clause it misses is satisfied by the model -/
def LevelOK (cs : List (List Lit)) (top : List Nat) (m : PartialModel) : Prop :=
  ∃ Q : Nat → Bool, top = (nonUnitIdx cs).filter Q ∧
    ∀ i ∈ nonUnitIdx cs, Q i = false → (cs.getD i []).any m.litImplied = true

inductive Levels (cs : List (List Lit)) : List (List Nat) → List PartialModel → Prop
  | nil : Levels cs [] []
  | cons {top st m ms} : LevelOK cs top m → Levels cs st ms → Levels cs (top :: st) (m :: ms)

structure Inv (cs : List (List Lit)) (nv : Nat) (d : HDriver) : Prop where
  weighted : d.h.weighted = weightCnf cs 1
  pos : d.h.posLits = (List.range nv).map fun v => clausesWith cs ⟨v, true⟩
  neg : d.h.negLits = (List.range nv).map fun v => clausesWith cs ⟨v, false⟩
  levels : Levels cs d.h.state d.models

theorem inv_init (cs : List (List Lit)) (nv : Nat) : Inv cs nv (HDriver.init cs nv) where
  weighted := rfl
  pos := rfl
  neg := rfl
  levels := by
    refine Levels.cons ⟨fun _ => true, ?_, ?_⟩ Levels.nil
    · simp [nonUnitIdx]
    · intro i _ h; cases h

theorem litImplied_iff (m : PartialModel) (l : Lit) :
    m.litImplied l = true ↔ m.get l.var = some l.pol := by
  simp only [PartialModel.litImplied]
  cases m.get l.var <;> simp

theorem litImplied_set_self (m : PartialModel) (l : Lit) :
    (m.set l.var l.pol).litImplied l = true := by
  rw [litImplied_iff, PartialModel.get_set]; simp

theorem litImplied_set_mono (m : PartialModel) (l l0 : Lit)
    (hc : m.get l.var ≠ some (!l.pol)) (h : m.litImplied l0 = true) :
    (m.set l.var l.pol).litImplied l0 = true := by
  rw [litImplied_iff] at h ⊢
  rw [PartialModel.get_set]
  by_cases hv : l0.var = l.var
  · rw [hv] at h
    simp only [hv, if_true, Option.some.injEq]
    rw [h] at hc
    cases h1 : l.pol <;> cases h2 : l0.pol <;> simp_all
  · simp [hv, h]

theorem mem_clausesWith (cs : List (List Lit)) (l : Lit) (i : Nat) :
    i ∈ clausesWith cs l ↔ i < cs.length ∧ l ∈ cs.getD i [] := by
  simp [clausesWith]

theorem levelOK_decide {cs : List (List Lit)} {top : List Nat} {m : PartialModel} (l : Lit)
    (h : LevelOK cs top m) (hc : m.get l.var ≠ some (!l.pol)) :
    LevelOK cs (top.filter fun i => !(clausesWith cs l).contains i) (m.set l.var l.pol) := by
  obtain ⟨Q, hQ, hsat⟩ := h
  refine ⟨fun i => !(clausesWith cs l).contains i && Q i, ?_, ?_⟩
  · rw [hQ, List.filter_filter]
  · intro i hi hq
    simp only [Bool.and_eq_false_iff, Bool.not_eq_false'] at hq
    rcases hq with hq | hq
    · have := (mem_clausesWith cs l i).mp (by simpa using hq)
      exact List.any_eq_true.mpr ⟨l, this.2, litImplied_set_self m l⟩
    · obtain ⟨l0, hl0, himp⟩ := List.any_eq_true.mp (hsat i hi hq)
      exact List.any_eq_true.mpr ⟨l0, hl0, litImplied_set_mono m l l0 hc himp⟩

theorem tbl_lookup {cs : List (List Lit)} {nv : Nat} {d : HDriver} (hinv : Inv cs nv d) (l : Lit) :
    (if l.pol then d.h.posLits else d.h.negLits)[l.var]? =
      if l.var < nv then some (clausesWith cs l) else none := by
  cases l with | mk v p =>
  cases p
  · simp only [Bool.false_eq_true, if_false, hinv.neg, List.getElem?_map]
    by_cases h : v < nv
    · simp [h]
    · simp [h]
  · simp only [if_true, hinv.pos, List.getElem?_map]
    by_cases h : v < nv
    · simp [h]
    · simp [h]

theorem filter_not_contains_nil (top : List Nat) {idxs : List Nat} (h : idxs.isEmpty = true) :
    top.filter (fun i => !idxs.contains i) = top := by
  have : idxs = [] := List.isEmpty_iff.mp h
  subst this
  simp

/-- what `decide` does once the index lookup succeeded -/
theorem decide_eq (h : CnfHasher) (l : Lit) (idxs : List Nat)
    (hl : (if l.pol then h.posLits else h.negLits)[l.var]? = some idxs) :
    h.decide l =
      match h.state with
      | [] => if idxs.isEmpty then some h else none
      | top :: rest => some { h with state := top.filter (fun i => !idxs.contains i) :: rest } := by
  cases h with | mk w st p n =>
  simp only [CnfHasher.decide] at hl ⊢
  rw [hl]
  cases st with
  | nil => rfl
  | cons top rest =>
    simp only
    split
    · rename_i he
      rw [filter_not_contains_nil top he]
    · rfl

theorem inv_step {cs : List (List Lit)} {nv : Nat} {d d' : HDriver} {c : HCmd} (hinv : Inv cs nv d)
    (hs : d.step c = some d')
    (hc : ∀ l, c = .decide l → ∀ m r, d.models = m :: r → m.get l.var ≠ some (!l.pol)) :
    Inv cs nv d' := by
  cases c with
  | hash =>
    simp only [HDriver.step, Option.some.injEq] at hs
    subst hs; exact hinv
  | pop =>
    have hl := hinv.levels
    have hw := hinv.weighted
    have hp := hinv.pos
    have hn := hinv.neg
    cases d with | mk h models =>
    cases h with | mk w st p n =>
    simp only [HDriver.step, Option.some.injEq] at hs hl hw hp hn
    subst hs
    refine ⟨hw, hp, hn, ?_⟩
    simp only [CnfHasher.pop]
    cases hl with
    | nil => exact Levels.nil
    | cons _ h2 => exact h2
  | push =>
    have hl := hinv.levels
    have hw := hinv.weighted
    have hp := hinv.pos
    have hn := hinv.neg
    cases d with | mk h models =>
    cases h with | mk w st p n =>
    simp only [HDriver.step, CnfHasher.push] at hs hl hw hp hn
    cases hl with
    | nil => simp at hs
    | cons h1 h2 =>
      simp only [Option.map_some, Option.some.injEq] at hs
      subst hs
      exact ⟨hw, hp, hn, Levels.cons h1 (Levels.cons h1 h2)⟩
  | decide l =>
    have hlook := tbl_lookup hinv l
    by_cases hlt : l.var < nv
    · simp only [hlt, if_true] at hlook
      have hdec := decide_eq d.h l _ hlook
      have hl := hinv.levels
      have hw := hinv.weighted
      have hp := hinv.pos
      have hn := hinv.neg
      cases d with | mk h models =>
      cases h with | mk w st p n =>
      simp only [HDriver.step] at hs hl hdec hw hp hn
      rw [hdec] at hs
      cases hl with
      | nil =>
        simp only at hs
        split at hs
        · simp only [Option.map_some, Option.some.injEq] at hs
          subst hs
          exact ⟨hw, hp, hn, Levels.nil⟩
        · simp at hs
      | cons h1 h2 =>
        simp only [Option.map_some, Option.some.injEq] at hs
        subst hs
        exact ⟨hw, hp, hn, Levels.cons (levelOK_decide l h1 (hc l rfl _ _ rfl)) h2⟩
    · simp only [hlt, if_false] at hlook
      simp only [HDriver.step, CnfHasher.decide, hlook, Option.map_none] at hs
      cases hs

/-- states reachable from `CnfHasher::new(cs, nv)` with a fresh model, where a `decide` never
contradicts the current model (it may repeat an assignment) -/
inductive Reach (cs : List (List Lit)) (nv : Nat) : HDriver → Prop
  | init : Reach cs nv (HDriver.init cs nv)
  | step {d d' : HDriver} {c : HCmd} : Reach cs nv d → d.step c = some d' →
      (∀ l, c = .decide l → ∀ m r, d.models = m :: r → m.get l.var ≠ some (!l.pol)) →
      Reach cs nv d'

theorem inv_of_reach {cs : List (List Lit)} {nv : Nat} {d : HDriver} (h : Reach cs nv d) :
    Inv cs nv d := by
  induction h with
  | init => exact inv_init cs nv
  | step _ hs hc ih => exact inv_step ih hs hc

/-- command lists in which no `decide` contradicts the model current at that point -/
def okRun : HDriver → List HCmd → Prop
  | _, [] => True
  | d, c :: cs =>
    (∀ l, c = .decide l → ∀ m r, d.models = m :: r → m.get l.var ≠ some (!l.pol)) ∧
    ∀ d', d.step c = some d' → okRun d' cs

theorem reach_run {cs : List (List Lit)} {nv : Nat} : ∀ (cmds : List HCmd) (d d' : HDriver),
    Reach cs nv d → okRun d cmds → d.run cmds = some d' → Reach cs nv d'
  | [], d, d', hr, _, hrun => by
    simp only [HDriver.run, Option.some.injEq] at hrun
    subst hrun; exact hr
  | c :: cmds, d, d', hr, hok, hrun => by
    simp only [HDriver.run] at hrun
    cases hs : d.step c with
    | none => simp [hs] at hrun
    | some d1 =>
      simp only [hs, Option.bind_some] at hrun
      exact reach_run cmds d1 d' (Reach.step hr hs hok.1) (hok.2 d1 hs) hrun

/-- **the hash formula**: in every reachable state, `hash` under the current model is the
product modulo `2^128` of the active primes of that model -/
theorem hash_of_inv {cs : List (List Lit)} {nv : Nat} {d : HDriver} (hinv : Inv cs nv d)
    {m : PartialModel} {r : List PartialModel} (hm : d.models = m :: r) :
    d.hash = some (lprod (activeWeights cs m) % M128) := by
  have hl := hinv.levels
  have hw := hinv.weighted
  cases d with | mk h models =>
  cases h with | mk w st p n =>
  simp only at hm hl hw
  subst hm
  cases hl with
  | cons h1 h2 =>
    obtain ⟨Q, hQ, hsat⟩ := h1
    simp only [HDriver.hash, CnfHasher.hash, Option.some.injEq]
    rw [hashOver_eq, hw, ← lprod_nonUnit, hQ, lprod_map_filter]
    congr 2
    apply List.map_congr_left
    intro i hi
    cases hq : Q i
    · have := hsat i hi hq
      rw [weightCnf_getD cs 1 i, List.any_map] at this
      simp only [Bool.false_eq_true, if_false, cval]
      rw [if_pos]
      exact this
    · simp

/-! ## the positional residual -/

/-- the residual formula *by position*: for every clause of the list handed to
`CnfHasher::new`, in order, `none` if the clause is ignored (fewer than two literals) or
satisfied (some literal true), otherwise `some` of the clause with every assigned (hence false)
literal masked out.  Two partial models have the same positional residual iff the same clause
positions are unsatisfied non-unit clauses and each restricts to the same literal occurrences. -/
def residualOcc (cs : List (List Lit)) (m : PModel) : List (Option (List (Option Lit))) :=
  cs.map fun c =>
    if decide (c.length > 1) && !c.any (litTrue m)
    then some (c.map fun l => if litUnset m l then some l else none) else none

/-- no clause with more than one literal has all its literals false -/
def NoFalsifiedNonUnit (cs : List (List Lit)) (m : PModel) : Prop :=
  ∀ c ∈ cs, c.length > 1 → clauseFalsified m c = false

theorem not_negImplied_eq_unset (m : PartialModel) (l : Lit) (h : m.litImplied l = false) :
    (!m.litNegImplied l) = litUnset m.toSpec l := by
  simp only [PartialModel.litImplied, PartialModel.litNegImplied, litUnset, PartialModel.toSpec] at h ⊢
  cases hg : m.get l.var with
  | none => simp
  | some b =>
    rw [hg] at h
    cases b <;> cases hp : l.pol <;> simp_all

theorem not_any_mem {β : Type} {f : β → Bool} {l : List β} (h : l.any f = false) {x : β}
    (hx : x ∈ l) : f x = false := by
  cases hh : f x
  · rfl
  · have := List.any_eq_true.mpr ⟨x, hx, hh⟩
    rw [h] at this; cases this

theorem any_implied_eq (m : PartialModel) (wcl : List (Nat × Lit)) :
    wcl.any (fun p => m.litImplied p.2) = (wcl.map Prod.snd).any (litTrue m.toSpec) := by
  rw [List.any_map]
  apply List.any_congr rfl
  intro p
  simp [Function.comp, litImplied_eq]

/-- `activeOf` of a weighted clause, read off the clause's entry in the positional residual -/
theorem activeOf_eq_of_residual {m1 m2 : PartialModel} {wcl : List (Nat × Lit)}
    (h : (if decide ((wcl.map Prod.snd).length > 1) && !(wcl.map Prod.snd).any (litTrue m1.toSpec)
          then some ((wcl.map Prod.snd).map fun l => if litUnset m1.toSpec l then some l else none) else none) =
         (if decide ((wcl.map Prod.snd).length > 1) && !(wcl.map Prod.snd).any (litTrue m2.toSpec)
          then some ((wcl.map Prod.snd).map fun l => if litUnset m2.toSpec l then some l else none) else none)) :
    activeOf m1 wcl = activeOf m2 wcl := by
  simp only [activeOf, any_implied_eq]
  simp only [List.length_map] at h
  by_cases hlen : wcl.length > 1
  · simp only [hlen, decide_true, Bool.true_and] at h ⊢
    cases h1 : (wcl.map Prod.snd).any (litTrue m1.toSpec) <;>
      cases h2 : (wcl.map Prod.snd).any (litTrue m2.toSpec) <;>
      simp only [h1, h2, Bool.not_true, Bool.not_false, Bool.false_eq_true, if_false, if_true] at h ⊢
    · -- both unsatisfied: the masks agree
      simp only [Option.some.injEq, List.map_map] at h
      have hmask := List.map_inj_left.mp h
      congr 1
      apply List.filter_congr
      intro p hp
      have hp1 : m1.litImplied p.2 = false := by
        rw [← any_implied_eq] at h1
        exact not_any_mem h1 hp
      have hp2 : m2.litImplied p.2 = false := by
        rw [← any_implied_eq] at h2
        exact not_any_mem h2 hp
      rw [not_negImplied_eq_unset m1 _ hp1, not_negImplied_eq_unset m2 _ hp2]
      have := hmask p hp
      simp only [Function.comp] at this
      cases u1 : litUnset m1.toSpec p.2 <;> cases u2 : litUnset m2.toSpec p.2 <;> simp_all
    · cases h
    · cases h
  · simp [hlen]

/-- **if**: the active primes depend only on the positional residual -/
theorem activeWeights_of_residualOcc (cs : List (List Lit)) (m1 m2 : PartialModel)
    (h : residualOcc cs m1.toSpec = residualOcc cs m2.toSpec) :
    activeWeights cs m1 = activeWeights cs m2 := by
  simp only [activeWeights, List.flatMap]
  congr 1
  apply List.map_congr_left
  intro wcl hw
  apply activeOf_eq_of_residual
  have hc : wcl.map Prod.snd ∈ cs := by
    have := List.mem_map_of_mem (f := fun wcl => wcl.map Prod.snd) hw
    rwa [weightCnf_shape] at this
  exact List.map_inj_left.mp h _ hc

/-! ## only if: the active primes determine the positional residual -/

theorem sublist_flatMap {β : Type} {f g : β → List Nat} : ∀ (l : List β),
    (∀ b ∈ l, (f b).Sublist (g b)) → (l.flatMap f).Sublist (l.flatMap g)
  | [], _ => List.Sublist.refl _
  | b :: l, h => by
    simp only [List.flatMap_cons]
    exact List.Sublist.append (h b List.mem_cons_self)
      (sublist_flatMap l fun b' hb' => h b' (List.mem_cons_of_mem _ hb'))

theorem activeOf_sublist (m : PartialModel) (wcl : List (Nat × Lit)) :
    (activeOf m wcl).Sublist (wcl.map Prod.fst) := by
  simp only [activeOf]
  split
  · exact List.Sublist.map _ List.filter_sublist
  · exact List.nil_sublist _

theorem activeWeights_sublist (cs : List (List Lit)) (m : PartialModel) :
    (activeWeights cs m).Sublist (allW (weightCnf cs 1)) :=
  sublist_flatMap _ fun wcl _ => activeOf_sublist m wcl

theorem inj_of_nodup_map {β γ : Type} (f : β → γ) : ∀ {l : List β}, (l.map f).Nodup →
    ∀ a ∈ l, ∀ b ∈ l, f a = f b → a = b
  | x :: l, h, a, ha, b, hb, e => by
    simp only [List.map_cons, List.nodup_cons, List.mem_map, not_exists, not_and] at h
    rcases List.mem_cons.mp ha with e1 | ha' <;> rcases List.mem_cons.mp hb with e2 | hb'
    · rw [e1, e2]
    · rw [e1] at e; exact absurd e.symm (h.1 b hb')
    · rw [e2] at e; exact absurd e (h.1 a ha')
    · exact inj_of_nodup_map f h.2 a ha' b hb' e

/-- clauses sharing a prime are the same clause -/
theorem clause_unique : ∀ {wc : List (List (Nat × Lit))}, (allW wc).Nodup →
    ∀ a ∈ wc, ∀ b ∈ wc, ∀ x, x ∈ a.map Prod.fst → x ∈ b.map Prod.fst → a = b
  | c :: wc, h, a, ha, b, hb, x, xa, xb => by
    simp only [allW, List.flatMap_cons] at h
    obtain ⟨_, h2, h3⟩ := List.nodup_append.mp h
    have hmem : ∀ d ∈ wc, x ∈ d.map Prod.fst → x ∈ wc.flatMap fun wcl => wcl.map Prod.fst :=
      fun d hd hx => List.mem_flatMap.mpr ⟨d, hd, hx⟩
    rcases List.mem_cons.mp ha with e1 | ha' <;> rcases List.mem_cons.mp hb with e2 | hb'
    · rw [e1, e2]
    · rw [e1] at xa; exact absurd rfl (h3 x xa x (hmem b hb' xb))
    · rw [e2] at xb; exact absurd rfl (h3 x xb x (hmem a ha' xa))
    · exact clause_unique (wc := wc) h2 a ha' b hb' x xa xb

/-- membership of the prime of an occurrence in the active list -/
theorem mem_activeWeights {cs : List (List Lit)} {m : PartialModel} {wcl : List (Nat × Lit)}
    (hw : wcl ∈ weightCnf cs 1) {p : Nat × Lit} (hp : p ∈ wcl) :
    p.1 ∈ activeWeights cs m ↔
      (wcl.length > 1 ∧ wcl.any (fun q => m.litImplied q.2) = false) ∧ m.litNegImplied p.2 = false := by
  have hnd : (allW (weightCnf cs 1)).Nodup := VarSet.nodup_of_sorted (weightCnf_spec cs 1).1
  have hndc : (wcl.map Prod.fst).Nodup := by
    have hsub : (wcl.map Prod.fst).Sublist (allW (weightCnf cs 1)) := by
      have : ∀ (L : List (List (Nat × Lit))), wcl ∈ L → (wcl.map Prod.fst).Sublist (allW L) := by
        intro L
        induction L with
        | nil => intro h; cases h
        | cons c L ih =>
          intro h
          simp only [allW, List.flatMap_cons]
          rcases List.mem_cons.mp h with rfl | h
          · exact List.sublist_append_left _ _
          · exact (ih h).trans (List.sublist_append_right _ _)
      exact this _ hw
    exact List.Pairwise.sublist hsub hnd
  constructor
  · intro h
    obtain ⟨wcl', hw', hin⟩ := List.mem_flatMap.mp h
    have hin' : p.1 ∈ wcl'.map Prod.fst := (activeOf_sublist m wcl').subset hin
    have : wcl' = wcl := clause_unique hnd wcl' hw' wcl hw p.1 hin' (List.mem_map_of_mem hp)
    subst this
    simp only [activeOf] at hin
    split at hin
    · rename_i hcond
      simp only [Bool.and_eq_true, decide_eq_true_eq, Bool.not_eq_true'] at hcond
      obtain ⟨q, hq, hqp⟩ := List.mem_map.mp hin
      have hq' := List.mem_filter.mp hq
      have : q = p := inj_of_nodup_map Prod.fst hndc q hq'.1 p hp hqp
      subst this
      exact ⟨hcond, by simpa using hq'.2⟩
    · cases hin
  · rintro ⟨⟨h1, h2⟩, h3⟩
    apply List.mem_flatMap.mpr
    refine ⟨wcl, hw, ?_⟩
    simp only [activeOf, h1, h2, decide_true, Bool.not_false, Bool.and_self, if_true]
    exact List.mem_map_of_mem (List.mem_filter.mpr ⟨hp, by simp [h3]⟩)

/-- **only if** (on the level of the unreduced lists): equal active primes force equal
positional residuals, provided neither model falsifies a non-unit clause -/
theorem residualOcc_of_activeWeights (cs : List (List Lit)) (m1 m2 : PartialModel)
    (hf1 : NoFalsifiedNonUnit cs m1.toSpec) (hf2 : NoFalsifiedNonUnit cs m2.toSpec)
    (h : activeWeights cs m1 = activeWeights cs m2) :
    residualOcc cs m1.toSpec = residualOcc cs m2.toSpec := by
  apply List.map_inj_left.mpr
  intro c hc
  -- the weighted clause sitting at (one of) the position(s) of `c`
  obtain ⟨wcl, hw, rfl⟩ : ∃ wcl ∈ weightCnf cs 1, wcl.map Prod.snd = c := by
    have : c ∈ (weightCnf cs 1).map (fun wcl => wcl.map Prod.snd) := by rw [weightCnf_shape]; exact hc
    obtain ⟨wcl, hw, e⟩ := List.mem_map.mp this
    exact ⟨wcl, hw, e⟩
  have key : ∀ p ∈ wcl,
      ((wcl.length > 1 ∧ wcl.any (fun q => m1.litImplied q.2) = false) ∧ m1.litNegImplied p.2 = false) ↔
      ((wcl.length > 1 ∧ wcl.any (fun q => m2.litImplied q.2) = false) ∧ m2.litNegImplied p.2 = false) := by
    intro p hp
    rw [← mem_activeWeights hw hp, ← mem_activeWeights hw hp, h]
  -- an unsatisfied, unfalsified non-unit clause has a literal that is not false
  have exists_unset : ∀ (m : PartialModel), NoFalsifiedNonUnit cs m.toSpec → wcl.length > 1 →
      ∃ p ∈ wcl, m.litNegImplied p.2 = false := by
    intro m hf hlen
    have := hf _ hc (by simpa using hlen)
    simp only [clauseFalsified, List.all_eq_false, List.mem_map] at this
    obtain ⟨l, ⟨p, hp, rfl⟩, hl⟩ := this
    refine ⟨p, hp, ?_⟩
    rw [litNegImplied_eq]; simpa using hl
  simp only [List.length_map, ← any_implied_eq]
  by_cases hlen : wcl.length > 1
  · simp only [hlen, decide_true, Bool.true_and]
    cases h1 : wcl.any (fun q => m1.litImplied q.2) <;> cases h2 : wcl.any (fun q => m2.litImplied q.2)
    · -- both unsatisfied
      simp only [Bool.not_false, if_true, Option.some.injEq, List.map_map]
      apply List.map_congr_left
      intro p hp
      have hp1 : m1.litImplied p.2 = false := not_any_mem h1 hp
      have hp2 : m2.litImplied p.2 = false := not_any_mem h2 hp
      have hk := key p hp
      simp only [hlen, h1, h2, true_and] at hk
      simp only [Function.comp, ← not_negImplied_eq_unset m1 _ hp1, ← not_negImplied_eq_unset m2 _ hp2]
      cases n1 : m1.litNegImplied p.2 <;> cases n2 : m2.litNegImplied p.2 <;> simp_all
    · exfalso
      obtain ⟨p, hp, hn⟩ := exists_unset m1 hf1 hlen
      have := (key p hp).mp ⟨⟨hlen, h1⟩, hn⟩
      rw [h2] at this; cases this.1.2
    · exfalso
      obtain ⟨p, hp, hn⟩ := exists_unset m2 hf2 hlen
      have := (key p hp).mpr ⟨⟨hlen, h2⟩, hn⟩
      rw [h1] at this; cases this.1.2
    · rfl
  · simp [hlen]

/-- all active primes are primes from the strictly ascending stream -/
theorem activeWeights_sorted (cs : List (List Lit)) (m : PartialModel) :
    (activeWeights cs m).Pairwise (· < ·) :=
  List.Pairwise.sublist (activeWeights_sublist cs m) (weightCnf_spec cs 1).1

theorem activeWeights_prime (cs : List (List Lit)) (m : PartialModel) :
    ∀ x ∈ activeWeights cs m, Prime x := fun x hx =>
  isPrimeB_prime ((weightCnf_spec cs 1).2 x ((activeWeights_sublist cs m).subset hx)).2

theorem lprod_activeWeights_le (cs : List (List Lit)) (m : PartialModel) :
    lprod (activeWeights cs m) ≤ lprod (allW (weightCnf cs 1)) :=
  lprod_le_of_sublist (activeWeights_sublist cs m) fun x hx => by
    have := ((weightCnf_spec cs 1).2 x hx).1; omega

/-- unique factorisation: below the wrap-around bound the reduced products determine the
active lists -/
theorem activeWeights_of_hash_eq (cs : List (List Lit)) (m1 m2 : PartialModel)
    (hb : lprod (allW (weightCnf cs 1)) < M128)
    (h : lprod (activeWeights cs m1) % M128 = lprod (activeWeights cs m2) % M128) :
    activeWeights cs m1 = activeWeights cs m2 := by
  have l1 := Nat.lt_of_le_of_lt (lprod_activeWeights_le cs m1) hb
  have l2 := Nat.lt_of_le_of_lt (lprod_activeWeights_le cs m2) hb
  rw [Nat.mod_eq_of_lt l1, Nat.mod_eq_of_lt l2] at h
  exact lprod_inj_sorted (activeWeights_sorted cs m1) (activeWeights_sorted cs m2)
    (activeWeights_prime cs m1) (activeWeights_prime cs m2) h

theorem residual_cons (c : List Lit) (L : List (List Lit)) (m : PModel) :
    residual (c :: L) m =
      if c.any (litTrue m) then residual L m
      else c.filter (fun l => !litFalse m l) :: residual L m := by
  simp only [residual, List.filter_cons]
  cases c.any (litTrue m) <;> simp

/-- in an unsatisfied clause "not false" is "unset" -/
theorem filter_notFalse_eq (m : PModel) : ∀ (c : List Lit), c.any (litTrue m) = false →
    c.filter (fun l => !litFalse m l) =
      (c.map fun l => if litUnset m l then some l else none).filterMap id
  | [], _ => rfl
  | l :: c, hs => by
    simp only [List.any_cons, Bool.or_eq_false_iff] at hs
    have hu : (!litFalse m l) = litUnset m l := by
      have h1 := hs.1
      simp only [litTrue, litFalse, litUnset] at h1 ⊢
      cases hm : m l.var with
      | none => simp
      | some b => rw [hm] at h1; cases b <;> cases hp : l.pol <;> simp_all
    simp only [List.filter_cons, List.map_cons, List.filterMap_cons, hu, filter_notFalse_eq m c hs.2]
    cases litUnset m l <;> simp

theorem residual_nonUnit_eq (m : PModel) : ∀ (cs : List (List Lit)),
    residual (cs.filter fun c => decide (c.length > 1)) m =
      ((residualOcc cs m).filterMap id).map (fun mask => mask.filterMap id)
  | [] => rfl
  | c :: cs => by
    have ih := residual_nonUnit_eq m cs
    by_cases hlen : c.length > 1
    · have e2 : (c :: cs).filter (fun c => decide (c.length > 1)) =
          c :: cs.filter (fun c => decide (c.length > 1)) := by simp [hlen]
      cases hs : c.any (litTrue m)
      · have e1 : residualOcc (c :: cs) m =
            some (c.map fun l => if litUnset m l then some l else none) :: residualOcc cs m := by
          simp only [residualOcc, List.map_cons, hs, hlen, decide_true, Bool.not_false, Bool.and_true,
            if_true]
        rw [e1, e2, residual_cons, hs, ih, filter_notFalse_eq m c hs]
        rfl
      · have e1 : residualOcc (c :: cs) m = none :: residualOcc cs m := by
          simp only [residualOcc, List.map_cons, hs, Bool.not_true, Bool.and_false, Bool.false_eq_true,
            if_false]
        rw [e1, e2, residual_cons, hs, ih]
        rfl
    · have e2 : (c :: cs).filter (fun c => decide (c.length > 1)) =
          cs.filter (fun c => decide (c.length > 1)) := by simp [hlen]
      have e1 : residualOcc (c :: cs) m = none :: residualOcc cs m := by
        simp [residualOcc, hlen]
      rw [e1, e2, ih]
      rfl

/-- the positional residual determines the syntactic residual (`Spec.residual`) of the non-unit
clauses -/
theorem residual_of_residualOcc (cs : List (List Lit)) (m1 m2 : PModel)
    (h : residualOcc cs m1 = residualOcc cs m2) :
    residual (cs.filter fun c => decide (c.length > 1)) m1 =
      residual (cs.filter fun c => decide (c.length > 1)) m2 := by
  rw [residual_nonUnit_eq, residual_nonUnit_eq, h]

/-! ## the prime stream, concretely -/

theorem findPrime_le (c : Nat) (h : ∃ p, c ≤ p ∧ isPrimeB p = true) :
    ∀ q, c ≤ q → isPrimeB q = true → findPrime c h ≤ q := by
  induction c, h using findPrime.induct with
  | case1 c h hp => intro q hq _; rw [findPrime, dif_pos hp]; exact hq
  | case2 c h hp ih =>
    intro q hq hqp
    rw [findPrime, dif_neg hp]
    have : c ≠ q := fun e => hp (e ▸ hqp)
    exact ih q (by omega) hqp

/-- `nextPrime p` is the least prime above `p` -/
theorem nextPrime_eq {p q : Nat} (hq : isPrimeB q = true) (hlt : p < q)
    (hnone : ∀ x, x < q → p < x → isPrimeB x = false) : nextPrime p = q := by
  have h1 := nextPrime_gt p
  have h2 := nextPrime_prime p
  have h3 : nextPrime p ≤ q := findPrime_le _ _ q hlt hq
  apply Classical.byContradiction
  intro hne
  have := hnone (nextPrime p) (by omega) h1
  rw [h2] at this; cases this

theorem nextPrime_1 : nextPrime 1 = 2 := nextPrime_eq (by decide) (by decide) (by decide)
theorem nextPrime_2 : nextPrime 2 = 3 := nextPrime_eq (by decide) (by decide) (by decide)
theorem nextPrime_3 : nextPrime 3 = 5 := nextPrime_eq (by decide) (by decide) (by decide)
theorem nextPrime_5 : nextPrime 5 = 7 := nextPrime_eq (by decide) (by decide) (by decide)
theorem nextPrime_7 : nextPrime 7 = 11 := nextPrime_eq (by decide) (by decide) (by decide)
theorem nextPrime_11 : nextPrime 11 = 13 := nextPrime_eq (by decide) (by decide) (by decide)

theorem primesFrom_add : ∀ (a b p : Nat),
    primesFrom (a + b) p = primesFrom a p ++ primesFrom b ((primesFrom a p).getLastD p)
  | 0, b, p => by simp [primesFrom]
  | a + 1, b, p => by
    have e : a + 1 + b = (a + b) + 1 := by omega
    rw [e, primesFrom, primesFrom, primesFrom_add a b (nextPrime p)]
    simp only [List.cons_append, List.cons.injEq, true_and]
    congr 2
    cases h : primesFrom a (nextPrime p) <;> simp [List.getLastD]

theorem weightClause_fst : ∀ (c : List Lit) (p : Nat),
    (weightClause c p).1.map Prod.fst = primesFrom c.length p ∧
    (weightClause c p).2 = (primesFrom c.length p).getLastD p
  | [], p => by simp [weightClause, primesFrom]
  | l :: ls, p => by
    obtain ⟨h1, h2⟩ := weightClause_fst ls (nextPrime p)
    simp only [weightClause, List.map_cons, List.length_cons, primesFrom, h1, h2, true_and]
    cases h : primesFrom ls.length (nextPrime p) <;> simp [List.getLastD]

/-- literal occurrence number `k` (in clause order) carries the `k`-th prime -/
theorem allW_weightCnf : ∀ (cs : List (List Lit)) (p : Nat),
    allW (weightCnf cs p) = primesFrom (cs.map List.length).sum p
  | [], p => by simp [weightCnf, allW, primesFrom]
  | c :: cs, p => by
    obtain ⟨h1, h2⟩ := weightClause_fst c p
    have ih := allW_weightCnf cs (weightClause c p).2
    simp only [allW, weightCnf, List.flatMap_cons, List.map_cons, List.sum_cons] at ih ⊢
    rw [primesFrom_add, h1, ih, h2]

theorem allW_eq_firstPrimes (cs : List (List Lit)) :
    allW (weightCnf cs 1) = firstPrimes (cs.map List.length).sum := allW_weightCnf cs 1

/-! ## histories do not panic under the natural preconditions (non-vacuity of `Reach`) -/

/-- in a reachable state with at least one level, `decide` of an in-range label is defined and
updates the current model -/
theorem step_decide_defined {cs : List (List Lit)} {nv : Nat} {d : HDriver} (hr : Reach cs nv d)
    {m : PartialModel} {r : List PartialModel} (hm : d.models = m :: r) (l : Lit) (hl : l.var < nv) :
    ∃ d', d.step (.decide l) = some d' ∧ d'.models = m.set l.var l.pol :: r := by
  have hinv := inv_of_reach hr
  have hlook := tbl_lookup hinv l
  simp only [hl, if_true] at hlook
  have hdec := decide_eq d.h l _ hlook
  have hlv := hinv.levels
  cases d with | mk h models =>
  cases h with | mk w st p n =>
  simp only at hm hlv hdec
  subst hm
  cases hlv with
  | cons h1 h2 =>
    simp only at hdec
    rename_i top st
    have hstep : HDriver.step ⟨⟨w, top :: st, p, n⟩, m :: r⟩ (.decide l) =
        some ⟨⟨w, top.filter (fun i => !(clausesWith cs l).contains i) :: st, p, n⟩,
          m.set l.var l.pol :: r⟩ := by
      simp only [HDriver.step, hdec, Option.map_some]
    exact ⟨_, hstep, rfl⟩

theorem step_push_defined {cs : List (List Lit)} {nv : Nat} {d : HDriver} (hr : Reach cs nv d)
    {m : PartialModel} {r : List PartialModel} (hm : d.models = m :: r) :
    ∃ d', d.step .push = some d' ∧ d'.models = m :: m :: r := by
  have hlv := (inv_of_reach hr).levels
  cases d with | mk h models =>
  cases h with | mk w st p n =>
  simp only at hm hlv
  subst hm
  cases hlv with
  | cons h1 h2 =>
    rename_i top st
    have hstep : HDriver.step ⟨⟨w, top :: st, p, n⟩, m :: r⟩ .push =
        some ⟨⟨w, top :: top :: st, p, n⟩, m :: m :: r⟩ := by
      simp only [HDriver.step, CnfHasher.push, Option.map_some]
    exact ⟨_, hstep, rfl⟩

end CnfUtil
