import RsddModel.Spec.UnitProp
import RsddModel.Lemmas.UnitPropWatch
import RsddModel.Lemmas.UnitPropPrimes
/-!
# Invariant of the `SATSolver` model over arbitrary decide/pop histories (C09)

`Inv s ds`: `s` is a solver state whose stack carries, above the dummy bottom state, one state
for construction and one per decision in `ds` (newest first). It is established by
`Solver.new` (`inv_new`) and preserved by `decide` (both outcomes) and by `pop` of a decision.
-/
namespace UnitProp
open Spec

/-! ## which variables get assigned -/

theorem LoopRel.assigned {cnf rep wl m l idx wl' r} (h : LoopRel cnf rep wl m l idx wl' r)
    (hv : WatchValid cnf wl) :
    ∀ m', r = some m' → ∀ x, m' x ≠ none → m x ≠ none ∨ ∃ c, c ∈ cnf ∧ ∃ lit, lit ∈ c ∧ lit.var = x := by
  induction h with
  | done _ => intro m' e x hx; cases e; exact .inl hx
  | skip _ _ _ ih => exact ih hv
  | conflict _ _ _ => intro m' e; cases e
  | unitConflict _ _ _ _ _ => intro m' e; cases e
  | @unitOk wl m l idx u wl1 m1 wl' r hlt hs hf h1 _ ih1 ih2 =>
    intro m' e x hx
    have humem : u ∈ curClause cnf wl l idx := by
      have : u ∈ (curClause cnf wl l idx).filter (litUnset m) := by rw [hf]; simp
      exact (List.mem_filter.mp this).1
    rcases ih2 (h1.valid hv) m' e x hx with h | h
    · rcases ih1 hv m1 rfl x h with h | h
      · by_cases ex : x = u.var
        · exact .inr ⟨_, curClause_mem hv hlt, u, humem, ex.symm⟩
        · rw [pset_other _ _ ex] at h; exact .inl h
      · exact .inr h
    · exact .inr h
  | move hlt _ _ _ ih => exact ih (hv.moveWatch hlt)

theorem DecideRel.assigned {cnf rep wl m l wl' m'} (h : DecideRel cnf rep wl m l wl' (some m'))
    (hv : WatchValid cnf wl) :
    ∀ x, m' x ≠ none → m x ≠ none ∨ x = l.var ∨ ∃ c, c ∈ cnf ∧ ∃ lit, lit ∈ c ∧ lit.var = x := by
  cases h with
  | same _ => intro x hx; exact .inl hx
  | fresh _ h =>
    intro x hx
    rcases h.assigned hv m' rfl x hx with h | h
    · by_cases ex : x = l.var
      · exact .inr (.inl ex)
      · rw [pset_other _ _ ex] at h; exact .inl h
    · exact .inr (.inr h)

theorem foldl_max_inner : ∀ (c : Clause) (m0 : Nat),
    m0 ≤ c.foldl (fun m l => max m (l.var + 1)) m0
    ∧ ∀ l, l ∈ c → l.var + 1 ≤ c.foldl (fun m l => max m (l.var + 1)) m0
  | [], m0 => by simp
  | a :: t, m0 => by
    obtain ⟨h1, h2⟩ := foldl_max_inner t (max m0 (a.var + 1))
    simp only [List.foldl_cons]
    refine ⟨by omega, ?_⟩
    intro l hl
    rcases List.mem_cons.mp hl with rfl | hl
    · omega
    · exact h2 l hl

theorem foldl_max_outer : ∀ (cs : Cnf) (m0 : Nat),
    m0 ≤ cs.foldl (fun m c => c.foldl (fun m l => max m (l.var + 1)) m) m0
    ∧ ∀ c, c ∈ cs → ∀ l, l ∈ c →
        l.var + 1 ≤ cs.foldl (fun m c => c.foldl (fun m l => max m (l.var + 1)) m) m0
  | [], m0 => by simp
  | a :: t, m0 => by
    obtain ⟨h1, h2⟩ := foldl_max_outer t (a.foldl (fun m l => max m (l.var + 1)) m0)
    obtain ⟨g1, g2⟩ := foldl_max_inner a m0
    simp only [List.foldl_cons]
    refine ⟨by omega, ?_⟩
    intro c hc l hl
    rcases List.mem_cons.mp hc with rfl | hc
    · have := g2 l hl; omega
    · exact h2 c hc l hl

theorem var_lt_numVars {cnf : Cnf} {c : Clause} {l : Lit} (hc : c ∈ cnf) (hl : l ∈ c) :
    l.var < cnfNumVars cnf := by
  have := (foldl_max_outer cnf 0).2 c hc l hl
  unfold cnfNumVars; omega

/-! ## the invariant -/

/-- what holds of every state above the dummy bottom state (independently of the watch lists) -/
structure LevelOK (cnf : Cnf) (clauses : List WClause) (numVars : Nat) (st : SatState) (ds : List Lit) :
    Prop where
  /-- every assigned literal is entailed by the CNF and the decisions -/
  entailed : ∀ x b, st.model x = some b → EntailsFrom cnf ds ⟨x, b⟩
  /-- the decisions hold -/
  decided : ∀ d, d ∈ ds → st.model d.var = some d.pol
  bounded : ∀ x, st.model x ≠ none → x < numVars
  /-- the stored hash is the product of the removed literal occurrences, modulo 2^128 -/
  hash : st.hash = hashOf clauses st.model % M128
  /-- the stored set is exactly the set of clauses with a true literal -/
  sat : ∀ i, st.sat i = satOf clauses st.model i
  units : UnitsTrue cnf st.model

/-- the stack: dummy bottom state, the state after construction, one state per decision -/
inductive StackOK (cnf : Cnf) (clauses : List WClause) (numVars : Nat) : List SatState → List Lit → Prop
  | base {st} : LevelOK cnf clauses numVars st [] → StackOK cnf clauses numVars [st, initState] []
  | push {st top rest d ds} : StackOK cnf clauses numVars (top :: rest) ds →
      LevelOK cnf clauses numVars st (d :: ds) → PExt top.model st.model →
      StackOK cnf clauses numVars (st :: top :: rest) (d :: ds)

structure Inv (s : Solver) (ds : List Lit) : Prop where
  numVars : s.numVars = cnfNumVars s.cnf
  clauses : s.clauses = weighClauses (normClauses s.cnf) 1
  nonempty : s.cnf.any List.isEmpty = false
  stack : StackOK s.cnf s.clauses s.numVars s.stack ds
  valid : WatchValid s.cnf s.wl
  watch : ∀ st, st ∈ s.stack → WatchOK s.cnf s.wl st.model
  two : CnfNormal s.cnf → TwoWatch s.cnf s.wl
  fuel : s.fuel = defaultFuel s.cnf

theorem StackOK.top {cnf clauses numVars stack ds} (h : StackOK cnf clauses numVars stack ds) :
    ∃ top rest, stack = top :: rest ∧ rest ≠ [] ∧ LevelOK cnf clauses numVars top ds := by
  cases h with
  | base h => exact ⟨_, _, rfl, by simp, h⟩
  | push _ h _ => exact ⟨_, _, rfl, by simp, h⟩

theorem StackOK.length {cnf clauses numVars stack ds} (h : StackOK cnf clauses numVars stack ds) :
    stack.length = ds.length + 2 := by
  induction h with
  | base _ => rfl
  | push _ _ _ ih => simp [ih]

/-- every state of the stack is below the top state -/
theorem StackOK.pext_top {cnf clauses numVars stack ds} (h : StackOK cnf clauses numVars stack ds) :
    ∀ top rest, stack = top :: rest → ∀ st, st ∈ stack → PExt st.model top.model := by
  induction h with
  | @base st _ =>
    intro top rest e st' hst'
    cases e
    rcases List.mem_cons.mp hst' with rfl | h
    · exact PExt.refl _
    · have : st' = initState := by simpa using h
      subst this
      intro x b hx; simp [initState, PModel.empty] at hx
  | @push st top rest d ds _ _ hext ih =>
    intro top' rest' e st' hst'
    cases e
    rcases List.mem_cons.mp hst' with rfl | h
    · exact PExt.refl _
    · exact (ih _ _ rfl st' h).trans hext

theorem hashOf_empty (clauses : List WClause) : hashOf clauses PModel.empty = 1 := by
  unfold hashOf
  apply bigp_eq_one
  intro i _
  unfold contrib
  apply bigp_eq_one
  intro lw _
  have : removed PModel.empty (clauses.getD i []) lw = false := by
    simp [removed, wcSat, litTrue, litFalse, PModel.empty]
  rw [this]; rfl

theorem satOf_empty (clauses : List WClause) (i : Nat) : satOf clauses PModel.empty i = false := by
  simp [satOf, wcSat, litTrue, PModel.empty]

theorem initState_hash (clauses : List WClause) :
    initState.hash = hashOf clauses initState.model % M128 := by
  show 1 = hashOf clauses PModel.empty % M128
  rw [hashOf_empty]; rfl

theorem unitsTrue_mono {cnf : Cnf} {m m' : PModel} (h : PExt m m') (hu : UnitsTrue cnf m) :
    UnitsTrue cnf m' := fun u hc => litTrue_mono h (hu u hc)

theorem extends_of_entailed {cnf : Cnf} {ds : List Lit} {m : PModel}
    (h : ∀ x b, m x = some b → EntailsFrom cnf ds ⟨x, b⟩) {a : Assign} (ha : cnfSat a cnf = true)
    (hd : ∀ d, d ∈ ds → litSat a d = true) : Extends a m := by
  intro x b hx
  have := h x b hx a ha hd
  simpa [litSat] using this

/-! ## unfolding the solver operations -/

/-- the state pushed by a successful `decide` from `top` -/
def pushState (s : Solver) (top : SatState) (m' : PModel) : SatState :=
  { model := m'
    hash := (updateHashAndSatSet s.clauses s.numVars top m').1
    sat := (updateHashAndSatSet s.clauses s.numVars top m').2 }

theorem decide_cases {s s' : Solver} {l : Lit} {r : DecisionResult} (h : s.decide l = .ok s' r) :
    ∃ top rest, s.stack = top :: rest ∧ ∃ wl' r', DecideRel s.cnf true s.wl top.model l wl' r' ∧
      ((r' = none ∧ r = .unsat ∧ s' = { s with wl := wl' }) ∨
       (∃ m', r' = some m' ∧ s' = { s with wl := wl', stack := pushState s top m' :: s.stack } ∧
          r = if satCount s.clauses.length (pushState s top m').sat = s.clauses.length then .sat else .unknown)) := by
  unfold Solver.decide Solver.decideWith at h
  split at h
  · cases h
  · next top rest hst =>
    refine ⟨top, rest, hst, ?_⟩
    split at h
    · cases h
    · next wl' hd =>
      cases h
      exact ⟨wl', none, decide_rel hd, .inl ⟨rfl, rfl, rfl⟩⟩
    · next wl' m' hd =>
      cases h
      exact ⟨wl', some m', decide_rel hd, .inr ⟨m', rfl, rfl, rfl⟩⟩

theorem new_cases {cnf : Cnf} {s : Solver} (h : Solver.new cnf = some (some s)) :
    cnf.any List.isEmpty = false ∧ ∃ wl m,
      DecideAllRel cnf true (impliedUnits cnf) (initWatches cnf 0 WL.empty) PModel.empty wl (some m) ∧
      s = { cnf := cnf, numVars := cnfNumVars cnf, fuel := defaultFuel cnf, wl := wl,
            clauses := weighClauses (normClauses cnf) 1,
            stack := [{ model := m
                        hash := (updateHashAndSatSet (weighClauses (normClauses cnf) 1) (cnfNumVars cnf) initState m).1
                        sat := (updateHashAndSatSet (weighClauses (normClauses cnf) 1) (cnfNumVars cnf) initState m).2 },
                      initState] } := by
  unfold Solver.new at h
  simp only [] at h
  split at h
  · cases h
  · cases h
  · next wl m hup =>
    cases h
    unfold upNew at hup
    split at hup
    · cases hup
    · next hne =>
      exact ⟨Bool.eq_false_iff.mpr hne, wl, m, decideAll_rel hup, rfl⟩

/-! ## the transitions preserve the invariant -/

theorem DecideAllRel.assigned {cnf rep us wl m wl' m'} (h : DecideAllRel cnf rep us wl m wl' (some m'))
    (hv : WatchValid cnf wl) (hus : ∀ u, u ∈ us → ∃ c, c ∈ cnf ∧ u ∈ c) :
    ∀ x, m' x ≠ none → m x ≠ none ∨ ∃ c, c ∈ cnf ∧ ∃ lit, lit ∈ c ∧ lit.var = x := by
  generalize hr : some m' = r at h
  induction h with
  | nil => cases hr; intro x hx; exact .inl hx
  | conflict _ => cases hr
  | @cons u us wl m wl1 m1 wl' r h1 _ ih =>
    intro x hx
    rcases ih (h1.valid hv) (fun u hu => hus u (by simp [hu])) hr x hx with h | h
    · rcases h1.assigned hv x h with h | h | h
      · exact .inl h
      · obtain ⟨c, hc, hu⟩ := hus u (by simp)
        exact .inr ⟨c, hc, u, hu, h.symm⟩
      · exact .inr h
    · exact .inr h

theorem levelOK_push {s : Solver} {top : SatState} {ds : List Lit} {l : Lit} {wl' : WL} {m' : PModel}
    (hnum : s.numVars = cnfNumVars s.cnf) (hcl : s.clauses = weighClauses (normClauses s.cnf) 1)
    (htop : LevelOK s.cnf s.clauses s.numVars top ds) (hv : WatchValid s.cnf s.wl)
    (hd : DecideRel s.cnf true s.wl top.model l wl' (some m')) (hl : l.var < s.numVars) :
    LevelOK s.cnf s.clauses s.numVars (pushState s top m') (l :: ds) := by
  have hext := hd.ext
  have hbounded : ∀ x, m' x ≠ none → x < s.numVars := by
    intro x hx
    rcases hd.assigned hv x hx with h | h | ⟨c, hc, lit, hlit, e⟩
    · exact htop.bounded x h
    · rw [h]; exact hl
    · rw [hnum, ← e]; exact var_lt_numVars hc hlit
  have hupd := update_spec (clauses := s.clauses) (numVars := s.numVars) (top := top) (new := m')
    (by rw [hcl]; exact solver_clauses_unique s.cnf 1) htop.hash htop.sat hext.1 hbounded
  refine ⟨?_, ?_, hbounded, hupd.1, hupd.2, unitsTrue_mono hext.1 htop.units⟩
  · intro x b hx a ha hds
    have he : Extends a top.model :=
      extends_of_entailed htop.entailed ha (fun d hd => hds d (by simp [hd]))
    obtain ⟨m'', e, he'⟩ := hd.sound hv a ha he (hds l (by simp))
    cases e
    have := he' x b hx
    simpa [litSat] using this
  · intro d hd'
    rcases List.mem_cons.mp hd' with rfl | hd'
    · exact hext.2
    · exact hext.1 _ _ (htop.decided d hd')

/-- a `decide` that reports UNSAT keeps the invariant (the stack is untouched, the watch lists
may have changed) -/
theorem inv_decide_unsat {s s' : Solver} {ds : List Lit} {l : Lit} (hI : Inv s ds)
    (h : s.decide l = .ok s' .unsat) : Inv s' ds ∧ s'.stack = s.stack := by
  obtain ⟨top, rest, hst, wl', r', hd, hcase⟩ := decide_cases h
  rcases hcase with ⟨_, _, rfl⟩ | ⟨m', _, _, hr⟩
  · refine ⟨⟨hI.numVars, hI.clauses, hI.nonempty, hI.stack, hd.valid hI.valid, ?_, fun hN => hd.twoWatch hN (hI.two hN), hI.fuel⟩, rfl⟩
    intro st hmem
    have hmem' : st ∈ s.stack := hmem
    exact WatchOK.lower hd.newWatches (hI.stack.pext_top top rest hst st hmem') (hI.watch st hmem')
  · split at hr <;> cases hr

/-- a successful `decide` pushes one state and keeps the invariant with the new decision -/
theorem inv_decide_ok {s s' : Solver} {ds : List Lit} {l : Lit} {r : DecisionResult} (hI : Inv s ds)
    (hl : l.var < s.numVars) (h : s.decide l = .ok s' r) (hr : r ≠ .unsat) :
    Inv s' (l :: ds) ∧ s'.stack.tail = s.stack := by
  obtain ⟨top, rest, hst, wl', r', hd, hcase⟩ := decide_cases h
  rcases hcase with ⟨_, h2, _⟩ | ⟨m', rfl, rfl, _⟩
  · exact absurd h2 hr
  · obtain ⟨top', rest', hst', hne, htop⟩ := hI.stack.top
    rw [hst] at hst'
    cases hst'
    have hlev := levelOK_push hI.numVars hI.clauses htop hI.valid hd hl
    refine ⟨⟨hI.numVars, hI.clauses, hI.nonempty, ?_, hd.valid hI.valid, ?_, fun hN => hd.twoWatch hN (hI.two hN), hI.fuel⟩, rfl⟩
    · show StackOK s.cnf s.clauses s.numVars (pushState s top m' :: s.stack) (l :: ds)
      rw [hst]
      have hs := hI.stack
      rw [hst] at hs
      exact .push hs hlev hd.ext.1
    · intro st hmem
      have hmem' : st ∈ pushState s top m' :: s.stack := hmem
      rcases List.mem_cons.mp hmem' with rfl | hmem'
      · exact hd.watchOK _ (hI.watch top (by rw [hst]; simp))
      · exact WatchOK.lower hd.newWatches (hI.stack.pext_top top rest hst st hmem') (hI.watch st hmem')

/-- popping a decision keeps the invariant -/
theorem inv_pop {s : Solver} {d : Lit} {ds : List Lit} (hI : Inv s (d :: ds)) : Inv s.pop ds := by
  have hs := hI.stack
  cases hst : s.stack with
  | nil => rw [hst] at hs; cases hs
  | cons st rest =>
    rw [hst] at hs
    cases hs with
    | push hrest _ _ =>
      refine ⟨hI.numVars, hI.clauses, hI.nonempty, ?_, hI.valid, ?_, hI.two, hI.fuel⟩
      · show StackOK s.cnf s.clauses s.numVars s.stack.tail ds
        rw [hst]; exact hrest
      · intro st' hmem
        have hmem' : st' ∈ s.stack.tail := hmem
        exact hI.watch st' (List.mem_of_mem_tail hmem')

/-- construction establishes the invariant -/
theorem inv_new {cnf : Cnf} {s : Solver} (h : Solver.new cnf = some (some s)) : Inv s [] ∧ s.cnf = cnf := by
  obtain ⟨hne, wl, m, hda, rfl⟩ := new_cases h
  have hv0 : WatchValid cnf (initWatches cnf 0 WL.empty) :=
    initWatches_valid cnf cnf 0 WL.empty (by simp) (watchValid_empty cnf)
  have hunits : ∀ u, u ∈ impliedUnits cnf → ∃ c, c ∈ cnf ∧ u ∈ c :=
    fun u hu => ⟨[u], mem_impliedUnits.mp hu, by simp⟩
  have hbounded : ∀ x, m x ≠ none → x < cnfNumVars cnf := by
    intro x hx
    rcases hda.assigned hv0 hunits x hx with h | ⟨c, hc, lit, hlit, e⟩
    · simp [PModel.empty] at h
    · rw [← e]; exact var_lt_numVars hc hlit
  have hupd := update_spec (clauses := weighClauses (normClauses cnf) 1) (numVars := cnfNumVars cnf)
    (top := initState) (new := m) (solver_clauses_unique cnf 1) (initState_hash _)
    (fun i => by rw [show initState.model = PModel.empty from rfl, satOf_empty]; rfl)
    (by intro x b hx; simp [initState, PModel.empty] at hx) hbounded
  refine ⟨⟨rfl, rfl, hne, ?_, hda.valid hv0, ?_, fun hN => hda.twoWatch hN (initWatches_twoWatch cnf hN), rfl⟩, rfl⟩
  · refine .base ⟨?_, by simp, hbounded, hupd.1, hupd.2, ?_⟩
    · intro x b hx a ha _
      obtain ⟨m'', e, he'⟩ := hda.sound hv0 a ha (by intro y v hy; simp [PModel.empty] at hy)
        (fun u hu => by
          have := cnfSat_mem ha (mem_impliedUnits.mp hu)
          simpa [clauseSat] using this)
      cases e
      have := he' x b hx
      simpa [litSat] using this
    · intro u hu
      exact litTrue_iff.mpr (hda.ext.2 u (mem_impliedUnits.mpr hu))
  · intro st hmem
    have hmem' : st ∈ [({ model := m, hash := _, sat := _ } : SatState), initState] := hmem
    rcases List.mem_cons.mp hmem' with rfl | hmem'
    · exact hda.watchOK (watchOK_empty _ _)
    · have : st = initState := by simpa using hmem'
      subst this
      exact watchOK_empty _ _

end UnitProp
