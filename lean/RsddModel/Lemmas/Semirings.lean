import RsddModel.Model.Semirings
/-!
# Lemmas for C13: the shipped weight types are commutative semirings (rings, lattices)

* finite fields: `ffAdd_spec`, `ffMul_spec` (loop invariant of double-and-add), `ffSub_spec`,
  `ff_sub_add`, `ffNegate_spec`; the checked `u128` reading never fails on reduced operands when
  `P ≤ 2^127` (`ffAddC_eq`, `ffMulC_eq`, `ffMulLoopC_eq`, `ffSubC_eq`, `ffNegateC_eq`);
  `ffLaws : SROps.Laws (ffOpsFF P _)`; negative theorems for the original operations;
* `realLaws`, `ratLaws`, `boolLaws`, `euLaws`, `cxLaws`; subtraction inverts addition; lattice laws
  and order compatibility for reals and expected utility;
* truncated polynomials: invariant `PolyWF` (established by every constructor and preserved by
  every operation), coefficient characterisation `polyMul_coef` (truncated product = product
  modulo `X^maxCoeffs`), all eight laws for the derived structural equality (`polyLaws`).

Core Lean only (no Mathlib needed: `omega`, `grind`, `decide`).
-/
namespace Sem

/-! ## finite fields -/

theorem ffAdd_spec (P a b : Nat) : ffAdd P a b = (a + b) % P := by
  simp [ffAdd, ffNew]

theorem ffSub_spec' (P a b : Nat) (hb : b ≤ P) : ffSub P a b = (a + P - b) % P := by
  simp only [ffSub, ffNew, Nat.mod_mod]
  congr 1; omega

theorem ffSub_spec {P a b : Nat} (_ha : a < P) (hb : b < P) : ffSub P a b = (a + P - b) % P :=
  ffSub_spec' P a b (Nat.le_of_lt hb)

/-- loop invariant of double-and-add: `acc + a*b` is preserved modulo `P` -/
theorem ffMulLoop_spec (P : Nat) : ∀ (fuel a b acc : Nat), b < 2 ^ fuel → acc < P →
    ffMulLoop P fuel a b acc = (acc + a * b) % P := by
  intro fuel
  induction fuel with
  | zero =>
    intro a b acc hb hacc
    have : b = 0 := by omega
    subst this
    simp [ffMulLoop, Nat.mod_eq_of_lt hacc]
  | succ n ih =>
    intro a b acc hb hacc
    unfold ffMulLoop
    by_cases hb0 : b > 0
    · simp only [hb0, if_true]
      have hP : 0 < P := by omega
      have hshift : b >>> 1 = b / 2 := by simp [Nat.shiftRight_eq_div_pow]
      have hand : b &&& 1 = b % 2 := Nat.and_one_is_mod b
      have hlt : b / 2 < 2 ^ n := by rw [Nat.pow_succ] at hb; omega
      rw [hshift, hand]
      have hbdecomp : b = 2 * (b / 2) + b % 2 := by omega
      by_cases hodd : b % 2 = 1
      · simp only [hodd, beq_self_eq_true, if_true]
        rw [ih _ _ _ hlt (Nat.mod_lt _ hP)]
        have e : a * b = a + (a + a) * (b / 2) := by
          conv => lhs; rw [hbdecomp, hodd]
          grind
        rw [e, Nat.add_mod, Nat.mod_mod, Nat.mul_mod, Nat.mod_mod, ← Nat.mul_mod, ← Nat.add_mod,
          Nat.add_assoc]
      · have hev : b % 2 = 0 := by omega
        have hne : ((b % 2) == 1) = false := by simp [hev]
        simp only [hne, Bool.false_eq_true, if_false]
        rw [ih _ _ _ hlt hacc]
        have e : a * b = (a + a) * (b / 2) := by
          conv => lhs; rw [hbdecomp, hev]
          grind
        rw [e, Nat.add_mod acc, Nat.mul_mod, Nat.mod_mod, ← Nat.mul_mod, ← Nat.add_mod]
    · have : b = 0 := by omega
      subst this
      simp [Nat.mod_eq_of_lt hacc]

/-- `ffMul` is multiplication modulo `P` for every pair of `u128` operands (128 units of fuel
are enough for a 128-bit multiplier). -/
theorem ffMul_spec' {P a b : Nat} (hP : 0 < P) (hb : b < 2 ^ 128) : ffMul P a b = a * b % P := by
  unfold ffMul ffNew
  split
  · exact Nat.mod_mod _ _
  · rw [ffMulLoop_spec P 128 a b 0 hb hP]; simp

theorem ffMul_spec {P a b : Nat} (_ha : a < P) (hb : b < P) (h1 : 1 < P) (hP : P < 2 ^ 127) :
    ffMul P a b = a * b % P :=
  ffMul_spec' (by omega) (by omega)

/-! ### no overflow: the checked `u128` reading never fails on reduced operands -/

theorem cadd_some {a b : Nat} (h : a + b < 2 ^ 128) : cadd a b = some (a + b) := by simp [cadd, h]
theorem cmod_some {a P : Nat} (h : 0 < P) : cmod a P = some (a % P) := by
  simp [cmod]; omega
theorem csub_some {a b : Nat} (h : b ≤ a) : csub a b = some (a - b) := by simp [csub, h]

theorem ffNewC_eq {P : Nat} (hP : 0 < P) (v : Nat) : ffNewC P v = some (ffNew P v) := by
  simp [ffNewC, ffNew, cmod_some hP]

theorem ffAddC_eq {P a b : Nat} (ha : a < P) (hb : b < P) (hP : P ≤ 2 ^ 127) :
    ffAddC P a b = some (ffAdd P a b) := by
  have h0 : 0 < P := by omega
  simp [ffAddC, ffAdd, cadd_some (show a + b < 2 ^ 128 by omega), cmod_some h0, ffNewC_eq h0]

theorem ffSubC_eq {P a b : Nat} (ha : a < P) (hb : b < P) (hP : P ≤ 2 ^ 127) :
    ffSubC P a b = some (ffSub P a b) := by
  have h0 : 0 < P := by omega
  simp [ffSubC, ffSub, csub_some (Nat.le_of_lt hb), cadd_some (show a + (P - b) < 2 ^ 128 by omega),
    cmod_some h0, ffNewC_eq h0]

theorem ffNegateC_eq {P a : Nat} (ha : a < P) (hP : P ≤ 2 ^ 127) :
    ffNegateC P a = some (ffNegate P a) := by
  have h0 : 0 < P := by omega
  simp [ffNegateC, ffNegate, csub_some (Nat.le_of_lt ha),
    cadd_some (show P - a + 1 < 2 ^ 128 by omega), ffNewC_eq h0]

/-- every sum `acc + a` and `a + a` formed by the loop is below `2^128` (operands stay reduced and
`P ≤ 2^127`), and 128 iterations exhaust a 128-bit multiplier: the checked loop returns exactly
what the unbounded-integer loop returns. -/
theorem ffMulLoopC_eq (P : Nat) (hP : P ≤ 2 ^ 127) : ∀ (fuel a b acc : Nat), b < 2 ^ fuel → a < P →
    acc < P → ffMulLoopC P fuel a b acc = some (ffMulLoop P fuel a b acc) := by
  intro fuel
  induction fuel with
  | zero =>
    intro a b acc hb _ _
    have : b = 0 := by omega
    subst this; simp [ffMulLoopC, ffMulLoop]
  | succ n ih =>
    intro a b acc hb ha hacc
    have h0 : 0 < P := by omega
    unfold ffMulLoopC ffMulLoop
    by_cases hb0 : b > 0
    · simp only [hb0, if_true]
      have hlt : b >>> 1 < 2 ^ n := by
        rw [Nat.shiftRight_eq_div_pow, Nat.pow_succ] at *; omega
      have haa := cadd_some (show a + a < 2 ^ 128 by omega)
      have hca := cadd_some (show acc + a < 2 ^ 128 by omega)
      by_cases hodd : (b &&& 1 == 1) = true
      · simp only [hodd, if_true, haa, hca, cmod_some h0, Option.bind_eq_bind, Option.bind_some]
        exact ih _ _ _ hlt (Nat.mod_lt _ h0) (Nat.mod_lt _ h0)
      · simp only [hodd, Bool.false_eq_true, if_false, haa, cmod_some h0, Option.bind_eq_bind,
          Option.bind_some]
        exact ih _ _ _ hlt (Nat.mod_lt _ h0) hacc
    · simp [hb0]

/-- the repaired `Mul::mul` neither overflows nor runs out of loop iterations on reduced
operands when `P ≤ 2^127` -/
theorem ffMulC_eq {P a b : Nat} (ha : a < P) (hb : b < P) (hP : P ≤ 2 ^ 127) :
    ffMulC P a b = some (ffMul P a b) := by
  have h0 : 0 < P := by omega
  unfold ffMulC ffMul cmul
  split
  · rename_i prod h
    split at h
    · rename_i hlt
      cases h
      simp [hlt, cmod_some h0, ffNewC_eq h0]
    · cases h
  · rename_i h
    split at h
    · cases h
    · rename_i hlt
      simp only [hlt, if_false]
      rw [ffMulLoopC_eq P hP 128 a b 0 (by omega) ha h0]
      simp [ffNewC_eq h0]

theorem ffMulC_spec {P a b : Nat} (ha : a < P) (hb : b < P) (hP : P ≤ 2 ^ 127) :
    ffMulC P a b = some (a * b % P) := by
  rw [ffMulC_eq ha hb hP, ffMul_spec' (by omega) (by omega)]

/-! ### subtraction and `negate` -/

theorem ff_sub_add {P a b : Nat} (ha : a < P) (hb : b < P) : ffAdd P (ffSub P a b) b = a := by
  rw [ffAdd_spec, ffSub_spec' P a b (Nat.le_of_lt hb), Nat.mod_add_mod]
  have : a + P - b + b = a + P := by omega
  rw [this, Nat.add_mod_right, Nat.mod_eq_of_lt ha]

theorem ff_add_sub {P a b : Nat} (ha : a < P) (hb : b < P) : ffSub P (ffAdd P a b) b = a := by
  rw [ffAdd_spec, ffSub_spec' P _ b (Nat.le_of_lt hb)]
  have h : (a + b) % P + P - b = (a + b) % P + (P - b) := by omega
  rw [h, Nat.mod_add_mod]
  have : a + b + (P - b) = a + P := by omega
  rw [this, Nat.add_mod_right, Nat.mod_eq_of_lt ha]

/-- `negate` is "one minus `a`": `negate a + a = 1` -/
theorem ffNegate_spec {P a : Nat} (ha : a ≤ P) : ffAdd P (ffNegate P a) a = 1 % P := by
  rw [ffAdd_spec]; unfold ffNegate ffNew
  rw [Nat.mod_add_mod]
  have : P - a + 1 + a = 1 + P := by omega
  rw [this, Nat.add_mod_right]


/-! ### commutative-semiring laws on the carrier `FF P` (`P < 2^128`: a `u128` constant) -/

theorem FF.ext {P : Nat} {x y : FF P} (h : x.v = y.v) : x = y := by
  cases x; cases y; cases h; rfl

theorem FF.add_v {P : Nat} (x y : FF P) : (x.add y).v = (x.v + y.v) % P := ffAdd_spec _ _ _
theorem FF.mul_v {P : Nat} (hP : P < 2 ^ 128) (x y : FF P) : (x.mul y).v = x.v * y.v % P :=
  ffMul_spec' x.pos (Nat.lt_trans y.lt hP)

theorem ffLaws (P : Nat) (h0 : 0 < P) (hP : P < 2 ^ 128) : SROps.Laws (ffOpsFF P h0) where
  add_assoc a b c := by
    apply FF.ext; show ((a.add b).add c).v = (a.add (b.add c)).v
    simp only [FF.add_v, Nat.mod_add_mod, Nat.add_mod_mod, Nat.add_assoc]
  add_comm a b := by
    apply FF.ext; show (a.add b).v = (b.add a).v
    simp only [FF.add_v, Nat.add_comm]
  add_zero a := by
    apply FF.ext; show (a.add (FF.new h0 0)).v = a.v
    simp [FF.add_v, FF.new, ffNew, Nat.mod_eq_of_lt a.lt]
  mul_assoc a b c := by
    apply FF.ext; show ((a.mul b).mul c).v = (a.mul (b.mul c)).v
    simp only [FF.mul_v hP, Nat.mod_mul_mod, Nat.mul_mod_mod, Nat.mul_assoc]
  mul_comm a b := by
    apply FF.ext; show (a.mul b).v = (b.mul a).v
    simp only [FF.mul_v hP, Nat.mul_comm]
  mul_one a := by
    apply FF.ext; show (a.mul (FF.new h0 1)).v = a.v
    simp [FF.mul_v hP, FF.new, ffNew, Nat.mod_eq_of_lt a.lt]
  mul_zero a := by
    apply FF.ext; show (a.mul (FF.new h0 0)).v = (FF.new h0 0).v
    simp [FF.mul_v hP, FF.new, ffNew]
  left_distrib a b c := by
    apply FF.ext; show (a.mul (b.add c)).v = ((a.mul b).add (a.mul c)).v
    simp only [FF.mul_v hP, FF.add_v, Nat.mul_mod_mod, Nat.mod_add_mod, Nat.add_mod_mod, Nat.mul_add]

theorem FF.sub_add {P : Nat} (x y : FF P) : (x.sub y).add y = x :=
  FF.ext (ff_sub_add x.lt y.lt)

theorem FF.negate_add {P : Nat} (x : FF P) : x.negate.add x = FF.new x.pos 1 :=
  FF.ext (ffNegate_spec (Nat.le_of_lt x.lt))

/-! ### negative theorems: the original operations (finding F5) -/

/-- original `sub` is `|a - b|`: `(1 - 2) + 2 = 3 ≠ 1` in `F_7` -/
theorem ffSubOrig_wrong : ffAdd 7 (ffSubOrig 7 1 2) 2 ≠ 1 := by decide

/-- original `mul` wraps (release) for `U128_LARGE_1`, `a = b = P - 1` -/
theorem ffMulOrig_wrong :
    ffMulOrig 46084029846212370199652019757 46084029846212370199652019756
      46084029846212370199652019756
    ≠ 46084029846212370199652019756 * 46084029846212370199652019756
        % 46084029846212370199652019757 := by decide

/-- … and panics (debug) -/
theorem ffMulOrigC_overflows :
    ffMulOrigC 46084029846212370199652019757 46084029846212370199652019756
      46084029846212370199652019756 = none := by decide

/-- the repaired `sub` on the same witness -/
example : ffAdd 7 (ffSub 7 1 2) 2 = 1 := by decide

/-! ## reals / rationals -/

theorem realLaws : SROps.Laws realOps where
  add_assoc a b c := by simp only [realOps, realAdd]; grind
  add_comm a b := by simp only [realOps, realAdd]; grind
  add_zero a := by simp only [realOps, realAdd]; grind
  mul_assoc a b c := by simp only [realOps, realMul]; grind
  mul_comm a b := by simp only [realOps, realMul]; grind
  mul_one a := by simp only [realOps, realMul]; grind
  mul_zero a := by simp only [realOps, realMul]; grind
  left_distrib a b c := by simp only [realOps, realMul, realAdd]; grind

theorem ratLaws : SROps.Laws ratOps := realLaws

theorem real_sub_add (a b : Rat) : realAdd (realSub a b) b = a := by
  simp only [realAdd, realSub]; grind
theorem real_add_sub (a b : Rat) : realSub (realAdd a b) b = a := by
  simp only [realAdd, realSub]; grind

theorem realJoin_idem (a : Rat) : realJoin a a = a := by simp only [realJoin]; grind
theorem realJoin_comm (a b : Rat) : realJoin a b = realJoin b a := by simp only [realJoin]; grind
theorem realJoin_assoc (a b c : Rat) : realJoin (realJoin a b) c = realJoin a (realJoin b c) := by
  simp only [realJoin]; grind
theorem realMeet_idem (a : Rat) : realMeet a a = a := by simp only [realMeet]; grind
theorem realMeet_comm (a b : Rat) : realMeet a b = realMeet b a := by simp only [realMeet]; grind
theorem realMeet_assoc (a b c : Rat) : realMeet (realMeet a b) c = realMeet a (realMeet b c) := by
  simp only [realMeet]; grind

theorem real_order_compat {a b : Rat} (h : a ≤ b) :
    realJoin a b = b ∧ realChoose a b = b ∧ realMeet a b = a := by
  simp only [realChoose, realJoin, realMeet]; grind
theorem real_order_compat' {a b : Rat} (h : b ≤ a) :
    realJoin a b = a ∧ realChoose a b = a ∧ realMeet a b = b := by
  simp only [realChoose, realJoin, realMeet]; grind

/-- the declared (derived) order is `≤`/`<` on the value and is total -/
theorem realPartialCmp_lt {a b : Rat} : realPartialCmp a b = some .lt ↔ a < b := by
  simp only [realPartialCmp]; grind
theorem realPartialCmp_gt {a b : Rat} : realPartialCmp a b = some .gt ↔ b < a := by
  simp only [realPartialCmp]; grind
theorem realPartialCmp_eq {a b : Rat} : realPartialCmp a b = some .eq ↔ a = b := by
  simp only [realPartialCmp]; grind
theorem realPartialCmp_total (a b : Rat) : realPartialCmp a b ≠ none := by
  simp only [realPartialCmp]; grind

/-! ## Boolean -/

theorem boolLaws : SROps.Laws boolOps where
  add_assoc := by decide
  add_comm := by decide
  add_zero := by decide
  mul_assoc := by decide
  mul_comm := by decide
  mul_one := by decide
  mul_zero := by decide
  left_distrib := by decide

/-! ## expected utility -/

theorem EU.ext' {a b : EU} (h1 : a.p = b.p) (h2 : a.u = b.u) : a = b := by
  cases a; cases b; simp_all

theorem euLaws : SROps.Laws euOps where
  add_assoc a b c := by apply EU.ext' <;> simp only [euOps, euAdd] <;> grind
  add_comm a b := by apply EU.ext' <;> simp only [euOps, euAdd] <;> grind
  add_zero a := by apply EU.ext' <;> simp only [euOps, euAdd, euZero] <;> grind
  mul_assoc a b c := by apply EU.ext' <;> simp only [euOps, euMul] <;> grind
  mul_comm a b := by apply EU.ext' <;> simp only [euOps, euMul] <;> grind
  mul_one a := by apply EU.ext' <;> simp only [euOps, euMul, euOne] <;> grind
  mul_zero a := by apply EU.ext' <;> simp only [euOps, euMul, euZero] <;> grind
  left_distrib a b c := by apply EU.ext' <;> simp only [euOps, euMul, euAdd] <;> grind

theorem eu_sub_add (a b : EU) : euAdd (euSub a b) b = a := by
  apply EU.ext' <;> simp only [euAdd, euSub] <;> grind
theorem eu_add_sub (a b : EU) : euSub (euAdd a b) b = a := by
  apply EU.ext' <;> simp only [euAdd, euSub] <;> grind

theorem euJoin_idem (a : EU) : euJoin a a = a := by
  apply EU.ext' <;> simp only [euJoin] <;> grind
theorem euJoin_comm (a b : EU) : euJoin a b = euJoin b a := by
  apply EU.ext' <;> simp only [euJoin] <;> grind
theorem euJoin_assoc (a b c : EU) : euJoin (euJoin a b) c = euJoin a (euJoin b c) := by
  apply EU.ext' <;> simp only [euJoin] <;> grind
theorem euMeet_idem (a : EU) : euMeet a a = a := by
  apply EU.ext' <;> simp only [euMeet] <;> grind
theorem euMeet_comm (a b : EU) : euMeet a b = euMeet b a := by
  apply EU.ext' <;> simp only [euMeet] <;> grind
theorem euMeet_assoc (a b c : EU) : euMeet (euMeet a b) c = euMeet a (euMeet b c) := by
  apply EU.ext' <;> simp only [euMeet] <;> grind

theorem euPartialCmp_lt {a b : EU} : euPartialCmp a b = some .lt ↔ a.p < b.p ∧ a.u < b.u := by
  simp only [euPartialCmp]; grind
theorem euPartialCmp_gt {a b : EU} : euPartialCmp a b = some .gt ↔ b.p < a.p ∧ b.u < a.u := by
  simp only [euPartialCmp]; grind
theorem euPartialCmp_eq {a b : EU} : euPartialCmp a b = some .eq ↔ a = b := by
  constructor
  · intro h; apply EU.ext' <;> (simp only [euPartialCmp] at h; grind)
  · rintro rfl; simp only [euPartialCmp]; grind

theorem eu_order_compat_lt {a b : EU} (h : euPartialCmp a b = some .lt) :
    euJoin a b = b ∧ euChoose a b = b ∧ euMeet a b = a := by
  obtain ⟨h1, h2⟩ := euPartialCmp_lt.1 h
  refine ⟨?_, ?_, ?_⟩
  · apply EU.ext' <;> simp only [euJoin] <;> grind
  · simp only [euChoose]; grind
  · apply EU.ext' <;> simp only [euMeet] <;> grind

theorem eu_order_compat_gt {a b : EU} (h : euPartialCmp a b = some .gt) :
    euJoin a b = a ∧ euChoose a b = a ∧ euMeet a b = b := by
  obtain ⟨h1, h2⟩ := euPartialCmp_gt.1 h
  refine ⟨?_, ?_, ?_⟩
  · apply EU.ext' <;> simp only [euJoin] <;> grind
  · simp only [euChoose]; grind
  · apply EU.ext' <;> simp only [euMeet] <;> grind

theorem eu_order_compat_eq {a b : EU} (h : euPartialCmp a b = some .eq) :
    euJoin a b = b ∧ euChoose a b = b ∧ euMeet a b = a := by
  have := euPartialCmp_eq.1 h; subst this
  exact ⟨euJoin_idem a, by simp [euChoose], euMeet_idem a⟩

/-! ## complex -/

theorem Cx.ext' {a b : Cx} (h1 : a.re = b.re) (h2 : a.im = b.im) : a = b := by
  cases a; cases b; simp_all

theorem cxLaws : SROps.Laws cxOps where
  add_assoc a b c := by apply Cx.ext' <;> simp only [cxOps, cxAdd] <;> grind
  add_comm a b := by apply Cx.ext' <;> simp only [cxOps, cxAdd] <;> grind
  add_zero a := by apply Cx.ext' <;> simp only [cxOps, cxAdd, cxZero] <;> grind
  mul_assoc a b c := by apply Cx.ext' <;> simp only [cxOps, cxMul] <;> grind
  mul_comm a b := by apply Cx.ext' <;> simp only [cxOps, cxMul] <;> grind
  mul_one a := by apply Cx.ext' <;> simp only [cxOps, cxMul, cxOne] <;> grind
  mul_zero a := by apply Cx.ext' <;> simp only [cxOps, cxMul, cxZero] <;> grind
  left_distrib a b c := by apply Cx.ext' <;> simp only [cxOps, cxMul, cxAdd] <;> grind

theorem cx_sub_add (a b : Cx) : cxAdd (cxSub a b) b = a := by
  apply Cx.ext' <;> simp only [cxAdd, cxSub] <;> grind
theorem cx_add_sub (a b : Cx) : cxSub (cxAdd a b) b = a := by
  apply Cx.ext' <;> simp only [cxAdd, cxSub] <;> grind

variable {α : Type}

/-! ## truncated polynomials -/

/-- representation invariant of `Polynomial<C>`: the array has `maxCoeffs` entries, `len` is within
the array, and every entry at or beyond `len` is zero -/
def PolyWF (S : SROps α) (M : Nat) (p : Poly α) : Prop :=
  p.coeffs.length = M ∧ p.len ≤ M ∧ ∀ i, p.len ≤ i → p.coef S i = S.zero

theorem getD_set (l : List α) (i k : Nat) (x d : α) :
    (l.set i x).getD k d = if k = i ∧ i < l.length then x else l.getD k d := by
  simp only [List.getD_eq_getElem?_getD, List.getElem?_set]
  grind

theorem getD_replicate (n k : Nat) (d : α) : (List.replicate n d).getD k d = d := by
  simp only [List.getD_eq_getElem?_getD, List.getElem?_replicate]
  grind

theorem getD_of_le (l : List α) (k : Nat) (d : α) (h : l.length ≤ k) : l.getD k d = d := by
  simp [List.getD_eq_getElem?_getD, List.getElem?_eq_none h]

theorem list_ext_getD (d : α) {l₁ l₂ : List α} (hl : l₁.length = l₂.length)
    (h : ∀ k, k < l₁.length → l₁.getD k d = l₂.getD k d) : l₁ = l₂ := by
  apply List.ext_getElem hl
  intro i h1 h2
  have := h i h1
  simpa [List.getD_eq_getElem?_getD, List.getElem?_eq_getElem h1, List.getElem?_eq_getElem h2]
    using this

theorem Poly.ext_coef (S : SROps α) {p q : Poly α} (hl : p.coeffs.length = q.coeffs.length)
    (hlen : p.len = q.len) (h : ∀ k, k < p.coeffs.length → p.coef S k = q.coef S k) : p = q := by
  cases p; cases q
  simp only [Poly.mk.injEq]
  exact ⟨list_ext_getD S.zero hl h, hlen⟩

/-! ### the addition loop -/

theorem foldl_set_range (f : Nat → α) (d : α) (l : List α) (n : Nat) :
    ((List.range n).foldl (fun acc i => acc.set i (f i)) l).length = l.length ∧
    ∀ k, ((List.range n).foldl (fun acc i => acc.set i (f i)) l).getD k d =
      if k < n ∧ k < l.length then f k else l.getD k d := by
  induction n with
  | zero => simp
  | succ n ih =>
    rw [List.range_succ, List.foldl_append]
    simp only [List.foldl_cons, List.foldl_nil, List.length_set]
    refine ⟨ih.1, fun k => ?_⟩
    rw [getD_set, ih.2 k, ih.1]
    grind

theorem polyAdd_length (S : SROps α) (M : Nat) (p q : Poly α) :
    (polyAdd S M p q).coeffs.length = M := by
  simp [polyAdd, (foldl_set_range _ S.zero _ _).1, polyZeros]

theorem polyAdd_len (S : SROps α) (M : Nat) (p q : Poly α) :
    (polyAdd S M p q).len = min (max p.len q.len) M := rfl

theorem polyAdd_coef (S : SROps α) (M : Nat) (p q : Poly α) (k : Nat) :
    (polyAdd S M p q).coef S k =
      if k < min (max p.len q.len) M then S.add (p.coef S k) (q.coef S k) else S.zero := by
  simp only [polyAdd, Poly.coef]
  rw [(foldl_set_range _ S.zero _ _).2 k]
  simp only [polyZeros, List.length_replicate, getD_replicate]
  grind

theorem polyZero_coef (S : SROps α) (M k : Nat) : (polyZero S M).coef S k = S.zero := by
  simp only [polyZero, Poly.coef, polyZeros, getD_replicate]

theorem polyOne_coef (S : SROps α) (M k : Nat) (hM : 0 < M) :
    (polyOne S M).coef S k = if k = 0 then S.one else S.zero := by
  simp only [polyOne, Poly.coef, polyZeros, getD_set, getD_replicate, List.length_replicate]
  grind

theorem polyZero_wf (S : SROps α) (M : Nat) : PolyWF S M (polyZero S M) :=
  ⟨by simp [polyZero, polyZeros], Nat.zero_le _, fun i _ => polyZero_coef S M i⟩

theorem polyOne_wf (S : SROps α) (M : Nat) (hM : 0 < M) : PolyWF S M (polyOne S M) :=
  ⟨by simp [polyOne, polyZeros], hM, fun i hi => by
    rw [polyOne_coef S M i hM]; have : (polyOne S M).len = 1 := rfl; grind⟩

/-- the result of `+` is well formed whatever the operands -/
theorem polyAdd_wf (S : SROps α) (M : Nat) (p q : Poly α) : PolyWF S M (polyAdd S M p q) :=
  ⟨polyAdd_length S M p q, by rw [polyAdd_len]; omega, fun i hi => by
    rw [polyAdd_coef]; rw [polyAdd_len] at hi; grind⟩

/-! ### the multiplication loops -/

/-- the inner `for j in 0..n` loop -/
def innerLoop (S : SROps α) (M : Nat) (p q : Poly α) (i n : Nat) (acc : List α) : List α :=
  (List.range n).foldl
    (fun acc j =>
      if i + j < M then
        acc.set (i + j) (S.add (acc.getD (i + j) S.zero) (S.mul (p.coef S i) (q.coef S j)))
      else acc) acc

theorem polyMulInner_eq (S : SROps α) (M : Nat) (p q : Poly α) (i : Nat) (acc : List α) :
    polyMulInner S M p q i acc = innerLoop S M p q i q.len acc := rfl

theorem innerLoop_succ (S : SROps α) (M : Nat) (p q : Poly α) (i n : Nat) (acc : List α) :
    innerLoop S M p q i (n + 1) acc =
      if i + n < M then
        (innerLoop S M p q i n acc).set (i + n)
          (S.add ((innerLoop S M p q i n acc).getD (i + n) S.zero) (S.mul (p.coef S i) (q.coef S n)))
      else innerLoop S M p q i n acc := by
  simp only [innerLoop, List.range_succ, List.foldl_append, List.foldl_cons, List.foldl_nil]

theorem innerLoop_spec (S : SROps α) (M : Nat) (p q : Poly α) (i : Nat) :
    ∀ (n : Nat) (acc : List α), acc.length = M →
    (innerLoop S M p q i n acc).length = M ∧ ∀ k, (innerLoop S M p q i n acc).getD k S.zero =
      if i ≤ k ∧ k - i < n ∧ k < M then
        S.add (acc.getD k S.zero) (S.mul (p.coef S i) (q.coef S (k - i)))
      else acc.getD k S.zero := by
  intro n
  induction n with
  | zero => intro acc h; simp [innerLoop, h]
  | succ n ih =>
    intro acc hacc
    rw [innerLoop_succ]
    obtain ⟨h1, h2⟩ := ih acc hacc
    split
    · rename_i hlt
      refine ⟨by simp [h1], fun k => ?_⟩
      rw [getD_set, h1, h2 k, h2 (i + n)]
      by_cases hk : k = i + n
      · subst hk
        have e : i + n - i = n := by omega
        simp [hlt, e]
      · have : ¬ (k - i < n + 1 ∧ i ≤ k) ∨ (k - i < n) := by omega
        grind
    · rename_i hlt
      refine ⟨h1, fun k => ?_⟩
      rw [h2 k]
      have : i ≤ k → k < M → k - i ≠ n := by omega
      grind

/-- what the outer loop has accumulated at index `k` after `n` iterations -/
def partialConv (S : SROps α) (p q : Poly α) : Nat → Nat → α
  | 0, _ => S.zero
  | n + 1, k =>
    if n ≤ k ∧ k - n < q.len then
      S.add (partialConv S p q n k) (S.mul (p.coef S n) (q.coef S (k - n)))
    else partialConv S p q n k

theorem polyMulOuter_spec (S : SROps α) (M : Nat) (p q : Poly α) (n : Nat) :
    ((List.range n).foldl (fun acc i => polyMulInner S M p q i acc) (polyZeros S M)).length = M ∧
    ∀ k, k < M →
      ((List.range n).foldl (fun acc i => polyMulInner S M p q i acc) (polyZeros S M)).getD k S.zero
        = partialConv S p q n k := by
  induction n with
  | zero =>
    simp only [List.range_zero, List.foldl_nil, polyZeros, List.length_replicate, partialConv,
      getD_replicate]
    exact ⟨trivial, fun _ _ => trivial⟩
  | succ n ih =>
    rw [List.range_succ, List.foldl_append]
    simp only [List.foldl_cons, List.foldl_nil]
    obtain ⟨h1, h2⟩ := ih
    rw [polyMulInner_eq]
    have := innerLoop_spec S M p q n q.len _ h1
    refine ⟨this.1, fun k hk => ?_⟩
    rw [this.2 k, h2 k hk]
    simp only [partialConv]
    grind

theorem polyMul_length (S : SROps α) (M : Nat) (p q : Poly α) :
    (polyMul S M p q).coeffs.length = M := by
  unfold polyMul
  split
  · simp [polyZero, polyZeros]
  · exact (polyMulOuter_spec S M p q p.len).1

/-- `len` of a product as a function of the operands' `len`s -/
def mulLen (M a b : Nat) : Nat := if a = 0 ∨ b = 0 then 0 else min (a + b - 1) M

theorem mulLen_pos {M a b : Nat} (ha : 0 < a) (hb : 0 < b) : mulLen M a b = min (a + b - 1) M := by
  unfold mulLen; rw [if_neg (by omega)]
theorem mulLen_zero_left (M b : Nat) : mulLen M 0 b = 0 := by simp [mulLen]
theorem mulLen_zero_right (M a : Nat) : mulLen M a 0 = 0 := by simp [mulLen]

theorem mulLen_assoc {M a b c : Nat} (ha : a ≤ M) (hb : b ≤ M) (hc : c ≤ M) :
    mulLen M (mulLen M a b) c = mulLen M a (mulLen M b c) := by
  rcases Nat.eq_zero_or_pos a with rfl | ha0
  · simp [mulLen_zero_left]
  rcases Nat.eq_zero_or_pos b with rfl | hb0
  · simp [mulLen_zero_left, mulLen_zero_right]
  rcases Nat.eq_zero_or_pos c with rfl | hc0
  · simp [mulLen_zero_right]
  rw [mulLen_pos ha0 hb0, mulLen_pos hb0 hc0, mulLen_pos (by omega) hc0, mulLen_pos ha0 (by omega)]
  omega

theorem mulLen_distrib {M a b c : Nat} (ha : a ≤ M) (hb : b ≤ M) (hc : c ≤ M) :
    mulLen M a (min (max b c) M) = min (max (mulLen M a b) (mulLen M a c)) M := by
  rcases Nat.eq_zero_or_pos a with rfl | ha0
  · simp [mulLen_zero_left]
  rcases Nat.eq_zero_or_pos b with rfl | hb0
  · rcases Nat.eq_zero_or_pos c with rfl | hc0
    · simp [mulLen_zero_right]
    · have e : min (max 0 c) M = c := by omega
      rw [e, mulLen_zero_right, mulLen_pos ha0 hc0]; omega
  rcases Nat.eq_zero_or_pos c with rfl | hc0
  · have e : min (max b 0) M = b := by omega
    rw [e, mulLen_zero_right, mulLen_pos ha0 hb0]; omega
  rw [mulLen_pos ha0 hb0, mulLen_pos ha0 hc0, mulLen_pos ha0 (by omega)]
  omega

theorem polyMul_len (S : SROps α) (M : Nat) (p q : Poly α) :
    (polyMul S M p q).len = mulLen M p.len q.len := by
  unfold polyMul mulLen; split <;> rfl

theorem partialConv_zero (S : SROps α) (p q : Poly α) (k : Nat) :
    ∀ n, (∀ i, i < n → ¬ (i ≤ k ∧ k - i < q.len)) → partialConv S p q n k = S.zero := by
  intro n
  induction n with
  | zero => intro _; rfl
  | succ n ih =>
    intro h
    simp only [partialConv]
    rw [if_neg (h n (Nat.lt_succ_self n))]
    exact ih (fun i hi => h i (Nat.lt_succ_of_lt hi))

/-- loop-level characterisation (no laws needed): entry `k` of the product -/
theorem polyMul_coef_partial (S : SROps α) (M : Nat) (p q : Poly α) (k : Nat) (hk : k < M) :
    (polyMul S M p q).coef S k = partialConv S p q p.len k := by
  unfold polyMul
  split
  · rename_i h
    rw [polyZero_coef]
    symm; apply partialConv_zero
    intro i hi; omega
  · exact (polyMulOuter_spec S M p q p.len).2 k hk

/-- the result of `*` is well formed whatever the operands -/
theorem polyMul_wf (S : SROps α) (M : Nat) (p q : Poly α) : PolyWF S M (polyMul S M p q) := by
  refine ⟨polyMul_length S M p q, by rw [polyMul_len]; unfold mulLen; split <;> omega, fun k hk => ?_⟩
  by_cases hkM : k < M
  · rw [polyMul_coef_partial S M p q k hkM]
    apply partialConv_zero
    rw [polyMul_len] at hk
    unfold mulLen at hk
    intro i hi
    split at hk <;> omega
  · exact getD_of_le _ _ _ (by rw [polyMul_length]; omega)
/-! ### finite sums and convolution in a commutative semiring given as an `SROps` record -/

/-- `f 0 + f 1 + … + f (n-1)`, associated to the left as the loops do -/
def sumTo (S : SROps α) : Nat → (Nat → α) → α
  | 0, _ => S.zero
  | n + 1, f => S.add (sumTo S n f) (f n)

/-- coefficient `k` of the product of two power series: `Σ_{i+j=k} f i * g j` -/
def conv (S : SROps α) (f g : Nat → α) (k : Nat) : α :=
  sumTo S (k + 1) (fun i => S.mul (f i) (g (k - i)))

section
variable {S : SROps α} (hS : SROps.Laws S)
include hS

theorem sr_zero_add (a : α) : S.add S.zero a = a := by rw [hS.add_comm, hS.add_zero]
theorem sr_zero_mul (a : α) : S.mul S.zero a = S.zero := by rw [hS.mul_comm, hS.mul_zero]
theorem sr_one_mul (a : α) : S.mul S.one a = a := by rw [hS.mul_comm, hS.mul_one]
theorem sr_right_distrib (a b c : α) :
    S.mul (S.add a b) c = S.add (S.mul a c) (S.mul b c) := by
  rw [hS.mul_comm, hS.left_distrib, hS.mul_comm c a, hS.mul_comm c b]
theorem sr_add4 (a b c d : α) :
    S.add (S.add a b) (S.add c d) = S.add (S.add a c) (S.add b d) := by
  rw [hS.add_assoc, hS.add_assoc, ← hS.add_assoc b c d, hS.add_comm b c, hS.add_assoc c b d]

omit hS in
theorem sumTo_congr {n : Nat} {f g : Nat → α} (h : ∀ i, i < n → f i = g i) :
    sumTo S n f = sumTo S n g := by
  induction n with
  | zero => rfl
  | succ n ih =>
    simp only [sumTo]
    rw [ih (fun i hi => h i (Nat.lt_succ_of_lt hi)), h n (Nat.lt_succ_self n)]

theorem sumTo_zero {n : Nat} {f : Nat → α} (h : ∀ i, i < n → f i = S.zero) :
    sumTo S n f = S.zero := by
  induction n with
  | zero => rfl
  | succ n ih =>
    simp only [sumTo]
    rw [ih (fun i hi => h i (Nat.lt_succ_of_lt hi)), h n (Nat.lt_succ_self n), hS.add_zero]

/-- dropping a tail of zero terms -/
theorem sumTo_extend {m n : Nat} {f : Nat → α} (hmn : m ≤ n)
    (h : ∀ i, m ≤ i → i < n → f i = S.zero) : sumTo S n f = sumTo S m f := by
  induction n with
  | zero => have : m = 0 := by omega
            subst this; rfl
  | succ n ih =>
    by_cases hm : m = n + 1
    · subst hm; rfl
    · simp only [sumTo]
      rw [h n (by omega) (by omega), hS.add_zero]
      exact ih (by omega) (fun i h1 h2 => h i h1 (by omega))

theorem sumTo_add (n : Nat) (f g : Nat → α) :
    sumTo S n (fun i => S.add (f i) (g i)) = S.add (sumTo S n f) (sumTo S n g) := by
  induction n with
  | zero => simp only [sumTo]; rw [hS.add_zero]
  | succ n ih => simp only [sumTo]; rw [ih, sr_add4 hS]

theorem mul_sumTo (a : α) (n : Nat) (f : Nat → α) :
    S.mul a (sumTo S n f) = sumTo S n (fun i => S.mul a (f i)) := by
  induction n with
  | zero => simp only [sumTo]; rw [hS.mul_zero]
  | succ n ih => simp only [sumTo]; rw [hS.left_distrib, ih]

theorem sumTo_mul (a : α) (n : Nat) (f : Nat → α) :
    S.mul (sumTo S n f) a = sumTo S n (fun i => S.mul (f i) a) := by
  rw [hS.mul_comm, mul_sumTo hS]
  exact sumTo_congr (fun i _ => hS.mul_comm _ _)

theorem sumTo_succ_first (n : Nat) (f : Nat → α) :
    sumTo S (n + 1) f = S.add (f 0) (sumTo S n (fun i => f (i + 1))) := by
  induction n with
  | zero => simp only [sumTo]; rw [hS.add_zero, sr_zero_add hS]
  | succ n ih =>
    rw [sumTo, ih]; simp only [sumTo]; rw [hS.add_assoc]

theorem sumTo_reverse (n : Nat) (f : Nat → α) :
    sumTo S n f = sumTo S n (fun i => f (n - 1 - i)) := by
  induction n generalizing f with
  | zero => rfl
  | succ n ih =>
    rw [sumTo_succ_first hS n (fun i => f (n + 1 - 1 - i))]
    simp only [sumTo, Nat.add_sub_cancel, Nat.sub_zero]
    rw [hS.add_comm, ih f]
    congr 1
    apply sumTo_congr
    intro i hi
    congr 1; omega

/-- interchange of summation over the triangle `j ≤ i < n` -/
theorem sumTo_triangle (n : Nat) (G : Nat → Nat → α) :
    sumTo S n (fun i => sumTo S (i + 1) (fun j => G i j)) =
    sumTo S n (fun j => sumTo S (n - j) (fun m => G (j + m) j)) := by
  induction n with
  | zero => rfl
  | succ n ih =>
    rw [sumTo, ih]
    -- right-hand side: split off `j = n`, and the last term `m = n - j` of every inner sum
    have e1 : sumTo S (n + 1) (fun j => sumTo S (n + 1 - j) (fun m => G (j + m) j)) =
        S.add (sumTo S n (fun j => S.add (sumTo S (n - j) (fun m => G (j + m) j)) (G n j)))
          (G n n) := by
      rw [sumTo]
      congr 1
      · apply sumTo_congr
        intro j hj
        have : n + 1 - j = (n - j) + 1 := by omega
        rw [this, sumTo]
        congr 2; omega
      · have : n + 1 - n = 1 := by omega
        rw [this]; simp only [sumTo]; rw [sr_zero_add hS]; rfl
    rw [e1, sumTo_add hS, sumTo, hS.add_assoc]

/-! convolution -/

omit hS in
theorem conv_congr {f f' g g' : Nat → α} {k : Nat} (hf : ∀ i, i ≤ k → f i = f' i)
    (hg : ∀ i, i ≤ k → g i = g' i) : conv S f g k = conv S f' g' k := by
  apply sumTo_congr
  intro i hi
  rw [hf i (by omega), hg (k - i) (by omega)]

theorem conv_comm (f g : Nat → α) (k : Nat) : conv S f g k = conv S g f k := by
  unfold conv
  rw [sumTo_reverse hS]
  apply sumTo_congr
  intro i hi
  rw [hS.mul_comm]
  congr 2 <;> omega

theorem conv_add_right (f g h : Nat → α) (k : Nat) :
    conv S f (fun i => S.add (g i) (h i)) k = S.add (conv S f g k) (conv S f h k) := by
  unfold conv
  rw [← sumTo_add hS]
  exact sumTo_congr (fun i _ => hS.left_distrib _ _ _)

theorem conv_zero_right (f g : Nat → α) (k : Nat) (hg : ∀ i, i ≤ k → g i = S.zero) :
    conv S f g k = S.zero := by
  apply sumTo_zero hS
  intro i hi
  rw [hg (k - i) (by omega), hS.mul_zero]

theorem conv_zero_left (f g : Nat → α) (k : Nat) (hf : ∀ i, i ≤ k → f i = S.zero) :
    conv S f g k = S.zero := by
  rw [conv_comm hS]; exact conv_zero_right hS g f k hf

/-- multiplying by the constant polynomial `1` -/
theorem conv_one_right (f : Nat → α) (k : Nat) :
    conv S f (fun i => if i = 0 then S.one else S.zero) k = f k := by
  unfold conv
  rw [sumTo]
  have hz : sumTo S k (fun i => S.mul (f i) (if k - i = 0 then S.one else S.zero)) = S.zero := by
    apply sumTo_zero hS
    intro i hi
    have : k - i ≠ 0 := by omega
    simp only [this, if_false]; exact hS.mul_zero _
  rw [hz, sr_zero_add hS]
  simp [hS.mul_one]

theorem conv_assoc (f g h : Nat → α) (k : Nat) :
    conv S (conv S f g) h k = conv S f (conv S g h) k := by
  have lhs : conv S (conv S f g) h k =
      sumTo S (k + 1) (fun i => sumTo S (i + 1)
        (fun j => S.mul (S.mul (f j) (g (i - j))) (h (k - i)))) := by
    unfold conv
    exact sumTo_congr (fun i _ => sumTo_mul hS _ _ _)
  have rhs : conv S f (conv S g h) k =
      sumTo S (k + 1) (fun j => sumTo S (k + 1 - j)
        (fun m => S.mul (S.mul (f j) (g (j + m - j))) (h (k - (j + m))))) := by
    unfold conv
    apply sumTo_congr
    intro j hj
    rw [mul_sumTo hS]
    have : k - j + 1 = k + 1 - j := by omega
    rw [this]
    apply sumTo_congr
    intro m hm
    have e1 : j + m - j = m := by omega
    have e2 : k - (j + m) = k - j - m := by omega
    rw [← hS.mul_assoc, e1, e2]
  rw [lhs, rhs]
  exact sumTo_triangle hS (k + 1)
    (fun i j => S.mul (S.mul (f j) (g (i - j))) (h (k - i)))
end

/-! ### coefficient-wise characterisation of the operations on well-formed polynomials -/

section
variable {S : SROps α} (hS : SROps.Laws S) {M : Nat}
include hS

theorem partialConv_eq_sum (p q : Poly α) (hq : ∀ i, q.len ≤ i → q.coef S i = S.zero) (k : Nat) :
    ∀ n, partialConv S p q n k =
      sumTo S (min n (k + 1)) (fun i => S.mul (p.coef S i) (q.coef S (k - i))) := by
  intro n
  induction n with
  | zero => simp [partialConv, sumTo]
  | succ n ih =>
    simp only [partialConv]
    by_cases hn : n ≤ k
    · have e1 : min (n + 1) (k + 1) = n + 1 := by omega
      have e2 : min n (k + 1) = n := by omega
      rw [e1, sumTo, ih, e2]
      split
      · rfl
      · rename_i h
        rw [hq (k - n) (by omega), hS.mul_zero, hS.add_zero]
    · have e1 : min (n + 1) (k + 1) = min n (k + 1) := by omega
      rw [e1, if_neg (by omega), ih]

/-- **Truncated product = product modulo `X^maxCoeffs`**: below `maxCoeffs` the `k`-th entry of
`p * q` is `Σ_{i+j=k} p_i q_j`. -/
theorem polyMul_coef {p q : Poly α} (hp : PolyWF S M p) (hq : PolyWF S M q) (k : Nat) (hk : k < M) :
    (polyMul S M p q).coef S k = conv S (p.coef S) (q.coef S) k := by
  rw [polyMul_coef_partial S M p q k hk, partialConv_eq_sum hS p q hq.2.2 k]
  unfold conv
  symm
  apply sumTo_extend hS (by omega)
  intro i h1 h2
  rw [hp.2.2 i (by omega), sr_zero_mul hS]

omit hS in
theorem polyMul_coef_ge (p q : Poly α) (k : Nat) (hk : M ≤ k) :
    (polyMul S M p q).coef S k = S.zero :=
  getD_of_le _ _ _ (by rw [polyMul_length]; exact hk)

theorem polyAdd_coef_wf {p q : Poly α} (hp : PolyWF S M p) (hq : PolyWF S M q) (k : Nat) :
    (polyAdd S M p q).coef S k = S.add (p.coef S k) (q.coef S k) := by
  rw [polyAdd_coef]
  split
  · rfl
  · rename_i h
    rw [hp.2.2 k (by have := hp.2.1; have := hq.2.1; omega),
      hq.2.2 k (by have := hp.2.1; have := hq.2.1; omega), hS.add_zero]

/-! ### the semiring laws, for the derived (structural) equality, on well-formed polynomials -/

theorem polyAdd_assoc {p q r : Poly α} (hp : PolyWF S M p) (hq : PolyWF S M q)
    (hr : PolyWF S M r) :
    polyAdd S M (polyAdd S M p q) r = polyAdd S M p (polyAdd S M q r) := by
  apply Poly.ext_coef S
  · simp only [polyAdd_length]
  · simp only [polyAdd_len]; omega
  · intro k _
    rw [polyAdd_coef_wf hS (polyAdd_wf S M p q) hr, polyAdd_coef_wf hS hp hq,
      polyAdd_coef_wf hS hp (polyAdd_wf S M q r), polyAdd_coef_wf hS hq hr, hS.add_assoc]

theorem polyAdd_comm {p q : Poly α} (hp : PolyWF S M p) (hq : PolyWF S M q) :
    polyAdd S M p q = polyAdd S M q p := by
  apply Poly.ext_coef S
  · simp only [polyAdd_length]
  · simp only [polyAdd_len]; omega
  · intro k _
    rw [polyAdd_coef_wf hS hp hq, polyAdd_coef_wf hS hq hp, hS.add_comm]

theorem polyAdd_zero {p : Poly α} (hp : PolyWF S M p) : polyAdd S M p (polyZero S M) = p := by
  apply Poly.ext_coef S
  · rw [polyAdd_length, hp.1]
  · have := hp.2.1
    simp only [polyAdd_len, polyZero]; omega
  · intro k _
    rw [polyAdd_coef_wf hS hp (polyZero_wf S M), polyZero_coef, hS.add_zero]

theorem polyMul_comm {p q : Poly α} (hp : PolyWF S M p) (hq : PolyWF S M q) :
    polyMul S M p q = polyMul S M q p := by
  apply Poly.ext_coef S
  · simp only [polyMul_length]
  · simp only [polyMul_len, mulLen]
    split <;> split <;> omega
  · intro k hk
    rw [polyMul_length] at hk
    rw [polyMul_coef hS hp hq k hk, polyMul_coef hS hq hp k hk, conv_comm hS]

theorem polyMul_one (hM : 0 < M) {p : Poly α} (hp : PolyWF S M p) :
    polyMul S M p (polyOne S M) = p := by
  apply Poly.ext_coef S
  · rw [polyMul_length, hp.1]
  · have := hp.2.1
    have h1 : (polyOne S M).len = 1 := rfl
    rw [polyMul_len, h1]
    unfold mulLen
    split <;> omega
  · intro k hk
    rw [polyMul_length] at hk
    rw [polyMul_coef hS hp (polyOne_wf S M hM) k hk]
    rw [conv_congr (f' := p.coef S) (g' := fun i => if i = 0 then S.one else S.zero)
      (fun _ _ => rfl) (fun i _ => polyOne_coef S M i hM)]
    exact conv_one_right hS _ k

omit hS in
theorem polyMul_zero (p : Poly α) : polyMul S M p (polyZero S M) = polyZero S M := by
  simp [polyMul, polyZero]

omit hS in
theorem polyZero_mul (p : Poly α) : polyMul S M (polyZero S M) p = polyZero S M := by
  simp [polyMul, polyZero]

theorem polyMul_assoc {p q r : Poly α} (hp : PolyWF S M p) (hq : PolyWF S M q)
    (hr : PolyWF S M r) :
    polyMul S M (polyMul S M p q) r = polyMul S M p (polyMul S M q r) := by
  apply Poly.ext_coef S
  · simp only [polyMul_length]
  · simp only [polyMul_len]
    exact mulLen_assoc hp.2.1 hq.2.1 hr.2.1
  · intro k hk
    rw [polyMul_length] at hk
    rw [polyMul_coef hS (polyMul_wf S M p q) hr k hk,
      polyMul_coef hS hp (polyMul_wf S M q r) k hk]
    rw [conv_congr (f' := conv S (p.coef S) (q.coef S)) (g' := r.coef S)
      (fun i hi => polyMul_coef hS hp hq i (by omega)) (fun _ _ => rfl)]
    rw [conv_congr (f' := p.coef S) (g' := conv S (q.coef S) (r.coef S))
      (fun _ _ => rfl) (fun i hi => polyMul_coef hS hq hr i (by omega))]
    exact conv_assoc hS _ _ _ k

theorem polyMul_add {p q r : Poly α} (hp : PolyWF S M p) (hq : PolyWF S M q)
    (hr : PolyWF S M r) :
    polyMul S M p (polyAdd S M q r) =
      polyAdd S M (polyMul S M p q) (polyMul S M p r) := by
  apply Poly.ext_coef S
  · simp only [polyMul_length, polyAdd_length]
  · simp only [polyMul_len, polyAdd_len]
    exact mulLen_distrib hp.2.1 hq.2.1 hr.2.1
  · intro k hk
    rw [polyMul_length] at hk
    rw [polyMul_coef hS hp (polyAdd_wf S M q r) k hk,
      polyAdd_coef_wf hS (polyMul_wf S M p q) (polyMul_wf S M p r),
      polyMul_coef hS hp hq k hk, polyMul_coef hS hp hr k hk, ← conv_add_right hS]
    exact conv_congr (fun _ _ => rfl) (fun i _ => polyAdd_coef_wf hS hq hr i)
end

/-! ### the carrier of well-formed polynomials and its `SROps.Laws` bundle -/

/-- `from_c_parts` (the FFI constructor) produces well-formed polynomials -/
theorem polyOfList_wf (S : SROps α) (M : Nat) (cs : List α) : PolyWF S M (polyOfList S M cs) := by
  refine ⟨by simp [polyOfList], by simp only [polyOfList]; omega, fun i hi => ?_⟩
  simp only [polyOfList] at hi
  simp only [polyOfList, Poly.coef, List.getD_eq_getElem?_getD, List.getElem?_map]
  by_cases h : i < M
  · have : cs.length ≤ i := by omega
    simp [List.getElem?_range h, List.getElem?_eq_none this]
  · have : (List.range M)[i]? = none := by simp; omega
    simp [this]

/-- every value of type `Polynomial<C>` the library can build -/
def WFPoly (S : SROps α) (M : Nat) : Type := { p : Poly α // PolyWF S M p }

/-- the shipped operations restricted to well-formed polynomials (they preserve the invariant
unconditionally: `polyAdd_wf`, `polyMul_wf`) -/
def polyOpsWF (S : SROps α) (M : Nat) (hM : 0 < M) : SROps (WFPoly S M) :=
  { zero := ⟨polyZero S M, polyZero_wf S M⟩
    one := ⟨polyOne S M, polyOne_wf S M hM⟩
    add := fun p q => ⟨polyAdd S M p.1 q.1, polyAdd_wf S M p.1 q.1⟩
    mul := fun p q => ⟨polyMul S M p.1 q.1, polyMul_wf S M p.1 q.1⟩ }

/-- truncated polynomials over a commutative semiring form a commutative semiring, for the
derived structural equality (coefficient array and `len`) -/
theorem polyLaws {S : SROps α} (hS : SROps.Laws S) (M : Nat) (hM : 0 < M) :
    SROps.Laws (polyOpsWF S M hM) where
  add_assoc a b c := Subtype.ext (polyAdd_assoc hS a.2 b.2 c.2)
  add_comm a b := Subtype.ext (polyAdd_comm hS a.2 b.2)
  add_zero a := Subtype.ext (polyAdd_zero hS a.2)
  mul_assoc a b c := Subtype.ext (polyMul_assoc hS a.2 b.2 c.2)
  mul_comm a b := Subtype.ext (polyMul_comm hS a.2 b.2)
  mul_one a := Subtype.ext (polyMul_one hS hM a.2)
  mul_zero a := Subtype.ext (polyMul_zero a.1)
  left_distrib a b c := Subtype.ext (polyMul_add hS a.2 b.2 c.2)

/-- the invariant is needed: with `len` smaller than the data, `p + 0 ≠ p` (such a value can only
be made through the public fields, never by the library's own constructors) -/
theorem polyAdd_zero_needs_wf :
    polyAdd boolOps 2 ⟨[true, false], 0⟩ (polyZero boolOps 2) ≠ ⟨[true, false], 0⟩ := by decide

/-- observation (not a law): the representation of the zero polynomial is not unique — the
truncated product `X * X = 0` in `Bool[X]/(X^2)` has all-zero coefficients but `len = 2`, and the
derived `PartialEq` distinguishes it from `zero()` -/
theorem polyMul_truncated_zero_ne_zero :
    polyMul boolOps 2 ⟨[false, true], 2⟩ ⟨[false, true], 2⟩ = ⟨[false, false], 2⟩ ∧
    polyMul boolOps 2 ⟨[false, true], 2⟩ ⟨[false, true], 2⟩ ≠ polyZero boolOps 2 := by decide
end Sem
