import RsddModel.Model.BddBuilder
import RsddModel.Lemmas.BddCanon
import RsddModel.Lemmas.BddCond
import RsddModel.Lemmas.BddWF
/-!
# Lemmas: every builder operation computes the Boolean function it names

Partial correctness (`= some (s', r) → …`) for EVERY lawful cache `C : CacheImpl` and every
level map.  What each statement really needs:

* `ite`, `and`, `or`, `xor`, `iff`, `and_lst`, `or_lst`: nothing but a sound cache — not even
  orderedness of the arguments, not even injectivity of the level map;
* `condition` (hence `cond_model`, `exists`): the argument must be *ordered*, because
  `cond_with_alloc` returns early as soon as `lvl x < lvl (top p)`;
* `compose`: conditions an intermediate `ite` result, so it needs that result ordered, i.e. the
  well-formedness theorem of `BddWF` (well formed arguments, `CacheWF`, injective `lvl`).

The memo transparency of `cond_with_alloc` (`condWithAlloc_eq_pure`) is in `BddCond`.
-/
namespace Bdd
open Spec

/-- the Boolean function denoted by a diagram -/
def den (p : Ptr) : BoolFn := fun a => p.eval a

@[simp] theorem den_apply (p : Ptr) (a : Assign) : den p a = p.eval a := rfl
theorem den_tru : den .tru = fTrue := rfl
theorem den_fls : den .fls = fFalse := rfl
theorem den_neg (p : Ptr) : den p.neg = fNot (den p) := by funext a; simp [den, fNot]

/-- every cache entry is semantically right -/
def CacheSound (C : CacheImpl) (s : C.σ) : Prop :=
  ∀ f g h r, C.get s (f, g, h) = some r → ∀ a, r.eval a = iteB (f.eval a) (g.eval a) (h.eval a)

theorem cacheSound_empty (C : CacheImpl) : CacheSound C C.empty := by
  intro f g h r hget; rw [C.empty_get] at hget; cases hget

theorem mkNode_eval (x lo hi a) : (mkNode x lo hi).eval a = if a x then hi.eval a else lo.eval a := by
  unfold mkNode; split <;> simp [Ptr.eval]
  split <;> simp

theorem condEssential_eval (f : Ptr) (x : Nat) (v : Bool) (a : Assign) (hx : a x = v)
    : (condEssential f x v).eval a = f.eval a := by
  cases f with
  | tru => rfl
  | fls => rfl
  | node c y lo hi =>
    simp only [condEssential]
    split
    · rfl
    · rename_i hy; simp at hy; subst hy
      cases c <;> cases v <;> simp_all [Ptr.eval]

theorem cacheGet_sound (C) (s : C.σ) (hs : CacheSound C s) (key : Ite) (v : Ptr)
    (h : cacheGet C s key = some v) (a) : v.eval a = key.eval a := by
  cases key with
  | choice f g h' => exact hs _ _ _ _ h a
  | complChoice f g h' =>
    simp [cacheGet] at h
    obtain ⟨w, hw, rfl⟩ := h
    simp [Ite.eval, hs _ _ _ _ hw a]
  | const p => simp [cacheGet] at h; subst h; rfl

theorem cacheInsert_sound (C) (s : C.σ) (hs : CacheSound C s) (key : Ite) (r : Ptr)
    (hr : ∀ a, r.eval a = key.eval a) : CacheSound C (cacheInsert C s key r) := by
  cases key with
  | choice f g h' =>
    intro f' g' h'' r' hget a
    rcases C.lawful _ _ _ _ _ hget with ⟨hk, hv⟩ | hold
    · cases hk; subst hv; exact hr a
    · exact hs _ _ _ _ hold a
  | complChoice f g h' =>
    intro f' g' h'' r' hget a
    rcases C.lawful _ _ _ _ _ hget with ⟨hk, hv⟩ | hold
    · cases hk; subst hv; simp [hr a, Ite.eval]
    · exact hs _ _ _ _ hold a
  | const p => exact hs

/-- **partial correctness of `ite`** for every lawful cache and every level map -/
theorem ite_sem (C : CacheImpl) (lvl : Nat → Nat) :
    ∀ fuel s f g h s' r, CacheSound C s → ite C lvl fuel s f g h = some (s', r) →
      CacheSound C s' ∧ ∀ a, r.eval a = iteB (f.eval a) (g.eval a) (h.eval a) := by
  intro fuel
  induction fuel with
  | zero => intro s f g h s' r _ hrun; simp [ite] at hrun
  | succ n ih =>
    intro s f g h s' r hs hrun
    have key_sem := iteNew_sound (ordP lvl) f g h
    simp only [ite] at hrun
    generalize hk : Ite.new (ordP lvl) f g h = key at hrun key_sem
    split at hrun
    · -- const
      simp at hrun; obtain ⟨rfl, rfl⟩ := hrun
      exact ⟨hs, fun a => by simpa [Ite.eval] using key_sem a⟩
    · split at hrun
      · rename_i v hv
        simp at hrun; obtain ⟨rfl, rfl⟩ := hrun
        exact ⟨hs, fun a => by rw [cacheGet_sound C s hs key _ hv a, key_sem a]⟩
      · split at hrun
        · cases hrun
        · rename_i x hx
          split at hrun
          · cases hrun
          · rename_i s1 t ht
            split at hrun
            · cases hrun
            · rename_i s2 e he
              obtain ⟨hs1, ht_sem⟩ := ih _ _ _ _ _ _ hs ht
              obtain ⟨hs2, he_sem⟩ := ih _ _ _ _ _ _ hs1 he
              have shannon : ∀ a, (if a x then t.eval a else e.eval a)
                  = iteB (f.eval a) (g.eval a) (h.eval a) := by
                intro a
                cases hax : a x
                · simp [he_sem a, condEssential_eval _ x false a hax]
                · simp [ht_sem a, condEssential_eval _ x true a hax]
              split at hrun
              · rename_i hte
                simp at hrun; obtain ⟨rfl, rfl⟩ := hrun
                refine ⟨hs2, fun a => ?_⟩
                rw [← shannon a, ← hte]; simp
              · simp at hrun; obtain ⟨rfl, rfl⟩ := hrun
                have hr : ∀ a, (mkNode x e t).eval a = iteB (f.eval a) (g.eval a) (h.eval a) := by
                  intro a; rw [mkNode_eval, shannon a]
                exact ⟨cacheInsert_sound C s2 hs2 key _ (fun a => by rw [hr a, key_sem a]), hr⟩

theorem ite_den {C : CacheImpl} {lvl : Nat → Nat} {fuel : Nat} {s s' : C.σ} {f g h r : Ptr}
    (hs : CacheSound C s) (hrun : ite C lvl fuel s f g h = some (s', r)) :
    CacheSound C s' ∧ den r = fIte (den f) (den g) (den h) := by
  obtain ⟨h1, h2⟩ := ite_sem C lvl fuel s f g h s' r hs hrun
  exact ⟨h1, funext fun a => by simp [fIte, h2 a]⟩

/-! ## conditioning -/

theorem eval_ite_neg (c : Bool) (p : Ptr) (a : Assign) :
    (if c then p.neg else p).eval a = xor c (p.eval a) := by
  cases c <;> simp

/-- **`cond_with_alloc` (memo-free reading) computes the cofactor** of an *ordered* diagram.
Orderedness is needed twice: for the early return `lvl x < lvl y` (then `x` does not occur
below), and at `y = x` (then `x` does not occur in the children).  Injectivity of `lvl` is
not needed. -/
theorem condPure_sem (lvl : Nat → Nat) (x : Nat) (b : Bool) :
    ∀ (p : Ptr) (k : Nat), p.above lvl k → ∀ a, (condPure lvl x b p).eval a = p.eval (upd a x b) := by
  intro p
  induction p with
  | tru => intro k _ a; rfl
  | fls => intro k _ a; rfl
  | node c y lo hi ihlo ihhi =>
    intro k ha a
    have ha' := ha
    obtain ⟨hk, alo, ahi⟩ := ha
    rw [condPure]
    simp only
    split
    · rename_i hlt
      have hp : (Ptr.node c y lo hi).above lvl (lvl y) := ⟨Nat.le_refl _, alo, ahi⟩
      exact (eval_upd_of_above b a hp hlt).symm
    · split
      · rename_i hyx
        subst hyx
        have e1 := eval_upd_of_above (x := y) b a alo (Nat.lt_succ_self _)
        have e2 := eval_upd_of_above (x := y) b a ahi (Nat.lt_succ_self _)
        rw [eval_ite_neg]
        cases b <;> simp [Ptr.eval, e1, e2]
      · rename_i hyx
        have e1 := ihlo _ alo a
        have e2 := ihhi _ ahi a
        have hy : upd a x b y = a y := upd_other a b hyx
        have tgt : (Ptr.node c y lo hi).eval (upd a x b) =
            xor c (if a y then (condPure lvl x b hi).eval a else (condPure lvl x b lo).eval a) := by
          simp only [Ptr.eval, hy, e1, e2]
        rw [tgt]
        split
        · rename_i hlh
          rw [eval_ite_neg, ← hlh]; simp
        · split
          · rw [eval_ite_neg, mkNode_eval]
          · rename_i hsame
            simp only [ne_eq, not_or, Decidable.not_not] at hsame
            rw [hsame.1, hsame.2]; simp [Ptr.eval]

theorem condPure_den {lvl : Nat → Nat} {k : Nat} {p : Ptr} (x : Nat) (b : Bool)
    (ha : p.above lvl k) : den (condPure lvl x b p) = fCond (den p) x b :=
  funext fun a => condPure_sem lvl x b p k ha a

/-- `condition` (with its fresh memo) computes the cofactor of an ordered diagram -/
theorem condition_sem {lvl : Nat → Nat} {k : Nat} {p : Ptr} (x : Nat) (b : Bool)
    (ha : p.above lvl k) : den (condition lvl p x b) = fCond (den p) x b := by
  rw [condition_eq_pure]; exact condPure_den x b ha

theorem condModel_sem {lvl : Nat → Nat} {k : Nat} : ∀ (m : List (Nat × Bool)) {p : Ptr},
    p.above lvl k → den (condModel lvl p m) = fCondList (den p) m
  | [], _, _ => rfl
  | (x, b) :: rest, p, ha => by
    rw [condModel, fCondList, ← condition_sem x b ha]
    exact condModel_sem rest (condition_above lvl x b ha)

/-! ## variables and the derived operations -/

theorem mkVar_sem (x : Nat) (pol : Bool) : den (mkVar x pol) = fVar x pol := by
  funext a
  cases pol <;> simp [mkVar, den, fVar, mkNode_eval, Ptr.eval]

section ops
variable {C : CacheImpl} {lvl : Nat → Nat} {fuel : Nat}

theorem bAnd_sem {s s' : C.σ} {f g r : Ptr} (hs : CacheSound C s)
    (hrun : bAnd C lvl fuel s f g = some (s', r)) :
    CacheSound C s' ∧ den r = fAnd (den f) (den g) := by
  obtain ⟨h1, h2⟩ := ite_sem C lvl fuel s f g .fls s' r hs hrun
  refine ⟨h1, funext fun a => ?_⟩
  simp only [den, fAnd, h2 a, iteB, Ptr.eval]
  cases f.eval a <;> simp

theorem bIff_sem {s s' : C.σ} {f g r : Ptr} (hs : CacheSound C s)
    (hrun : bIff C lvl fuel s f g = some (s', r)) :
    CacheSound C s' ∧ den r = fIff (den f) (den g) := by
  obtain ⟨h1, h2⟩ := ite_sem C lvl fuel s f g g.neg s' r hs hrun
  refine ⟨h1, funext fun a => ?_⟩
  simp only [den, fIff, h2 a, iteB, eval_neg]
  cases f.eval a <;> cases g.eval a <;> rfl

theorem bXor_sem {s s' : C.σ} {f g r : Ptr} (hs : CacheSound C s)
    (hrun : bXor C lvl fuel s f g = some (s', r)) :
    CacheSound C s' ∧ den r = fXor (den f) (den g) := by
  obtain ⟨h1, h2⟩ := ite_sem C lvl fuel s f g.neg g s' r hs hrun
  refine ⟨h1, funext fun a => ?_⟩
  simp only [den, fXor, h2 a, iteB, eval_neg]
  cases f.eval a <;> cases g.eval a <;> rfl

theorem bOr_sem {s s' : C.σ} {f g r : Ptr} (hs : CacheSound C s)
    (hrun : bOr C lvl fuel s f g = some (s', r)) :
    CacheSound C s' ∧ den r = fOr (den f) (den g) := by
  unfold bOr at hrun
  split at hrun
  · rename_i s1 r1 h1
    simp only [Option.some.injEq, Prod.mk.injEq] at hrun; obtain ⟨rfl, rfl⟩ := hrun
    obtain ⟨h2, h3⟩ := bAnd_sem hs h1
    refine ⟨h2, ?_⟩
    rw [den_neg, h3, den_neg, den_neg]
    funext a
    simp only [fNot, fAnd, fOr]
    cases den f a <;> cases den g a <;> rfl
  · cases hrun

/-- `exists` needs its argument ordered (it conditions it) -/
theorem bExists_sem {s s' : C.σ} {f r : Ptr} {x k : Nat} (hs : CacheSound C s)
    (ha : f.above lvl k) (hrun : bExists C lvl fuel s f x = some (s', r)) :
    CacheSound C s' ∧ den r = fExists (den f) x := by
  obtain ⟨h1, h2⟩ := bOr_sem hs hrun
  refine ⟨h1, ?_⟩
  rw [h2, condition_sem x true ha, condition_sem x false ha]
  rfl

/-- `compose f x g = ∃ x. (x ⇔ g) ∧ f`; it conditions an intermediate `ite` result, hence the
well-formedness hypotheses -/
theorem bCompose_sem (inj : ∀ x y, lvl x = lvl y → x = y) {s s' : C.σ} {f g r : Ptr} {x : Nat}
    (hs : CacheSound C s) (hw : CacheWF C lvl s) (hf : WF lvl f) (hg : WF lvl g)
    (hrun : bCompose C lvl fuel s f x g = some (s', r)) :
    CacheSound C s' ∧ den r = fCompose (den f) x (den g) := by
  unfold bCompose at hrun
  split at hrun
  · cases hrun
  · rename_i s1 i h1
    obtain ⟨hs1, ei⟩ := bIff_sem hs h1
    obtain ⟨hw1, wi⟩ := bIff_WF C lvl inj hw (mkVar_WF lvl x true) hg h1
    split at hrun
    · cases hrun
    · rename_i s2 a h2
      obtain ⟨hs2, ea⟩ := bAnd_sem hs1 h2
      obtain ⟨hw2, wa⟩ := bAnd_WF C lvl inj hw1 wi hf h2
      obtain ⟨hs3, er⟩ := bExists_sem hs2 wa.1 hrun
      refine ⟨hs3, ?_⟩
      rw [er, ea, ei, mkVar_sem]; rfl

theorem bAndLst_sem : ∀ (ps : List Ptr) {s s' : C.σ} {acc r : Ptr}, CacheSound C s →
    bAndLst C lvl fuel s acc ps = some (s', r) →
    CacheSound C s' ∧ den r = (ps.map den).foldl fAnd (den acc)
  | [], s, s', acc, r, hs, hrun => by
    simp only [bAndLst, Option.some.injEq, Prod.mk.injEq] at hrun
    obtain ⟨rfl, rfl⟩ := hrun; exact ⟨hs, rfl⟩
  | p :: ps, s, s', acc, r, hs, hrun => by
    simp only [bAndLst] at hrun
    split at hrun
    · cases hrun
    · rename_i s1 r1 h1
      obtain ⟨hs1, e1⟩ := bAnd_sem hs h1
      obtain ⟨hs2, e2⟩ := bAndLst_sem ps hs1 hrun
      exact ⟨hs2, by rw [e2, e1]; rfl⟩

theorem bOrLst_sem : ∀ (ps : List Ptr) {s s' : C.σ} {acc r : Ptr}, CacheSound C s →
    bOrLst C lvl fuel s acc ps = some (s', r) →
    CacheSound C s' ∧ den r = (ps.map den).foldl fOr (den acc)
  | [], s, s', acc, r, hs, hrun => by
    simp only [bOrLst, Option.some.injEq, Prod.mk.injEq] at hrun
    obtain ⟨rfl, rfl⟩ := hrun; exact ⟨hs, rfl⟩
  | p :: ps, s, s', acc, r, hs, hrun => by
    simp only [bOrLst] at hrun
    split at hrun
    · cases hrun
    · rename_i s1 r1 h1
      obtain ⟨hs1, e1⟩ := bOr_sem hs h1
      obtain ⟨hs2, e2⟩ := bOrLst_sem ps hs1 hrun
      exact ⟨hs2, by rw [e2, e1]; rfl⟩

end ops

#print axioms ite_sem
#print axioms condPure_sem
#print axioms condModel_sem
#print axioms bCompose_sem
#print axioms bAndLst_sem
#print axioms bOrLst_sem
end Bdd
