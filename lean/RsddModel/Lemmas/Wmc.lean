import RsddModel.Model.BddWmc
/-!
# Lemmas: weighted sums over assignments and the weighted model count of BDDs

Part 1 (`namespace Spec`): algebra of `wsum` under the commutative-semiring laws `SROps.Laws`:
congruence, independence of the base assignment, factoring out an irrelevant variable,
invariance under permutation of the variable list, agreement with the brute-force list sum.

Part 2 (`namespace Bdd`): `wmc` of a *free* diagram (no variable decided twice on a path:
every ROBDD of every order, every decision-DNNF) equals `wsum` of the denoted function for
normalised weights; `evaluate` is `eval`; the semantic-hash corollaries.

Part 3: arbitrary weights.  `pathCount` is the sum "taken only over the variables each
sub-function actually depends on"; a reduced ordered diagram (`Ptr.robdd`) has
`wmc = pathCount`.  This needs "a reduced ordered node depends on its top variable", which is
proved here through a list-ordered canonicity theorem (`robdd_canon`).
-/

/-! ## derived semiring laws on the record -/
namespace Bdd
variable {α : Type} {S : SROps α}

theorem sr_zero_add (h : S.Laws) (a : α) : S.add S.zero a = a := by rw [h.add_comm, h.add_zero]
theorem sr_one_mul (h : S.Laws) (a : α) : S.mul S.one a = a := by rw [h.mul_comm, h.mul_one]
theorem sr_zero_mul (h : S.Laws) (a : α) : S.mul S.zero a = S.zero := by rw [h.mul_comm, h.mul_zero]
theorem sr_right_distrib (h : S.Laws) (a b c : α) :
    S.mul (S.add a b) c = S.add (S.mul a c) (S.mul b c) := by
  rw [h.mul_comm, h.left_distrib, h.mul_comm c a, h.mul_comm c b]
theorem sr_add_left_comm (h : S.Laws) (a b c : α) : S.add a (S.add b c) = S.add b (S.add a c) := by
  rw [← h.add_assoc, h.add_comm a b, h.add_assoc]
theorem sr_mul_left_comm (h : S.Laws) (a b c : α) : S.mul a (S.mul b c) = S.mul b (S.mul a c) := by
  rw [← h.mul_assoc, h.mul_comm a b, h.mul_assoc]
/-- `(p + q) + (r + s) = (p + r) + (q + s)` -/
theorem sr_add4 (h : S.Laws) (p q r s : α) :
    S.add (S.add p q) (S.add r s) = S.add (S.add p r) (S.add q s) := by
  rw [h.add_assoc, h.add_assoc, sr_add_left_comm h q r s]

end Bdd

namespace Spec
open Bdd
variable {α : Type} {S : SROps α}

/-! ## assignments -/

theorem upd_comm (a : Assign) {x y : Nat} (h : x ≠ y) (b c : Bool) :
    upd (upd a x b) y c = upd (upd a y c) x b := by
  funext z
  simp only [upd]
  by_cases h1 : z = y <;> by_cases h2 : z = x <;> simp [h1, h2]
  all_goals (intro e; first | exact absurd e h | exact absurd e.symm h)

@[simp] theorem upd_upd (a : Assign) (x : Nat) (b c : Bool) : upd (upd a x b) x c = upd a x c := by
  funext z; simp only [upd]; by_cases h : z = x <;> simp [h]

theorem allAssignments_length : ∀ (vars : List Nat) (a : Assign),
    (allAssignments vars a).length = 2 ^ vars.length
  | [], _ => rfl
  | v :: vs, a => by
    simp only [allAssignments, List.length_append, List.length_cons,
      allAssignments_length vs, Nat.pow_succ]
    omega

/-- the listed assignments differ from the base only on the listed variables -/
theorem allAssignments_outside : ∀ (vars : List Nat) (a b : Assign),
    b ∈ allAssignments vars a → ∀ x, x ∉ vars → b x = a x
  | [], a, b, hb, x, _ => by simp [allAssignments] at hb; rw [hb]
  | v :: vs, a, b, hb, x, hx => by
    simp only [List.mem_cons, not_or] at hx
    simp only [allAssignments, List.mem_append] at hb
    rcases hb with hb | hb
    · rw [allAssignments_outside vs _ b hb x hx.2, upd_other _ _ hx.1]
    · rw [allAssignments_outside vs _ b hb x hx.2, upd_other _ _ hx.1]

/-! ## congruence and the base assignment -/

/-- `wsum` only looks at `f` on the assignments that extend the base outside `vars` -/
theorem wsum_congr' (S : SROps α) (w : Weights α) : ∀ (vars : List Nat) (f g : BoolFn) (a : Assign),
    (∀ b, (∀ x, x ∉ vars → b x = a x) → f b = g b) → wsum S vars w f a = wsum S vars w g a
  | [], f, g, a, h => by simp only [wsum, h a (fun _ _ => rfl)]
  | v :: vs, f, g, a, h => by
    have key : ∀ c, wsum S vs w f (upd a v c) = wsum S vs w g (upd a v c) := by
      intro c
      apply wsum_congr' S w vs
      intro b hb
      apply h
      intro x hx
      simp only [List.mem_cons, not_or] at hx
      rw [hb x hx.2, upd_other _ _ hx.1]
    simp only [wsum, key]

/-- functions that agree on all assignments have equal sums -/
theorem wsum_congr (S : SROps α) (w : Weights α) (vars : List Nat) {f g : BoolFn} (a : Assign)
    (h : ∀ b, f b = g b) : wsum S vars w f a = wsum S vars w g a :=
  wsum_congr' S w vars f g a (fun b _ => h b)

/-- `wsum` ignores the base assignment on the summed variables -/
theorem wsum_base (S : SROps α) (w : Weights α) : ∀ (vars : List Nat) (f : BoolFn) (a a' : Assign),
    (∀ x, x ∉ vars → a x = a' x) → wsum S vars w f a = wsum S vars w f a'
  | [], f, a, a', h => by
    have : a = a' := funext fun x => h x (by simp)
    rw [this]
  | v :: vs, f, a, a', h => by
    have key : ∀ c, wsum S vs w f (upd a v c) = wsum S vs w f (upd a' v c) := by
      intro c
      apply wsum_base S w vs
      intro x hx
      by_cases hxv : x = v
      · simp [hxv]
      · rw [upd_other _ _ hxv, upd_other _ _ hxv]; exact h x (by simp [hxv, hx])
    simp only [wsum, key]

theorem wsum_base_upd (S : SROps α) (w : Weights α) (vars : List Nat) (f : BoolFn) (a : Assign)
    {v : Nat} (hv : v ∈ vars) (c : Bool) : wsum S vars w f (upd a v c) = wsum S vars w f a := by
  apply wsum_base
  intro x hx
  exact upd_other _ _ (fun e => hx (e ▸ hv))

/-- fixing a variable that is not summed over = conditioning the function -/
theorem wsum_upd_cond (S : SROps α) (w : Weights α) : ∀ (vs : List Nat) (f : BoolFn) (a : Assign)
    (v : Nat) (c : Bool), v ∉ vs → wsum S vs w f (upd a v c) = wsum S vs w (fCond f v c) a
  | [], f, a, v, c, _ => rfl
  | u :: us, f, a, v, c, h => by
    simp only [List.mem_cons, not_or] at h
    have key : ∀ d, wsum S us w f (upd (upd a v c) u d) = wsum S us w (fCond f v c) (upd a u d) := by
      intro d
      rw [upd_comm a h.1 c d]
      exact wsum_upd_cond S w us f _ v c h.2
    simp only [wsum, key]

/-- a variable the function ignores can be set freely in the base -/
theorem wsum_indep_upd (S : SROps α) (w : Weights α) {f : BoolFn} {v : Nat} (hf : Indep f v) :
    ∀ (vs : List Nat) (a : Assign) (c : Bool), wsum S vs w f (upd a v c) = wsum S vs w f a
  | [], a, c => by simp only [wsum, hf a c]
  | u :: us, a, c => by
    by_cases huv : u = v
    · subst huv; simp only [wsum, upd_upd]
    · have hvu : v ≠ u := fun e => huv e.symm
      simp only [wsum, upd_comm a hvu, wsum_indep_upd S w hf us]

/-- factoring: a variable the function does not depend on contributes the factor `lo + hi` -/
theorem wsum_indep (hS : S.Laws) (w : Weights α) {f : BoolFn} {v : Nat} (hf : Indep f v)
    (vs : List Nat) (a : Assign) :
    wsum S (v :: vs) w f a = S.mul (S.add (w v).1 (w v).2) (wsum S vs w f a) := by
  simp only [wsum, wsum_indep_upd S w hf, sr_right_distrib hS]

/-- for normalised weights an irrelevant variable can be dropped -/
theorem wsum_indep_normalised (hS : S.Laws) (w : Weights α) {f : BoolFn} {v : Nat} (hf : Indep f v)
    (hv : S.add (w v).1 (w v).2 = S.one) (vs : List Nat) (a : Assign) :
    wsum S (v :: vs) w f a = wsum S vs w f a := by
  rw [wsum_indep hS w hf, hv, sr_one_mul hS]

/-! ## independence of the variable order -/

theorem wsum_swap (hS : S.Laws) (w : Weights α) (x y : Nat) (vs : List Nat) (f : BoolFn) (a : Assign) :
    wsum S (x :: y :: vs) w f a = wsum S (y :: x :: vs) w f a := by
  by_cases hxy : x = y
  · subst hxy; rfl
  · have hyx : y ≠ x := fun e => hxy e.symm
    simp only [wsum, hS.left_distrib]
    rw [sr_add4 hS]
    simp only [upd_comm a hyx, sr_mul_left_comm hS (w y).1, sr_mul_left_comm hS (w y).2]

/-- the sum does not depend on the order in which the variables are listed -/
theorem wsum_perm (hS : S.Laws) (w : Weights α) {vs vs' : List Nat} (h : List.Perm vs vs') :
    ∀ (f : BoolFn) (a : Assign), wsum S vs w f a = wsum S vs' w f a := by
  induction h with
  | nil => intro f a; rfl
  | cons x _ ih => intro f a; simp only [wsum, ih]
  | swap x y l => intro f a; exact wsum_swap hS w y x l f a
  | trans _ _ ih1 ih2 => intro f a; rw [ih1, ih2]

/-- for normalised weights the sum of a constant is that constant -/
theorem wsum_const (hS : S.Laws) (w : Weights α) (c : Bool) : ∀ (vars : List Nat) (a : Assign),
    Normalised S w vars → wsum S vars w (fun _ => c) a = if c then S.one else S.zero
  | [], _, _ => rfl
  | v :: vs, a, h => by
    have hvs : Normalised S w vs := fun u hu => h u (List.mem_cons_of_mem _ hu)
    simp only [wsum, wsum_const hS w c vs _ hvs]
    rw [← sr_right_distrib hS, h v (List.mem_cons_self), sr_one_mul hS]

/-! ## the brute-force reading -/

/-- semiring sum of a list -/
def sumList (S : SROps α) (l : List α) : α := l.foldr S.add S.zero

theorem sumList_append (hS : S.Laws) : ∀ (l l' : List α),
    sumList S (l ++ l') = S.add (sumList S l) (sumList S l')
  | [], l' => by simp [sumList, sr_zero_add hS]
  | x :: l, l' => by
    have := sumList_append hS l l'
    simp only [sumList, List.cons_append, List.foldr_cons] at this ⊢
    rw [this, hS.add_assoc]

theorem sumList_map_mul (hS : S.Laws) {β : Type} (c : α) (g : β → α) : ∀ (l : List β),
    sumList S (l.map fun b => S.mul c (g b)) = S.mul c (sumList S (l.map g))
  | [] => by simp [sumList, hS.mul_zero]
  | x :: l => by
    have := sumList_map_mul hS c g l
    simp only [sumList, List.map_cons, List.foldr_cons] at this ⊢
    rw [this, hS.left_distrib]

theorem sumList_map_congr {β : Type} {g g' : β → α} : ∀ {l : List β}, (∀ b ∈ l, g b = g' b) →
    sumList S (l.map g) = sumList S (l.map g')
  | [], _ => rfl
  | x :: l, h => by
    have := sumList_map_congr (l := l) (fun b hb => h b (List.mem_cons_of_mem _ hb))
    simp only [sumList, List.map_cons, List.foldr_cons] at this ⊢
    rw [this, h x List.mem_cons_self]

theorem wsumList_eq_sumList (S : SROps α) (vars : List Nat) (w : Weights α) (f : BoolFn) (a : Assign) :
    wsumList S vars w f a =
      sumList S ((allAssignments vars a).map fun b => if f b then assignWeight S w b vars else S.zero) := by
  simp only [wsumList, sumList, List.foldr_map]

/-- the recursive weighted sum is the brute-force sum over the explicit list of `2^n`
assignments (for a duplicate-free variable list: with a repeated variable the list sum squares
its weight, the recursive sum multiplies by `lo + hi`) -/
theorem wsum_eq_wsumList (hS : S.Laws) (w : Weights α) (f : BoolFn) : ∀ (vars : List Nat) (a : Assign),
    vars.Nodup → wsum S vars w f a = wsumList S vars w f a
  | [], a, _ => by simp [wsum, wsumList, allAssignments, assignWeight, hS.add_zero]
  | v :: vs, a, hnd => by
    have hv : v ∉ vs := (List.nodup_cons.mp hnd).1
    have hvs : vs.Nodup := (List.nodup_cons.mp hnd).2
    have key : ∀ c : Bool,
        sumList S ((allAssignments vs (upd a v c)).map fun b =>
          if f b then assignWeight S w b (v :: vs) else S.zero) =
        S.mul (if c then (w v).2 else (w v).1) (wsum S vs w f (upd a v c)) := by
      intro c
      rw [wsum_eq_wsumList hS w f vs _ hvs, wsumList_eq_sumList, ← sumList_map_mul hS]
      apply sumList_map_congr
      intro b hb
      have hbv : b v = c := by rw [allAssignments_outside vs _ b hb v hv, upd_same]
      by_cases hfb : f b
      · simp only [hfb, if_true, assignWeight, hbv]
      · have hfb' : f b = false := by simpa using hfb
        simp [hfb', hS.mul_zero]
    rw [wsumList_eq_sumList]
    simp only [allAssignments, List.map_append]
    rw [sumList_append hS, key false, key true]
    rfl

end Spec

namespace Bdd
open Spec
variable {α : Type} {S : SROps α}

/-! ## free diagrams -/

/-- the variables a diagram tests (with repetitions) -/
def Ptr.vars : Ptr → List Nat
  | .tru | .fls => []
  | .node _ v lo hi => v :: (lo.vars ++ hi.vars)

/-- no variable is decided twice on a path (every ROBDD of every order, every decision-DNNF) -/
def Ptr.free : Ptr → Prop
  | .tru | .fls => True
  | .node _ v lo hi => v ∉ lo.vars ∧ v ∉ hi.vars ∧ lo.free ∧ hi.free

instance Ptr.decFree : (p : Ptr) → Decidable p.free
  | .tru => Decidable.isTrue trivial
  | .fls => Decidable.isTrue trivial
  | .node _ v lo hi =>
    have := Ptr.decFree lo
    have := Ptr.decFree hi
    inferInstanceAs (Decidable (v ∉ lo.vars ∧ v ∉ hi.vars ∧ lo.free ∧ hi.free))

@[simp] theorem vars_neg (p : Ptr) : p.neg.vars = p.vars := by cases p <;> rfl
theorem free_neg {p : Ptr} (h : p.free) : p.neg.free := by cases p <;> exact h

/-- a diagram does not depend on a variable it does not test -/
theorem eval_upd_of_not_mem (a : Assign) (x : Nat) (b : Bool) : ∀ (p : Ptr), x ∉ p.vars →
    p.eval (upd a x b) = p.eval a
  | .tru, _ => rfl
  | .fls, _ => rfl
  | .node c v lo hi, h => by
    simp only [Ptr.vars, List.mem_cons, List.mem_append, not_or] at h
    have hv : v ≠ x := fun e => h.1 e.symm
    simp only [Ptr.eval, upd_other _ _ hv, eval_upd_of_not_mem a x b lo h.2.1,
      eval_upd_of_not_mem a x b hi h.2.2]

/-! ## complement edges -/

/-- the count below an odd number of complement edges is the count of the negation -/
theorem wmcAux_true (S : SROps α) (w : Weights α) (p : Ptr) : wmcAux S w p true = wmc S w p.neg := by
  cases p with
  | tru => rfl
  | fls => rfl
  | node c v lo hi => cases c <;> rfl

theorem wmcAux_flag (S : SROps α) (w : Weights α) (p : Ptr) (n : Bool) :
    wmcAux S w p n = wmc S w (if n then p.neg else p) := by
  cases n
  · rfl
  · exact wmcAux_true S w p

/-! ## normalised weights: the count is the weighted sum of the denoted function -/

theorem wmcAux_free (hS : S.Laws) (w : Weights α) : ∀ (p : Ptr) (n : Bool) (vars : List Nat) (a : Assign),
    p.free → vars.Nodup → (∀ v ∈ p.vars, v ∈ vars) → Normalised S w vars →
    wmcAux S w p n = wsum S vars w (fun b => xor n (p.eval b)) a
  | .tru, n, vars, a, _, _, _, hw => by
    simp only [Ptr.eval, wsum_const hS w _ vars a hw, wmcAux]; cases n <;> rfl
  | .fls, n, vars, a, _, _, _, hw => by
    simp only [Ptr.eval, wsum_const hS w _ vars a hw, wmcAux]; cases n <;> rfl
  | .node c v lo hi, n, vars, a, hf, hnd, hsub, hw => by
    obtain ⟨hvlo, hvhi, hflo, hfhi⟩ := hf
    have hv : v ∈ vars := hsub v List.mem_cons_self
    have hnd' : (vars.erase v).Nodup := hnd.erase v
    have hv' : v ∉ vars.erase v := fun h => (hnd.mem_erase_iff.mp h).1 rfl
    have hw' : Normalised S w (vars.erase v) := fun u hu => hw u (List.mem_of_mem_erase hu)
    have hsublo : ∀ u ∈ lo.vars, u ∈ vars.erase v := fun u hu =>
      (List.mem_erase_of_ne (fun e => hvlo (by rw [← e]; exact hu))).mpr
        (hsub u (List.mem_cons_of_mem _ (List.mem_append_left _ hu)))
    have hsubhi : ∀ u ∈ hi.vars, u ∈ vars.erase v := fun u hu =>
      (List.mem_erase_of_ne (fun e => hvhi (by rw [← e]; exact hu))).mpr
        (hsub u (List.mem_cons_of_mem _ (List.mem_append_right _ hu)))
    rw [wsum_perm hS w (List.perm_cons_erase hv)]
    simp only [wmcAux, wsum]
    rw [wmcAux_free hS w lo (xor n c) _ (upd a v false) hflo hnd' hsublo hw',
        wmcAux_free hS w hi (xor n c) _ (upd a v true) hfhi hnd' hsubhi hw']
    have e0 : wsum S (vars.erase v) w (fun b => xor (xor n c) (lo.eval b)) (upd a v false) =
        wsum S (vars.erase v) w (fun b => xor n ((Ptr.node c v lo hi).eval b)) (upd a v false) := by
      apply wsum_congr'
      intro b hb
      have hbv : b v = false := by rw [hb v hv', upd_same]
      simp [Ptr.eval, hbv]
    have e1 : wsum S (vars.erase v) w (fun b => xor (xor n c) (hi.eval b)) (upd a v true) =
        wsum S (vars.erase v) w (fun b => xor n ((Ptr.node c v lo hi).eval b)) (upd a v true) := by
      apply wsum_congr'
      intro b hb
      have hbv : b v = true := by rw [hb v hv', upd_same]
      simp [Ptr.eval, hbv]
    rw [e0, e1]

/-- **C07, normalised weights.**  For a free diagram, a duplicate-free variable list that
contains its variables and weights with `lo + hi = one` on that list, the weighted model count
is the semiring sum over all assignments of `vars` that satisfy the denoted function of the
product of the chosen literal weights.  Complement edges anywhere are covered (`Ptr.eval`
interprets them), and by `wsum_perm` the right-hand side does not depend on the order. -/
theorem wmc_free (hS : S.Laws) (w : Weights α) {p : Ptr} (hf : p.free) {vars : List Nat}
    (hnd : vars.Nodup) (hsub : ∀ v ∈ p.vars, v ∈ vars) (hw : Normalised S w vars) (a : Assign) :
    wmc S w p = wsum S vars w p.eval a := by
  rw [wmc, wmcAux_free hS w p false vars a hf hnd hsub hw]
  simp

/-- the count of a complemented pointer is the sum for the negated function -/
theorem wmc_neg_free (hS : S.Laws) (w : Weights α) {p : Ptr} (hf : p.free) {vars : List Nat}
    (hnd : vars.Nodup) (hsub : ∀ v ∈ p.vars, v ∈ vars) (hw : Normalised S w vars) (a : Assign) :
    wmc S w p.neg = wsum S vars w (fNot p.eval) a := by
  rw [wmc_free hS w (free_neg hf) hnd (by simpa using hsub) hw a]
  apply wsum_congr; intro b; simp [fNot]

/-! ## Boolean evaluation -/

theorem evaluateAux_eq (inst : Assign) : ∀ (p : Ptr) (n : Bool),
    wmcAux boolOps (fun v => (!(inst v), inst v)) p n = xor n (p.eval inst)
  | .tru, n => by cases n <;> rfl
  | .fls, n => by cases n <;> rfl
  | .node c v lo hi, n => by
    rw [wmcAux, evaluateAux_eq inst lo, evaluateAux_eq inst hi]
    simp only [Ptr.eval, boolOps]
    cases inst v <;> simp

/-- `DDNNFPtr::evaluate` agrees with the denoted function, for every diagram -/
theorem evaluate_eq (p : Ptr) (a : Assign) : evaluate p a = p.eval a := by
  simp [evaluate, wmc, evaluateAux_eq]

/-! ## semantic hashing -/

/-- a duplicate-free list with the same members -/
def ddup : List Nat → List Nat
  | [] => []
  | x :: xs => if x ∈ ddup xs then ddup xs else x :: ddup xs

theorem mem_ddup : ∀ {l : List Nat} {x : Nat}, x ∈ ddup l ↔ x ∈ l
  | [], x => by simp [ddup]
  | y :: ys, x => by
    simp only [ddup]
    split
    · rename_i h
      rw [mem_ddup, List.mem_cons]
      constructor
      · exact Or.inr
      · rintro (rfl | h')
        · exact mem_ddup.mp h
        · exact h'
    · simp only [List.mem_cons, mem_ddup]

theorem nodup_ddup : ∀ (l : List Nat), (ddup l).Nodup
  | [] => List.nodup_nil
  | y :: ys => by
    simp only [ddup]
    split
    · exact nodup_ddup ys
    · rename_i h; exact List.nodup_cons.mpr ⟨h, nodup_ddup ys⟩

/-- **C11.**  The count with normalised weights is determined by the denoted function: two free
diagrams — of any two orders, any construction history — that denote the same function have
the same count. -/
theorem hash_denotational (hS : S.Laws) (w : Weights α) {p q : Ptr} (hp : p.free) (hq : q.free)
    (hw : ∀ v, v ∈ p.vars ∨ v ∈ q.vars → S.add (w v).1 (w v).2 = S.one)
    (heq : ∀ a, p.eval a = q.eval a) : wmc S w p = wmc S w q := by
  have hnd := nodup_ddup (p.vars ++ q.vars)
  have hN : Normalised S w (ddup (p.vars ++ q.vars)) := fun v hv =>
    hw v (List.mem_append.mp (mem_ddup.mp hv))
  rw [wmc_free hS w hp hnd (fun v hv => mem_ddup.mpr (List.mem_append_left _ hv)) hN (fun _ => false),
      wmc_free hS w hq hnd (fun v hv => mem_ddup.mpr (List.mem_append_right _ hv)) hN (fun _ => false)]
  exact wsum_congr S w _ _ heq

theorem wmcAux_add (hS : S.Laws) (w : Weights α) : ∀ (p : Ptr),
    (∀ v ∈ p.vars, S.add (w v).1 (w v).2 = S.one) →
    S.add (wmcAux S w p false) (wmcAux S w p true) = S.one
  | .tru, _ => by simp [wmcAux, hS.add_zero]
  | .fls, _ => by simp [wmcAux, sr_zero_add hS]
  | .node c v lo hi, h => by
    have hlo := wmcAux_add hS w lo (fun u hu => h u (List.mem_cons_of_mem _ (List.mem_append_left _ hu)))
    have hhi := wmcAux_add hS w hi (fun u hu => h u (List.mem_cons_of_mem _ (List.mem_append_right _ hu)))
    simp only [wmcAux]
    rw [sr_add4 hS, ← hS.left_distrib, ← hS.left_distrib]
    cases c
    · simp only [Bool.xor_false] at *
      rw [hlo, hhi, hS.mul_one, hS.mul_one]; exact h v List.mem_cons_self
    · simp only [Bool.xor_true, Bool.not_false, Bool.not_true] at *
      rw [hS.add_comm (wmcAux S w lo true), hS.add_comm (wmcAux S w hi true),
        hlo, hhi, hS.mul_one, hS.mul_one]; exact h v List.mem_cons_self

/-- **C11.**  A negation hashes to one minus the hash (stated additively; holds for every
diagram, free or not) -/
theorem hash_neg (hS : S.Laws) (w : Weights α) (p : Ptr)
    (hw : ∀ v ∈ p.vars, S.add (w v).1 (w v).2 = S.one) :
    S.add (wmc S w p) (wmc S w p.neg) = S.one := by
  rw [← wmcAux_true]; exact wmcAux_add hS w p hw

/-- the same with a subtraction that cancels addition (a field, a ring) -/
theorem hash_neg_sub (hS : S.Laws) (sub : α → α → α) (hsub : ∀ x y, sub (S.add x y) x = y)
    (w : Weights α) (p : Ptr) (hw : ∀ v ∈ p.vars, S.add (w v).1 (w v).2 = S.one) :
    wmc S w p.neg = sub S.one (wmc S w p) := by
  rw [← hash_neg hS w p hw, hsub]

end Bdd

/-! ## arbitrary weights: the sum over the variables each sub-function depends on -/
namespace Spec
variable {α : Type}

open Classical in
/-- the sum taken only over the variables each sub-function actually depends on, by recursion
over the variable order: a variable the (conditioned) function ignores contributes nothing,
one it depends on splits the sum.  (A specification: not computable.) -/
noncomputable def pathCount (S : SROps α) (w : Weights α) : List Nat → BoolFn → Assign → α
  | [], f, a => if f a then S.one else S.zero
  | v :: vs, f, a =>
    if Indep f v then pathCount S w vs f a
    else S.add (S.mul (w v).1 (pathCount S w vs (fCond f v false) a))
               (S.mul (w v).2 (pathCount S w vs (fCond f v true) a))

theorem pathCount_const (S : SROps α) (w : Weights α) (c : Bool) : ∀ (vars : List Nat) (a : Assign),
    pathCount S w vars (fun _ => c) a = if c then S.one else S.zero
  | [], _ => rfl
  | v :: vs, a => by
    have : Indep (fun _ : Assign => c) v := fun _ _ => rfl
    simp only [pathCount, this, if_true, pathCount_const S w c vs]

end Spec

namespace Bdd
open Spec
variable {α : Type} {S : SROps α}

/-- reduced ordered BDD with complement edges over the variable order `l` (first element =
top of the order): variables strictly follow the list along every path, no node has equal
children, every high edge is regular and not the false constant (`mkNode`'s normal form) -/
inductive Robdd : List Nat → Ptr → Prop
  | tru (l) : Robdd l .tru
  | fls (l) : Robdd l .fls
  | skip {u us p} : Robdd us p → Robdd (u :: us) p
  | node {u us c lo hi} : Robdd us lo → Robdd us hi → lo ≠ hi → hi.isNeg = false → hi ≠ .fls →
      Robdd (u :: us) (.node c u lo hi)

theorem Robdd.inv_nil {p : Ptr} (h : Robdd [] p) : p = .tru ∨ p = .fls := by
  cases h
  · exact Or.inl rfl
  · exact Or.inr rfl

theorem Robdd.inv_cons {u : Nat} {us : List Nat} {p : Ptr} (h : Robdd (u :: us) p) :
    Robdd us p ∨ ∃ c lo hi, p = .node c u lo hi ∧ Robdd us lo ∧ Robdd us hi ∧ lo ≠ hi ∧
      hi.isNeg = false ∧ hi ≠ .fls := by
  cases h with
  | tru => exact Or.inl (.tru _)
  | fls => exact Or.inl (.fls _)
  | skip h => exact Or.inl h
  | node h1 h2 h3 h4 h5 => exact Or.inr ⟨_, _, _, rfl, h1, h2, h3, h4, h5⟩

theorem Robdd.vars_sub {l : List Nat} {p : Ptr} (h : Robdd l p) : ∀ v ∈ p.vars, v ∈ l := by
  induction h with
  | tru => intro v hv; simp [Ptr.vars] at hv
  | fls => intro v hv; simp [Ptr.vars] at hv
  | skip _ ih => intro v hv; exact List.mem_cons_of_mem _ (ih v hv)
  | node _ _ _ _ _ ih1 ih2 =>
    intro v hv
    simp only [Ptr.vars, List.mem_cons, List.mem_append] at hv
    rcases hv with rfl | hv | hv
    · exact List.mem_cons_self
    · exact List.mem_cons_of_mem _ (ih1 v hv)
    · exact List.mem_cons_of_mem _ (ih2 v hv)

theorem Robdd.free {l : List Nat} {p : Ptr} (h : Robdd l p) (hnd : l.Nodup) : p.free := by
  induction h with
  | tru => trivial
  | fls => trivial
  | skip _ ih => exact ih (List.nodup_cons.mp hnd).2
  | node h1 h2 _ _ _ ih1 ih2 =>
    have hu := (List.nodup_cons.mp hnd).1
    have hus := (List.nodup_cons.mp hnd).2
    exact ⟨fun h => hu (h1.vars_sub _ h), fun h => hu (h2.vars_sub _ h), ih1 hus, ih2 hus⟩

/-- a regular pointer is true under the all-true assignment -/
theorem Robdd.eval_allTrue {l : List Nat} {p : Ptr} (h : Robdd l p) :
    p.isNeg = false → p ≠ .fls → p.eval (fun _ => true) = true := by
  induction h with
  | tru => intros; rfl
  | fls => intro _ h; exact absurd rfl h
  | skip _ ih => exact ih
  | @node u us c lo hi _ _ _ h4 h5 _ ih2 =>
    intro hc _
    cases c
    · simp [Ptr.eval, ih2 h4 h5]
    · simp [Ptr.isNeg] at hc

theorem eval_node_upd {c : Bool} {u : Nat} {lo hi : Ptr} (hlo : u ∉ lo.vars) (hhi : u ∉ hi.vars)
    (a : Assign) (b : Bool) :
    (Ptr.node c u lo hi).eval (upd a u b) = xor c (if b then hi.eval a else lo.eval a) := by
  simp only [Ptr.eval, upd_same, eval_upd_of_not_mem a u b lo hlo, eval_upd_of_not_mem a u b hi hhi]

/-- given canonicity below the top variable, a reduced node depends on its top variable -/
theorem node_dep_of_canon {u : Nat} {us : List Nat} (hu : u ∉ us)
    (ih : ∀ p q, Robdd us p → Robdd us q → (∀ a, p.eval a = q.eval a) → p = q)
    {c : Bool} {lo hi : Ptr} (hlo : Robdd us lo) (hhi : Robdd us hi) (hne : lo ≠ hi) :
    ∃ a, (Ptr.node c u lo hi).eval (upd a u false) ≠ (Ptr.node c u lo hi).eval (upd a u true) := by
  apply Classical.byContradiction
  intro hcon
  apply hne
  apply ih lo hi hlo hhi
  intro a
  apply Classical.byContradiction
  intro hd
  apply hcon
  refine ⟨a, ?_⟩
  rw [eval_node_upd (fun h => hu (hlo.vars_sub _ h)) (fun h => hu (hhi.vars_sub _ h)),
      eval_node_upd (fun h => hu (hlo.vars_sub _ h)) (fun h => hu (hhi.vars_sub _ h))]
  revert hd
  cases c <;> cases lo.eval a <;> cases hi.eval a <;> simp

/-- **canonicity** of reduced ordered BDDs with complement edges, for an order given as a
duplicate-free list: two such diagrams denoting the same function are equal -/
theorem robdd_canon : ∀ (l : List Nat), l.Nodup → ∀ p q, Robdd l p → Robdd l q →
    (∀ a, p.eval a = q.eval a) → p = q
  | [], _, p, q, hp, hq, heq => by
    rcases hp.inv_nil with rfl | rfl <;> rcases hq.inv_nil with rfl | rfl <;>
      first | rfl | (have := heq (fun _ => true); simp [Ptr.eval] at this)
  | u :: us, hnd, p, q, hp, hq, heq => by
    have hu := (List.nodup_cons.mp hnd).1
    have ih := robdd_canon us (List.nodup_cons.mp hnd).2
    -- a diagram over `us` against a node on `u`
    have mixed : ∀ (p : Ptr) c lo hi, Robdd us p → Robdd us lo → Robdd us hi → lo ≠ hi →
        (∀ a, p.eval a = (Ptr.node c u lo hi).eval a) → False := by
      intro p c lo hi hp hlo hhi hne heq
      obtain ⟨a, ha⟩ := node_dep_of_canon (c := c) hu ih hlo hhi hne
      apply ha
      rw [← heq, ← heq, eval_upd_of_not_mem _ _ _ p (fun h => hu (hp.vars_sub _ h)),
        eval_upd_of_not_mem _ _ _ p (fun h => hu (hp.vars_sub _ h))]
    rcases hp.inv_cons with hp | ⟨c, lo, hi, rfl, hlo, hhi, hne, hreg, hnf⟩ <;>
      rcases hq.inv_cons with hq | ⟨c', lo', hi', rfl, hlo', hhi', hne', hreg', hnf'⟩
    · exact ih p q hp hq heq
    · exact (mixed p c' lo' hi' hp hlo' hhi' hne' heq).elim
    · exact (mixed q c lo hi hq hlo hhi hne (fun a => (heq a).symm)).elim
    · have nlo := fun h => hu (hlo.vars_sub u h)
      have nhi := fun h => hu (hhi.vars_sub u h)
      have nlo' := fun h => hu (hlo'.vars_sub u h)
      have nhi' := fun h => hu (hhi'.vars_sub u h)
      have hH : ∀ a, xor c (hi.eval a) = xor c' (hi'.eval a) := by
        intro a
        have := heq (upd a u true)
        rwa [eval_node_upd nlo nhi, eval_node_upd nlo' nhi'] at this
      have hL : ∀ a, xor c (lo.eval a) = xor c' (lo'.eval a) := by
        intro a
        have := heq (upd a u false)
        rwa [eval_node_upd nlo nhi, eval_node_upd nlo' nhi'] at this
      have hc : c = c' := by
        have := hH (fun _ => true)
        rw [hhi.eval_allTrue hreg hnf, hhi'.eval_allTrue hreg' hnf'] at this
        revert this; cases c <;> cases c' <;> simp
      subst hc
      have e1 : hi = hi' := ih hi hi' hhi hhi' (fun a => by
        have := hH a; revert this; cases c <;> simp)
      have e2 : lo = lo' := ih lo lo' hlo hlo' (fun a => by
        have := hL a; revert this; cases c <;> simp)
      rw [e1, e2]

/-- a reduced ordered node depends on its top variable -/
theorem robdd_node_dep {u : Nat} {us : List Nat} (hnd : (u :: us).Nodup) {c : Bool} {lo hi : Ptr}
    (hlo : Robdd us lo) (hhi : Robdd us hi) (hne : lo ≠ hi) :
    ∃ a, (Ptr.node c u lo hi).eval (upd a u false) ≠ (Ptr.node c u lo hi).eval (upd a u true) :=
  node_dep_of_canon (List.nodup_cons.mp hnd).1 (robdd_canon us (List.nodup_cons.mp hnd).2) hlo hhi hne

theorem wmcAux_robdd (S : SROps α) (w : Weights α) {l : List Nat} {p : Ptr} (h : Robdd l p) :
    l.Nodup → ∀ (n : Bool) (a : Assign),
    wmcAux S w p n = pathCount S w l (fun b => xor n (p.eval b)) a := by
  induction h with
  | tru l => intro _ n a; simp only [Ptr.eval, pathCount_const, wmcAux]; cases n <;> rfl
  | fls l => intro _ n a; simp only [Ptr.eval, pathCount_const, wmcAux]; cases n <;> rfl
  | @skip u us p hp ih =>
    intro hnd n a
    have hu := (List.nodup_cons.mp hnd).1
    have hind : Indep (fun b => xor n (p.eval b)) u := fun a b => by
      simp only [eval_upd_of_not_mem a u b p (fun h => hu (hp.vars_sub _ h))]
    simp only [pathCount, hind, if_true]
    exact ih (List.nodup_cons.mp hnd).2 n a
  | @node u us c lo hi hlo hhi hne _ _ ih1 ih2 =>
    intro hnd n a
    have hu := (List.nodup_cons.mp hnd).1
    have hus := (List.nodup_cons.mp hnd).2
    have nlo := fun h => hu (hlo.vars_sub u h)
    have nhi := fun h => hu (hhi.vars_sub u h)
    have hdep : ¬ Indep (fun b => xor n ((Ptr.node c u lo hi).eval b)) u := by
      intro hind
      obtain ⟨a0, ha0⟩ := robdd_node_dep (c := c) hnd hlo hhi hne
      apply ha0
      have h1 := hind a0 false
      have h2 := hind a0 true
      simp only at h1 h2
      have := h1.trans h2.symm
      revert this
      cases (Ptr.node c u lo hi).eval (upd a0 u false) <;>
        cases (Ptr.node c u lo hi).eval (upd a0 u true) <;> cases n <;> simp
    have e0 : fCond (fun b => xor n ((Ptr.node c u lo hi).eval b)) u false =
        fun b => xor (xor n c) (lo.eval b) := by
      funext b; simp only [fCond, eval_node_upd nlo nhi]; simp
    have e1 : fCond (fun b => xor n ((Ptr.node c u lo hi).eval b)) u true =
        fun b => xor (xor n c) (hi.eval b) := by
      funext b; simp only [fCond, eval_node_upd nlo nhi]; simp
    simp only [pathCount, hdep, if_false, e0, e1, wmcAux]
    rw [ih1 hus (xor n c) a, ih2 hus (xor n c) a]

/-- **C07, arbitrary weights.**  For a reduced ordered BDD (any order, complement edges) and
arbitrary weights — no normalisation, no semiring law — the count equals the sum taken only
over the variables each sub-function actually depends on. -/
theorem wmc_reduced_ordered (S : SROps α) (w : Weights α) {order : List Nat} {p : Ptr}
    (hnd : order.Nodup) (h : Robdd order p) (a : Assign) :
    wmc S w p = pathCount S w order p.eval a := by
  rw [wmc, wmcAux_robdd S w h hnd false a]
  simp

end Bdd

/-! ## the same for an order given as a level map (`VarOrder`) -/
namespace Bdd
open Spec
variable {α : Type} {S : SROps α}

/-- ordered w.r.t. the level map, all levels in `[k, m)` -/
def Ptr.ordBetween (lvl : Nat → Nat) (k m : Nat) : Ptr → Prop
  | .tru | .fls => True
  | .node _ v lo hi => k ≤ lvl v ∧ lvl v < m ∧
      lo.ordBetween lvl (lvl v + 1) m ∧ hi.ordBetween lvl (lvl v + 1) m

/-- no node with equal children, every high edge regular and not false -/
def Ptr.reducedN : Ptr → Prop
  | .tru | .fls => True
  | .node _ _ lo hi => lo ≠ hi ∧ hi.isNeg = false ∧ hi ≠ .fls ∧ lo.reducedN ∧ hi.reducedN

theorem ordBetween_mono {lvl : Nat → Nat} {k k' m : Nat} (h : k' ≤ k) :
    ∀ {p : Ptr}, p.ordBetween lvl k m → p.ordBetween lvl k' m
  | .tru, _ => trivial
  | .fls, _ => trivial
  | .node _ _ _ _, ⟨h1, h2, h3, h4⟩ => ⟨Nat.le_trans h h1, h2, h3, h4⟩

/-- the variables at levels `k, k+1, …, k+d-1` -/
def levelVars (varAt : Nat → Nat) (k d : Nat) : List Nat := (List.range' k d).map varAt

theorem levelVars_succ (varAt : Nat → Nat) (k d : Nat) :
    levelVars varAt k (d + 1) = varAt k :: levelVars varAt (k + 1) d := by
  simp [levelVars, List.range'_succ]

theorem levelVars_nodup {lvl varAt : Nat → Nat} {m : Nat} (hinv : ∀ i, i < m → lvl (varAt i) = i) :
    ∀ (d k : Nat), k + d ≤ m → (levelVars varAt k d).Nodup
  | 0, _, _ => List.nodup_nil
  | d + 1, k, h => by
    rw [levelVars_succ, List.nodup_cons]
    refine ⟨?_, levelVars_nodup hinv d (k + 1) (by omega)⟩
    intro hmem
    simp only [levelVars, List.mem_map, List.mem_range'_1] at hmem
    obtain ⟨i, ⟨hi1, hi2⟩, hi3⟩ := hmem
    have := congrArg lvl hi3
    rw [hinv i (by omega), hinv k (by omega)] at this
    omega

/-- a diagram ordered by a level map is ordered along the list of the variables at those levels -/
theorem robdd_of_ordBetween {lvl varAt : Nat → Nat} {m : Nat} : ∀ (d k : Nat) (p : Ptr), k + d = m →
    p.ordBetween lvl k m → p.reducedN → (∀ v ∈ p.vars, varAt (lvl v) = v) →
    Robdd (levelVars varAt k d) p
  | _, _, .tru, _, _, _, _ => .tru _
  | _, _, .fls, _, _, _, _ => .fls _
  | 0, k, .node c v lo hi, hk, ⟨h1, h2, _, _⟩, _, _ => by omega
  | d + 1, k, .node c v lo hi, hk, ⟨h1, h2, h3, h4⟩, ⟨r1, r2, r3, r4, r5⟩, hv => by
    rw [levelVars_succ]
    by_cases hlv : lvl v = k
    · have hvk : varAt k = v := by rw [← hlv]; exact hv v List.mem_cons_self
      rw [hvk]
      rw [hlv] at h3 h4
      refine .node ?_ ?_ r1 r2 r3
      · exact robdd_of_ordBetween d (k + 1) lo (by omega) h3 r4
          (fun u hu => hv u (List.mem_cons_of_mem _ (List.mem_append_left _ hu)))
      · exact robdd_of_ordBetween d (k + 1) hi (by omega) h4 r5
          (fun u hu => hv u (List.mem_cons_of_mem _ (List.mem_append_right _ hu)))
    · exact .skip (robdd_of_ordBetween d (k + 1) (.node c v lo hi) (by omega)
        ⟨by omega, h2, h3, h4⟩ ⟨r1, r2, r3, r4, r5⟩ hv)

/-- **C07, arbitrary weights, level-map form**: `lvl`/`varAt` are `VarOrder::get` /
`VarOrder::var_at_level`, `m` the number of variables of the order -/
theorem wmc_reduced_ordered_lvl (S : SROps α) (w : Weights α) {lvl varAt : Nat → Nat} {m : Nat} {p : Ptr}
    (hinv : ∀ i, i < m → lvl (varAt i) = i) (hv : ∀ v ∈ p.vars, varAt (lvl v) = v)
    (hord : p.ordBetween lvl 0 m) (hred : p.reducedN) (a : Assign) :
    wmc S w p = pathCount S w (levelVars varAt 0 m) p.eval a :=
  wmc_reduced_ordered S w (levelVars_nodup hinv m 0 (by omega))
    (robdd_of_ordBetween m 0 p (by omega) hord hred hv) a

end Bdd
