import RsddModel.Lemmas.SddSem
/-!
# SDD lemmas, totality: with `vt.height + 1` units of fuel every builder operation returns

The fuel of `Sdd.and` bounds the *recursion depth* (`and (fuel+1) = andBody (and fuel)`, every
call inside one body — product loops, the `or`s of `compress` — runs on `and fuel`).  The
termination measure is the height of the smallest sub-vtree that contains both operands:
every recursive call of `and_cartesian` / `and_sub_desc` / `and_prime_desc`, and every `or` of
`compress`, is on pointers that live in the left or in the right child of the node the call works
at.  That needs a *positional* invariant (`Pos`): primes sit (by vtree index) in the left child,
subs in the right child, no decision node sits at a right-linear vtree node (there
`and_cartesian` calls `low()/high()` on its second operand).  `WF` alone (C03) is too weak for
totality: `and (bdd …@i) (dec …@i [(⊤, s)])` at a right-linear `i` is well formed for `WF` and
panics.  The file proves that `Pos` is kept by every operation and that, on `WF ∧ Pos` operands,
nothing fails.
-/
namespace Sdd
open Spec

/-! ## vtree: occurrences of sub-vtrees with their in-order offset -/

def VTree.height : VTree → Nat
  | .leaf _ => 0
  | .node l r => max l.height r.height + 1

/-- position of the root inside the in-order numbering of the tree -/
def VTree.rootOff : VTree → Nat
  | .leaf _ => 0
  | .node l _ => l.size

/-- `s` occurs in `t` (numbered from `off`) with its numbering starting at `o` -/
def VTree.At : VTree → Nat → VTree → Nat → Prop
  | .leaf v, off, s, o => s = .leaf v ∧ o = off
  | .node l r, off, s, o =>
    (s = .node l r ∧ o = off) ∨ l.At off s o ∨ r.At (off + l.size + 1) s o

theorem VTree.At_refl (t : VTree) (off : Nat) : t.At off t off := by
  cases t <;> simp [VTree.At]

theorem VTree.At_range {t : VTree} {off : Nat} {s : VTree} {o : Nat} (h : t.At off s o) :
    off ≤ o ∧ o + s.size ≤ off + t.size := by
  induction t generalizing off with
  | leaf v => obtain ⟨rfl, rfl⟩ := h; simp
  | node l r ihl ihr =>
    rcases h with ⟨rfl, rfl⟩ | h | h
    · simp
    · have := ihl h; simp only [VTree.size]; omega
    · have := ihr h; simp only [VTree.size]; omega

theorem VTree.At_height {t : VTree} {off : Nat} {s : VTree} {o : Nat} (h : t.At off s o) :
    s.height ≤ t.height := by
  induction t generalizing off with
  | leaf v => obtain ⟨rfl, rfl⟩ := h; simp
  | node l r ihl ihr =>
    rcases h with ⟨rfl, rfl⟩ | h | h
    · simp
    · have := ihl h; simp only [VTree.height]; omega
    · have := ihr h; simp only [VTree.height]; omega

theorem VTree.At_trans {t : VTree} {off : Nat} {s : VTree} {o : Nat} {s' : VTree} {o' : Nat}
    (h : t.At off s o) (h' : s.At o s' o') : t.At off s' o' := by
  induction t generalizing off with
  | leaf v => obtain ⟨rfl, rfl⟩ := h; exact h'
  | node l r ihl ihr =>
    rcases h with ⟨rfl, rfl⟩ | h | h
    · exact h'
    · exact Or.inr (Or.inl (ihl h))
    · exact Or.inr (Or.inr (ihr h))

theorem VTree.At_left {t : VTree} {off : Nat} {l r : VTree} {o : Nat}
    (h : t.At off (.node l r) o) : t.At off l o :=
  VTree.At_trans h (Or.inr (Or.inl (VTree.At_refl l o)))

theorem VTree.At_right {t : VTree} {off : Nat} {l r : VTree} {o : Nat}
    (h : t.At off (.node l r) o) : t.At off r (o + l.size + 1) :=
  VTree.At_trans h (Or.inr (Or.inr (VTree.At_refl r _)))

/-- inside an occurrence, `sub?` of the big tree is `sub?` of the occurrence -/
theorem VTree.At_sub? {t : VTree} {off : Nat} {s : VTree} {o : Nat} (h : t.At off s o) {k : Nat}
    (h1 : o ≤ k) (h2 : k < o + s.size) : t.sub? off k = s.sub? o k := by
  induction t generalizing off with
  | leaf v => obtain ⟨rfl, rfl⟩ := h; rfl
  | node l r ihl ihr =>
    rcases h with ⟨rfl, rfl⟩ | h | h
    · rfl
    · have := VTree.At_range h
      rw [VTree.sub?_node_lt (by omega)]; exact ihl h
    · have := VTree.At_range h
      rw [VTree.sub?_node_gt (by omega)]; exact ihr h

/-- inside an occurrence, `lca` of the big tree is `lca` of the occurrence -/
theorem VTree.At_lca {t : VTree} {off : Nat} {s : VTree} {o : Nat} (h : t.At off s o) {i j : Nat}
    (hi1 : o ≤ i) (hi2 : i < o + s.size) (hj1 : o ≤ j) (hj2 : j < o + s.size) :
    t.lca off i j = s.lca o i j := by
  induction t generalizing off with
  | leaf v => obtain ⟨rfl, rfl⟩ := h; rfl
  | node l r ihl ihr =>
    rcases h with ⟨rfl, rfl⟩ | h | h
    · rfl
    · have := VTree.At_range h
      have c : i < off + l.size ∧ j < off + l.size := by omega
      simp only [VTree.lca, c, and_self, if_true]; exact ihl h
    · have := VTree.At_range h
      have c1 : ¬ (i < off + l.size ∧ j < off + l.size) := by omega
      have c2 : off + l.size < i ∧ off + l.size < j := by omega
      simp only [VTree.lca, c1, c2, and_self, if_true, if_false]; exact ihr h

theorem VTree.sub?_root (s : VTree) (o : Nat) : s.sub? o (o + s.rootOff) = some s := by
  cases s with
  | leaf v => simp [VTree.sub?, VTree.rootOff]
  | node l r => exact VTree.sub?_node_eq l r o

theorem VTree.rootOff_lt (s : VTree) : s.rootOff < s.size := by
  cases s <;> simp [VTree.rootOff, VTree.size]; omega

/-- every node reachable through `sub?` is an occurrence -/
theorem VTree.At_of_sub? {t : VTree} {off i : Nat} {s : VTree} (h : t.sub? off i = some s) :
    ∃ o, t.At off s o ∧ i = o + s.rootOff := by
  induction t generalizing off with
  | leaf v =>
    simp only [VTree.sub?] at h
    split at h
    · cases h; subst_vars; exact ⟨off, ⟨rfl, rfl⟩, by simp [VTree.rootOff]⟩
    · cases h
  | node l r ihl ihr =>
    simp only [VTree.sub?] at h
    split at h
    · obtain ⟨o, h1, h2⟩ := ihl h
      exact ⟨o, Or.inr (Or.inl h1), h2⟩
    · split at h
      · cases h; subst_vars
        exact ⟨off, Or.inl ⟨rfl, rfl⟩, by simp [VTree.rootOff]⟩
      · obtain ⟨o, h1, h2⟩ := ihr h
        exact ⟨o, Or.inr (Or.inr h1), h2⟩

theorem VTree.At_sub?_root {t : VTree} {off : Nat} {s : VTree} {o : Nat} (h : t.At off s o) :
    t.sub? off (o + s.rootOff) = some s := by
  rw [VTree.At_sub? h (by omega) (by have := s.rootOff_lt; omega)]
  exact VTree.sub?_root s o

/-- laminarity by index: an occurrence whose root index lies in the range of another occurrence
lies inside it -/
theorem VTree.At_laminar {t : VTree} {off : Nat} {s : VTree} {o : Nat} {s' : VTree} {o' : Nat}
    (h : t.At off s o) (h' : t.At off s' o') (h1 : o ≤ o' + s'.rootOff)
    (h2 : o' + s'.rootOff < o + s.size) : s.At o s' o' := by
  have e1 := VTree.At_sub?_root h'
  rw [VTree.At_sub? h h1 h2] at e1
  obtain ⟨o'', h3, h4⟩ := VTree.At_of_sub? e1
  have : o'' = o' := by omega
  subst this
  exact h3

/-- where two distinct nodes sit relative to their least common ancestor -/
theorem VTree.lca_pos {t : VTree} {off i j : Nat} {si sj : VTree}
    (hi : t.sub? off i = some si) (hj : t.sub? off j = some sj) (hij : i < j) :
    ∃ L R o, t.At off (.node L R) o ∧ t.lca off i j = o + L.size ∧
      o ≤ i ∧ i ≤ o + L.size ∧ o + L.size ≤ j ∧ j < o + L.size + 1 + R.size := by
  induction t generalizing off with
  | leaf w =>
    have := VTree.sub?_range hi; have := VTree.sub?_range hj
    simp only [VTree.size] at *; omega
  | node l r ihl ihr =>
    simp only [VTree.lca]
    split
    · rename_i hc
      rw [VTree.sub?_node_lt hc.1] at hi; rw [VTree.sub?_node_lt hc.2] at hj
      obtain ⟨L, R, o, h1, h2⟩ := ihl hi hj
      exact ⟨L, R, o, Or.inr (Or.inl h1), h2⟩
    · split
      · rename_i hc
        rw [VTree.sub?_node_gt hc.1] at hi; rw [VTree.sub?_node_gt hc.2] at hj
        obtain ⟨L, R, o, h1, h2⟩ := ihr hi hj
        exact ⟨L, R, o, Or.inr (Or.inr h1), h2⟩
      · rename_i hc1 hc2
        have r1 := VTree.sub?_range hi
        have r2 := VTree.sub?_range hj
        simp only [VTree.size] at r1 r2
        exact ⟨l, r, off, Or.inl ⟨rfl, rfl⟩, rfl, by omega, by omega, by omega, by omega⟩

/-! ## the positional invariant -/

def Ptr.isConst : Ptr → Bool
  | .tru => true
  | .fls => true
  | _ => false

/-- `p` is a constant or its vtree index lies in `[lo, hi)` -/
def InR (vt : VTree) (lo hi : Nat) (p : Ptr) : Prop :=
  p.isConst = true ∨ (lo ≤ vtreeIndex vt p ∧ vtreeIndex vt p < hi)

/-- first in-order index of the sub-vtree rooted at index `i` -/
def VTree.loOf (t : VTree) (i : Nat) : Nat :=
  match t.sub? 0 i with
  | some (.node l _) => i - l.size
  | _ => i
/-- one past the last in-order index of the sub-vtree rooted at index `i` -/
def VTree.hiOf (t : VTree) (i : Nat) : Nat :=
  match t.sub? 0 i with
  | some (.node _ r) => i + 1 + r.size
  | _ => i + 1

mutual
/-- positional well-formedness: node indices are internal vtree nodes, primes (and the label of a
binary node) sit in the left child of the node's vtree node, subs in the right child, and no
decision node sits at a right-linear vtree node -/
def Pos (vt : VTree) : Ptr → Prop
  | .tru => True
  | .fls => True
  | .lit v _ => vt.hasVar v = true
  | .bdd _ l i lo hi =>
    Internal vt i ∧ vt.hasVar l = true ∧ InR vt (vt.loOf i) i (.lit l true) ∧
      Pos vt lo ∧ Pos vt hi ∧ InR vt (i + 1) (vt.hiOf i) lo ∧ InR vt (i + 1) (vt.hiOf i) hi
  | .dec _ i es => Internal vt i ∧ vt.isRLAt i = false ∧ PosElems vt (vt.loOf i) i (vt.hiOf i) es
def PosElems (vt : VTree) (a i b : Nat) : List (Ptr × Ptr) → Prop
  | [] => True
  | (p, s) :: r => Pos vt p ∧ Pos vt s ∧ InR vt a i p ∧ InR vt (i + 1) b s ∧ PosElems vt a i b r
end

theorem posElems_iff {vt : VTree} {a i b : Nat} {es : List Elem} :
    PosElems vt a i b es ↔
      ∀ e ∈ es, Pos vt e.1 ∧ Pos vt e.2 ∧ InR vt a i e.1 ∧ InR vt (i + 1) b e.2 := by
  induction es with
  | nil => simp [PosElems]
  | cons e l ih =>
    obtain ⟨p, s⟩ := e
    simp only [PosElems, ih, List.mem_cons, forall_eq_or_imp]
    constructor
    · rintro ⟨h1, h2, h3, h4, h5⟩; exact ⟨⟨h1, h2, h3, h4⟩, h5⟩
    · rintro ⟨⟨h1, h2, h3, h4⟩, h5⟩; exact ⟨h1, h2, h3, h4, h5⟩

/-- the invariant of totality: `WF` (C03) and `Pos` -/
def TP (vt : VTree) (p : Ptr) : Prop := WF vt p ∧ Pos vt p

theorem vtreeIndex_neg (vt : VTree) (p : Ptr) : vtreeIndex vt p.neg = vtreeIndex vt p := by
  cases p <;> simp [Ptr.neg, vtreeIndex]
theorem isConst_neg (p : Ptr) : p.neg.isConst = p.isConst := by
  cases p <;> simp [Ptr.neg, Ptr.isConst]

theorem InR_neg {vt : VTree} {lo hi : Nat} {p : Ptr} (h : InR vt lo hi p) : InR vt lo hi p.neg := by
  simpa [InR, vtreeIndex_neg, isConst_neg] using h

theorem InR_mono {vt : VTree} {lo hi lo' hi' : Nat} {p : Ptr} (h : InR vt lo hi p)
    (h1 : lo' ≤ lo) (h2 : hi ≤ hi') : InR vt lo' hi' p := by
  rcases h with h | h
  · exact Or.inl h
  · exact Or.inr ⟨by omega, by omega⟩

theorem InR_tru (vt lo hi) : InR vt lo hi .tru := Or.inl rfl
theorem InR_fls (vt lo hi) : InR vt lo hi .fls := Or.inl rfl

theorem InR_lit {vt : VTree} {lo hi l : Nat} {p q : Bool} (h : InR vt lo hi (.lit l p)) :
    InR vt lo hi (.lit l q) := by
  simpa [InR, vtreeIndex, Ptr.isConst] using h

theorem Pos_neg {vt : VTree} {p : Ptr} (h : Pos vt p) : Pos vt p.neg := by
  cases p <;> first | exact h | (simp only [Ptr.neg, Pos] at h ⊢; exact h)

theorem TP_neg {vt : VTree} {p : Ptr} (h : TP vt p) : TP vt p.neg := ⟨WF_neg h.1, Pos_neg h.2⟩
theorem TP_tru (vt : VTree) : TP vt .tru := ⟨WF_tru vt, trivial⟩
theorem TP_fls (vt : VTree) : TP vt .fls := ⟨WF_fls vt, trivial⟩

theorem isConst_of {p : Ptr} (h1 : p.isTrue = false) (h2 : p.isFalse = false) : p.isConst = false := by
  cases p <;> simp_all [Ptr.isTrue, Ptr.isFalse, Ptr.isConst]

theorem InR_idx {vt : VTree} {lo hi : Nat} {p : Ptr} (h : InR vt lo hi p) (hc : p.isConst = false) :
    lo ≤ vtreeIndex vt p ∧ vtreeIndex vt p < hi := by
  rcases h with h | h
  · rw [hc] at h; cases h
  · exact h

/-- the span of an internal node -/
theorem span_of_sub {vt : VTree} {i : Nat} {L R : VTree} (h : vt.sub? 0 i = some (.node L R)) :
    ∃ o, vt.At 0 (.node L R) o ∧ i = o + L.size ∧ vt.loOf i = o ∧
      vt.hiOf i = o + L.size + 1 + R.size := by
  obtain ⟨o, h1, h2⟩ := VTree.At_of_sub? h
  simp only [VTree.rootOff] at h2
  refine ⟨o, h1, h2, ?_, ?_⟩
  · simp only [VTree.loOf, h]; omega
  · simp only [VTree.hiOf, h]; omega

theorem isRLAt_of_sub {vt : VTree} {i : Nat} {L R : VTree} (h : vt.sub? 0 i = some (.node L R)) :
    vt.isRLAt i = true ↔ ∃ w, L = .leaf w := by
  simp only [VTree.isRLAt, h]
  cases L <;> simp [VTree.isRightLinear]

/-- a positional pointer in the range of a leaf is a constant or a literal of that leaf -/
theorem leaf_range {vt : VTree} {w o : Nat} (hat : vt.At 0 (.leaf w) o) {p : Ptr} (hp : Pos vt p)
    (hr : InR vt o (o + 1) p) : p = .tru ∨ p = .fls ∨ ∃ pol, p = .lit w pol := by
  have hs : vt.sub? 0 o = some (.leaf w) := by
    simpa [VTree.rootOff] using VTree.At_sub?_root hat
  cases p with
  | tru => exact Or.inl rfl
  | fls => exact Or.inr (Or.inl rfl)
  | lit v pol =>
    right; right
    have hi := InR_idx hr rfl
    simp only [Pos, VTree.hasVar, Option.isSome_iff_exists] at hp
    obtain ⟨j, hj⟩ := hp
    simp only [vtreeIndex, hj, Option.getD_some] at hi
    have : j = o := by omega
    subst this
    have := VTree.varIndex?_sub hj
    rw [hs] at this; cases this
    exact ⟨pol, rfl⟩
  | bdd c l i lo hi =>
    exfalso
    have hi' := InR_idx hr rfl
    obtain ⟨⟨l', r', h'⟩, _⟩ := hp
    simp only [vtreeIndex] at hi'
    have : i = o := by omega
    subst this
    rw [hs] at h'; cases h'
  | dec c i es =>
    exfalso
    have hi' := InR_idx hr rfl
    obtain ⟨⟨l', r', h'⟩, _⟩ := hp
    simp only [vtreeIndex] at hi'
    have : i = o := by omega
    subst this
    rw [hs] at h'; cases h'

/-- element lists whose primes sit in `[a, i)` and subs in `[i+1, b)` -/
def ElemsT (vt : VTree) (a i b : Nat) (es : List Elem) : Prop :=
  ∀ e ∈ es, TP vt e.1 ∧ TP vt e.2 ∧ InR vt a i e.1 ∧ InR vt (i + 1) b e.2

theorem ElemsT_negSubs {vt a i b es} (h : ElemsT vt a i b es) : ElemsT vt a i b (negSubs es) := by
  intro e he
  simp only [negSubs, List.mem_map] at he
  obtain ⟨e', he', rfl⟩ := he
  obtain ⟨h1, h2, h3, h4⟩ := h e' he'
  exact ⟨h1, TP_neg h2, h3, InR_neg h4⟩

/-- what a well formed positional node looks like -/
structure NodeInfo (vt : VTree) (r : Ptr) (es : List Elem) (L R : VTree) (o : Nat) : Prop where
  at_ : vt.At 0 (.node L R) o
  sub : vt.sub? 0 (o + L.size) = some (.node L R)
  idx : vtreeIndex vt r = o + L.size
  elems : ElemsT vt o (o + L.size) (o + L.size + 1 + R.size) es
  dec_nrl : (∃ c i es', r = .dec c i es') → vt.isRLAt (o + L.size) = false

theorem elems?_T {vt : VTree} {r : Ptr} {es : List Elem} (wr : TP vt r) (h : r.elems? = some es) :
    ∃ L R o, NodeInfo vt r es L R o := by
  obtain ⟨wf, wp⟩ := wr
  cases r with
  | tru => cases h
  | fls => cases h
  | lit v p => cases h
  | bdd c l i lo hi =>
    simp only [Ptr.elems?, Option.some.injEq] at h
    subst h
    obtain ⟨hl, _, _, wlo, whi⟩ := wf
    obtain ⟨⟨L, R, hs⟩, _, hlit, plo, phi, rlo, rhi⟩ := wp
    obtain ⟨o, hat, rfl, e1, e2⟩ := span_of_sub hs
    rw [e1] at hlit; rw [e2] at rlo rhi
    refine ⟨L, R, o, hat, hs, rfl, ?_, ?_⟩
    · intro e he
      simp only [List.mem_cons, List.not_mem_nil, or_false] at he
      have tl : ∀ pol, TP vt (.lit l pol) := fun pol => ⟨by simpa [WF] using hl, by simpa [Pos] using hl⟩
      rcases he with rfl | rfl
      · refine ⟨tl _, ?_, hlit, ?_⟩
        · cases c
          · exact ⟨whi, phi⟩
          · exact TP_neg ⟨whi, phi⟩
        · cases c
          · exact rhi
          · exact InR_neg rhi
      · refine ⟨tl _, ?_, InR_lit hlit, ?_⟩
        · cases c
          · exact ⟨wlo, plo⟩
          · exact TP_neg ⟨wlo, plo⟩
        · cases c
          · exact rlo
          · exact InR_neg rlo
    · rintro ⟨c', i', es', h'⟩; cases h'
  | dec c i es0 =>
    simp only [Ptr.elems?, Option.some.injEq] at h
    subst h
    obtain ⟨_, _, hok⟩ := WF_dec.1 wf
    obtain ⟨⟨L, R, hs⟩, hnrl, hpe⟩ := wp
    obtain ⟨o, hat, rfl, e1, e2⟩ := span_of_sub hs
    rw [e1, e2, posElems_iff] at hpe
    have base : ElemsT vt o (o + L.size) (o + L.size + 1 + R.size) es0 := by
      intro e he
      obtain ⟨h1, h2, h3, h4⟩ := hpe e he
      obtain ⟨w1, w2, _⟩ := hok e he
      exact ⟨⟨w1, h1⟩, ⟨w2, h2⟩, h3, h4⟩
    refine ⟨L, R, o, hat, hs, rfl, ?_, fun _ => hnrl⟩
    cases c
    · exact base
    · exact ElemsT_negSubs base

/-! ## unique_bdd / unique_or / canonicalize_base_case never fail on non-empty vectors -/

theorem uniqueBdd_T {vt : VTree} {L R : VTree} {o l : Nat} {lo hi : Ptr}
    (hs : vt.sub? 0 (o + L.size) = some (.node L R)) (hat : vt.At 0 (.node L R) o)
    (hl : vt.hasVar l = true) (hlit : InR vt o (o + L.size) (.lit l true))
    (plo : Pos vt lo) (phi : Pos vt hi) (rlo : InR vt (o + L.size + 1) (o + L.size + 1 + R.size) lo)
    (rhi : InR vt (o + L.size + 1) (o + L.size + 1 + R.size) hi) :
    Pos vt (uniqueBdd l lo hi (o + L.size)) ∧
      InR vt o (o + L.size + 1 + R.size) (uniqueBdd l lo hi (o + L.size)) := by
  obtain ⟨o', _, e0, e1, e2⟩ := span_of_sub hs
  have : o' = o := by omega
  subst this
  have node : ∀ c lo' hi', Pos vt lo' → Pos vt hi' →
      InR vt (o' + L.size + 1) (o' + L.size + 1 + R.size) lo' →
      InR vt (o' + L.size + 1) (o' + L.size + 1 + R.size) hi' →
      Pos vt (.bdd c l (o' + L.size) lo' hi') ∧
        InR vt o' (o' + L.size + 1 + R.size) (.bdd c l (o' + L.size) lo' hi') := by
    intro c lo' hi' a1 a2 a3 a4
    refine ⟨⟨⟨L, R, hs⟩, hl, by rw [e1]; exact hlit, a1, a2, by rw [e2]; exact a3,
      by rw [e2]; exact a4⟩, Or.inr ?_⟩
    simp only [vtreeIndex]; omega
  simp only [uniqueBdd]
  split
  · exact ⟨phi, InR_mono rhi (by omega) (by omega)⟩
  · split
    · exact ⟨by simpa [Pos] using hl, InR_mono (InR_lit hlit) (by omega) (by omega)⟩
    · split
      · exact ⟨by simpa [Pos] using hl, InR_mono (InR_lit hlit) (by omega) (by omega)⟩
      · split
        · exact node _ _ _ (Pos_neg plo) (Pos_neg phi) (InR_neg rlo) (InR_neg rhi)
        · exact node _ _ _ plo phi rlo rhi

theorem canonBase_mem {es : List Elem} {r : Ptr} (h : canonBase? es = some r) :
    r = .tru ∨ r = .fls ∨ ∃ e ∈ es, r = e.1 ∨ r = e.2 := by
  unfold canonBase? at h
  split at h
  · cases h; exact Or.inl rfl
  · split at h
    · cases h; exact Or.inr (Or.inr ⟨_, List.mem_cons_self .., Or.inr rfl⟩)
    · split at h
      · cases h; exact Or.inr (Or.inl rfl)
      · cases h
  · split at h
    · cases h; exact Or.inr (Or.inr ⟨_, List.mem_cons_self .., Or.inl rfl⟩)
    · split at h
      · cases h
        exact Or.inr (Or.inr ⟨_, List.mem_cons_of_mem _ (List.mem_cons_self ..), Or.inl rfl⟩)
      · cases h
  · cases h

theorem canonBase_T {vt : VTree} {a i b : Nat} {es : List Elem} {r : Ptr} (hl : ElemsT vt a i b es)
    (hai : a ≤ i) (hib : i < b) (h : canonBase? es = some r) : TP vt r ∧ InR vt a b r := by
  rcases canonBase_mem h with rfl | rfl | ⟨e, he, rfl | rfl⟩
  · exact ⟨TP_tru vt, InR_tru ..⟩
  · exact ⟨TP_fls vt, InR_fls ..⟩
  · obtain ⟨h1, _, h3, h4⟩ := hl e he
    refine ⟨h1, ?_⟩
    exact InR_mono h3 (Nat.le_refl _) (by omega)
  · obtain ⟨_, h2, h3, h4⟩ := hl e he
    refine ⟨h2, ?_⟩
    exact InR_mono h4 (by omega) (Nat.le_refl _)

theorem sortByPrime_ne_nil {l : List Elem} (h : l ≠ []) : sortByPrime l ≠ [] := by
  intro e
  cases l with
  | nil => exact h rfl
  | cons x xs =>
    have : x ∈ sortByPrime (x :: xs) := mem_sortByPrime.2 (List.mem_cons_self ..)
    rw [e] at this; cases this

/-- `unique_or` on a non-empty vector -/
theorem uniqueOr_T {vt : VTree} {L R : VTree} {o : Nat} {es : List Elem}
    (hs : vt.sub? 0 (o + L.size) = some (.node L R)) (hat : vt.At 0 (.node L R) o)
    (hl : ElemsT vt o (o + L.size) (o + L.size + 1 + R.size) es) (hne : es ≠ [])
    (hrl : vt.isRLAt (o + L.size) = true → asBdd? es ≠ none) :
    ∃ r, uniqueOr es (o + L.size) = some r ∧ Pos vt r ∧ InR vt o (o + L.size + 1 + R.size) r := by
  simp only [uniqueOr]
  split
  · rename_i l lo hi hb
    obtain ⟨x, pol, p1, s0, s1, rfl, rfl, rfl⟩ := asBdd?_some hb
    obtain ⟨_, t0, _, r0⟩ := hl _ (List.mem_cons_self ..)
    obtain ⟨t1, ts1, r1, rs1⟩ := hl _ (List.mem_cons_of_mem _ (List.mem_cons_self ..))
    have hv : vt.hasVar l = true := by simpa [Pos] using t1.2
    refine ⟨_, rfl, uniqueBdd_T hs hat hv (InR_lit r1) ?_ ?_ ?_ ?_⟩
    · cases pol
      · exact t0.2
      · exact ts1.2
    · cases pol
      · exact ts1.2
      · exact t0.2
    · cases pol
      · exact r0
      · exact rs1
    · cases pol
      · exact rs1
      · exact r0
  · rename_i hb
    have hnrl : vt.isRLAt (o + L.size) = false := by
      cases hr : vt.isRLAt (o + L.size)
      · rfl
      · exact absurd hb (hrl hr)
    obtain ⟨o', _, e0, e1, e2⟩ := span_of_sub hs
    have : o' = o := by omega
    subst this
    have hsorted : ElemsT vt o' (o' + L.size) (o' + L.size + 1 + R.size) (sortByPrime es) := by
      intro e he; exact hl e (mem_sortByPrime.1 he)
    have mk : ∀ c l', ElemsT vt o' (o' + L.size) (o' + L.size + 1 + R.size) l' →
        Pos vt (.dec c (o' + L.size) l') ∧
          InR vt o' (o' + L.size + 1 + R.size) (.dec c (o' + L.size) l') := by
      intro c l' hl'
      refine ⟨⟨⟨L, R, hs⟩, hnrl, ?_⟩, Or.inr ?_⟩
      · rw [e1, e2, posElems_iff]
        intro e he
        obtain ⟨h1, h2, h3, h4⟩ := hl' e he
        exact ⟨h1.2, h2.2, h3, h4⟩
      · simp only [vtreeIndex]; omega
    split
    · rename_i hs0; exact absurd hs0 (sortByPrime_ne_nil hne)
    · rename_i p0 s0 rest hs0
      rw [hs0] at hsorted
      split
      · exact ⟨_, rfl, mk _ _ (ElemsT_negSubs hsorted)⟩
      · exact ⟨_, rfl, mk _ _ hsorted⟩

/-! ### at a right-linear node the canonical form is never a decision node -/

/-- the shapes a prime in the range of a leaf can take, once `⊥` is excluded -/
def LitOf (w : Nat) (p : Ptr) : Prop := p = .tru ∨ p = .lit w true ∨ p = .lit w false

theorem litOf_sat {w : Nat} {p : Ptr} (h : LitOf w p) :
    p.eval (fun _ => true) = true ∨ p.eval (fun _ => false) = true := by
  rcases h with rfl | rfl | rfl <;> simp [eval_lit]

theorem length_le_cnt {w : Nat} {es : List Elem} (h : ∀ e ∈ es, LitOf w e.1) :
    es.length ≤ cnt (fun _ => true) es + cnt (fun _ => false) es := by
  induction es with
  | nil => simp
  | cons e l ih =>
    have := ih (fun e he => h e (List.mem_cons_of_mem _ he))
    rw [cnt_cons, cnt_cons, List.length_cons]
    rcases litOf_sat (h e (List.mem_cons_self ..)) with h1 | h1
    · simp only [h1, if_true]; omega
    · simp only [h1, if_true]; omega

theorem rl_shape {w : Nat} {es : List Elem} (h : ∀ e ∈ es, LitOf w e.1) (hpart : Partition es)
    (hb : canonBase? es = none) : asBdd? es ≠ none := by
  have hlen := length_le_cnt h
  rw [hpart, hpart] at hlen
  match es, h, hpart, hb, hlen with
  | [], _, hpart, _, _ => have := hpart (fun _ => true); simp at this
  | [(p, s)], h, hpart, hb, _ =>
    exfalso
    rcases h (p, s) (List.mem_cons_self ..) with rfl | rfl | rfl
    · simp [canonBase?, Ptr.isTrue] at hb
    · have := hpart (fun _ => false); simp [cnt_cons, eval_lit] at this
    · have := hpart (fun _ => true); simp [cnt_cons, eval_lit] at this
  | [(p0, s0), (p1, s1)], h, hpart, _, _ =>
    have h0 := h (p0, s0) (List.mem_cons_self ..)
    have h1 := h (p1, s1) (List.mem_cons_of_mem _ (List.mem_cons_self ..))
    have a1 := hpart (fun _ => true)
    have a0 := hpart (fun _ => false)
    simp only [cnt_cons, cnt_nil] at a1 a0
    rcases h0 with rfl | rfl | rfl <;> rcases h1 with rfl | rfl | rfl <;>
      simp [eval_lit, asBdd?] at a1 a0 ⊢
  | _ :: _ :: _ :: _, _, _, _, hlen => simp at hlen

/-! ## the recursive call, abstractly: total on the pointers of one index range -/

section loops
variable {σ : Type} {P P0 : σ → Prop} {vt : VTree} {andF : AndF σ}

/-- the recursive `and` call returns on operands of the index range `[lo, hi)`, keeps the state
invariant, and its result is again in that range -/
def AndR (P : σ → Prop) (vt : VTree) (andF : AndF σ) (lo hi : Nat) : Prop :=
  ∀ st a b, P st → TP vt a → TP vt b → InR vt lo hi a → InR vt lo hi b →
    ∃ st' r, andF st a b = some (st', r) ∧ P st' ∧ TP vt r ∧ InR vt lo hi r ∧
      ∀ asg, r.eval asg = (a.eval asg && b.eval asg)

theorem orF_R {lo hi : Nat} (h : AndR P vt andF lo hi) {st : σ} {a b : Ptr} (hP : P st)
    (ta : TP vt a) (tb : TP vt b) (ra : InR vt lo hi a) (rb : InR vt lo hi b) :
    ∃ st' r, orF andF st a b = some (st', r) ∧ P st' ∧ TP vt r ∧ InR vt lo hi r ∧
      ∀ asg, r.eval asg = (a.eval asg || b.eval asg) := by
  obtain ⟨st', r, h1, h2, h3, h4, h5⟩ := h st a.neg b.neg hP (TP_neg ta) (TP_neg tb) (InR_neg ra) (InR_neg rb)
  refine ⟨st', r.neg, by simp [orF, h1], h2, TP_neg h3, InR_neg h4, fun asg => ?_⟩
  rw [eval_neg, h5, eval_neg, eval_neg]; cases a.eval asg <;> cases b.eval asg <;> rfl

/-! ### compress -/

def PrimesT (vt : VTree) (lo hi : Nat) (es : List Elem) : Prop :=
  ∀ e ∈ es, TP vt e.1 ∧ InR vt lo hi e.1

def Sat (p : Ptr) : Prop := ∃ a, p.eval a = true

theorem compressInner_T {lo hi : Nat} (h : AndR P vt andF lo hi) (s : Ptr) :
    ∀ (n : Nat) (st : σ) (p : Ptr) (done rem : List Elem), P st → TP vt p → InR vt lo hi p →
      PrimesT vt lo hi rem →
    ∃ st' p' out, compressInner andF s n st p done rem = some (st', p', out) ∧ P st' ∧ TP vt p' ∧
      InR vt lo hi p' ∧ (∀ e ∈ out, e ∈ done ∨ e ∈ rem) ∧ (Sat p → Sat p') := by
  intro n
  induction n with
  | zero =>
    intro st p done rem hP tp rp _
    exact ⟨st, p, done ++ rem, by simp [compressInner], hP, tp, rp,
      fun e he => List.mem_append.1 he, fun h => h⟩
  | succ n ih =>
    intro st p done rem hP tp rp hrem
    cases rem with
    | nil =>
      exact ⟨st, p, done, by simp [compressInner], hP, tp, rp, fun e he => Or.inl he, fun h => h⟩
    | cons x rest =>
      obtain ⟨q, t⟩ := x
      have hx := hrem (q, t) (List.mem_cons_self ..)
      simp only [compressInner]
      split
      · obtain ⟨st1, p1, h1, hP1, tp1, rp1, e1⟩ := orF_R h hP tp hx.1 rp hx.2
        have hrem' : PrimesT vt lo hi (swapRemoveHead ((q, t) :: rest)) :=
          fun e he => hrem e (List.mem_cons_of_mem _ (swapRemoveHead_mem he))
        obtain ⟨st', p', out, h2, hP', tp', rp', hsub, hsat⟩ := ih st1 p1 done _ hP1 tp1 rp1 hrem'
        refine ⟨st', p', out, by simp only [h1]; exact h2, hP', tp', rp', ?_, ?_⟩
        · intro e he
          rcases hsub e he with h' | h'
          · exact Or.inl h'
          · exact Or.inr (List.mem_cons_of_mem _ (swapRemoveHead_mem h'))
        · rintro ⟨a, ha⟩
          exact hsat ⟨a, by rw [e1, ha]; rfl⟩
      · have hrest : PrimesT vt lo hi rest := fun e he => hrem e (List.mem_cons_of_mem _ he)
        obtain ⟨st', p', out, h2, hP', tp', rp', hsub, hsat⟩ :=
          ih st p (done ++ [(q, t)]) rest hP tp rp hrest
        refine ⟨st', p', out, h2, hP', tp', rp', ?_, hsat⟩
        intro e he
        rcases hsub e he with h' | h'
        · rcases List.mem_append.1 h' with h'' | h''
          · exact Or.inl h''
          · simp only [List.mem_singleton] at h''; subst h''; exact Or.inr (List.mem_cons_self ..)
        · exact Or.inr (List.mem_cons_of_mem _ h')

theorem compressOuter_T {a i b : Nat} (h : AndR P vt andF a i) :
    ∀ (n : Nat) (st : σ) (l : List Elem), P st → ElemsT vt a i b l →
    ∃ st' out, compressOuter andF n st l = some (st', out) ∧ P st' ∧ ElemsT vt a i b out ∧
      ((∀ e ∈ l, Sat e.1) → ∀ e ∈ out, Sat e.1) ∧ (l ≠ [] → out ≠ []) := by
  intro n
  induction n with
  | zero =>
    intro st l hP hl
    exact ⟨st, l, by simp [compressOuter], hP, hl, fun h => h, fun h => h⟩
  | succ n ih =>
    intro st l hP hl
    cases l with
    | nil => exact ⟨st, [], by simp [compressOuter], hP, hl, fun h => h, fun h => h⟩
    | cons x rest =>
      obtain ⟨p, s⟩ := x
      have hx := hl (p, s) (List.mem_cons_self ..)
      have hrest : ElemsT vt a i b rest := fun e he => hl e (List.mem_cons_of_mem _ he)
      obtain ⟨st1, p', rest', h1, hP1, tp', rp', hsub, hsat⟩ :=
        compressInner_T h s rest.length st p [] rest hP hx.1 hx.2.2.1
          (fun e he => ⟨(hrest e he).1, (hrest e he).2.2.1⟩)
      have hsub' : ∀ e ∈ rest', e ∈ rest := by
        intro e he
        rcases hsub e he with h' | h'
        · cases h'
        · exact h'
      have hrest' : ElemsT vt a i b rest' := fun e he => hrest e (hsub' e he)
      obtain ⟨st2, out, h2, hP2, hout, hsat2, _⟩ := ih st1 rest' hP1 hrest'
      refine ⟨st2, (p', s) :: out, by simp only [compressOuter, h1, h2], hP2, ?_, ?_, by simp⟩
      · intro e he
        rcases List.mem_cons.1 he with rfl | h'
        · exact ⟨tp', hx.2.1, rp', hx.2.2.2⟩
        · exact hout e h'
      · intro hs e he
        rcases List.mem_cons.1 he with rfl | h'
        · exact hsat (hs (p, s) (List.mem_cons_self ..))
        · exact hsat2 (fun e he => hs e (List.mem_cons_of_mem _ (hsub' e he))) e h'

/-! ### canonicalize -/

theorem canonicalize_T (hP0 : ∀ st, P st → P0 st) (hand : AndOK P0 vt andF) {L R : VTree} {o : Nat}
    (hs : vt.sub? 0 (o + L.size) = some (.node L R)) (hat : vt.At 0 (.node L R) o)
    (hL : AndR P vt andF o (o + L.size)) {cmpr : Bool} {st : σ} {l : List Elem} (hP : P st)
    (hl : ElemsT vt o (o + L.size) (o + L.size + 1 + R.size) l)
    (hok : ElemsOK vt (vt.leftLeaf? (o + L.size)) l) (hpart : Partition l)
    (hrl : vt.isRLAt (o + L.size) = true → ∀ e ∈ l, e.1 ≠ .fls) :
    ∃ st' r, canonicalize cmpr andF st l (o + L.size) = some (st', r) ∧ P st' ∧ TP vt r ∧
      InR vt o (o + L.size + 1 + R.size) r := by
  have hint : Internal vt (o + L.size) := ⟨L, R, hs⟩
  -- at a right-linear node the primes are `⊤` or literals of the left leaf
  have shape : ∀ l' : List Elem, ElemsT vt o (o + L.size) (o + L.size + 1 + R.size) l' →
      vt.isRLAt (o + L.size) = true → (∀ e ∈ l', e.1 ≠ .fls) → ∃ w, ∀ e ∈ l', LitOf w e.1 := by
    intro l' hl' hr hnf
    obtain ⟨w, rfl⟩ := (isRLAt_of_sub hs).1 hr
    refine ⟨w, fun e he => ?_⟩
    obtain ⟨t1, _, r1, _⟩ := hl' e he
    rcases leaf_range (VTree.At_left hat) t1.2 (by simpa [VTree.size] using r1) with h' | h' | ⟨pol, h'⟩
    · exact Or.inl h'
    · exact absurd h' (hnf e he)
    · cases pol
      · exact Or.inr (Or.inr h')
      · exact Or.inr (Or.inl h')
  -- the final `unique_or`
  have fin : ∀ (st1 : σ) (l' : List Elem), P st1 →
      ElemsT vt o (o + L.size) (o + L.size + 1 + R.size) l' →
      ElemsOK vt (vt.leftLeaf? (o + L.size)) l' → Partition l' → canonBase? l' = none →
      (vt.isRLAt (o + L.size) = true → ∀ e ∈ l', e.1 ≠ .fls) →
      ∃ st' r, (uniqueOr l' (o + L.size)).map (fun r => (st1, r)) = some (st', r) ∧ P st' ∧ TP vt r ∧
        InR vt o (o + L.size + 1 + R.size) r := by
    intro st1 l' hP1 hl' hok' hpart' hb hnf
    have hne : l' ≠ [] := by rintro rfl; simp [canonBase?] at hb
    obtain ⟨r, h1, h2, h3⟩ := uniqueOr_T hs hat hl' hne (fun hr => by
      obtain ⟨w, hw⟩ := shape l' hl' hr (hnf hr)
      exact rl_shape hw hpart' hb)
    exact ⟨st1, r, by simp [h1], hP1, ⟨(uniqueOr_ok hok' hpart' hint h1).1, h2⟩, h3⟩
  simp only [canonicalize]
  split
  · rename_i r hb
    obtain ⟨h1, h2⟩ := canonBase_T hl (by omega) (by omega) hb
    exact ⟨st, r, rfl, hP, h1, h2⟩
  · rename_i hb
    have hb' : canonBase? l = none := hb
    cases cmpr
    · simp only [Bool.false_eq_true, if_false]
      exact fin st l hP hl hok hpart hb' hrl
    · simp only [if_true]
      obtain ⟨st1, out, h1, hP1, hout, hsat, _⟩ := compressOuter_T (b := o + L.size + 1 + R.size) hL l.length st l hP hl
      have h1' : compress andF st l = some (st1, out) := h1
      obtain ⟨_, hok1, hpart1, _⟩ := compress_ok hand (hP0 st hP) hok hpart h1'
      rw [h1']
      simp only
      split
      · rename_i r hb1
        obtain ⟨h2, h3⟩ := canonBase_T hout (by omega) (by omega) hb1
        exact ⟨st1, r, rfl, hP1, h2, h3⟩
      · rename_i hb1
        have hb1' : canonBase? out = none := hb1
        refine fin st1 out hP1 hout hok1 hpart1 hb1' ?_
        intro hr e he hf
        obtain ⟨w, hw⟩ := shape l hl hr (hrl hr)
        have hs' : ∀ e ∈ l, Sat e.1 := by
          intro e he
          rcases litOf_sat (hw e he) with h' | h'
          · exact ⟨_, h'⟩
          · exact ⟨_, h'⟩
        obtain ⟨a, ha⟩ := hsat hs' e he
        rw [hf] at ha; simp at ha

/-! ### the product loops -/

/-- postcondition of the loops: the elements keep their sides; with `nf` no prime is the `⊥`
pointer -/
def LoopTot (vt : VTree) (a i b : Nat) (nf : Bool) : LoopRes → Prop
  | .elems l => ElemsT vt a i b l ∧ (nf = true → ∀ e ∈ l, e.1 ≠ .fls)
  | .early r => r = .tru

theorem LoopT_nil (vt : VTree) (a i b : Nat) (nf : Bool) : LoopTot vt a i b nf (.elems []) :=
  ⟨fun e he => (by cases he), fun _ e he => (by cases he)⟩

theorem LoopT_elems {vt : VTree} {a i b : Nat} {nf : Bool} {l : List Elem} :
    LoopTot vt a i b nf (.elems l) ↔ ElemsT vt a i b l ∧ (nf = true → ∀ e ∈ l, e.1 ≠ .fls) := Iff.rfl

theorem ne_fls_of_not_isFalse {p : Ptr} (h : ¬ p.isFalse = true) : p ≠ .fls := by
  rintro rfl; exact h rfl

theorem innerLoop_T {a i b : Nat} (hL : AndR P vt andF a i) (hR : AndR P vt andF (i + 1) b)
    (brk : Bool) {p1 s1 : Ptr} (tp1 : TP vt p1) (ts1 : TP vt s1) (rp1 : InR vt a i p1)
    (rs1 : InR vt (i + 1) b s1) :
    ∀ (eb : List Elem) (st : σ), P st → ElemsT vt a i b eb →
    ∃ st' res, innerLoop andF brk p1 s1 st eb = some (st', res) ∧ P st' ∧ LoopTot vt a i b true res := by
  intro eb
  induction eb with
  | nil =>
    intro st hP _
    exact ⟨st, .elems [], rfl, hP, LoopT_nil ..⟩
  | cons x rest ih =>
    intro st hP heb
    obtain ⟨p2, s2⟩ := x
    have hx := heb (p2, s2) (List.mem_cons_self ..)
    have hrest : ElemsT vt a i b rest := fun e he => heb e (List.mem_cons_of_mem _ he)
    obtain ⟨st1, p, h1, hP1, tp, rp, _⟩ := hL st p1 p2 hP tp1 hx.1 rp1 hx.2.2.1
    simp only [innerLoop, h1]
    split
    · exact ih st1 hP1 hrest
    · rename_i hpf
      obtain ⟨st2, s, h2, hP2, ts, rs, _⟩ := hR st1 s1 s2 hP1 ts1 hx.2.1 rs1 hx.2.2.2
      simp only [h2]
      have hone : ElemsT vt a i b [(p, s)] ∧ (true = true → ∀ e ∈ [(p, s)], e.1 ≠ .fls) := by
        refine ⟨?_, fun _ => ?_⟩
        · intro e he; simp only [List.mem_singleton] at he; subst he; exact ⟨tp, ts, rp, rs⟩
        · intro e he; simp only [List.mem_singleton] at he; subst he; exact ne_fls_of_not_isFalse hpf
      split
      · exact ⟨st2, .early .tru, rfl, hP2, rfl⟩
      · split
        · exact ⟨st2, .elems [(p, s)], rfl, hP2, LoopT_elems.2 hone⟩
        · obtain ⟨st3, res, h3, hP3, hres⟩ := ih st2 hP2 hrest
          simp only [h3]
          cases res with
          | early r => exact ⟨st3, .early r, rfl, hP3, hres⟩
          | elems l =>
            rw [LoopT_elems] at hres
            refine ⟨st3, .elems ((p, s) :: l), rfl, hP3, LoopT_elems.2 ⟨?_, fun _ => ?_⟩⟩
            · intro e he
              rcases List.mem_cons.1 he with rfl | h'
              · exact ⟨tp, ts, rp, rs⟩
              · exact hres.1 e h'
            · intro e he
              rcases List.mem_cons.1 he with rfl | h'
              · exact ne_fls_of_not_isFalse hpf
              · exact hres.2 rfl e h'

theorem prodLoop_T {a i b : Nat} (hL : AndR P vt andF a i) (hR : AndR P vt andF (i + 1) b)
    (cart : Bool) {eb : List Elem} (heb : ElemsT vt a i b eb) :
    ∀ (ea : List Elem) (st : σ), P st → ElemsT vt a i b ea →
    ∃ st' res, prodLoop andF cart eb st ea = some (st', res) ∧ P st' ∧
      LoopTot vt a i b (!cart) res := by
  intro ea
  induction ea with
  | nil =>
    intro st hP _
    exact ⟨st, .elems [], rfl, hP, LoopT_nil ..⟩
  | cons x rest ih =>
    intro st hP hea
    obtain ⟨p1, s1⟩ := x
    have hx := hea (p1, s1) (List.mem_cons_self ..)
    have hrest : ElemsT vt a i b rest := fun e he => hea e (List.mem_cons_of_mem _ he)
    simp only [prodLoop]
    split
    · rename_i q s2 hfind
      have hc : cart = true := by
        cases cart
        · simp at hfind
        · rfl
      subst hc
      have hf : eb.find? (fun e => decide (e.1 = p1)) = some (q, s2) := by simpa using hfind
      obtain ⟨_, hmem⟩ := find?_prime hf
      have hy := heb _ hmem
      obtain ⟨st1, s, h1, hP1, ts, rs, _⟩ := hR st s1 s2 hP hx.2.1 hy.2.1 hx.2.2.2 hy.2.2.2
      simp only [h1]
      obtain ⟨st2, res, h2, hP2, hres⟩ := ih st1 hP1 hrest
      simp only [h2]
      cases res with
      | early r => exact ⟨st2, .early r, rfl, hP2, hres⟩
      | elems l =>
        rw [LoopT_elems] at hres
        refine ⟨st2, .elems ((p1, s) :: l), rfl, hP2, LoopT_elems.2 ⟨?_, fun h => by simp at h⟩⟩
        intro e he
        rcases List.mem_cons.1 he with rfl | h'
        · exact ⟨hx.1, ts, hx.2.2.1, rs⟩
        · exact hres.1 e h'
    · obtain ⟨st1, res1, h1, hP1, hres1⟩ :=
        innerLoop_T hL hR cart hx.1 hx.2.1 hx.2.2.1 hx.2.2.2 eb st hP heb
      simp only [h1]
      cases res1 with
      | early r => exact ⟨st1, .early r, rfl, hP1, hres1⟩
      | elems l1 =>
        rw [LoopT_elems] at hres1
        obtain ⟨st2, res, h2, hP2, hres⟩ := ih st1 hP1 hrest
        simp only [h2]
        cases res with
        | early r => exact ⟨st2, .early r, rfl, hP2, hres⟩
        | elems l =>
          rw [LoopT_elems] at hres
          refine ⟨st2, .elems (l1 ++ l), rfl, hP2, LoopT_elems.2 ⟨?_, fun hn => ?_⟩⟩
          · intro e he
            rcases List.mem_append.1 he with h' | h'
            · exact hres1.1 e h'
            · exact hres.1 e h'
          · intro e he
            rcases List.mem_append.1 he with h' | h'
            · exact hres1.2 rfl e h'
            · exact hres.2 hn e h'

theorem subDescLoop_T {a i b : Nat} (hR : AndR P vt andF (i + 1) b) {d : Ptr} (td : TP vt d)
    (rd : InR vt (i + 1) b d) :
    ∀ (es : List Elem) (st : σ), P st → ElemsT vt a i b es →
    ∃ st' v, subDescLoop andF d st es = some (st', v) ∧ P st' ∧ ElemsT vt a i b v := by
  intro es
  induction es with
  | nil =>
    intro st hP _
    exact ⟨st, [], rfl, hP, fun e he => by cases he⟩
  | cons x rest ih =>
    intro st hP hes
    obtain ⟨p, s⟩ := x
    have hx := hes (p, s) (List.mem_cons_self ..)
    have hrest : ElemsT vt a i b rest := fun e he => hes e (List.mem_cons_of_mem _ he)
    obtain ⟨st1, ns, h1, hP1, tns, rns, _⟩ := hR st s d hP hx.2.1 td hx.2.2.2 rd
    obtain ⟨st2, v, h2, hP2, hv⟩ := ih st1 hP1 hrest
    refine ⟨st2, (p, ns) :: v, by simp only [subDescLoop, h1, h2], hP2, ?_⟩
    intro e he
    rcases List.mem_cons.1 he with rfl | h'
    · exact ⟨hx.1, tns, hx.2.2.1, rns⟩
    · exact hv e h'

/-! ### the four vtree cases of `and`, at the vtree node `o + L.size` (children `L`, `R`) -/

section cases
variable {L R : VTree} {o : Nat}

theorem nodeInfo_idx_bdd {r : Ptr} {es : List Elem} {c : Bool} {l i : Nat} {lo hi : Ptr}
    (hn : NodeInfo vt r es L R o) (h : r = .bdd c l i lo hi) : i = o + L.size := by
  have := hn.idx; subst h; simpa [vtreeIndex] using this

theorem nodeInfo_idx_dec {r : Ptr} {es : List Elem} {c : Bool} {i : Nat} {es0 : List Elem}
    (hn : NodeInfo vt r es L R o) (h : r = .dec c i es0) : i = o + L.size := by
  have := hn.idx; subst h; simpa [vtreeIndex] using this

theorem andSubDesc_T (hP0 : ∀ st, P st → P0 st) (hand : AndOK P0 vt andF)
    (hL : AndR P vt andF o (o + L.size))
    (hR : AndR P vt andF (o + L.size + 1) (o + L.size + 1 + R.size)) {cmpr : Bool} {st : σ}
    {r d : Ptr} {es : List Elem} (tr : TP vt r) (he : r.elems? = some es)
    (hn : NodeInfo vt r es L R o) (td : TP vt d)
    (rd : InR vt (o + L.size + 1) (o + L.size + 1 + R.size) d) (hP : P st) :
    ∃ st' res, andSubDesc cmpr andF st r d = some (st', res) ∧ P st' ∧ Pos vt res ∧
      InR vt o (o + L.size + 1 + R.size) res := by
  cases r with
  | tru => cases he
  | fls => cases he
  | lit v p => cases he
  | bdd c l i lo hi =>
    have hi' := nodeInfo_idx_bdd hn rfl
    subst hi'
    simp only [Ptr.elems?, Option.some.injEq] at he
    subst he
    have e1 := hn.elems _ (List.mem_cons_self ..)
    have e2 := hn.elems _ (List.mem_cons_of_mem _ (List.mem_cons_self ..))
    simp only at e1 e2
    obtain ⟨st1, lr, h1, hP1, tlr, rlr, _⟩ := hR st _ d hP e2.2.1 td e2.2.2.2 rd
    obtain ⟨st2, hr, h2, hP2, thr, rhr, _⟩ := hR st1 _ d hP1 e1.2.1 td e1.2.2.2 rd
    have hv : vt.hasVar l = true := by simpa [Pos] using e1.1.2
    obtain ⟨q1, q2⟩ := uniqueBdd_T hn.sub hn.at_ hv e1.2.2.1 tlr.2 thr.2 rlr rhr
    exact ⟨st2, _, by simp only [andSubDesc, h1, h2], hP2, q1, q2⟩
  | dec c i es0 =>
    have hi' := nodeInfo_idx_dec hn rfl
    subst hi'
    obtain ⟨hok, hpart, _, _⟩ := elems?_ok tr.1 he
    simp only [Ptr.elems?, Option.some.injEq] at he
    obtain ⟨st1, v, h1, hP1, hv⟩ := subDescLoop_T (a := o) hR td rd es st hP hn.elems
    simp only [vtreeIndex] at hok
    obtain ⟨_, hokv, hsem⟩ := subDescLoop_ok hand td.1 _ _ _ _ (hP0 st hP) hok h1
    have hpv : Partition v := fun a => by rw [(hsem a).1]; exact hpart a
    obtain ⟨st', res, h2, hP', tres, rres⟩ := canonicalize_T hP0 hand hn.sub hn.at_ hL (cmpr := cmpr) hP1 hv hokv hpv
      (fun hr => by rw [hn.dec_nrl ⟨_, _, _, rfl⟩] at hr; cases hr)
    refine ⟨st', res, ?_, hP', tres.2, rres⟩
    simp only [andSubDesc, he, h1]
    exact h2

theorem andPrimeDesc_T (hP0 : ∀ st, P st → P0 st) (hand : AndOK P0 vt andF)
    (hL : AndR P vt andF o (o + L.size))
    (hR : AndR P vt andF (o + L.size + 1) (o + L.size + 1 + R.size)) {cmpr : Bool} {st : σ}
    {r d : Ptr} {es : List Elem} (tr : TP vt r) (he : r.elems? = some es)
    (hn : NodeInfo vt r es L R o) (td : TP vt d) (rd : InR vt o (o + L.size) d)
    (dd : DepW (vt.leftLeaf? (vtreeIndex vt r)) d) (hP : P st) :
    ∃ st' res, andPrimeDesc cmpr andF st r d = some (st', res) ∧ P st' ∧ Pos vt res ∧
      InR vt o (o + L.size + 1 + R.size) res := by
  obtain ⟨hok, hpart, _, _⟩ := elems?_ok tr.1 he
  obtain ⟨hokd, hpd, _⟩ := pairD_ok (ow := vt.leftLeaf? (vtreeIndex vt r)) td.1 dd
  have hebT : ElemsT vt o (o + L.size) (o + L.size + 1 + R.size) [(d, .tru), (d.neg, .fls)] := by
    intro e he'
    simp only [List.mem_cons, List.not_mem_nil, or_false] at he'
    rcases he' with rfl | rfl
    · exact ⟨td, TP_tru vt, rd, InR_tru ..⟩
    · exact ⟨TP_neg td, TP_fls vt, InR_neg rd, InR_fls ..⟩
  obtain ⟨st1, res1, h1, hP1, hres1⟩ := prodLoop_T hL hR false hebT es st hP hn.elems
  simp only [andPrimeDesc, he, h1]
  cases res1 with
  | early x =>
    have hx : x = .tru := hres1
    exact ⟨st1, x, rfl, hP1, by rw [hx]; trivial, by rw [hx]; exact InR_tru ..⟩
  | elems l =>
    rw [LoopT_elems] at hres1
    obtain ⟨_, hpost⟩ := prodLoop_ok hand false hokd hpd _ _ _ _ (hP0 st hP) hok h1
    simp only [ProdPost] at hpost
    have hpl : Partition l := fun a => by rw [(hpost.2 a).1]; exact hpart a
    rw [hn.idx] at hpost
    obtain ⟨st', res, h2, hP', tres, rres⟩ := canonicalize_T hP0 hand hn.sub hn.at_ hL (cmpr := cmpr) hP1
      hres1.1 hpost.1 hpl (fun _ => hres1.2 rfl)
    cases r with
    | tru => cases he
    | fls => cases he
    | lit v p => cases he
    | bdd c l' i lo hi =>
      have hi' := nodeInfo_idx_bdd hn rfl
      subst hi'
      exact ⟨st', res, h2, hP', tres.2, rres⟩
    | dec c i es0 =>
      have hi' := nodeInfo_idx_dec hn rfl
      subst hi'
      exact ⟨st', res, h2, hP', tres.2, rres⟩

theorem andCartesian_T (hP0 : ∀ st, P st → P0 st) (hand : AndOK P0 vt andF)
    (hL : AndR P vt andF o (o + L.size))
    (hR : AndR P vt andF (o + L.size + 1) (o + L.size + 1 + R.size)) {cmpr : Bool} {st : σ}
    {a b : Ptr} {ea eb : List Elem} (ta : TP vt a) (tb : TP vt b) (hea : a.elems? = some ea)
    (heb : b.elems? = some eb) (hna : NodeInfo vt a ea L R o) (hnb : NodeInfo vt b eb L R o)
    (hP : P st) :
    ∃ st' res, andCartesian vt cmpr andF st a b (o + L.size) = some (st', res) ∧ P st' ∧
      Pos vt res ∧ InR vt o (o + L.size + 1 + R.size) res := by
  have general : vt.isRLAt (o + L.size) = false →
      ∃ st' res, (match a.elems?, b.elems? with
      | some ea, some eb =>
        match prodLoop andF true eb st ea with
        | none => none
        | some (st', .early x) => some (st', x)
        | some (st', .elems l) => canonicalize cmpr andF st' l (o + L.size)
      | _, _ => none) = some (st', res) ∧ P st' ∧ Pos vt res ∧
        InR vt o (o + L.size + 1 + R.size) res := by
    intro hnrl
    obtain ⟨hoka, hpa, _, _⟩ := elems?_ok ta.1 hea
    obtain ⟨hokb, hpb, _, _⟩ := elems?_ok tb.1 heb
    rw [hna.idx] at hoka; rw [hnb.idx] at hokb
    obtain ⟨st1, res1, h1, hP1, hres1⟩ := prodLoop_T hL hR true hnb.elems ea st hP hna.elems
    simp only [hea, heb, h1]
    cases res1 with
    | early x =>
      have hx : x = .tru := hres1
      exact ⟨st1, x, rfl, hP1, by rw [hx]; trivial, by rw [hx]; exact InR_tru ..⟩
    | elems l =>
      rw [LoopT_elems] at hres1
      obtain ⟨_, hpost⟩ := prodLoop_ok hand true hokb hpb _ _ _ _ (hP0 st hP) hoka h1
      simp only [ProdPost] at hpost
      have hpl : Partition l := fun asg => by rw [(hpost.2 asg).1]; exact hpa asg
      obtain ⟨st', res, h2, hP', tres, rres⟩ := canonicalize_T hP0 hand hna.sub hna.at_ hL
        (cmpr := cmpr) hP1 hres1.1 hpost.1 hpl (fun hr => by rw [hnrl] at hr; cases hr)
      exact ⟨st', res, h2, hP', tres.2, rres⟩
  cases hr : vt.isRLAt (o + L.size) with
  | false =>
    simp only [andCartesian, hr, Bool.false_eq_true, if_false]
    exact general hr
  | true =>
    cases a with
    | tru => cases hea
    | fls => cases hea
    | lit v p => cases hea
    | dec c i es0 => rw [hna.dec_nrl ⟨_, _, _, rfl⟩] at hr; cases hr
    | bdd c l i lo hi =>
      cases b with
      | tru => cases heb
      | fls => cases heb
      | lit v p => cases heb
      | dec c' i' es0 => rw [hnb.dec_nrl ⟨_, _, _, rfl⟩] at hr; cases hr
      | bdd c' l' i' lo' hi' =>
        simp only [Ptr.elems?, Option.some.injEq] at hea heb
        subst hea heb
        have a1 := hna.elems _ (List.mem_cons_self ..)
        have a2 := hna.elems _ (List.mem_cons_of_mem _ (List.mem_cons_self ..))
        have b1 := hnb.elems _ (List.mem_cons_self ..)
        have b2 := hnb.elems _ (List.mem_cons_of_mem _ (List.mem_cons_self ..))
        simp only at a1 a2 b1 b2
        obtain ⟨st1, lr, h1, hP1, tlr, rlr, _⟩ := hR st _ _ hP a2.2.1 b2.2.1 a2.2.2.2 b2.2.2.2
        obtain ⟨st2, hr', h2, hP2, thr, rhr, _⟩ := hR st1 _ _ hP1 a1.2.1 b1.2.1 a1.2.2.2 b1.2.2.2
        have hv : vt.hasVar l = true := by simpa [Pos] using a1.1.2
        obtain ⟨q1, q2⟩ := uniqueBdd_T hna.sub hna.at_ hv a1.2.2.1 tlr.2 thr.2 rlr rhr
        refine ⟨st2, _, ?_, hP2, q1, q2⟩
        simp only [andCartesian, hr, if_true, Ptr.low?, Ptr.high?, h1, h2]

theorem andIndep_T (hs : vt.sub? 0 (o + L.size) = some (.node L R)) (hat : vt.At 0 (.node L R) o)
    {a b : Ptr} (ta : TP vt a) (tb : TP vt b) (ra : InR vt o (o + L.size) a)
    (rb : InR vt (o + L.size + 1) (o + L.size + 1 + R.size) b) (hca : a.isConst = false) :
    ∃ res, andIndep vt a b (o + L.size) = some res ∧ Pos vt res ∧
      InR vt o (o + L.size + 1 + R.size) res := by
  cases hr : vt.isRLAt (o + L.size) with
  | true =>
    obtain ⟨w, rfl⟩ := (isRLAt_of_sub hs).1 hr
    rcases leaf_range (VTree.At_left hat) ta.2 (by simpa [VTree.size] using ra) with h' | h' | ⟨pol, h'⟩
    · subst h'; cases hca
    · subst h'; cases hca
    · subst h'
      have hv : vt.hasVar w = true := by simpa [Pos] using ta.2
      cases pol
      · obtain ⟨q1, q2⟩ := uniqueBdd_T hs hat hv (InR_lit ra) tb.2 (TP_fls vt).2 rb (InR_fls ..)
        exact ⟨_, by simp only [andIndep, hr, if_true], q1, q2⟩
      · obtain ⟨q1, q2⟩ := uniqueBdd_T hs hat hv (InR_lit ra) (TP_fls vt).2 tb.2 (InR_fls ..) rb
        exact ⟨_, by simp only [andIndep, hr, if_true], q1, q2⟩
  | false =>
    have hl : ElemsT vt o (o + L.size) (o + L.size + 1 + R.size) [(a, b), (a.neg, .fls)] := by
      intro e he
      simp only [List.mem_cons, List.not_mem_nil, or_false] at he
      rcases he with rfl | rfl
      · exact ⟨ta, tb, ra, rb⟩
      · exact ⟨TP_neg ta, TP_fls vt, InR_neg ra, InR_fls ..⟩
    obtain ⟨r, h1, h2, h3⟩ := uniqueOr_T hs hat hl (by simp) (fun h => by rw [hr] at h; cases h)
    exact ⟨r, by simp only [andIndep, hr, Bool.false_eq_true, if_false]; exact h1, h2, h3⟩

end cases

end loops

/-! ## `and` -/

/-- the result of `and a b` lies in every sub-vtree that contains both operands -/
def Closed (vt : VTree) (a b r : Ptr) : Prop :=
  ∀ s o, vt.At 0 s o → InR vt o (o + s.size) a → InR vt o (o + s.size) b → InR vt o (o + s.size) r

/-- apply-cache invariant for totality: C03's `AppInv`, and every cached result is positional
and lies where a recomputation would put it -/
def AppInvT (A : CacheImpl (Ptr × Ptr)) (vt : VTree) (st : A.σ) : Prop :=
  AppInv A vt st ∧ ∀ k r, A.get st k = some r → Pos vt r ∧ Closed vt k.1 k.2 r

theorem appInvT_empty (A : CacheImpl (Ptr × Ptr)) (vt : VTree) : AppInvT A vt A.empty :=
  ⟨appInv_empty A vt, fun k r h => by rw [A.empty_get] at h; cases h⟩

/-- `and` restricted to the operands of one index range: returns, keeps the invariants -/
def AndTot (A : CacheImpl (Ptr × Ptr)) (vt : VTree) (andF : AndF A.σ) (lo hi : Nat) : Prop :=
  ∀ st a b, AppInvT A vt st → TP vt a → TP vt b → InR vt lo hi a → InR vt lo hi b →
    ∃ st' r, andF st a b = some (st', r) ∧ AppInvT A vt st' ∧ TP vt r ∧ Closed vt a b r ∧
      ∀ asg, r.eval asg = (a.eval asg && b.eval asg)

theorem AndTot.toR {A : CacheImpl (Ptr × Ptr)} {vt : VTree} {andF : AndF A.σ} {s : VTree} {o : Nat}
    (hat : vt.At 0 s o) (h : AndTot A vt andF o (o + s.size)) :
    AndR (AppInvT A vt) vt andF o (o + s.size) := by
  intro st a b hP ta tb ra rb
  obtain ⟨st', r, h1, h2, h3, h4, h5⟩ := h st a b hP ta tb ra rb
  exact ⟨st', r, h1, h2, h3, h4 s o hat ra rb, h5⟩

/-- a pointer inside the span of the least common ancestor of the operands is `Closed` -/
theorem closed_of_lca {vt : VTree} {x y r : Ptr} {L R : VTree} {k : Nat}
    (hx : x.isConst = false) (hy : y.isConst = false) (hat : vt.At 0 (.node L R) k)
    (hk : vt.lca 0 (vtreeIndex vt x) (vtreeIndex vt y) = k + L.size)
    (hr : InR vt k (k + L.size + 1 + R.size) r) : Closed vt x y r := by
  intro s o hs rx ry
  have ix := InR_idx rx hx
  have iy := InR_idx ry hy
  have e := VTree.At_lca hs ix.1 ix.2 iy.1 iy.2
  have rg := VTree.lca_range s o (vtreeIndex vt x) (vtreeIndex vt y)
  rw [← e, hk] at rg
  have hin := VTree.At_laminar hs hat (by simpa [VTree.rootOff] using rg.1)
    (by simpa [VTree.rootOff] using rg.2)
  have := VTree.At_range hin
  simp only [VTree.size] at this
  exact InR_mono hr (by omega) (by omega)

theorem closed_left {vt : VTree} (a b : Ptr) : Closed vt a b a := fun _ _ _ h _ => h
theorem closed_right {vt : VTree} (a b : Ptr) : Closed vt a b b := fun _ _ _ _ h => h
theorem closed_fls {vt : VTree} (a b : Ptr) : Closed vt a b .fls := fun _ _ _ _ _ => InR_fls ..

theorem closed_swap {vt : VTree} {a b r : Ptr} (h : Closed vt a b r) : Closed vt b a r :=
  fun s o hs hb ha => h s o hs ha hb

theorem elems?_of_internal {vt : VTree} {x : Ptr} (tx : TP vt x) (hc : x.isConst = false)
    (hint : Internal vt (vtreeIndex vt x)) : ∃ es, x.elems? = some es := by
  cases x with
  | tru => cases hc
  | fls => cases hc
  | lit v p =>
    exfalso
    have hp := tx.2
    simp only [Pos, VTree.hasVar, Option.isSome_iff_exists] at hp
    obtain ⟨j, hj⟩ := hp
    obtain ⟨l, r, hs⟩ := hint
    simp only [vtreeIndex, hj, Option.getD_some] at hs
    rw [VTree.varIndex?_sub hj] at hs; cases hs
  | bdd c l i lo hi => exact ⟨_, rfl⟩
  | dec c i es => exact ⟨_, rfl⟩

theorem internal_of_node {vt : VTree} {x : Ptr} (tx : TP vt x) (hc : x.isConst = false) :
    (∃ v p, x = .lit v p) ∨ Internal vt (vtreeIndex vt x) := by
  cases x with
  | tru => cases hc
  | fls => cases hc
  | lit v p => exact Or.inl ⟨v, p, rfl⟩
  | bdd c l i lo hi => exact Or.inr tx.2.1
  | dec c i es => exact Or.inr tx.2.1

theorem lit_leaf {vt : VTree} {v : Nat} {p : Bool} (h : Pos vt (.lit v p)) :
    vt.sub? 0 (vtreeIndex vt (.lit v p)) = some (.leaf v) := by
  simp only [Pos, VTree.hasVar, Option.isSome_iff_exists] at h
  obtain ⟨j, hj⟩ := h
  simp only [vtreeIndex, hj, Option.getD_some]
  exact VTree.varIndex?_sub hj

/-- two distinct, non-complementary, non-constant pointers with the same vtree index are nodes -/
theorem same_idx_internal {vt : VTree} {x y : Ptr} (tx : TP vt x) (ty : TP vt y)
    (hx : x.isConst = false) (hy : y.isConst = false)
    (he : vtreeIndex vt x = vtreeIndex vt y) (hxy : x ≠ y) (hxny : x ≠ y.neg) :
    Internal vt (vtreeIndex vt x) := by
  rcases internal_of_node tx hx with ⟨v, p, rfl⟩ | h
  · rcases internal_of_node ty hy with ⟨v', p', rfl⟩ | h'
    · exfalso
      have h1 := lit_leaf tx.2
      have h2 := lit_leaf ty.2
      rw [he, h2] at h1
      cases h1
      cases p <;> cases p' <;> simp [Ptr.neg] at hxy hxny
    · exfalso
      have h1 := lit_leaf tx.2
      obtain ⟨l, r, hs⟩ := h'
      rw [← he, h1] at hs; cases hs
  · exact h

theorem nodeInfo_unique {vt : VTree} {x y : Ptr} {ea eb : List Elem} {L R L' R' : VTree} {o o' : Nat}
    (hx : NodeInfo vt x ea L R o) (hy : NodeInfo vt y eb L' R' o')
    (he : vtreeIndex vt x = vtreeIndex vt y) : L = L' ∧ R = R' ∧ o = o' := by
  have h1 := hx.sub
  have h2 := hy.sub
  rw [← hx.idx] at h1; rw [← hy.idx, ← he, h1] at h2
  cases h2
  have := hx.idx; have := hy.idx
  exact ⟨rfl, rfl, by omega⟩

theorem nodeInfo_at {vt : VTree} {x : Ptr} {ea : List Elem} {L R L' R' : VTree} {k k' : Nat}
    (hx : NodeInfo vt x ea L' R' k') (hi : vtreeIndex vt x = k + L.size)
    (hs : vt.sub? 0 (k + L.size) = some (.node L R)) : L = L' ∧ R = R' ∧ k = k' := by
  have h1 := hx.sub
  rw [← hx.idx, hi, hs] at h1
  cases h1
  have := hx.idx
  exact ⟨rfl, rfl, by omega⟩

section core
variable {A : CacheImpl (Ptr × Ptr)} {vt : VTree} {cmpr : Bool} {andF : AndF A.σ} {n : Nat}

/-- the recursive call is total on both children of every vtree node inside a sub-vtree of
height `≤ n` -/
theorem children_R
    (hrec : ∀ s' o', vt.At 0 s' o' → s'.height + 1 ≤ n →
      AndR (AppInvT A vt) vt andF o' (o' + s'.size))
    {s : VTree} {o : Nat} (hat : vt.At 0 s o) (hh : s.height ≤ n) {L R : VTree} {k : Nat}
    (hk : vt.At 0 (.node L R) k) (h1 : o ≤ k + L.size) (h2 : k + L.size < o + s.size) :
    AndR (AppInvT A vt) vt andF k (k + L.size) ∧
      AndR (AppInvT A vt) vt andF (k + L.size + 1) (k + L.size + 1 + R.size) := by
  have hin := VTree.At_laminar hat hk (by simpa [VTree.rootOff] using h1)
    (by simpa [VTree.rootOff] using h2)
  have hht := VTree.At_height hin
  simp only [VTree.height] at hht
  exact ⟨hrec L k (VTree.At_left hk) (by omega), hrec R _ (VTree.At_right hk) (by omega)⟩

theorem andCore_T (hand : AndOK (AppInv A vt) vt andF)
    (hrec : ∀ s' o', vt.At 0 s' o' → s'.height + 1 ≤ n →
      AndR (AppInvT A vt) vt andF o' (o' + s'.size))
    {s : VTree} {o : Nat} (hat : vt.At 0 s o) (hh : s.height ≤ n) {st : A.σ} {x y : Ptr}
    (hP : AppInvT A vt st) (tx : TP vt x) (ty : TP vt y)
    (hx1 : x.isTrue = false) (hx2 : x.isFalse = false)
    (hy1 : y.isTrue = false) (hy2 : y.isFalse = false) (hxy : x ≠ y) (hxny : x ≠ y.neg)
    (hle : vtreeIndex vt x = vtreeIndex vt y ∨ vtreeIndex vt x < vtreeIndex vt y)
    (rx : InR vt o (o + s.size) x) (ry : InR vt o (o + s.size) y) :
    ∃ st' r, andCore A vt cmpr andF st x y = some (st', r) ∧ AppInvT A vt st' ∧ TP vt r ∧
      Closed vt x y r ∧ ∀ asg, r.eval asg = (x.eval asg && y.eval asg) := by
  have hcx := isConst_of hx1 hx2
  have hcy := isConst_of hy1 hy2
  have ix := InR_idx rx hcx
  have iy := InR_idx ry hcy
  cases hget : A.get st (x, y) with
  | some v =>
    obtain ⟨wv, ev⟩ := hP.1 _ _ hget
    obtain ⟨pv, cv⟩ := hP.2 _ _ hget
    exact ⟨st, v, by simp only [andCore, hget], hP, ⟨wv, pv⟩, cv, ev⟩
  | none =>
    have inner : ∃ st1 r1,
        (if vtreeIndex vt x = vtreeIndex vt y then
          andCartesian vt cmpr andF st x y (vt.lca 0 (vtreeIndex vt x) (vtreeIndex vt y))
        else
          if vt.lca 0 (vtreeIndex vt x) (vtreeIndex vt y) = vtreeIndex vt x then
            andSubDesc cmpr andF st x y
          else
            if vt.lca 0 (vtreeIndex vt x) (vtreeIndex vt y) = vtreeIndex vt y then
              andPrimeDesc cmpr andF st y x
            else Option.map (fun r => (st, r))
              (andIndep vt x y (vt.lca 0 (vtreeIndex vt x) (vtreeIndex vt y)))) = some (st1, r1) ∧
          AppInvT A vt st1 ∧ Pos vt r1 ∧ Closed vt x y r1 := by
      by_cases heq : vtreeIndex vt x = vtreeIndex vt y
      · -- same vtree node
        have hint := same_idx_internal tx ty hcx hcy heq hxy hxny
        obtain ⟨ea, hea⟩ := elems?_of_internal tx hcx hint
        obtain ⟨eb, heb⟩ := elems?_of_internal ty hcy (heq ▸ hint)
        obtain ⟨L, R, k, hna⟩ := elems?_T tx hea
        obtain ⟨L', R', k', hnb⟩ := elems?_T ty heb
        obtain ⟨rfl, rfl, rfl⟩ := nodeInfo_unique hna hnb heq
        have hlca : vt.lca 0 (vtreeIndex vt x) (vtreeIndex vt y) = k + L.size := by
          rw [← heq, hna.idx]; exact VTree.lca_self hna.sub
        obtain ⟨hL, hR⟩ := children_R hrec hat hh hna.at_ (by rw [← hna.idx]; exact ix.1)
          (by rw [← hna.idx]; exact ix.2)
        obtain ⟨st1, r1, h1, hP1, p1, q1⟩ := andCartesian_T (fun _ h => h.1) hand hL hR (cmpr := cmpr)
          tx ty hea heb hna hnb hP
        refine ⟨st1, r1, ?_, hP1, p1, closed_of_lca hcx hcy hna.at_ hlca q1⟩
        rw [if_pos heq, hlca]; exact h1
      · have hlt : vtreeIndex vt x < vtreeIndex vt y := by
          rcases hle with h' | h'
          · exact absurd h' heq
          · exact h'
        obtain ⟨sx, hsx⟩ := vtreeIndex_sub tx.1 hx1 hx2
        obtain ⟨sy, hsy⟩ := vtreeIndex_sub ty.1 hy1 hy2
        obtain ⟨L, R, k, hk, hlca, b1, b2, b3, b4⟩ := VTree.lca_pos hsx hsy hlt
        have hsk : vt.sub? 0 (k + L.size) = some (.node L R) := by
          simpa [VTree.rootOff] using VTree.At_sub?_root hk
        obtain ⟨hL, hR⟩ := children_R hrec hat hh hk (by omega) (by omega)
        rw [if_neg heq]
        by_cases hka : vt.lca 0 (vtreeIndex vt x) (vtreeIndex vt y) = vtreeIndex vt x
        · -- `x` is the ancestor, `y` sits in its right child
          rw [if_pos hka]
          have hix : vtreeIndex vt x = k + L.size := by rw [← hka, hlca]
          obtain ⟨ea, hea⟩ := elems?_of_internal tx hcx ⟨L, R, by rw [hix]; exact hsk⟩
          obtain ⟨L', R', k', hna⟩ := elems?_T tx hea
          obtain ⟨rfl, rfl, rfl⟩ := nodeInfo_at hna hix hsk
          obtain ⟨st1, r1, h1, hP1, p1, q1⟩ := andSubDesc_T (fun _ h => h.1) hand hL hR (cmpr := cmpr)
            tx hea hna ty (Or.inr ⟨by omega, b4⟩) hP
          exact ⟨st1, r1, h1, hP1, p1, closed_of_lca hcx hcy hk hlca q1⟩
        · rw [if_neg hka]
          by_cases hkb : vt.lca 0 (vtreeIndex vt x) (vtreeIndex vt y) = vtreeIndex vt y
          · -- `y` is the ancestor, `x` sits in its left child
            rw [if_pos hkb]
            have hiy : vtreeIndex vt y = k + L.size := by rw [← hkb, hlca]
            obtain ⟨eb, heb⟩ := elems?_of_internal ty hcy ⟨L, R, by rw [hiy]; exact hsk⟩
            obtain ⟨L', R', k', hnb⟩ := elems?_T ty heb
            obtain ⟨rfl, rfl, rfl⟩ := nodeInfo_at hnb hiy hsk
            have dd := primeDesc_dep tx.1 hx1 hx2 hlt hkb
            obtain ⟨st1, r1, h1, hP1, p1, q1⟩ := andPrimeDesc_T (fun _ h => h.1) hand hL hR
              (cmpr := cmpr) ty heb hnb tx (Or.inr ⟨b1, by omega⟩) dd hP
            exact ⟨st1, r1, h1, hP1, p1, closed_of_lca hcx hcy hk hlca q1⟩
          · -- independent operands
            rw [if_neg hkb, hlca]
            obtain ⟨r1, h1, p1, q1⟩ := andIndep_T hsk hk tx ty (Or.inr ⟨b1, by omega⟩)
              (Or.inr ⟨by omega, b4⟩) hcx
            exact ⟨st, r1, by rw [h1]; rfl, hP, p1, closed_of_lca hcx hcy hk hlca q1⟩
    obtain ⟨st1, r1, h1, hP1, p1, c1⟩ := inner
    have hfull : andCore A vt cmpr andF st x y = some (A.insert st1 (x, y) r1, r1) := by
      simp only [andCore, hget, h1]
    obtain ⟨hA', wr, er⟩ := andCore_ok hand hP.1 tx.1 ty.1 hx1 hx2 hy1 hy2 hle hfull
    refine ⟨_, _, hfull, ⟨hA', ?_⟩, ⟨wr, p1⟩, c1, er⟩
    intro k' r' hk'
    rcases A.lawful _ _ _ _ _ hk' with ⟨rfl, rfl⟩ | h'
    · exact ⟨p1, c1⟩
    · exact hP1.2 k' r' h'

theorem andBody_T (hand : AndOK (AppInv A vt) vt andF)
    (hrec : ∀ s' o', vt.At 0 s' o' → s'.height + 1 ≤ n →
      AndR (AppInvT A vt) vt andF o' (o' + s'.size))
    {s : VTree} {o : Nat} (hat : vt.At 0 s o) (hh : s.height ≤ n) :
    AndTot A vt (andBody A vt cmpr andF) o (o + s.size) := by
  intro st a b hP ta tb ra rb
  simp only [andBody]
  split
  · rename_i h1
    exact ⟨st, b, rfl, hP, tb, closed_right a b, fun asg => by simp [isTrue_eval h1]⟩
  · rename_i ha1
    split
    · rename_i h1
      exact ⟨st, a, rfl, hP, ta, closed_left a b, fun asg => by simp [isTrue_eval h1]⟩
    · rename_i hb1
      split
      · rename_i h1
        exact ⟨st, .fls, rfl, hP, TP_fls vt, closed_fls a b, fun asg => by simp [isFalse_eval h1]⟩
      · rename_i ha2
        split
        · rename_i h1
          exact ⟨st, .fls, rfl, hP, TP_fls vt, closed_fls a b, fun asg => by simp [isFalse_eval h1]⟩
        · rename_i hb2
          split
          · rename_i h1
            subst h1
            exact ⟨st, a, rfl, hP, ta, closed_left a a, fun asg => by simp⟩
          · rename_i hab
            split
            · rename_i h1
              subst h1
              exact ⟨st, .fls, rfl, hP, TP_fls vt, closed_fls _ _, fun asg => by simp⟩
            · rename_i habn
              simp only [Bool.not_eq_true] at ha1 hb1 ha2 hb2
              split
              · rename_i hle
                exact andCore_T hand hrec hat hh hP ta tb ha1 ha2 hb1 hb2 hab habn hle ra rb
              · rename_i hle
                have hba : b ≠ a := fun e => hab e.symm
                have hban : b ≠ a.neg := fun e => habn (by rw [e, neg_neg])
                obtain ⟨st', r, h1, h2, h3, h4, h5⟩ :=
                  andCore_T (cmpr := cmpr) hand hrec hat hh hP tb ta hb1 hb2 ha1 ha2 hba hban
                    (by omega) rb ra
                exact ⟨st', r, h1, h2, h3, closed_swap h4, fun asg => by rw [h5, Bool.and_comm]⟩

end core

/-- **`and` is total**: with fuel `> height` of a sub-vtree that contains both operands, `and`
returns on all `WF ∧ Pos` operands, for every lawful cache, both compression settings -/
theorem and_T (A : CacheImpl (Ptr × Ptr)) (vt : VTree) (cmpr : Bool) :
    ∀ (fuel : Nat) (s : VTree) (o : Nat), vt.At 0 s o → s.height + 1 ≤ fuel →
      AndTot A vt (and A vt cmpr fuel) o (o + s.size)
  | 0, _, _, _, h => by omega
  | fuel + 1, s, o, hat, h => by
    have ih := and_T A vt cmpr fuel
    exact andBody_T (n := fuel) (and_ok A vt cmpr fuel)
      (fun s' o' h1 h2 => (ih s' o' h1 h2).toR h1) hat (by omega)

/-- every well formed pointer lies in the whole vtree -/
theorem InR_root {vt : VTree} {p : Ptr} (h : WF vt p) : InR vt 0 (0 + vt.size) p := by
  cases hc : p.isConst with
  | true => exact Or.inl hc
  | false =>
    have h1 : p.isTrue = false := by cases p <;> simp_all [Ptr.isTrue, Ptr.isConst]
    have h2 : p.isFalse = false := by cases p <;> simp_all [Ptr.isFalse, Ptr.isConst]
    obtain ⟨s, hs⟩ := vtreeIndex_sub h h1 h2
    have := VTree.sub?_range hs
    exact Or.inr ⟨by omega, by omega⟩

/-! ## `condition` -/

section cond
variable {σ : Type} {P P0 : σ → Prop} {vt : VTree} {andF : AndF σ}

/-- the recursive `condition` call returns on the pointers of one index range -/
def CondR (P : σ → Prop) (vt : VTree) (condF : σ → Ptr → Option (σ × Ptr)) (lo hi : Nat) : Prop :=
  ∀ st f, P st → TP vt f → InR vt lo hi f →
    ∃ st' r, condF st f = some (st', r) ∧ P st' ∧ TP vt r ∧ InR vt lo hi r

def CondLoopT (vt : VTree) (a i b : Nat) : LoopRes → Prop
  | .elems l => ElemsT vt a i b l ∧ ∀ e ∈ l, e.1 ≠ .fls
  | .early r => TP vt r ∧ InR vt (i + 1) b r

theorem CondLoopT_elems {vt : VTree} {a i b : Nat} {l : List Elem} :
    CondLoopT vt a i b (.elems l) ↔ ElemsT vt a i b l ∧ ∀ e ∈ l, e.1 ≠ .fls := Iff.rfl
theorem CondLoopT_early {vt : VTree} {a i b : Nat} {r : Ptr} :
    CondLoopT vt a i b (.early r) ↔ TP vt r ∧ InR vt (i + 1) b r := Iff.rfl

theorem condLoop_T {a i b : Nat} {condF : σ → Ptr → Option (σ × Ptr)}
    (hcL : CondR P vt condF a i) (hcR : CondR P vt condF (i + 1) b) :
    ∀ (es : List Elem) (st : σ), P st → ElemsT vt a i b es →
    ∃ st' res, condLoop condF st es = some (st', res) ∧ P st' ∧ CondLoopT vt a i b res := by
  intro es
  induction es with
  | nil =>
    intro st hP _
    exact ⟨st, .elems [], rfl, hP, CondLoopT_elems.2 ⟨fun e he => (by cases he), fun e he => (by cases he)⟩⟩
  | cons x rest ih =>
    intro st hP hes
    obtain ⟨p, s⟩ := x
    have hx := hes (p, s) (List.mem_cons_self ..)
    have hrest : ElemsT vt a i b rest := fun e he => hes e (List.mem_cons_of_mem _ he)
    obtain ⟨st1, newp, h1, hP1, tnp, rnp⟩ := hcL st p hP hx.1 hx.2.2.1
    simp only [condLoop, h1]
    split
    · exact ih st1 hP1 hrest
    · rename_i hpf
      obtain ⟨st2, news, h2, hP2, tns, rns⟩ := hcR st1 s hP1 hx.2.1 hx.2.2.2
      simp only [h2]
      split
      · exact ⟨st2, .early news, rfl, hP2, CondLoopT_early.2 ⟨tns, rns⟩⟩
      · obtain ⟨st3, res, h3, hP3, hres⟩ := ih st2 hP2 hrest
        simp only [h3]
        cases res with
        | early r => exact ⟨st3, .early r, rfl, hP3, hres⟩
        | elems l =>
          rw [CondLoopT_elems] at hres
          refine ⟨st3, .elems ((newp, news) :: l), rfl, hP3, CondLoopT_elems.2 ⟨?_, ?_⟩⟩
          · intro e he
            rcases List.mem_cons.1 he with rfl | h'
            · exact ⟨tnp, tns, rnp, rns⟩
            · exact hres.1 e h'
          · intro e he
            rcases List.mem_cons.1 he with rfl | h'
            · exact ne_fls_of_not_isFalse hpf
            · exact hres.2 e h'

/-- **`condition` is total**: recursion depth `≤ height + 1` of a sub-vtree containing the
operand, provided the `and` used by `canonicalize` is total on every sub-vtree -/
theorem condition_T (hP0 : ∀ st, P st → P0 st) (hand : AndOK P0 vt andF)
    (hA : ∀ s o, vt.At 0 s o → AndR P vt andF o (o + s.size)) (cmpr : Bool) (x : Nat) (v : Bool) :
    ∀ (n : Nat) (s : VTree) (o : Nat), vt.At 0 s o → s.height + 1 ≤ n →
      CondR P vt (condition cmpr andF x v n) o (o + s.size)
  | 0, _, _, _, h => by omega
  | n + 1, s, o, hat, hh => by
    have ih := condition_T hP0 hand hA cmpr x v n
    have ihok := condition_ok hand cmpr x v n
    intro st f hP tf rf
    have node : ∀ (es : List Elem) (i : Nat), f.elems? = some es → vtreeIndex vt f = i →
        ∃ st' r, (match condLoop (condition cmpr andF x v n) st es with
          | none => none
          | some (st', .early r) => some (st', r)
          | some (st', .elems es') => canonicalize cmpr andF st' es' i) = some (st', r) ∧
          P st' ∧ Pos vt r ∧ InR vt o (o + s.size) r := by
      intro es i hes hi
      subst hi
      obtain ⟨L, R, k, hn⟩ := elems?_T tf hes
      have hc : f.isConst = false := by cases f <;> simp_all [Ptr.elems?, Ptr.isConst]
      have ix := InR_idx rf hc
      rw [hn.idx] at ix
      have hin := VTree.At_laminar hat hn.at_ (by simpa [VTree.rootOff] using ix.1)
        (by simpa [VTree.rootOff] using ix.2)
      have hht := VTree.At_height hin
      have hrg := VTree.At_range hin
      simp only [VTree.height] at hht
      simp only [VTree.size] at hrg
      have cL := ih L k (VTree.At_left hn.at_) (by omega)
      have cR := ih R _ (VTree.At_right hn.at_) (by omega)
      obtain ⟨st1, res, h1, hP1, hres⟩ := condLoop_T cL cR es st hP hn.elems
      obtain ⟨hok, hpart, _, _⟩ := elems?_ok tf.1 hes
      simp only [h1]
      cases res with
      | early r =>
        rw [CondLoopT_early] at hres
        exact ⟨st1, r, rfl, hP1, hres.1.2, InR_mono hres.2 (by omega) (by omega)⟩
      | elems l =>
        rw [CondLoopT_elems] at hres
        obtain ⟨_, hpost⟩ := condLoop_ok ihok _ _ _ _ (hP0 st hP) hok h1
        simp only [CondPost] at hpost
        have hsem := fun a => hpost.2 a (by rw [hpart]; exact Nat.le_refl 1)
        have hpl : Partition l := fun a => by rw [(hsem a).1]; exact hpart _
        rw [hn.idx] at hpost
        obtain ⟨st', r, h2, hP', tr, rr⟩ := canonicalize_T hP0 hand hn.sub hn.at_
          (hA L k (VTree.At_left hn.at_)) (cmpr := cmpr) hP1 hres.1 hpost.1 hpl (fun _ => hres.2)
        rw [hn.idx]
        exact ⟨st', r, h2, hP', tr.2, InR_mono rr (by omega) (by omega)⟩
    have fin : ∀ st' r, condition cmpr andF x v (n + 1) st f = some (st', r) → P st' → Pos vt r →
        InR vt o (o + s.size) r →
        ∃ st' r, condition cmpr andF x v (n + 1) st f = some (st', r) ∧ P st' ∧ TP vt r ∧
          InR vt o (o + s.size) r := by
      intro st' r h hP' pr rr
      obtain ⟨_, wr, _⟩ := condition_ok hand cmpr x v (n + 1) _ _ _ _ (hP0 st hP) tf.1 h
      exact ⟨st', r, h, hP', ⟨wr, pr⟩, rr⟩
    cases f with
    | tru => exact ⟨st, .tru, rfl, hP, TP_tru vt, InR_tru ..⟩
    | fls => exact ⟨st, .fls, rfl, hP, TP_fls vt, InR_fls ..⟩
    | lit l p =>
      refine ⟨st, _, rfl, hP, ?_, ?_⟩
      · split
        · split
          · exact TP_tru vt
          · exact TP_fls vt
        · exact tf
      · split
        · split
          · exact InR_tru ..
          · exact InR_fls ..
        · exact rf
    | bdd c l i lo hi =>
      obtain ⟨st', r, h, hP', pr, rr⟩ := node _ i rfl rfl
      exact fin st' r (by simp only [condition]; exact h) hP' pr rr
    | dec c i es =>
      obtain ⟨st', r, h, hP', pr, rr⟩ := node _ i rfl rfl
      exact fin st' r (by simp only [condition]; exact h) hP' pr rr

end cond

/-! ## the builder operations -/

/-- ite-cache invariant for totality: C03's `IteInv`, and every cached result is positional -/
def IteInvT (I : CacheImpl (Ptr × Ptr × Ptr)) (vt : VTree) (s : I.σ) : Prop :=
  IteInv I vt s ∧ ∀ k r, I.get s k = some r → Pos vt r

theorem iteInvT_empty (I : CacheImpl (Ptr × Ptr × Ptr)) (vt : VTree) : IteInvT I vt I.empty :=
  ⟨iteInv_empty I vt, fun k r h => by rw [I.empty_get] at h; cases h⟩

/-- a constant answer of `Ite::new` is one of the operands, a negation, or a constant -/
theorem iteNew_const_Q {Q : Ptr → Prop} (hn : ∀ p, Q p → Q p.neg) (ht : Q .tru) (hf : Q .fls)
    {ord} {f g h r : Ptr} (qf : Q f) (qg : Q g) (qh : Q h) (hr : Ite.new ord f g h = .const r) :
    Q r := by
  have hi : Q (introConst f g h).1 ∧ Q (introConst f g h).2.1 ∧ Q (introConst f g h).2.2 := by
    simp only [introConst]
    split
    · exact ⟨qf, qg, hf⟩
    · split
      · exact ⟨qf, qg, ht⟩
      · split
        · exact ⟨qf, hf, qh⟩
        · exact ⟨qf, qg, qh⟩
  simp only [Ite.new] at hr
  generalize introConst f g h = t at hi hr
  obtain ⟨f1, g1, h1⟩ := t
  simp only at hi hr
  split at hr
  · rename_i r0 ht'
    cases hr
    simp only [terminal?] at ht'
    split at ht'
    · cases ht'; exact hi.2.1
    · split at ht'
      · cases ht'; exact hi.2.2
      · split at ht'
        · cases ht'; exact hi.1
        · split at ht'
          · cases ht'; exact hn _ hi.1
          · split at ht'
            · cases ht'; exact hi.2.1
            · cases ht'
  · generalize reorder ord f1 g1 h1 = t2 at hr
    obtain ⟨f2, g2, h2⟩ := t2
    simp only [standardise] at hr
    split at hr
    · cases hr
    · split at hr
      · cases hr
      · split at hr <;> cases hr

section derived
variable (A : CacheImpl (Ptr × Ptr)) (I : CacheImpl (Ptr × Ptr × Ptr)) (cfg : Config) (fuel : Nat)

/-- **`and` is total** on the whole vtree with `height + 1` units of fuel -/
theorem bAnd_T (hf : cfg.vt.height + 1 ≤ fuel) :
    AndTot A cfg.vt (bAnd A cfg fuel) 0 (0 + cfg.vt.size) :=
  and_T A cfg.vt cfg.compress fuel cfg.vt 0 (VTree.At_refl ..) hf

theorem bAnd_R (hf : cfg.vt.height + 1 ≤ fuel) (s : VTree) (o : Nat) (hat : cfg.vt.At 0 s o) :
    AndR (AppInvT A cfg.vt) cfg.vt (bAnd A cfg fuel) o (o + s.size) :=
  (and_T A cfg.vt cfg.compress fuel s o hat (by have := VTree.At_height hat; omega)).toR hat

variable {A I cfg fuel}

theorem bAnd_tot (hf : cfg.vt.height + 1 ≤ fuel) {st : A.σ} {a b : Ptr} (hP : AppInvT A cfg.vt st)
    (ta : TP cfg.vt a) (tb : TP cfg.vt b) :
    ∃ st' r, bAnd A cfg fuel st a b = some (st', r) ∧ AppInvT A cfg.vt st' ∧ TP cfg.vt r ∧
      ∀ asg, r.eval asg = (a.eval asg && b.eval asg) := by
  obtain ⟨st', r, h1, h2, h3, _, h5⟩ := bAnd_T A cfg fuel hf st a b hP ta tb (InR_root ta.1) (InR_root tb.1)
  exact ⟨st', r, h1, h2, h3, h5⟩

theorem bOr_tot (hf : cfg.vt.height + 1 ≤ fuel) {st : A.σ} {a b : Ptr} (hP : AppInvT A cfg.vt st)
    (ta : TP cfg.vt a) (tb : TP cfg.vt b) :
    ∃ st' r, bOr A cfg fuel st a b = some (st', r) ∧ AppInvT A cfg.vt st' ∧ TP cfg.vt r ∧
      ∀ asg, r.eval asg = (a.eval asg || b.eval asg) := by
  obtain ⟨st', r, h1, h2, h3, h5⟩ := bAnd_tot hf hP (TP_neg ta) (TP_neg tb)
  refine ⟨st', r.neg, by simp [bOr, orF, h1], h2, TP_neg h3, fun asg => ?_⟩
  rw [eval_neg, h5, eval_neg, eval_neg]; cases a.eval asg <;> cases b.eval asg <;> rfl

theorem bCond_tot (hf : cfg.vt.height + 1 ≤ fuel) {st : A.σ} {f : Ptr} {x : Nat} {v : Bool}
    (hP : AppInvT A cfg.vt st) (tf : TP cfg.vt f) :
    ∃ st' r, bCond A cfg fuel st f x v = some (st', r) ∧ AppInvT A cfg.vt st' ∧ TP cfg.vt r ∧
      ∀ asg, r.eval asg = f.eval (upd asg x v) := by
  obtain ⟨st', r, h1, h2, h3, _⟩ :=
    condition_T (P := AppInvT A cfg.vt) (P0 := AppInv A cfg.vt) (fun _ h => h.1)
      (bAnd_ok A cfg fuel) (bAnd_R A cfg fuel hf) cfg.compress x v fuel cfg.vt 0
      (VTree.At_refl ..) hf st f hP tf (InR_root tf.1)
  have h1' : bCond A cfg fuel st f x v = some (st', r) := h1
  exact ⟨st', r, h1', h2, h3, (bCond_ok A cfg fuel hP.1 tf.1 h1').2.2⟩

theorem iteCacheGet_pos {s : I.σ} {key : Ite} {v : Ptr}
    (hs : ∀ k r, I.get s k = some r → Pos cfg.vt r) (hk : ∀ p, key ≠ .const p)
    (h : iteCacheGet I s key = some v) : Pos cfg.vt v := by
  cases key with
  | choice f g h' => exact hs _ _ h
  | complChoice f g h' =>
    simp only [iteCacheGet, Option.map_eq_some_iff] at h
    obtain ⟨v0, h0, rfl⟩ := h
    exact Pos_neg (hs _ _ h0)
  | const p => exact absurd rfl (hk p)

theorem iteCacheInsert_pos {s : I.σ} {key : Ite} {r : Ptr}
    (hs : ∀ k r, I.get s k = some r → Pos cfg.vt r) (pr : Pos cfg.vt r) :
    ∀ k r', I.get (iteCacheInsert I s key r) k = some r' → Pos cfg.vt r' := by
  cases key with
  | choice f g h' =>
    intro k' r' h
    rcases I.lawful _ _ _ _ _ h with ⟨rfl, rfl⟩ | h'
    · exact pr
    · exact hs _ _ h'
  | complChoice f g h' =>
    intro k' r' h
    rcases I.lawful _ _ _ _ _ h with ⟨rfl, rfl⟩ | h'
    · exact Pos_neg pr
    · exact hs _ _ h'
  | const p => exact hs

theorem bIte_tot (hf : cfg.vt.height + 1 ≤ fuel) {s : A.σ × I.σ} {f g h : Ptr}
    (hA : AppInvT A cfg.vt s.1) (hI : IteInvT I cfg.vt s.2)
    (tf : TP cfg.vt f) (tg : TP cfg.vt g) (th : TP cfg.vt h) :
    ∃ s' r, bIte A I cfg fuel s f g h = some (s', r) ∧ AppInvT A cfg.vt s'.1 ∧
      IteInvT I cfg.vt s'.2 ∧ TP cfg.vt r ∧
      ∀ a, r.eval a = iteB (f.eval a) (g.eval a) (h.eval a) := by
  have main : ∀ key : Ite, (∀ p, key ≠ .const p) →
      ∃ s' r, (match iteCacheGet I s.2 key with
        | some v => some (s, v)
        | none =>
          match bAnd A cfg fuel s.1 f g with
          | none => none
          | some (a1, fg) =>
            match bAnd A cfg fuel a1 f.neg h with
            | none => none
            | some (a2, nfh) =>
              match bOr A cfg fuel a2 fg nfh with
              | none => none
              | some (a3, r) => some ((a3, iteCacheInsert I s.2 key r), r)) = some (s', r) ∧
        AppInvT A cfg.vt s'.1 ∧ (∀ k r, I.get s'.2 k = some r → Pos cfg.vt r) ∧ Pos cfg.vt r := by
    intro key hnc
    cases hget : iteCacheGet I s.2 key with
    | some v => exact ⟨s, v, rfl, hA, hI.2, iteCacheGet_pos hI.2 hnc hget⟩
    | none =>
      obtain ⟨a1, fg, h1, hA1, tfg, _⟩ := bAnd_tot hf hA tf tg
      obtain ⟨a2, nfh, h2, hA2, tnfh, _⟩ := bAnd_tot hf hA1 (TP_neg tf) th
      obtain ⟨a3, r, h3, hA3, tr, _⟩ := bOr_tot hf hA2 tfg tnfh
      exact ⟨(a3, iteCacheInsert I s.2 key r), r, by simp only [h1, h2, h3], hA3,
        iteCacheInsert_pos hI.2 tr.2, tr.2⟩
  have pos : ∃ s' r, bIte A I cfg fuel s f g h = some (s', r) ∧ AppInvT A cfg.vt s'.1 ∧
      (∀ k r, I.get s'.2 k = some r → Pos cfg.vt r) ∧ Pos cfg.vt r := by
    simp only [bIte]
    generalize hk : Ite.new (primeOrd cfg.vt) f g h = key
    cases key with
    | const p =>
      exact ⟨s, p, rfl, hA, hI.2,
        iteNew_const_Q (Q := Pos cfg.vt) (fun _ => Pos_neg) trivial trivial tf.2 tg.2 th.2 hk⟩
    | choice f' g' h' => exact main _ (fun p hp => by cases hp)
    | complChoice f' g' h' => exact main _ (fun p hp => by cases hp)
  obtain ⟨s', r, heq, h1, h2, h3⟩ := pos
  obtain ⟨a1, a2, a3, a4⟩ := bIte_ok A I cfg fuel hA.1 hI.1 tf.1 tg.1 th.1 heq
  exact ⟨s', r, heq, h1, ⟨a2, h2⟩, ⟨a3, h3⟩, a4⟩

theorem bIff_tot (hf : cfg.vt.height + 1 ≤ fuel) {s : A.σ × I.σ} {f g : Ptr}
    (hA : AppInvT A cfg.vt s.1) (hI : IteInvT I cfg.vt s.2) (tf : TP cfg.vt f) (tg : TP cfg.vt g) :
    ∃ s' r, bIff A I cfg fuel s f g = some (s', r) ∧ AppInvT A cfg.vt s'.1 ∧
      IteInvT I cfg.vt s'.2 ∧ TP cfg.vt r ∧ ∀ a, r.eval a = (f.eval a == g.eval a) := by
  obtain ⟨s', r, h1, h2, h3, h4, _⟩ := bIte_tot hf hA hI tf tg (TP_neg tg)
  have h1' : bIff A I cfg fuel s f g = some (s', r) := h1
  exact ⟨s', r, h1', h2, h3, h4, (bIff_ok A I cfg fuel hA.1 hI.1 tf.1 tg.1 h1').2.2.2⟩

theorem bXor_tot (hf : cfg.vt.height + 1 ≤ fuel) {s : A.σ × I.σ} {f g : Ptr}
    (hA : AppInvT A cfg.vt s.1) (hI : IteInvT I cfg.vt s.2) (tf : TP cfg.vt f) (tg : TP cfg.vt g) :
    ∃ s' r, bXor A I cfg fuel s f g = some (s', r) ∧ AppInvT A cfg.vt s'.1 ∧
      IteInvT I cfg.vt s'.2 ∧ TP cfg.vt r ∧ ∀ a, r.eval a = xor (f.eval a) (g.eval a) := by
  obtain ⟨s', r, h1, h2, h3, h4, _⟩ := bIte_tot hf hA hI tf (TP_neg tg) tg
  have h1' : bXor A I cfg fuel s f g = some (s', r) := h1
  exact ⟨s', r, h1', h2, h3, h4, (bXor_ok A I cfg fuel hA.1 hI.1 tf.1 tg.1 h1').2.2.2⟩

theorem bExists_tot (hf : cfg.vt.height + 1 ≤ fuel) {st : A.σ} {f : Ptr} {x : Nat}
    (hP : AppInvT A cfg.vt st) (tf : TP cfg.vt f) :
    ∃ st' r, bExists A cfg fuel st f x = some (st', r) ∧ AppInvT A cfg.vt st' ∧ TP cfg.vt r ∧
      ∀ a, r.eval a = (f.eval (upd a x true) || f.eval (upd a x false)) := by
  obtain ⟨s1, v1, h1, hP1, t1, _⟩ := bCond_tot (x := x) (v := true) hf hP tf
  obtain ⟨s2, v2, h2, hP2, t2, _⟩ := bCond_tot (x := x) (v := false) hf hP1 tf
  obtain ⟨s3, r, h3, hP3, t3, _⟩ := bOr_tot hf hP2 t1 t2
  have heq : bExists A cfg fuel st f x = some (s3, r) := by simp only [bExists, h1, h2, h3]
  exact ⟨s3, r, heq, hP3, t3, (bExists_ok A cfg fuel hP.1 tf.1 heq).2.2⟩

theorem bCompose_tot (hf : cfg.vt.height + 1 ≤ fuel) {s : A.σ × I.σ} {f g : Ptr} {x : Nat}
    (hA : AppInvT A cfg.vt s.1) (hI : IteInvT I cfg.vt s.2) (hx : cfg.vt.hasVar x = true)
    (tf : TP cfg.vt f) (tg : TP cfg.vt g) :
    ∃ s' r, bCompose A I cfg fuel s f x g = some (s', r) ∧ AppInvT A cfg.vt s'.1 ∧
      IteInvT I cfg.vt s'.2 ∧ TP cfg.vt r ∧
      ∀ a, r.eval a = fCompose (fun a => f.eval a) x (fun a => g.eval a) a := by
  have tx : TP cfg.vt (.lit x true) := ⟨by simpa [WF] using hx, by simpa [Pos] using hx⟩
  obtain ⟨s1, i, h1, hA1, hI1, ti, _⟩ := bIff_tot hf hA hI tx tg
  obtain ⟨a2, c, h2, hA2, tc, _⟩ := bAnd_tot hf hA1 ti tf
  obtain ⟨a3, r, h3, hA3, tr, _⟩ := bExists_tot (x := x) hf hA2 tc
  have heq : bCompose A I cfg fuel s f x g = some ((a3, s1.2), r) := by
    simp only [bCompose, h1, h2, h3]
  exact ⟨_, r, heq, hA3, hI1, tr, (bCompose_ok A I cfg fuel hA.1 hI.1 hx tf.1 tg.1 heq).2.2.2⟩

end derived

/-! ## programs -/

/-- an operation is valid for a pool of `n` diagrams: operand indices in range, fresh literals
and the substituted variable of `compose` are leaves of the vtree -/
def Op.valid (vt : VTree) (n : Nat) : Op → Bool
  | .const _ => true
  | .var x _ => vt.hasVar x
  | .neg i => decide (i < n)
  | .and i j => decide (i < n) && decide (j < n)
  | .or i j => decide (i < n) && decide (j < n)
  | .xor i j => decide (i < n) && decide (j < n)
  | .iff i j => decide (i < n) && decide (j < n)
  | .ite i j k => decide (i < n) && decide (j < n) && decide (k < n)
  | .cond i _ _ => decide (i < n)
  | .exist i _ => decide (i < n)
  | .compose i x j => vt.hasVar x && decide (i < n) && decide (j < n)

/-- every operation of the program is valid for the pool it meets (one diagram per operation) -/
def validFrom (vt : VTree) : Nat → List Op → Bool
  | _, [] => true
  | n, op :: ops => op.valid vt n && validFrom vt (n + 1) ops

section run
variable (A : CacheImpl (Ptr × Ptr)) (I : CacheImpl (Ptr × Ptr × Ptr)) (cfg : Config)

/-- builder invariant for totality -/
def InvT (st : St A I) : Prop :=
  AppInvT A cfg.vt st.app ∧ IteInvT I cfg.vt st.ite ∧ ∀ p ∈ st.pool, TP cfg.vt p

theorem invT_init : InvT A I cfg (St.init A I) :=
  ⟨appInvT_empty A cfg.vt, iteInvT_empty I cfg.vt, fun p hp => by simp [St.init] at hp⟩

variable {A I cfg}

theorem invT_push {st : St A I} {a : A.σ} {i : I.σ} {r : Ptr} (ha : AppInvT A cfg.vt a)
    (hi : IteInvT I cfg.vt i) (tr : TP cfg.vt r) (hpool : ∀ p ∈ st.pool, TP cfg.vt p) :
    InvT A I cfg (st.push a i r) ∧ (st.push a i r).pool.length = st.pool.length + 1 := by
  refine ⟨⟨ha, hi, ?_⟩, by simp [St.push]⟩
  intro p hp
  rcases List.mem_append.1 hp with h | h
  · exact hpool p h
  · simp only [List.mem_singleton] at h; subst h; exact tr

theorem pool_get {st : St A I} (hpool : ∀ p ∈ st.pool, TP cfg.vt p) {i : Nat}
    (hi : i < st.pool.length) : ∃ p, st.pool[i]? = some p ∧ TP cfg.vt p :=
  ⟨st.pool[i], List.getElem?_eq_getElem hi, hpool _ (List.getElem_mem hi)⟩

/-- one valid builder call returns -/
theorem step_T {fuel : Nat} (hf : cfg.vt.height + 1 ≤ fuel) (st : St A I) (op : Op)
    (hinv : InvT A I cfg st) (hv : op.valid cfg.vt st.pool.length = true) :
    ∃ st', step A I cfg fuel st op = some st' ∧ InvT A I cfg st' ∧
      st'.pool.length = st.pool.length + 1 := by
  obtain ⟨hA, hI, hpool⟩ := hinv
  cases op with
  | const b =>
    refine ⟨_, rfl, invT_push hA hI ?_ hpool⟩
    cases b
    · exact TP_fls _
    · exact TP_tru _
  | var x pol =>
    simp only [Op.valid] at hv
    refine ⟨_, by simp only [step, hv, if_true], invT_push (r := .lit x pol) hA hI ?_ hpool⟩
    exact ⟨by simpa [WF] using hv, by simpa [Pos] using hv⟩
  | neg i =>
    simp only [Op.valid, decide_eq_true_eq] at hv
    obtain ⟨p, hp, tp⟩ := pool_get hpool hv
    exact ⟨_, by simp only [step, hp, Option.map_some], invT_push hA hI (TP_neg tp) hpool⟩
  | and i j =>
    simp only [Op.valid, Bool.and_eq_true, decide_eq_true_eq] at hv
    obtain ⟨p, hp, tp⟩ := pool_get hpool hv.1
    obtain ⟨q, hq, tq⟩ := pool_get hpool hv.2
    obtain ⟨s', r, h1, h2, h3, _⟩ := bAnd_tot hf hA tp tq
    exact ⟨_, by simp only [step, hp, hq, h1, Option.map_some], invT_push h2 hI h3 hpool⟩
  | or i j =>
    simp only [Op.valid, Bool.and_eq_true, decide_eq_true_eq] at hv
    obtain ⟨p, hp, tp⟩ := pool_get hpool hv.1
    obtain ⟨q, hq, tq⟩ := pool_get hpool hv.2
    obtain ⟨s', r, h1, h2, h3, _⟩ := bOr_tot hf hA tp tq
    exact ⟨_, by simp only [step, hp, hq, h1, Option.map_some], invT_push h2 hI h3 hpool⟩
  | xor i j =>
    simp only [Op.valid, Bool.and_eq_true, decide_eq_true_eq] at hv
    obtain ⟨p, hp, tp⟩ := pool_get hpool hv.1
    obtain ⟨q, hq, tq⟩ := pool_get hpool hv.2
    obtain ⟨s', r, h1, h2, h3, h4, _⟩ := bXor_tot (s := (st.app, st.ite)) hf hA hI tp tq
    exact ⟨_, by simp only [step, hp, hq, h1, Option.map_some], invT_push h2 h3 h4 hpool⟩
  | iff i j =>
    simp only [Op.valid, Bool.and_eq_true, decide_eq_true_eq] at hv
    obtain ⟨p, hp, tp⟩ := pool_get hpool hv.1
    obtain ⟨q, hq, tq⟩ := pool_get hpool hv.2
    obtain ⟨s', r, h1, h2, h3, h4, _⟩ := bIff_tot (s := (st.app, st.ite)) hf hA hI tp tq
    exact ⟨_, by simp only [step, hp, hq, h1, Option.map_some], invT_push h2 h3 h4 hpool⟩
  | ite i j k =>
    simp only [Op.valid, Bool.and_eq_true, decide_eq_true_eq] at hv
    obtain ⟨p, hp, tp⟩ := pool_get hpool hv.1.1
    obtain ⟨q, hq, tq⟩ := pool_get hpool hv.1.2
    obtain ⟨r0, hr0, tr0⟩ := pool_get hpool hv.2
    obtain ⟨s', r, h1, h2, h3, h4, _⟩ := bIte_tot (s := (st.app, st.ite)) hf hA hI tp tq tr0
    exact ⟨_, by simp only [step, hp, hq, hr0, h1, Option.map_some], invT_push h2 h3 h4 hpool⟩
  | cond i x b =>
    simp only [Op.valid, decide_eq_true_eq] at hv
    obtain ⟨p, hp, tp⟩ := pool_get hpool hv
    obtain ⟨s', r, h1, h2, h3, _⟩ := bCond_tot (x := x) (v := b) hf hA tp
    exact ⟨_, by simp only [step, hp, h1, Option.map_some], invT_push h2 hI h3 hpool⟩
  | exist i x =>
    simp only [Op.valid, decide_eq_true_eq] at hv
    obtain ⟨p, hp, tp⟩ := pool_get hpool hv
    obtain ⟨s', r, h1, h2, h3, _⟩ := bExists_tot (x := x) hf hA tp
    exact ⟨_, by simp only [step, hp, h1, Option.map_some], invT_push h2 hI h3 hpool⟩
  | compose i x j =>
    simp only [Op.valid, Bool.and_eq_true, decide_eq_true_eq] at hv
    obtain ⟨p, hp, tp⟩ := pool_get hpool hv.1.2
    obtain ⟨q, hq, tq⟩ := pool_get hpool hv.2
    obtain ⟨s', r, h1, h2, h3, h4, _⟩ :=
      bCompose_tot (s := (st.app, st.ite)) (x := x) hf hA hI hv.1.1 tp tq
    exact ⟨_, by simp only [step, hv.1.1, if_true, hp, hq, h1, Option.map_some],
      invT_push h2 h3 h4 hpool⟩

/-- a valid program runs to completion from every state satisfying the invariant -/
theorem runFrom_T {fuel : Nat} (hf : cfg.vt.height + 1 ≤ fuel) :
    ∀ (ops : List Op) (st : St A I), InvT A I cfg st →
      validFrom cfg.vt st.pool.length ops = true →
      ∃ st', runFrom A I cfg fuel st ops = some st' ∧ InvT A I cfg st' ∧
        st'.pool.length = st.pool.length + ops.length
  | [], st, hinv, _ => ⟨st, rfl, hinv, rfl⟩
  | op :: ops, st, hinv, hv => by
    simp only [validFrom, Bool.and_eq_true] at hv
    obtain ⟨st1, h1, hinv1, hlen⟩ := step_T hf st op hinv hv.1
    obtain ⟨st', h2, hinv', hlen'⟩ := runFrom_T hf ops st1 hinv1 (by rw [hlen]; exact hv.2)
    refine ⟨st', by simp only [runFrom, h1, h2], hinv', ?_⟩
    rw [hlen', hlen, List.length_cons]; omega

end run

/-! ## validity is also necessary -/

section validnec
variable {A : CacheImpl (Ptr × Ptr)} {I : CacheImpl (Ptr × Ptr × Ptr)} {cfg : Config}

theorem lt_of_get {l : List Ptr} {i : Nat} {p : Ptr} (h : l[i]? = some p) : i < l.length := by
  obtain ⟨h', _⟩ := List.getElem?_eq_some_iff.1 h; exact h'

/-- an accepted call is valid -/
theorem step_valid (fuel : Nat) (st st' : St A I) (op : Op)
    (h : step A I cfg fuel st op = some st') : op.valid cfg.vt st.pool.length = true := by
  cases op with
  | const b => rfl
  | var x pol =>
    simp only [step] at h
    split at h
    · rename_i hx; exact hx
    · cases h
  | neg i =>
    simp only [step, Option.map_eq_some_iff] at h
    obtain ⟨p, hp, _⟩ := h
    simp [Op.valid, lt_of_get hp]
  | and i j =>
    simp only [step] at h
    split at h
    · rename_i p q hp hq; simp [Op.valid, lt_of_get hp, lt_of_get hq]
    · cases h
  | or i j =>
    simp only [step] at h
    split at h
    · rename_i p q hp hq; simp [Op.valid, lt_of_get hp, lt_of_get hq]
    · cases h
  | xor i j =>
    simp only [step] at h
    split at h
    · rename_i p q hp hq; simp [Op.valid, lt_of_get hp, lt_of_get hq]
    · cases h
  | iff i j =>
    simp only [step] at h
    split at h
    · rename_i p q hp hq; simp [Op.valid, lt_of_get hp, lt_of_get hq]
    · cases h
  | ite i j k =>
    simp only [step] at h
    split at h
    · rename_i p q r hp hq hr; simp [Op.valid, lt_of_get hp, lt_of_get hq, lt_of_get hr]
    · cases h
  | cond i x b =>
    simp only [step] at h
    split at h
    · rename_i p hp; simp [Op.valid, lt_of_get hp]
    · cases h
  | exist i x =>
    simp only [step] at h
    split at h
    · rename_i p hp; simp [Op.valid, lt_of_get hp]
    · cases h
  | compose i x j =>
    simp only [step] at h
    split at h
    · rename_i hx
      split at h
      · rename_i p q hp hq; simp [Op.valid, hx, lt_of_get hp, lt_of_get hq]
      · cases h
    · cases h
end validnec

/-! ## fuel monotonicity: more fuel never changes a returned result

Every helper is monotone in the recursive call it is parametrised by (`AndF.Le`), hence
`and fuel ≤ and (fuel + 1)` and so on up to `runFrom`. -/
section mono
variable {σ : Type}

/-- `g` extends `f`: wherever `f` returns, `g` returns the same -/
def AndF.Le (f g : AndF σ) : Prop := ∀ st a b r, f st a b = some r → g st a b = some r

variable {f g : AndF σ}

theorem orF_mono (hle : AndF.Le f g) {st : σ} {a b : Ptr} {r} (h : orF f st a b = some r) :
    orF g st a b = some r := by
  simp only [orF] at h ⊢
  cases h1 : f st a.neg b.neg with
  | none => simp [h1] at h
  | some x => simp only [h1] at h; simp only [hle _ _ _ _ h1]; exact h

theorem compressInner_mono (hle : AndF.Le f g) (s : Ptr) :
    ∀ (n : Nat) (st : σ) (p : Ptr) (done rem : List Elem) r,
      compressInner f s n st p done rem = some r → compressInner g s n st p done rem = some r := by
  intro n
  induction n with
  | zero => intro st p done rem r h; simpa [compressInner] using h
  | succ n ih =>
    intro st p done rem r h
    cases rem with
    | nil => simpa [compressInner] using h
    | cons x rest =>
      obtain ⟨q, t⟩ := x
      simp only [compressInner] at h ⊢
      by_cases hst : s = t
      · simp only [if_pos hst] at h ⊢
        cases h1 : orF f st p q with
        | none => simp [h1] at h
        | some y =>
          obtain ⟨st', p'⟩ := y
          simp only [h1] at h; simp only [orF_mono hle h1]
          exact ih _ _ _ _ _ h
      · simp only [if_neg hst] at h ⊢
        exact ih _ _ _ _ _ h

theorem compressOuter_mono (hle : AndF.Le f g) :
    ∀ (n : Nat) (st : σ) (l : List Elem) r,
      compressOuter f n st l = some r → compressOuter g n st l = some r := by
  intro n
  induction n with
  | zero => intro st l r h; simpa [compressOuter] using h
  | succ n ih =>
    intro st l r h
    cases l with
    | nil => simpa [compressOuter] using h
    | cons x rest =>
      obtain ⟨p, s⟩ := x
      simp only [compressOuter] at h ⊢
      cases h1 : compressInner f s rest.length st p [] rest with
      | none => simp [h1] at h
      | some y =>
        obtain ⟨st1, p', rest'⟩ := y
        simp only [h1] at h; simp only [compressInner_mono hle s _ _ _ _ _ _ h1]
        cases h2 : compressOuter f n st1 rest' with
        | none => simp [h2] at h
        | some z =>
          obtain ⟨st2, out⟩ := z
          simp only [h2] at h; simp only [ih _ _ _ h2]; exact h

theorem canonicalize_mono (hle : AndF.Le f g) {cmpr : Bool} {st : σ} {l : List Elem} {i : Nat} {r}
    (h : canonicalize cmpr f st l i = some r) : canonicalize cmpr g st l i = some r := by
  simp only [canonicalize] at h ⊢
  cases hb : canonBase? l with
  | some x => simpa [hb] using h
  | none =>
    simp only [hb] at h ⊢
    cases cmpr with
    | false => simpa using h
    | true =>
      simp only [if_true] at h ⊢
      cases h1 : compress f st l with
      | none => simp [h1] at h
      | some y =>
        obtain ⟨st', l'⟩ := y
        simp only [h1] at h
        have : compress g st l = some (st', l') := compressOuter_mono hle _ _ _ _ h1
        simp only [this]; exact h

theorem subDescLoop_mono (hle : AndF.Le f g) (d : Ptr) :
    ∀ (es : List Elem) (st : σ) r, subDescLoop f d st es = some r → subDescLoop g d st es = some r := by
  intro es
  induction es with
  | nil => intro st r h; simpa [subDescLoop] using h
  | cons x rest ih =>
    intro st r h
    obtain ⟨p, s⟩ := x
    simp only [subDescLoop] at h ⊢
    cases h1 : f st s d with
    | none => simp [h1] at h
    | some y =>
      obtain ⟨st1, ns⟩ := y
      simp only [h1] at h; simp only [hle _ _ _ _ h1]
      cases h2 : subDescLoop f d st1 rest with
      | none => simp [h2] at h
      | some z =>
        obtain ⟨st2, v⟩ := z
        simp only [h2] at h; simp only [ih _ _ h2]; exact h

theorem andSubDesc_mono (hle : AndF.Le f g) {cmpr : Bool} {st : σ} {r d : Ptr} {res}
    (h : andSubDesc cmpr f st r d = some res) : andSubDesc cmpr g st r d = some res := by
  cases r with
  | tru => simp [andSubDesc] at h
  | fls => simp [andSubDesc] at h
  | lit v p => simp [andSubDesc] at h
  | bdd c l i lo hi =>
    simp only [andSubDesc] at h ⊢
    cases h1 : f st (if c then lo.neg else lo) d with
    | none => simp [h1] at h
    | some y =>
      obtain ⟨st1, lr⟩ := y
      simp only [h1] at h; simp only [hle _ _ _ _ h1]
      cases h2 : f st1 (if c then hi.neg else hi) d with
      | none => simp [h2] at h
      | some z =>
        obtain ⟨st2, hr⟩ := z
        simp only [h2] at h; simp only [hle _ _ _ _ h2]; exact h
  | dec c i es =>
    simp only [andSubDesc] at h ⊢
    cases h1 : subDescLoop f d st (if c then negSubs es else es) with
    | none => simp [h1] at h
    | some y =>
      obtain ⟨st', v⟩ := y
      simp only [h1] at h; simp only [subDescLoop_mono hle d _ _ _ h1]
      exact canonicalize_mono hle h

theorem innerLoop_mono (hle : AndF.Le f g) (brk : Bool) (p1 s1 : Ptr) :
    ∀ (eb : List Elem) (st : σ) r,
      innerLoop f brk p1 s1 st eb = some r → innerLoop g brk p1 s1 st eb = some r := by
  intro eb
  induction eb with
  | nil => intro st r h; simpa [innerLoop] using h
  | cons x rest ih =>
    intro st r h
    obtain ⟨p2, s2⟩ := x
    simp only [innerLoop] at h ⊢
    cases h1 : f st p1 p2 with
    | none => simp [h1] at h
    | some y =>
      obtain ⟨st1, p⟩ := y
      simp only [h1] at h; simp only [hle _ _ _ _ h1]
      by_cases hpf : p.isFalse = true
      · simp only [if_pos hpf] at h ⊢; exact ih _ _ h
      · simp only [if_neg hpf] at h ⊢
        cases h2 : f st1 s1 s2 with
        | none => simp [h2] at h
        | some z =>
          obtain ⟨st2, s⟩ := z
          simp only [h2] at h; simp only [hle _ _ _ _ h2]
          by_cases c1 : (p.isTrue && s.isTrue) = true
          · simp only [if_pos c1] at h ⊢; exact h
          · simp only [if_neg c1] at h ⊢
            by_cases c2 : (brk && decide (p1 = p)) = true
            · simp only [if_pos c2] at h ⊢; exact h
            · simp only [if_neg c2] at h ⊢
              cases h3 : innerLoop f brk p1 s1 st2 rest with
              | none => simp [h3] at h
              | some w => simp only [h3] at h; simp only [ih _ _ h3]; exact h

theorem prodLoop_mono (hle : AndF.Le f g) (cart : Bool) (eb : List Elem) :
    ∀ (ea : List Elem) (st : σ) r,
      prodLoop f cart eb st ea = some r → prodLoop g cart eb st ea = some r := by
  intro ea
  induction ea with
  | nil => intro st r h; simpa [prodLoop] using h
  | cons x rest ih =>
    intro st r h
    obtain ⟨p1, s1⟩ := x
    simp only [prodLoop] at h ⊢
    cases hfind : (if cart = true then List.find? (fun e => decide (e.1 = p1)) eb else none) with
    | some e =>
      obtain ⟨q, s2⟩ := e
      simp only [hfind] at h ⊢
      cases h1 : f st s1 s2 with
      | none => simp [h1] at h
      | some y =>
        obtain ⟨st1, s⟩ := y
        simp only [h1] at h; simp only [hle _ _ _ _ h1]
        cases h2 : prodLoop f cart eb st1 rest with
        | none => simp [h2] at h
        | some w => simp only [h2] at h; simp only [ih _ _ h2]; exact h
    | none =>
      simp only [hfind] at h ⊢
      cases h1 : innerLoop f cart p1 s1 st eb with
      | none => simp [h1] at h
      | some y =>
        obtain ⟨st1, res⟩ := y
        simp only [h1] at h; simp only [innerLoop_mono hle cart p1 s1 _ _ _ h1]
        cases res with
        | early r0 => exact h
        | elems l1 =>
          simp only at h ⊢
          cases h2 : prodLoop f cart eb st1 rest with
          | none => simp [h2] at h
          | some w => simp only [h2] at h; simp only [ih _ _ h2]; exact h

theorem andPrimeDesc_mono (hle : AndF.Le f g) {cmpr : Bool} {st : σ} {r d : Ptr} {res}
    (h : andPrimeDesc cmpr f st r d = some res) : andPrimeDesc cmpr g st r d = some res := by
  simp only [andPrimeDesc] at h ⊢
  cases he : r.elems? with
  | none => simp [he] at h
  | some er =>
    simp only [he] at h ⊢
    cases h1 : prodLoop f false [(d, .tru), (d.neg, .fls)] st er with
    | none => simp [h1] at h
    | some y =>
      obtain ⟨st', res1⟩ := y
      simp only [h1] at h; simp only [prodLoop_mono hle false _ _ _ _ h1]
      cases res1 with
      | early x => exact h
      | elems l =>
        simp only at h ⊢
        cases r with
        | bdd c l' i lo hi => exact canonicalize_mono hle h
        | dec c i es => exact canonicalize_mono hle h
        | tru => cases he
        | fls => cases he
        | lit v p => cases he

theorem andCartesian_mono (hle : AndF.Le f g) {vt : VTree} {cmpr : Bool} {st : σ} {a b : Ptr}
    {lca : Nat} {res} (h : andCartesian vt cmpr f st a b lca = some res) :
    andCartesian vt cmpr g st a b lca = some res := by
  have general : (match a.elems?, b.elems? with
      | some ea, some eb =>
        match prodLoop f true eb st ea with
        | none => none
        | some (st', .early x) => some (st', x)
        | some (st', .elems l) => canonicalize cmpr f st' l lca
      | _, _ => none) = some res →
      (match a.elems?, b.elems? with
      | some ea, some eb =>
        match prodLoop g true eb st ea with
        | none => none
        | some (st', .early x) => some (st', x)
        | some (st', .elems l) => canonicalize cmpr g st' l lca
      | _, _ => none) = some res := by
    intro h
    cases hea : a.elems? with
    | none => simp [hea] at h
    | some ea =>
      cases heb : b.elems? with
      | none => simp [hea, heb] at h
      | some eb =>
        simp only [hea, heb] at h ⊢
        cases h1 : prodLoop f true eb st ea with
        | none => simp [h1] at h
        | some y =>
          obtain ⟨st', res1⟩ := y
          simp only [h1] at h; simp only [prodLoop_mono hle true _ _ _ _ h1]
          cases res1 with
          | early x => exact h
          | elems l => exact canonicalize_mono hle h
  simp only [andCartesian] at h ⊢
  split at h
  · rename_i c l i lo hi hm
    cases hbl : b.low? with
    | none => simp [hbl] at h
    | some bl =>
      cases hbh : b.high? with
      | none => simp [hbl, hbh] at h
      | some bh =>
        simp only [hbl, hbh] at h ⊢
        cases h1 : f st (if c then lo.neg else lo) bl with
        | none => simp [h1] at h
        | some y =>
          obtain ⟨st1, lr⟩ := y
          simp only [h1] at h; simp only [hle _ _ _ _ h1]
          cases h2 : f st1 (if c then hi.neg else hi) bh with
          | none => simp [h2] at h
          | some z =>
            obtain ⟨st2, hr⟩ := z
            simp only [h2] at h; simp only [hle _ _ _ _ h2]; exact h
  · exact general h

end mono

section mono2
variable {A : CacheImpl (Ptr × Ptr)} {vt : VTree} {cmpr : Bool} {f g : AndF A.σ}

theorem andCore_mono (hle : AndF.Le f g) {st : A.σ} {a b : Ptr} {r}
    (h : andCore A vt cmpr f st a b = some r) : andCore A vt cmpr g st a b = some r := by
  simp only [andCore] at h ⊢
  cases hget : A.get st (a, b) with
  | some x => simpa [hget] using h
  | none =>
    simp only [hget] at h ⊢
    have key : ∀ {X Y : Option (A.σ × Ptr)}, (∀ z, X = some z → Y = some z) →
        (match X with
          | none => none
          | some (st', r) => some (A.insert st' (a, b) r, r)) = some r →
        (match Y with
          | none => none
          | some (st', r) => some (A.insert st' (a, b) r, r)) = some r := by
      intro X Y hxy hX
      cases X with
      | none => simp at hX
      | some z => rw [hxy z rfl]; exact hX
    refine key ?_ h
    intro z hz
    by_cases c1 : vtreeIndex vt a = vtreeIndex vt b
    · rw [if_pos c1] at hz ⊢; exact andCartesian_mono hle hz
    · rw [if_neg c1] at hz ⊢
      by_cases c2 : vt.lca 0 (vtreeIndex vt a) (vtreeIndex vt b) = vtreeIndex vt a
      · rw [if_pos c2] at hz ⊢; exact andSubDesc_mono hle hz
      · rw [if_neg c2] at hz ⊢
        by_cases c3 : vt.lca 0 (vtreeIndex vt a) (vtreeIndex vt b) = vtreeIndex vt b
        · rw [if_pos c3] at hz ⊢; exact andPrimeDesc_mono hle hz
        · rw [if_neg c3] at hz ⊢; exact hz

theorem andBody_mono (hle : AndF.Le f g) :
    AndF.Le (andBody A vt cmpr f) (andBody A vt cmpr g) := by
  intro st a b r h
  simp only [andBody] at h ⊢
  by_cases c1 : a.isTrue = true
  · rw [if_pos c1] at h ⊢; exact h
  rw [if_neg c1] at h ⊢
  by_cases c2 : b.isTrue = true
  · rw [if_pos c2] at h ⊢; exact h
  rw [if_neg c2] at h ⊢
  by_cases c3 : a.isFalse = true
  · rw [if_pos c3] at h ⊢; exact h
  rw [if_neg c3] at h ⊢
  by_cases c4 : b.isFalse = true
  · rw [if_pos c4] at h ⊢; exact h
  rw [if_neg c4] at h ⊢
  by_cases c5 : a = b
  · rw [if_pos c5] at h ⊢; exact h
  rw [if_neg c5] at h ⊢
  by_cases c6 : a = b.neg
  · rw [if_pos c6] at h ⊢; exact h
  rw [if_neg c6] at h ⊢
  by_cases c7 : vtreeIndex vt a = vtreeIndex vt b ∨ vtreeIndex vt a < vtreeIndex vt b
  · rw [if_pos c7] at h ⊢; exact andCore_mono hle h
  · rw [if_neg c7] at h ⊢; exact andCore_mono hle h

/-- **fuel monotonicity of `and`**: more fuel never changes a returned result -/
theorem and_mono (A : CacheImpl (Ptr × Ptr)) (vt : VTree) (cmpr : Bool) :
    ∀ fuel, AndF.Le (and A vt cmpr fuel) (and A vt cmpr (fuel + 1))
  | 0 => by intro st a b r h; simp [and] at h
  | fuel + 1 => andBody_mono (and_mono A vt cmpr fuel)

theorem and_mono_le (A : CacheImpl (Ptr × Ptr)) (vt : VTree) (cmpr : Bool) {m n : Nat} (h : m ≤ n) :
    AndF.Le (and A vt cmpr m) (and A vt cmpr n) := by
  induction n with
  | zero => have : m = 0 := by omega
            subst this; exact fun _ _ _ _ h => h
  | succ n ih =>
    by_cases hm : m = n + 1
    · subst hm; exact fun _ _ _ _ h => h
    · exact fun st a b r h' => and_mono A vt cmpr n st a b r (ih (by omega) st a b r h')

end mono2

section mono3
variable {σ : Type}

def CondLe (c d : σ → Ptr → Option (σ × Ptr)) : Prop := ∀ st p r, c st p = some r → d st p = some r

theorem condLoop_mono {c d : σ → Ptr → Option (σ × Ptr)} (hle : CondLe c d) :
    ∀ (es : List Elem) (st : σ) r, condLoop c st es = some r → condLoop d st es = some r := by
  intro es
  induction es with
  | nil => intro st r h; simpa [condLoop] using h
  | cons x rest ih =>
    intro st r h
    obtain ⟨p, s⟩ := x
    simp only [condLoop] at h ⊢
    cases h1 : c st p with
    | none => simp [h1] at h
    | some y =>
      obtain ⟨st1, newp⟩ := y
      simp only [h1] at h; simp only [hle _ _ _ h1]
      by_cases c1 : newp.isFalse = true
      · simp only [if_pos c1] at h ⊢; exact ih _ _ h
      · simp only [if_neg c1] at h ⊢
        cases h2 : c st1 s with
        | none => simp [h2] at h
        | some z =>
          obtain ⟨st2, news⟩ := z
          simp only [h2] at h; simp only [hle _ _ _ h2]
          by_cases c2 : newp.isTrue = true
          · simp only [if_pos c2] at h ⊢; exact h
          · simp only [if_neg c2] at h ⊢
            cases h3 : condLoop c st2 rest with
            | none => simp [h3] at h
            | some w => simp only [h3] at h; simp only [ih _ _ h3]; exact h

theorem condition_mono {f g : AndF σ} (hle : AndF.Le f g) (cmpr : Bool) (x : Nat) (v : Bool) :
    ∀ (n m : Nat), n ≤ m → CondLe (condition cmpr f x v n) (condition cmpr g x v m)
  | 0, _, _ => by intro st p r h; simp [condition] at h
  | n + 1, 0, hnm => by omega
  | n + 1, m + 1, hnm => by
    have ih := condition_mono hle cmpr x v n m (by omega)
    intro st p r h
    have node : ∀ (es : List Elem) (i : Nat),
        (match condLoop (condition cmpr f x v n) st es with
          | none => none
          | some (st', .early r) => some (st', r)
          | some (st', .elems es') => canonicalize cmpr f st' es' i) = some r →
        (match condLoop (condition cmpr g x v m) st es with
          | none => none
          | some (st', .early r) => some (st', r)
          | some (st', .elems es') => canonicalize cmpr g st' es' i) = some r := by
      intro es i h
      cases h1 : condLoop (condition cmpr f x v n) st es with
      | none => simp [h1] at h
      | some y =>
        obtain ⟨st', res⟩ := y
        simp only [h1] at h; simp only [condLoop_mono ih _ _ _ h1]
        cases res with
        | early r0 => exact h
        | elems l => exact canonicalize_mono hle h
    cases p with
    | tru => simpa [condition] using h
    | fls => simpa [condition] using h
    | lit l pol => simpa [condition] using h
    | bdd c l i lo hi => simp only [condition] at h ⊢; exact node _ _ h
    | dec c i es => simp only [condition] at h ⊢; exact node _ _ h

end mono3

section mono4
variable (A : CacheImpl (Ptr × Ptr)) (I : CacheImpl (Ptr × Ptr × Ptr)) (cfg : Config)
variable {m n : Nat}

theorem bAnd_mono (h : m ≤ n) : AndF.Le (bAnd A cfg m) (bAnd A cfg n) :=
  and_mono_le A cfg.vt cfg.compress h

theorem bOr_mono (h : m ≤ n) : AndF.Le (bOr A cfg m) (bOr A cfg n) :=
  fun _ _ _ _ h' => orF_mono (bAnd_mono A cfg h) h'

theorem bCond_mono (h : m ≤ n) {st : A.σ} {f : Ptr} {x : Nat} {v : Bool} {r}
    (h' : bCond A cfg m st f x v = some r) : bCond A cfg n st f x v = some r :=
  condition_mono (bAnd_mono A cfg h) cfg.compress x v m n h st f r h'

theorem bIte_mono (hmn : m ≤ n) {s : A.σ × I.σ} {f g h : Ptr} {r}
    (h' : bIte A I cfg m s f g h = some r) : bIte A I cfg n s f g h = some r := by
  simp only [bIte] at h' ⊢
  have main : ∀ key : Ite,
      (match iteCacheGet I s.2 key with
        | some v => some (s, v)
        | none =>
          match bAnd A cfg m s.1 f g with
          | none => none
          | some (a1, fg) =>
            match bAnd A cfg m a1 f.neg h with
            | none => none
            | some (a2, nfh) =>
              match bOr A cfg m a2 fg nfh with
              | none => none
              | some (a3, r) => some ((a3, iteCacheInsert I s.2 key r), r)) = some r →
      (match iteCacheGet I s.2 key with
        | some v => some (s, v)
        | none =>
          match bAnd A cfg n s.1 f g with
          | none => none
          | some (a1, fg) =>
            match bAnd A cfg n a1 f.neg h with
            | none => none
            | some (a2, nfh) =>
              match bOr A cfg n a2 fg nfh with
              | none => none
              | some (a3, r) => some ((a3, iteCacheInsert I s.2 key r), r)) = some r := by
    intro key h'
    cases hget : iteCacheGet I s.2 key with
    | some v => simpa [hget] using h'
    | none =>
      simp only [hget] at h' ⊢
      cases h1 : bAnd A cfg m s.1 f g with
      | none => simp [h1] at h'
      | some y =>
        obtain ⟨a1, fg⟩ := y
        simp only [h1] at h'; simp only [bAnd_mono A cfg hmn _ _ _ _ h1]
        cases h2 : bAnd A cfg m a1 f.neg h with
        | none => simp [h2] at h'
        | some z =>
          obtain ⟨a2, nfh⟩ := z
          simp only [h2] at h'; simp only [bAnd_mono A cfg hmn _ _ _ _ h2]
          cases h3 : bOr A cfg m a2 fg nfh with
          | none => simp [h3] at h'
          | some w =>
            obtain ⟨a3, r3⟩ := w
            simp only [h3] at h'; simp only [bOr_mono A cfg hmn _ _ _ _ h3]; exact h'
  generalize Ite.new (primeOrd cfg.vt) f g h = key at h' ⊢
  cases key with
  | const p => exact h'
  | choice f' g' h'' => exact main _ h'
  | complChoice f' g' h'' => exact main _ h'

theorem bExists_mono (hmn : m ≤ n) {st : A.σ} {f : Ptr} {x : Nat} {r}
    (h' : bExists A cfg m st f x = some r) : bExists A cfg n st f x = some r := by
  simp only [bExists] at h' ⊢
  cases h1 : bCond A cfg m st f x true with
  | none => simp [h1] at h'
  | some y =>
    obtain ⟨s1, v1⟩ := y
    simp only [h1] at h'; simp only [bCond_mono A cfg hmn h1]
    cases h2 : bCond A cfg m s1 f x false with
    | none => simp [h2] at h'
    | some z =>
      obtain ⟨s2, v2⟩ := z
      simp only [h2] at h'; simp only [bCond_mono A cfg hmn h2]
      exact bOr_mono A cfg hmn _ _ _ _ h'

theorem bCompose_mono (hmn : m ≤ n) {s : A.σ × I.σ} {f g : Ptr} {x : Nat} {r}
    (h' : bCompose A I cfg m s f x g = some r) : bCompose A I cfg n s f x g = some r := by
  simp only [bCompose] at h' ⊢
  cases h1 : bIff A I cfg m s (.lit x true) g with
  | none => simp [h1] at h'
  | some y =>
    obtain ⟨s1, i⟩ := y
    have h1' : bIff A I cfg n s (.lit x true) g = some (s1, i) := bIte_mono A I cfg hmn h1
    simp only [h1] at h'; simp only [h1']
    cases h2 : bAnd A cfg m s1.1 i f with
    | none => simp [h2] at h'
    | some z =>
      obtain ⟨a2, c⟩ := z
      simp only [h2] at h'; simp only [bAnd_mono A cfg hmn _ _ _ _ h2]
      cases h3 : bExists A cfg m a2 c x with
      | none => simp [h3] at h'
      | some w =>
        obtain ⟨a3, r3⟩ := w
        simp only [h3] at h'; simp only [bExists_mono A cfg hmn h3]; exact h'

theorem map_mono {α β : Type} {X Y : Option α} (F : α → β) (hxy : ∀ z, X = some z → Y = some z)
    {r : β} (h : X.map F = some r) : Y.map F = some r := by
  cases X with
  | none => simp at h
  | some z => rw [hxy z rfl]; exact h

theorem step_mono (hmn : m ≤ n) (st : St A I) (op : Op) {st' : St A I}
    (h : step A I cfg m st op = some st') : step A I cfg n st op = some st' := by
  cases op with
  | const b => exact h
  | var x pol => exact h
  | neg i => exact h
  | and i j =>
    simp only [step] at h ⊢
    split at h
    · exact map_mono _ (fun z hz => bAnd_mono A cfg hmn _ _ _ _ hz) h
    · cases h
  | or i j =>
    simp only [step] at h ⊢
    split at h
    · exact map_mono _ (fun z hz => bOr_mono A cfg hmn _ _ _ _ hz) h
    · cases h
  | xor i j =>
    simp only [step] at h ⊢
    split at h
    · exact map_mono _ (fun z hz => bIte_mono A I cfg hmn hz) h
    · cases h
  | iff i j =>
    simp only [step] at h ⊢
    split at h
    · exact map_mono _ (fun z hz => bIte_mono A I cfg hmn hz) h
    · cases h
  | ite i j k =>
    simp only [step] at h ⊢
    split at h
    · exact map_mono _ (fun z hz => bIte_mono A I cfg hmn hz) h
    · cases h
  | cond i x b =>
    simp only [step] at h ⊢
    split at h
    · exact map_mono _ (fun z hz => bCond_mono A cfg hmn hz) h
    · cases h
  | exist i x =>
    simp only [step] at h ⊢
    split at h
    · exact map_mono _ (fun z hz => bExists_mono A cfg hmn hz) h
    · cases h
  | compose i x j =>
    simp only [step] at h ⊢
    split at h
    · rename_i hx
      rw [if_pos hx]
      split at h
      · exact map_mono _ (fun z hz => bCompose_mono A I cfg hmn hz) h
      · cases h
    · cases h

/-- **fuel monotonicity of programs**: a run that returns with `m` units of fuel returns the same
state with any `n ≥ m` -/
theorem runFrom_mono (hmn : m ≤ n) : ∀ (ops : List Op) (st st' : St A I),
    runFrom A I cfg m st ops = some st' → runFrom A I cfg n st ops = some st'
  | [], _, _, h => h
  | op :: ops, st, st', h => by
    simp only [runFrom] at h ⊢
    cases h1 : step A I cfg m st op with
    | none => simp [h1] at h
    | some st1 =>
      simp only [h1] at h; simp only [step_mono A I cfg hmn st op h1]
      exact runFrom_mono hmn ops st1 st' h

end mono4

end Sdd
