import RsddModel.Model.ScratchSdd
import RsddModel.Lemmas.Scratch
/-!
# Lemmas for C10, SDD side

`foldDagS_spec` (the memo of `SddPtr::fold` is transparent), `clearS_spec` (the unconditional
`clear_scratch` empties exactly the reachable cells, from *any* state), `countHS_spec`.
-/
namespace ScratchSdd
open Scratch

@[simp] theorem SRef.idx?_neg (r : SRef) : r.neg.idx? = r.idx? := by cases r <;> rfl

theorem SRef.eq_of_idx? {r : SRef} {i : Nat} (h : r.idx? = some i) :
    r = (if r.isNeg then .compl i else .reg i) := by
  cases r <;> simp_all [SRef.idx?, SRef.isNeg]

/-! ## reachability -/

theorem reachesS_cons_eq (n : SNode) (rest : SStore) {r : SRef} (h : r.idx? = some rest.length) (j : Nat) :
    reachesS (n :: rest) r j = (j == rest.length || n.kids.any (fun k => reachesS rest k j)) := by
  simp [reachesS, h]

theorem reachesS_cons_ne (n : SNode) (rest : SStore) {r : SRef} {i : Nat} (h : r.idx? = some i)
    (hi : i ≠ rest.length) (j : Nat) : reachesS (n :: rest) r j = reachesS rest r j := by
  simp [reachesS, h, hi]

theorem reachesS_none (s : SStore) {r : SRef} (h : r.idx? = none) (j : Nat) : reachesS s r j = false := by
  cases s <;> simp [reachesS, h]

theorem reachesS_congr {r r' : SRef} (h : r.idx? = r'.idx?) : ∀ (s : SStore) (j : Nat),
    reachesS s r j = reachesS s r' j
  | [], _ => rfl
  | n :: rest, j => by
    simp only [reachesS, h]
    cases h' : r'.idx? with
    | none => rfl
    | some i =>
      simp only
      split
      · rfl
      · exact reachesS_congr h rest j

@[simp] theorem reachesS_neg (s : SStore) (r : SRef) (j : Nat) : reachesS s r.neg j = reachesS s r j :=
  reachesS_congr (SRef.idx?_neg r) s j

theorem reachesS_lt : ∀ (s : SStore) (r : SRef) (j : Nat), reachesS s r j = true → j < s.length
  | [], _, _, h => by simp [reachesS] at h
  | n :: rest, r, j, h => by
    cases h' : r.idx? with
    | none => simp [reachesS_none _ h'] at h
    | some i =>
      by_cases hi : i = rest.length
      · subst hi
        rw [reachesS_cons_eq n rest h'] at h
        simp only [Bool.or_eq_true, beq_iff_eq, List.any_eq_true] at h
        rcases h with h | ⟨k, _, hk⟩
        · subst h; simp
        · have := reachesS_lt rest k j hk; simp; omega
      · rw [reachesS_cons_ne n rest h' hi] at h
        have := reachesS_lt rest r j h; simp; omega

theorem reachesS_self (n : SNode) (rest : SStore) {r : SRef} (h : r.idx? = some rest.length) :
    reachesS (n :: rest) r rest.length = true := by simp [reachesS_cons_eq n rest h]

theorem reachesS_trans : ∀ (s : SStore) (r : SRef) (j k : Nat),
    reachesS s r j = true → reachesS s (.reg j) k = true → reachesS s r k = true
  | [], _, _, _, h, _ => by simp [reachesS] at h
  | n :: rest, r, j, k, h1, h2 => by
    cases h' : r.idx? with
    | none => simp [reachesS_none _ h'] at h1
    | some i =>
      by_cases hi : i = rest.length
      · subst hi
        rw [reachesS_cons_eq n rest h'] at h1 ⊢
        simp only [Bool.or_eq_true, beq_iff_eq, List.any_eq_true] at h1 ⊢
        rcases h1 with h1 | ⟨x, hx, h1⟩
        · subst h1
          rw [reachesS_cons_eq n rest (r := .reg rest.length) rfl] at h2
          simpa using h2
        · have hj := reachesS_lt _ _ _ h1
          rw [reachesS_cons_ne n rest (r := .reg j) rfl (by omega)] at h2
          exact Or.inr ⟨x, hx, reachesS_trans rest x j k h1 h2⟩
      · rw [reachesS_cons_ne n rest h' hi] at h1 ⊢
        have hj := reachesS_lt _ _ _ h1
        rw [reachesS_cons_ne n rest (r := .reg j) rfl (by omega)] at h2
        exact reachesS_trans rest r j k h1 h2

/-- the children `node_iter` yields reach what the stored children reach (the `Var` primes of a
binary node have no cell and no descendants) -/
theorem elems_any_eq_kids_any (n : SNode) (f : SRef → Bool) (hvar : ∀ v b, f (.var v b) = false) :
    n.elems.any (fun e => f e.1 || f e.2) = n.kids.any f := by
  cases n with
  | bdd l lo hi => simp [SNode.elems, SNode.kids, hvar, Bool.or_comm]
  | or es =>
    simp only [SNode.elems, SNode.kids]
    induction es with
    | nil => rfl
    | cons e es ih => simp [List.flatMap_cons, ih, Bool.or_assoc]

theorem kidsCount_any_eq_kids_any (n : SNode) (f : SRef → Bool) : n.kidsCount.any f = n.kids.any f := by
  cases n with
  | bdd l lo hi => rfl
  | or es =>
    simp only [SNode.kidsCount, SNode.kids]
    induction es with
    | nil => rfl
    | cons e es ih =>
      simp only [List.flatMap_cons, List.any_append, ih, List.any_cons, List.any_nil, Bool.or_false]
      cases f e.1 <;> cases f e.2 <;> rfl

/-! ## the un-memoised value -/

variable {V : Type}

theorem valS_none (A : SAlg V) (s : SStore) {r : SRef} (h : r.idx? = none) : valS A s r = A.leaf r := by
  cases s <;> simp [valS, h]

theorem valS_cons_ne (A : SAlg V) (n : SNode) (rest : SStore) {r : SRef} {i : Nat} (h : r.idx? = some i)
    (hi : i ≠ rest.length) : valS A (n :: rest) r = valS A rest r := by
  simp [valS, h, hi]

theorem valS_cons_eq (A : SAlg V) (n : SNode) (rest : SStore) {r : SRef} (h : r.idx? = some rest.length) :
    valS A (n :: rest) r = valElems A (valS A rest) r.isNeg n.elems A.fls := by
  simp [valS, h]

set_option linter.unusedSectionVars false
section cells
variable {Tag : Type} [DecidableEq Tag] {U : Tag → Type}

/-! ## the memo invariant -/

def CellOKS (t : Tag) (A : SAlg (U t)) (s : SStore) (i : Nat) (c : Cell U) : Prop :=
  ∀ a b, c.asPair t = some (a, b) →
    (∀ v, a = some v → v = valS A s (.compl i)) ∧ (∀ v, b = some v → v = valS A s (.reg i))

theorem cellOKS_cons {t : Tag} {A : SAlg (U t)} (n : SNode) (rest : SStore) {j : Nat}
    (hj : j ≠ rest.length) (c : Cell U) : CellOKS t A (n :: rest) j c ↔ CellOKS t A rest j c := by
  simp only [CellOKS, valS_cons_ne A n rest (r := .compl j) rfl hj,
    valS_cons_ne A n rest (r := .reg j) rfl hj]

/-- on the index set `R`, every cell that reads as a pair of this traversal's type is correct.
(No occupancy condition: the SDD `clear_scratch` does not short-circuit.) -/
def PreOn (t : Tag) (A : SAlg (U t)) (s : SStore) (R : Nat → Bool) (σ : Scr U) : Prop :=
  ∀ j, R j = true → CellOKS t A s j (σ j)

/-- outcome of one memoised traversal of `x` from `σ` -/
def Post (t : Tag) (A : SAlg (U t)) (s : SStore) (x : SRef) (σ : Scr U) (res : U t × Scr U) : Prop :=
  res.1 = valS A s x ∧
  (∀ j, reachesS s x j = true → CellOKS t A s j (res.2 j)) ∧
  (∀ j, reachesS s x j = false → res.2 j = σ j)

theorem preOn_step {t : Tag} {A : SAlg (U t)} {s : SStore} {R : Nat → Bool} {σ : Scr U} {x : SRef}
    {res : U t × Scr U} (h : PreOn t A s R σ) (hp : Post t A s x σ res) : PreOn t A s R res.2 := by
  intro j hj
  cases hx : reachesS s x j with
  | true => exact hp.2.1 j hx
  | false => rw [hp.2.2 j hx]; exact h j hj

/-- the element loop -/
theorem foldElems_spec (t : Tag) (A : SAlg (U t)) (s : SStore) (rc : SRef → Scr U → U t × Scr U)
    (hrc : ∀ x σ, PreOn t A s (reachesS s x) σ → Post t A s x σ (rc x σ))
    (R : Nat → Bool) (neg : Bool) :
    ∀ (es : List (SRef × SRef)) (acc : U t) (σ : Scr U),
    (∀ e ∈ es, (∀ j, reachesS s e.1 j = true → R j = true) ∧ (∀ j, reachesS s e.2 j = true → R j = true)) →
    PreOn t A s R σ →
    (foldElems A rc neg es acc σ).1 = valElems A (valS A s) neg es acc ∧
    PreOn t A s R (foldElems A rc neg es acc σ).2 ∧
    (∀ j, es.any (fun e => reachesS s e.1 j || reachesS s e.2 j) = false →
      (foldElems A rc neg es acc σ).2 j = σ j)
  | [], acc, σ, _, h => ⟨rfl, h, fun _ _ => rfl⟩
  | e :: es, acc, σ, hsub, h => by
    obtain ⟨h1, h2⟩ := hsub e (List.mem_cons_self ..)
    have hs2 : ∀ j, reachesS s (if neg then e.2.neg else e.2) j = reachesS s e.2 j := by
      intro j; split <;> simp
    have pa := hrc e.1 σ (fun j hj => h j (h1 j hj))
    have ha := preOn_step h pa
    have pb := hrc (if neg then e.2.neg else e.2) (rc e.1 σ).2
      (fun j hj => ha j (h2 j (by rw [← hs2]; exact hj)))
    have hb := preOn_step ha pb
    obtain ⟨v3, p3, f3⟩ := foldElems_spec t A s rc hrc R neg es
      (A.or acc (A.and (rc e.1 σ).1 (rc (if neg then e.2.neg else e.2) (rc e.1 σ).2).1))
      (rc (if neg then e.2.neg else e.2) (rc e.1 σ).2).2
      (fun e' he' => hsub e' (List.mem_cons_of_mem _ he')) hb
    refine ⟨?_, p3, ?_⟩
    · simp only [foldElems, valElems]
      rw [v3, pa.1, pb.1]
    · intro j hj
      simp only [List.any_cons, Bool.or_eq_false_iff] at hj
      simp only [foldElems]
      rw [f3 j hj.2, pb.2.2 j (by rw [hs2]; exact hj.1.2), pa.2.2 j hj.1.1]

/-- `bottomup_pass_h` of `SddPtr::fold` is transparent -/
theorem foldDagS_spec (t : Tag) (A : SAlg (U t)) : ∀ (s : SStore) (r : SRef) (σ : Scr U),
    PreOn t A s (reachesS s r) σ → Post t A s r σ (foldDagS t A s r σ)
  | [], r, σ, _ => by
    refine ⟨by simp [foldDagS, valS], ?_, fun _ _ => rfl⟩
    intro j hj; simp [reachesS] at hj
  | n :: rest, r, σ, hpre => by
    cases h : r.idx? with
    | none =>
      refine ⟨by simp [foldDagS, h, valS], ?_, fun _ _ => by simp [foldDagS, h]⟩
      intro j hj; rw [reachesS_none _ h] at hj; cases hj
    | some i =>
      by_cases hi : i = rest.length
      · subst hi
        have hok := hpre _ (reachesS_self n rest h)
        simp only [foldDagS, h, if_true]
        cases hp : probeFold r.isNeg ((σ rest.length).asPair t) with
        | hit v =>
          simp only
          obtain ⟨a, b, hab, hv⟩ := probeFold_hit hp
          obtain ⟨hca, hcb⟩ := hok a b hab
          refine ⟨?_, fun j hj => hpre j hj, fun _ _ => rfl⟩
          simp only
          rw [SRef.eq_of_idx? h]
          cases hneg : r.isNeg <;> simp only [hneg] at hv ⊢
          · exact hcb v hv
          · exact hca v hv
        | miss cached =>
          simp only
          have hreach : ∀ j, reachesS (n :: rest) r j =
              (j == rest.length || n.kids.any (fun k => reachesS rest k j)) := reachesS_cons_eq n rest h
          have hR : PreOn t A rest (fun j => n.kids.any (fun k => reachesS rest k j)) σ := by
            intro j hj
            have hlt : j < rest.length := by
              simp only [List.any_eq_true] at hj
              obtain ⟨k, _, hk⟩ := hj
              exact reachesS_lt _ _ _ hk
            rw [← cellOKS_cons n rest (by omega)]
            exact hpre j (by rw [hreach]; simp [hj])
          have hany : ∀ j, n.elems.any (fun e => reachesS rest e.1 j || reachesS rest e.2 j) =
              n.kids.any (fun k => reachesS rest k j) := fun j =>
            elems_any_eq_kids_any n (fun k => reachesS rest k j) (fun _ _ => reachesS_none _ rfl _)
          have hsub : ∀ e ∈ n.elems,
              (∀ j, reachesS rest e.1 j = true → n.kids.any (fun k => reachesS rest k j) = true) ∧
              (∀ j, reachesS rest e.2 j = true → n.kids.any (fun k => reachesS rest k j) = true) := by
            intro e he
            constructor <;> intro j hj <;> rw [← hany] <;> simp only [List.any_eq_true] <;>
              exact ⟨e, he, by simp [hj]⟩
          obtain ⟨v1, p1, f1⟩ := foldElems_spec t A rest (foldDagS t A rest)
            (fun x σ hx => foldDagS_spec t A rest x σ hx) _ r.isNeg n.elems A.fls σ hsub hR
          generalize foldElems A (foldDagS t A rest) r.isNeg n.elems A.fls σ = ra at v1 p1 f1
          have hval : ra.1 = valS A (n :: rest) r := by rw [valS_cons_eq A n rest h, v1]
          refine ⟨hval, ?_, ?_⟩
          · intro j hj
            by_cases hji : j = rest.length
            · subst hji
              simp only [Scr.set_same]
              intro a b hab
              simp only [Cell.asPair_pair_self, Option.some.injEq, Prod.mk.injEq] at hab
              have hcached : ∀ w, cached = some w →
                  w = valS A (n :: rest) (if r.isNeg then .reg rest.length else .compl rest.length) := by
                intro w hw
                rcases probeFold_miss hp with hnone | ⟨a0, b0, hab0, hc⟩
                · rw [hnone] at hw; cases hw
                · obtain ⟨hca, hcb⟩ := hok a0 b0 hab0
                  cases hneg : r.isNeg <;> simp only [hneg] at hc ⊢
                  · exact hca w (by simp_all)
                  · exact hcb w (by simp_all)
              rw [SRef.eq_of_idx? h] at hval
              obtain ⟨ha, hb⟩ := hab
              cases hneg : r.isNeg <;> simp only [hneg, storeFold] at ha hb hval hcached
              · subst ha hb
                exact ⟨fun v hv => hcached v hv, fun v hv => by cases hv; exact hval⟩
              · subst ha hb
                exact ⟨fun v hv => by cases hv; exact hval, fun v hv => hcached v hv⟩
            · dsimp only
              rw [Scr.set_other _ _ hji, cellOKS_cons n rest hji]
              rw [hreach] at hj
              simp only [Bool.or_eq_true, beq_iff_eq] at hj
              rcases hj with hj | hj
              · exact absurd hj hji
              · exact p1 j hj
          · intro j hj
            rw [hreach] at hj
            simp only [Bool.or_eq_false_iff, beq_eq_false_iff_ne, ne_eq] at hj
            rw [Scr.set_other _ _ hj.1, f1 j (by rw [hany]; exact hj.2)]
      · simp only [foldDagS, h, hi, if_false]
        obtain ⟨v1, p1, f1⟩ := foldDagS_spec t A rest r σ (fun j hj => by
          have := reachesS_lt _ _ _ hj
          rw [← cellOKS_cons n rest (by omega)]
          exact hpre j (by rw [reachesS_cons_ne n rest h hi]; exact hj))
        refine ⟨by rw [v1, valS_cons_ne A n rest h hi], ?_, ?_⟩
        · intro j hj
          rw [reachesS_cons_ne n rest h hi] at hj
          have := reachesS_lt _ _ _ hj
          rw [cellOKS_cons n rest (by omega)]
          exact p1 j hj
        · intro j hj
          rw [reachesS_cons_ne n rest h hi] at hj
          exact f1 j hj

/-! ## the unconditional clear -/

theorem foldl_clear (rest : SStore)
    (ih : ∀ (k : SRef) (σ : Scr U), clearS rest k σ = fun j => if reachesS rest k j then .empty else σ j) :
    ∀ (ks : List SRef) (σ : Scr U),
    ks.foldl (fun σ k => clearS rest k σ) σ =
      fun j => if ks.any (fun k => reachesS rest k j) then .empty else σ j
  | [], σ => by simp
  | k :: ks, σ => by
    rw [List.foldl_cons, foldl_clear rest ih ks, ih k σ]
    funext j
    simp only [List.any_cons]
    cases reachesS rest k j <;> cases ks.any (fun k => reachesS rest k j) <;> simp

/-- `clear_scratch` on SDDs empties exactly the reachable cells — from any state -/
theorem clearS_spec : ∀ (s : SStore) (r : SRef) (σ : Scr U),
    clearS s r σ = fun j => if reachesS s r j then .empty else σ j
  | [], _, σ => by simp [clearS, reachesS]
  | n :: rest, r, σ => by
    cases h : r.idx? with
    | none => simp [clearS, h, reachesS_none _ h]
    | some i =>
      by_cases hi : i = rest.length
      · subst hi
        simp only [clearS, h, if_true]
        rw [foldl_clear rest (clearS_spec rest)]
        funext j
        rw [reachesS_cons_eq n rest h]
        by_cases hji : j = rest.length
        · subst hji; simp
        · have : (j == rest.length) = false := by simp [hji]
          simp [this, Scr.set_other _ _ hji]
      · simp only [clearS, h, hi, if_false]
        rw [clearS_spec rest r σ]
        funext j
        rw [reachesS_cons_ne n rest h hi]

/-- `SddPtr::fold` -/
theorem foldS_spec (t : Tag) (A : SAlg (U t)) (s : SStore) (r : SRef) (σ : Scr U)
    (h : PreOn t A s (reachesS s r) σ) :
    foldS t A s r σ = (valS A s r, fun j => if reachesS s r j then .empty else σ j) := by
  obtain ⟨hv, _, hf⟩ := foldDagS_spec t A s r σ h
  simp only [foldS, hv, clearS_spec]
  congr 1
  funext j
  cases hj : reachesS s r j with
  | true => simp
  | false => simp [hf j hj]

end cells

end ScratchSdd
