import RsddModel.Model.ScratchSdd
import RsddModel.Lemmas.Scratch
/-!
# Lemmas for C10, SDD side

`foldDagS_spec` (the memo of `SddPtr::fold` is transparent), `clearS_spec` (the unconditional
`clear_scratch` empties exactly the reachable cells, from *any* state), `countHS_spec`.
-/
namespace ScratchSdd
open Scratch

@[simp] theorem SRef.idx?_neg (r : SRef) : r.neg.idx? = r.idx? := by cases r <;> rfl

theorem SRef.eq_of_idx? {r : SRef} {i : Nat} (h : r.idx? = some i) :
    r = (if r.isNeg then .compl i else .reg i) := by
  cases r <;> simp_all [SRef.idx?, SRef.isNeg]

/-! ## reachability -/

theorem reachesS_cons_eq (n : SNode) (rest : SStore) {r : SRef} (h : r.idx? = some rest.length) (j : Nat) :
    reachesS (n :: rest) r j = (j == rest.length || n.kids.any (fun k => reachesS rest k j)) := by
  simp [reachesS, h]

theorem reachesS_cons_ne (n : SNode) (rest : SStore) {r : SRef} {i : Nat} (h : r.idx? = some i)
    (hi : i ≠ rest.length) (j : Nat) : reachesS (n :: rest) r j = reachesS rest r j := by
  simp [reachesS, h, hi]

theorem reachesS_none (s : SStore) {r : SRef} (h : r.idx? = none) (j : Nat) : reachesS s r j = false := by
  cases s <;> simp [reachesS, h]

theorem reachesS_congr {r r' : SRef} (h : r.idx? = r'.idx?) : ∀ (s : SStore) (j : Nat),
    reachesS s r j = reachesS s r' j
  | [], _ => rfl
  | n :: rest, j => by
    simp only [reachesS, h]
    cases h' : r'.idx? with
    | none => rfl
    | some i =>
      simp only
      split
      · rfl
      · exact reachesS_congr h rest j

@[simp] theorem reachesS_neg (s : SStore) (r : SRef) (j : Nat) : reachesS s r.neg j = reachesS s r j :=
  reachesS_congr (SRef.idx?_neg r) s j

theorem reachesS_lt : ∀ (s : SStore) (r : SRef) (j : Nat), reachesS s r j = true → j < s.length
  | [], _, _, h => by simp [reachesS] at h
  | n :: rest, r, j, h => by
    cases h' : r.idx? with
    | none => simp [reachesS_none _ h'] at h
    | some i =>
      by_cases hi : i = rest.length
      · subst hi
        rw [reachesS_cons_eq n rest h'] at h
        simp only [Bool.or_eq_true, beq_iff_eq, List.any_eq_true] at h
        rcases h with h | ⟨k, _, hk⟩
        · subst h; simp
        · have := reachesS_lt rest k j hk; simp; omega
      · rw [reachesS_cons_ne n rest h' hi] at h
        have := reachesS_lt rest r j h; simp; omega

theorem reachesS_self (n : SNode) (rest : SStore) {r : SRef} (h : r.idx? = some rest.length) :
    reachesS (n :: rest) r rest.length = true := by simp [reachesS_cons_eq n rest h]

theorem reachesS_trans : ∀ (s : SStore) (r : SRef) (j k : Nat),
    reachesS s r j = true → reachesS s (.reg j) k = true → reachesS s r k = true
  | [], _, _, _, h, _ => by simp [reachesS] at h
  | n :: rest, r, j, k, h1, h2 => by
    cases h' : r.idx? with
    | none => simp [reachesS_none _ h'] at h1
    | some i =>
      by_cases hi : i = rest.length
      · subst hi
        rw [reachesS_cons_eq n rest h'] at h1 ⊢
        simp only [Bool.or_eq_true, beq_iff_eq, List.any_eq_true] at h1 ⊢
        rcases h1 with h1 | ⟨x, hx, h1⟩
        · subst h1
          rw [reachesS_cons_eq n rest (r := .reg rest.length) rfl] at h2
          simpa using h2
        · have hj := reachesS_lt _ _ _ h1
          rw [reachesS_cons_ne n rest (r := .reg j) rfl (by omega)] at h2
          exact Or.inr ⟨x, hx, reachesS_trans rest x j k h1 h2⟩
      · rw [reachesS_cons_ne n rest h' hi] at h1 ⊢
        have hj := reachesS_lt _ _ _ h1
        rw [reachesS_cons_ne n rest (r := .reg j) rfl (by omega)] at h2
        exact reachesS_trans rest r j k h1 h2

/-- the children `node_iter` yields reach what the stored children reach (the `Var` primes of a
binary node have no cell and no descendants) -/
theorem elems_any_eq_kids_any (n : SNode) (f : SRef → Bool) (hvar : ∀ v b, f (.var v b) = false) :
    n.elems.any (fun e => f e.1 || f e.2) = n.kids.any f := by
  cases n with
  | bdd l lo hi => simp [SNode.elems, SNode.kids, hvar, Bool.or_comm]
  | or es =>
    simp only [SNode.elems, SNode.kids]
    induction es with
    | nil => rfl
    | cons e es ih =>
      simp only [List.any_cons, List.flatMap_cons, List.any_append, List.any_nil, Bool.or_false, ih]

theorem kidsCount_any_eq_kids_any (n : SNode) (f : SRef → Bool) : n.kidsCount.any f = n.kids.any f := by
  cases n with
  | bdd l lo hi => rfl
  | or es =>
    simp only [SNode.kidsCount, SNode.kids]
    induction es with
    | nil => rfl
    | cons e es ih =>
      simp only [List.flatMap_cons, List.any_append, ih, List.any_cons, List.any_nil, Bool.or_false]
      cases f e.1 <;> cases f e.2 <;> rfl

/-! ## the un-memoised value -/

variable {V : Type}

theorem valS_none (A : SAlg V) (s : SStore) {r : SRef} (h : r.idx? = none) : valS A s r = A.leaf r := by
  cases s <;> simp [valS, h]

theorem valS_cons_ne (A : SAlg V) (n : SNode) (rest : SStore) {r : SRef} {i : Nat} (h : r.idx? = some i)
    (hi : i ≠ rest.length) : valS A (n :: rest) r = valS A rest r := by
  simp [valS, h, hi]

theorem valS_cons_eq (A : SAlg V) (n : SNode) (rest : SStore) {r : SRef} (h : r.idx? = some rest.length) :
    valS A (n :: rest) r = valElems A (valS A rest) r.isNeg n.elems A.fls := by
  simp [valS, h]

set_option linter.unusedSectionVars false
section cells
variable {Tag : Type} [DecidableEq Tag] {U : Tag → Type}

/-! ## the memo invariant -/

def CellOKS (t : Tag) (A : SAlg (U t)) (s : SStore) (i : Nat) (c : Cell U) : Prop :=
  ∀ a b, c.asPair t = some (a, b) →
    (∀ v, a = some v → v = valS A s (.compl i)) ∧ (∀ v, b = some v → v = valS A s (.reg i))

theorem cellOKS_cons {t : Tag} {A : SAlg (U t)} (n : SNode) (rest : SStore) {j : Nat}
    (hj : j ≠ rest.length) (c : Cell U) : CellOKS t A (n :: rest) j c ↔ CellOKS t A rest j c := by
  simp only [CellOKS, valS_cons_ne A n rest (r := .compl j) rfl hj,
    valS_cons_ne A n rest (r := .reg j) rfl hj]

/-- on the index set `R`, every cell that reads as a pair of this traversal's type is correct.
(No occupancy condition: the SDD `clear_scratch` does not short-circuit.) -/
def PreOn (t : Tag) (A : SAlg (U t)) (s : SStore) (R : Nat → Bool) (σ : Scr U) : Prop :=
  ∀ j, R j = true → CellOKS t A s j (σ j)

/-- outcome of one memoised traversal of `x` from `σ` -/
def Post (t : Tag) (A : SAlg (U t)) (s : SStore) (x : SRef) (σ : Scr U) (res : U t × Scr U) : Prop :=
  res.1 = valS A s x ∧
  (∀ j, reachesS s x j = true → CellOKS t A s j (res.2 j)) ∧
  (∀ j, reachesS s x j = false → res.2 j = σ j)

theorem preOn_step {t : Tag} {A : SAlg (U t)} {s : SStore} {R : Nat → Bool} {σ : Scr U} {x : SRef}
    {res : U t × Scr U} (h : PreOn t A s R σ) (hp : Post t A s x σ res) : PreOn t A s R res.2 := by
  intro j hj
  cases hx : reachesS s x j with
  | true => exact hp.2.1 j hx
  | false => rw [hp.2.2 j hx]; exact h j hj

/-- the element loop -/
theorem foldElems_spec (t : Tag) (A : SAlg (U t)) (s : SStore) (rc : SRef → Scr U → U t × Scr U)
    (hrc : ∀ x σ, PreOn t A s (reachesS s x) σ → Post t A s x σ (rc x σ))
    (R : Nat → Bool) (neg : Bool) :
    ∀ (es : List (SRef × SRef)) (acc : U t) (σ : Scr U),
    (∀ e ∈ es, (∀ j, reachesS s e.1 j = true → R j = true) ∧ (∀ j, reachesS s e.2 j = true → R j = true)) →
    PreOn t A s R σ →
    (foldElems A rc neg es acc σ).1 = valElems A (valS A s) neg es acc ∧
    PreOn t A s R (foldElems A rc neg es acc σ).2 ∧
    (∀ j, es.any (fun e => reachesS s e.1 j || reachesS s e.2 j) = false →
      (foldElems A rc neg es acc σ).2 j = σ j)
  | [], acc, σ, _, h => ⟨rfl, h, fun _ _ => rfl⟩
  | e :: es, acc, σ, hsub, h => by
    obtain ⟨h1, h2⟩ := hsub e (List.mem_cons_self ..)
    have hs2 : ∀ j, reachesS s (if neg then e.2.neg else e.2) j = reachesS s e.2 j := by
      intro j; split <;> simp
    have pa := hrc e.1 σ (fun j hj => h j (h1 j hj))
    have ha := preOn_step h pa
    have pb := hrc (if neg then e.2.neg else e.2) (rc e.1 σ).2
      (fun j hj => ha j (h2 j (by rw [← hs2]; exact hj)))
    have hb := preOn_step ha pb
    obtain ⟨v3, p3, f3⟩ := foldElems_spec t A s rc hrc R neg es
      (A.or acc (A.and (rc e.1 σ).1 (rc (if neg then e.2.neg else e.2) (rc e.1 σ).2).1))
      (rc (if neg then e.2.neg else e.2) (rc e.1 σ).2).2
      (fun e' he' => hsub e' (List.mem_cons_of_mem _ he')) hb
    refine ⟨?_, p3, ?_⟩
    · simp only [foldElems, valElems]
      rw [v3, pa.1, pb.1]
    · intro j hj
      simp only [List.any_cons, Bool.or_eq_false_iff] at hj
      simp only [foldElems]
      rw [f3 j hj.2, pb.2.2 j (by rw [hs2]; exact hj.1.2), pa.2.2 j hj.1.1]

/-- `bottomup_pass_h` of `SddPtr::fold` is transparent -/
theorem foldDagS_spec (t : Tag) (A : SAlg (U t)) : ∀ (s : SStore) (r : SRef) (σ : Scr U),
    PreOn t A s (reachesS s r) σ → Post t A s r σ (foldDagS t A s r σ)
  | [], r, σ, _ => by
    refine ⟨by simp [foldDagS, valS], ?_, fun _ _ => rfl⟩
    intro j hj; simp [reachesS] at hj
  | n :: rest, r, σ, hpre => by
    cases h : r.idx? with
    | none =>
      refine ⟨by simp [foldDagS, h, valS], ?_, fun _ _ => by simp [foldDagS, h]⟩
      intro j hj; rw [reachesS_none _ h] at hj; cases hj
    | some i =>
      by_cases hi : i = rest.length
      · subst hi
        have hok := hpre _ (reachesS_self n rest h)
        simp only [foldDagS, h, if_true]
        cases hp : probeFold r.isNeg ((σ rest.length).asPair t) with
        | hit v =>
          simp only
          obtain ⟨a, b, hab, hv⟩ := probeFold_hit hp
          obtain ⟨hca, hcb⟩ := hok a b hab
          refine ⟨?_, fun j hj => hpre j hj, fun _ _ => rfl⟩
          simp only
          rw [SRef.eq_of_idx? h]
          cases hneg : r.isNeg <;> simp only [hneg] at hv ⊢
          · exact hcb v hv
          · exact hca v hv
        | miss cached =>
          simp only
          have hreach : ∀ j, reachesS (n :: rest) r j =
              (j == rest.length || n.kids.any (fun k => reachesS rest k j)) := reachesS_cons_eq n rest h
          have hR : PreOn t A rest (fun j => n.kids.any (fun k => reachesS rest k j)) σ := by
            intro j hj
            have hlt : j < rest.length := by
              simp only [List.any_eq_true] at hj
              obtain ⟨k, _, hk⟩ := hj
              exact reachesS_lt _ _ _ hk
            rw [← cellOKS_cons n rest (by omega)]
            exact hpre j (by rw [hreach]; simp [hj])
          have hany : ∀ j, n.elems.any (fun e => reachesS rest e.1 j || reachesS rest e.2 j) =
              n.kids.any (fun k => reachesS rest k j) := fun j =>
            elems_any_eq_kids_any n (fun k => reachesS rest k j) (fun _ _ => reachesS_none _ rfl _)
          have hsub : ∀ e ∈ n.elems,
              (∀ j, reachesS rest e.1 j = true → n.kids.any (fun k => reachesS rest k j) = true) ∧
              (∀ j, reachesS rest e.2 j = true → n.kids.any (fun k => reachesS rest k j) = true) := by
            intro e he
            constructor <;> intro j hj <;> rw [← hany] <;> simp only [List.any_eq_true] <;>
              exact ⟨e, he, by simp [hj]⟩
          obtain ⟨v1, p1, f1⟩ := foldElems_spec t A rest (foldDagS t A rest)
            (fun x σ hx => foldDagS_spec t A rest x σ hx) _ r.isNeg n.elems A.fls σ hsub hR
          generalize foldElems A (foldDagS t A rest) r.isNeg n.elems A.fls σ = ra at v1 p1 f1
          have hval : ra.1 = valS A (n :: rest) r := by rw [valS_cons_eq A n rest h, v1]
          refine ⟨hval, ?_, ?_⟩
          · intro j hj
            by_cases hji : j = rest.length
            · subst hji
              simp only [Scr.set_same]
              intro a b hab
              simp only [Cell.asPair_pair_self, Option.some.injEq, Prod.mk.injEq] at hab
              have hcached : ∀ w, cached = some w →
                  w = valS A (n :: rest) (if r.isNeg then .reg rest.length else .compl rest.length) := by
                intro w hw
                rcases probeFold_miss hp with hnone | ⟨a0, b0, hab0, hc⟩
                · rw [hnone] at hw; cases hw
                · obtain ⟨hca, hcb⟩ := hok a0 b0 hab0
                  cases hneg : r.isNeg <;> simp only [hneg] at hc ⊢
                  · exact hca w (by simp_all)
                  · exact hcb w (by simp_all)
              rw [SRef.eq_of_idx? h] at hval
              obtain ⟨ha, hb⟩ := hab
              cases hneg : r.isNeg <;> simp only [hneg, storeFold] at ha hb hval hcached
              · subst ha hb
                exact ⟨fun v hv => hcached v hv, fun v hv => by cases hv; exact hval⟩
              · subst ha hb
                exact ⟨fun v hv => by cases hv; exact hval, fun v hv => hcached v hv⟩
            · dsimp only
              rw [Scr.set_other _ _ hji, cellOKS_cons n rest hji]
              rw [hreach] at hj
              simp only [Bool.or_eq_true, beq_iff_eq] at hj
              rcases hj with hj | hj
              · exact absurd hj hji
              · exact p1 j hj
          · intro j hj
            rw [hreach] at hj
            simp only [Bool.or_eq_false_iff, beq_eq_false_iff_ne, ne_eq] at hj
            dsimp only
            rw [Scr.set_other _ _ hj.1, f1 j (by rw [hany]; exact hj.2)]
      · simp only [foldDagS, h, hi, if_false]
        obtain ⟨v1, p1, f1⟩ := foldDagS_spec t A rest r σ (fun j hj => by
          have := reachesS_lt _ _ _ hj
          rw [← cellOKS_cons n rest (by omega)]
          exact hpre j (by rw [reachesS_cons_ne n rest h hi]; exact hj))
        refine ⟨by rw [v1, valS_cons_ne A n rest h hi], ?_, ?_⟩
        · intro j hj
          rw [reachesS_cons_ne n rest h hi] at hj
          have := reachesS_lt _ _ _ hj
          rw [cellOKS_cons n rest (by omega)]
          exact p1 j hj
        · intro j hj
          rw [reachesS_cons_ne n rest h hi] at hj
          exact f1 j hj

/-! ## the unconditional clear -/

theorem foldl_clear (rest : SStore)
    (ih : ∀ (k : SRef) (σ : Scr U), clearS rest k σ = fun j => if reachesS rest k j then .empty else σ j) :
    ∀ (ks : List SRef) (σ : Scr U),
    ks.foldl (fun σ k => clearS rest k σ) σ =
      fun j => if ks.any (fun k => reachesS rest k j) then .empty else σ j
  | [], σ => by simp
  | k :: ks, σ => by
    rw [List.foldl_cons, foldl_clear rest ih ks, ih k σ]
    funext j
    simp only [List.any_cons]
    by_cases h1 : reachesS rest k j = true <;> by_cases h2 : ks.any (fun k => reachesS rest k j) = true <;>
      simp [h1, h2]

/-- `clear_scratch` on SDDs empties exactly the reachable cells — from any state -/
theorem clearS_spec : ∀ (s : SStore) (r : SRef) (σ : Scr U),
    clearS s r σ = fun j => if reachesS s r j then .empty else σ j
  | [], _, σ => by simp [clearS, reachesS]
  | n :: rest, r, σ => by
    cases h : r.idx? with
    | none => simp [clearS, h, reachesS_none _ h]
    | some i =>
      by_cases hi : i = rest.length
      · subst hi
        simp only [clearS, h, if_true]
        rw [foldl_clear rest (clearS_spec rest)]
        funext j
        rw [reachesS_cons_eq n rest h]
        by_cases hji : j = rest.length
        · subst hji; simp
        · have : (j == rest.length) = false := by simp [hji]
          simp [this, Scr.set_other _ _ hji]
      · simp only [clearS, h, hi, if_false]
        rw [clearS_spec rest r σ]
        funext j
        rw [reachesS_cons_ne n rest h hi]

/-- `SddPtr::fold` -/
theorem foldS_spec (t : Tag) (A : SAlg (U t)) (s : SStore) (r : SRef) (σ : Scr U)
    (h : PreOn t A s (reachesS s r) σ) :
    foldS t A s r σ = (valS A s r, fun j => if reachesS s r j then .empty else σ j) := by
  obtain ⟨hv, _, hf⟩ := foldDagS_spec t A s r σ h
  simp only [foldS, hv, clearS_spec]
  congr 1
  funext j
  cases hj : reachesS s r j with
  | true => simp
  | false => simp [hf j hj]

/-! ## `count_h` -/

/-- `count_h` over a list of children, accumulating -/
def walkKids (rest : SStore) : List SRef → Nat × Scr U → Nat × Scr U
  | [], acc => acc
  | k :: ks, acc =>
    let a := countHS rest k acc.2
    walkKids rest ks (acc.1 + a.1, a.2)

theorem walkKids_shift (rest : SStore) : ∀ (ks : List SRef) (c d : Nat) (σ : Scr U),
    walkKids rest ks (c + d, σ) = ((walkKids rest ks (c, σ)).1 + d, (walkKids rest ks (c, σ)).2)
  | [], _, _, _ => rfl
  | k :: ks, c, d, σ => by
    simp only [walkKids]
    rw [show c + d + (countHS rest k σ).1 = c + (countHS rest k σ).1 + d by omega]
    exact walkKids_shift rest ks _ d _

theorem foldl_count_eq_walk (rest : SStore) : ∀ (es : List (SRef × SRef)) (acc : Nat × Scr U),
    es.foldl (fun (acc : Nat × Scr U) e =>
        let a := countHS rest e.2 acc.2
        let b := countHS rest e.1 a.2
        (acc.1 + a.1 + b.1 + 1, b.2)) acc =
      ((walkKids rest (es.flatMap fun e => [e.2, e.1]) acc).1 + es.length,
       (walkKids rest (es.flatMap fun e => [e.2, e.1]) acc).2)
  | [], acc => rfl
  | e :: es, acc => by
    rw [List.foldl_cons, foldl_count_eq_walk rest es]
    simp only [List.flatMap_cons, List.cons_append, List.nil_append, walkKids, List.length_cons]
    rw [walkKids_shift rest _ _ 1]
    simp only
    refine Prod.ext ?_ rfl
    simp only; omega

/-- the node case of `count_h`, both node kinds, through `walkKids` -/
theorem countHS_node (n : SNode) (rest : SStore) {r : SRef} (h : r.idx? = some rest.length) (σ : Scr U)
    (hu : (σ rest.length).asCount = none) :
    countHS (n :: rest) r σ =
      ((walkKids rest n.kidsCount (0, σ.set rest.length (.count 0))).1 + n.weight,
       (walkKids rest n.kidsCount (0, σ.set rest.length (.count 0))).2) := by
  simp only [countHS, h, if_true, hu]
  cases n with
  | bdd l lo hi =>
    simp only [SNode.kidsCount, walkKids, SNode.weight]
    refine Prod.ext ?_ rfl
    simp only; omega
  | or es => simp only [foldl_count_eq_walk, SNode.kidsCount, SNode.weight]

theorem sum_map_add3 {f g1 g2 g3 : Nat → Nat} : ∀ (l : List Nat),
    (∀ j ∈ l, f j = g1 j + g2 j + g3 j) →
    (l.map f).sum = (l.map g1).sum + (l.map g2).sum + (l.map g3).sum
  | [], _ => rfl
  | x :: l, h => by
    have ih := sum_map_add3 l (fun j hj => h j (List.mem_cons_of_mem _ hj))
    have hx := h x (List.mem_cons_self ..)
    simp only [List.map_cons, List.sum_cons, ih, hx]; omega

theorem sum_map_zero (l : List Nat) : (l.map fun _ => 0).sum = 0 := by
  induction l with
  | nil => rfl
  | cons x l ih => simp [ih]

theorem sum_beq_range (i : Nat) (wt : Nat) : ∀ N,
    ((List.range N).map fun j => if j = i then wt else 0).sum = if i < N then wt else 0
  | 0 => by simp
  | N + 1 => by
    rw [List.range_succ, List.map_append, List.sum_append, sum_beq_range i wt N]
    by_cases h1 : i < N
    · have : ¬ N = i := by omega
      simp [h1, this]; omega
    · by_cases h2 : N = i
      · subst h2; simp
      · have : ¬ i < N + 1 := by omega
        simp [h1, h2, this]

/-- "not yet counted" -/
def um (σ : Scr U) (j : Nat) : Bool := (σ j).asCount.isNone

/-- below a counted node of `R` everything is counted -/
def ClosedS (s : SStore) (R : Nat → Bool) (σ : Scr U) : Prop :=
  ∀ j, R j = true → um σ j = false → ∀ k, reachesS s (.reg j) k = true → um σ k = false

theorem um_mark_pos (p : Nat → Bool) (σ : Scr U) (j : Nat) (h : p j = true) :
    um (fun j => if p j then Cell.count 0 else σ j) j = false := by
  simp only [um]; rw [if_pos h]; rfl

theorem um_mark_neg (p : Nat → Bool) (σ : Scr U) (j : Nat) (h : p j = false) :
    um (fun j => if p j then Cell.count 0 else σ j) j = um σ j := by
  simp only [um]; rw [if_neg (by simp [h])]

theorem um_set_other (σ : Scr U) {i j : Nat} (c : Cell U) (h : j ≠ i) : um (σ.set i c) j = um σ j := by
  simp [um, Scr.set_other _ _ h]

theorem weightAt_cons_ne (n : SNode) (rest : SStore) {j : Nat} (h : j ≠ rest.length) :
    weightAt (n :: rest) j = weightAt rest j := by simp [weightAt, h]

/-- exact behaviour of the children loop, given it for each child -/
theorem walkKids_spec (rest : SStore) (N : Nat)
    (ih : ∀ (k : SRef) (σ : Scr U), ClosedS rest (reachesS rest k) σ →
      countHS rest k σ =
        (((List.range N).map fun j => if reachesS rest k j && um σ j then weightAt rest j else 0).sum,
         fun j => if reachesS rest k j && um σ j then .count 0 else σ j)) :
    ∀ (ks : List SRef) (c : Nat) (σ : Scr U),
    ClosedS rest (fun j => ks.any fun k => reachesS rest k j) σ →
    walkKids rest ks (c, σ) =
      (c + ((List.range N).map fun j =>
          if (ks.any fun k => reachesS rest k j) && um σ j then weightAt rest j else 0).sum,
       fun j => if (ks.any fun k => reachesS rest k j) && um σ j then .count 0 else σ j)
  | [], c, σ, _ => by simp [walkKids, sum_map_zero]
  | k :: ks, c, σ, hcl => by
    have hk := ih k σ (fun j hj hu k' hk' => hcl j (by simp [hj]) hu k' hk')
    simp only [walkKids, hk]
    have hcl2 : ClosedS rest (fun j => ks.any fun k => reachesS rest k j)
        (fun j => if reachesS rest k j && um σ j then .count 0 else σ j) := by
      intro j hj hu k' hk'
      cases hm : (reachesS rest k k' && um σ k') with
      | true => exact um_mark_pos (fun j => reachesS rest k j && um σ j) σ k' hm
      | false =>
        rw [um_mark_neg (fun j => reachesS rest k j && um σ j) σ k' hm]
        cases huk : um σ k' with
        | false => rfl
        | true =>
          exfalso
          have hrk : reachesS rest k k' = false := by simpa [huk] using hm
          cases hmj : (reachesS rest k j && um σ j) with
          | true =>
            simp only [Bool.and_eq_true] at hmj
            have := reachesS_trans rest k j k' hmj.1 hk'
            rw [hrk] at this; cases this
          | false =>
            have huj : um σ j = false := by
              rw [← um_mark_neg (fun j => reachesS rest k j && um σ j) σ j hmj]; exact hu
            have := hcl j (by simp [hj]) huj k' hk'
            rw [huk] at this; cases this
    rw [walkKids_spec rest N ih ks _ _ hcl2]
    have hum : ∀ j, um (fun j => if reachesS rest k j && um σ j then Cell.count 0 else σ j) j =
        (um σ j && !reachesS rest k j) := by
      intro j
      cases hm : (reachesS rest k j && um σ j) with
      | true =>
        rw [um_mark_pos (fun j => reachesS rest k j && um σ j) σ j hm]
        simp only [Bool.and_eq_true] at hm
        simp [hm.1]
      | false =>
        rw [um_mark_neg (fun j => reachesS rest k j && um σ j) σ j hm]
        cases h1 : reachesS rest k j <;> cases h2 : um σ j <;> simp_all
    refine Prod.ext ?_ ?_
    · simp only
      rw [sum_map_add3 (f := fun j =>
            if ((k :: ks).any fun k => reachesS rest k j) && um σ j then weightAt rest j else 0)
          (g1 := fun j => if reachesS rest k j && um σ j then weightAt rest j else 0)
          (g2 := fun j => if (ks.any fun k => reachesS rest k j) &&
              um (fun j => if reachesS rest k j && um σ j then Cell.count 0 else σ j) j
            then weightAt rest j else 0)
          (g3 := fun _ => 0) (List.range N)]
      · rw [sum_map_zero]; omega
      · intro j _
        simp only [hum, List.any_cons]
        by_cases h1 : reachesS rest k j = true <;> by_cases h2 : (ks.any fun k => reachesS rest k j) = true <;>
          by_cases h3 : um σ j = true <;> simp [h1, h2, h3]
    · funext j
      simp only [hum, List.any_cons]
      by_cases h1 : reachesS rest k j = true <;> by_cases h2 : (ks.any fun k => reachesS rest k j) = true <;>
        by_cases h3 : um σ j = true <;> simp [h1, h2, h3]

/-- `count_h`, exactly: counts and marks the reachable nodes not yet counted -/
theorem countHS_spec (N : Nat) : ∀ (s : SStore) (r : SRef) (σ : Scr U), s.length ≤ N →
    ClosedS s (reachesS s r) σ →
    countHS s r σ =
      (((List.range N).map fun j => if reachesS s r j && um σ j then weightAt s j else 0).sum,
       fun j => if reachesS s r j && um σ j then .count 0 else σ j)
  | [], r, σ, _, _ => by simp [countHS, reachesS, sum_map_zero]
  | n :: rest, r, σ, hN, hcl => by
    simp only [List.length_cons] at hN
    cases h : r.idx? with
    | none => simp [countHS, h, reachesS_none _ h, sum_map_zero]
    | some i =>
      by_cases hi : i = rest.length
      · subst hi
        have hreach : ∀ j, reachesS (n :: rest) r j =
            (j == rest.length || n.kidsCount.any (fun k => reachesS rest k j)) := fun j => by
          rw [reachesS_cons_eq n rest h, kidsCount_any_eq_kids_any]
        cases hu : (σ rest.length).asCount with
        | some c =>
          have hui : um σ rest.length = false := by simp [um, hu]
          have hall : ∀ j, (reachesS (n :: rest) r j && um σ j) = false := by
            intro j
            cases hj : reachesS (n :: rest) r j with
            | false => rfl
            | true =>
              simp only [Bool.true_and]
              refine hcl _ (reachesS_self n rest h) hui j ?_
              rw [← hj]; exact reachesS_congr (by rw [h]; rfl) _ _
          simp [countHS, h, hu, hall, sum_map_zero]
        | none =>
          have hui : um σ rest.length = true := by simp [um, hu]
          rw [countHS_node n rest h σ hu]
          have hlt : ∀ j, (n.kidsCount.any fun k => reachesS rest k j) = true → j < rest.length := by
            intro j hj
            simp only [List.any_eq_true] at hj
            obtain ⟨k, _, hk⟩ := hj
            exact reachesS_lt _ _ _ hk
          have hcl1 : ClosedS rest (fun j => n.kidsCount.any fun k => reachesS rest k j)
              (σ.set rest.length (.count 0)) := by
            intro j hj huj k hk
            have hjl := hlt j hj
            have hkl := reachesS_lt _ _ _ hk
            rw [um_set_other _ _ (by omega)] at huj ⊢
            refine hcl j (by rw [hreach]; simp [hj]) huj k ?_
            rw [reachesS_cons_ne n rest (r := .reg j) rfl (by omega)]; exact hk
          rw [walkKids_spec rest N (fun k σ hk => countHS_spec N rest k σ (by omega) hk)
            n.kidsCount 0 _ hcl1]
          have hnot : (n.kidsCount.any fun k => reachesS rest k rest.length) = false := by
            cases hh : (n.kidsCount.any fun k => reachesS rest k rest.length) with
            | false => rfl
            | true => have := hlt _ hh; omega
          refine Prod.ext ?_ ?_
          · simp only
            rw [sum_map_add3 (f := fun j =>
                  if reachesS (n :: rest) r j && um σ j then weightAt (n :: rest) j else 0)
                (g1 := fun j => if j = rest.length then n.weight else 0)
                (g2 := fun j => if (n.kidsCount.any fun k => reachesS rest k j) &&
                    um (σ.set rest.length (.count 0)) j then weightAt rest j else 0)
                (g3 := fun _ => 0) (List.range N)]
            · rw [sum_beq_range, if_pos (by omega), sum_map_zero]; omega
            · intro j _
              simp only [hreach]
              by_cases hji : j = rest.length
              · subst hji
                simp [hnot, hui, weightAt]
              · have : (j == rest.length) = false := by simp [hji]
                simp only [this, Bool.false_or, um_set_other σ _ hji, weightAt_cons_ne n rest hji, if_neg hji]
                omega
          · funext j
            simp only [hreach]
            by_cases hji : j = rest.length
            · subst hji
              simp [hnot, hui]
            · have : (j == rest.length) = false := by simp [hji]
              simp only [this, Bool.false_or, um_set_other σ _ hji, Scr.set_other σ _ hji]
      · have hstep : countHS (n :: rest) r σ = countHS rest r σ := by simp [countHS, h, hi]
        rw [hstep, countHS_spec N rest r σ (by omega) (by
          intro j hj huj k hk
          have hjl := reachesS_lt _ _ _ hj
          refine hcl j (by rw [reachesS_cons_ne n rest h hi]; exact hj) huj k ?_
          rw [reachesS_cons_ne n rest (r := .reg j) rfl (by omega)]; exact hk)]
        refine Prod.ext ?_ ?_
        · simp only [reachesS_cons_ne n rest h hi]
          congr 1
          apply List.map_congr_left
          intro j _
          by_cases hr : reachesS rest r j = true
          · have := reachesS_lt _ _ _ hr
            rw [weightAt_cons_ne n rest (by omega)]
          · simp [hr]
        · simp only [reachesS_cons_ne n rest h hi]

/-- `SddPtr::count_nodes` -/
theorem countNodesS_spec (s : SStore) (r : SRef) (σ : Scr U)
    (h : ∀ j, reachesS s r j = true → (σ j).asCount = none) :
    countNodesS s r σ = (countSpecS s r, fun j => if reachesS s r j then .empty else σ j) := by
  have hu : ∀ j, (reachesS s r j && um σ j) = reachesS s r j := by
    intro j
    cases hj : reachesS s r j with
    | false => rfl
    | true => simp [um, h j hj]
  simp only [countNodesS, clearS_spec]
  rw [countHS_spec s.length s r σ (Nat.le_refl _) (fun j hj huj => by
    simp [um, h j hj] at huj)]
  simp only [hu]
  refine Prod.ext rfl ?_
  funext j
  by_cases hj : reachesS s r j = true <;> simp [hj]

/-! ## sequences -/

def ClearOnS (s : SStore) (r : SRef) (σ : Scr U) : Prop := ∀ j, reachesS s r j = true → σ j = .empty

theorem emptiedS_of_clearOn {s : SStore} {r : SRef} {σ : Scr U} (h : ClearOnS s r σ) :
    (fun j => if reachesS s r j then Cell.empty else σ j) = σ := by
  funext j
  by_cases hj : reachesS s r j = true
  · simp [hj, h j hj]
  · simp [hj]

theorem preOn_of_noPair {t : Tag} {A : SAlg (U t)} {s : SStore} {σ : Scr U} {R : Nat → Bool}
    (h : ∀ j, R j = true → (σ j).asPair t = none) : PreOn t A s R σ := by
  intro j hj a b hab; rw [h j hj] at hab; cases hab

/-- the scratch-free reading of an SDD query -/
def specQueryS (s : SStore) (r : SRef) : QueryS U → Answer U
  | .fold t A => .val t (valS A s r)
  | .countNodes => .num (countSpecS s r)

theorem runQueryS_spec (s : SStore) (r : SRef) (q : QueryS U) :
    runQueryS s Scr.clear r q = (specQueryS s r q, Scr.clear) := by
  have hc : ClearOnS s r (Scr.clear (U := U)) := fun _ _ => rfl
  cases q with
  | fold t A =>
    simp only [runQueryS, specQueryS]
    rw [foldS_spec t A s r _ (preOn_of_noPair (fun _ _ => rfl)), emptiedS_of_clearOn hc]
  | countNodes =>
    simp only [runQueryS, specQueryS]
    rw [countNodesS_spec s r _ (fun _ _ => rfl), emptiedS_of_clearOn hc]

theorem runQueriesS_spec (s : SStore) : ∀ (qs : List (SRef × QueryS U)),
    runQueriesS s Scr.clear qs = (qs.map fun p => specQueryS s p.1 p.2, Scr.clear)
  | [] => rfl
  | (r, q) :: qs => by
    simp only [runQueriesS, runQueryS_spec, runQueriesS_spec s qs, List.map_cons]

end cells

end ScratchSdd
