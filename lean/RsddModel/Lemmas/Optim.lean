import RsddModel.Model.Optim
import RsddModel.Spec.Optim
import RsddModel.Lemmas.Wmc
import RsddModel.Lemmas.Semirings
/-!
# Lemmas: marginal MAP, MEU and the generic branch and bound (C12)

1. partial models (`PM.get_set`, …) and the product of the assigned literal weights;
2. the generic relaxed fold `relax` (all three evaluators are instances), `relax_step`:
   assigning a join variable can only lower the bound, hence `ub_sound`;
3. `relax_sum_wsum` / `relax_sum_pathCount`: with every join variable assigned the fold is the
   weighted sum (normalised weights, free diagram) resp. the path count (reduced ordered diagram,
   non-normalised variables below every assigned one) of the restricted function;
4. `bnb_opt`: the strict-improvement search shared by `marginal_map_h` and `meu_h`;
5. `bbH_opt`: the search of `bb_h`.
-/
namespace Optim
open Bdd Spec Sem

variable {α : Type}

/-! ## partial models -/

@[simp] theorem PM.length_set (m : PM) (x : Nat) (b : Bool) : (m.set x b).vals.length = m.vals.length := by
  simp [PM.set]

theorem PM.get_set (m : PM) (x y : Nat) (b : Bool) (hx : x < m.vals.length) :
    (m.set x b).get y = if y = x then some b else m.get y := by
  simp only [PM.get, PM.set, List.getD_eq_getElem?_getD, List.getElem?_set]
  by_cases h : y = x
  · subst h; simp [hx]
  · have h' : ¬ x = y := fun e => h e.symm
    simp [h, h']

theorem PM.get_set_same (m : PM) (x : Nat) (b : Bool) (hx : x < m.vals.length) :
    (m.set x b).get x = some b := by rw [PM.get_set m x x b hx]; simp

theorem PM.get_set_other (m : PM) {x y : Nat} (b : Bool) (h : y ≠ x) : (m.set x b).get y = m.get y := by
  have h' : ¬ x = y := fun e => h e.symm
  simp [PM.get, PM.set, List.getD_eq_getElem?_getD, h']

theorem PM.get_some_lt {m : PM} {x : Nat} {b : Bool} (h : m.get x = some b) : x < m.vals.length := by
  apply Classical.byContradiction
  intro hn
  have : m.vals[x]? = none := List.getElem?_eq_none (by omega)
  simp [PM.get, List.getD_eq_getElem?_getD, this] at h

theorem PM.set_eq_self {m : PM} {x : Nat} {b : Bool} (h : m.get x = some b) : m.set x b = m := by
  have hx := PM.get_some_lt h
  have hb : m.vals[x] = some b := by
    simp only [PM.get, List.getD_eq_getElem?_getD, List.getElem?_eq_getElem hx] at h
    simpa using h
  cases m with
  | mk vals =>
    simp only [PM.set, PM.mk.injEq]
    simp only at hb hx
    rw [← hb]; exact List.set_getElem_self hx

theorem PM.ext_get {m m' : PM} (hl : m.vals.length = m'.vals.length) (h : ∀ x, m.get x = m'.get x) :
    m = m' := by
  cases m with
  | mk v =>
    cases m' with
    | mk v' =>
      simp only [PM.mk.injEq]
      apply List.ext_getElem?
      intro i
      have hi := h i
      simp only [PM.get, List.getD_eq_getElem?_getD] at hi hl
      by_cases hlt : i < v.length
      · have hlt' : i < v'.length := by omega
        rw [List.getElem?_eq_getElem hlt, List.getElem?_eq_getElem hlt'] at hi ⊢
        simpa using hi
      · rw [List.getElem?_eq_none (by omega), List.getElem?_eq_none (by omega)]

theorem PM.get_new (n x : Nat) : (PM.new n).get x = none := by
  simp only [PM.get, PM.new, List.getD_eq_getElem?_getD, List.getElem?_replicate]
  split <;> rfl

@[simp] theorem PM.length_new (n : Nat) : (PM.new n).vals.length = n := by simp [PM.new]

/-- the query assignment a partial model encodes (unset reads as `false`) -/
def PM.toAssign (m : PM) : Assign := fun x => m.get x == some true

/-- `complete m Q q`: set the variables of `Q`, left to right, to their value in `q` -/
def complete (m : PM) : List Nat → Assign → PM
  | [], _ => m
  | x :: Q, q => complete (m.set x (q x)) Q q

/-- `q` agrees with what `m` already assigns among `Q` -/
def Consistent (m : PM) (Q : List Nat) (q : Assign) : Prop :=
  ∀ x ∈ Q, ∀ b, m.get x = some b → q x = b

/-- `m'` extends `m` by assigning exactly the variables of `Q` (re-assigning those already set) -/
def Completes (m : PM) (Q : List Nat) (m' : PM) : Prop :=
  m'.vals.length = m.vals.length ∧ ∀ y, (y ∈ Q → m'.get y ≠ none) ∧ (y ∉ Q → m'.get y = m.get y)

@[simp] theorem length_complete (q : Assign) : ∀ (Q : List Nat) (m : PM),
    (complete m Q q).vals.length = m.vals.length
  | [], _ => rfl
  | x :: Q, m => by rw [complete, length_complete q Q, PM.length_set]

theorem Consistent.step {m : PM} {x : Nat} {Q : List Nat} {q : Assign} (h : Consistent m (x :: Q) q)
    (hx : x < m.vals.length) : Consistent (m.set x (q x)) Q q := by
  intro y hy b hb
  by_cases hyx : y = x
  · subst hyx; rw [PM.get_set_same m y _ hx] at hb; exact Option.some.inj hb
  · rw [PM.get_set_other m _ hyx] at hb
    exact h y (List.mem_cons_of_mem _ hy) b hb

theorem Completes.refl (m : PM) : Completes m [] m :=
  ⟨rfl, fun _ => ⟨fun h => by simp at h, fun _ => rfl⟩⟩

theorem Completes.step {m m' : PM} {x : Nat} {b : Bool} {Q : List Nat} (hx : x < m.vals.length)
    (h : Completes (m.set x b) Q m') : Completes m (x :: Q) m' := by
  refine ⟨by rw [h.1, PM.length_set], fun y => ⟨?_, ?_⟩⟩
  · intro hy
    by_cases hyQ : y ∈ Q
    · exact (h.2 y).1 hyQ
    · have hyx : y = x := by
        rcases List.mem_cons.mp hy with e | e
        · exact e
        · exact absurd e hyQ
      rw [(h.2 y).2 hyQ, hyx, PM.get_set_same m x b hx]; simp
  · intro hy
    simp only [List.mem_cons, not_or] at hy
    rw [(h.2 y).2 hy.2, PM.get_set_other m b hy.1]

/-- what a completion assigns -/
theorem get_complete (q : Assign) : ∀ (Q : List Nat) (m : PM), (∀ x ∈ Q, x < m.vals.length) →
    ∀ y, (complete m Q q).get y = if y ∈ Q then some (q y) else m.get y
  | [], m, _, y => by simp [complete]
  | x :: Q, m, hQ, y => by
    have hx := hQ x List.mem_cons_self
    rw [complete, get_complete q Q (m.set x (q x))
      (fun z hz => by rw [PM.length_set]; exact hQ z (List.mem_cons_of_mem _ hz))]
    by_cases hyQ : y ∈ Q
    · simp [hyQ]
    · by_cases hyx : y = x
      · subst hyx; simp [hyQ, PM.get_set_same m y _ hx]
      · simp [hyQ, hyx, PM.get_set_other m _ hyx]

theorem completes_complete (q : Assign) (Q : List Nat) (m : PM) (hQ : ∀ x ∈ Q, x < m.vals.length) :
    Completes m Q (complete m Q q) := by
  refine ⟨length_complete q Q m, fun y => ⟨fun hy => ?_, fun hy => ?_⟩⟩
  · rw [get_complete q Q m hQ, if_pos hy]; simp
  · rw [get_complete q Q m hQ, if_neg hy]

/-- a model that completes `m` over `Q` is the completion of `m` by its own reading -/
theorem completes_eq {m m' : PM} {Q : List Nat} (hQ : ∀ x ∈ Q, x < m.vals.length)
    (h : Completes m Q m') : m' = complete m Q m'.toAssign := by
  apply PM.ext_get
  · rw [length_complete, h.1]
  · intro y
    rw [get_complete _ Q _ hQ]
    by_cases hy : y ∈ Q
    · have := (h.2 y).1 hy
      simp only [hy, if_true, PM.toAssign]
      cases hg : m'.get y with
      | none => exact absurd hg this
      | some b => cases b <;> simp
    · rw [if_neg hy]; exact (h.2 y).2 hy

/-- a model that assigns exactly `Q` is the completion of the empty model by its own reading -/
theorem completes_new_eq {n : Nat} {Q : List Nat} {m : PM} (hQ : ∀ x ∈ Q, x < n)
    (h : Completes (PM.new n) Q m) : m = complete (PM.new n) Q m.toAssign :=
  completes_eq (by simpa using hQ) h

theorem fromLitvec_nil (n : Nat) : PM.fromLitvec [] n = PM.new n := rfl

theorem fromLitvec_map_true (n : Nat) (Q : List Nat) :
    PM.fromLitvec (Q.map fun x => (x, true)) n = complete (PM.new n) Q (fun _ => true) := by
  unfold PM.fromLitvec
  generalize PM.new n = m
  induction Q generalizing m with
  | nil => rfl
  | cons x Q ih => simp only [List.map_cons, List.foldl_cons, complete]; exact ih _

/-! ## the product of the assigned literal weights -/

/-- `for lit in assignment_iter() { v = v * weight(lit) }` -/
def litFold (S : SROps α) (w : Weights α) (v : α) (lits : List (Nat × Bool)) : α :=
  lits.foldl (fun v lit => if lit.2 then S.mul v (w lit.1).2 else S.mul v (w lit.1).1) v

/-- the product of the chosen weights of a list of literals -/
def litProdL (S : SROps α) (w : Weights α) : List (Nat × Bool) → α
  | [] => S.one
  | l :: ls => S.mul (wsel w l.1 l.2) (litProdL S w ls)

/-- the product of the weights of the literals a partial model assigns -/
def litProd (S : SROps α) (w : Weights α) (m : PM) : α := litProdL S w m.assignmentIter

variable {S : SROps α}

theorem litFold_eq (hS : S.Laws) (w : Weights α) : ∀ (lits : List (Nat × Bool)) (v : α),
    litFold S w v lits = S.mul v (litProdL S w lits)
  | [], v => by simp [litFold, litProdL, hS.mul_one]
  | l :: ls, v => by
    have ih := litFold_eq hS w ls
    simp only [litFold, List.foldl_cons, litProdL] at ih ⊢
    cases hl : l.2 <;> simp only [Bool.false_eq_true, if_false, if_true, ih, wsel, hS.mul_assoc]

theorem litProdL_append (hS : S.Laws) (w : Weights α) : ∀ (l l' : List (Nat × Bool)),
    litProdL S w (l ++ l') = S.mul (litProdL S w l) (litProdL S w l')
  | [], l' => by simp [litProdL, Bdd.sr_one_mul hS]
  | x :: l, l' => by simp only [List.cons_append, litProdL, litProdL_append hS w l l', hS.mul_assoc]

/-- setting an unset entry inserts one literal of that polarity -/
theorem litsOf_set (hS : S.Laws) (w : Weights α) (pol b : Bool) : ∀ (vals : List (Option Bool)) (i x : Nat),
    x < vals.length → vals.getD x none = none →
    litProdL S w (litsOf pol i (vals.set x (some b))) =
      if b = pol then S.mul (wsel w (i + x) pol) (litProdL S w (litsOf pol i vals))
      else litProdL S w (litsOf pol i vals)
  | [], _, _, hx, _ => by simp at hx
  | o :: rest, i, 0, _, h0 => by
    simp only [List.getD_cons_zero] at h0
    subst h0
    simp only [List.set_cons_zero, litsOf, Nat.add_zero]
    by_cases hb : b = pol
    · subst hb; simp [litProdL]
    · have : ¬ (some b = some pol) := fun e => hb (Option.some.inj e)
      simp [hb]
  | o :: rest, i, x + 1, hx, h0 => by
    simp only [List.getD_cons_succ] at h0
    simp only [List.length_cons, Nat.add_lt_add_iff_right] at hx
    have ih := litsOf_set hS w pol b rest (i + 1) x hx h0
    have e : i + 1 + x = i + (x + 1) := by omega
    simp only [List.set_cons_succ, litsOf]
    by_cases ho : o = some pol
    · simp only [ho, if_true, litProdL, ih, e]
      split
      · exact Bdd.sr_mul_left_comm hS _ _ _
      · rfl
    · simp only [ho, if_false, ih, e]

/-- **the weight product after assigning a fresh variable** -/
theorem litProd_set (hS : S.Laws) (w : Weights α) (m : PM) (x : Nat) (b : Bool)
    (hx : x < m.vals.length) (hm : m.get x = none) :
    litProd S w (m.set x b) = S.mul (wsel w x b) (litProd S w m) := by
  simp only [litProd, PM.assignmentIter, PM.set, litProdL_append hS]
  rw [litsOf_set hS w false b m.vals 0 x hx hm, litsOf_set hS w true b m.vals 0 x hx hm]
  cases b
  · simp [hS.mul_assoc]
  · simp [Bdd.sr_mul_left_comm hS]

/-- the literal weights of a completion: each distinct variable of `Q` once -/
theorem litProd_complete (hS : S.Laws) (w : Weights α) (q : Assign) : ∀ (Q seen : List Nat) (m : PM),
    (∀ x ∈ Q, x < m.vals.length) → (∀ x, x ∈ seen ↔ m.get x ≠ none) →
    (∀ x b, m.get x = some b → q x = b) →
    litProd S w (complete m Q q) = S.mul (litProd S w m) (qWeight S w q Q seen)
  | [], _, m, _, _, _ => by simp [complete, qWeight, hS.mul_one]
  | x :: Q, seen, m, hQ, hseen, hq => by
    have hx := hQ x List.mem_cons_self
    have hQ' : ∀ z ∈ Q, z < m.vals.length := fun z hz => hQ z (List.mem_cons_of_mem _ hz)
    by_cases hxs : x ∈ seen
    · have hne := (hseen x).mp hxs
      obtain ⟨b, hb⟩ : ∃ b, m.get x = some b := by
        cases hg : m.get x with
        | none => exact absurd hg hne
        | some b => exact ⟨b, rfl⟩
      have hqx := hq x b hb
      have hset : m.set x (q x) = m := by rw [hqx]; exact PM.set_eq_self hb
      have hc : seen.contains x = true := by simpa using hxs
      rw [complete, hset, qWeight, if_pos hc]
      exact litProd_complete hS w q Q seen m hQ' hseen hq
    · have hnone : m.get x = none := by
        apply Classical.byContradiction; intro hne; exact hxs ((hseen x).mpr hne)
      have hc : ¬ seen.contains x = true := by simpa using hxs
      rw [complete, qWeight, if_neg hc,
        litProd_complete hS w q Q (x :: seen) (m.set x (q x))
          (fun z hz => by rw [PM.length_set]; exact hQ' z hz) ?_ ?_,
        litProd_set hS w m x (q x) hx hnone]
      · rw [hS.mul_comm (wsel w x (q x)), hS.mul_assoc]
      · intro z
        by_cases hzx : z = x
        · subst hzx; simp [PM.get_set_same m z _ hx]
        · rw [PM.get_set_other m _ hzx, List.mem_cons, ← hseen z]; simp [hzx]
      · intro z b hz
        by_cases hzx : z = x
        · subst hzx; rw [PM.get_set_same m z _ hx] at hz; exact Option.some.inj hz
        · rw [PM.get_set_other m _ hzx] at hz; exact hq z b hz

/-! ## the generic relaxed fold -/

/-- the closure passed to `bdd_fold` by `bb_ub` (and, for `RealSemiring`, by
`marginal_map_eval`) -/
def nodeFn (B : BBOps α) (w : Weights α) (m : PM) (bits : List Nat) (x : Nat) (low high : α) : α :=
  match m.get x with
  | none =>
    if bits.contains x then B.join (B.mul (w x).1 low) (B.mul (w x).2 high)
    else B.add (B.mul (w x).1 low) (B.mul (w x).2 high)
  | some true => high
  | some false => low

def relax (B : BBOps α) (w : Weights α) (m : PM) (bits : List Nat) (p : Ptr) (n : Bool) : α :=
  bddFold (nodeFn B w m bits) B.zero B.one p n

theorem bddFold_congr {T : Type} {f g : Nat → T → T → T} (l h : T) : ∀ (p : Ptr) (n : Bool),
    (∀ v ∈ p.vars, ∀ a b, f v a b = g v a b) → bddFold f l h p n = bddFold g l h p n
  | .tru, _, _ => rfl
  | .fls, _, _ => rfl
  | .node c v lo hi, n, hfg => by
    simp only [bddFold]
    rw [bddFold_congr l h lo _ (fun u hu => hfg u (List.mem_cons_of_mem _ (List.mem_append_left _ hu))),
        bddFold_congr l h hi _ (fun u hu => hfg u (List.mem_cons_of_mem _ (List.mem_append_right _ hu))),
        hfg v List.mem_cons_self]

theorem contains_cons_ne (bits : List Nat) {x v : Nat} (h : v ≠ x) :
    (x :: bits).contains v = bits.contains v := by simp [h]

theorem nodeFn_set_other (B : BBOps α) (w : Weights α) (m : PM) (bits : List Nat) {x v : Nat} (b : Bool)
    (h : v ≠ x) (lo hi : α) :
    nodeFn B w (m.set x b) bits v lo hi = nodeFn B w m (x :: bits) v lo hi := by
  simp only [nodeFn, PM.get_set_other m b h, contains_cons_ne bits h]

theorem nodeFn_assigned (B : BBOps α) (w : Weights α) (m : PM) (bits bits' : List Nat) {v : Nat} {b : Bool}
    (h : m.get v = some b) (lo hi : α) : nodeFn B w m bits v lo hi = nodeFn B w m bits' v lo hi := by
  cases b <;> simp only [nodeFn, h]

/-- bit sets are irrelevant at assigned variables -/
theorem relax_cons_assigned (B : BBOps α) (w : Weights α) (m : PM) (bits : List Nat) {x : Nat} {b : Bool}
    (h : m.get x = some b) (p : Ptr) (n : Bool) : relax B w m (x :: bits) p n = relax B w m bits p n := by
  apply bddFold_congr
  intro v _ lo hi
  by_cases hv : v = x
  · subst hv; exact nodeFn_assigned B w m _ _ h lo hi
  · simp only [nodeFn, contains_cons_ne bits hv]

/-! ## order laws -/

/-- What the bounding argument needs of a `BBSemiring`: a commutative semiring, a preorder `R`
("is bounded by") that `+`, `*` by a non-negative element and `join` respect, and `join` an
upper bound. -/
structure BBLaws (B : BBOps α) (R : α → α → Prop) : Prop where
  sr : B.toSROps.Laws
  refl : ∀ a, R a a
  trans : ∀ {a b c}, R a b → R b c → R a c
  zero_le_one : R B.zero B.one
  add_mono : ∀ {a b c d}, R a b → R c d → R (B.add a c) (B.add b d)
  mul_mono : ∀ {c a b}, R B.zero c → R a b → R (B.mul c a) (B.mul c b)
  join_left : ∀ a b, R a (B.join a b)
  join_right : ∀ a b, R b (B.join a b)
  join_mono : ∀ {a b c d}, R a b → R c d → R (B.join a c) (B.join b d)

/-- a weight that may sit on a join variable: at most one, and multiplying by it commutes with
`join` up to `R` (every non-negative real; the unit of the expected-utility semiring) -/
structure JoinWeight (B : BBOps α) (R : α → α → Prop) (k : α) : Prop where
  nonneg : R B.zero k
  le_one : R k B.one
  distrib : ∀ a c, R (B.mul k (B.join a c)) (B.join (B.mul k a) (B.mul k c))

variable {B : BBOps α} {R : α → α → Prop}

theorem BBLaws.mul_nonneg (L : BBLaws B R) {a b : α} (ha : R B.zero a) (hb : R B.zero b) :
    R B.zero (B.mul a b) := by
  have := L.mul_mono ha hb
  rwa [L.sr.mul_zero] at this

theorem litProdL_nonneg (L : BBLaws B R) (w : Weights α)
    (hw : ∀ v, R B.zero (w v).1 ∧ R B.zero (w v).2) : ∀ (l : List (Nat × Bool)),
    R B.zero (litProdL B.toSROps w l)
  | [] => L.zero_le_one
  | x :: l => by
    refine L.mul_nonneg ?_ (litProdL_nonneg L w hw l)
    simp only [wsel]; split
    · exact (hw _).2
    · exact (hw _).1

/-- **assigning a join variable lowers the bound**: `k · relax(m[x:=b], bits) ≼ relax(m, x::bits)`
with `k` the weight of the chosen literal -/
theorem relax_step (L : BBLaws B R) (w : Weights α) (hw : ∀ v, R B.zero (w v).1 ∧ R B.zero (w v).2)
    (m : PM) (x : Nat) (b : Bool) (bits : List Nat) (hx : x < m.vals.length) (hmx : m.get x = none)
    (hk : JoinWeight B R (wsel w x b)) : ∀ (p : Ptr) (n : Bool), p.free →
    R (B.mul (wsel w x b) (relax B w (m.set x b) bits p n)) (relax B w m (x :: bits) p n)
  | .tru, n, _ => by
    cases n
    · simp only [relax, bddFold, Bool.false_eq_true, if_false]
      have := hk.le_one; rwa [← L.sr.mul_one (wsel w x b)] at this
    · simp only [relax, bddFold, if_true]; rw [L.sr.mul_zero]; exact L.refl _
  | .fls, n, _ => by
    cases n
    · simp only [relax, bddFold, Bool.false_eq_true, if_false]; rw [L.sr.mul_zero]; exact L.refl _
    · simp only [relax, bddFold, if_true]
      have := hk.le_one; rwa [← L.sr.mul_one (wsel w x b)] at this
  | .node c v lo hi, n, hf => by
    obtain ⟨hvlo, hvhi, hflo, hfhi⟩ := hf
    have ihlo := relax_step L w hw m x b bits hx hmx hk lo (xor n c) hflo
    have ihhi := relax_step L w hw m x b bits hx hmx hk hi (xor n c) hfhi
    simp only [relax, bddFold] at ihlo ihhi ⊢
    by_cases hvx : v = x
    · subst hvx
      -- below a node on `x` the two folds agree
      have elo : bddFold (nodeFn B w (m.set v b) bits) B.zero B.one lo (xor n c) =
          bddFold (nodeFn B w m (v :: bits)) B.zero B.one lo (xor n c) :=
        bddFold_congr _ _ lo _ (fun u hu lo' hi' =>
          nodeFn_set_other B w m bits b (fun e : u = v => hvlo (e ▸ hu)) lo' hi')
      have ehi : bddFold (nodeFn B w (m.set v b) bits) B.zero B.one hi (xor n c) =
          bddFold (nodeFn B w m (v :: bits)) B.zero B.one hi (xor n c) :=
        bddFold_congr _ _ hi _ (fun u hu lo' hi' =>
          nodeFn_set_other B w m bits b (fun e : u = v => hvhi (e ▸ hu)) lo' hi')
      have hc : (v :: bits).contains v = true := by simp
      rw [nodeFn, PM.get_set_same m v b hx, nodeFn, hmx]
      simp only [hc, if_true]
      cases b
      · simp only [wsel, Bool.false_eq_true, if_false, elo]; exact L.join_left _ _
      · simp only [wsel, if_true, ehi]; exact L.join_right _ _
    · rw [nodeFn_set_other B w m bits b hvx]
      generalize bddFold (nodeFn B w (m.set x b) bits) B.zero B.one lo (xor n c) = l' at ihlo ⊢
      generalize bddFold (nodeFn B w (m.set x b) bits) B.zero B.one hi (xor n c) = h' at ihhi ⊢
      generalize bddFold (nodeFn B w m (x :: bits)) B.zero B.one lo (xor n c) = l at ihlo ⊢
      generalize bddFold (nodeFn B w m (x :: bits)) B.zero B.one hi (xor n c) = h at ihhi ⊢
      simp only [nodeFn]
      cases hg : m.get v with
      | some bv => cases bv <;> simpa using (by assumption)
      | none =>
        simp only
        have e1 : B.mul (wsel w x b) (B.mul (w v).1 l') = B.mul (w v).1 (B.mul (wsel w x b) l') :=
          Bdd.sr_mul_left_comm L.sr _ _ _
        have e2 : B.mul (wsel w x b) (B.mul (w v).2 h') = B.mul (w v).2 (B.mul (wsel w x b) h') :=
          Bdd.sr_mul_left_comm L.sr _ _ _
        have m1 := L.mul_mono (hw v).1 ihlo
        have m2 := L.mul_mono (hw v).2 ihhi
        split
        · refine L.trans (hk.distrib _ _) ?_
          rw [e1, e2]; exact L.join_mono m1 m2
        · rw [L.sr.left_distrib, e1, e2]; exact L.add_mono m1 m2

/-! ## upper bounds -/

theorem bbUb_eq (hS : B.toSROps.Laws) (p : Ptr) (m : PM) (bits : List Nat) (w : Weights α) :
    bbUb B p m bits w = B.mul (litProd B.toSROps w m) (relax B w m bits p false) := by
  show B.mul (litFold B.toSROps w B.one m.assignmentIter) (relax B w m bits p false) = _
  rw [litFold_eq hS, litProd]
  show B.mul (B.mul B.one _) _ = _
  rw [Bdd.sr_one_mul hS]

/-- one branching step, fresh variable: the child's bound is below the parent's -/
theorem ub_step_none (L : BBLaws B R) (w : Weights α) (hw : ∀ v, R B.zero (w v).1 ∧ R B.zero (w v).2)
    (p : Ptr) (hp : p.free) (m : PM) (x : Nat) (b : Bool) (bits : List Nat) (hx : x < m.vals.length)
    (hmx : m.get x = none) (hk : JoinWeight B R (wsel w x b)) :
    R (bbUb B p (m.set x b) bits w) (bbUb B p m (x :: bits) w) := by
  rw [bbUb_eq L.sr, bbUb_eq L.sr, litProd_set L.sr w m x b hx hmx]
  have e : B.mul (B.mul (wsel w x b) (litProd B.toSROps w m)) (relax B w (m.set x b) bits p false) =
      B.mul (litProd B.toSROps w m) (B.mul (wsel w x b) (relax B w (m.set x b) bits p false)) := by
    rw [L.sr.mul_comm (wsel w x b), L.sr.mul_assoc]
  rw [e]
  exact L.mul_mono (litProdL_nonneg L w hw _) (relax_step L w hw m x b bits hx hmx hk p false hp)

/-- one branching step, variable already assigned to that value (a repeated query variable) -/
theorem ub_step_some (p : Ptr) (w : Weights α) (m : PM) (x : Nat) (b : Bool) (bits : List Nat)
    (hmx : m.get x = some b) : bbUb B p (m.set x b) bits w = bbUb B p m (x :: bits) w := by
  rw [PM.set_eq_self hmx]
  show B.mul _ (relax B w m bits p false) = B.mul _ (relax B w m (x :: bits) p false)
  rw [relax_cons_assigned B w m bits hmx]

/-- **`ub_sound`**: the relaxed bound dominates the value of every completion that is consistent
with what is already assigned -/
theorem ub_sound (L : BBLaws B R) (w : Weights α) (hw : ∀ v, R B.zero (w v).1 ∧ R B.zero (w v).2)
    (p : Ptr) (hp : p.free) (q : Assign) : ∀ (Q : List Nat) (m : PM), (∀ x ∈ Q, x < m.vals.length) →
    (∀ x ∈ Q, ∀ b, JoinWeight B R (wsel w x b)) → Consistent m Q q →
    R (bbUb B p (complete m Q q) [] w) (bbUb B p m Q w)
  | [], m, _, _, _ => L.refl _
  | x :: Q, m, hQ, hk, hc => by
    have hx := hQ x List.mem_cons_self
    have ih := ub_sound L w hw p hp q Q (m.set x (q x))
      (fun z hz => by rw [PM.length_set]; exact hQ z (List.mem_cons_of_mem _ hz))
      (fun z hz => hk z (List.mem_cons_of_mem _ hz)) (hc.step hx)
    rw [complete]
    refine L.trans ih ?_
    cases hg : m.get x with
    | none => exact ub_step_none L w hw p hp m x (q x) Q hx hg (hk x List.mem_cons_self _)
    | some b =>
      have hqx : q x = b := hc x List.mem_cons_self b hg
      rw [hqx, ub_step_some p w m x b Q hg]; exact L.refl _

/-! ## complete assignments: the fold is the weighted sum of the restricted function -/

theorem relax_sum_wsum (hS : B.toSROps.Laws) (w : Weights α) (c : PM) : ∀ (p : Ptr) (n : Bool)
    (others : List Nat) (a : Assign), p.free → others.Nodup →
    (∀ v ∈ p.vars, c.get v = none → v ∈ others) → (∀ v ∈ others, c.get v = none) →
    Normalised B.toSROps w others → (∀ x b, c.get x = some b → a x = b) →
    relax B w c [] p n = wsum B.toSROps others w (fun b => xor n (p.eval b)) a
  | .tru, n, others, a, _, _, _, _, hw, _ => by
    simp only [Ptr.eval, wsum_const hS w _ others a hw, relax, bddFold]; cases n <;> rfl
  | .fls, n, others, a, _, _, _, _, hw, _ => by
    simp only [Ptr.eval, wsum_const hS w _ others a hw, relax, bddFold]; cases n <;> rfl
  | .node cf v lo hi, n, others, a, hf, hnd, hsub, hun, hw, hag => by
    obtain ⟨hvlo, hvhi, hflo, hfhi⟩ := hf
    have hsublo : ∀ u ∈ lo.vars, c.get u = none → u ∈ others := fun u hu =>
      hsub u (List.mem_cons_of_mem _ (List.mem_append_left _ hu))
    have hsubhi : ∀ u ∈ hi.vars, c.get u = none → u ∈ others := fun u hu =>
      hsub u (List.mem_cons_of_mem _ (List.mem_append_right _ hu))
    simp only [relax, bddFold]
    cases hg : c.get v with
    | some bv =>
      have hvo : v ∉ others := fun h => by rw [hun v h] at hg; cases hg
      have hav : a v = bv := hag v bv hg
      have key : ∀ (ch : Ptr), wsum B.toSROps others w (fun b => xor (xor n cf) (ch.eval b)) a =
          wsum B.toSROps others w (fun b => xor n (xor cf (ch.eval b))) a := by
        intro ch; apply wsum_congr; intro b; simp
      cases bv
      · have ih := relax_sum_wsum hS w c lo (xor n cf) others a hflo hnd hsublo hun hw hag
        simp only [relax] at ih
        simp only [nodeFn, hg, ih]
        apply wsum_congr'
        intro b hb
        have hbv : b v = false := by rw [hb v hvo, hav]
        simp [Ptr.eval, hbv]
      · have ih := relax_sum_wsum hS w c hi (xor n cf) others a hfhi hnd hsubhi hun hw hag
        simp only [relax] at ih
        simp only [nodeFn, hg, ih]
        apply wsum_congr'
        intro b hb
        have hbv : b v = true := by rw [hb v hvo, hav]
        simp [Ptr.eval, hbv]
    | none =>
      have hv : v ∈ others := hsub v List.mem_cons_self hg
      have hnd' : (others.erase v).Nodup := hnd.erase v
      have hv' : v ∉ others.erase v := fun h => (hnd.mem_erase_iff.mp h).1 rfl
      have hw' : Normalised B.toSROps w (others.erase v) := fun u hu => hw u (List.mem_of_mem_erase hu)
      have hun' : ∀ u ∈ others.erase v, c.get u = none := fun u hu => hun u (List.mem_of_mem_erase hu)
      have hsublo' : ∀ u ∈ lo.vars, c.get u = none → u ∈ others.erase v := fun u hu hcu =>
        (List.mem_erase_of_ne (fun e : u = v => hvlo (e ▸ hu))).mpr (hsublo u hu hcu)
      have hsubhi' : ∀ u ∈ hi.vars, c.get u = none → u ∈ others.erase v := fun u hu hcu =>
        (List.mem_erase_of_ne (fun e : u = v => hvhi (e ▸ hu))).mpr (hsubhi u hu hcu)
      have hag' : ∀ d x b, c.get x = some b → upd a v d x = b := by
        intro d x b hxb
        have hxv : x ≠ v := fun e => by rw [e, hg] at hxb; cases hxb
        rw [upd_other _ _ hxv]; exact hag x b hxb
      have ihlo := relax_sum_wsum hS w c lo (xor n cf) _ (upd a v false) hflo hnd' hsublo' hun' hw' (hag' false)
      have ihhi := relax_sum_wsum hS w c hi (xor n cf) _ (upd a v true) hfhi hnd' hsubhi' hun' hw' (hag' true)
      simp only [relax] at ihlo ihhi
      have hc : ([] : List Nat).contains v = false := by simp
      rw [wsum_perm hS w (List.perm_cons_erase hv)]
      simp only [nodeFn, hg, hc, Bool.false_eq_true, if_false, wsum, ihlo, ihhi]
      have e0 : wsum B.toSROps (others.erase v) w (fun b => xor (xor n cf) (lo.eval b)) (upd a v false) =
          wsum B.toSROps (others.erase v) w (fun b => xor n ((Ptr.node cf v lo hi).eval b)) (upd a v false) := by
        apply wsum_congr'
        intro b hb
        have hbv : b v = false := by rw [hb v hv', upd_same]
        simp [Ptr.eval, hbv]
      have e1 : wsum B.toSROps (others.erase v) w (fun b => xor (xor n cf) (hi.eval b)) (upd a v true) =
          wsum B.toSROps (others.erase v) w (fun b => xor n ((Ptr.node cf v lo hi).eval b)) (upd a v true) := by
        apply wsum_congr'
        intro b hb
        have hbv : b v = true := by rw [hb v hv', upd_same]
        simp [Ptr.eval, hbv]
      rw [e0, e1]

/-! ## the strict-improvement search (`marginal_map_h`, `meu_h`) -/

/-- `marginal_map_h` / `meu_h` with the evaluator `ev` and the compared component `key` abstract -/
def bnbH {β : Type} (key : β → Rat) (ev : PM → List Nat → β) : β → PM → List Nat → PM → β × PM
  | curLb, curBest, [], asg =>
    let pb := ev asg []
    if key pb > key curLb then (pb, asg) else (curLb, curBest)
  | curLb, curBest, x :: rest, asg =>
    let tm := asg.set x true
    let fm := asg.set x false
    let tub := ev tm rest
    let fub := ev fm rest
    let o := if key tub > key fub then (tub, tm, fub, fm) else (fub, fm, tub, tm)
    let s1 := if key o.1 > key curLb then bnbH key ev curLb curBest rest o.2.1 else (curLb, curBest)
    if key o.2.2.1 > key s1.1 then bnbH key ev s1.1 s1.2 rest o.2.2.2 else s1

theorem marginalMapH_eq (p : Ptr) (w : Weights Rat) : ∀ (Q : List Nat) (lb : Rat) (best asg : PM),
    marginalMapH p w lb best Q asg = bnbH id (fun m bits => marginalMapEval p m bits w) lb best Q asg
  | [], _, _, _ => rfl
  | x :: Q, lb, best, asg => by
    simp only [marginalMapH, bnbH, marginalMapH_eq p w Q, id]

theorem meuH_eq (p : Ptr) (w : Weights EU) : ∀ (Q : List Nat) (lb : EU) (best asg : PM),
    meuH p w lb best Q asg = bnbH EU.u (fun m bits => euUb p m bits w) lb best Q asg
  | [], _, _, _ => rfl
  | x :: Q, lb, best, asg => by
    simp only [meuH, bnbH, meuH_eq p w Q]

/-- what the search returns from `(lb, best)` on the query list `Q` below the assignment `asg` -/
structure BnbRes {β : Type} (key : β → Rat) (ev : PM → List Nat → β) (lb : β) (best : PM)
    (Q : List Nat) (asg : PM) (r : β × PM) : Prop where
  /-- never below the incoming bound -/
  ge_lb : key lb ≤ key r.1
  /-- dominates every completion consistent with `asg` -/
  ub : ∀ q, Consistent asg Q q → key (ev (complete asg Q q) []) ≤ key r.1
  /-- unchanged, or a strict improvement attained by the returned completion -/
  att : r = (lb, best) ∨ (key lb < key r.1 ∧ Completes asg Q r.2 ∧ r.1 = ev r.2 [])

section bnb
variable {β : Type} {key : β → Rat} {ev : PM → List Nat → β} {Inv : PM → Prop}

/-- one iteration of the `for` loop, given the result for the shorter list -/
theorem bnb_branch {rest : List Nat}
    (hub : ∀ m q, Inv m → Consistent m rest q →
      key (ev (complete m rest q) []) ≤ key (ev m rest))
    (ih : ∀ lb best asg, Inv asg → BnbRes key ev lb best rest asg (bnbH key ev lb best rest asg))
    (s : β × PM) (mb : PM) (hm : Inv mb) :
    BnbRes key ev s.1 s.2 rest mb
      (if key (ev mb rest) > key s.1 then bnbH key ev s.1 s.2 rest mb else s) := by
  split
  · exact ih s.1 s.2 mb hm
  · rename_i hprune
    refine ⟨by grind, fun q hq => ?_, Or.inl rfl⟩
    have := hub mb q hm hq
    grind

/-- two iterations, first on `x := b1`, then on `x := b2` -/
theorem bnb_two {rest : List Nat} {x : Nat} {asg : PM} (hx : x < asg.vals.length)
    {lb : β} {best : PM} {b1 b2 : Bool} (hb : ∀ b, b = b1 ∨ b = b2) {s1 s2 : β × PM}
    (h1 : BnbRes key ev lb best rest (asg.set x b1) s1)
    (h2 : BnbRes key ev s1.1 s1.2 rest (asg.set x b2) s2) :
    BnbRes key ev lb best (x :: rest) asg s2 := by
  refine ⟨?_, ?_, ?_⟩
  · have := h1.ge_lb; have := h2.ge_lb; grind
  · intro q hq
    rw [complete]
    have hq' := hq.step hx
    rcases hb (q x) with e | e
    · rw [e] at hq' ⊢
      have := h1.ub q hq'; have := h2.ge_lb; grind
    · rw [e] at hq' ⊢
      exact h2.ub q hq'
  · rcases h2.att with e2 | ⟨hlt2, hc2, hv2⟩
    · rcases h1.att with e1 | ⟨hlt1, hc1, hv1⟩
      · left; rw [e2]; exact e1
      · right
        have : s2 = s1 := e2
        rw [this]; exact ⟨hlt1, hc1.step hx, hv1⟩
    · right
      have := h1.ge_lb
      exact ⟨by grind, hc2.step hx, hv2⟩

/-- **`bnb_opt`**: the search returns the larger of the incoming bound and the best value of a
completion (over all completions consistent with the current assignment), with a model attaining it
when it improves on the bound and the incoming model otherwise.  By induction on the query list,
including the strict-improvement pruning. -/
theorem bnb_opt {P : Nat → Prop} (hPN : ∀ m x, Inv m → P x → x < m.vals.length)
    (hInv : ∀ m x b, Inv m → P x → Inv (m.set x b))
    (hub : ∀ bits m q, Inv m → (∀ x ∈ bits, P x) → Consistent m bits q →
      key (ev (complete m bits q) []) ≤ key (ev m bits)) :
    ∀ (Q : List Nat), (∀ x ∈ Q, P x) → ∀ (lb : β) (best asg : PM), Inv asg →
    BnbRes key ev lb best Q asg (bnbH key ev lb best Q asg)
  | [], _, lb, best, asg, _ => by
    simp only [bnbH]
    split
    · rename_i h
      exact ⟨by grind, fun q _ => by simp only [complete]; grind,
        Or.inr ⟨h, Completes.refl asg, rfl⟩⟩
    · rename_i h
      exact ⟨by grind, fun q _ => by simp only [complete]; grind, Or.inl rfl⟩
  | x :: rest, hQ, lb, best, asg, hasg => by
    have hrest : ∀ z ∈ rest, P z := fun z hz => hQ z (List.mem_cons_of_mem _ hz)
    have hx : x < asg.vals.length := hPN asg x hasg (hQ x List.mem_cons_self)
    have ih := bnb_opt hPN hInv hub rest hrest
    have hub' : ∀ m q, Inv m → Consistent m rest q →
        key (ev (complete m rest q) []) ≤ key (ev m rest) := fun m q hm hq => hub rest m q hm hrest hq
    have hlen : ∀ b, Inv (asg.set x b) := fun b => hInv asg x b hasg (hQ x List.mem_cons_self)
    simp only [bnbH]
    split
    · exact bnb_two (b1 := true) (b2 := false) hx (fun b => by cases b <;> simp)
        (bnb_branch hub' ih (lb, best) (asg.set x true) (hlen true))
        (bnb_branch hub' ih _ (asg.set x false) (hlen false))
    · exact bnb_two (b1 := false) (b2 := true) hx (fun b => by cases b <;> simp)
        (bnb_branch hub' ih (lb, best) (asg.set x false) (hlen false))
        (bnb_branch hub' ih _ (asg.set x true) (hlen true))

end bnb

/-! ## the real instance and marginal MAP -/

theorem realBBLaws : BBLaws realBB (fun a b : Rat => a ≤ b) where
  sr := realLaws
  refl a := Rat.le_refl
  trans h1 h2 := Rat.le_trans h1 h2
  zero_le_one := by show (0 : Rat) ≤ 1; grind
  add_mono h1 h2 := by simp only [realBB, realOps, realAdd]; grind
  mul_mono hc h := Rat.mul_le_mul_of_nonneg_left h hc
  join_left a b := by simp only [realBB, realJoin]; grind
  join_right a b := by simp only [realBB, realJoin]; grind
  join_mono h1 h2 := by simp only [realBB, realJoin]; grind

theorem realJoinWeight {k : Rat} (h0 : 0 ≤ k) (h1 : k ≤ 1) : JoinWeight realBB (fun a b : Rat => a ≤ b) k where
  nonneg := h0
  le_one := h1
  distrib a c := by
    show k * max a c ≤ max (k * a) (k * c)
    rcases Rat.le_total (a := a) (b := c) with h | h
    · have := Rat.mul_le_mul_of_nonneg_left h h0
      have e : max a c = c := by grind
      rw [e]; grind
    · have := Rat.mul_le_mul_of_nonneg_left h h0
      have e : max a c = a := by grind
      rw [e]; grind

/-- `marginal_map_eval` is `bb_ub` at `RealSemiring` (the weights are multiplied on the other
side, which is immaterial in a commutative semiring) -/
theorem marginalMapEval_eq (p : Ptr) (m : PM) (bits : List Nat) (w : Weights Rat) :
    marginalMapEval p m bits w = bbUb realBB p m bits w := by
  have h : marginalMapEval p m bits w =
      litFold realOps w (relax realBB w m bits p false) m.assignmentIter := rfl
  rw [h, litFold_eq realLaws, bbUb_eq realLaws]
  exact realLaws.mul_comm _ _

theorem litsOf_replicate_none (pol : Bool) : ∀ (n i : Nat), litsOf pol i (List.replicate n none) = []
  | 0, _ => rfl
  | n + 1, i => by
    simp only [List.replicate_succ, litsOf]
    rw [if_neg (by simp), litsOf_replicate_none pol n]

theorem litProd_new (S : SROps α) (w : Weights α) (n : Nat) : litProd S w (PM.new n) = S.one := by
  simp [litProd, PM.assignmentIter, PM.new, litsOf_replicate_none, litProdL]

theorem PM.toAssign_agrees (c : PM) : ∀ x b, c.get x = some b → c.toAssign x = b := by
  intro x b h; simp only [PM.toAssign, h]; cases b <;> simp

theorem completes_new_get {n : Nat} {Q : List Nat} {c : PM} (h : Completes (PM.new n) Q c) (x : Nat) :
    c.get x ≠ none ↔ x ∈ Q := by
  constructor
  · intro hne
    apply Classical.byContradiction
    intro hx
    exact hne (by rw [(h.2 x).2 hx, PM.get_new])
  · exact (h.2 x).1

/-- **`eval_complete`** (generic): with every query variable assigned, `bb_ub` is the product of
the assigned literal weights times the weighted sum, over the non-query variables, of the
function at that query assignment — free diagram, normalised non-query weights. -/
theorem bbUb_complete (hS : B.toSROps.Laws) (w : Weights α) {p : Ptr} (hp : p.free) {n : Nat}
    {Q others : List Nat} (hQ : ∀ x ∈ Q, x < n) (hnd : others.Nodup)
    (hcov : ∀ v ∈ p.vars, v ∉ Q → v ∈ others) (hdis : ∀ v ∈ others, v ∉ Q)
    (hw : Normalised B.toSROps w others) {c : PM} (hc : Completes (PM.new n) Q c) :
    bbUb B p c [] w = B.mul (qWeight B.toSROps w c.toAssign Q [])
      (wsum B.toSROps others w p.eval c.toAssign) := by
  have hget := completes_new_get hc
  have hnone : ∀ v, v ∉ Q → c.get v = none := fun v hv => by
    apply Classical.byContradiction; intro hne; exact hv ((hget v).mp hne)
  rw [bbUb_eq hS,
    relax_sum_wsum hS w c p false others c.toAssign hp hnd
      (fun v hv hcv => hcov v hv (fun hvQ => (hget v).mpr hvQ hcv))
      (fun v hv => hnone v (hdis v hv)) hw c.toAssign_agrees]
  congr 1
  · have hQ' : ∀ x ∈ Q, x < (PM.new n).vals.length := by simpa using hQ
    conv => lhs; rw [completes_new_eq hQ hc]
    rw [litProd_complete hS w c.toAssign Q [] (PM.new n) hQ' (fun x => by simp [PM.get_new])
      (fun x b hx => by rw [PM.get_new] at hx; cases hx), litProd_new, Bdd.sr_one_mul hS]
  · apply wsum_congr; intro b; simp

/-! ### lists -/

theorem mem_allAssignments : ∀ (Q : List Nat) (base a : Assign), (∀ x, x ∉ Q → a x = base x) →
    a ∈ allAssignments Q base
  | [], base, a, h => by
    have : a = base := funext fun x => h x (by simp)
    simp [allAssignments, this]
  | v :: Q, base, a, h => by
    simp only [allAssignments, List.mem_append]
    have key : a ∈ allAssignments Q (upd base v (a v)) := by
      apply mem_allAssignments
      intro x hx
      by_cases hxv : x = v
      · subst hxv; simp
      · rw [upd_other _ _ hxv]; exact h x (by simp [hxv, hx])
    cases hav : a v
    · left; rwa [hav] at key
    · right; rwa [hav] at key

theorem allAssignments_ne_nil : ∀ (Q : List Nat) (base : Assign), allAssignments Q base ≠ []
  | [], _ => by simp [allAssignments]
  | v :: Q, base => by
    simp only [allAssignments, ne_eq, List.append_eq_nil_iff, not_and]
    intro h; exact absurd h (allAssignments_ne_nil Q _)

theorem maxOfList_le : ∀ (l : List Rat) (v : Rat), l ≠ [] → (∀ y ∈ l, y ≤ v) → maxOfList l ≤ v
  | [], _, h, _ => absurd rfl h
  | [x], v, _, hle => by simpa [maxOfList] using hle x (by simp)
  | x :: y :: l, v, _, hle => by
    have ih := maxOfList_le (y :: l) v (by simp) (fun z hz => hle z (List.mem_cons_of_mem _ hz))
    have hx := hle x (by simp)
    simp only [maxOfList]; grind

theorem le_maxOfList : ∀ (l : List Rat) (v : Rat), v ∈ l → v ≤ maxOfList l
  | [], _, h => by simp at h
  | [x], v, h => by simp at h; simp [maxOfList, h]
  | x :: y :: l, v, h => by
    simp only [maxOfList]
    rcases List.mem_cons.mp h with e | e
    · rw [e]; grind
    · have := le_maxOfList (y :: l) v e; grind

/-- the maximum of a list is the element that bounds all the others -/
theorem maxOfList_eq {l : List Rat} {v : Rat} (hub : ∀ y ∈ l, y ≤ v) (hmem : v ∈ l) : maxOfList l = v := by
  have h1 := maxOfList_le l v (fun e => by rw [e] at hmem; simp at hmem) hub
  have h2 := le_maxOfList l v hmem
  grind

/-! ### marginal MAP -/

/-- the weight domain of marginal MAP (weaker than "every weight in `[0,1]`, `low + high = 1` on
every non-query variable"): all weights non-negative, query weights at most one, the non-query
variables of `vars` normalised -/
structure MapWeights (w : Weights Rat) (Q vars : List Nat) : Prop where
  nonneg : ∀ v, 0 ≤ (w v).1 ∧ 0 ≤ (w v).2
  query_le_one : ∀ x ∈ Q, (w x).1 ≤ 1 ∧ (w x).2 ≤ 1
  normalised : ∀ v ∈ vars, v ∉ Q → (w v).1 + (w v).2 = 1

theorem MapWeights.joinWeight {w : Weights Rat} {Q vars : List Nat} (h : MapWeights w Q vars) :
    ∀ x ∈ Q, ∀ b, JoinWeight realBB (fun a b : Rat => a ≤ b) (wsel w x b) := by
  intro x hx b
  cases b
  · exact realJoinWeight (h.nonneg x).1 (h.query_le_one x hx).1
  · exact realJoinWeight (h.nonneg x).2 (h.query_le_one x hx).2

theorem nonQuery_nodup {vars : List Nat} (Q : List Nat) (h : vars.Nodup) : (nonQuery vars Q).Nodup :=
  h.filter _

theorem mem_nonQuery {vars Q : List Nat} {v : Nat} : v ∈ nonQuery vars Q ↔ v ∈ vars ∧ v ∉ Q := by
  simp [nonQuery]

/-- **`ub_sound`** for marginal MAP: the relaxed fold bounds the value of every consistent
completion (free diagram; non-negative weights, query weights at most one) -/
theorem map_ub_sound {w : Weights Rat} {Q vars : List Nat} (hw : MapWeights w Q vars) {p : Ptr}
    (hp : p.free) (bits : List Nat) (hbits : ∀ x ∈ bits, x ∈ Q) (m : PM) (hm : ∀ x ∈ bits, x < m.vals.length)
    (q : Assign) (hq : Consistent m bits q) :
    marginalMapEval p (complete m bits q) [] w ≤ marginalMapEval p m bits w := by
  rw [marginalMapEval_eq, marginalMapEval_eq]
  exact ub_sound realBBLaws w hw.nonneg p hp q bits m hm
    (fun x hx b => hw.joinWeight x (hbits x hx) b) hq

/-- **`eval_complete`** for marginal MAP -/
theorem map_eval_complete {w : Weights Rat} {Q vars : List Nat} (hw : MapWeights w Q vars) {p : Ptr}
    (hp : p.free) (hnd : vars.Nodup) (hcov : ∀ v ∈ p.vars, v ∈ vars) {n : Nat} (hQ : ∀ x ∈ Q, x < n)
    {c : PM} (hc : Completes (PM.new n) Q c) :
    marginalMapEval p c [] w = mapValue p.eval Q (nonQuery vars Q) w c.toAssign := by
  rw [marginalMapEval_eq]
  exact bbUb_complete (B := realBB) realLaws w hp hQ (nonQuery_nodup Q hnd)
    (fun v hv hvQ => mem_nonQuery.mpr ⟨hcov v hv, hvQ⟩) (fun v hv => (mem_nonQuery.mp hv).2)
    (fun v hv => hw.normalised v (mem_nonQuery.mp hv).1 (mem_nonQuery.mp hv).2) hc

/-- the search of `marginal_map_h`, in the terms of `bnb_opt` -/
theorem marginalMapH_opt {w : Weights Rat} {Q vars : List Nat} (hw : MapWeights w Q vars) {p : Ptr}
    (hp : p.free) {n : Nat} (hQ : ∀ x ∈ Q, x < n) (lb : Rat) (best asg : PM) (hasg : asg.vals.length = n) :
    BnbRes id (fun m bits => marginalMapEval p m bits w) lb best Q asg (marginalMapH p w lb best Q asg) := by
  rw [marginalMapH_eq]
  refine bnb_opt (Inv := fun m => m.vals.length = n) (P := fun x => x < n ∧ x ∈ Q)
    (fun m x hm h => by rw [hm]; exact h.1) (fun m x b hm _ => by rw [PM.length_set]; exact hm) ?_ Q
    (fun x hx => ⟨hQ x hx, hx⟩) lb best asg hasg
  intro bits m q hm hbits hq
  exact map_ub_sound hw hp bits (fun x hx => (hbits x hx).2) m
    (fun x hx => by rw [hm]; exact (hbits x hx).1) q hq

theorem consistent_new (n : Nat) (Q : List Nat) (q : Assign) : Consistent (PM.new n) Q q := by
  intro x _ b hb; rw [PM.get_new] at hb; cases hb

/-- reading a completion of the empty model back gives the query assignment -/
theorem toAssign_complete_new {n : Nat} {Q : List Nat} (hQ : ∀ x ∈ Q, x < n) {q : Assign}
    (hq : q ∈ queryAssignments Q) : (complete (PM.new n) Q q).toAssign = q := by
  funext x
  have hQ' : ∀ x ∈ Q, x < (PM.new n).vals.length := by simpa using hQ
  simp only [PM.toAssign, get_complete q Q _ hQ']
  by_cases hx : x ∈ Q
  · simp only [hx, if_true]; cases q x <;> simp
  · rw [if_neg hx, PM.get_new, allAssignments_outside Q _ q hq x hx]; simp

theorem toAssign_mem_queryAssignments {n : Nat} {Q : List Nat} {c : PM} (hc : Completes (PM.new n) Q c) :
    c.toAssign ∈ queryAssignments Q := by
  apply mem_allAssignments
  intro x hx
  simp [PM.toAssign, (hc.2 x).2 hx, PM.get_new]

/-- the result of a top-level search started from the all-true completion -/
theorem bnb_top {β : Type} {key : β → Rat} {ev : PM → List Nat → β} {n : Nat} {Q : List Nat}
    (hQ : ∀ x ∈ Q, x < n) {r : β × PM}
    (H : BnbRes key ev (ev (complete (PM.new n) Q (fun _ => true)) [])
      (complete (PM.new n) Q (fun _ => true)) Q (PM.new n) r) :
    Completes (PM.new n) Q r.2 ∧ r.1 = ev r.2 [] := by
  have hQ' : ∀ x ∈ Q, x < (PM.new n).vals.length := by simpa using hQ
  rcases H.att with e | ⟨_, hc, hv⟩
  · rw [e]; exact ⟨completes_complete _ Q _ hQ', rfl⟩
  · exact ⟨hc, hv⟩

/-- **`marginalMap_opt`** -/
theorem marginalMap_opt {w : Weights Rat} {Q vars : List Nat} (hw : MapWeights w Q vars) {p : Ptr}
    (hp : p.free) (hnd : vars.Nodup) (hcov : ∀ v ∈ p.vars, v ∈ vars) {n : Nat} (hQ : ∀ x ∈ Q, x < n) :
    (marginalMap p Q n w).1 = mapSpec p.eval Q vars w ∧
    Completes (PM.new n) Q (marginalMap p Q n w).2 ∧
    (marginalMap p Q n w).2.toAssign ∈ queryAssignments Q ∧
    mapValue p.eval Q (nonQuery vars Q) w (marginalMap p Q n w).2.toAssign = (marginalMap p Q n w).1 := by
  have hQ' : ∀ x ∈ Q, x < (PM.new n).vals.length := by simpa using hQ
  have hr : marginalMap p Q n w = marginalMapH p w
      (marginalMapEval p (complete (PM.new n) Q (fun _ => true)) [] w)
      (complete (PM.new n) Q (fun _ => true)) Q (PM.new n) := by
    simp only [marginalMap, fromLitvec_map_true, fromLitvec_nil]
  have H := marginalMapH_opt hw hp hQ
    (marginalMapEval p (complete (PM.new n) Q (fun _ => true)) [] w)
    (complete (PM.new n) Q (fun _ => true)) (PM.new n) (PM.length_new n)
  rw [← hr] at H
  generalize marginalMap p Q n w = r at H ⊢
  obtain ⟨hc, hv⟩ := bnb_top hQ H
  have hval : mapValue p.eval Q (nonQuery vars Q) w r.2.toAssign = r.1 := by
    rw [hv]; exact (map_eval_complete hw hp hnd hcov hQ hc).symm
  refine ⟨?_, hc, toAssign_mem_queryAssignments hc, hval⟩
  symm
  apply maxOfList_eq
  · intro y hy
    obtain ⟨q, hq, rfl⟩ := List.mem_map.mp hy
    have h1 := H.ub q (consistent_new n Q q)
    simp only [id] at h1
    rwa [map_eval_complete hw hp hnd hcov hQ (completes_complete q Q _ hQ'),
      toAssign_complete_new hQ hq] at h1
  · exact List.mem_map.mpr ⟨_, toAssign_mem_queryAssignments hc, hval⟩

/-! ## expected utility: laws -/

/-- component-wise order on `ExpectedUtility` (the order in which the relaxed fold is a bound;
the declared `PartialOrd` is a different, much smaller relation) -/
def euR (a b : EU) : Prop := a.p ≤ b.p ∧ a.u ≤ b.u

theorem euR_zero {c : EU} : euR euBB.zero c ↔ 0 ≤ c.p ∧ 0 ≤ c.u := Iff.rfl

theorem euBBLaws : BBLaws euBB euR where
  sr := euLaws
  refl a := ⟨Rat.le_refl, Rat.le_refl⟩
  trans h1 h2 := ⟨Rat.le_trans h1.1 h2.1, Rat.le_trans h1.2 h2.2⟩
  zero_le_one := by
    show (0 : Rat) ≤ 1 ∧ (0 : Rat) ≤ 0
    constructor <;> grind
  add_mono h1 h2 := by
    obtain ⟨h1p, h1u⟩ := h1
    obtain ⟨h2p, h2u⟩ := h2
    constructor
    · show _ + _ ≤ _ + _; grind
    · show _ + _ ≤ _ + _; grind
  mul_mono {c a b} hc h := by
    obtain ⟨hcp, hcu⟩ := euR_zero.mp hc
    obtain ⟨hp, hu⟩ := h
    have m1 := Rat.mul_le_mul_of_nonneg_left hp hcp
    have m2 := Rat.mul_le_mul_of_nonneg_left hu hcp
    have m3 := Rat.mul_le_mul_of_nonneg_left hp hcu
    constructor
    · show c.p * a.p ≤ c.p * b.p; exact m1
    · show c.p * a.u + c.u * a.p ≤ c.p * b.u + c.u * b.p; grind
  join_left a b := by
    constructor
    · show a.p ≤ max a.p b.p; grind
    · show a.u ≤ max a.u b.u; grind
  join_right a b := by
    constructor
    · show b.p ≤ max a.p b.p; grind
    · show b.u ≤ max a.u b.u; grind
  join_mono h1 h2 := by
    obtain ⟨h1p, h1u⟩ := h1
    obtain ⟨h2p, h2u⟩ := h2
    constructor
    · show max _ _ ≤ max _ _; grind
    · show max _ _ ≤ max _ _; grind

/-- the unit weight of a decision variable -/
theorem euJoinWeight_one : JoinWeight euBB euR euOne where
  nonneg := euBBLaws.zero_le_one
  le_one := euBBLaws.refl _
  distrib a c := by
    have h : ∀ x : EU, euBB.mul euOne x = x := fun x => Bdd.sr_one_mul euLaws x
    rw [h, h, h]; exact euBBLaws.refl _

/-! ### `eu_ub` is `bb_ub` when decision variables carry unit weight -/

theorem mem_litsOf {pol : Bool} : ∀ (vals : List (Option Bool)) (i : Nat) (l : Nat × Bool),
    l ∈ litsOf pol i vals → l.2 = pol ∧ i ≤ l.1 ∧ vals.getD (l.1 - i) none = some pol
  | [], _, _, h => by simp [litsOf] at h
  | o :: rest, i, l, h => by
    simp only [litsOf] at h
    have tail : l ∈ litsOf pol (i + 1) rest → l.2 = pol ∧ i ≤ l.1 ∧ (o :: rest).getD (l.1 - i) none = some pol := by
      intro h'
      obtain ⟨h1, h2, h3⟩ := mem_litsOf rest (i + 1) l h'
      refine ⟨h1, by omega, ?_⟩
      have e : l.1 - i = (l.1 - (i + 1)) + 1 := by omega
      rw [e, List.getD_cons_succ]; exact h3
    split at h
    · rename_i ho
      rcases List.mem_cons.mp h with e | h'
      · subst e; simp [ho]
      · exact tail h'
    · exact tail h

theorem mem_assignmentIter {m : PM} {l : Nat × Bool} (h : l ∈ m.assignmentIter) : m.get l.1 = some l.2 := by
  simp only [PM.assignmentIter, List.mem_append] at h
  rcases h with h | h
  · obtain ⟨h1, _, h3⟩ := mem_litsOf m.vals 0 l h
    rw [h1]; simpa [PM.get] using h3
  · obtain ⟨h1, _, h3⟩ := mem_litsOf m.vals 0 l h
    rw [h1]; simpa [PM.get] using h3

theorem litProdL_one (hS : S.Laws) (w : Weights α) : ∀ (ls : List (Nat × Bool)),
    (∀ l ∈ ls, wsel w l.1 l.2 = S.one) → litProdL S w ls = S.one
  | [], _ => rfl
  | l :: ls, h => by
    rw [litProdL, h l List.mem_cons_self,
      litProdL_one hS w ls (fun l' hl' => h l' (List.mem_cons_of_mem _ hl')), hS.mul_one]

/-- unit weight on every assigned variable and on every join variable -/
def UnitOn (w : Weights EU) (m : PM) (bits : List Nat) : Prop :=
  ∀ x, (m.get x ≠ none ∨ x ∈ bits) → w x = (euOne, euOne)

theorem euUb_eq_bbUb (p : Ptr) (m : PM) (bits : List Nat) (w : Weights EU) (hunit : UnitOn w m bits) :
    euUb p m bits w = bbUb euBB p m bits w := by
  rw [bbUb_eq euLaws]
  have hlp : litProd euBB.toSROps w m = euOne := by
    apply litProdL_one euLaws
    intro l hl
    have hg := mem_assignmentIter hl
    have hw := hunit l.1 (Or.inl (by rw [hg]; simp))
    simp only [wsel, hw]; split <;> rfl
  rw [hlp]
  show _ = euMul euOne _
  have h1 : ∀ x : EU, euMul euOne x = x := fun x => Bdd.sr_one_mul euLaws x
  rw [h1]
  unfold euUb relax
  apply bddFold_congr
  intro v _ a b
  simp only [nodeFn]
  cases hg : m.get v with
  | some bv => cases bv <;> rfl
  | none =>
    simp only
    by_cases hc : bits.contains v = true
    · have hv : v ∈ bits := by simpa using hc
      have hw := hunit v (Or.inr hv)
      simp only [hc, if_true, hw]
      show _ = euJoin (euMul euOne a) (euMul euOne b)
      rw [h1, h1]; rfl
    · simp only [hc]; rfl

/-! ### the path count of the restricted function -/

/-- the assignment `a` overridden by what the partial model assigns -/
def overridePM (c : PM) (a : Assign) : Assign := fun x =>
  match c.get x with
  | some b => b
  | none => a x

theorem overridePM_assigned {c : PM} {x : Nat} {b : Bool} (h : c.get x = some b) (a : Assign) :
    overridePM c a x = b := by simp [overridePM, h]

theorem overridePM_upd_assigned {c : PM} {x : Nat} {b : Bool} (h : c.get x = some b) (a : Assign) (d : Bool) :
    overridePM c (upd a x d) = overridePM c a := by
  funext y
  simp only [overridePM]
  by_cases hy : y = x
  · subst hy; simp [h]
  · rw [upd_other _ _ hy]

theorem overridePM_upd_none {c : PM} {x : Nat} (h : c.get x = none) (a : Assign) (d : Bool) :
    overridePM c (upd a x d) = upd (overridePM c a) x d := by
  funext y
  by_cases hy : y = x
  · subst hy; simp [overridePM, h]
  · rw [upd_other _ _ hy]; simp only [overridePM, upd_other _ _ hy]

theorem eval_congr_vars : ∀ (p : Ptr) (a a' : Assign), (∀ v ∈ p.vars, a v = a' v) → p.eval a = p.eval a'
  | .tru, _, _, _ => rfl
  | .fls, _, _, _ => rfl
  | .node c v lo hi, a, a', h => by
    simp only [Ptr.eval, h v List.mem_cons_self,
      eval_congr_vars lo a a' (fun u hu => h u (List.mem_cons_of_mem _ (List.mem_append_left _ hu))),
      eval_congr_vars hi a a' (fun u hu => h u (List.mem_cons_of_mem _ (List.mem_append_right _ hu)))]

/-- along the order: every variable is assigned, or normalised, or has no assigned variable at
or below it ("utility-bearing variables are ordered after all decision variables") -/
def OrderOK (S : SROps α) (w : Weights α) (c : PM) : List Nat → Prop
  | [] => True
  | v :: vs => (c.get v ≠ none ∨ S.add (w v).1 (w v).2 = S.one ∨ ∀ u ∈ v :: vs, c.get u = none) ∧
      OrderOK S w c vs

/-- **the pass-through fold is the path count of the restricted function** (reduced ordered
diagram, arbitrary weights except that a non-normalised variable has no assigned variable
below it) -/
theorem relax_sum_pathCount (hS : B.toSROps.Laws) (w : Weights α) (c : PM) {l : List Nat} {p : Ptr}
    (h : Robdd l p) : l.Nodup → OrderOK B.toSROps w c l → ∀ (n : Bool) (a : Assign),
    relax B w c [] p n =
      pathCount B.toSROps w l (fun b => xor n (p.eval (overridePM c b))) a := by
  induction h with
  | tru l => intro _ _ n a; simp only [Ptr.eval, pathCount_const, relax, bddFold]; cases n <;> rfl
  | fls l => intro _ _ n a; simp only [Ptr.eval, pathCount_const, relax, bddFold]; cases n <;> rfl
  | @skip u us p hp ih =>
    intro hnd hok n a
    have hu := (List.nodup_cons.mp hnd).1
    have hup : u ∉ p.vars := fun h => hu (hp.vars_sub _ h)
    have hind : Indep (fun b => xor n (p.eval (overridePM c b))) u := by
      intro a b
      cases hg : c.get u with
      | some bu => simp only [overridePM_upd_assigned hg]
      | none => simp only [overridePM_upd_none hg, eval_upd_of_not_mem _ u b p hup]
    simp only [pathCount, hind, if_true]
    exact ih (List.nodup_cons.mp hnd).2 hok.2 n a
  | @node u us cf lo hi hlo hhi hne hreg hnf ih1 ih2 =>
    intro hnd hok n a
    have hu := (List.nodup_cons.mp hnd).1
    have hus := (List.nodup_cons.mp hnd).2
    have nlo : u ∉ lo.vars := fun h => hu (hlo.vars_sub u h)
    have nhi : u ∉ hi.vars := fun h => hu (hhi.vars_sub u h)
    have ihlo := ih1 hus hok.2 (xor n cf) a
    have ihhi := ih2 hus hok.2 (xor n cf) a
    simp only [relax] at ihlo ihhi
    simp only [relax, bddFold]
    cases hg : c.get u with
    | some bu =>
      have hind : Indep (fun b => xor n ((Ptr.node cf u lo hi).eval (overridePM c b))) u := by
        intro a b; simp only [overridePM_upd_assigned hg]
      have hfun : (fun b => xor n ((Ptr.node cf u lo hi).eval (overridePM c b))) =
          fun b => xor (xor n cf) ((if bu then hi else lo).eval (overridePM c b)) := by
        funext b
        simp only [Ptr.eval, overridePM_assigned hg]
        cases bu <;> simp
      have hpc : pathCount B.toSROps w (u :: us)
          (fun b => xor n ((Ptr.node cf u lo hi).eval (overridePM c b))) a =
          pathCount B.toSROps w us (fun b => xor n ((Ptr.node cf u lo hi).eval (overridePM c b))) a := by
        simp only [pathCount, hind, if_true]
      rw [hpc, hfun]
      cases bu
      · simpa [nodeFn, hg] using ihlo
      · simpa [nodeFn, hg] using ihhi
    | none =>
      have hc : ([] : List Nat).contains u = false := by simp
      have e0 : fCond (fun b => xor n ((Ptr.node cf u lo hi).eval (overridePM c b))) u false =
          fun b => xor (xor n cf) (lo.eval (overridePM c b)) := by
        funext b; simp only [fCond, overridePM_upd_none hg, eval_node_upd nlo nhi]; simp
      have e1 : fCond (fun b => xor n ((Ptr.node cf u lo hi).eval (overridePM c b))) u true =
          fun b => xor (xor n cf) (hi.eval (overridePM c b)) := by
        funext b; simp only [fCond, overridePM_upd_none hg, eval_node_upd nlo nhi]; simp
      simp only [nodeFn, hg, hc, Bool.false_eq_true, if_false, ihlo, ihhi]
      by_cases hind : Indep (fun b => xor n ((Ptr.node cf u lo hi).eval (overridePM c b))) u
      · -- the restricted function ignores `u`: both branches are the same count
        have g0 : (fun b => xor (xor n cf) (lo.eval (overridePM c b))) =
            fun b => xor n ((Ptr.node cf u lo hi).eval (overridePM c b)) := by
          rw [← e0]; funext b; exact hind b false
        have g1 : (fun b => xor (xor n cf) (hi.eval (overridePM c b))) =
            fun b => xor n ((Ptr.node cf u lo hi).eval (overridePM c b)) := by
          rw [← e1]; funext b; exact hind b true
        simp only [pathCount, hind, if_true, g0, g1]
        rw [← Bdd.sr_right_distrib hS]
        rcases hok.1 with h1 | h1 | h1
        · exact absurd hg h1
        · rw [h1, Bdd.sr_one_mul hS]
        · -- nothing is assigned from here on: the function is the diagram's, which depends on `u`
          exfalso
          obtain ⟨a0, ha0⟩ := robdd_node_dep (c := cf) hnd hlo hhi hne
          apply ha0
          have hsub := (Robdd.node hlo hhi hne hreg hnf : Robdd (u :: us) (.node cf u lo hi)).vars_sub
          have hov : ∀ a : Assign, (Ptr.node cf u lo hi).eval (overridePM c a) = (Ptr.node cf u lo hi).eval a := by
            intro a
            apply eval_congr_vars
            intro v hv
            simp [overridePM, h1 v (hsub v hv)]
          have h0 := hind a0 false
          have h1' := hind a0 true
          simp only [hov] at h0 h1'
          have := h0.trans h1'.symm
          revert this
          cases (Ptr.node cf u lo hi).eval (upd a0 u false) <;>
            cases (Ptr.node cf u lo hi).eval (upd a0 u true) <;> cases n <;> simp
      · simp only [pathCount, hind, if_false, e0, e1]

/-! ### the executable path count is the specification's -/

/-- `f` only looks at the variables of `vars` -/
def DependsOn (vars : List Nat) (f : BoolFn) : Prop := ∀ a a', (∀ v ∈ vars, a v = a' v) → f a = f a'

theorem dependsOn_fCond {vars : List Nat} {f : BoolFn} (h : DependsOn vars f) (v : Nat) (b : Bool) :
    DependsOn vars (fCond f v b) := by
  intro a a' haa
  apply h
  intro x hx
  by_cases hxv : x = v
  · subst hxv; simp
  · rw [upd_other _ _ hxv, upd_other _ _ hxv]; exact haa x hx

theorem indepX_iff {allVars : List Nat} {f : BoolFn} (hf : DependsOn allVars f) (v : Nat) :
    indepX allVars f v = true ↔ Indep f v := by
  simp only [indepX, List.all_eq_true, beq_iff_eq]
  constructor
  · intro h a b
    let a0 : Assign := fun x => if x ∈ allVars then a x else false
    have ha0 : a0 ∈ allAssignments allVars (fun _ => false) :=
      mem_allAssignments _ _ _ (fun x hx => by simp [a0, hx])
    have key : ∀ d, f (upd a v d) = f (upd a0 v d) := by
      intro d
      apply hf
      intro x hx
      by_cases hxv : x = v
      · subst hxv; simp
      · rw [upd_other _ _ hxv, upd_other _ _ hxv]; simp [a0, hx]
    have h0 := h a0 ha0
    have hall : ∀ d d', f (upd a v d) = f (upd a v d') := by
      intro d d'
      rw [key d, key d']
      cases d <;> cases d' <;> first | rfl | exact h0 | exact h0.symm
    have := hall b (a v)
    rwa [upd_eq_self] at this
  · intro h a _
    rw [h a true, h a false]

theorem pathCountX_eq (S : SROps α) (w : Weights α) {allVars : List Nat} : ∀ (l : List Nat) (f : BoolFn)
    (a : Assign), DependsOn allVars f → pathCountX S w allVars l f a = pathCount S w l f a
  | [], _, _, _ => rfl
  | v :: vs, f, a, hf => by
    simp only [pathCountX, pathCount]
    by_cases hind : Indep f v
    · rw [if_pos ((indepX_iff hf v).mpr hind), if_pos hind]
      exact pathCountX_eq S w vs f a hf
    · have hx : ¬ indepX allVars f v = true := fun h => hind ((indepX_iff hf v).mp h)
      rw [if_neg hx, if_neg hind,
        pathCountX_eq S w vs _ a (dependsOn_fCond hf v false),
        pathCountX_eq S w vs _ a (dependsOn_fCond hf v true)]

theorem dependsOn_restrictTo {vars : List Nat} {p : Ptr} (hsub : ∀ v ∈ p.vars, v ∈ vars) (Q : List Nat)
    (q : Assign) : DependsOn vars (restrictTo Q q p.eval) := by
  intro a a' haa
  simp only [restrictTo]
  apply eval_congr_vars
  intro v hv
  split
  · rfl
  · exact haa v (hsub v hv)

/-! ### maximum expected utility -/

/-- along the order: every variable is a query variable, or its two weights sum to one, or no
query variable sits at or below it -/
def QueryAfter (S : SROps α) (w : Weights α) (Q : List Nat) : List Nat → Prop
  | [] => True
  | v :: vs => (v ∈ Q ∨ S.add (w v).1 (w v).2 = S.one ∨ ∀ u ∈ v :: vs, u ∉ Q) ∧ QueryAfter S w Q vs

theorem orderOK_of_queryAfter {S : SROps α} {w : Weights α} {Q : List Nat} {c : PM}
    (hc : ∀ x, c.get x ≠ none ↔ x ∈ Q) : ∀ (l : List Nat), QueryAfter S w Q l → OrderOK S w c l
  | [], _ => trivial
  | v :: vs, h => by
    refine ⟨?_, orderOK_of_queryAfter hc vs h.2⟩
    rcases h.1 with h1 | h1 | h1
    · exact Or.inl ((hc v).mpr h1)
    · exact Or.inr (Or.inl h1)
    · refine Or.inr (Or.inr fun u hu => ?_)
      apply Classical.byContradiction
      intro hne
      exact h1 u hu ((hc u).mp hne)

theorem queryAfter_of_normalised {S : SROps α} {w : Weights α} {Q : List Nat} : ∀ (l : List Nat),
    (∀ v ∈ l, v ∉ Q → S.add (w v).1 (w v).2 = S.one) → QueryAfter S w Q l
  | [], _ => trivial
  | v :: vs, h => by
    refine ⟨?_, queryAfter_of_normalised vs (fun u hu => h u (List.mem_cons_of_mem _ hu))⟩
    by_cases hv : v ∈ Q
    · exact Or.inl hv
    · exact Or.inr (Or.inl (h v List.mem_cons_self hv))

/-- MEU reading: every variable of the order is a decision variable, or its two weights sum to
the unit of the semiring, or no decision variable sits at or below it -/
abbrev UtilAfter (w : Weights EU) (D : List Nat) (order : List Nat) : Prop := QueryAfter euOps w D order

/-- the weight domain of MEU: probabilities and utilities non-negative, decision variables of
unit weight, every non-normalised (utility-bearing) variable ordered after all decision
variables -/
structure MeuWeights (w : Weights EU) (D order : List Nat) : Prop where
  nonneg : ∀ v, (0 ≤ (w v).1.p ∧ 0 ≤ (w v).1.u) ∧ (0 ≤ (w v).2.p ∧ 0 ≤ (w v).2.u)
  unit : ∀ x ∈ D, w x = (euOne, euOne)
  after : UtilAfter w D order

/-- the invariant of the MEU search: only decision variables are ever assigned -/
def MeuInv (n : Nat) (D : List Nat) (m : PM) : Prop := m.vals.length = n ∧ ∀ x, m.get x ≠ none → x ∈ D

theorem MeuInv.set {n : Nat} {D : List Nat} {m : PM} (h : MeuInv n D m) {x : Nat} (hx : x ∈ D) (b : Bool) :
    MeuInv n D (m.set x b) := by
  refine ⟨by rw [PM.length_set]; exact h.1, fun y hy => ?_⟩
  by_cases hyx : y = x
  · rw [hyx]; exact hx
  · rw [PM.get_set_other m b hyx] at hy; exact h.2 y hy

/-- **`ub_sound`** for MEU, in both components -/
theorem meu_ub_sound {w : Weights EU} {D order : List Nat} (hw : MeuWeights w D order) {p : Ptr}
    (hp : p.free) {n : Nat} (bits : List Nat) (hbits : ∀ x ∈ bits, x < n ∧ x ∈ D) (m : PM)
    (hm : MeuInv n D m) (q : Assign) (hq : Consistent m bits q) :
    euR (euUb p (complete m bits q) [] w) (euUb p m bits w) := by
  have hbl : ∀ x ∈ bits, x < m.vals.length := fun x hx => by rw [hm.1]; exact (hbits x hx).1
  have u1 : UnitOn w m bits := by
    intro x hx
    rcases hx with hx | hx
    · exact hw.unit x (hm.2 x hx)
    · exact hw.unit x (hbits x hx).2
  have u2 : UnitOn w (complete m bits q) [] := by
    intro x hx
    rcases hx with hx | hx
    · rw [get_complete q bits m hbl] at hx
      by_cases hxb : x ∈ bits
      · exact hw.unit x (hbits x hxb).2
      · rw [if_neg hxb] at hx; exact hw.unit x (hm.2 x hx)
    · simp at hx
  rw [euUb_eq_bbUb p _ _ w u1, euUb_eq_bbUb p _ _ w u2]
  refine ub_sound euBBLaws w (fun v => ⟨euR_zero.mpr (hw.nonneg v).1, euR_zero.mpr (hw.nonneg v).2⟩)
    p hp q bits m hbl ?_ hq
  intro x hx b
  have := hw.unit x (hbits x hx).2
  have e : wsel w x b = euOne := by simp only [wsel, this]; split <;> rfl
  rw [e]; exact euJoinWeight_one

/-- **`eval_complete`** for MEU: with every decision assigned, `eu_ub` is the path count of the
restricted function along the variable order -/
theorem meu_eval_complete {w : Weights EU} {D order : List Nat} (hw : MeuWeights w D order) {p : Ptr}
    (hnd : order.Nodup) (hp : Robdd order p) {n : Nat} {c : PM} (hc : Completes (PM.new n) D c) :
    euUb p c [] w = meuValue p.eval D order w c.toAssign := by
  have hget := completes_new_get hc
  have u : UnitOn w c [] := by
    intro x hx
    rcases hx with hx | hx
    · exact hw.unit x ((hget x).mp hx)
    · simp at hx
  rw [euUb_eq_bbUb p c [] w u, bbUb_eq euLaws]
  have hlp : litProd euBB.toSROps w c = euOne := by
    apply litProdL_one euLaws
    intro l hl
    have hg := mem_assignmentIter hl
    have hwl := u l.1 (Or.inl (by rw [hg]; simp))
    simp only [wsel, hwl]; split <;> rfl
  rw [hlp]
  have h1 : ∀ x : EU, euBB.mul euOne x = x := fun x => Bdd.sr_one_mul euLaws x
  rw [h1, relax_sum_pathCount euLaws w c hp hnd (orderOK_of_queryAfter hget order hw.after) false
    (fun _ => false), meuValue, pathCountX_eq euOps w order _ _ (dependsOn_restrictTo hp.vars_sub D _)]
  congr 1
  funext b
  simp only [restrictTo, Bool.false_bne]
  congr 1
  funext x
  by_cases hx : x ∈ D
  · have hc' : D.contains x = true := by simpa using hx
    rw [if_pos hc']
    cases hg : c.get x with
    | none => exact absurd hg ((hget x).mpr hx)
    | some bv => rw [overridePM_assigned hg, c.toAssign_agrees x bv hg]
  · have hc' : ¬ D.contains x = true := by simpa using hx
    have hg : c.get x = none := by
      apply Classical.byContradiction; intro hne; exact hx ((hget x).mp hne)
    rw [if_neg hc']; simp [overridePM, hg]

theorem meuH_opt {w : Weights EU} {D order : List Nat} (hw : MeuWeights w D order) {p : Ptr}
    (hp : p.free) {n : Nat} (hD : ∀ x ∈ D, x < n) (lb : EU) (best asg : PM) (hasg : MeuInv n D asg) :
    BnbRes EU.u (fun m bits => euUb p m bits w) lb best D asg (meuH p w lb best D asg) := by
  rw [meuH_eq]
  refine bnb_opt (Inv := MeuInv n D) (P := fun x => x < n ∧ x ∈ D)
    (fun m x hm h => by rw [hm.1]; exact h.1) (fun m x b hm h => hm.set h.2 b) ?_ D
    (fun x hx => ⟨hD x hx, hx⟩) lb best asg hasg
  intro bits m q hm hbits hq
  exact (meu_ub_sound hw hp bits hbits m hm q hq).2

/-- **`meu_opt`** -/
theorem meu_opt {w : Weights EU} {D order : List Nat} (hw : MeuWeights w D order) {p : Ptr}
    (hnd : order.Nodup) (hp : Robdd order p) {n : Nat} (hD : ∀ x ∈ D, x < n) :
    (meu p D n w).1.u = meuSpec p.eval D order w ∧
    Completes (PM.new n) D (meu p D n w).2 ∧
    (meu p D n w).2.toAssign ∈ queryAssignments D ∧
    meuValue p.eval D order w (meu p D n w).2.toAssign = (meu p D n w).1 := by
  have hD' : ∀ x ∈ D, x < (PM.new n).vals.length := by simpa using hD
  have hr : meu p D n w = meuH p w (euUb p (complete (PM.new n) D (fun _ => true)) [] w)
      (complete (PM.new n) D (fun _ => true)) D (PM.new n) := by
    simp only [meu, fromLitvec_map_true, fromLitvec_nil]
  have hinv : MeuInv n D (PM.new n) := ⟨PM.length_new n, fun x hx => absurd (PM.get_new n x) hx⟩
  have H := meuH_opt hw (hp.free hnd) hD (euUb p (complete (PM.new n) D (fun _ => true)) [] w)
    (complete (PM.new n) D (fun _ => true)) (PM.new n) hinv
  rw [← hr] at H
  generalize meu p D n w = r at H ⊢
  obtain ⟨hc, hv⟩ := bnb_top hD H
  have hval : meuValue p.eval D order w r.2.toAssign = r.1 := by
    rw [hv]; exact (meu_eval_complete hw hnd hp hc).symm
  refine ⟨?_, hc, toAssign_mem_queryAssignments hc, hval⟩
  symm
  apply maxOfList_eq
  · intro y hy
    obtain ⟨q, hq, rfl⟩ := List.mem_map.mp hy
    have h1 := H.ub q (consistent_new n D q)
    rwa [meu_eval_complete hw hnd hp (completes_complete q D _ hD'),
      toAssign_complete_new hD hq] at h1
  · exact List.mem_map.mpr ⟨_, toAssign_mem_queryAssignments hc, by rw [hval]⟩

/-! ## the generic branch and bound (`bb_h`) -/

/-- What the search of `bb_h` needs of `choose`, `==` and `PartialOrd::le`, relative to the
bounding order `R` and a preorder `T` ("is no better than", the order `choose` maximises):
`==` is equality, `choose` returns one of its arguments and a `T`-upper bound of both, and
`ub ≤ lb` licenses pruning (everything `R`-below `ub` is `T`-no-better than `lb`). -/
structure ChooseLaws (B : BBOps α) (R T : α → α → Prop) : Prop where
  beq_iff : ∀ a b, B.beq a b = true ↔ a = b
  choose_or : ∀ a b, B.choose a b = a ∨ B.choose a b = b
  choose_left : ∀ a b, T a (B.choose a b)
  choose_right : ∀ a b, T b (B.choose a b)
  t_refl : ∀ a, T a a
  t_trans : ∀ {a b c}, T a b → T b c → T a c
  prune : ∀ {ub lb c}, B.le ub lb = true → R c ub → T c lb

/-- what `bb_h` returns -/
structure BbRes (T : α → α → Prop) (ev : PM → List Nat → α) (lb : α) (best : PM)
    (Q : List Nat) (asg : PM) (r : α × PM) : Prop where
  ge_lb : T lb r.1
  ub : ∀ q, Consistent asg Q q → T (ev (complete asg Q q) []) r.1
  att : r = (lb, best) ∨ (Completes asg Q r.2 ∧ r.1 = ev r.2 [])

section bbsearch
variable {T : α → α → Prop} {p : Ptr} {w : Weights α} {N : Nat}

/-- one iteration of the loop of `bb_h` on the branch `x := b`: the state stays attained and
`T`-above the incoming bound, does not get worse, and now dominates the whole branch -/
theorem bbStep_ok (C : ChooseLaws B R T) {rest : List Nat} {x : Nat} {asg : PM} (hx : x < asg.vals.length)
    (hasg : asg.vals.length = N)
    (hub : ∀ m q, m.vals.length = N → Consistent m rest q →
      R (bbUb B p (complete m rest q) [] w) (bbUb B p m rest w))
    (ih : ∀ lb best m, m.vals.length = N →
      BbRes T (fun m bits => bbUb B p m bits w) lb best rest m (bbH B p w lb best rest m))
    (curLb : α) (curBest : PM) (st : α × PM) (b : Bool)
    (h1 : T curLb st.1)
    (h2 : st = (curLb, curBest) ∨
      (Completes asg (x :: rest) st.2 ∧ st.1 = bbUb B p st.2 [] w)) :
    let st' := bbStep B (fun lb best pm => bbH B p w lb best rest pm) curLb curBest st
      (bbUb B p (asg.set x b) rest w) (asg.set x b)
    T curLb st'.1 ∧
    (st' = (curLb, curBest) ∨ (Completes asg (x :: rest) st'.2 ∧ st'.1 = bbUb B p st'.2 [] w)) ∧
    T st.1 st'.1 ∧
    (∀ q, Consistent (asg.set x b) rest q →
      T (bbUb B p (complete (asg.set x b) rest q) [] w) st'.1) := by
  have hlen : (asg.set x b).vals.length = N := by rw [PM.length_set, hasg]
  simp only [bbStep]
  by_cases hle : B.le (bbUb B p (asg.set x b) rest w) curLb = true
  · -- pruned
    simp only [hle, Bool.not_true, Bool.false_eq_true, if_false]
    exact ⟨h1, h2, C.t_refl _, fun q hq => C.t_trans (C.prune hle (hub _ q hlen hq)) h1⟩
  · have hle' : (!B.le (bbUb B p (asg.set x b) rest w) curLb) = true := by simpa using hle
    simp only [hle', if_true]
    have H := ih st.1 st.2 (asg.set x b) hlen
    generalize bbH B p w st.1 st.2 rest (asg.set x b) = r at H ⊢
    by_cases hbeq : B.beq (B.choose curLb r.1) r.1 = true
    · simp only [hbeq, if_true]
      refine ⟨C.t_trans h1 H.ge_lb, ?_, H.ge_lb, H.ub⟩
      rcases H.att with e | ⟨hc, hv⟩
      · have : r = st := e
        rw [this]; exact h2
      · exact Or.inr ⟨hc.step hx, hv⟩
    · simp only [hbeq, Bool.false_eq_true, if_false]
      have hne : B.choose curLb r.1 ≠ r.1 := fun e => hbeq ((C.beq_iff _ _).mpr e)
      have hch : B.choose curLb r.1 = curLb := by
        rcases C.choose_or curLb r.1 with e | e
        · exact e
        · exact absurd e hne
      have hr : T r.1 curLb := by have := C.choose_right curLb r.1; rwa [hch] at this
      exact ⟨C.t_refl _, Or.inl trivial, C.t_trans H.ge_lb hr, fun q hq => C.t_trans (H.ub q hq) hr⟩

/-- **`bbH_opt`** -/
theorem bbH_opt (C : ChooseLaws B R T) {P : Nat → Prop} (hPN : ∀ x, P x → x < N)
    (hub : ∀ bits m q, m.vals.length = N → (∀ x ∈ bits, P x) → Consistent m bits q →
      R (bbUb B p (complete m bits q) [] w) (bbUb B p m bits w)) :
    ∀ (Q : List Nat), (∀ x ∈ Q, P x) → ∀ (lb : α) (best asg : PM), asg.vals.length = N →
    BbRes T (fun m bits => bbUb B p m bits w) lb best Q asg (bbH B p w lb best Q asg)
  | [], _, lb, best, asg, _ => by
    simp only [bbH]
    by_cases hb : B.beq lb (B.choose lb (bbUb B p asg [] w)) = true
    · simp only [hb, if_true]
      have e := (C.beq_iff _ _).mp hb
      have := C.choose_right lb (bbUb B p asg [] w)
      rw [← e] at this
      exact ⟨C.t_refl _, fun q _ => this, Or.inl rfl⟩
    · simp only [hb, Bool.false_eq_true, if_false]
      have hne : B.choose lb (bbUb B p asg [] w) ≠ lb := fun e => hb ((C.beq_iff _ _).mpr e.symm)
      have hch : B.choose lb (bbUb B p asg [] w) = bbUb B p asg [] w := by
        rcases C.choose_or lb (bbUb B p asg [] w) with e | e
        · exact absurd e hne
        · exact e
      have := C.choose_left lb (bbUb B p asg [] w)
      rw [hch] at this
      exact ⟨this, fun q _ => C.t_refl _, Or.inr ⟨Completes.refl asg, rfl⟩⟩
  | x :: rest, hQ, lb, best, asg, hasg => by
    have hrest : ∀ z ∈ rest, P z := fun z hz => hQ z (List.mem_cons_of_mem _ hz)
    have hx : x < asg.vals.length := by rw [hasg]; exact hPN x (hQ x List.mem_cons_self)
    have ih := bbH_opt C hPN hub rest hrest
    have hub' : ∀ m q, m.vals.length = N → Consistent m rest q →
        R (bbUb B p (complete m rest q) [] w) (bbUb B p m rest w) :=
      fun m q hm hq => hub rest m q hm hrest hq
    -- both orders of the two branches
    have two : ∀ b1 b2 : Bool, (∀ b, b = b1 ∨ b = b2) →
        BbRes T (fun m bits => bbUb B p m bits w) lb best (x :: rest) asg
          (bbStep B (fun lb best pm => bbH B p w lb best rest pm) lb best
            (bbStep B (fun lb best pm => bbH B p w lb best rest pm) lb best (lb, best)
              (bbUb B p (asg.set x b1) rest w) (asg.set x b1))
            (bbUb B p (asg.set x b2) rest w) (asg.set x b2)) := by
      intro b1 b2 hb
      obtain ⟨a1, a2, _, a4⟩ := bbStep_ok C hx hasg hub' ih lb best (lb, best) b1 (C.t_refl _) (Or.inl rfl)
      generalize bbStep B (fun lb best pm => bbH B p w lb best rest pm) lb best (lb, best)
        (bbUb B p (asg.set x b1) rest w) (asg.set x b1) = s1 at a1 a2 a4 ⊢
      obtain ⟨c1, c2, c3, c4⟩ := bbStep_ok C hx hasg hub' ih lb best s1 b2 a1 a2
      generalize bbStep B (fun lb best pm => bbH B p w lb best rest pm) lb best s1
        (bbUb B p (asg.set x b2) rest w) (asg.set x b2) = s2 at c1 c2 c3 c4 ⊢
      refine ⟨c1, fun q hq => ?_, c2⟩
      rw [complete]
      have hq' := hq.step hx
      rcases hb (q x) with e | e
      · rw [e] at hq' ⊢; exact C.t_trans (a4 q hq') c3
      · rw [e] at hq' ⊢; exact c4 q hq'
    simp only [bbH]
    split
    · exact two true false (fun b => by cases b <;> simp)
    · exact two false true (fun b => by cases b <;> simp)

end bbsearch

/-! ### top level of `bb` -/

theorem bb_top {T : α → α → Prop} {ev : PM → List Nat → α} {n : Nat} {Q : List Nat}
    (hQ : ∀ x ∈ Q, x < n) {r : α × PM}
    (H : BbRes T ev (ev (complete (PM.new n) Q (fun _ => true)) [])
      (complete (PM.new n) Q (fun _ => true)) Q (PM.new n) r) :
    Completes (PM.new n) Q r.2 ∧ r.1 = ev r.2 [] := by
  have hQ' : ∀ x ∈ Q, x < (PM.new n).vals.length := by simpa using hQ
  rcases H.att with e | ⟨hc, hv⟩
  · rw [e]; exact ⟨completes_complete _ Q _ hQ', rfl⟩
  · exact ⟨hc, hv⟩

theorem bb_unfold (B : BBOps α) (p : Ptr) (Q : List Nat) (n : Nat) (w : Weights α) :
    bb B p Q n w = bbH B p w (bbUb B p (complete (PM.new n) Q (fun _ => true)) [] w)
      (complete (PM.new n) Q (fun _ => true)) Q (PM.new n) := by
  simp only [bb, fromLitvec_map_true, fromLitvec_nil]

/-- the function the fold sees with the query variables assigned is the restricted function -/
theorem restrict_eq {n : Nat} {Q : List Nat} {c : PM} (hc : Completes (PM.new n) Q c) (p : Ptr) :
    (fun b => xor false (p.eval (overridePM c b))) = restrictTo Q c.toAssign p.eval := by
  have hget := completes_new_get hc
  funext b
  simp only [restrictTo, Bool.false_bne]
  congr 1
  funext x
  by_cases hx : x ∈ Q
  · have hc' : Q.contains x = true := by simpa using hx
    rw [if_pos hc']
    cases hg : c.get x with
    | none => exact absurd hg ((hget x).mpr hx)
    | some bv => rw [overridePM_assigned hg, c.toAssign_agrees x bv hg]
  · have hc' : ¬ Q.contains x = true := by simpa using hx
    have hg : c.get x = none := by
      apply Classical.byContradiction; intro hne; exact hx ((hget x).mp hne)
    rw [if_neg hc']; simp [overridePM, hg]

theorem litProd_completes (hS : S.Laws) (w : Weights α) {n : Nat} {Q : List Nat} (hQ : ∀ x ∈ Q, x < n)
    {c : PM} (hc : Completes (PM.new n) Q c) : litProd S w c = qWeight S w c.toAssign Q [] := by
  have hQ' : ∀ x ∈ Q, x < (PM.new n).vals.length := by simpa using hQ
  conv => lhs; rw [completes_new_eq hQ hc]
  rw [litProd_complete hS w c.toAssign Q [] (PM.new n) hQ' (fun x => by simp [PM.get_new])
    (fun x b hx => by rw [PM.get_new] at hx; cases hx), litProd_new, Bdd.sr_one_mul hS]

/-- **`eval_complete`, path-count form** (reduced ordered diagram; arbitrary weights except that a
non-normalised non-query variable has no query variable below it) -/
theorem bbUb_complete_pathCount (hS : B.toSROps.Laws) (w : Weights α) {order : List Nat} {p : Ptr}
    (hnd : order.Nodup) (hp : Robdd order p) {n : Nat} {Q : List Nat} (hQ : ∀ x ∈ Q, x < n)
    (hafter : QueryAfter B.toSROps w Q order) {c : PM} (hc : Completes (PM.new n) Q c) :
    bbUb B p c [] w = bbValue B.toSROps p.eval Q order w c.toAssign := by
  rw [bbUb_eq hS, litProd_completes hS w hQ hc,
    relax_sum_pathCount hS w c hp hnd (orderOK_of_queryAfter (completes_new_get hc) order hafter) false
      (fun _ => false), restrict_eq hc p, bbValue,
    pathCountX_eq _ w order _ _ (dependsOn_restrictTo hp.vars_sub Q _)]

/-- the weight domain of the generic branch and bound -/
structure BbWeights (B : BBOps α) (R : α → α → Prop) (w : Weights α) (Q order : List Nat) : Prop where
  nonneg : ∀ v, R B.zero (w v).1 ∧ R B.zero (w v).2
  join : ∀ x ∈ Q, ∀ b, JoinWeight B R (wsel w x b)
  after : QueryAfter B.toSROps w Q order

/-- **`bb_opt`**: for a `BBSemiring` satisfying `BBLaws` and `ChooseLaws`, `bb` returns a value
that is `T`-maximal among the values of all query assignments, together with a model that
assigns exactly the query variables and attains it. -/
theorem bb_opt {T : α → α → Prop} (L : BBLaws B R) (C : ChooseLaws B R T) {w : Weights α}
    {Q order : List Nat} (hw : BbWeights B R w Q order) {p : Ptr} (hnd : order.Nodup)
    (hp : Robdd order p) {n : Nat} (hQ : ∀ x ∈ Q, x < n) :
    (∀ q ∈ queryAssignments Q, T (bbValue B.toSROps p.eval Q order w q) (bb B p Q n w).1) ∧
    Completes (PM.new n) Q (bb B p Q n w).2 ∧
    (bb B p Q n w).2.toAssign ∈ queryAssignments Q ∧
    bbValue B.toSROps p.eval Q order w (bb B p Q n w).2.toAssign = (bb B p Q n w).1 := by
  have hQ' : ∀ x ∈ Q, x < (PM.new n).vals.length := by simpa using hQ
  have H := bbH_opt (T := T) (p := p) (w := w) (N := n) C (P := fun x => x < n ∧ x ∈ Q) (fun x h => h.1)
    (fun bits m q hm hbits hq => ub_sound L w hw.nonneg p (hp.free hnd) q bits m
      (fun x hx => by rw [hm]; exact (hbits x hx).1) (fun x hx b => hw.join x (hbits x hx).2 b) hq)
    Q (fun x hx => ⟨hQ x hx, hx⟩) (bbUb B p (complete (PM.new n) Q (fun _ => true)) [] w)
    (complete (PM.new n) Q (fun _ => true)) (PM.new n) (PM.length_new n)
  rw [← bb_unfold] at H
  generalize bb B p Q n w = r at H ⊢
  obtain ⟨hc, hv⟩ := bb_top hQ H
  have hval : bbValue B.toSROps p.eval Q order w r.2.toAssign = r.1 := by
    rw [hv]; exact (bbUb_complete_pathCount L.sr w hnd hp hQ hw.after hc).symm
  refine ⟨fun q hq => ?_, hc, toAssign_mem_queryAssignments hc, hval⟩
  have h1 := H.ub q (consistent_new n Q q)
  rwa [bbUb_complete_pathCount L.sr w hnd hp hQ hw.after (completes_complete q Q _ hQ'),
    toAssign_complete_new hQ hq] at h1

/-! ### the `choose`-fold of the oracle -/

theorem foldl_choose_mem {T : α → α → Prop} (C : ChooseLaws B R T) : ∀ (xs : List α) (x : α),
    xs.foldl B.choose x ∈ x :: xs
  | [], x => by simp
  | y :: ys, x => by
    have ih := foldl_choose_mem C ys (B.choose x y)
    simp only [List.foldl_cons]
    rcases List.mem_cons.mp ih with e | e
    · rw [e]
      rcases C.choose_or x y with e' | e' <;> simp [e']
    · exact List.mem_cons_of_mem _ (List.mem_cons_of_mem _ e)

theorem foldl_choose_ub {T : α → α → Prop} (C : ChooseLaws B R T) : ∀ (xs : List α) (x y : α),
    y ∈ x :: xs → T y (xs.foldl B.choose x)
  | [], x, y, h => by simp at h; rw [h]; exact C.t_refl _
  | z :: zs, x, y, h => by
    simp only [List.foldl_cons]
    have ih := foldl_choose_ub C zs (B.choose x z)
    rcases List.mem_cons.mp h with e | e
    · rw [e]; exact C.t_trans (C.choose_left x z) (ih _ List.mem_cons_self)
    · rcases List.mem_cons.mp e with e' | e'
      · rw [e']; exact C.t_trans (C.choose_right x z) (ih _ List.mem_cons_self)
      · exact ih y (List.mem_cons_of_mem _ e')

/-- the returned value and the oracle's `choose`-fold are `T`-equivalent -/
theorem bb_opt_spec {T : α → α → Prop} (L : BBLaws B R) (C : ChooseLaws B R T) {w : Weights α}
    {Q order : List Nat} (hw : BbWeights B R w Q order) {p : Ptr} (hnd : order.Nodup)
    (hp : Robdd order p) {n : Nat} (hQ : ∀ x ∈ Q, x < n) :
    T (bbSpec B.toSROps B.choose p.eval Q order w) (bb B p Q n w).1 ∧
    T (bb B p Q n w).1 (bbSpec B.toSROps B.choose p.eval Q order w) := by
  obtain ⟨h1, _, h3, h4⟩ := bb_opt L C hw hnd hp hQ
  have hmem : (bb B p Q n w).1 ∈ (queryAssignments Q).map (bbValue B.toSROps p.eval Q order w) :=
    List.mem_map.mpr ⟨_, h3, h4⟩
  have hall : ∀ y ∈ (queryAssignments Q).map (bbValue B.toSROps p.eval Q order w),
      T y (bb B p Q n w).1 := by
    intro y hy
    obtain ⟨q, hq, rfl⟩ := List.mem_map.mp hy
    exact h1 q hq
  simp only [bbSpec]
  generalize (queryAssignments Q).map (bbValue B.toSROps p.eval Q order w) = l at hmem hall
  cases l with
  | nil => simp at hmem
  | cons x xs => exact ⟨hall _ (foldl_choose_mem C xs x), foldl_choose_ub C xs x _ hmem⟩

/-! ### the two shipped instances -/

theorem realChooseLaws : ChooseLaws realBB (fun a b : Rat => a ≤ b) (fun a b : Rat => a ≤ b) where
  beq_iff a b := by simp [realBB]
  choose_or a b := by simp only [realBB, realChoose, realJoin]; grind
  choose_left a b := by simp only [realBB, realChoose, realJoin]; grind
  choose_right a b := by simp only [realBB, realChoose, realJoin]; grind
  t_refl a := Rat.le_refl
  t_trans h1 h2 := Rat.le_trans h1 h2
  prune {ub lb c} h hc := by
    have : ub ≤ lb := by simpa [realBB] using h
    exact Rat.le_trans hc this

/-- `choose` on `ExpectedUtility` maximises the utility component -/
def euT (a b : EU) : Prop := a.u ≤ b.u

theorem euLe_u {a b : EU} (h : euLe a b = true) : a.u ≤ b.u := by
  simp only [euLe] at h
  split at h
  · rename_i h'; exact Rat.le_of_lt (euPartialCmp_lt.mp h').2
  · rename_i h'; rw [euPartialCmp_eq.mp h']; exact Rat.le_refl
  · cases h

theorem euChooseLaws : ChooseLaws euBB euR euT where
  beq_iff a b := by simp [euBB]
  choose_or a b := by simp only [euBB, euChoose]; split <;> simp
  choose_left a b := by simp only [euBB, euChoose, euT]; split <;> grind
  choose_right a b := by simp only [euBB, euChoose, euT]; split <;> grind
  t_refl a := Rat.le_refl
  t_trans h1 h2 := Rat.le_trans h1 h2
  prune h hc := Rat.le_trans hc.2 (euLe_u h)

theorem MapWeights.bbWeights {w : Weights Rat} {Q order : List Nat} (h : MapWeights w Q order) :
    BbWeights realBB (fun a b : Rat => a ≤ b) w Q order where
  nonneg := h.nonneg
  join := h.joinWeight
  after := queryAfter_of_normalised order (fun v hv hvQ => h.normalised v hv hvQ)

theorem MeuWeights.bbWeights {w : Weights EU} {D order : List Nat} (h : MeuWeights w D order) :
    BbWeights euBB euR w D order where
  nonneg v := ⟨euR_zero.mpr (h.nonneg v).1, euR_zero.mpr (h.nonneg v).2⟩
  join x hx b := by
    have e : wsel w x b = euOne := by simp only [wsel, h.unit x hx]; split <;> rfl
    rw [e]; exact euJoinWeight_one
  after := h.after

/-- `bb` at `RealSemiring` computes the marginal MAP (same statement as `marginalMap_opt`) -/
theorem bb_real_opt {w : Weights Rat} {Q vars : List Nat} (hw : MapWeights w Q vars) {p : Ptr}
    (hp : p.free) (hnd : vars.Nodup) (hcov : ∀ v ∈ p.vars, v ∈ vars) {n : Nat} (hQ : ∀ x ∈ Q, x < n) :
    (bb realBB p Q n w).1 = mapSpec p.eval Q vars w ∧
    Completes (PM.new n) Q (bb realBB p Q n w).2 ∧
    (bb realBB p Q n w).2.toAssign ∈ queryAssignments Q ∧
    mapValue p.eval Q (nonQuery vars Q) w (bb realBB p Q n w).2.toAssign = (bb realBB p Q n w).1 := by
  have hQ' : ∀ x ∈ Q, x < (PM.new n).vals.length := by simpa using hQ
  have H := bbH_opt (p := p) (w := w) (N := n) realChooseLaws (P := fun x => x < n ∧ x ∈ Q) (fun x h => h.1)
    (fun bits m q hm hbits hq => ub_sound realBBLaws w hw.nonneg p hp q bits m
      (fun x hx => by rw [hm]; exact (hbits x hx).1) (fun x hx b => hw.joinWeight x (hbits x hx).2 b) hq)
    Q (fun x hx => ⟨hQ x hx, hx⟩) (bbUb realBB p (complete (PM.new n) Q (fun _ => true)) [] w)
    (complete (PM.new n) Q (fun _ => true)) (PM.new n) (PM.length_new n)
  rw [← bb_unfold] at H
  generalize bb realBB p Q n w = r at H ⊢
  obtain ⟨hc, hv⟩ := bb_top hQ H
  have hval : mapValue p.eval Q (nonQuery vars Q) w r.2.toAssign = r.1 := by
    rw [hv, ← marginalMapEval_eq]; exact (map_eval_complete hw hp hnd hcov hQ hc).symm
  refine ⟨?_, hc, toAssign_mem_queryAssignments hc, hval⟩
  symm
  apply maxOfList_eq
  · intro y hy
    obtain ⟨q, hq, rfl⟩ := List.mem_map.mp hy
    have h1 := H.ub q (consistent_new n Q q)
    rwa [← marginalMapEval_eq, map_eval_complete hw hp hnd hcov hQ (completes_complete q Q _ hQ'),
      toAssign_complete_new hQ hq] at h1
  · exact List.mem_map.mpr ⟨_, toAssign_mem_queryAssignments hc, hval⟩

/-- `bb` at `ExpectedUtility` computes the maximum expected utility (same statement as `meu_opt`) -/
theorem bb_eu_opt {w : Weights EU} {D order : List Nat} (hw : MeuWeights w D order) {p : Ptr}
    (hnd : order.Nodup) (hp : Robdd order p) {n : Nat} (hD : ∀ x ∈ D, x < n) :
    (bb euBB p D n w).1.u = meuSpec p.eval D order w ∧
    Completes (PM.new n) D (bb euBB p D n w).2 ∧
    (bb euBB p D n w).2.toAssign ∈ queryAssignments D ∧
    meuValue p.eval D order w (bb euBB p D n w).2.toAssign = (bb euBB p D n w).1 := by
  have hD' : ∀ x ∈ D, x < (PM.new n).vals.length := by simpa using hD
  have hbw := hw.bbWeights
  have H := bbH_opt (p := p) (w := w) (N := n) euChooseLaws (P := fun x => x < n ∧ x ∈ D) (fun x h => h.1)
    (fun bits m q hm hbits hq => ub_sound euBBLaws w hbw.nonneg p (hp.free hnd) q bits m
      (fun x hx => by rw [hm]; exact (hbits x hx).1) (fun x hx b => hbw.join x (hbits x hx).2 b) hq)
    D (fun x hx => ⟨hD x hx, hx⟩) (bbUb euBB p (complete (PM.new n) D (fun _ => true)) [] w)
    (complete (PM.new n) D (fun _ => true)) (PM.new n) (PM.length_new n)
  rw [← bb_unfold] at H
  generalize bb euBB p D n w = r at H ⊢
  obtain ⟨hc, hv⟩ := bb_top hD H
  have hunit : ∀ {c : PM}, Completes (PM.new n) D c → UnitOn w c [] := by
    intro c hc x hx
    rcases hx with hx | hx
    · exact hw.unit x ((completes_new_get hc x).mp hx)
    · simp at hx
  have hval : meuValue p.eval D order w r.2.toAssign = r.1 := by
    rw [hv, ← euUb_eq_bbUb p _ _ w (hunit hc)]; exact (meu_eval_complete hw hnd hp hc).symm
  refine ⟨?_, hc, toAssign_mem_queryAssignments hc, hval⟩
  symm
  apply maxOfList_eq
  · intro y hy
    obtain ⟨q, hq, rfl⟩ := List.mem_map.mp hy
    have hcq := completes_complete q D _ hD'
    have h1 := H.ub q (consistent_new n D q)
    rw [← euUb_eq_bbUb p _ _ w (hunit hcq), meu_eval_complete hw hnd hp hcq,
      toAssign_complete_new hD hq] at h1
    exact h1
  · exact List.mem_map.mpr ⟨_, toAssign_mem_queryAssignments hc, by rw [hval]⟩

end Optim
