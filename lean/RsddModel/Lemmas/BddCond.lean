import RsddModel.Model.BddBuilder
/-!
# Lemmas: the per-call memo of `cond_with_alloc` is transparent

`condWithAlloc` (the model of `RobddBuilder::cond_with_alloc`, with its `HashMap` memo as an
association list) returns exactly what the memo-free reading `condPure` returns, as long as
the memo only holds results of the *same* `(x, value)` conditioning — which is what a fresh
memo per call (`cond_helper`) guarantees.
-/
namespace Bdd
open Spec

@[simp] theorem isNeg_node (c v lo hi) : (Ptr.node c v lo hi).isNeg = c := by cases c <;> rfl

/-- memo invariant: the entry under the signed pointer `k` holds the result for the regular
polarity, i.e. re-applying `k`'s sign gives `condPure k` -/
def MemoOK (lvl : Nat → Nat) (x : Nat) (b : Bool) (m : Memo) : Prop :=
  ∀ k v, Memo.get m k = some v → (if k.isNeg then v.neg else v) = condPure lvl x b k

theorem memoOK_nil (lvl x b) : MemoOK lvl x b [] := by
  intro k v h; simp [Memo.get] at h

theorem memoOK_cons {lvl x b m} (hm : MemoOK lvl x b m) (k v : Ptr)
    (hkv : (if k.isNeg then v.neg else v) = condPure lvl x b k) : MemoOK lvl x b ((k, v) :: m) := by
  intro k' v' h
  simp only [Memo.get] at h
  split at h
  · rename_i e; cases h; subst e; exact hkv
  · exact hm _ _ h

/-- the memo invariant is kept, and the result is the memo-free one -/
theorem condWithAlloc_spec (lvl : Nat → Nat) (x : Nat) (b : Bool) :
    ∀ (p : Ptr) (m : Memo), MemoOK lvl x b m →
      MemoOK lvl x b (condWithAlloc lvl x b p m).1 ∧
      (condWithAlloc lvl x b p m).2 = condPure lvl x b p := by
  intro p
  induction p with
  | tru => intro m hm; exact ⟨hm, rfl⟩
  | fls => intro m hm; exact ⟨hm, rfl⟩
  | node c y lo hi ihlo ihhi =>
    intro m hm
    by_cases h1 : lvl x < lvl y
    · simp only [condWithAlloc, condPure, h1, if_true]; exact ⟨hm, trivial⟩
    · by_cases h2 : y = x
      · subst h2
        simp only [condWithAlloc, condPure, h1, if_true, if_false]; exact ⟨hm, trivial⟩
      · cases hget : Memo.get m (Ptr.node c y lo hi) with
        | some v =>
          have := hm _ _ hget
          simp only [isNeg_node] at this
          simp only [condWithAlloc, h1, h2, if_false, hget]
          exact ⟨hm, this⟩
        | none =>
          generalize hr1 : condWithAlloc lvl x b lo m = r1
          obtain ⟨m1, l⟩ := r1
          obtain ⟨hm1, e1⟩ := ihlo m hm
          rw [hr1] at hm1 e1
          generalize hr2 : condWithAlloc lvl x b hi m1 = r2
          obtain ⟨m2, h⟩ := r2
          obtain ⟨hm2, e2⟩ := ihhi m1 hm1
          rw [hr2] at hm2 e2
          simp only at e1 e2 hm1 hm2
          subst e1 e2
          rw [condPure]
          simp only [condWithAlloc, h1, h2, if_false, hget, hr1, hr2]
          split
          · exact ⟨hm2, rfl⟩
          · refine ⟨memoOK_cons hm2 _ _ ?_, rfl⟩
            rw [condPure]
            simp only [if_false, isNeg_node, *]
            cases c <;> simp

/-- **memo transparency**: with a memo satisfying the invariant (in particular the fresh one
of `cond_helper`), `cond_with_alloc` computes the memo-free function -/
theorem condWithAlloc_eq_pure' (lvl : Nat → Nat) (x : Nat) (b : Bool) (p : Ptr) (m : Memo)
    (hm : MemoOK lvl x b m) : (condWithAlloc lvl x b p m).2 = condPure lvl x b p :=
  (condWithAlloc_spec lvl x b p m hm).2

theorem condWithAlloc_eq_pure (lvl : Nat → Nat) (x : Nat) (b : Bool) (p : Ptr) :
    (condWithAlloc lvl x b p []).2 = condPure lvl x b p :=
  condWithAlloc_eq_pure' lvl x b p [] (memoOK_nil lvl x b)

theorem condition_eq_pure (lvl : Nat → Nat) (p : Ptr) (x : Nat) (b : Bool) :
    condition lvl p x b = condPure lvl x b p := condWithAlloc_eq_pure lvl x b p

#print axioms condWithAlloc_eq_pure
end Bdd
