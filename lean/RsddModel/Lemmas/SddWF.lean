import RsddModel.Lemmas.SddSem
import RsddModel.Lemmas.SddOrder
/-!
# SDD lemmas, part 3: structural well-formedness (`WFs`) and canonicity (towards C04)

`WFs vt p` is the full "compressed, trimmed, normalised" predicate:
* primes non-false, pairwise exclusive and exhaustive (`Partition`), over the variables of the
  left child of the node's vtree index; subs over the variables of the right child and pairwise
  distinct; the node is not trimmable;
* plus the normal-form clauses that make *pointer identity* canonical in this implementation:
  elements strictly sorted by prime (the derived `Ord`), complement bit normalised on the first
  sub (`unique_or`) / on the high edge (`unique_bdd`), two-literal-prime decisions are binary nodes.
-/
namespace Sdd
open Spec

/-! ## variables, size -/

mutual
def Ptr.vars : Ptr → List Nat
  | .tru => []
  | .fls => []
  | .lit v _ => [v]
  | .bdd _ l _ lo hi => l :: (lo.vars ++ hi.vars)
  | .dec _ _ es => varsElems es
def varsElems : List (Ptr × Ptr) → List Nat
  | [] => []
  | (p, s) :: r => p.vars ++ (s.vars ++ varsElems r)
end

mutual
def Ptr.size : Ptr → Nat
  | .tru => 1
  | .fls => 1
  | .lit _ _ => 1
  | .bdd _ _ _ lo hi => 1 + lo.size + hi.size
  | .dec _ _ es => 1 + sizeElems es
def sizeElems : List (Ptr × Ptr) → Nat
  | [] => 0
  | (p, s) :: r => p.size + s.size + sizeElems r
end

theorem vars_neg (p : Ptr) : p.neg.vars = p.vars := by cases p <;> simp [Ptr.neg, Ptr.vars]
theorem size_neg (p : Ptr) : p.neg.size = p.size := by cases p <;> simp [Ptr.neg, Ptr.size]
theorem size_pos (p : Ptr) : 0 < p.size := by cases p <;> simp [Ptr.size] <;> omega

theorem mem_varsElems {v : Nat} {es : List Elem} :
    v ∈ varsElems es ↔ ∃ e ∈ es, v ∈ e.1.vars ∨ v ∈ e.2.vars := by
  induction es with
  | nil => simp [varsElems]
  | cons e l ih =>
    obtain ⟨p, s⟩ := e
    simp only [varsElems, List.mem_append, ih, List.mem_cons, exists_eq_or_imp]
    constructor
    · rintro (h | h | h)
      · exact Or.inl (Or.inl h)
      · exact Or.inl (Or.inr h)
      · exact Or.inr h
    · rintro ((h | h) | h)
      · exact Or.inl h
      · exact Or.inr (Or.inl h)
      · exact Or.inr (Or.inr h)

theorem size_lt_of_mem {e : Elem} {es : List Elem} (h : e ∈ es) :
    e.1.size + e.2.size ≤ sizeElems es := by
  induction es with
  | nil => cases h
  | cons x l ih =>
    obtain ⟨p, s⟩ := x
    simp only [sizeElems]
    rcases List.mem_cons.1 h with rfl | h'
    · simp only; omega
    · have := ih h'; omega

mutual
theorem eval_congr : ∀ (p : Ptr) {a a' : Assign}, (∀ v ∈ p.vars, a v = a' v) → p.eval a = p.eval a'
  | .tru, _, _, _ => rfl
  | .fls, _, _, _ => rfl
  | .lit v pol, a, a', h => by
    have := h v (by simp [Ptr.vars]); simp [eval_lit, this]
  | .bdd c l i lo hi, a, a', h => by
    have h1 := h l (by simp [Ptr.vars])
    have h2 := eval_congr lo (a := a) (a' := a') (fun v hv => h v (by simp [Ptr.vars, hv]))
    have h3 := eval_congr hi (a := a) (a' := a') (fun v hv => h v (by simp [Ptr.vars, hv]))
    simp [eval_bdd, h1, h2, h3]
  | .dec c i es, a, a', h => by
    have := evalElems_congr es (a := a) (a' := a') (fun v hv => h v (by simpa [Ptr.vars] using hv))
    simp [eval_dec, this]
theorem evalElems_congr : ∀ (es : List (Ptr × Ptr)) {a a' : Assign},
    (∀ v ∈ varsElems es, a v = a' v) → evalElems a es = evalElems a' es
  | [], _, _, _ => rfl
  | (p, s) :: r, a, a', h => by
    have h1 := eval_congr p (a := a) (a' := a') (fun v hv => h v (by simp [varsElems, hv]))
    have h2 := eval_congr s (a := a) (a' := a') (fun v hv => h v (by simp [varsElems, hv]))
    have h3 := evalElems_congr r (a := a) (a' := a') (fun v hv => h v (by simp [varsElems, hv]))
    simp [h1, h2, h3]
end

/-! ## essential dependence -/

/-- `f` really depends on `v` -/
def EssDep (f : BoolFn) (v : Nat) : Prop := ∃ a, f (upd a v true) ≠ f (upd a v false)

/-- take the variables in `L` from `α`, the others from `β` -/
def mix (L : List Nat) (α β : Assign) : Assign := fun v => if v ∈ L then α v else β v

theorem mix_in {L α β v} (h : v ∈ L) : mix L α β v = α v := by simp [mix, h]
theorem mix_out {L α β v} (h : v ∉ L) : mix L α β v = β v := by simp [mix, h]

/-- two assignments that differ only inside `L` and are told apart by `f` witness an essential
variable of `f` in `L` -/
theorem essDep_of_diff (f : BoolFn) : ∀ (L : List Nat) (a a' : Assign),
    (∀ v, v ∉ L → a v = a' v) → f a ≠ f a' → ∃ v ∈ L, EssDep f v
  | [], a, a', hag, hne => by
    have : a = a' := funext fun v => hag v (by simp)
    exact absurd (this ▸ rfl) hne
  | x :: L, a, a', hag, hne => by
    -- move `a` to `a'` on `x` first
    let a1 : Assign := upd a x (a' x)
    by_cases h1 : f a = f a1
    · have hag' : ∀ v, v ∉ L → a1 v = a' v := by
        intro v hv
        by_cases hvx : v = x
        · subst hvx; simp [a1]
        · simp only [a1, upd, hvx, if_false]; exact hag v (by simp [hvx, hv])
      obtain ⟨v, hv, hd⟩ := essDep_of_diff f L a1 a' hag' (by rw [← h1]; exact hne)
      exact ⟨v, List.mem_cons_of_mem _ hv, hd⟩
    · refine ⟨x, List.mem_cons_self .., a, ?_⟩
      have ea : upd a x (a x) = a := upd_eq_self a x
      intro hc
      apply h1
      show f a = f (upd a x (a' x))
      cases hax : a x <;> cases hax' : a' x
      · rw [← hax, ea]
      · conv => lhs; rw [← ea, hax]
        exact hc.symm
      · conv => lhs; rw [← ea, hax]
        exact hc
      · rw [← hax, ea]

theorem essDep_vars {p : Ptr} {v : Nat} (h : EssDep (fun a => p.eval a) v) : v ∈ p.vars := by
  obtain ⟨a, ha⟩ := h
  apply Classical.byContradiction
  intro hv
  apply ha
  apply eval_congr
  intro w hw
  have : w ≠ v := fun e => hv (e ▸ hw)
  simp [upd, this]

/-! ## strictly sorted element lists -/

def StrictSorted (es : List Elem) : Prop := es.Pairwise (fun e f => Ptr.cmp e.1 f.1 = .lt)

theorem strictSorted_negSubs {es : List Elem} (h : StrictSorted es) : StrictSorted (negSubs es) := by
  unfold StrictSorted negSubs
  rw [List.pairwise_map]
  exact h

theorem strictSorted_insert {x : Elem} {l : List Elem} (hl : StrictSorted l)
    (hx : ∀ e ∈ l, e.1 ≠ x.1) : StrictSorted (insertByPrime x l) := by
  induction l with
  | nil => simp [insertByPrime, StrictSorted]
  | cons y ys ih =>
    have hy := List.pairwise_cons.1 hl
    simp only [insertByPrime]
    split
    · rename_i hgt
      have hlt : Ptr.cmp y.1 x.1 = .lt := Ptr.cmp_gt_iff.1 hgt
      refine List.pairwise_cons.2 ⟨?_, ih hy.2 (fun e he => hx e (List.mem_cons_of_mem _ he))⟩
      intro e he
      rcases mem_insertByPrime.1 he with rfl | h'
      · exact hlt
      · exact hy.1 e h'
    · rename_i hngt
      have hlt : Ptr.cmp x.1 y.1 = .lt := by
        cases hc : Ptr.cmp x.1 y.1
        · rfl
        · exact absurd (Ptr.cmp_eq _ _ hc).symm (hx y (List.mem_cons_self ..))
        · exact absurd hc hngt
      refine List.pairwise_cons.2 ⟨?_, hl⟩
      intro e he
      rcases List.mem_cons.1 he with rfl | h'
      · exact hlt
      · exact Ptr.cmp_lt_trans hlt (hy.1 e h')

theorem strictSorted_sort {l : List Elem} (h : (l.map (·.1)).Nodup) :
    StrictSorted (sortByPrime l) := by
  induction l with
  | nil => simp [sortByPrime, StrictSorted]
  | cons x xs ih =>
    simp only [List.map_cons, List.nodup_cons] at h
    simp only [sortByPrime]
    refine strictSorted_insert (ih h.2) ?_
    intro e he heq
    rw [mem_sortByPrime] at he
    exact h.1 (heq ▸ List.mem_map_of_mem he)

/-- two strictly sorted lists with the same members are equal -/
theorem strictSorted_ext : ∀ {l1 l2 : List Elem}, StrictSorted l1 → StrictSorted l2 →
    (∀ e, e ∈ l1 ↔ e ∈ l2) → l1 = l2
  | [], [], _, _, _ => rfl
  | [], y :: _, _, _, h => by have := (h y).2 (List.mem_cons_self ..); cases this
  | x :: _, [], _, _, h => by have := (h x).1 (List.mem_cons_self ..); cases this
  | x :: xs, y :: ys, h1, h2, h => by
    have p1 := List.pairwise_cons.1 h1
    have p2 := List.pairwise_cons.1 h2
    have hxy : x = y := by
      have hx := (h x).1 (List.mem_cons_self ..)
      have hy := (h y).2 (List.mem_cons_self ..)
      rcases List.mem_cons.1 hx with e | hx'
      · exact e
      · rcases List.mem_cons.1 hy with e | hy'
        · exact e.symm
        · exact absurd (p1.1 y hy') (Ptr.cmp_lt_asymm (p2.1 x hx'))
    subst hxy
    congr 1
    apply strictSorted_ext p1.2 p2.2
    intro e
    have hne1 : e ∈ xs → e ≠ x := fun he heq => Ptr.cmp_lt_irrefl x.1 (heq ▸ p1.1 e he)
    have hne2 : e ∈ ys → e ≠ x := fun he heq => Ptr.cmp_lt_irrefl x.1 (heq ▸ p2.1 e he)
    constructor
    · intro he
      rcases List.mem_cons.1 ((h e).1 (List.mem_cons_of_mem _ he)) with e' | h'
      · exact absurd e' (hne1 he)
      · exact h'
    · intro he
      rcases List.mem_cons.1 ((h e).2 (List.mem_cons_of_mem _ he)) with e' | h'
      · exact absurd e' (hne2 he)
      · exact h'

end Sdd
