import RsddModel.Lemmas.SddSem
import RsddModel.Lemmas.SddOrder
/-!
# SDD lemmas, part 3: structural well-formedness (`WFs`) and canonicity (towards C04)

`WFs vt p` is the full "compressed, trimmed, normalised" predicate:
* primes non-false, pairwise exclusive and exhaustive (`Partition`), over the variables of the
  left child of the node's vtree index; subs over the variables of the right child and pairwise
  distinct; the node is not trimmable;
* plus the normal-form clauses that make *pointer identity* canonical in this implementation:
  elements strictly sorted by prime (the derived `Ord`), complement bit normalised on the first
  sub (`unique_or`) / on the high edge (`unique_bdd`), two-literal-prime decisions are binary nodes.
-/
namespace Sdd
open Spec

/-! ## variables, size -/

mutual
def Ptr.vars : Ptr → List Nat
  | .tru => []
  | .fls => []
  | .lit v _ => [v]
  | .bdd _ l _ lo hi => l :: (lo.vars ++ hi.vars)
  | .dec _ _ es => varsElems es
def varsElems : List (Ptr × Ptr) → List Nat
  | [] => []
  | (p, s) :: r => p.vars ++ (s.vars ++ varsElems r)
end

mutual
def Ptr.size : Ptr → Nat
  | .tru => 1
  | .fls => 1
  | .lit _ _ => 1
  | .bdd _ _ _ lo hi => 3 + lo.size + hi.size
  | .dec _ _ es => 1 + sizeElems es
def sizeElems : List (Ptr × Ptr) → Nat
  | [] => 0
  | (p, s) :: r => p.size + s.size + sizeElems r
end

theorem vars_neg (p : Ptr) : p.neg.vars = p.vars := by cases p <;> simp [Ptr.neg, Ptr.vars]
theorem size_neg (p : Ptr) : p.neg.size = p.size := by cases p <;> simp [Ptr.neg, Ptr.size]
theorem size_pos (p : Ptr) : 0 < p.size := by cases p <;> simp [Ptr.size] <;> omega

theorem mem_varsElems {v : Nat} {es : List Elem} :
    v ∈ varsElems es ↔ ∃ e ∈ es, v ∈ e.1.vars ∨ v ∈ e.2.vars := by
  induction es with
  | nil => simp [varsElems]
  | cons e l ih =>
    obtain ⟨p, s⟩ := e
    simp only [varsElems, List.mem_append, ih, List.mem_cons, exists_eq_or_imp]
    constructor
    · rintro (h | h | h)
      · exact Or.inl (Or.inl h)
      · exact Or.inl (Or.inr h)
      · exact Or.inr h
    · rintro ((h | h) | h)
      · exact Or.inl h
      · exact Or.inr (Or.inl h)
      · exact Or.inr (Or.inr h)

theorem size_lt_of_mem {e : Elem} {es : List Elem} (h : e ∈ es) :
    e.1.size + e.2.size ≤ sizeElems es := by
  induction es with
  | nil => cases h
  | cons x l ih =>
    obtain ⟨p, s⟩ := x
    simp only [sizeElems]
    rcases List.mem_cons.1 h with rfl | h'
    · simp only; omega
    · have := ih h'; omega

mutual
theorem eval_congr : ∀ (p : Ptr) {a a' : Assign}, (∀ v ∈ p.vars, a v = a' v) → p.eval a = p.eval a'
  | .tru, _, _, _ => rfl
  | .fls, _, _, _ => rfl
  | .lit v pol, a, a', h => by
    have := h v (by simp [Ptr.vars]); simp [eval_lit, this]
  | .bdd c l i lo hi, a, a', h => by
    have h1 := h l (by simp [Ptr.vars])
    have h2 := eval_congr lo (a := a) (a' := a') (fun v hv => h v (by simp [Ptr.vars, hv]))
    have h3 := eval_congr hi (a := a) (a' := a') (fun v hv => h v (by simp [Ptr.vars, hv]))
    simp [eval_bdd, h1, h2, h3]
  | .dec c i es, a, a', h => by
    have := evalElems_congr es (a := a) (a' := a') (fun v hv => h v (by simpa [Ptr.vars] using hv))
    simp [eval_dec, this]
theorem evalElems_congr : ∀ (es : List (Ptr × Ptr)) {a a' : Assign},
    (∀ v ∈ varsElems es, a v = a' v) → evalElems a es = evalElems a' es
  | [], _, _, _ => rfl
  | (p, s) :: r, a, a', h => by
    have h1 := eval_congr p (a := a) (a' := a') (fun v hv => h v (by simp [varsElems, hv]))
    have h2 := eval_congr s (a := a) (a' := a') (fun v hv => h v (by simp [varsElems, hv]))
    have h3 := evalElems_congr r (a := a) (a' := a') (fun v hv => h v (by simp [varsElems, hv]))
    simp [h1, h2, h3]
end

/-! ## essential dependence -/

/-- `f` really depends on `v` -/
def EssDep (f : BoolFn) (v : Nat) : Prop := ∃ a, f (upd a v true) ≠ f (upd a v false)

/-- take the variables in `L` from `α`, the others from `β` -/
def mix (L : List Nat) (α β : Assign) : Assign := fun v => if v ∈ L then α v else β v

theorem mix_in {L α β v} (h : v ∈ L) : mix L α β v = α v := by simp [mix, h]
theorem mix_out {L α β v} (h : v ∉ L) : mix L α β v = β v := by simp [mix, h]

/-- two assignments that differ only inside `L` and are told apart by `f` witness an essential
variable of `f` in `L` -/
theorem essDep_of_diff (f : BoolFn) : ∀ (L : List Nat) (a a' : Assign),
    (∀ v, v ∉ L → a v = a' v) → f a ≠ f a' → ∃ v ∈ L, EssDep f v
  | [], a, a', hag, hne => by
    have : a = a' := funext fun v => hag v (by simp)
    exact absurd (this ▸ rfl) hne
  | x :: L, a, a', hag, hne => by
    -- move `a` to `a'` on `x` first
    let a1 : Assign := upd a x (a' x)
    by_cases h1 : f a = f a1
    · have hag' : ∀ v, v ∉ L → a1 v = a' v := by
        intro v hv
        by_cases hvx : v = x
        · subst hvx; simp [a1]
        · simp only [a1, upd, hvx, if_false]; exact hag v (by simp [hvx, hv])
      obtain ⟨v, hv, hd⟩ := essDep_of_diff f L a1 a' hag' (by rw [← h1]; exact hne)
      exact ⟨v, List.mem_cons_of_mem _ hv, hd⟩
    · refine ⟨x, List.mem_cons_self .., a, ?_⟩
      have ea : upd a x (a x) = a := upd_eq_self a x
      intro hc
      apply h1
      show f a = f (upd a x (a' x))
      cases hax : a x <;> cases hax' : a' x
      · rw [← hax, ea]
      · conv => lhs; rw [← ea, hax]
        exact hc.symm
      · conv => lhs; rw [← ea, hax]
        exact hc
      · rw [← hax, ea]

theorem essDep_vars {p : Ptr} {v : Nat} (h : EssDep (fun a => p.eval a) v) : v ∈ p.vars := by
  obtain ⟨a, ha⟩ := h
  apply Classical.byContradiction
  intro hv
  apply ha
  apply eval_congr
  intro w hw
  have : w ≠ v := fun e => hv (e ▸ hw)
  simp [upd, this]

/-! ## strictly sorted element lists -/

def StrictSorted (es : List Elem) : Prop := es.Pairwise (fun e f => Ptr.cmp e.1 f.1 = .lt)

theorem strictSorted_negSubs {es : List Elem} (h : StrictSorted es) : StrictSorted (negSubs es) := by
  unfold StrictSorted negSubs
  rw [List.pairwise_map]
  exact h

theorem strictSorted_insert {x : Elem} {l : List Elem} (hl : StrictSorted l)
    (hx : ∀ e ∈ l, e.1 ≠ x.1) : StrictSorted (insertByPrime x l) := by
  induction l with
  | nil => simp [insertByPrime, StrictSorted]
  | cons y ys ih =>
    have hy := List.pairwise_cons.1 hl
    simp only [insertByPrime]
    split
    · rename_i hgt
      have hlt : Ptr.cmp y.1 x.1 = .lt := Ptr.cmp_gt_iff.1 hgt
      refine List.pairwise_cons.2 ⟨?_, ih hy.2 (fun e he => hx e (List.mem_cons_of_mem _ he))⟩
      intro e he
      rcases mem_insertByPrime.1 he with rfl | h'
      · exact hlt
      · exact hy.1 e h'
    · rename_i hngt
      have hlt : Ptr.cmp x.1 y.1 = .lt := by
        cases hc : Ptr.cmp x.1 y.1
        · rfl
        · exact absurd (Ptr.cmp_eq _ _ hc).symm (hx y (List.mem_cons_self ..))
        · exact absurd hc hngt
      refine List.pairwise_cons.2 ⟨?_, hl⟩
      intro e he
      rcases List.mem_cons.1 he with rfl | h'
      · exact hlt
      · exact Ptr.cmp_lt_trans hlt (hy.1 e h')

theorem strictSorted_sort {l : List Elem} (h : (l.map (·.1)).Nodup) :
    StrictSorted (sortByPrime l) := by
  induction l with
  | nil => simp [sortByPrime, StrictSorted]
  | cons x xs ih =>
    simp only [List.map_cons, List.nodup_cons] at h
    simp only [sortByPrime]
    refine strictSorted_insert (ih h.2) ?_
    intro e he heq
    rw [mem_sortByPrime] at he
    exact h.1 (heq ▸ List.mem_map_of_mem he)

/-- two strictly sorted lists with the same members are equal -/
theorem strictSorted_ext : ∀ {l1 l2 : List Elem}, StrictSorted l1 → StrictSorted l2 →
    (∀ e, e ∈ l1 ↔ e ∈ l2) → l1 = l2
  | [], [], _, _, _ => rfl
  | [], y :: _, _, _, h => by have := (h y).2 (List.mem_cons_self ..); cases this
  | x :: _, [], _, _, h => by have := (h x).1 (List.mem_cons_self ..); cases this
  | x :: xs, y :: ys, h1, h2, h => by
    have p1 := List.pairwise_cons.1 h1
    have p2 := List.pairwise_cons.1 h2
    have hxy : x = y := by
      have hx := (h x).1 (List.mem_cons_self ..)
      have hy := (h y).2 (List.mem_cons_self ..)
      rcases List.mem_cons.1 hx with e | hx'
      · exact e
      · rcases List.mem_cons.1 hy with e | hy'
        · exact e.symm
        · exact absurd (p1.1 y hy') (Ptr.cmp_lt_asymm (p2.1 x hx'))
    subst hxy
    congr 1
    apply strictSorted_ext p1.2 p2.2
    intro e
    have hne1 : e ∈ xs → e ≠ x := fun he heq => Ptr.cmp_lt_irrefl x.1 (heq ▸ p1.1 e he)
    have hne2 : e ∈ ys → e ≠ x := fun he heq => Ptr.cmp_lt_irrefl x.1 (heq ▸ p2.1 e he)
    constructor
    · intro he
      rcases List.mem_cons.1 ((h e).1 (List.mem_cons_of_mem _ he)) with e' | h'
      · exact absurd e' (hne1 he)
      · exact h'
    · intro he
      rcases List.mem_cons.1 ((h e).2 (List.mem_cons_of_mem _ he)) with e' | h'
      · exact absurd e' (hne2 he)
      · exact h'


/-! ## vtree: variables under a node, laminarity -/

def VTree.leftVars (t : VTree) (i : Nat) : List Nat :=
  match t.sub? 0 i with
  | some (.node l _) => l.leaves
  | _ => []
def VTree.rightVars (t : VTree) (i : Nat) : List Nat :=
  match t.sub? 0 i with
  | some (.node _ r) => r.leaves
  | _ => []
def VTree.varsAt (t : VTree) (i : Nat) : List Nat :=
  match t.sub? 0 i with
  | some s => s.leaves
  | none => []

theorem VTree.sub?_leaves {t : VTree} {off i : Nat} {s : VTree} (h : t.sub? off i = some s) :
    ∀ v ∈ s.leaves, v ∈ t.leaves := by
  induction t generalizing off with
  | leaf w =>
    simp only [VTree.sub?] at h
    split at h
    · cases h; exact fun v hv => hv
    · cases h
  | node l r ihl ihr =>
    simp only [VTree.sub?] at h
    split at h
    · intro v hv; simp only [VTree.leaves, List.mem_append]; exact Or.inl (ihl h v hv)
    · split at h
      · cases h; exact fun v hv => hv
      · intro v hv; simp only [VTree.leaves, List.mem_append]; exact Or.inr (ihr h v hv)

theorem VTree.sub?_nodup {t : VTree} {off i : Nat} {s : VTree} (hn : t.leaves.Nodup)
    (h : t.sub? off i = some s) : s.leaves.Nodup := by
  induction t generalizing off with
  | leaf w =>
    simp only [VTree.sub?] at h
    split at h
    · cases h; exact hn
    · cases h
  | node l r ihl ihr =>
    simp only [VTree.leaves, List.nodup_append] at hn
    simp only [VTree.sub?] at h
    split at h
    · exact ihl hn.1 h
    · split at h
      · cases h; simp only [VTree.leaves, List.nodup_append]; exact hn
      · exact ihr hn.2.1 h

theorem nodup_append_disj {l r : List Nat} (h : (l ++ r).Nodup) {v : Nat} (h1 : v ∈ l)
    (h2 : v ∈ r) : False := by
  rw [List.nodup_append] at h
  exact h.2.2 v h1 v h2 rfl

/-- two internal vtree nodes, each of which splits a pair of variables that lies under the other,
coincide -/
theorem VTree.laminar {t : VTree} {off i j : Nat} {li ri lj rj : VTree} (hn : t.leaves.Nodup)
    (hi : t.sub? off i = some (.node li ri)) (hj : t.sub? off j = some (.node lj rj))
    {u v u' v' : Nat} (hu : u ∈ li.leaves) (hv : v ∈ ri.leaves)
    (huj : u ∈ (VTree.node lj rj).leaves) (hvj : v ∈ (VTree.node lj rj).leaves)
    (hu' : u' ∈ lj.leaves) (hv' : v' ∈ rj.leaves)
    (hui : u' ∈ (VTree.node li ri).leaves) (hvi : v' ∈ (VTree.node li ri).leaves) : i = j := by
  induction t generalizing off with
  | leaf w =>
    simp only [VTree.sub?] at hi
    split at hi <;> cases hi
  | node l r ihl ihr =>
    have hn' := hn
    simp only [VTree.leaves, List.nodup_append] at hn
    by_cases h1 : i < off + l.size
    · rw [VTree.sub?_node_lt h1] at hi
      by_cases h2 : j < off + l.size
      · rw [VTree.sub?_node_lt h2] at hj
        exact ihl hn.1 hi hj
      · by_cases h3 : j = off + l.size
        · exfalso
          rw [h3, VTree.sub?_node_eq] at hj
          cases hj
          exact nodup_append_disj hn' (VTree.sub?_leaves hi _ hvi) hv'
        · exfalso
          rw [VTree.sub?_node_gt (by omega)] at hj
          have a1 := VTree.sub?_leaves hi u (by simp [VTree.leaves, hu])
          exact nodup_append_disj hn' a1 (VTree.sub?_leaves hj _ huj)
    · by_cases h1' : i = off + l.size
      · rw [h1', VTree.sub?_node_eq] at hi
        by_cases h2 : j < off + l.size
        · exfalso
          rw [VTree.sub?_node_lt h2] at hj
          cases hi
          exact nodup_append_disj hn' (VTree.sub?_leaves hj _ hvj) hv
        · by_cases h3 : j = off + l.size
          · omega
          · exfalso
            rw [VTree.sub?_node_gt (by omega)] at hj
            cases hi
            exact nodup_append_disj hn' hu (VTree.sub?_leaves hj _ huj)
      · rw [VTree.sub?_node_gt (by omega)] at hi
        by_cases h2 : j < off + l.size
        · exfalso
          rw [VTree.sub?_node_lt h2] at hj
          have a1 := VTree.sub?_leaves hi u (by simp [VTree.leaves, hu])
          exact nodup_append_disj hn' (VTree.sub?_leaves hj _ huj) a1
        · by_cases h3 : j = off + l.size
          · exfalso
            rw [h3, VTree.sub?_node_eq] at hj
            cases hj
            exact nodup_append_disj hn' hu' (VTree.sub?_leaves hi _ hui)
          · rw [VTree.sub?_node_gt (by omega)] at hj
            exact ihr hn.2.1 hi hj

theorem VTree.left_right_disj {t : VTree} {i v : Nat} (hn : t.leaves.Nodup)
    (h1 : v ∈ t.leftVars i) (h2 : v ∈ t.rightVars i) : False := by
  simp only [VTree.leftVars, VTree.rightVars] at h1 h2
  cases h : t.sub? 0 i with
  | none => simp [h] at h1
  | some s =>
    cases s with
    | leaf w => simp [h] at h1
    | node l r =>
      simp only [h] at h1 h2
      have := VTree.sub?_nodup hn h
      exact nodup_append_disj (by simpa [VTree.leaves] using this) h1 h2

/-! ## the structural predicate -/

/-- `unique_or` / `unique_bdd` keep the complement off these -/
def Ptr.regular (s : Ptr) : Bool := !(s.isNeg || s.isFalse || s.isNegVar)

mutual
/-- compressed, trimmed, normalised, in pointer normal form -/
def WFs (vt : VTree) : Ptr → Prop
  | .tru => True
  | .fls => True
  | .lit v _ => v ∈ vt.leaves
  | .bdd _ l i lo hi =>
    Internal vt i ∧ l ∈ vt.leftVars i ∧ WFs vt lo ∧ WFs vt hi ∧
    (∀ v ∈ lo.vars, v ∈ vt.rightVars i) ∧ (∀ v ∈ hi.vars, v ∈ vt.rightVars i) ∧
    lo ≠ hi ∧ ¬(hi = .tru ∧ lo = .fls) ∧ ¬(hi = .fls ∧ lo = .tru) ∧ hi.regular = true
  | .dec _ i es =>
    Internal vt i ∧ Partition es ∧ WFsElems vt i es ∧ (es.map (·.2)).Nodup ∧ StrictSorted es ∧
    2 ≤ es.length ∧ asBdd? es = none ∧
    (∀ p q, es ≠ [(p, .tru), (q, .fls)] ∧ es ≠ [(p, .fls), (q, .tru)]) ∧
    (∀ e, es.head? = some e → e.2.regular = true)
def WFsElems (vt : VTree) (i : Nat) : List (Ptr × Ptr) → Prop
  | [] => True
  | (p, s) :: r =>
    (WFs vt p ∧ WFs vt s ∧ p ≠ .fls ∧ (∀ v ∈ p.vars, v ∈ vt.leftVars i) ∧
      (∀ v ∈ s.vars, v ∈ vt.rightVars i)) ∧ WFsElems vt i r
end

/-- per-element reading -/
def ElemOKs (vt : VTree) (i : Nat) (e : Elem) : Prop :=
  WFs vt e.1 ∧ WFs vt e.2 ∧ e.1 ≠ .fls ∧ (∀ v ∈ e.1.vars, v ∈ vt.leftVars i) ∧
    (∀ v ∈ e.2.vars, v ∈ vt.rightVars i)

theorem wfsElems_iff {vt : VTree} {i : Nat} {es : List Elem} :
    WFsElems vt i es ↔ ∀ e ∈ es, ElemOKs vt i e := by
  induction es with
  | nil => simp [WFsElems]
  | cons e l ih =>
    obtain ⟨p, s⟩ := e
    simp only [WFsElems, ih, List.mem_cons, forall_eq_or_imp, ElemOKs]

theorem WFs_tru (vt) : WFs vt .tru := by simp [WFs]
theorem WFs_fls (vt) : WFs vt .fls := by simp [WFs]

theorem WFs_neg {vt} {p : Ptr} (h : WFs vt p) : WFs vt p.neg := by
  cases p <;> first | exact h | (simp only [Ptr.neg, WFs] at h ⊢; exact h)

theorem regular_neg {s : Ptr} (h : s.regular = true) : s.neg.regular = false := by
  cases s with
  | tru => simp [Ptr.neg, Ptr.regular, Ptr.isFalse]
  | fls => simp [Ptr.regular, Ptr.isFalse] at h
  | lit v p => cases p <;> simp_all [Ptr.neg, Ptr.regular, Ptr.isNegVar, Ptr.isNeg, Ptr.isFalse]
  | bdd c l i lo hi => cases c <;> simp_all [Ptr.neg, Ptr.regular, Ptr.isNegVar, Ptr.isNeg, Ptr.isFalse]
  | dec c i es => cases c <;> simp_all [Ptr.neg, Ptr.regular, Ptr.isNegVar, Ptr.isNeg, Ptr.isFalse]

theorem neg_inj {p q : Ptr} (h : p.neg = q.neg) : p = q := by
  have := congrArg Ptr.neg h; simpa using this


/-! ## compressed partitions of a function w.r.t. a variable split are unique -/

theorem exists_sel {a : Assign} {es : List Elem} (h : 1 ≤ cnt a es) :
    ∃ e ∈ es, e.1.eval a = true := by
  induction es with
  | nil => simp at h
  | cons x l ih =>
    rw [cnt_cons] at h
    cases hx : x.1.eval a
    · simp only [hx] at h
      obtain ⟨e, he, hp⟩ := ih (by simpa using h)
      exact ⟨e, List.mem_cons_of_mem _ he, hp⟩
    · exact ⟨x, List.mem_cons_self .., hx⟩

theorem sel_unique {a : Assign} {es : List Elem} (h : cnt a es ≤ 1) {e1 e2 : Elem}
    (h1 : e1 ∈ es) (h2 : e2 ∈ es) (p1 : e1.1.eval a = true) (p2 : e2.1.eval a = true) :
    e1 = e2 := by
  induction es with
  | nil => cases h1
  | cons x l ih =>
    rw [cnt_cons] at h
    rcases List.mem_cons.1 h1 with rfl | h1'
    · rcases List.mem_cons.1 h2 with rfl | h2'
      · rfl
      · have := cnt_pos_of_mem h2' p2
        simp only [p1, if_true] at h; omega
    · rcases List.mem_cons.1 h2 with rfl | h2'
      · have := cnt_pos_of_mem h1' p1
        simp only [p2, if_true] at h; omega
      · exact ih (by omega) h1' h2'

/-- semantic reading of "compressed `(L, R)`-partition" -/
structure SemCP (L R : List Nat) (es : List Elem) : Prop where
  part : Partition es
  sat : ∀ e ∈ es, ∃ a, e.1.eval a = true
  pdep : ∀ e ∈ es, ∀ a a' : Assign, (∀ v ∈ L, a v = a' v) → e.1.eval a = e.1.eval a'
  sdep : ∀ e ∈ es, ∀ a a' : Assign, (∀ v ∈ R, a v = a' v) → e.2.eval a = e.2.eval a'
  distinct : ∀ e1 ∈ es, ∀ e2 ∈ es, (∀ a, e1.2.eval a = e2.2.eval a) → e1 = e2

section unique
variable {L R : List Nat} {es es' : List Elem}

theorem semCP_subs_agree (hd : ∀ v, v ∈ L → v ∈ R → False) (h1 : SemCP L R es)
    (h2 : SemCP L R es') (heq : ∀ a, evalElems a es = evalElems a es') {a : Assign} {e e' : Elem}
    (he : e ∈ es) (he' : e' ∈ es') (hp : e.1.eval a = true) (hp' : e'.1.eval a = true) :
    ∀ β, e.2.eval β = e'.2.eval β := by
  intro β
  have hL : ∀ v ∈ L, (mix L a β) v = a v := fun v hv => mix_in hv
  have hR : ∀ v ∈ R, (mix L a β) v = β v := fun v hv => mix_out (fun hl => hd v hl hv)
  have e1 : e.1.eval (mix L a β) = true := by rw [h1.pdep e he _ _ hL]; exact hp
  have e2 : e'.1.eval (mix L a β) = true := by rw [h2.pdep e' he' _ _ hL]; exact hp'
  have := heq (mix L a β)
  rw [evalElems_of_mem (h1.part _) he e1, evalElems_of_mem (h2.part _) he' e2,
    h1.sdep e he _ _ hR, h2.sdep e' he' _ _ hR] at this
  exact this

/-- **uniqueness of compressed partitions**: two compressed `(L, R)`-partitions of the same
function consist of the same (prime function, sub function) pairs -/
theorem partition_unique (hd : ∀ v, v ∈ L → v ∈ R → False) (h1 : SemCP L R es)
    (h2 : SemCP L R es') (heq : ∀ a, evalElems a es = evalElems a es') :
    ∀ e ∈ es, ∃ e' ∈ es', (∀ a, e.1.eval a = e'.1.eval a) ∧ (∀ a, e.2.eval a = e'.2.eval a) := by
  intro e he
  obtain ⟨α, hα⟩ := h1.sat e he
  obtain ⟨e', he', hα'⟩ := exists_sel (a := α) (es := es') (by rw [h2.part α]; exact Nat.le_refl 1)
  have hst := semCP_subs_agree hd h1 h2 heq he he' hα hα'
  refine ⟨e', he', fun a => ?_, hst⟩
  cases hpa : e.1.eval a
  · cases hqa : e'.1.eval a
    · rfl
    · exfalso
      obtain ⟨e2, he2, hp2⟩ := exists_sel (a := a) (es := es) (by rw [h1.part a]; exact Nat.le_refl 1)
      have h2t := semCP_subs_agree hd h1 h2 heq he2 he' hp2 hqa
      have : e2 = e := h1.distinct e2 he2 e he (fun b => by rw [h2t b, hst b])
      rw [this, hpa] at hp2; cases hp2
  · obtain ⟨e2', he2', hp2'⟩ := exists_sel (a := a) (es := es') (by rw [h2.part a]; exact Nat.le_refl 1)
    have hst2 := semCP_subs_agree hd h1 h2 heq he he2' hpa hp2'
    have : e2' = e' := h2.distinct e2' he2' e' he' (fun b => by rw [← hst2 b, hst b])
    rw [← this]; exact hp2'.symm

end unique


/-! ## uniform view of binary and decision nodes -/

/-- what a well formed node (binary or decision) with complement flag `c`, vtree index `i` and raw
elements `es` provides -/
structure NodeFacts (vt : VTree) (n : Ptr) (c : Bool) (i : Nat) (es : List Elem) : Prop where
  eval : ∀ a, n.eval a = xor c (evalElems a es)
  internal : Internal vt i
  part : Partition es
  ok : ∀ e ∈ es, ElemOKs vt i e
  nodup : (es.map (·.2)).Nodup
  len : 2 ≤ es.length
  untrim : ¬ ∀ e ∈ es, e.2 = .tru ∨ e.2 = .fls
  size : sizeElems es < n.size
  vars : ∀ v ∈ n.vars, v ∈ vt.leftVars i ∨ v ∈ vt.rightVars i

theorem nodeFacts_bdd {vt : VTree} {c l i lo hi} (h : WFs vt (.bdd c l i lo hi)) :
    NodeFacts vt (.bdd c l i lo hi) c i [(.lit l true, hi), (.lit l false, lo)] := by
  obtain ⟨hint, hl, wlo, whi, vlo, vhi, hne, ht1, ht2, hreg⟩ := h
  have hlv : l ∈ vt.leaves := by
    simp only [VTree.leftVars] at hl
    obtain ⟨l', r', hs⟩ := hint
    simp only [hs] at hl
    exact VTree.sub?_leaves hs l (by simp [VTree.leaves, hl])
  refine ⟨fun a => ?_, hint, fun a => ?_, ?_, ?_, by simp, ?_, ?_, ?_⟩
  · simp only [eval_bdd, evalElems_cons, evalElems_nil, eval_lit]; cases a l <;> simp
  · simp only [cnt_cons, cnt_nil, eval_lit]; cases a l <;> simp
  · intro e he
    simp only [List.mem_cons, List.not_mem_nil, or_false] at he
    rcases he with rfl | rfl
    · exact ⟨hlv, whi, by simp, by simpa [Ptr.vars] using hl, vhi⟩
    · exact ⟨hlv, wlo, by simp, by simpa [Ptr.vars] using hl, vlo⟩
  · simp only [List.map_cons, List.map_nil, List.nodup_cons, List.mem_singleton,
      List.not_mem_nil, not_false_eq_true, List.nodup_nil, and_true]
    exact fun e => hne e.symm
  · intro hall
    have h1 := hall (.lit l true, hi) (by simp)
    have h2 := hall (.lit l false, lo) (by simp)
    simp only at h1 h2
    rcases h1 with h1 | h1 <;> rcases h2 with h2 | h2
    · exact hne (h2.trans h1.symm)
    · exact ht1 ⟨h1, h2⟩
    · exact ht2 ⟨h1, h2⟩
    · exact hne (h2.trans h1.symm)
  · simp only [sizeElems, Ptr.size]; omega
  · intro v hv
    simp only [Ptr.vars, List.mem_cons, List.mem_append] at hv
    rcases hv with rfl | hv | hv
    · exact Or.inl hl
    · exact Or.inr (vlo v hv)
    · exact Or.inr (vhi v hv)

theorem nodup_two_const {es : List Elem} (hn : (es.map (·.2)).Nodup) (hl : 2 ≤ es.length)
    (hall : ∀ e ∈ es, e.2 = .tru ∨ e.2 = .fls) :
    ∃ p q, es = [(p, .tru), (q, .fls)] ∨ es = [(p, .fls), (q, .tru)] := by
  match es, hl with
  | [e1, e2], _ =>
    obtain ⟨p, s⟩ := e1
    obtain ⟨q, t⟩ := e2
    have h1 := hall (p, s) (by simp)
    have h2 := hall (q, t) (by simp)
    simp only [List.map_cons, List.map_nil, List.nodup_cons, List.mem_singleton,
      List.not_mem_nil, not_false_eq_true, List.nodup_nil, and_true] at hn
    simp only at h1 h2
    refine ⟨p, q, ?_⟩
    rcases h1 with rfl | rfl <;> rcases h2 with rfl | rfl
    · exact absurd rfl hn
    · exact Or.inl rfl
    · exact Or.inr rfl
    · exact absurd rfl hn
  | e1 :: e2 :: e3 :: rest, _ =>
    exfalso
    have h1 := hall e1 (by simp)
    have h2 := hall e2 (by simp)
    have h3 := hall e3 (by simp)
    simp only [List.map_cons, List.nodup_cons, List.mem_cons, not_or] at hn
    obtain ⟨⟨n12, n13, _⟩, ⟨n23, _⟩, _⟩ := hn
    rcases h1 with h1 | h1 <;> rcases h2 with h2 | h2 <;> rcases h3 with h3 | h3 <;>
      simp_all

theorem nodeFacts_dec {vt : VTree} {c i es} (h : WFs vt (.dec c i es)) :
    NodeFacts vt (.dec c i es) c i es := by
  obtain ⟨hint, hpart, hok, hnd, _, hlen, _, htrim, _⟩ := h
  rw [wfsElems_iff] at hok
  refine ⟨fun a => by simp [eval_dec], hint, hpart, hok, hnd, hlen, ?_, ?_, ?_⟩
  · intro hall
    obtain ⟨p, q, h | h⟩ := nodup_two_const hnd hlen hall
    · exact (htrim p q).1 h
    · exact (htrim p q).2 h
  · simp [Ptr.size]
  · intro v hv
    simp only [Ptr.vars, mem_varsElems] at hv
    obtain ⟨e, he, hv | hv⟩ := hv
    · exact Or.inl ((hok e he).2.2.2.1 v hv)
    · exact Or.inr ((hok e he).2.2.2.2 v hv)

theorem size_two_mem {e1 e2 : Elem} {es : List Elem} (h1 : e1 ∈ es) (h2 : e2 ∈ es) (hne : e1 ≠ e2) :
    e1.1.size + e1.2.size + (e2.1.size + e2.2.size) ≤ sizeElems es := by
  induction es with
  | nil => cases h1
  | cons x l ih =>
    obtain ⟨p, s⟩ := x
    simp only [sizeElems]
    rcases List.mem_cons.1 h1 with rfl | h1'
    · rcases List.mem_cons.1 h2 with rfl | h2'
      · exact absurd rfl hne
      · have := size_lt_of_mem h2'; simp only at this ⊢; omega
    · rcases List.mem_cons.1 h2 with rfl | h2'
      · have := size_lt_of_mem h1'; simp only at this ⊢; omega
      · have := ih h1' h2'; omega

theorem sub_eq_of_nodup {es : List Elem} (hn : (es.map (·.2)).Nodup) {e1 e2 : Elem}
    (h1 : e1 ∈ es) (h2 : e2 ∈ es) (h : e1.2 = e2.2) : e1 = e2 := by
  induction es with
  | nil => cases h1
  | cons x l ih =>
    simp only [List.map_cons, List.nodup_cons] at hn
    rcases List.mem_cons.1 h1 with rfl | h1'
    · rcases List.mem_cons.1 h2 with rfl | h2'
      · rfl
      · exact absurd (h ▸ List.mem_map_of_mem (f := (·.2)) h2') hn.1
    · rcases List.mem_cons.1 h2 with rfl | h2'
      · exact absurd (h ▸ List.mem_map_of_mem (f := (·.2)) h1') hn.1
      · exact ih hn.2 h1' h2'

/-! ## canonicity -/

/-- canonicity for all pairs of total size at most `n` -/
def CanonUpTo (vt : VTree) (n : Nat) : Prop :=
  ∀ a b : Ptr, a.size + b.size ≤ n → WFs vt a → WFs vt b →
    (∀ asg, a.eval asg = b.eval asg) → a = b

section canon
variable {vt : VTree} (hnd : vt.leaves.Nodup) {n : Nat} (IH : CanonUpTo vt n)
include hnd IH

omit hnd in
theorem semCP_of_node {x : Ptr} {c : Bool} {i : Nat} {es : List Elem}
    (hf : NodeFacts vt x c i es) (hsz : sizeElems es + 1 ≤ n) :
    SemCP (vt.leftVars i) (vt.rightVars i) es := by
  refine ⟨hf.part, ?_, ?_, ?_, ?_⟩
  · intro e he
    apply Classical.byContradiction
    intro hno
    have hF : ∀ a, e.1.eval a = Ptr.fls.eval a := by
      intro a
      cases h : e.1.eval a
      · simp
      · exact absurd ⟨a, h⟩ hno
    have := IH e.1 .fls (by have := size_lt_of_mem he; simp only [Ptr.size]; omega)
      (hf.ok e he).1 (WFs_fls vt) hF
    exact (hf.ok e he).2.2.1 this
  · intro e he a a' h
    exact eval_congr e.1 (fun v hv => h v ((hf.ok e he).2.2.2.1 v hv))
  · intro e he a a' h
    exact eval_congr e.2 (fun v hv => h v ((hf.ok e he).2.2.2.2 v hv))
  · intro e1 h1 e2 h2 heq
    apply Classical.byContradiction
    intro hne
    have hs := size_two_mem h1 h2 hne
    have := IH e1.2 e2.2 (by omega) (hf.ok e1 h1).2.1 (hf.ok e2 h2).2.1 heq
    exact hne (sub_eq_of_nodup hf.nodup h1 h2 this)

omit hnd IH in
theorem semCP_negSubs {L R : List Nat} {es : List Elem} (h : SemCP L R es) :
    SemCP L R (negSubs es) := by
  have hm : ∀ e ∈ negSubs es, ∃ e0 ∈ es, e = (e0.1, e0.2.neg) := by
    intro e he
    simp only [negSubs, List.mem_map] at he
    obtain ⟨e0, h0, rfl⟩ := he
    exact ⟨e0, h0, rfl⟩
  refine ⟨fun a => by rw [cnt_negSubs]; exact h.part a, ?_, ?_, ?_, ?_⟩
  · intro e he; obtain ⟨e0, h0, rfl⟩ := hm e he; exact h.sat e0 h0
  · intro e he a a' hh; obtain ⟨e0, h0, rfl⟩ := hm e he; exact h.pdep e0 h0 a a' hh
  · intro e he a a' hh; obtain ⟨e0, h0, rfl⟩ := hm e he
    simp only [eval_neg]; rw [h.sdep e0 h0 a a' hh]
  · intro e1 h1 e2 h2 heq
    obtain ⟨a1, ha1, rfl⟩ := hm e1 h1
    obtain ⟨a2, ha2, rfl⟩ := hm e2 h2
    have : a1 = a2 := h.distinct a1 ha1 a2 ha2 (fun a => by
      have := heq a; simp only [eval_neg] at this
      cases h1 : a1.2.eval a <;> cases h2 : a2.2.eval a <;> simp_all)
    rw [this]

/-- a well formed node essentially depends on a variable of its left and of its right child -/
theorem node_essDep {x : Ptr} {c : Bool} {i : Nat} {es : List Elem}
    (hf : NodeFacts vt x c i es) (hsz : sizeElems es + 1 ≤ n) :
    (∃ u ∈ vt.leftVars i, EssDep (fun a => x.eval a) u) ∧
    (∃ v ∈ vt.rightVars i, EssDep (fun a => x.eval a) v) := by
  have hcp := semCP_of_node IH hf hsz
  have hdisj : ∀ v, v ∈ vt.leftVars i → v ∈ vt.rightVars i → False :=
    fun v h1 h2 => VTree.left_right_disj hnd h1 h2
  constructor
  · -- two elements with different subs
    match es, hf.len with
    | e1 :: e2 :: rest, _ =>
      have m1 : e1 ∈ e1 :: e2 :: rest := by simp
      have m2 : e2 ∈ e1 :: e2 :: rest := by simp
      have hne : e1 ≠ e2 := by
        intro e
        have := hf.nodup
        simp only [List.map_cons, List.nodup_cons, List.mem_cons, not_or] at this
        exact this.1.1 (by rw [e])
      have hsem : ¬ ∀ a, e1.2.eval a = e2.2.eval a := fun h => hne (hcp.distinct e1 m1 e2 m2 h)
      obtain ⟨β, hβ⟩ : ∃ β, e1.2.eval β ≠ e2.2.eval β := by
        apply Classical.byContradiction
        intro hno
        exact hsem fun a => Classical.byContradiction fun h => hno ⟨a, h⟩
      obtain ⟨α1, h1⟩ := hcp.sat e1 m1
      obtain ⟨α2, h2⟩ := hcp.sat e2 m2
      let L := vt.leftVars i
      have ev : ∀ (e : Elem) (α : Assign), e ∈ e1 :: e2 :: rest → e.1.eval α = true →
          evalElems (mix L α β) (e1 :: e2 :: rest) = e.2.eval β := by
        intro e α he hα
        have hp : e.1.eval (mix L α β) = true := by
          rw [hcp.pdep e he _ α (fun v hv => mix_in hv)]; exact hα
        rw [evalElems_of_mem (hcp.part _) he hp]
        exact hcp.sdep e he _ _ (fun v hv => mix_out (fun hl => hdisj v hl hv))
      have hdiff : (fun a => x.eval a) (mix L α1 β) ≠ (fun a => x.eval a) (mix L α2 β) := by
        simp only [hf.eval, ev e1 α1 m1 h1, ev e2 α2 m2 h2]
        intro h; apply hβ
        cases c <;> simpa using h
      exact essDep_of_diff _ L _ _ (fun v hv => by simp [mix, hv]) hdiff
  · -- a non-constant sub
    have : ∃ e ∈ es, e.2 ≠ .tru ∧ e.2 ≠ .fls := by
      apply Classical.byContradiction
      intro hno
      apply hf.untrim
      intro e he
      apply Classical.byContradiction
      intro h
      simp only [not_or] at h
      exact hno ⟨e, he, h⟩
    obtain ⟨e, he, hT, hF⟩ := this
    have hsz' := size_lt_of_mem he
    have nT : ¬ ∀ a, e.2.eval a = Ptr.tru.eval a := fun h =>
      hT (IH e.2 .tru (by simp only [Ptr.size]; omega) (hf.ok e he).2.1 (WFs_tru vt) h)
    have nF : ¬ ∀ a, e.2.eval a = Ptr.fls.eval a := fun h =>
      hF (IH e.2 .fls (by simp only [Ptr.size]; omega) (hf.ok e he).2.1 (WFs_fls vt) h)
    obtain ⟨β, hβ⟩ : ∃ β, e.2.eval β = false := by
      apply Classical.byContradiction
      intro hno
      apply nT; intro a
      cases h : e.2.eval a
      · exact absurd ⟨a, h⟩ hno
      · simp
    obtain ⟨β', hβ'⟩ : ∃ β, e.2.eval β = true := by
      apply Classical.byContradiction
      intro hno
      apply nF; intro a
      cases h : e.2.eval a
      · simp
      · exact absurd ⟨a, h⟩ hno
    obtain ⟨α, hα⟩ := hcp.sat e he
    let Rv := vt.rightVars i
    have ev : ∀ γ : Assign, evalElems (mix Rv γ α) es = e.2.eval γ := by
      intro γ
      have hp : e.1.eval (mix Rv γ α) = true := by
        rw [hcp.pdep e he _ α (fun v hv => mix_out (fun hr => hdisj v hv hr))]; exact hα
      rw [evalElems_of_mem (hcp.part _) he hp]
      exact hcp.sdep e he _ _ (fun v hv => mix_in hv)
    have hdiff : (fun a => x.eval a) (mix Rv β α) ≠ (fun a => x.eval a) (mix Rv β' α) := by
      simp only [hf.eval, ev, hβ, hβ']
      cases c <;> simp
    exact essDep_of_diff _ Rv _ _ (fun v hv => by simp [mix, hv]) hdiff

omit hnd IH in
theorem essDep_congr {f g : BoolFn} (h : ∀ a, f a = g a) {v : Nat} (hd : EssDep f v) : EssDep g v := by
  obtain ⟨a, ha⟩ := hd
  exact ⟨a, by rw [← h, ← h]; exact ha⟩

/-- a node is not equivalent to a constant or a literal -/
theorem node_not_simple {x y : Ptr} {c : Bool} {i : Nat} {es : List Elem}
    (hf : NodeFacts vt x c i es) (hsz : sizeElems es + 1 ≤ n)
    (hy : ∀ v ∈ y.vars, ∀ w ∈ y.vars, v = w) (heq : ∀ a, x.eval a = y.eval a) : False := by
  obtain ⟨⟨u, hu, du⟩, ⟨v, hv, dv⟩⟩ := node_essDep hnd IH hf hsz
  have hu' := essDep_vars (p := y) (essDep_congr heq du)
  have hv' := essDep_vars (p := y) (essDep_congr heq dv)
  have := hy u hu' v hv'
  subst this
  exact VTree.left_right_disj hnd hu hv

omit hnd in
/-- semantic equality of element lists gives syntactic inclusion, by `partition_unique` and the
induction hypothesis -/
theorem members_sub {L R : List Nat} {es es' : List Elem} (hd : ∀ v, v ∈ L → v ∈ R → False)
    (h1 : SemCP L R es) (h2 : SemCP L R es') (heq : ∀ a, evalElems a es = evalElems a es')
    (w1 : ∀ e ∈ es, WFs vt e.1 ∧ WFs vt e.2) (w2 : ∀ e ∈ es', WFs vt e.1 ∧ WFs vt e.2)
    (hsz : ∀ e ∈ es, ∀ e' ∈ es', e.1.size + e'.1.size ≤ n ∧ e.2.size + e'.2.size ≤ n) :
    ∀ e ∈ es, e ∈ es' := by
  intro e he
  obtain ⟨e', he', hp, hs⟩ := partition_unique hd h1 h2 heq e he
  have e1 := IH e.1 e'.1 (hsz e he e' he').1 (w1 e he).1 (w2 e' he').1 hp
  have e2 := IH e.2 e'.2 (hsz e he e' he').2 (w1 e he).2 (w2 e' he').2 hs
  have : e = e' := Prod.ext e1 e2
  rw [this]; exact he'

omit hnd IH in
theorem mem_negSubs {e : Elem} {es : List Elem} :
    e ∈ negSubs es ↔ ∃ e0 ∈ es, e = (e0.1, e0.2.neg) := by
  simp only [negSubs, List.mem_map]
  constructor
  · rintro ⟨e0, h0, rfl⟩; exact ⟨e0, h0, rfl⟩
  · rintro ⟨e0, h0, rfl⟩; exact ⟨e0, h0, rfl⟩

/-- two equivalent well formed nodes sit at the same vtree node and have the same elements (up
to pushing a complement into the subs) -/
theorem node_node {a b : Ptr} {c c' : Bool} {i j : Nat} {es es' : List Elem}
    (hfa : NodeFacts vt a c i es) (hfb : NodeFacts vt b c' j es')
    (hsz : a.size + b.size ≤ n + 1) (heq : ∀ asg, a.eval asg = b.eval asg) :
    i = j ∧ ∀ e, e ∈ es ↔ e ∈ (if c = c' then es' else negSubs es') := by
  have hsa : sizeElems es + 1 ≤ n := by have := hfa.size; have := size_pos b; omega
  have hsb : sizeElems es' + 1 ≤ n := by have := hfb.size; have := size_pos a; omega
  have hij : i = j := by
    obtain ⟨⟨u, hu, du⟩, ⟨v, hv, dv⟩⟩ := node_essDep hnd IH hfa hsa
    obtain ⟨⟨u', hu', du'⟩, ⟨v', hv', dv'⟩⟩ := node_essDep hnd IH hfb hsb
    have hub := hfb.vars u (essDep_vars (p := b) (essDep_congr heq du))
    have hvb := hfb.vars v (essDep_vars (p := b) (essDep_congr heq dv))
    have hua := hfa.vars u' (essDep_vars (p := a) (essDep_congr (fun x => (heq x).symm) du'))
    have hva := hfa.vars v' (essDep_vars (p := a) (essDep_congr (fun x => (heq x).symm) dv'))
    obtain ⟨li, ri, hi⟩ := hfa.internal
    obtain ⟨lj, rj, hj⟩ := hfb.internal
    simp only [VTree.leftVars, VTree.rightVars, hi, hj] at hu hv hu' hv' hub hvb hua hva
    exact VTree.laminar hnd hi hj hu hv (by simpa [VTree.leaves] using hub)
      (by simpa [VTree.leaves] using hvb) hu' hv' (by simpa [VTree.leaves] using hua)
      (by simpa [VTree.leaves] using hva)
  subst hij
  refine ⟨rfl, ?_⟩
  have hdisj : ∀ v, v ∈ vt.leftVars i → v ∈ vt.rightVars i → False :=
    fun v h1 h2 => VTree.left_right_disj hnd h1 h2
  have cpa := semCP_of_node IH hfa hsa
  have cpb := semCP_of_node IH hfb hsb
  have wa : ∀ e ∈ es, WFs vt e.1 ∧ WFs vt e.2 := fun e he => ⟨(hfa.ok e he).1, (hfa.ok e he).2.1⟩
  have wb : ∀ e ∈ es', WFs vt e.1 ∧ WFs vt e.2 := fun e he => ⟨(hfb.ok e he).1, (hfb.ok e he).2.1⟩
  have hsize : ∀ e ∈ es, ∀ e' ∈ es', e.1.size + e'.1.size ≤ n ∧ e.2.size + e'.2.size ≤ n := by
    intro e he e' he'
    have h1 := size_lt_of_mem he
    have h2 := size_lt_of_mem he'
    have := hfa.size; have := hfb.size
    constructor <;> omega
  by_cases hc : c = c'
  · subst hc
    simp only [if_true]
    have hev : ∀ asg, evalElems asg es = evalElems asg es' := by
      intro asg
      have := heq asg
      rw [hfa.eval, hfb.eval] at this
      cases c <;> simpa using this
    intro e
    exact ⟨members_sub IH hdisj cpa cpb hev wa wb hsize e,
      members_sub IH hdisj cpb cpa (fun x => (hev x).symm) wb wa
        (fun e he e' he' => by have := hsize e' he' e he; omega) e⟩
  · simp only [hc, if_false]
    have cpb' := semCP_negSubs cpb
    have hev : ∀ asg, evalElems asg es = evalElems asg (negSubs es') := by
      intro asg
      have := heq asg
      rw [hfa.eval, hfb.eval] at this
      rw [evalElems_negSubs (hfb.part asg)]
      cases c <;> cases c' <;> simp_all
    have wb' : ∀ e ∈ negSubs es', WFs vt e.1 ∧ WFs vt e.2 := by
      intro e he
      obtain ⟨e0, h0, rfl⟩ := mem_negSubs.1 he
      exact ⟨(wb e0 h0).1, WFs_neg (wb e0 h0).2⟩
    have hsize' : ∀ e ∈ es, ∀ e' ∈ negSubs es',
        e.1.size + e'.1.size ≤ n ∧ e.2.size + e'.2.size ≤ n := by
      intro e he e' he'
      obtain ⟨e0, h0, rfl⟩ := mem_negSubs.1 he'
      simp only [size_neg]
      exact hsize e he e0 h0
    intro e
    exact ⟨members_sub IH hdisj cpa cpb' hev wa wb' hsize' e,
      members_sub IH hdisj cpb' cpa (fun x => (hev x).symm) wb' wa
        (fun e he e' he' => by have := hsize' e' he' e he; omega) e⟩

omit hnd IH in
theorem negSubs_primes (es : List Elem) : (negSubs es).map (·.1) = es.map (·.1) := by
  simp [negSubs, List.map_map, Function.comp_def]

omit hnd IH in
/-- a decision node in normal form never has the elements of a binary node -/
theorem bdd_dec_false {l : Nat} {hi lo : Ptr} {es' es'' : List Elem}
    (hpr : es''.map (·.1) = es'.map (·.1))
    (hmem : ∀ e, e ∈ [((Ptr.lit l true), hi), ((Ptr.lit l false), lo)] ↔ e ∈ es'')
    (hsort : StrictSorted es') (hlen : 2 ≤ es'.length) (hshape : asBdd? es' = none) : False := by
  have hprime : ∀ e ∈ es', e.1 = .lit l true ∨ e.1 = .lit l false := by
    intro e he
    have : e.1 ∈ es''.map (·.1) := by rw [hpr]; exact List.mem_map_of_mem he
    obtain ⟨e2, he2, h2⟩ := List.mem_map.1 this
    have := (hmem e2).2 he2
    simp only [List.mem_cons, List.not_mem_nil, or_false] at this
    rcases this with rfl | rfl
    · exact Or.inl h2.symm
    · exact Or.inr h2.symm
  match es', hlen with
  | [e1, e2], _ =>
    obtain ⟨p1, s1⟩ := e1
    obtain ⟨p2, s2⟩ := e2
    have h1 := hprime (p1, s1) (by simp)
    have h2 := hprime (p2, s2) (by simp)
    simp only at h1 h2
    rcases h1 with rfl | rfl <;> rcases h2 with rfl | rfl <;> simp [asBdd?] at hshape
  | e1 :: e2 :: e3 :: rest, _ =>
    have h1 := hprime e1 (by simp)
    have h2 := hprime e2 (by simp)
    have h3 := hprime e3 (by simp)
    simp only [StrictSorted, List.pairwise_cons, List.mem_cons, forall_eq_or_imp] at hsort
    obtain ⟨⟨s12, s13, _⟩, ⟨s23, _⟩, _⟩ := hsort
    have n12 : e1.1 ≠ e2.1 := fun e => Ptr.cmp_lt_irrefl e2.1 (e ▸ s12)
    have n13 : e1.1 ≠ e3.1 := fun e => Ptr.cmp_lt_irrefl e3.1 (e ▸ s13)
    have n23 : e2.1 ≠ e3.1 := fun e => Ptr.cmp_lt_irrefl e3.1 (e ▸ s23)
    rcases h1 with h1 | h1 <;> rcases h2 with h2 | h2 <;> rcases h3 with h3 | h3 <;>
      simp_all

/-- the induction step of canonicity -/
theorem canon_step : CanonUpTo vt (n + 1) := by
  intro a b hsz wa wb heq
  have simple_vars1 : ∀ (v : Nat) (p : Bool), ∀ x ∈ (Ptr.lit v p).vars, ∀ y ∈ (Ptr.lit v p).vars, x = y := by
    intro v p x hx y hy; simp only [Ptr.vars, List.mem_singleton] at hx hy; rw [hx, hy]
  have hsz' : ∀ {x y : Ptr} {c i es}, NodeFacts vt x c i es → x.size + y.size ≤ n + 1 →
      sizeElems es + 1 ≤ n := by
    intro x y c i es hf h; have := hf.size; have := size_pos y; omega
  -- node against a simple pointer
  have nodeL : ∀ {x y : Ptr} {c i es}, NodeFacts vt x c i es → x.size + y.size ≤ n + 1 →
      (∀ v ∈ y.vars, ∀ w ∈ y.vars, v = w) → (∀ asg, x.eval asg = y.eval asg) → False :=
    fun hf h hy he => node_not_simple hnd IH hf (hsz' hf h) hy he
  have novars : ∀ y : Ptr, y.vars = [] → ∀ v ∈ y.vars, ∀ w ∈ y.vars, v = w := by
    intro y hy v hv; rw [hy] at hv; cases hv
  cases a with
  | tru =>
    cases b with
    | tru => rfl
    | fls => have := heq (fun _ => true); simp at this
    | lit w q => have := heq (fun _ => !q); cases q <;> simp [eval_lit] at this
    | bdd c' l' j lo' hi' =>
      exact (nodeL (nodeFacts_bdd wb) (by omega) (novars _ rfl) (fun x => (heq x).symm)).elim
    | dec c' j es' =>
      exact (nodeL (nodeFacts_dec wb) (by omega) (novars _ rfl) (fun x => (heq x).symm)).elim
  | fls =>
    cases b with
    | tru => have := heq (fun _ => true); simp at this
    | fls => rfl
    | lit w q => have := heq (fun _ => q); cases q <;> simp [eval_lit] at this
    | bdd c' l' j lo' hi' =>
      exact (nodeL (nodeFacts_bdd wb) (by omega) (novars _ rfl) (fun x => (heq x).symm)).elim
    | dec c' j es' =>
      exact (nodeL (nodeFacts_dec wb) (by omega) (novars _ rfl) (fun x => (heq x).symm)).elim
  | lit v p =>
    cases b with
    | tru => have := heq (fun _ => !p); cases p <;> simp [eval_lit] at this
    | fls => have := heq (fun _ => p); cases p <;> simp [eval_lit] at this
    | lit w q =>
      by_cases hvw : v = w
      · subst hvw
        have := heq (fun _ => true)
        cases p <;> cases q <;> simp [eval_lit] at this ⊢
      · exfalso
        have := heq (fun x => if x = v then p else !q)
        have hwv : ¬ w = v := fun e => hvw e.symm
        cases p <;> cases q <;> simp [eval_lit, hwv] at this
    | bdd c' l' j lo' hi' =>
      exact (nodeL (nodeFacts_bdd wb) (by omega) (simple_vars1 v p) (fun x => (heq x).symm)).elim
    | dec c' j es' =>
      exact (nodeL (nodeFacts_dec wb) (by omega) (simple_vars1 v p) (fun x => (heq x).symm)).elim
  | bdd c l i lo hi =>
    have hfa := nodeFacts_bdd wa
    cases b with
    | tru => exact (nodeL hfa hsz (novars _ rfl) heq).elim
    | fls => exact (nodeL hfa hsz (novars _ rfl) heq).elim
    | lit w q => exact (nodeL hfa hsz (simple_vars1 w q) heq).elim
    | bdd c' l' j lo' hi' =>
      have hfb := nodeFacts_bdd wb
      obtain ⟨hij, hmem⟩ := node_node hnd IH hfa hfb hsz heq
      subst hij
      have rega := wa.2.2.2.2.2.2.2.2.2
      have regb := wb.2.2.2.2.2.2.2.2.2
      by_cases hc : c = c'
      · subst hc
        simp only [if_true] at hmem
        have h1 := (hmem (.lit l true, hi)).1 (by simp)
        have h2 := (hmem (.lit l false, lo)).1 (by simp)
        simp only [List.mem_cons, Prod.mk.injEq, Ptr.lit.injEq, List.not_mem_nil, or_false] at h1 h2
        simp only [Bool.true_eq_false, and_false, false_and, or_false, Bool.false_eq_true,
          false_or, and_true] at h1 h2
        rw [h1.1, h1.2, h2.2]
      · exfalso
        simp only [hc, if_false] at hmem
        have h1 := (hmem (.lit l true, hi)).1 (by simp)
        simp only [negSubs, List.map_cons, List.map_nil, List.mem_cons, Prod.mk.injEq,
          Ptr.lit.injEq, List.not_mem_nil, or_false] at h1
        simp only [Bool.true_eq_false, and_false, false_and, or_false, and_true] at h1
        have := regular_neg regb
        rw [← h1.2, rega] at this; cases this
    | dec c' j es' =>
      exfalso
      have hfb := nodeFacts_dec wb
      obtain ⟨hij, hmem⟩ := node_node hnd IH hfa hfb hsz heq
      obtain ⟨_, _, _, _, hsort, hlen, hshape, _, _⟩ := wb
      refine bdd_dec_false (es'' := if c = c' then es' else negSubs es') ?_ hmem hsort hlen hshape
      split
      · rfl
      · exact negSubs_primes es'
  | dec c i es =>
    have hfa := nodeFacts_dec wa
    cases b with
    | tru => exact (nodeL hfa hsz (novars _ rfl) heq).elim
    | fls => exact (nodeL hfa hsz (novars _ rfl) heq).elim
    | lit w q => exact (nodeL hfa hsz (simple_vars1 w q) heq).elim
    | bdd c' l' j lo' hi' =>
      exfalso
      have hfb := nodeFacts_bdd wb
      obtain ⟨hij, hmem⟩ := node_node hnd IH hfb hfa (by omega) (fun x => (heq x).symm)
      obtain ⟨_, _, _, _, hsort, hlen, hshape, _, _⟩ := wa
      refine bdd_dec_false (es'' := if c' = c then es else negSubs es) ?_ hmem hsort hlen hshape
      split
      · rfl
      · exact negSubs_primes es
    | dec c' j es' =>
      have hfb := nodeFacts_dec wb
      obtain ⟨hij, hmem⟩ := node_node hnd IH hfa hfb hsz heq
      subst hij
      obtain ⟨_, _, _, _, hsorta, hlena, _, _, hrega⟩ := wa
      obtain ⟨_, _, _, _, hsortb, hlenb, _, _, hregb⟩ := wb
      by_cases hc : c = c'
      · subst hc
        simp only [if_true] at hmem
        rw [strictSorted_ext hsorta hsortb hmem]
      · exfalso
        simp only [hc, if_false] at hmem
        have hes := strictSorted_ext hsorta (strictSorted_negSubs hsortb) hmem
        match es', hlenb with
        | e0 :: rest, _ =>
          have r1 := hregb e0 rfl
          have r2 := hrega (e0.1, e0.2.neg) (by rw [hes]; rfl)
          have := regular_neg r1
          simp only at r2
          rw [r2] at this; cases this

end canon

/-- **canonicity**: on a vtree with distinct leaf labels, two well formed (compressed, trimmed,
normalised) SDDs denote the same function iff they are the same pointer -/
theorem sdd_canon {vt : VTree} (hnd : vt.leaves.Nodup) {a b : Ptr} (wa : WFs vt a) (wb : WFs vt b) :
    (∀ asg, a.eval asg = b.eval asg) ↔ a = b := by
  constructor
  · intro heq
    have all : ∀ n, CanonUpTo vt n := by
      intro n
      induction n with
      | zero =>
        intro x y h; have := size_pos x; have := size_pos y; omega
      | succ n ih => exact canon_step hnd ih
    exact all (a.size + b.size) a b (Nat.le_refl _) wa wb heq
  · rintro rfl asg; rfl

#print axioms partition_unique
#print axioms sdd_canon

end Sdd
